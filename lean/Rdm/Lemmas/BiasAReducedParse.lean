/-
  Reduced-problem equivalence (C15), parameter level, all seven methods: `ParseParams` of each method as
  a function of the raw request parameters, the raw parameters of "the request with the omitted criteria
  deleted" (`restrictRaw`), and the seven commuting squares

        parse (all criteria)                      parse (kept criteria)
   raw ───────────────────────▶ mp          raw|kept ───────────────────────▶ mp''
                                 │ OnCriteriaRemoved(kept)                      ‖ (ParamsMatch)
                                 ▼                                              ‖
                                mp' ════════════════════════════════════════════╝

  Exact equality for weighted sum, ELECTRE III, majority, aspect elimination, satisfaction; for OWA the
  reduced request parses to the weight-sorted list of the same entries (OWA sorts anyway); for Choquet
  the two capacity tables agree on every subset of the kept criteria (the only keys the integral reads).
-/
import Rdm.Lemmas.BiasARestrict
import Rdm.Lemmas.UtilityCapacities
import Rdm.Lemmas.MapOrderParse
import Rdm.Model.Electre
set_option linter.unusedSectionVars false
set_option linter.unusedSimpArgs false
open Rdm
namespace Rdm.BiasA
variable {α : Type} [Num α]

/-! ### the raw method parameters of a request and `ParseParams` -/

/-- `DecisionMaker.MethodParameters` as the seven `ParseParams` read it (one constructor per method):
    the `weights` table for weighted sum / OWA / Choquet, `electreCriteria` + optional
    `electreDistillation`, the decoded structs of the three heuristics -/
inductive RawParams (α : Type) where
  | ws (w : KMap α)
  | owa (w : KMap α)
  | choquet (w : KMap α)
  | electre (ec : KMap (ECrit α)) (dist : Option (LinFun α))
  | majority (w : KMap α) (cur : String) (seed : Int) (rnd : Bool) (draw : String)
  | aspect (fn : String) (lv : Levels α) (seed : Int) (w : KMap α) (rnd : Bool)
  | satisf (fn : String) (lv : Levels α) (seed : Int) (cur : String) (rnd : Bool)

/-- `extractElectreIIICriteria`: every declared criterion has an entry and the entry is valid -/
def electreValidate (crits : List (Crit α)) (ec : KMap (ECrit α)) : R (List Unit) :=
  crits.mapM fun c =>
    match ec.get? c.id with
    | none => throw s!"electre-criterion-missing:{c.id}"
    | some t => validateParameters t

/-- `getDistillationFunc` -/
def electreDist (dist : Option (LinFun α)) : R (LinFun α) :=
  match dist with
  | none => pure defaultDistillation
  | some f => if validDistillation f then pure f else throw "distillation-negative"

/-- `ParseParams` of the seven methods:
    weighted sum — `ZipWithWeights`; OWA — count check, `toArray`, `_sortWeightsMutate`; Choquet — `parse`
    (result keyed canonically) + the criteria; ELECTRE III — the whole decoded table after validating the
    declared criteria, the (default) distillation function; the heuristics — the decoded struct as it is -/
def parseParams (crits : List (Crit α)) : RawParams α → R (MParams α)
  | .ws w => do pure (.ws (← zipWithWeights crits w))
  | .owa w =>
    if w.length != crits.length then throw "owa-weights-count"
    else do pure (.owa (sortWCrits (← zipWithWeights crits w)))
  | .choquet w => do pure (.choquet (← choquetParse crits w) crits)
  | .electre ec dist => do
    let _ ← electreValidate crits ec
    pure (.electre ec (← electreDist dist))
  | .majority w cur seed rnd dr => pure (.majority w cur seed rnd dr)
  | .aspect fn lv seed w rnd => pure (.aspect fn lv seed w rnd)
  | .satisf fn lv seed cur rnd => pure (.satisf fn lv seed cur rnd)

/-! ### the request with the omitted criteria deleted -/

/-- the capacity entries whose (canonical) key names kept criteria only -/
def restrictTable (kept : List (Crit α)) (w : KMap α) : KMap α :=
  w.filter fun kv => (splitKey (criterionKey (splitKey kv.1))).all fun p => (kept.map (·.id)).contains p

/-- the raw method parameters with every per-criterion table restricted to the kept criteria:
    weights / ELECTRE entries / threshold levels of the kept criteria, capacities of subsets of the kept
    criteria; everything else (current choice, seeds, flags, coefficient levels, distillation) as it is -/
def restrictRaw (kept : List (Crit α)) : RawParams α → RawParams α
  | .ws w => .ws (restrictMap w kept)
  | .owa w => .owa (restrictMap w kept)
  | .choquet w => .choquet (restrictTable kept w)
  | .electre ec dist => .electre (restrictMap ec kept) dist
  | .majority w cur seed rnd dr => .majority (restrictMap w kept) cur seed rnd dr
  | .aspect fn lv seed w rnd => .aspect fn (restrictLevels lv kept) seed (restrictMap w kept) rnd
  | .satisf fn lv seed cur rnd => .satisf fn (restrictLevels lv kept) seed cur rnd

/-- what "the same parameters" means between `OnCriteriaRemoved ∘ parse` and `parse ∘ restrict`:
    OWA — the reduced request's list is the weight-sorted one; Choquet — same criteria, and the capacity
    tables agree on every non-empty subset of the kept criteria; all other methods — equal -/
def ParamsMatch (kept : List (Crit α)) : MParams α → MParams α → Prop
  | .owa z, .owa z' => z' = sortWCrits z
  | .choquet fw cs, .choquet r' cs' =>
    cs = cs' ∧ ∀ s ∈ powerSet (kept.map (·.id)), fw.get? (criterionKey s) = r'.get? (criterionKey s)
  | .owa _, _ => False
  | .choquet _ _, _ => False
  | a, b => a = b

/-! ### the squares -/

theorem parseParams_ws (crits : List (Crit α)) (w : KMap α) :
    parseParams crits (.ws w) = (zipWithWeights crits w >>= fun z => pure (.ws z)) := rfl
theorem parseParams_owa (crits : List (Crit α)) (w : KMap α) :
    parseParams crits (.owa w) =
      if w.length != crits.length then throw "owa-weights-count"
      else zipWithWeights crits w >>= fun z => pure (.owa (sortWCrits z)) := rfl
theorem parseParams_choquet (crits : List (Crit α)) (w : KMap α) :
    parseParams crits (.choquet w) = (choquetParse crits w >>= fun r => pure (.choquet r crits)) := rfl
theorem parseParams_electre (crits : List (Crit α)) (ec : KMap (ECrit α)) (dist : Option (LinFun α)) :
    parseParams crits (.electre ec dist) =
      (electreValidate crits ec >>= fun _ => electreDist dist >>= fun d => pure (.electre ec d)) := rfl
theorem parseParams_majority (crits : List (Crit α)) (w : KMap α) (cur : String) (seed : Int) (rnd : Bool)
    (dr : String) : parseParams crits (.majority w cur seed rnd dr) = .ok (.majority w cur seed rnd dr) := rfl
theorem parseParams_aspect (crits : List (Crit α)) (fn : String) (lv : Levels α) (seed : Int) (w : KMap α)
    (rnd : Bool) : parseParams crits (.aspect fn lv seed w rnd) = .ok (.aspect fn lv seed w rnd) := rfl
theorem parseParams_satisf (crits : List (Crit α)) (fn : String) (lv : Levels α) (seed : Int) (cur : String)
    (rnd : Bool) : parseParams crits (.satisf fn lv seed cur rnd) = .ok (.satisf fn lv seed cur rnd) := rfl

theorem parse_ws_ok {crits : List (Crit α)} {w : KMap α} {mp : MParams α}
    (h : parseParams crits (.ws w) = .ok mp) : ∃ wc, zipWithWeights crits w = .ok wc ∧ mp = .ws wc := by
  rw [parseParams_ws, bind_ok] at h; obtain ⟨wc, hz, h⟩ := h
  rw [pure_ok] at h
  exact ⟨wc, hz, h.symm⟩

/-- weighted sum -/
theorem ws_square {all kept : List (Crit α)} {w : KMap α} {mp mp' : MParams α}
    (hp : parseParams all (.ws w) = .ok mp) (hnd : (all.map (·.id)).Nodup) (hsub : ∀ k ∈ kept, k ∈ all)
    (hr : onRemoved mp kept = .ok mp') :
    parseParams kept (restrictRaw kept (.ws w)) = .ok mp' := by
  obtain ⟨wc, hz, rfl⟩ := parse_ws_ok hp
  have := ws_reduced_commutes (w' := restrictMap w kept) hz hnd hsub (fun k hk => restrictMap_get? w kept hk)
  rw [this] at hr
  show parseParams kept (.ws (restrictMap w kept)) = .ok mp'
  rw [parseParams_ws]
  cases hzk : zipWithWeights kept (restrictMap w kept) with
  | error e => rw [hzk] at hr; cases hr
  | ok zk => rw [hzk] at hr; exact hr

/-- the zipped list of the kept criteria over the restricted weights: as many entries as kept criteria -/
theorem zipWithWeights_length {cs : List (Crit α)} {w : KMap α} {z : List (WCrit α)}
    (h : zipWithWeights cs w = .ok z) : z.length = cs.length := by
  have := congrArg List.length (zipWithWeights_crit h)
  simpa using this

theorem restrictMap_length_of_zip {kept : List (Crit α)} {w : KMap α} {z : List (WCrit α)}
    (h : zipWithWeights kept (restrictMap w kept) = .ok z) : (restrictMap w kept).length = kept.length := by
  have hk : (restrictMap w kept).keys = kept.map (·.id) := by
    apply restrictMap_keys
    intro k hk
    unfold zipWithWeights at h
    obtain ⟨y, hy⟩ := mapM_ok_mem h k hk
    rw [bind_ok] at hy; obtain ⟨v, hv, _⟩ := hy
    rw [fetch_ok, restrictMap_get? w kept hk] at hv
    rw [hv]; rfl
  have := congrArg List.length hk
  simpa [KMap.keys] using this

/-- OWA: `OnCriteriaRemoved` leaves the kept entries in the order of the kept criteria; the reduced
    request parses to the same entries sorted by weight -/
theorem owa_square {all kept : List (Crit Rat)} {w : KMap Rat} {mp mp' : MParams Rat}
    (hp : parseParams all (.owa w) = .ok mp) (hnd : (all.map (·.id)).Nodup) (hsub : ∀ k ∈ kept, k ∈ all)
    (hr : onRemoved mp kept = .ok mp') :
    ∃ zk, mp' = .owa zk ∧ parseParams kept (restrictRaw kept (.owa w)) = .ok (.owa (sortWCrits zk)) := by
  rw [parseParams_owa] at hp
  split at hp
  · cases hp
  · rw [bind_ok] at hp; obtain ⟨z, hz, hp⟩ := hp
    rw [pure_ok] at hp; subst hp
    obtain ⟨zk, hzk, hmp, _⟩ := owa_reduced_commutes (w' := restrictMap w kept) hz hnd hsub
      (fun k hk => restrictMap_get? w kept hk) hr
    refine ⟨zk, hmp, ?_⟩
    show parseParams kept (.owa (restrictMap w kept)) = _
    rw [parseParams_owa]
    have hlen := restrictMap_length_of_zip hzk
    have : ¬ ((restrictMap w kept).length != kept.length) = true := by simp [hlen]
    rw [if_neg this, hzk]
    rfl

/-! #### ELECTRE III -/

theorem electreValidate_sub {all kept : List (Crit α)} {ec : KMap (ECrit α)} {u : List Unit}
    (h : electreValidate all ec = .ok u) (hsub : ∀ k ∈ kept, k ∈ all) :
    electreValidate kept (restrictMap ec kept) = .ok (kept.map fun _ => ()) := by
  unfold electreValidate at h ⊢
  apply mapM_ok_of_forall
  intro k hk
  obtain ⟨y, hy⟩ := mapM_ok_mem h k (hsub k hk)
  rw [restrictMap_get? ec kept hk]
  exact hy

/-- ELECTRE III: the kept criteria's entries (valid because they were valid in the full request), the same
    distillation function -/
theorem electre_square {all kept : List (Crit α)} {ec : KMap (ECrit α)} {dist : Option (LinFun α)}
    {mp mp' : MParams α}
    (hp : parseParams all (.electre ec dist) = .ok mp) (hsub : ∀ k ∈ kept, k ∈ all)
    (hr : onRemoved mp kept = .ok mp') :
    parseParams kept (restrictRaw kept (.electre ec dist)) = .ok mp' := by
  rw [parseParams_electre, bind_ok] at hp; obtain ⟨u, hu, hp⟩ := hp
  rw [bind_ok] at hp; obtain ⟨df, hd, hp⟩ := hp
  rw [pure_ok] at hp; subst hp
  have := onRemoved_eq_restrict hr
  subst this
  show parseParams kept (.electre (restrictMap ec kept) dist) = _
  rw [parseParams_electre, electreValidate_sub hu hsub, ok_bind, hd, ok_bind]
  rfl

/-! #### the heuristics: `ParseParams` is the identity -/

theorem majority_square {all kept : List (Crit α)} {w : KMap α} {cur : String} {seed : Int} {rnd : Bool}
    {dr : String} {mp mp' : MParams α}
    (hp : parseParams all (.majority w cur seed rnd dr) = .ok mp) (hr : onRemoved mp kept = .ok mp') :
    parseParams kept (restrictRaw kept (.majority w cur seed rnd dr)) = .ok mp' := by
  rw [parseParams_majority] at hp
  cases hp
  rw [onRemoved_eq_restrict hr]
  rfl

/-- aspect elimination: weights restricted, explicit threshold levels restricted level by level,
    coefficient levels unchanged -/
theorem aspect_square {all kept : List (Crit α)} {fn : String} {lv : Levels α} {seed : Int} {w : KMap α}
    {rnd : Bool} {mp mp' : MParams α}
    (hp : parseParams all (.aspect fn lv seed w rnd) = .ok mp) (hr : onRemoved mp kept = .ok mp') :
    parseParams kept (restrictRaw kept (.aspect fn lv seed w rnd)) = .ok mp' := by
  rw [parseParams_aspect] at hp
  cases hp
  rw [onRemoved_eq_restrict hr]
  rfl

/-- satisfaction: explicit threshold levels restricted level by level, coefficient levels unchanged -/
theorem satisf_square {all kept : List (Crit α)} {fn : String} {lv : Levels α} {seed : Int} {cur : String}
    {rnd : Bool} {mp mp' : MParams α}
    (hp : parseParams all (.satisf fn lv seed cur rnd) = .ok mp) (hr : onRemoved mp kept = .ok mp') :
    parseParams kept (restrictRaw kept (.satisf fn lv seed cur rnd)) = .ok mp' := by
  rw [parseParams_satisf] at hp
  cases hp
  rw [onRemoved_eq_restrict hr]
  rfl

/-! #### Choquet -/

/-- sufficient conditions for `parse` to accept a capacity table (converse of `choquetParse_ok`) -/
theorem choquetParse_ok_of {crits : List (Crit α)} {w : KMap α}
    (hg : ∀ c ∈ crits, c.type = "gain") (hnd : (canonTable w).keys.Nodup)
    (hav : ∀ s ∈ powerSet (crits.map (·.id)), ∃ v, (canonTable w).get? (criterionKey s) = some v)
    (hv : ∀ kv ∈ canonTable w, ((splitKey kv.1).all fun p => (crits.map (·.id)).contains p) = true ∧
      ¬ kv.2 < Num.zero ∧ ¬ Num.one < kv.2) :
    choquetParse crits w = .ok (canonTable w) := by
  unfold choquetParse
  refine BiasA.bind_ok.2 ⟨PUnit.unit, ?_, ?_⟩
  · apply forIn_unit_ok_of_all
    intro c hc
    have : ¬ (c.type != "gain") = true := by simp [hg c hc]
    rw [if_neg this]
    rfl
  refine BiasA.bind_ok.2 ⟨canonTable w, ?_, ?_⟩
  · exact remapLoop_ok_of_nodup w [] (by simpa using hnd)
  refine BiasA.bind_ok.2 ⟨PUnit.unit, ?_, ?_⟩
  · apply forIn_unit_ok_of_all
    intro s hs
    obtain ⟨v, hv⟩ := hav s hs
    have : unionWeight (canonTable w) s = .ok v := by unfold unionWeight; rw [hv]; rfl
    simp only [this]
    rfl
  refine BiasA.bind_ok.2 ⟨PUnit.unit, ?_, rfl⟩
  · apply forIn_unit_ok_of_all
    intro kv hkv
    obtain ⟨h1, h2, h3⟩ := hv kv hkv
    obtain ⟨k, v⟩ := kv
    simp only at h1 h2 h3 ⊢
    have e1 : ¬ (!(splitKey k).all fun p => (crits.map (·.id)).contains p) = true := by rw [h1]; decide
    have e2 : ¬ (decide (v < Num.zero) || decide (Num.one < v)) = true := by simp [h2, h3]
    rw [if_neg e1, if_neg e2]
    rfl

/-- every element of `PowerSet l` is a non-empty sublist of `l` -/
theorem powerSet_sublist : ∀ (l s : List String), s ∈ powerSet l → s.Sublist l ∧ s ≠ []
  | [], s, h => by simp [powerSet] at h
  | x :: rest, s, h => by
    simp only [powerSet, List.mem_cons, List.mem_append, List.mem_map] at h
    rcases h with (rfl | h) | ⟨t, ht, rfl⟩
    · exact ⟨by simp, by simp⟩
    · obtain ⟨h1, h2⟩ := powerSet_sublist rest s h
      exact ⟨h1.cons x, h2⟩
    · obtain ⟨h1, _⟩ := powerSet_sublist rest t ht
      exact ⟨h1.cons_cons x, by simp⟩

/-- the only fact about strings the Choquet square needs: the canonical key of a set of kept criteria
    splits (at the commas) into kept criteria.  It holds whenever no criterion id contains a comma;
    `String.splitOn` does not reduce in the kernel, so it is a hypothesis rather than a computation. -/
def KeysSplit (kept : List (Crit α)) : Prop :=
  ∀ s ∈ powerSet (kept.map (·.id)),
    ((splitKey (criterionKey s)).all fun p => (kept.map (·.id)).contains p) = true

/-- does a (canonical) capacity key name kept criteria only? -/
def keptKey (kept : List (Crit α)) (kv : String × α) : Bool :=
  (splitKey kv.1).all fun p => (kept.map (·.id)).contains p

theorem canonTable_restrictTable (kept : List (Crit α)) (w : KMap α) :
    canonTable (restrictTable kept w) = (canonTable w).filter (keptKey kept) := by
  unfold canonTable restrictTable
  rw [List.filter_map]
  rfl

/-- after a successful parse of the full request, every subset of the kept criteria has a capacity -/
theorem capacity_of_kept_subset {all kept : List (Crit α)} {w r : KMap α}
    (hp : choquetParse all w = .ok r) (hnd : (all.map (·.id)).Nodup) (hsub : ∀ k ∈ kept, k ∈ all)
    (hkn : (kept.map (·.id)).Nodup) {s : List String} (hs : s ∈ powerSet (kept.map (·.id))) :
    ∃ v, r.get? (criterionKey s) = some v := by
  obtain ⟨hsl, hne⟩ := powerSet_sublist _ _ hs
  have hsn : s.Nodup := hsl.nodup hkn
  have hsa : ∀ x ∈ s, x ∈ all.map (·.id) := by
    intro x hx
    obtain ⟨k, hk, rfl⟩ := List.mem_map.1 (hsl.subset hx)
    exact List.mem_map_of_mem (hsub k hk)
  obtain ⟨s', hs', hperm⟩ := exists_powerSet_perm _ _ hnd hsn hne hsa
  obtain ⟨v, hv⟩ := (choquetParse_ok all w r hp).2.2.1 s' hs'
  exact ⟨v, by rw [← criterionKey_perm_eq hperm]; exact hv⟩

/-- Choquet: `OnCriteriaRemoved` keeps exactly the capacities of the subsets of the kept criteria (under
    their canonical keys); the reduced request — the capacity entries naming kept criteria only — is
    accepted by `parse`, and its parsed table agrees with the kept capacities on every subset of the kept
    criteria -/
theorem choquet_square {all kept : List (Crit α)} {w : KMap α} {mp mp' : MParams α}
    (hp : parseParams all (.choquet w) = .ok mp) (hnd : (all.map (·.id)).Nodup)
    (hsub : ∀ k ∈ kept, k ∈ all) (hkn : (kept.map (·.id)).Nodup) (hkey : KeysSplit kept)
    (hr : onRemoved mp kept = .ok mp') :
    ∃ r r', mp = .choquet r all ∧ mp' = .choquet (restrictCapacities r kept) kept ∧
      (restrictCapacities r kept).keys = (powerSet (kept.map (·.id))).map criterionKey ∧
      parseParams kept (restrictRaw kept (.choquet w)) = .ok (.choquet r' kept) ∧
      ∀ s ∈ powerSet (kept.map (·.id)),
        (restrictCapacities r kept).get? (criterionKey s) = r'.get? (criterionKey s) := by
  rw [parseParams_choquet, BiasA.bind_ok] at hp
  obtain ⟨r, hpr, hp⟩ := hp
  rw [pure_ok] at hp; subst hp
  obtain ⟨hgain, hvalid, _, hcanon, hrnd⟩ := choquetParse_ok all w r hpr
  have hmp' := onRemoved_eq_restrict hr
  have hcap : ∀ s ∈ powerSet (kept.map (·.id)), ∃ v, r.get? (criterionKey s) = some v :=
    fun s hs => capacity_of_kept_subset hpr hnd hsub hkn hs
  -- the parsed table of the reduced request
  have hr'eq := canonTable_restrictTable kept w
  rw [← hcanon] at hr'eq
  have hr'nd : (canonTable (restrictTable kept w)).keys.Nodup := by
    rw [hr'eq]
    exact (List.filter_sublist.map _).nodup hrnd
  have hr'get : ∀ s ∈ powerSet (kept.map (·.id)),
      (canonTable (restrictTable kept w)).get? (criterionKey s) = r.get? (criterionKey s) := by
    intro s hs
    obtain ⟨v, hv⟩ := hcap s hs
    rw [hv]
    have hmem : (criterionKey s, v) ∈ r := (lookup_eq_some_iff_mem r hrnd _ _).1 hv
    have hmem' : (criterionKey s, v) ∈ canonTable (restrictTable kept w) := by
      rw [hr'eq]
      exact List.mem_filter.2 ⟨hmem, hkey s hs⟩
    exact (lookup_eq_some_iff_mem _ hr'nd _ _).2 hmem'
  refine ⟨r, canonTable (restrictTable kept w), rfl, hmp', ?_, ?_, ?_⟩
  · unfold restrictCapacities KMap.keys
    generalize powerSet (kept.map (·.id)) = ps at hcap
    induction ps with
    | nil => rfl
    | cons s ss ih =>
      obtain ⟨v, hv⟩ := hcap s List.mem_cons_self
      rw [List.filterMap_cons, hv]
      simp only [Option.map_some, List.map_cons]
      rw [ih fun t ht => hcap t (List.mem_cons_of_mem _ ht)]
  · show parseParams kept (.choquet (restrictTable kept w)) = _
    rw [parseParams_choquet, choquetParse_ok_of (crits := kept) (w := restrictTable kept w)
      (fun c hc => hgain c (hsub c hc)) hr'nd ?_ ?_]
    · rfl
    · intro s hs
      obtain ⟨v, hv⟩ := hcap s hs
      exact ⟨v, by rw [hr'get s hs]; exact hv⟩
    · intro kv hkv
      rw [hr'eq] at hkv
      obtain ⟨hkr, hkk⟩ := List.mem_filter.1 hkv
      exact ⟨hkk, (hvalid kv hkr).2⟩
  · intro s hs
    rw [restrictCapacities_get? r kept hs, hr'get s hs]

/-! ### all seven squares in one statement -/

/-- **`OnCriteriaRemoved ∘ parse = parse ∘ restrict`** for every method: if the full request parses to
    `mp` and the listener restricts `mp` to the kept criteria as `mp'`, then the request with the omitted
    criteria deleted parses, and to the same parameters (`ParamsMatch`: equal; for OWA up to the weight
    sort OWA performs anyway; for Choquet up to capacity entries the integral never reads).
    `kept` is any duplicate-free selection of declared criteria in any order. -/
theorem reduced_params_commute {all kept : List (Crit Rat)} {raw : RawParams Rat} {mp mp' : MParams Rat}
    (hp : parseParams all raw = .ok mp) (hnd : (all.map (·.id)).Nodup) (hsub : ∀ k ∈ kept, k ∈ all)
    (hkn : (kept.map (·.id)).Nodup) (hkey : ∀ w, raw = .choquet w → KeysSplit kept)
    (hr : onRemoved mp kept = .ok mp') :
    ∃ mp'', parseParams kept (restrictRaw kept raw) = .ok mp'' ∧ ParamsMatch kept mp' mp'' := by
  cases raw with
  | ws w =>
    have := ws_square hp hnd hsub hr
    obtain ⟨wc, _, rfl⟩ := parse_ws_ok hp
    have hm := onRemoved_eq_restrict hr
    subst hm
    exact ⟨_, this, rfl⟩
  | owa w =>
    obtain ⟨zk, rfl, h2⟩ := owa_square hp hnd hsub hr
    exact ⟨_, h2, rfl⟩
  | choquet w =>
    obtain ⟨r, r', rfl, rfl, _, h3, h4⟩ := choquet_square hp hnd hsub hkn (hkey w rfl) hr
    exact ⟨_, h3, rfl, h4⟩
  | electre ec dist =>
    have := electre_square hp hsub hr
    rw [parseParams_electre, BiasA.bind_ok] at hp; obtain ⟨u, _, hp⟩ := hp
    rw [BiasA.bind_ok] at hp; obtain ⟨df, _, hp⟩ := hp
    rw [pure_ok] at hp; subst hp
    have hm := onRemoved_eq_restrict hr
    subst hm
    exact ⟨_, this, rfl⟩
  | majority w cur seed rnd dr =>
    have := majority_square hp hr
    rw [parseParams_majority] at hp; cases hp
    have hm := onRemoved_eq_restrict hr
    subst hm
    exact ⟨_, this, rfl⟩
  | aspect fn lv seed w rnd =>
    have := aspect_square hp hr
    rw [parseParams_aspect] at hp; cases hp
    have hm := onRemoved_eq_restrict hr
    subst hm
    exact ⟨_, this, rfl⟩
  | satisf fn lv seed cur rnd =>
    have := satisf_square hp hr
    rw [parseParams_satisf] at hp; cases hp
    have hm := onRemoved_eq_restrict hr
    subst hm
    exact ⟨_, this, rfl⟩

end Rdm.BiasA
