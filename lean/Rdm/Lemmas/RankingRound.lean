/-
  `round8` over the rationals: the extracted precision is 10^8 and the rounding error is at most 5·10⁻⁹.
-/
import Mathlib.Tactic.Linarith
import Rdm.Model.Ranking
import Rdm.Lemmas.NumRat
namespace Rdm

/-- the rounding precision extracted from the Go source is 10^8 -/
theorem roundPrecision_rat : (Num.ofConst Facts.roundPrecision : Rat) = 100000000 := by
  decide +kernel

theorem roundHalfAway_lower (y : Rat) : y - 1/2 ≤ Rat.roundHalfAway y := by
  unfold Rat.roundHalfAway
  split
  · have h2 := Rat.floor_le (-y + 1/2)
    linarith
  · have h2 := Rat.lt_floor_add_one (y + 1/2)
    push_cast at h2 ⊢
    linarith

theorem roundHalfAway_upper (y : Rat) : Rat.roundHalfAway y ≤ y + 1/2 := by
  unfold Rat.roundHalfAway
  split
  · have h2 := Rat.lt_floor_add_one (-y + 1/2)
    push_cast at h2 ⊢
    linarith
  · have h2 := Rat.floor_le (y + 1/2)
    linarith

theorem round8_rat (x : Rat) : round8 x = Rat.roundHalfAway (x * 100000000) / 100000000 := by
  unfold round8
  rw [roundPrecision_rat]; rfl

/-- `rounded()` moves a value by at most half a unit of the eighth decimal -/
theorem round8_error (x : Rat) : |round8 x - x| ≤ 1 / (2 * 10 ^ 8) := by
  rw [round8_rat, abs_le]
  have h1 := roundHalfAway_lower (x * 100000000)
  have h2 := roundHalfAway_upper (x * 100000000)
  constructor
  · rw [le_sub_iff_add_le, le_div_iff₀ (by norm_num)]
    linarith
  · rw [sub_le_iff_le_add, div_le_iff₀ (by norm_num)]
    linarith

end Rdm
