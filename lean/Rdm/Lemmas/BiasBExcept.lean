/-
  Generic lemmas about the `Except` monad (`R`), `List.mapM` / `List.foldlM` in it, and the small
  shared helpers of the model (`fetchAlt`, `updateAlts`, `critsAdd`).  Core only.
-/
import Rdm.Model.Listener
namespace Rdm

theorem bind_eq_ok {ε α β : Type} {a : Except ε α} {f : α → Except ε β} {r : β} :
    (a >>= f) = .ok r ↔ ∃ x, a = .ok x ∧ f x = .ok r := by
  cases a with
  | error e => simp [bind, Except.bind]
  | ok x => simp [bind, Except.bind]

theorem pure_eq_ok {ε α : Type} {x r : α} : (pure x : Except ε α) = .ok r ↔ x = r := by
  simp [pure, Except.pure]

theorem throw_ne_ok {ε α : Type} {e : ε} {r : α} : (throw e : Except ε α) = .ok r ↔ False := by
  simp [throw, throwThe, MonadExceptOf.throw]

theorem throw_bind_ne_ok {β γ : Type} {e : String} {f : β → R γ} {r : γ} :
    ((throw e : R β) >>= f) = .ok r ↔ False := by
  simp [bind, Except.bind, throw, throwThe, MonadExceptOf.throw]

/-- a successful `mapM` relates the lists pointwise -/
theorem mapM_ok {ε α β : Type} {f : α → Except ε β} :
    ∀ {l : List α} {r : List β}, l.mapM f = .ok r →
      r.length = l.length ∧ ∀ p ∈ l.zip r, f p.1 = .ok p.2 := by
  intro l
  induction l with
  | nil => intro r h; simp [pure, Except.pure] at h; subst h; simp
  | cons a as ih =>
    intro r h
    rw [List.mapM_cons] at h
    obtain ⟨b, hb, h⟩ := bind_eq_ok.mp h
    obtain ⟨bs, hbs, h⟩ := bind_eq_ok.mp h
    simp [pure, Except.pure] at h
    subst h
    obtain ⟨hl, hp⟩ := ih hbs
    refine ⟨by simp [hl], ?_⟩
    intro p hp'
    simp only [List.zip_cons_cons, List.mem_cons] at hp'
    rcases hp' with rfl | hp'
    · exact hb
    · exact hp p hp'

/-- every element of a successful `mapM` is the image of an element of the input -/
theorem mapM_ok_mem {ε α β : Type} {f : α → Except ε β} {l : List α} {r : List β}
    (h : l.mapM f = .ok r) : ∀ b ∈ r, ∃ a ∈ l, f a = .ok b := by
  obtain ⟨hl, hp⟩ := mapM_ok h
  intro b hb
  obtain ⟨i, hi, rfl⟩ := List.mem_iff_getElem.mp hb
  have hi' : i < l.length := hl ▸ hi
  refine ⟨l[i], List.getElem_mem hi', ?_⟩
  have : (l[i], r[i]) ∈ l.zip r := by
    rw [List.mem_iff_getElem]
    exact ⟨i, by simp only [List.length_zip]; omega, by simp⟩
  exact hp _ this

variable {α : Type}

theorem fetchAlt_ok {l : List (Alt α)} {id : String} {a : Alt α} (h : fetchAlt l id = .ok a) :
    a ∈ l ∧ (a.id == id) = true := by
  unfold fetchAlt at h
  split at h
  · rename_i x hx
    simp [pure, Except.pure] at h; subst h
    exact ⟨List.mem_of_find?_eq_some hx, by simpa using List.find?_some hx⟩
  · simp [throw, throwThe, MonadExceptOf.throw] at h

/-- `UpdateAlternatives`: same length, and position by position an element of `new` with the old id -/
theorem updateAlts_ok {old new res : List (Alt α)} (h : updateAlts old new = .ok res) :
    res.length = old.length ∧ ∀ p ∈ old.zip res, p.2 ∈ new ∧ (p.2.id == p.1.id) = true := by
  obtain ⟨hl, hp⟩ := mapM_ok h
  exact ⟨hl, fun p hp' => fetchAlt_ok (hp p hp')⟩

theorem updateAlts_ids {old new res : List (Alt α)} (h : updateAlts old new = .ok res) :
    res.map (·.id) = old.map (·.id) := by
  obtain ⟨hl, hp⟩ := updateAlts_ok h
  apply List.ext_getElem (by simp [hl])
  intro i h1 h2
  simp only [List.getElem_map]
  have hi : i < old.length := by simpa using h2
  have hi' : i < res.length := by simpa using h1
  have : (old[i], res[i]) ∈ old.zip res := by
    rw [List.mem_iff_getElem]; exact ⟨i, by simp only [List.length_zip]; omega, by simp⟩
  have := (hp _ this).2
  simpa using this

theorem critsAdd_ok {cs res : List (Crit α)} {c : Crit α} (h : critsAdd cs c = .ok res) :
    res = cs ++ [c] ∧ ∀ x ∈ cs, (x.id == c.id) = false := by
  unfold critsAdd at h
  split at h
  · simp [throw, throwThe, MonadExceptOf.throw] at h
  · rename_i hn
    simp [pure, Except.pure] at h
    refine ⟨h.symm, ?_⟩
    intro x hx
    simp only [List.any_eq_true, not_exists, not_and, Bool.not_eq_true] at hn
    exact hn x hx

end Rdm
