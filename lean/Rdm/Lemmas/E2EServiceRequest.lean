/-
  Lemmas for the END-TO-END theorems about the bias switches / probabilities (Props/C08) and about
  rejection (Props/C20), part 2: the request.
    * `ChooseBiases` characterised exactly (`e2es_choose_ok_iff`): it succeeds iff every enabled name is
      registered, and then returns the enabled entries, in order, with the probability default filled in;
    * `prepare` characterised exactly (`e2es_prepare_ok_iff`, `e2es_prepare_isOk_iff`): a request passes the
      part of `MakeDecision` before the first random number iff it passes `validateRequest`, names a registered
      method, its parameters parsed and every enabled bias name is registered;
    * `decideWith` fails whenever `prepare` does (`e2es_decideWith_error_of_prepare`), and it reads the bias
      list only through `ChooseBiases` (`e2es_decideWith_congr_biases`);
    * the pattern / the entries of the response of `decideWith` in request-level terms
      (`e2es_decide_pattern`, `e2es_decide_entries`);
    * failure of a fired entry, request level (`e2es_decide_error_of_fired_error`, `e2es_decide_error_at`).
  All lemma names carry the prefix `e2es_` (every lemma file shares `namespace Rdm`).
-/
import Rdm.Lemmas.E2EService
import Rdm.Lemmas.DecideTotal
namespace Rdm
set_option linter.unusedSectionVars false
variable {α : Type} [Num α]

/-! ### `ChooseBiases`, exactly -/

/-- what `ChooseBiases` makes of an enabled entry -/
def e2esChosen {P : Type} (b : BiasReq α P) : Chosen α P := ⟨b.name, e2esProb b, b.props⟩

theorem e2es_mapM_guard_ok_iff {β γ : Type} (c : β → Bool) (f : β → γ) (msg : β → String) :
    ∀ (l : List β) (r : List γ),
      l.mapM (fun b => if c b then (pure (f b) : R γ) else throw (msg b)) = .ok r ↔
        (∀ b ∈ l, c b = true) ∧ r = l.map f := by
  intro l
  induction l with
  | nil =>
    intro r
    simp only [List.mapM_nil, pure, Except.pure, Except.ok.injEq, List.map_nil, List.not_mem_nil,
      false_imp_iff, implies_true, true_and]
    exact eq_comm
  | cons a l ih =>
    intro r
    rw [List.mapM_cons]
    constructor
    · intro h
      obtain ⟨y, hy, h⟩ := bind_eq_ok.mp h
      obtain ⟨ys, hys, h⟩ := bind_eq_ok.mp h
      simp only [pure, Except.pure, Except.ok.injEq] at h
      subst h
      obtain ⟨h1, rfl⟩ := (ih ys).mp hys
      cases hc : c a with
      | false => rw [hc] at hy; simp [throw, throwThe, MonadExceptOf.throw] at hy
      | true =>
        rw [hc] at hy
        simp only [if_true, pure, Except.pure, Except.ok.injEq] at hy
        subst hy
        refine ⟨?_, rfl⟩
        intro b hb
        rcases List.mem_cons.mp hb with rfl | hb
        · exact hc
        · exact h1 b hb
    · rintro ⟨h1, rfl⟩
      have ha : c a = true := h1 a List.mem_cons_self
      have hl := (ih (l.map f)).mpr ⟨fun b hb => h1 b (List.mem_cons_of_mem _ hb), rfl⟩
      rw [hl]
      simp only [ha, if_true, pure, Except.pure, bind, Except.bind, List.map_cons]

/-- **`ChooseBiases`, exactly**: it accepts iff every enabled entry names a registered bias, and it returns
    the enabled entries in request order with the default probability filled in -/
theorem e2es_choose_ok_iff {P : Type} (avail : List String) (reqs : List (BiasReq α P))
    (chosen : List (Chosen α P)) :
    chooseBiases avail reqs = .ok chosen ↔
      (∀ b ∈ reqs, b.disabled = false → avail.contains b.name = true) ∧
      chosen = (reqs.filter (!·.disabled)).map e2esChosen := by
  unfold chooseBiases
  refine Iff.trans (e2es_mapM_guard_ok_iff (fun b : BiasReq α P => avail.contains b.name) e2esChosen
    (fun b => s!"unknown-bias:{b.name}") (reqs.filter (!·.disabled)) chosen) ?_
  constructor
  · rintro ⟨h1, h2⟩
    refine ⟨fun b hb hd => h1 b (List.mem_filter.mpr ⟨hb, by simp [hd]⟩), h2⟩
  · rintro ⟨h1, h2⟩
    refine ⟨fun b hb => ?_, h2⟩
    obtain ⟨hb, hd⟩ := List.mem_filter.mp hb
    exact h1 b hb (by simpa using hd)

/-- `ChooseBiases` never fails in another way than on an unknown enabled name -/
theorem e2es_choose_total {P : Type} (avail : List String) (reqs : List (BiasReq α P))
    (h : ∀ b ∈ reqs, b.disabled = false → avail.contains b.name = true) :
    chooseBiases avail reqs = .ok ((reqs.filter (!·.disabled)).map e2esChosen) :=
  (e2es_choose_ok_iff avail reqs _).mpr ⟨h, rfl⟩

/-- the enabled entries of an already filtered list -/
theorem e2es_filter_enabled_idem {P : Type} (reqs : List (BiasReq α P)) :
    (reqs.filter (!·.disabled)).filter (!·.disabled) = reqs.filter (!·.disabled) := by
  rw [List.filter_filter]; simp

/-- `ChooseBiases` of a sublist-by-position of the enabled entries (prefix, erased position, …) -/
theorem e2es_choose_of_sub {P : Type} (avail : List String) (reqs sub : List (BiasReq α P))
    (chosen : List (Chosen α P)) (h : chooseBiases avail reqs = .ok chosen)
    (hsub : ∀ b ∈ sub, b ∈ reqs.filter (!·.disabled)) :
    chooseBiases avail sub = .ok (sub.map e2esChosen) := by
  obtain ⟨h1, _⟩ := (e2es_choose_ok_iff avail reqs chosen).mp h
  have hall : ∀ b ∈ sub, b.disabled = false := by
    intro b hb
    have := (List.mem_filter.mp (hsub b hb)).2
    simpa using this
  have hf : sub.filter (!·.disabled) = sub := by
    apply List.filter_eq_self.mpr
    intro b hb
    simp [hall b hb]
  have := e2es_choose_total avail sub (fun b hb _ => h1 b (List.mem_filter.mp (hsub b hb)).1 (hall b hb))
  rw [hf] at this
  exact this

/-! ### `prepare`, exactly -/

/-- `prepareParams` cannot fail on a validated request -/
theorem e2es_prepareParams_total (req : Request α) (mp : MParams α)
    (hv : validateRequest req.method req.crit req.known req.chosen = .ok ()) :
    ∃ params, prepareParams req mp = .ok params := by
  have h4 := ((valH_validateRequest_ok_iff_stages req.method req.crit req.known req.chosen).mp hv).2.2.2
  have hall := (valH_forM_ok_iff _ req.chosen).mp h4
  have : ∃ co, req.chosen.mapM (fetchAlt req.known) = .ok co := by
    apply decideMapM_total
    intro id hid
    exact (valH_fetchAlt_isOk_iff req.known id).mpr ((valH_fetch_unit_ok_iff req.known id).mp (hall id hid))
  obtain ⟨co, hco⟩ := this
  unfold prepareParams
  rw [hco]
  exact ⟨_, rfl⟩

theorem e2es_prepare_ok_iff (req : Request α) (params : DMP α) (chosen : List (Chosen α (BProps α))) :
    prepare req = .ok (params, chosen) ↔
      validateRequest req.method req.crit req.known req.chosen = .ok () ∧
      methodNames.contains req.method = true ∧
      ∃ mp, req.mp = some mp ∧ prepareParams req mp = .ok params ∧
        chooseBiases availableBiases req.biases = .ok chosen := by
  constructor
  · intro h
    have h' := h
    obtain ⟨hv, mp, hmp, hpp, hch⟩ := decidePrepare_ok h
    refine ⟨hv, ?_, mp, hmp, hpp, hch⟩
    unfold prepare at h'
    rw [hv] at h'
    cases hm : methodNames.contains req.method with
    | true => rfl
    | false =>
      simp only [hm, bind, Except.bind, Bool.not_false, if_true, throw, throwThe, MonadExceptOf.throw] at h'
      cases h'
  · rintro ⟨hv, hm, mp, hmp, hpp, hch⟩
    unfold prepare
    rw [hv]
    simp only [bind, Except.bind, hm, Bool.not_true, Bool.false_eq_true, if_false, hmp, hpp, hch]
    rfl

/-- **`prepare`, exactly**: a request gets past validation, registry lookup, `prepareParams` and
    `ChooseBiases` iff it passes `validateRequest`, names a registered method, its parameters parsed, and
    every enabled bias is registered — nothing else is rejected there, nothing else is accepted -/
theorem e2es_prepare_isOk_iff (req : Request α) :
    (∃ r, prepare req = .ok r) ↔
      validateRequest req.method req.crit req.known req.chosen = .ok () ∧
      methodNames.contains req.method = true ∧ (∃ mp, req.mp = some mp) ∧
      ∀ b ∈ req.biases, b.disabled = false → availableBiases.contains b.name = true := by
  constructor
  · rintro ⟨⟨params, chosen⟩, h⟩
    obtain ⟨hv, hm, mp, hmp, _, hch⟩ := (e2es_prepare_ok_iff req params chosen).mp h
    exact ⟨hv, hm, ⟨mp, hmp⟩, ((e2es_choose_ok_iff _ _ _).mp hch).1⟩
  · rintro ⟨hv, hm, ⟨mp, hmp⟩, hb⟩
    obtain ⟨params, hpp⟩ := e2es_prepareParams_total req mp hv
    exact ⟨(params, _), (e2es_prepare_ok_iff req params _).mpr
      ⟨hv, hm, mp, hmp, hpp, e2es_choose_total availableBiases req.biases hb⟩⟩

/-! ### `decideWith` and `prepare` -/

theorem e2es_pipeline_error_of_prepare {exp : α → α} {req : Request α} {g : Int → Draws α} {e : String}
    (h : prepare req = .error e) : pipeline exp req g = .error e := by
  unfold pipeline; rw [h]; rfl

theorem e2es_decideWith_error_of_pipeline {exp : α → α} {o : List (WCrit α) → List (WCrit α)}
    {req : Request α} {g : Int → Draws α} {e : String} (h : pipeline exp req g = .error e) :
    decideWith exp o req g = .error e := by
  unfold decideWith; rw [h]; rfl

/-- a request `prepare` rejects is rejected by `decideWith`, with the same message, whatever the streams -/
theorem e2es_decideWith_error_of_prepare {exp : α → α} {o : List (WCrit α) → List (WCrit α)}
    {req : Request α} {g : Int → Draws α} {e : String} (h : prepare req = .error e) :
    decideWith exp o req g = .error e :=
  e2es_decideWith_error_of_pipeline (e2es_pipeline_error_of_prepare h)

/-- `pipeline` in terms of `prepare`'s result -/
theorem e2es_pipeline_of_prepare {exp : α → α} {req : Request α} {g : Int → Draws α} {params : DMP α}
    {chosen : List (Chosen α (BProps α))} (h : prepare req = .ok (params, chosen)) :
    pipeline exp req g = processLoop (applyBias exp g) params chosen params (g req.biasSeed) := by
  unfold pipeline; rw [h]; rfl

/-- `decideWith` reads the request's bias list only through `ChooseBiases` -/
theorem e2es_decideWith_congr_biases (exp : α → α) (o : List (WCrit α) → List (WCrit α)) (req : Request α)
    (g : Int → Draws α) (bs bs' : List (BiasReq α (BProps α)))
    (h : chooseBiases availableBiases bs = chooseBiases availableBiases bs') :
    decideWith exp o { req with biases := bs } g = decideWith exp o { req with biases := bs' } g := by
  have hp : prepare { req with biases := bs } = prepare { req with biases := bs' } := by
    unfold prepare
    dsimp only
    rw [h]
    rfl
  unfold decideWith pipeline
  rw [hp]

/-! ### the response's `biases` list in request-level terms -/

theorem e2es_chosen_probs (req : Request α) :
    ((e2esEnabled req).map e2esChosen).map (·.prob) = e2esProbs req := by
  unfold e2esProbs
  rw [List.map_map]
  rfl

/-- inversion of a successful `decideWith` with the explicit list `ChooseBiases` returned -/
theorem e2es_decide_run {exp : α → α} {o : List (WCrit α) → List (WCrit α)} {req : Request α}
    {g : Int → Draws α} {resp : Response α} (h : decideWith exp o req g = .ok resp) :
    ∃ params, prepare req = .ok (params, (e2esEnabled req).map e2esChosen) ∧
      processLoop (applyBias exp g) params ((e2esEnabled req).map e2esChosen) params (g req.biasSeed)
        = .ok (resp.final, resp.biases) ∧
      evaluateWith o g resp.final = .ok resp.result := by
  obtain ⟨params, chosen, hprep, hrun, hev⟩ := e2eb_decide_run h
  obtain ⟨_, _, _, _, _, hch⟩ := (e2es_prepare_ok_iff req params chosen).mp hprep
  obtain ⟨_, rfl⟩ := (e2es_choose_ok_iff _ _ _).mp hch
  exact ⟨params, hprep, hrun, hev⟩

/-- **the fired / not-fired pattern of a response** is `e2esPattern` of the enabled entries' probabilities and
    the stream of `biasApplyRandomSeed` — nothing else of the request or of the other streams enters -/
theorem e2es_decide_pattern {exp : α → α} {o : List (WCrit α) → List (WCrit α)} {req : Request α}
    {g : Int → Draws α} {resp : Response α} (h : decideWith exp o req g = .ok resp) :
    (e2esProbs req).length ≤ (g req.biasSeed).length ∧
    e2esFlags resp.biases = e2esPattern (e2esProbs req) (g req.biasSeed) := by
  obtain ⟨params, _, hrun, _⟩ := e2es_decide_run h
  obtain ⟨h1, h2⟩ := e2es_loop_pattern _ _ _ _ _ hrun
  rw [e2es_chosen_probs] at h2
  refine ⟨?_, h2⟩
  simpa [e2esProbs] using h1

/-- the entries of the response, position by position -/
theorem e2es_decide_entries {exp : α → α} {o : List (WCrit α) → List (WCrit α)} {req : Request α}
    {g : Int → Draws α} {resp : Response α} (h : decideWith exp o req g = .ok resp) :
    resp.biases.length = (e2esEnabled req).length ∧
    ∀ (i : Nat) (b : BiasReq α (BProps α)), (e2esEnabled req)[i]? = some b →
      ∃ out u, resp.biases[i]? = some out ∧ (g req.biasSeed)[i]? = some u ∧
        out.name = b.name ∧ out.prob = e2esProb b ∧ out.report.isSome = decide (u < e2esProb b) := by
  obtain ⟨params, _, hrun, _⟩ := e2es_decide_run h
  have hlen := e2eb_loop_length _ _ _ _ _ hrun
  simp only [List.length_map] at hlen
  refine ⟨hlen, ?_⟩
  intro i b hb
  have hi : i < (e2esEnabled req).length := (List.getElem?_eq_some_iff.mp hb).1
  have hio : i < resp.biases.length := by omega
  obtain ⟨c, u, s, s', hc, hd, _, ⟨hn, hp, hstep⟩, _⟩ :=
    e2eb_loop_split _ _ _ _ _ hrun i resp.biases[i] (List.getElem?_eq_getElem hio)
  rw [List.getElem?_map, hb] at hc
  simp only [Option.map_some, Option.some.injEq] at hc
  subst hc
  refine ⟨resp.biases[i], u, List.getElem?_eq_getElem hio, hd, hn, hp, ?_⟩
  cases hr : resp.biases[i].report with
  | none =>
    rw [hr] at hstep
    have : ¬ u < e2esProb b := hstep.1
    simp [this]
  | some rep =>
    rw [hr] at hstep
    have : u < e2esProb b := hstep.1
    simp [this]

/-! ### failure of a fired entry, request level -/

/-- an enabled entry that fires and whose `Apply` fails on every state makes `decideWith` fail -/
theorem e2es_decide_error_of_fired_error {exp : α → α} {o : List (WCrit α) → List (WCrit α)}
    {req : Request α} {g : Int → Draws α} {i : Nat} {b : BiasReq α (BProps α)} {u : α}
    (hb : (e2esEnabled req)[i]? = some b) (hu : (g req.biasSeed)[i]? = some u) (hlt : u < e2esProb b)
    (hbad : ∀ orig cur, ∃ e, applyBias exp g b.name b.props orig cur = .error e) :
    ∃ e, decideWith exp o req g = .error e := by
  cases hprep : prepare req with
  | error e => exact ⟨e, e2es_decideWith_error_of_prepare hprep⟩
  | ok pc =>
    obtain ⟨params, chosen⟩ := pc
    obtain ⟨_, _, _, _, _, hch⟩ := (e2es_prepare_ok_iff req params chosen).mp hprep
    obtain ⟨_, rfl⟩ := (e2es_choose_ok_iff _ _ _).mp hch
    have hc : ((e2esEnabled req).map e2esChosen)[i]? = some (e2esChosen b) := by
      rw [List.getElem?_map, hb]; rfl
    obtain ⟨e, he⟩ := e2es_loop_error_of_fired_error (apply := applyBias exp g) (orig := params)
      _ params (g req.biasSeed) i (e2esChosen b) u hc hu hlt (fun s => hbad params s)
    refine ⟨e, e2es_decideWith_error_of_pipeline ?_⟩
    rw [e2es_pipeline_of_prepare hprep]
    exact he

/-- the request cut after its first `i` enabled bias entries -/
def e2esTruncate (req : Request α) (i : Nat) : Request α := { req with biases := (e2esEnabled req).take i }

/-- **failure at a fired position, request level**: the request cut after its first `i` enabled entries gets
    through all its biases and reaches the state `s`; entry `i` fires; its `Apply` fails on `s` (whatever the
    original state) — then `decideWith` fails -/
theorem e2es_decide_error_at {exp : α → α} {o : List (WCrit α) → List (WCrit α)}
    {req : Request α} {g : Int → Draws α} {i : Nat} {b : BiasReq α (BProps α)} {u : α} {s : DMP α}
    {outs : List (BiasOut α (Report α))}
    (hpre : pipeline exp (e2esTruncate req i) g = .ok (s, outs))
    (hb : (e2esEnabled req)[i]? = some b) (hu : (g req.biasSeed)[i]? = some u) (hlt : u < e2esProb b)
    (hbad : ∀ orig, ∃ e, applyBias exp g b.name b.props orig s = .error e) :
    ∃ e, decideWith exp o req g = .error e := by
  cases hprep : prepare req with
  | error e => exact ⟨e, e2es_decideWith_error_of_prepare hprep⟩
  | ok pc =>
    obtain ⟨params, chosen⟩ := pc
    obtain ⟨hv, hm, mp, hmp, hpp, hch⟩ := (e2es_prepare_ok_iff req params chosen).mp hprep
    have hch' := hch
    obtain ⟨_, rfl⟩ := (e2es_choose_ok_iff _ _ _).mp hch
    have hcht : chooseBiases availableBiases ((e2esEnabled req).take i)
        = .ok (((e2esEnabled req).take i).map e2esChosen) :=
      e2es_choose_of_sub _ req.biases _ _ hch' (fun b hb => List.mem_of_mem_take hb)
    have hprept : prepare (e2esTruncate req i) = .ok (params, ((e2esEnabled req).take i).map e2esChosen) :=
      (e2es_prepare_ok_iff _ _ _).mpr ⟨hv, hm, mp, hmp, hpp, hcht⟩
    rw [e2es_pipeline_of_prepare hprept, List.map_take] at hpre
    have hc : ((e2esEnabled req).map e2esChosen)[i]? = some (e2esChosen b) := by
      rw [List.getElem?_map, hb]; rfl
    obtain ⟨e, he⟩ := hbad params
    refine ⟨e, e2es_decideWith_error_of_pipeline ?_⟩
    rw [e2es_pipeline_of_prepare hprep]
    exact e2es_loop_error_at _ params s (g req.biasSeed) i outs (e2esChosen b) u e hpre hc hu hlt he

/-! ### an entry that did not fire, request level -/

/-- **an enabled entry that did not fire is equivalent to an absent one**: erase it from the request and erase
    its activation draw from the stream of `biasApplyRandomSeed` (every other stream the request names kept) —
    the decision is the same: same result, same final state, the same `biases` list without that entry -/
theorem e2es_decide_erase_unfired {exp : α → α} {o : List (WCrit α) → List (WCrit α)} {req : Request α}
    {g g' : Int → Draws α} {resp : Response α} {i : Nat} {out : BiasOut α (Report α)}
    (h : decideWith exp o req g = .ok resp) (hi : resp.biases[i]? = some out) (hn : out.report = none)
    (hg' : g' req.biasSeed = (g req.biasSeed).eraseIdx i)
    (hbs : ∀ b ∈ req.biases, ∀ k ∈ b.props.seeds, g' k = g k)
    (hmp : ∀ mp, req.mp = some mp → ∀ k ∈ mp.seed.toList, g' k = g k) :
    decideWith exp o { req with biases := (e2esEnabled req).eraseIdx i } g'
      = .ok ⟨resp.result, resp.biases.eraseIdx i, resp.final⟩ := by
  obtain ⟨params, hprep, hrun, hev⟩ := e2es_decide_run h
  obtain ⟨hv, hm, mp, hmp', hpp, hch⟩ := (e2es_prepare_ok_iff req params _).mp hprep
  have hsub : ∀ b ∈ (e2esEnabled req).eraseIdx i, b ∈ req.biases.filter (!·.disabled) :=
    fun b hb => List.mem_of_mem_eraseIdx hb
  have hch' := e2es_choose_of_sub _ req.biases _ _ hch hsub
  have hprep' : prepare { req with biases := (e2esEnabled req).eraseIdx i }
      = .ok (params, ((e2esEnabled req).eraseIdx i).map e2esChosen) :=
    (e2es_prepare_ok_iff _ _ _).mpr ⟨hv, hm, mp, hmp', hpp, hch'⟩
  have herase := e2es_loop_erase_unfired _ _ _ _ _ i out hrun hi hn
  have hmap : ((e2esEnabled req).map e2esChosen).eraseIdx i = ((e2esEnabled req).eraseIdx i).map e2esChosen := by
    rw [List.eraseIdx_map]
  rw [hmap] at herase
  have hloop : processLoop (applyBias exp g') params (((e2esEnabled req).eraseIdx i).map e2esChosen) params
      ((g req.biasSeed).eraseIdx i) = .ok (resp.final, resp.biases.eraseIdx i) := by
    rw [← herase]
    apply decideProcessLoop_congr
    intro c hc orig cur
    obtain ⟨b, hb, rfl⟩ := List.mem_map.mp hc
    apply decideApplyBias_congr
    intro k hk
    exact hbs b (List.mem_filter.mp (hsub b hb)).1 k hk
  have hpipe : pipeline exp { req with biases := (e2esEnabled req).eraseIdx i } g'
      = .ok (resp.final, resp.biases.eraseIdx i) := by
    rw [e2es_pipeline_of_prepare hprep']
    show processLoop _ _ _ _ (g' req.biasSeed) = _
    rw [hg']
    exact hloop
  have hseed : resp.final.mp.seed = mp.seed := by
    rw [decideLoop_seed _ _ _ _ _ hrun]
    obtain ⟨_, _, _, _, e⟩ := e2e_prepareParams_ok hpp
    rw [e]
  have hev' : evaluateWith o g' resp.final = .ok resp.result := by
    rw [← hev]
    apply decideEvaluate_congr
    intro k hk
    rw [hseed] at hk
    exact hmp mp hmp' k hk
  exact e2e_decideWith_of hpipe hev'

/-! ### list positions -/

theorem e2es_getElem?_replace_ne {β : Type} (l₁ l₂ : List β) (x y : β) (j : Nat) (hj : j ≠ l₁.length) :
    (l₁ ++ x :: l₂)[j]? = (l₁ ++ y :: l₂)[j]? := by
  rcases Nat.lt_or_gt_of_ne hj with h | h
  · rw [List.getElem?_append_left h, List.getElem?_append_left h]
  · rw [List.getElem?_append_right (Nat.le_of_lt h), List.getElem?_append_right (Nat.le_of_lt h)]
    obtain ⟨k, hk⟩ : ∃ k, j - l₁.length = k + 1 := ⟨j - l₁.length - 1, by omega⟩
    rw [hk, List.getElem?_cons_succ, List.getElem?_cons_succ]

theorem e2es_getElem?_replace_eq {β : Type} (l₁ l₂ : List β) (x : β) :
    (l₁ ++ x :: l₂)[l₁.length]? = some x := by
  rw [List.getElem?_append_right (Nat.le_refl _), Nat.sub_self, List.getElem?_cons_zero]

/-- the enabled entries / probabilities of a bias list with one distinguished entry -/
theorem e2es_enabled_split (pre post : List (BiasReq α (BProps α))) (b : BiasReq α (BProps α))
    (hen : b.disabled = false) :
    (pre ++ b :: post).filter (!·.disabled) =
      pre.filter (!·.disabled) ++ b :: post.filter (!·.disabled) := by
  rw [List.filter_append, List.filter_cons_of_pos (by simp [hen])]

/-! ### `decideWith` in normal form: head (no bias list, no stream), `ChooseBiases`, loop, `Evaluate` -/

/-- the part of `prepare` that does not look at the bias list: validation, registry lookup, `prepareParams` -/
def e2esHead (req : Request α) : R (DMP α) := do
  validateRequest req.method req.crit req.known req.chosen
  if !methodNames.contains req.method then throw s!"unknown-method:{req.method}"
  else match req.mp with
    | none => throw "parse-params"
    | some mp => prepareParams req mp

theorem e2es_prepare_eq (req : Request α) :
    prepare req = (do
      let params ← e2esHead req
      let ch ← chooseBiases availableBiases req.biases
      pure (params, ch)) := by
  unfold prepare e2esHead
  cases validateRequest req.method req.crit req.known req.chosen with
  | error e => rfl
  | ok u =>
    simp only [bind, Except.bind]
    split
    · rfl
    · cases req.mp with
      | none => rfl
      | some mp => cases prepareParams req mp <;> rfl

/-- `decideWith` of a request with the bias list `bs`, as a function of what `ChooseBiases` makes of `bs` -/
theorem e2es_decideWith_eq (exp : α → α) (o : List (WCrit α) → List (WCrit α)) (req : Request α)
    (g : Int → Draws α) (bs : List (BiasReq α (BProps α))) :
    decideWith exp o { req with biases := bs } g = (do
      let params ← e2esHead req
      let ch ← chooseBiases availableBiases bs
      let r ← processLoop (applyBias exp g) params ch params (g req.biasSeed)
      let res ← evaluateWith o g r.1
      pure ⟨res, r.2, r.1⟩) := by
  unfold decideWith pipeline processBiases
  rw [e2es_prepare_eq]
  show (do
      let r ← (do
        let pc ← (do
          let params ← e2esHead req
          let ch ← chooseBiases availableBiases bs
          pure (params, ch))
        processLoop (applyBias exp g) pc.1 pc.2 pc.1 (g req.biasSeed))
      let res ← evaluateWith o g r.1
      pure (⟨res, r.2, r.1⟩ : Response α)) = _
  cases e2esHead req with
  | error e => rfl
  | ok params =>
    cases chooseBiases availableBiases bs with
    | error e => rfl
    | ok ch => rfl

/-- `ChooseBiases` on a list with one distinguished enabled entry: the entries before, the entry, the entries
    after — an error of one part is the error of the whole -/
theorem e2es_choose_split {P : Type} (avail : List String) (pre post : List (BiasReq α P)) (b : BiasReq α P)
    (hen : b.disabled = false) :
    chooseBiases avail (pre ++ b :: post) = (do
      let a ← chooseBiases avail pre
      let y ← (if avail.contains b.name then pure (e2esChosen b) else throw s!"unknown-bias:{b.name}" : R _)
      let c ← chooseBiases avail post
      pure (a ++ y :: c)) := by
  have key : ∀ (f : BiasReq α P → R (Chosen α P)) (l₁ l₂ : List (BiasReq α P)) (x : BiasReq α P),
      (l₁ ++ x :: l₂).mapM f = (do
        let a ← l₁.mapM f
        let y ← f x
        let c ← l₂.mapM f
        pure (a ++ y :: c)) := by
    intro f l₁ l₂ x
    rw [List.mapM_append, List.mapM_cons]
    cases l₁.mapM f with
    | error e => rfl
    | ok a =>
      cases f x with
      | error e => rfl
      | ok y =>
        cases l₂.mapM f with
        | error e => rfl
        | ok c => rfl
  unfold chooseBiases
  rw [List.filter_append, List.filter_cons_of_pos (by simp [hen])]
  exact key _ _ _ _

/-- **the props of an entry that does not fire are never looked at**: replace the props of one enabled entry
    whose activation draw (if the stream has one for it) is not below its probability — the outcome of
    `decideWith` is the same as a whole (the same response, or the same error) -/
theorem e2es_decide_props_irrelevant (exp : α → α) (o : List (WCrit α) → List (WCrit α)) (req : Request α)
    (g : Int → Draws α) (pre post : List (BiasReq α (BProps α))) (b : BiasReq α (BProps α)) (props' : BProps α)
    (hen : b.disabled = false)
    (hu : ∀ u, (g req.biasSeed)[(pre.filter (!·.disabled)).length]? = some u → ¬ u < e2esProb b) :
    decideWith exp o { req with biases := pre ++ { b with props := props' } :: post } g
      = decideWith exp o { req with biases := pre ++ b :: post } g := by
  rw [e2es_decideWith_eq, e2es_decideWith_eq, e2es_choose_split _ _ _ _ hen,
    e2es_choose_split _ _ _ { b with props := props' } hen]
  cases e2esHead req with
  | error e => rfl
  | ok params =>
    cases hpre : chooseBiases availableBiases pre with
    | error e => rfl
    | ok a =>
      dsimp only
      cases hc : availableBiases.contains b.name with
      | false => rfl
      | true =>
        cases chooseBiases availableBiases post with
        | error e => rfl
        | ok c =>
          have hlen : a.length = (pre.filter (!·.disabled)).length := by
            obtain ⟨_, rfl⟩ := (e2es_choose_ok_iff _ _ _).mp hpre
            simp
          have := e2es_loop_props_irrelevant (apply := applyBias exp g) (orig := params) a (e2esChosen b)
            (e2esChosen { b with props := props' }) c params (g req.biasSeed) rfl rfl
            (by rw [hlen]; exact hu)
          simp only [bind, Except.bind, pure, Except.pure, if_true] at this ⊢
          rw [this]

end Rdm
