/-
  Lemmas for the end-to-end model, part 7 (progress of `Evaluate`): on a coherent state the seven methods return
  a ranking — the three utility methods, majority, aspect elimination, satisfaction (generic in the number type,
  the levels of the two threshold heuristics given) — under explicit side conditions.
-/
import Rdm.Lemmas.DecideProgressBasic
import Rdm.Lemmas.UtilityCapacities
import Rdm.Lemmas.HeurList
namespace Rdm
set_option linter.unusedSimpArgs false
set_option linter.unusedSectionVars false
variable {α : Type} [Num α]

/-! ### the three utility methods -/

theorem prog_weightedSum_total {a : Alt α} {wc : List (WCrit α)} (h : ∀ x ∈ wc, a.vals.has x.crit.id = true) :
    ∃ v, weightedSum a wc = .ok v := by
  unfold weightedSum
  obtain ⟨r, hr, _⟩ := prog_foldlM_total (ε := String)
    (f := fun (total : α) (c : WCrit α) => (do pure (total + (← a.signed c.crit)) : R α)) (fun _ => True)
    (l := wc) (init := Num.zero) trivial (by
      intro acc _ x hx
      obtain ⟨v, hv⟩ := prog_signed_total (a := a) (c := x.crit) (h x hx)
      exact ⟨acc + v, by simp only [hv, bind, Except.bind, pure, Except.pure], trivial⟩)
  exact ⟨r, hr⟩

theorem prog_owa_total {a : Alt α} {wc : List (WCrit α)} (h : a.vals.length = wc.length) : ∃ v, owa a wc = .ok v := by
  unfold owa
  simp only [h, bne_self_eq_false, Bool.false_eq_true, if_false]
  exact ⟨_, rfl⟩

/-- every capacity the integral looks up is present: all non-empty suffixes of the ascending list -/
theorem prog_choquetComponents_total (eps : α) (w : KMap α) :
    ∀ (n : Nat) (l : List (String × α)) (prev : α), l.length ≤ n →
      (∀ s, s <:+ l → s ≠ [] → w.has (criterionKey (s.map (·.1))) = true) →
      ∃ comps, choquetComponents eps w l prev = .ok comps
  | _, [], prev, _, _ => ⟨[], by rw [choquetComponents]; rfl⟩
  | 0, x :: xs, _, h, _ => by simp at h
  | n + 1, x :: xs, prev, h, hfull => by
    rw [choquetComponents]
    obtain ⟨μ, hμ⟩ := decideHas_get (hfull (x :: xs) (List.suffix_refl _) (by simp))
    have hlen : (dropGroup eps x.2 xs).length ≤ n := by
      have := dropGroup_length_le eps x.2 xs
      simp only [List.length_cons] at h; omega
    have hsuf : dropGroup eps x.2 xs <:+ xs := by
      clear hlen hfull h hμ
      induction xs with
      | nil => exact List.suffix_refl _
      | cons y ys ih =>
        unfold dropGroup
        split
        · exact ih.trans (List.suffix_cons y ys)
        · exact List.suffix_refl _
    obtain ⟨rest, hrest⟩ := prog_choquetComponents_total eps w n (dropGroup eps x.2 xs) x.2 hlen
      (fun s hs hne => hfull s (hs.trans (hsuf.trans (List.suffix_cons x xs))) hne)
    refine ⟨(sortStrs ((x :: xs).map (·.1)), μ * (x.2 - prev)) :: rest, ?_⟩
    unfold unionWeight
    simp only [hμ, hrest, bind, Except.bind, pure, Except.pure]

theorem prog_ascendingVals_perm (a : Alt α) : (ascendingVals a).Perm a.vals := List.mergeSort_perm _ _

/-- the capacities of every non-empty set of current criteria are present (`Spec.C07.covers` for Choquet), the
    alternative holds declared criteria only, each once: the integral looks up present capacities only -/
theorem prog_choquetValue_total {eps : α} {crit : List (Crit α)} {w : KMap α} {cs : List (Crit α)} {a : Alt α}
    (hcov : Spec.C07.covers crit (.choquet w cs) = true) (hn : (crit.map (·.id)).Nodup)
    (hk : a.vals.keys.Nodup) (hsub : ∀ k ∈ a.vals.keys, ∃ c ∈ crit, c.id = k) :
    ∃ comps, choquetComponents eps w (ascendingVals a) Num.zero = .ok comps := by
  apply prog_choquetComponents_total eps w _ _ _ (Nat.le_refl _)
  intro s hs hne
  have hperm : ((ascendingVals a).map (·.1)).Perm a.vals.keys := (prog_ascendingVals_perm a).map _
  have hsl : (s.map (·.1)).Sublist ((ascendingVals a).map (·.1)) := hs.sublist.map _
  have htn : (s.map (·.1)).Nodup := hsl.nodup (hperm.nodup_iff.mpr hk)
  have hts : ∀ x ∈ s.map (·.1), x ∈ crit.map (·.id) := by
    intro x hx
    obtain ⟨c, hc, e⟩ := hsub x (hperm.mem_iff.mp (hsl.subset hx))
    exact e ▸ List.mem_map_of_mem hc
  obtain ⟨s', hs', hp⟩ := exists_powerSet_perm _ _ hn htn (by simpa using hne) hts
  simp only [Spec.C07.covers, List.all_eq_true] at hcov
  rw [← criterionKey_perm_eq hp]
  exact hcov s' hs'

/-- what `Evaluate` of the three utility methods needs beyond coherence -/
def prog_utilityReady (d : DMP α) : Prop :=
  match d.mp with
  | .ws wc => ∀ x ∈ wc, ∃ c ∈ d.crit, c.id = x.crit.id
  | .owa _ => ProgExact d
  | .choquet _ _ => ProgExact d
  | _ => False

theorem prog_utilityValueOf_total {d : DMP α} (hc : Coherent d) (hr : prog_utilityReady d) :
    ∀ a ∈ d.co, ∃ v, utilityValueOf d.mp a = .ok v := by
  intro a ha
  have ha' : a ∈ d.co ++ d.nc := List.mem_append_left _ ha
  unfold prog_utilityReady at hr
  unfold utilityValueOf
  have hcov := hc.covers
  cases hmp : d.mp with
  | ws wc =>
    rw [hmp] at hr
    dsimp only at hr ⊢
    apply prog_weightedSum_total
    intro x hx
    obtain ⟨c, hcm, e⟩ := hr x hx
    rw [← e]; exact hc.values a ha' c hcm
  | owa wc =>
    rw [hmp] at hr hcov
    dsimp only at hr ⊢
    apply prog_owa_total
    rw [prog_exact_length hc hr a ha']
    simp only [Spec.C07.covers, Bool.and_eq_true, beq_iff_eq] at hcov
    exact hcov.2.symm
  | choquet w cs =>
    rw [hmp] at hr hcov
    dsimp only at hr ⊢
    obtain ⟨comps, h⟩ := prog_choquetValue_total (eps := (choquetEpsOf : α)) (a := a) hcov hc.nodup
      (hr.keysNodup a ha') (hr.declared a ha')
    exact ⟨_, by unfold choquetValue; rw [h]; rfl⟩
  | electre _ _ => rw [hmp] at hr; exact hr.elim
  | majority _ _ _ _ _ => rw [hmp] at hr; exact hr.elim
  | aspect _ _ _ _ _ => rw [hmp] at hr; exact hr.elim
  | satisf _ _ _ _ _ => rw [hmp] at hr; exact hr.elim

theorem prog_utilityEvaluate_total {d : DMP α} (hc : Coherent d) (hr : prog_utilityReady d) :
    ∃ r, utilityEvaluate d = .ok r := by
  unfold utilityEvaluate
  obtain ⟨sc, hsc⟩ := decideMapM_total (ε := String)
    (f := fun a : Alt α => (do pure (⟨a.id, ← utilityValueOf d.mp a⟩ : Scored α) : R (Scored α)))
    (l := d.co) (fun a ha => by
      obtain ⟨v, hv⟩ := prog_utilityValueOf_total hc hr a ha
      exact ⟨⟨a.id, v⟩, by simp only [hv, bind, Except.bind, pure, Except.pure]⟩)
  exact ⟨ranking sc, by rw [hsc]; rfl⟩

theorem prog_evaluate_utility {o : List (WCrit α) → List (WCrit α)} {g : Int → Draws α} {d : DMP α}
    (hc : Coherent d) (hr : prog_utilityReady d) : ∃ r, evaluateWith o g d = .ok r := by
  obtain ⟨r, h⟩ := prog_utilityEvaluate_total hc hr
  unfold prog_utilityReady at hr
  unfold evaluateWith
  cases hmp : d.mp with
  | ws wc => exact ⟨r.map fun e => ⟨e.id, .util e.v, e.links⟩, by simp only [h, bind, Except.bind, pure, Except.pure]⟩
  | owa wc => exact ⟨r.map fun e => ⟨e.id, .util e.v, e.links⟩, by simp only [h, bind, Except.bind, pure, Except.pure]⟩
  | choquet w cs => exact ⟨r.map fun e => ⟨e.id, .util e.v, e.links⟩, by simp only [h, bind, Except.bind, pure, Except.pure]⟩
  | electre _ _ => rw [hmp] at hr; exact hr.elim
  | majority _ _ _ _ _ => rw [hmp] at hr; exact hr.elim
  | aspect _ _ _ _ _ => rw [hmp] at hr; exact hr.elim
  | satisf _ _ _ _ _ => rw [hmp] at hr; exact hr.elim

/-! ### search order (majority, satisfaction) and plain ordering (aspect elimination) -/

theorem prog_zipWithWeights_total {cs : List (Crit α)} {w : KMap α} (h : ∀ c ∈ cs, w.has c.id = true) :
    ∃ r, zipWithWeights cs w = .ok r ∧ r.map (·.crit) = cs := by
  obtain ⟨z, hz⟩ := decideMapM_total (ε := String)
    (f := fun c : Crit α => (do pure (⟨c, ← KMap.fetch w c.id⟩ : WCrit α) : R (WCrit α))) (l := cs)
    (fun c hc => by
      obtain ⟨v, hv⟩ := decideFetch_total (h c hc)
      exact ⟨⟨c, v⟩, by simp only [hv, bind, Except.bind, pure, Except.pure]⟩)
  exact ⟨z, hz, BiasA.zipWithWeights_crit hz⟩

theorem prog_shuffleLoop_total {β : Type} : ∀ (i : Nat) (l : List β) (d : Draws α), i ≤ d.length →
    ∃ l' d', shuffleLoop i l d = .ok (l', d') ∧ l'.Perm l ∧ d'.length = d.length - i
  | 0, l, d, _ => ⟨l, d, rfl, List.Perm.refl _, by simp⟩
  | i + 1, l, d, h => by
    obtain ⟨u, d1, hu, hl⟩ := decideDraw_total (d := d) (by omega)
    obtain ⟨l', d', h', hp, hl'⟩ := prog_shuffleLoop_total i
      (swapAt l (i + 1) (Num.floorInt (u * Num.ofNat (i + 1))).toNat) d1 (by omega)
    refine ⟨l', d', ?_, hp.trans (swapAt_perm _ _ _), by omega⟩
    unfold shuffleLoop
    simp only [hu, bind, Except.bind]
    exact h'

theorem prog_orderAlternatives_total {β : Type} (rnd : Bool) (l : List β) (d : Draws α)
    (h : rnd = true → l.length - 1 ≤ d.length) :
    ∃ l' d', orderAlternatives rnd l d = .ok (l', d') ∧ l'.Perm l ∧ d.length - (l.length - 1) ≤ d'.length := by
  unfold orderAlternatives
  cases rnd with
  | false => exact ⟨l, d, rfl, List.Perm.refl _, by omega⟩
  | true =>
    obtain ⟨l', d', h', hp, hl⟩ := prog_shuffleLoop_total (l.length - 1) l d (h rfl)
    exact ⟨l', d', h', hp, by omega⟩

/-- the current choice of the two searching heuristics is usable: absent with a non-empty considered list (the
    code indexes `[0]`), or the id of a known alternative (`FetchAlternative` panics otherwise) -/
def prog_curKnown (d : DMP α) (cur : String) : Prop :=
  (cur = "" ∧ d.co ≠ []) ∨ (cur ≠ "" ∧ ∃ a ∈ d.all, a.id = cur)

theorem prog_searchOrder_total {d : DMP α} {cur : String} {rnd : Bool} {ds : Draws α}
    (hcur : prog_curKnown d cur) (hd : rnd = true → d.co.length - 1 ≤ ds.length) :
    ∃ first rest ds', searchOrder d cur rnd ds = .ok ((first, rest), ds') ∧ first ∈ d.all ∧
      (∀ a ∈ rest, a ∈ d.co) ∧ rest.length ≤ d.co.length ∧ ds.length - (d.co.length - 1) ≤ ds'.length := by
  unfold searchOrder
  rcases hcur with ⟨rfl, hne⟩ | ⟨hne, hk⟩
  · simp only [bne_self_eq_false, Bool.false_eq_true, if_false]
    obtain ⟨l', d', h', hp, hl⟩ := prog_orderAlternatives_total rnd d.co ds hd
    cases l' with
    | nil => exact absurd (hp.symm.eq_nil) hne
    | cons a rest =>
      refine ⟨a, rest, d', by simp only [h', bind, Except.bind]; rfl, ?_, ?_, ?_, hl⟩
      · exact List.mem_append_left _ (hp.mem_iff.mp (by simp))
      · exact fun x hx => hp.mem_iff.mp (List.mem_cons_of_mem _ hx)
      · have := hp.length_eq; simp at this; omega
  · have hne' : (cur != "") = true := by simpa using hne
    simp only [hne', if_true]
    obtain ⟨choice, hch⟩ := decideFetchAlt_total hk
    have hlen := removeAlt_length_le d.co choice.id
    obtain ⟨l', d', h', hp, hl⟩ := prog_orderAlternatives_total rnd (removeAlt d.co choice.id) ds
      (fun h => by have := hd h; omega)
    refine ⟨choice, l', d', by simp only [hch, h', bind, Except.bind]; rfl, (fetchAlt_ok hch).1, ?_, ?_, by omega⟩
    · exact fun x hx => (removeAlt_sublist d.co choice.id).subset (hp.mem_iff.mp hx)
    · rw [hp.length_eq]; exact hlen

/-! ### majority -/

/-- the draw policy is registered (empty = the first registered one) -/
def prog_policyKnown (name : String) : Prop := name = "" ∨ ∃ p ∈ registeredPolicies, p.name = name

theorem prog_findPolicy_total {name : String} (h : prog_policyKnown name) : ∃ p, findPolicy name = .ok p := by
  unfold findPolicy
  rcases h with rfl | ⟨p, hp, e⟩
  · exact ⟨.allow, by decide⟩
  · by_cases hn : name = ""
    · subst hn; exact ⟨.allow, by decide⟩
    · have : (name == "") = false := by simpa using hn
      simp only [this, Bool.false_eq_true, if_false]
      cases hf : registeredPolicies.find? (fun p => p.name == name) with
      | some q => exact ⟨q, rfl⟩
      | none =>
        rw [List.find?_eq_none] at hf
        exact absurd (by simp [e]) (hf p hp)

theorem prog_compareLoop_total (eps : α) (a1 a2 : Alt α) :
    ∀ (wc : List (WCrit α)) (s1 s2 : α), (∀ c ∈ wc, a1.vals.has c.crit.id = true ∧ a2.vals.has c.crit.id = true) →
      ∃ r, compareLoop eps a1 a2 wc s1 s2 = .ok r
  | [], s1, s2, _ => ⟨(s1, s2), rfl⟩
  | c :: cs, s1, s2, h => by
    obtain ⟨v1, h1⟩ := prog_signed_total (h c (by simp)).1
    obtain ⟨v2, h2⟩ := prog_signed_total (h c (by simp)).2
    have ih := fun s1 s2 => prog_compareLoop_total eps a1 a2 cs s1 s2 (fun c' hc' => h c' (List.mem_cons_of_mem _ hc'))
    unfold compareLoop
    simp only [h1, h2, bind, Except.bind]
    split
    · exact ih _ _
    · split
      · exact ih _ _
      · exact ih _ _

theorem prog_takeBetter_total (pol : DrawPolicy) (s1 s2 : α) (st : MajState α) (another : Alt α) (d : Draws α)
    (hd : 0 < d.length) :
    ∃ st' ev d', takeBetter pol s1 s2 st another d = .ok ((st', ev), d') ∧ d.length - 1 ≤ d'.length ∧
      (st'.cur = st.cur ∨ st'.cur = another) := by
  unfold takeBetter
  split
  · unfold resolveDraw
    cases pol with
    | allow => exact ⟨_, _, _, rfl, by omega, Or.inl rfl⟩
    | current => exact ⟨_, _, _, rfl, by omega, Or.inl rfl⟩
    | newer => exact ⟨_, _, _, rfl, by omega, Or.inr rfl⟩
    | random =>
      obtain ⟨u, d1, hu, hl⟩ := decideDraw_total (d := d) hd
      by_cases hlt : u < Num.ofConst Facts.randomWinnerHalf
      · exact ⟨resolveCurrent s1 s2 st another, s1, d1,
          by simp only [hu, hlt, bind, Except.bind, pure, Except.pure, if_true], by omega, Or.inl rfl⟩
      · exact ⟨resolveNewer s1 s2 st another, s1, d1,
          by simp only [hu, hlt, bind, Except.bind, pure, Except.pure, if_false], by omega, Or.inr rfl⟩
  · split
    · exact ⟨_, _, _, rfl, by omega, Or.inl rfl⟩
    · exact ⟨_, _, _, rfl, by omega, Or.inr rfl⟩

theorem prog_majorityFold_total (pol : DrawPolicy) (wc : List (WCrit α)) :
    ∀ (rest : List (Alt α)) (st : MajState α) (ev : α) (d : Draws α), rest.length ≤ d.length →
      (∀ a ∈ st.cur :: rest, ∀ c ∈ wc, a.vals.has c.crit.id = true) →
      ∃ r, majorityFold pol wc rest st ev d = .ok r
  | [], st, ev, d, _, _ => ⟨((st, ev), d), rfl⟩
  | another :: rest, st, ev, d, hd, hv => by
    obtain ⟨⟨s1, s2⟩, hcmp⟩ := prog_compareLoop_total (majorityEpsOf : α) st.cur another wc Num.zero Num.zero
      (fun c hc => ⟨hv st.cur (by simp) c hc, hv another (by simp) c hc⟩)
    obtain ⟨st', ev', d', htb, hl, hcur⟩ := prog_takeBetter_total pol s1 s2 st another d (by simp at hd; omega)
    obtain ⟨r, hr⟩ := prog_majorityFold_total pol wc rest st' ev' d' (by simp at hd; omega) (by
      intro a ha c hc
      rcases List.mem_cons.mp ha with rfl | ha
      · rcases hcur with e | e <;> rw [e]
        · exact hv _ (by simp) c hc
        · exact hv _ (by simp) c hc
      · exact hv a (by simp [ha]) c hc)
    refine ⟨r, ?_⟩
    unfold majorityFold compareAlts
    simp only [hcmp, htb, bind, Except.bind]
    exact hr

/-- what `Majority.Evaluate` needs beyond coherence: known draw policy, usable current choice, and enough numbers
    in the method's stream: one per position of the shuffle (`randomAlternativesOrdering`), one per comparison
    for the `random` draw policy -/
theorem prog_majorityEvaluate_total {d : DMP α} {ds : Draws α} {w : KMap α} {cur : String} {seed : Int}
    {rnd : Bool} {dr : String} (hmp : d.mp = .majority w cur seed rnd dr) (hc : Coherent d)
    (hpol : prog_policyKnown dr) (hcur : prog_curKnown d cur) (hds : 2 * d.co.length ≤ ds.length) :
    ∃ r, majorityEvaluate d ds = .ok r := by
  have hcov := hc.covers
  rw [hmp] at hcov
  simp only [Spec.C07.covers, List.all_eq_true] at hcov
  obtain ⟨wc, hwc, hwcm⟩ := prog_zipWithWeights_total (cs := d.crit) (w := w) hcov
  obtain ⟨first, rest, ds', hso, hf, hrest, hrl, hdl⟩ := prog_searchOrder_total (rnd := rnd) (ds := ds) hcur
    (fun _ => by omega)
  obtain ⟨pol, hp⟩ := prog_findPolicy_total hpol
  have hvals : ∀ a ∈ first :: rest, ∀ c ∈ wc, a.vals.has c.crit.id = true := by
    intro a ha c hcm
    have hmem : a ∈ d.co ++ d.nc := by
      rcases List.mem_cons.mp ha with rfl | ha
      · exact hf
      · exact List.mem_append_left _ (hrest a ha)
    exact hc.values a hmem c.crit (by rw [← hwcm]; exact List.mem_map_of_mem hcm)
  obtain ⟨⟨⟨st, ev⟩, d'⟩, hfold⟩ := prog_majorityFold_total pol wc rest ⟨[], [], first⟩ Num.zero ds' (by omega) hvals
  refine ⟨majorityRanking (majorityGroups st ev), ?_⟩
  unfold majorityEvaluate
  rw [hmp]
  simp only [hwc, hso, hp, majorityTournament, hfold, bind, Except.bind, pure, Except.pure]

theorem prog_evaluate_majority {o : List (WCrit α) → List (WCrit α)} {g : Int → Draws α} {d : DMP α} {w : KMap α}
    {cur : String} {seed : Int} {rnd : Bool} {dr : String} (hmp : d.mp = .majority w cur seed rnd dr)
    (hc : Coherent d) (hpol : prog_policyKnown dr) (hcur : prog_curKnown d cur)
    (hds : 2 * d.co.length ≤ (g seed).length) : ∃ r, evaluateWith o g d = .ok r := by
  obtain ⟨r, h⟩ := prog_majorityEvaluate_total (ds := g seed) hmp hc hpol hcur hds
  refine ⟨r.map (Linked.mapEv .maj), ?_⟩
  unfold evaluateWith
  rw [hmp]
  simp only [h, bind, Except.bind, pure, Except.pure]

/-! ### aspect elimination (levels given) -/

theorem prog_isBelowThreshold_total {a : Alt α} {t : KMap α} {c : Crit α} (h : a.vals.has c.id = true) :
    ∃ b, isBelowThreshold a t c = .ok b := by
  obtain ⟨v, hv⟩ := prog_signed_total h
  exact ⟨_, by unfold isBelowThreshold; simp only [hv, bind, Except.bind, pure, Except.pure]; rfl⟩

theorem prog_removeAlt_subset (l : List (Alt α)) (id : String) : ∀ x ∈ removeAlt l id, x ∈ l :=
  fun _ hx => (removeAlt_sublist l id).subset hx

theorem prog_aspAltLoop_total (idx : Nat) (t : KMap α) (c : Crit α) :
    ∀ (l temp : List (Alt α)), (∀ a ∈ l, a.vals.has c.id = true) →
      ∃ r, aspAltLoop idx t c l temp = .ok r ∧ ∀ x ∈ r.1, x ∈ temp
  | [], temp, _ => ⟨(temp, [], false), rfl, fun _ hx => hx⟩
  | a :: rest, temp, h => by
    obtain ⟨b, hb⟩ := prog_isBelowThreshold_total (t := t) (h a (by simp))
    have hsub : ∀ x ∈ (if b = true then removeAlt temp a.id else temp), x ∈ temp := by
      intro x hx
      split at hx
      · exact prog_removeAlt_subset _ _ x hx
      · exact hx
    unfold aspAltLoop
    simp only [hb, bind, Except.bind]
    by_cases hlen : (if b = true then removeAlt temp a.id else temp).length ≤ 1
    · rw [if_pos hlen]
      exact ⟨(_, _, true), rfl, hsub⟩
    · rw [if_neg hlen]
      obtain ⟨r, hr, hs⟩ := prog_aspAltLoop_total idx t c rest (if b = true then removeAlt temp a.id else temp)
        (fun a' ha' => h a' (List.mem_cons_of_mem _ ha'))
      refine ⟨(r.1, (if b = true then [(a.id, (⟨idx, [(c.id, levelValue t c.id)]⟩ : AspEval α))] else []) ++ r.2.1,
        r.2.2), ?_, fun x hx => hsub x (hs x hx)⟩
      simp only [hr, pure, Except.pure]

theorem prog_aspCritLoop_total (idx : Nat) (t : KMap α) :
    ∀ (crits : List (Crit α)) (left : List (Alt α)), (∀ a ∈ left, ∀ c ∈ crits, a.vals.has c.id = true) →
      ∃ r, aspCritLoop idx t crits left = .ok r ∧ ∀ x ∈ r.1, x ∈ left
  | [], left, _ => ⟨(left, [], false), rfl, fun _ hx => hx⟩
  | c :: cs, left, h => by
    obtain ⟨⟨temp, e1, stop⟩, hr, hs⟩ := prog_aspAltLoop_total idx t c left left (fun a ha => h a ha c (by simp))
    unfold aspCritLoop
    simp only [hr, bind, Except.bind]
    cases stop with
    | true => exact ⟨_, rfl, hs⟩
    | false =>
      obtain ⟨r2, hr2, hs2⟩ := prog_aspCritLoop_total idx t cs temp
        (fun a ha c' hc' => h a (hs a ha) c' (List.mem_cons_of_mem _ hc'))
      refine ⟨(r2.1, e1 ++ r2.2.1, r2.2.2), ?_, fun x hx => hs x (hs2 x hx)⟩
      simp only [hr2, pure, Except.pure, Bool.false_eq_true, if_false]

theorem prog_aspLevelLoop_total (crits : List (Crit α)) :
    ∀ (levels : List (KMap α)) (idx : Nat) (left : List (Alt α)), (∀ a ∈ left, ∀ c ∈ crits, a.vals.has c.id = true) →
      ∃ r, aspLevelLoop crits idx levels left = .ok r
  | [], idx, left, _ => ⟨(left, [], idx), rfl⟩
  | t :: ts, idx, left, h => by
    obtain ⟨⟨l1, e1, stop⟩, hr, hs⟩ := prog_aspCritLoop_total idx t crits left h
    unfold aspLevelLoop
    simp only [hr, bind, Except.bind]
    cases stop with
    | true => exact ⟨_, rfl⟩
    | false =>
      obtain ⟨r2, hr2⟩ := prog_aspLevelLoop_total crits ts (idx + 1) l1 (fun a ha => h a (hs a ha))
      exact ⟨(r2.1, e1 ++ r2.2.1, r2.2.2), by simp only [hr2, pure, Except.pure, Bool.false_eq_true, if_false]⟩

theorem prog_aspectCore_total {crits : List (Crit α)} {levels : List (KMap α)} {alts : List (Alt α)}
    (h : ∀ a ∈ alts, ∀ c ∈ crits, a.vals.has c.id = true) : ∃ r, aspectCore crits levels alts = .ok r := by
  unfold aspectCore aspCheck
  split
  · exact ⟨_, rfl⟩
  · obtain ⟨r, hr⟩ := prog_aspLevelLoop_total crits levels 0 alts h
    exact ⟨_, by simp only [hr, bind, Except.bind]; rfl⟩

/-- `AspectEliminationHeuristic.Evaluate`, the levels given: the examination order must not invent criteria
    (`sortCriteria` permutes), the stream has one number per position of the alternatives shuffle -/
theorem prog_aspectEvaluateWith_total {d : DMP α} {ds : Draws α} {fn : String} {lv : Levels α} {seed : Int}
    {w : KMap α} {rnd : Bool} {levels : R (List (KMap α))} {order : List (WCrit α) → List (WCrit α)}
    (hmp : d.mp = .aspect fn lv seed w rnd) (hc : Coherent d) (hlv : ∃ L, levels = .ok L)
    (hord : ∀ l, ∀ x ∈ order l, x ∈ l) (hds : rnd = true → d.co.length - 1 ≤ ds.length) :
    ∃ r, aspectEvaluateWith d ds levels order = .ok r := by
  have hcov := hc.covers
  rw [hmp] at hcov
  simp only [Spec.C07.covers, Bool.and_eq_true, List.all_eq_true] at hcov
  obtain ⟨L, hL⟩ := hlv
  obtain ⟨alts, ds', hoa, hp, _⟩ := prog_orderAlternatives_total rnd d.co ds hds
  obtain ⟨wc, hwc, hwcm⟩ := prog_zipWithWeights_total (cs := d.crit) (w := w) hcov.1
  obtain ⟨r, hr⟩ := prog_aspectCore_total (crits := (order wc).map (·.crit)) (levels := L) (alts := alts) (by
    intro a ha c hcm
    obtain ⟨x, hx, rfl⟩ := List.mem_map.mp hcm
    refine hc.values a (List.mem_append_left _ (hp.mem_iff.mp ha)) x.crit ?_
    rw [← hwcm]; exact List.mem_map_of_mem (hord wc x hx))
  refine ⟨r, ?_⟩
  unfold aspectEvaluateWith
  rw [hmp]
  simp only [hL, hoa, hwc, hr, bind, Except.bind]

theorem prog_evaluate_aspect {o : List (WCrit α) → List (WCrit α)} {g : Int → Draws α} {d : DMP α} {fn : String}
    {lv : Levels α} {seed : Int} {w : KMap α} {rnd : Bool} (hmp : d.mp = .aspect fn lv seed w rnd)
    (hc : Coherent d) (hlv : ∃ L, aspectLevels d = .ok L) (hord : ∀ l, ∀ x ∈ o l, x ∈ l)
    (hds : rnd = true → d.co.length - 1 ≤ (g seed).length) : ∃ r, evaluateWith o g d = .ok r := by
  obtain ⟨r, h⟩ := prog_aspectEvaluateWith_total (ds := g seed) hmp hc hlv hord hds
  refine ⟨r.map (Linked.mapEv .asp), ?_⟩
  unfold evaluateWith
  rw [hmp]
  simp only [h, bind, Except.bind, pure, Except.pure]

/-! ### satisfaction (levels given) -/

/-- every level names every current criterion (`Next()` of the coefficient sources builds it so, `Initialize`
    of the thresholds source checks it) -/
def prog_LevelsOk (crits : List (Crit α)) (L : List (KMap α)) : Prop := ∀ t ∈ L, ∀ c ∈ crits, t.has c.id = true

theorem prog_isGoodEnough_total (a : Alt α) :
    ∀ (th : List (WCrit α)), (∀ v ∈ th, a.vals.has v.crit.id = true) → ∃ b, isGoodEnough a th = .ok b
  | [], _ => ⟨true, rfl⟩
  | v :: vs, h => by
    obtain ⟨x, hx⟩ := prog_signed_total (h v (by simp))
    unfold isGoodEnough
    simp only [hx, bind, Except.bind]
    split
    · exact ⟨false, rfl⟩
    · exact prog_isGoodEnough_total a vs (fun v' hv' => h v' (List.mem_cons_of_mem _ hv'))

theorem prog_satAltLoop_total (idx : Nat) (t : KMap α) (th : List (WCrit α)) :
    ∀ (l temp : List (Alt α)), (∀ a ∈ l, ∀ v ∈ th, a.vals.has v.crit.id = true) →
      ∃ r, satAltLoop idx t th l temp = .ok r ∧ ∀ x ∈ r.1, x ∈ temp
  | [], temp, _ => ⟨(temp, []), rfl, fun _ hx => hx⟩
  | a :: rest, temp, h => by
    obtain ⟨b, hb⟩ := prog_isGoodEnough_total a th (h a (by simp))
    have hsub : ∀ x ∈ (if b = true then removeAlt temp a.id else temp), x ∈ temp := by
      intro x hx
      split at hx
      · exact prog_removeAlt_subset _ _ x hx
      · exact hx
    obtain ⟨r, hr, hs⟩ := prog_satAltLoop_total idx t th rest (if b = true then removeAlt temp a.id else temp)
      (fun a' ha' => h a' (List.mem_cons_of_mem _ ha'))
    refine ⟨(r.1, (if b = true then [(a.id, (⟨idx, t⟩ : SatEval α))] else []) ++ r.2), ?_,
      fun x hx => hsub x (hs x hx)⟩
    unfold satAltLoop
    simp only [hb, hr, bind, Except.bind, pure, Except.pure]

theorem prog_satLevelLoop_total (crits : List (Crit α)) :
    ∀ (levels : List (KMap α)) (idx : Nat) (left : List (Alt α)), prog_LevelsOk crits levels →
      (∀ a ∈ left, ∀ c ∈ crits, a.vals.has c.id = true) → ∃ r, satLevelLoop crits idx levels left = .ok r
  | [], idx, left, _, _ => ⟨(left, [], idx), rfl⟩
  | t :: ts, idx, left, hl, h => by
    obtain ⟨th, hth, hthm⟩ := prog_zipWithWeights_total (cs := crits) (w := t) (hl t (by simp))
    obtain ⟨⟨l1, e1⟩, hr, hs⟩ := prog_satAltLoop_total idx t th left left (fun a ha v hv =>
      h a ha v.crit (by rw [← hthm]; exact List.mem_map_of_mem hv))
    unfold satLevelLoop
    simp only [hth, hr, bind, Except.bind]
    split
    · exact ⟨_, rfl⟩
    · obtain ⟨r2, hr2⟩ := prog_satLevelLoop_total crits ts (idx + 1) l1
        (fun t' ht' => hl t' (List.mem_cons_of_mem _ ht')) (fun a ha => h a (hs a ha))
      exact ⟨(r2.1, e1 ++ r2.2.1, r2.2.2), by simp only [hr2, pure, Except.pure]⟩

theorem prog_worstEnds_total {d : DMP α} (hc : Coherent d) : ∃ r, worstEnds d = .ok r := by
  unfold worstEnds
  apply decideMapM_total
  intro c hcm
  obtain ⟨r, hr⟩ := decideValuesRange_total (alts := d.all) (c := c)
    (fun a ha => hc.values a (by simpa [DMP.all] using ha) c hcm)
  exact ⟨_, by simp only [hr, bind, Except.bind, pure, Except.pure]; rfl⟩

theorem prog_satisfactionCore_total {d : DMP α} {L : List (KMap α)} {order : List (Alt α)} (hc : Coherent d)
    (hl : prog_LevelsOk d.crit L) (ho : ∀ a ∈ order, a ∈ d.co ++ d.nc) : ∃ r, satisfactionCore d L order = .ok r := by
  obtain ⟨⟨left, acc, sidx⟩, hr⟩ := prog_satLevelLoop_total d.crit L 0 order hl (fun a ha => hc.values a (ho a ha))
  obtain ⟨low, hlow⟩ := prog_worstEnds_total hc
  unfold satisfactionCore
  simp only [hr, bind, Except.bind]
  split
  · exact ⟨_, rfl⟩
  · exact ⟨_, by simp only [hlow, pure, Except.pure]; rfl⟩

/-- `Satisfaction.Evaluate`, the levels given (each naming every current criterion): usable current choice,
    one number per position of the alternatives shuffle -/
theorem prog_satisfactionEvaluateWith_total {d : DMP α} {ds : Draws α} {fn : String} {lv : Levels α} {seed : Int}
    {cur : String} {rnd : Bool} {levels : R (List (KMap α))} (hmp : d.mp = .satisf fn lv seed cur rnd)
    (hc : Coherent d) (hlv : ∃ L, levels = .ok L ∧ prog_LevelsOk d.crit L) (hcur : prog_curKnown d cur)
    (hds : rnd = true → d.co.length - 1 ≤ ds.length) : ∃ r, satisfactionEvaluateWith d ds levels = .ok r := by
  obtain ⟨L, hL, hok⟩ := hlv
  obtain ⟨first, rest, ds', hso, hf, hrest, _, _⟩ := prog_searchOrder_total (rnd := rnd) (ds := ds) hcur hds
  obtain ⟨r, hr⟩ := prog_satisfactionCore_total (d := d) (L := L) (order := first :: rest) hc hok (by
    intro a ha
    rcases List.mem_cons.mp ha with rfl | ha
    · exact hf
    · exact List.mem_append_left _ (hrest a ha))
  refine ⟨r, ?_⟩
  unfold satisfactionEvaluateWith
  rw [hmp]
  simp only [hL, hso, hr, bind, Except.bind]

theorem prog_evaluate_satisf {o : List (WCrit α) → List (WCrit α)} {g : Int → Draws α} {d : DMP α} {fn : String}
    {lv : Levels α} {seed : Int} {cur : String} {rnd : Bool} (hmp : d.mp = .satisf fn lv seed cur rnd)
    (hc : Coherent d) (hlv : ∃ L, satisfactionLevels d = .ok L ∧ prog_LevelsOk d.crit L)
    (hcur : prog_curKnown d cur) (hds : rnd = true → d.co.length - 1 ≤ (g seed).length) :
    ∃ r, evaluateWith o g d = .ok r := by
  obtain ⟨r, h⟩ := prog_satisfactionEvaluateWith_total (ds := g seed) hmp hc hlv hcur hds
  refine ⟨r.map (Linked.mapEv .sat), ?_⟩
  unfold evaluateWith
  rw [hmp]
  have : satisfactionEvaluate d (g seed) = .ok r := h
  simp only [this, bind, Except.bind, pure, Except.pure]

/-! ### the levels of the explicit-thresholds source -/

theorem prog_explicitLevels_total {d : DMP α} {ts : List (KMap α)}
    (h : ∀ t ∈ ts, ∀ c ∈ d.crit, t.has c.id = true) : explicitLevels d ts = .ok ts := by
  unfold explicitLevels
  have : (ts.all fun t => d.crit.all fun c => t.has c.id) = true := by
    simp only [List.all_eq_true]; exact h
  simp only [this, if_true]; rfl

end Rdm
