/-
  Map-order independence of the Choquet integral (C02), over `Rat`:
  `prepareCriteriaInAscendingOrder` collects the alternative's map into a slice (in map order) and sorts it by
  value; entries with equal values keep their map order.  `computeTotalWeight` nevertheless gives the same
  components for every listing, because (for `0 ≤ eps`) a tie group always swallows all entries of the
  head's value, the set of remaining criteria is turned into a canonical key, and the values at the group
  boundaries are the same.
-/
import Mathlib.Tactic.Linarith
import Rdm.Lemmas.NumRat
import Rdm.Lemmas.UtilityKeys
import Rdm.Lemmas.MapOrderBasic
namespace Rdm

/-! ### the ascending slice -/

theorem ascendingVals_perm (a : Alt Rat) : (ascendingVals a).Perm a.vals := List.mergeSort_perm _ _

theorem ascendingVals_sorted (a : Alt Rat) : (ascendingVals a).Pairwise (fun x y => x.2 ≤ y.2) := by
  have := List.pairwise_mergeSort (le := fun x y : String × Rat => decide (x.2 ≤ y.2))
    (fun a b c h1 h2 => by simp only [decide_eq_true_eq] at *; exact le_trans h1 h2)
    (fun a b => by simp only [Bool.or_eq_true, decide_eq_true_eq]; exact le_total a.2 b.2) a.vals
  simpa [ascendingVals] using this

/-! ### tie groups -/

/-- above the current value, `FloatsAreEqual(cur, y, eps)` is `y − cur ≤ eps` -/
theorem floatsAreEqual_of_le {v y : Rat} (eps : Rat) (h : v ≤ y) :
    floatsAreEqual v y eps = true ↔ y - v ≤ eps := by
  unfold floatsAreEqual
  simp only [Num.abs_rat, decide_eq_true_eq]
  split_ifs with h0
  · constructor <;> intro h' <;> linarith
  · have : v = y := by linarith
    subst this
    constructor <;> intro h' <;> linarith

/-- on an ascending slice whose values are all at least the current value, the loop that skips the tie group
    removes exactly the entries within `eps` of the current value (wherever they are) -/
theorem dropGroup_eq_filter (eps v : Rat) : ∀ xs : List (String × Rat),
    xs.Pairwise (fun x y => x.2 ≤ y.2) → (∀ y ∈ xs, v ≤ y.2) →
    dropGroup eps v xs = xs.filter (fun y => !floatsAreEqual v y.2 eps)
  | [], _, _ => rfl
  | y :: ys, hs, hge => by
    have hs' := List.pairwise_cons.mp hs
    unfold dropGroup
    split
    · rename_i hy
      rw [List.filter_cons, hy]
      simp only [Bool.not_true, Bool.false_eq_true, if_false]
      exact dropGroup_eq_filter eps v ys hs'.2 (fun z hz => hge z (List.mem_cons_of_mem _ hz))
    · rename_i hy
      symm
      rw [List.filter_eq_self]
      intro z hz
      have hvy : v ≤ y.2 := hge y (by simp)
      have hyz : y.2 ≤ z.2 := by
        rcases List.mem_cons.mp hz with rfl | hz
        · exact le_refl _
        · exact hs'.1 z hz
      have hny : ¬ (y.2 - v ≤ eps) := fun h' => hy ((floatsAreEqual_of_le eps hvy).mpr h')
      have hnz : ¬ floatsAreEqual v z.2 eps = true := fun h' => by
        have := (floatsAreEqual_of_le eps (le_trans hvy hyz)).mp h'
        exact hny (by linarith)
      simpa using hnz

/-! ### the components only depend on the multiset of (criterion, value) entries -/

/-- `computeTotalWeight` on two ascending slices with the same entries (in particular: tied values in any
    order) and capacity tables with the same lookups gives the same components — same criteria sets, same
    value increments, same error when a capacity is missing -/
theorem choquetComponents_perm (eps : Rat) (heps : 0 ≤ eps) {w w' : KMap Rat} (hw : KMap.LookupEq w w') :
    ∀ (n : Nat) (l l' : List (String × Rat)), l.length ≤ n → l.Perm l' →
      l.Pairwise (fun x y => x.2 ≤ y.2) → l'.Pairwise (fun x y => x.2 ≤ y.2) → ∀ prev : Rat,
      choquetComponents eps w l prev = choquetComponents eps w' l' prev
  | _, [], l', _, hp, _, _, prev => by
    cases hp.nil_eq
    rw [choquetComponents, choquetComponents]
  | 0, x :: xs, _, hn, _, _, _, _ => by simp at hn
  | n + 1, x :: xs, [], _, hp, _, _, _ => by simpa using hp.length_eq
  | n + 1, x :: xs, x' :: xs', hn, hp, hs, hs', prev => by
    have hsx := List.pairwise_cons.mp hs
    have hsx' := List.pairwise_cons.mp hs'
    -- both heads carry the minimum value
    have h1 : x.2 ≤ x'.2 := by
      rcases List.mem_cons.mp (hp.mem_iff.mpr (List.mem_cons_self : x' ∈ x' :: xs')) with e | hm
      · rw [e]
      · exact hsx.1 x' hm
    have h2 : x'.2 ≤ x.2 := by
      rcases List.mem_cons.mp (hp.mem_iff.mp (List.mem_cons_self : x ∈ x :: xs)) with e | hm
      · rw [e]
      · exact hsx'.1 x hm
    have hv : x'.2 = x.2 := le_antisymm h2 h1
    -- the head itself belongs to its tie group
    have hself : floatsAreEqual x.2 x.2 eps = true := (floatsAreEqual_of_le eps (le_refl _)).mpr (by linarith)
    have hd : dropGroup eps x.2 xs = (x :: xs).filter (fun y => !floatsAreEqual x.2 y.2 eps) := by
      rw [dropGroup_eq_filter eps x.2 xs hsx.2 hsx.1, List.filter_cons, hself]; rfl
    have hd' : dropGroup eps x'.2 xs' = (x' :: xs').filter (fun y => !floatsAreEqual x.2 y.2 eps) := by
      rw [hv, dropGroup_eq_filter eps x.2 xs' hsx'.2 (fun y hy => hv ▸ hsx'.1 y hy), List.filter_cons]
      have : floatsAreEqual x.2 x'.2 eps = true := by rw [hv]; exact hself
      rw [this]; rfl
    have hlen : ((x :: xs).filter (fun y => !floatsAreEqual x.2 y.2 eps)).length ≤ n := by
      rw [← hd]
      have := dropGroup_length_le eps x.2 xs
      simp only [List.length_cons] at hn
      omega
    have hrest : choquetComponents eps w (dropGroup eps x.2 xs) x.2
        = choquetComponents eps w' (dropGroup eps x'.2 xs') x'.2 := by
      rw [hd, hd', hv]
      exact choquetComponents_perm eps heps hw n _ _ hlen (hp.filter _) (hs.filter _) (hs'.filter _) x.2
    have hids : ((x :: xs).map (·.1)).Perm ((x' :: xs').map (·.1)) := hp.map _
    have hμ : unionWeight w ((x :: xs).map (·.1)) = unionWeight w' ((x' :: xs').map (·.1)) := by
      rw [unionWeight_lookupEq hw]
      unfold unionWeight
      rw [criterionKey_perm_eq hids]
    have hsort : sortStrs ((x :: xs).map (·.1)) = sortStrs ((x' :: xs').map (·.1)) := sortStrs_perm_eq hids
    rw [choquetComponents, choquetComponents, hμ, hsort, hrest, hv]

/-- `choquetIntegral`: the value does not depend on the listing of the alternative's map nor of the
    capacity table -/
theorem choquetValue_perm (eps : Rat) (heps : 0 ≤ eps) {a a' : Alt Rat} (ha : a.vals.Perm a'.vals)
    {w w' : KMap Rat} (hw : KMap.LookupEq w w') : choquetValue eps a w = choquetValue eps a' w' := by
  unfold choquetValue
  rw [choquetComponents_perm eps heps hw _ (ascendingVals a) (ascendingVals a') (le_refl _)
    ((ascendingVals_perm a).trans (ha.trans (ascendingVals_perm a').symm))
    (ascendingVals_sorted a) (ascendingVals_sorted a') Num.zero]

/-! ### `decomposeWeights` of the Choquet listener -/

theorem forIn_forall₂_eq {σ γ δ : Type} {rel : γ → δ → Prop} {f : γ → σ → R (ForInStep σ)}
    {g : δ → σ → R (ForInStep σ)} (hfg : ∀ a b, rel a b → ∀ s, f a s = g b s) :
    ∀ {l₁ : List γ} {l₂ : List δ}, List.Forall₂ rel l₁ l₂ → ∀ init, forIn l₁ init f = forIn l₂ init g
  | _, _, .nil, _ => rfl
  | _, _, .cons hab hrest, init => by
    rw [List.forIn_cons, List.forIn_cons, hfg _ _ hab]
    congr 1
    funext r
    cases r with
    | done b => rfl
    | yield b => exact forIn_forall₂_eq hfg hrest b

theorem choquetDecompose_perm (eps : Rat) (heps : 0 ≤ eps) (cs : List (Crit Rat)) {co co' : List (Alt Rat)}
    (h : List.Forall₂ (fun a a' : Alt Rat => a.vals.Perm a'.vals) co co')
    {w w' : KMap Rat} (hw : KMap.LookupEq w w') :
    choquetDecompose eps cs co w = choquetDecompose eps cs co' w' := by
  unfold choquetDecompose
  dsimp only
  congr 1
  apply forIn_forall₂_eq _ h
  intro a a' ha s
  rw [choquetComponents_perm eps heps hw _ (ascendingVals a) (ascendingVals a') (le_refl _)
    ((ascendingVals_perm a).trans (ha.trans (ascendingVals_perm a').symm))
    (ascendingVals_sorted a) (ascendingVals_sorted a') Num.zero]

end Rdm
