/-
  The literal flat-array models of `Matrix.Slice` (`sliceFlat`: append the selected row ranges, then keep the
  entries whose `i % Size` is a selected column) and `Matrix.Without` (`withoutFlat`: cut the row ranges out
  from the back, then keep the entries whose `i % Size` is not removed) equal the index-map models `slice` /
  `without` used by `distillate`, for distinct in-range indices on a square matrix.
  Generic in the number type, core Lean only.
-/
import Rdm.Lemmas.ElectreFlat
namespace Rdm
set_option linter.unusedSectionVars false

variable {α : Type} [Num α]

theorem flatMap_congr'' {β γ : Type} {l : List β} {f g : β → List γ} (h : ∀ a ∈ l, f a = g a) :
    l.flatMap f = l.flatMap g := by
  induction l with
  | nil => rfl
  | cons a l ih =>
    rw [List.flatMap_cons, List.flatMap_cons, h a (by simp), ih (fun x hx => h x (by simp [hx]))]

/-- row `v` cut out of the flat array is the list of the entries of row `v` -/
theorem row_extract (m : Matrix α) (h : m.data.length = m.size * m.size) (v : Nat) (hv : v < m.size) :
    (m.data.drop (v * m.size)).take m.size = (List.range m.size).map fun c => m.at v c := by
  have hle : (v + 1) * m.size ≤ m.size * m.size := Nat.mul_le_mul_right _ hv
  rw [Nat.succ_mul] at hle
  apply List.ext_getElem
  · simp only [List.length_take, List.length_drop, List.length_map, List.length_range, h]
    omega
  · intro c h1 h2
    simp only [List.length_map, List.length_range] at h2
    simp only [List.getElem_take, List.getElem_drop, List.getElem_map, List.getElem_range]
    unfold Matrix.at
    have hidx : v * m.size + c < m.data.length := by rw [h]; omega
    rw [List.getD_eq_getElem?_getD, List.getElem?_eq_getElem hidx]
    rfl

/-- scanning row blocks with flat indices and keeping the columns that satisfy `P` -/
theorem blocks_keep_columns (n : Nat) (_hn : 0 < n) (G : Nat → Nat → α) (P : Nat → Bool) (L : List Nat) (j : Nat) :
    ((((L.flatMap fun v => (List.range n).map (G v)).zipIdx (j * n)).filter fun p => P (p.2 % n)).map (·.1))
      = L.flatMap fun v => ((List.range n).filter P).map (G v) := by
  induction L generalizing j with
  | nil => rfl
  | cons v L ih =>
    rw [List.flatMap_cons, List.flatMap_cons, List.zipIdx_append, List.filter_append, List.map_append]
    have hoff : j * n + ((List.range n).map (G v)).length = (j + 1) * n := by simp [Nat.succ_mul]
    rw [hoff, ih (j + 1)]
    congr 1
    rw [zipIdx_map_range, List.filter_map, List.map_map]
    have hc : ∀ c ∈ List.range n, ((fun p : α × Nat => P (p.2 % n)) ∘ fun c => (G v c, j * n + c)) c = P c := by
      intro c hc
      simp only [List.mem_range] at hc
      have : (j * n + c) % n = c := by
        rw [Nat.mul_comm, Nat.mul_add_mod]; exact Nat.mod_eq_of_lt hc
      simp [this]
    rw [List.filter_congr hc]
    rfl

theorem sortIdx_strict (idx : List Nat) (hn : idx.Nodup) : (Matrix.sortIdx idx).Pairwise (· < ·) := by
  unfold Matrix.sortIdx
  have hp := List.mergeSort_perm idx (fun a b => decide (a ≤ b))
  have hs := List.pairwise_mergeSort (le := fun a b : Nat => decide (a ≤ b))
    (fun a b c hab hbc => by simp only [decide_eq_true_eq] at *; omega)
    (fun a b => by simp only [Bool.or_eq_true, decide_eq_true_eq]; omega) idx
  have hnd : (idx.mergeSort fun a b => decide (a ≤ b)).Nodup := hp.nodup_iff.mpr hn
  have hne := List.nodup_iff_pairwise_ne.mp hnd
  exact (hs.and hne).imp (fun ⟨h1, h2⟩ => by simp only [decide_eq_true_eq] at h1; omega)

theorem filter_contains_ascending (s : List Nat) (n : Nat) (hs : s.Pairwise (· < ·)) (hr : ∀ i ∈ s, i < n) :
    (List.range n).filter (fun c => s.contains c) = s := by
  apply ascending_eq_of_mem_iff (List.pairwise_lt_range.filter _) hs
  intro a
  simp only [List.mem_filter, List.mem_range, List.contains_eq_mem, decide_eq_true_eq]
  exact ⟨fun h => h.2, fun h => ⟨hr a h, h⟩⟩

/-- **the flat-array `Slice` of the code is the index-map sub-matrix** (distinct in-range indices) -/
theorem sliceFlat_eq_slice (m : Matrix α) (h : m.data.length = m.size * m.size) (idx : List Nat)
    (hn : idx.Nodup) (hr : ∀ i ∈ idx, i < m.size) : m.sliceFlat idx = m.slice idx := by
  unfold Matrix.sliceFlat Matrix.slice
  split
  · rfl
  · have hss := sortIdx_strict idx hn
    have hsr : ∀ i ∈ Matrix.sortIdx idx, i < m.size := fun i hi => hr i ((List.mergeSort_perm idx _).mem_iff.mp hi)
    have hsl : (Matrix.sortIdx idx).length = idx.length := by simp [Matrix.sortIdx]
    have hpos : 0 < m.size ∨ idx = [] := by
      rcases Nat.eq_zero_or_pos m.size with h0 | h0
      · right
        cases idx with
        | nil => rfl
        | cons a _ => have := hr a (by simp); omega
      · left; exact h0
    simp only [Matrix.sub, hsl, Matrix.mk.injEq, true_and]
    rcases hpos with hpos | hnil
    · have hrows : ((Matrix.sortIdx idx).flatMap fun v => (m.data.drop (v * m.size)).take m.size)
          = (Matrix.sortIdx idx).flatMap fun v => (List.range m.size).map fun c => m.at v c :=
        flatMap_congr'' (fun v hv => row_extract m h v (hsr v hv))
      unfold Matrix.keepColumns
      simp only
      rw [hrows]
      have := blocks_keep_columns m.size hpos (fun v c => m.at v c) (fun c => (Matrix.sortIdx idx).contains c)
        (Matrix.sortIdx idx) 0
      simp only [Nat.zero_mul] at this
      rw [this, filter_contains_ascending _ m.size hss hsr]
      have hlen : ((Matrix.sortIdx idx).flatMap fun v => (Matrix.sortIdx idx).map fun c => m.at v c).length
          = idx.length * idx.length := by
        have : ∀ l : List Nat, (l.flatMap fun v => (Matrix.sortIdx idx).map fun c => m.at v c).length
            = l.length * idx.length := by
          intro l
          induction l with
          | nil => simp
          | cons r rs ih => rw [List.flatMap_cons, List.length_append, ih]; simp [Nat.succ_mul, hsl]; omega
        rw [this, hsl]
      rw [hlen, Nat.sub_self]
      simp only [List.replicate_zero, List.append_nil]
      rw [← hlen, List.take_length]
    · subst hnil
      simp [Matrix.keepColumns, Matrix.sortIdx]

/-! ### `Without` -/

/-- cutting block `v` (length `n`) out of a concatenation of blocks of length `n` -/
theorem remove_block (n : Nat) (row : Nat → List α) (hrow : ∀ v, (row v).length = n) (L : List Nat) (v : Nat)
    (hv : v < L.length) :
    (L.flatMap row).take (v * n) ++ (L.flatMap row).drop ((v + 1) * n) = (L.eraseIdx v).flatMap row := by
  induction L generalizing v with
  | nil => simp at hv
  | cons x L ih =>
    rw [List.flatMap_cons]
    cases v with
    | zero =>
      simp only [Nat.zero_mul, List.take_zero, List.nil_append, Nat.zero_add, Nat.one_mul, List.eraseIdx_cons_zero]
      rw [← hrow x, List.drop_left]
    | succ v =>
      have hv' : v < L.length := by simpa using hv
      rw [List.eraseIdx_cons_succ, List.flatMap_cons, ← ih v hv']
      have e1 : (v + 1) * n = (row x).length + v * n := by rw [hrow x, Nat.succ_mul]; omega
      have e2 : (v + 1 + 1) * n = (row x).length + (v + 1) * n := by rw [hrow x, Nat.succ_mul]; omega
      rw [e1, e2, List.take_length_add_append, List.drop_length_add_append, List.append_assoc, ← e1]

/-- erasing position `v` from the kept indices, when everything up to `v` is still kept, removes index `v` -/
theorem eraseIdx_filter_range (n v : Nat) (hv : v < n) (P : Nat → Bool) (hP : ∀ x, x ≤ v → P x = true) :
    ((List.range n).filter P).eraseIdx v = (List.range n).filter fun i => P i && i != v := by
  obtain ⟨d, rfl⟩ : ∃ d, n = (v + 1) + d := ⟨n - (v + 1), by omega⟩
  rw [List.range_add, List.filter_append, List.filter_append]
  have h1 : (List.range (v + 1)).filter P = List.range v ++ [v] := by
    rw [← List.range_succ]
    apply List.filter_eq_self.mpr
    intro x hx
    exact hP x (by have := List.mem_range.mp hx; omega)
  have h2 : (List.range (v + 1)).filter (fun i => P i && i != v) = List.range v := by
    rw [List.range_succ, List.filter_append]
    have : (List.range v).filter (fun i => P i && i != v) = List.range v := by
      apply List.filter_eq_self.mpr
      intro x hx
      have hx' := List.mem_range.mp hx
      have hne : x ≠ v := by omega
      simp [hP x (by omega), hne]
    rw [this]
    simp
  have h3 : ((List.range d).map fun x => v + 1 + x).filter (fun i => P i && i != v)
      = ((List.range d).map fun x => v + 1 + x).filter P := by
    apply List.filter_congr
    intro x hx
    obtain ⟨y, _, rfl⟩ := List.mem_map.mp hx
    have hne : v + 1 + y ≠ v := by omega
    simp [hne]
  rw [h1, h2, h3]
  rw [List.eraseIdx_append_of_lt_length (by simp), List.eraseIdx_append_of_length_le (by simp)]
  simp

theorem foldr_eraseIdx (n : Nat) (s : List Nat) (hs : s.Pairwise (· < ·)) (hr : ∀ i ∈ s, i < n) :
    s.foldr (fun v L => L.eraseIdx v) (List.range n) = (List.range n).filter fun i => !s.contains i := by
  induction s with
  | nil =>
    simp only [List.foldr_nil, List.contains_nil, Bool.not_false]
    exact (List.filter_eq_self.mpr (fun _ _ => rfl)).symm
  | cons v s ih =>
    rw [List.foldr_cons, ih (List.Pairwise.of_cons hs) (fun i hi => hr i (by simp [hi]))]
    have hlt : ∀ x ∈ s, v < x := (List.pairwise_cons.mp hs).1
    rw [eraseIdx_filter_range n v (hr v (by simp)) (fun i => !s.contains i) (fun x hx => by
      have : x ∉ s := fun hm => by have := hlt x hm; omega
      simp [this])]
    apply List.filter_congr
    intro i _
    simp only [List.contains_cons]
    by_cases hiv : i = v
    · subst hiv; simp
    · have : (i == v) = false := by simpa using hiv
      simp [this, hiv]

theorem filter_length_ge (n v : Nat) (hv : v < n) (P : Nat → Bool) (hP : ∀ x, x ≤ v → P x = true) :
    v < ((List.range n).filter P).length := by
  have hsub : List.Sublist ((List.range (v + 1)).filter P) ((List.range n).filter P) :=
    (List.range_sublist.mpr (by omega)).filter P
  have heq : (List.range (v + 1)).filter P = List.range (v + 1) := by
    apply List.filter_eq_self.mpr
    intro x hx
    exact hP x (by have := List.mem_range.mp hx; omega)
  have := hsub.length_le
  rw [heq] at this
  simp at this
  omega

/-- removing the row blocks of `s` (largest first) from the table leaves the rows not in `s` -/
theorem foldr_remove_rows (n : Nat) (row : Nat → List α) (hrow : ∀ v, (row v).length = n) (s : List Nat)
    (hs : s.Pairwise (· < ·)) (hr : ∀ i ∈ s, i < n) :
    s.foldr (fun v d => d.take (v * n) ++ d.drop ((v + 1) * n)) ((List.range n).flatMap row)
      = ((List.range n).filter fun i => !s.contains i).flatMap row := by
  rw [← foldr_eraseIdx n s hs hr]
  induction s with
  | nil => rfl
  | cons v s ih =>
    have hs' := List.Pairwise.of_cons hs
    have hr' : ∀ i ∈ s, i < n := fun i hi => hr i (by simp [hi])
    rw [List.foldr_cons, List.foldr_cons, ih hs' hr']
    apply remove_block n row hrow
    rw [foldr_eraseIdx n s hs' hr']
    have hlt : ∀ x ∈ s, v < x := (List.pairwise_cons.mp hs).1
    exact filter_length_ge n v (hr v (by simp)) _ (fun x hx => by
      have : x ∉ s := fun hm => by have := hlt x hm; omega
      simp [this])

theorem keep_length (m : Matrix α) (idx : List Nat) (hn : idx.Nodup) (hr : ∀ i ∈ idx, i < m.size) :
    (m.keep idx).length = m.size - idx.length := by
  have hss := sortIdx_strict idx hn
  have hperm := List.mergeSort_perm idx (fun a b => decide (a ≤ b))
  have hsr : ∀ i ∈ Matrix.sortIdx idx, i < m.size := fun i hi => hr i (hperm.mem_iff.mp hi)
  have h1 := filter_contains_ascending (Matrix.sortIdx idx) m.size hss hsr
  have hc : ∀ i, (Matrix.sortIdx idx).contains i = idx.contains i := fun i => hperm.contains_eq
  have h2 : ((List.range m.size).filter fun c => idx.contains c).length = idx.length := by
    have : (fun c => idx.contains c) = fun c => (Matrix.sortIdx idx).contains c := by funext c; rw [hc]
    rw [this, h1]; simp [Matrix.sortIdx]
  have h3 := List.length_eq_countP_add_countP (fun c => idx.contains c) (l := List.range m.size)
  rw [List.countP_eq_length_filter, List.countP_eq_length_filter, h2, List.length_range] at h3
  unfold Matrix.keep
  have : (fun i => !idx.contains i) = fun a => decide ¬(idx.contains a = true) := by
    funext a; by_cases h : idx.contains a = true <;> simp [h]
  rw [this]
  omega

/-- **the flat-array `Without` of the code is the index-map sub-matrix on the complement** -/
theorem withoutFlat_eq_without (m : Matrix α) (h : m.data.length = m.size * m.size) (idx : List Nat)
    (hn : idx.Nodup) (hr : ∀ i ∈ idx, i < m.size) : m.withoutFlat idx = m.without idx := by
  unfold Matrix.withoutFlat Matrix.without
  split
  · rfl
  · rename_i hne
    have hss := sortIdx_strict idx hn
    have hperm := List.mergeSort_perm idx (fun a b => decide (a ≤ b))
    have hsr : ∀ i ∈ Matrix.sortIdx idx, i < m.size := fun i hi => hr i (hperm.mem_iff.mp hi)
    have hc : ∀ i, (Matrix.sortIdx idx).contains i = idx.contains i := fun i => hperm.contains_eq
    have hcr : ∀ i, (Matrix.sortIdx idx).reverse.contains i = idx.contains i := by
      intro i; rw [← hc i]; simp
    have hkl := keep_length m idx hn hr
    have hpos : 0 < m.size := by
      rcases Nat.eq_zero_or_pos m.size with h0 | h0
      · exfalso
        apply hne
        cases idx with
        | nil => simp [h0]
        | cons a _ => have := hr a (by simp); omega
      · exact h0
    simp only [Matrix.sub, Matrix.mk.injEq]
    refine ⟨hkl.symm, ?_⟩
    rw [List.foldl_reverse]
    have hdat : m.data = (List.range m.size).flatMap fun v => (List.range m.size).map fun c => m.at v c :=
      data_eq_tabulate m h
    have hrows := foldr_remove_rows m.size (fun v => (List.range m.size).map fun c => m.at v c) (fun v => by simp)
      (Matrix.sortIdx idx) hss hsr
    rw [← hdat] at hrows
    rw [hrows]
    have hkeep : ((List.range m.size).filter fun i => !(Matrix.sortIdx idx).contains i) = m.keep idx := by
      unfold Matrix.keep
      apply List.filter_congr
      intro i _; rw [hc]
    rw [hkeep]
    unfold Matrix.keepColumns
    simp only
    have := blocks_keep_columns m.size hpos (fun v c => m.at v c) (fun c => !(Matrix.sortIdx idx).reverse.contains c)
      (m.keep idx) 0
    simp only [Nat.zero_mul] at this
    rw [this]
    have hcols : ((List.range m.size).filter fun c => !(Matrix.sortIdx idx).reverse.contains c) = m.keep idx := by
      unfold Matrix.keep
      apply List.filter_congr
      intro i _; rw [hcr]
    rw [hcols]
    have hlen : ((m.keep idx).flatMap fun v => (m.keep idx).map fun c => m.at v c).length
        = (m.size - idx.length) * (m.size - idx.length) := by
      have : ∀ l : List Nat, (l.flatMap fun v => (m.keep idx).map fun c => m.at v c).length
          = l.length * (m.keep idx).length := by
        intro l
        induction l with
        | nil => simp
        | cons r rs ih => rw [List.flatMap_cons, List.length_append, ih]; simp [Nat.succ_mul]; omega
      rw [this, hkl]
    rw [hlen, Nat.sub_self]
    simp only [List.replicate_zero, List.append_nil]
    rw [← hlen, List.take_length]

end Rdm
