/-
  Map-order independence of the Choquet capacity parser (C02): `remapWeights` and `prepareWeights` range over
  a map; the verdict does not depend on the order, and the accepted table is a listing of the same map.
-/
import Rdm.Lemmas.UtilityParse
import Rdm.Lemmas.MapOrderBasic
namespace Rdm
variable {α : Type}

/-! ### validation loops (`for x in l do if bad x then throw …`) -/

/-- converse of `forIn_unit_ok` -/
theorem forIn_unit_ok_of_all {β : Type} (f : β → PUnit.{1} → R (ForInStep PUnit.{1})) :
    ∀ (l : List β), (∀ x ∈ l, f x PUnit.unit = .ok (.yield PUnit.unit)) → forIn l PUnit.unit f = .ok PUnit.unit
  | [], _ => rfl
  | y :: ys, h => by
    rw [List.forIn_cons, h y (by simp)]
    exact forIn_unit_ok_of_all f ys (fun x hx => h x (by simp [hx]))

/-- a validation loop over a map gives the same verdict for every listing of the map (the message may
    name another offending entry) -/
theorem forIn_unit_perm_agree {β : Type} (f : β → PUnit.{1} → R (ForInStep PUnit.{1}))
    (hf : ∀ x, ∀ s, f x PUnit.unit = .ok s → s = .yield PUnit.unit) {l₁ l₂ : List β} (h : l₁.Perm l₂) :
    R.Agree (fun _ _ => True) (forIn l₁ PUnit.unit f) (forIn l₂ PUnit.unit f) := by
  cases h₁ : forIn l₁ PUnit.unit f with
  | ok u =>
    have all₁ := forIn_unit_ok f l₁ u h₁ hf
    rw [forIn_unit_ok_of_all f l₂ (fun x hx => all₁ x (h.mem_iff.mpr hx))]
    trivial
  | error e =>
    cases h₂ : forIn l₂ PUnit.unit f with
    | error e' => trivial
    | ok u =>
      have all₂ := forIn_unit_ok f l₂ u h₂ hf
      rw [forIn_unit_ok_of_all f l₁ (fun x hx => all₂ x (h.mem_iff.mp hx))] at h₁
      cases h₁

/-! ### `remapWeights` -/

/-- converse of `remapLoop_ok`: without a clash of canonical keys the loop succeeds -/
theorem remapLoop_ok_of_nodup : ∀ (w acc : KMap α), (acc ++ canonTable w).keys.Nodup →
    forIn w acc remapStep = .ok (acc ++ canonTable w)
  | [], acc, _ => by simp [canonTable, pure, Except.pure]
  | x :: xs, acc, h => by
    have hsplit : acc ++ canonTable (x :: xs)
        = (acc ++ [(criterionKey (splitKey x.1), x.2)]) ++ canonTable xs := by
      simp [canonTable]
    have hnot : ¬ acc.has (criterionKey (splitKey x.1)) = true := by
      intro hhas
      have hm : criterionKey (splitKey x.1) ∈ acc.map Prod.fst := (has_iff_mem_keys acc _).mp hhas
      simp only [KMap.keys, canonTable, List.map_cons, List.map_append] at h
      rw [List.nodup_append] at h
      exact h.2.2 _ hm _ (by simp) rfl
    rw [List.forIn_cons]
    unfold remapStep
    rw [if_neg hnot, hsplit]
    exact remapLoop_ok_of_nodup xs _ (hsplit ▸ h)

theorem canonTable_perm {w₁ w₂ : KMap α} (h : w₁.Perm w₂) : (canonTable w₁).Perm (canonTable w₂) :=
  h.map _

/-- `remapWeights`: a clash of canonical keys is found for every listing or for none; the re-keyed tables
    are listings of the same map -/
theorem remapLoop_perm_agree {w₁ w₂ : KMap α} (h : w₁.Perm w₂) :
    R.Agree (fun r r' : KMap α => r.Perm r' ∧ (r.map Prod.fst).Nodup)
      (forIn w₁ ([] : KMap α) remapStep) (forIn w₂ ([] : KMap α) remapStep) := by
  have hkeys : (canonTable w₁).keys.Perm (canonTable w₂).keys := (canonTable_perm h).map _
  cases h₁ : forIn w₁ ([] : KMap α) remapStep with
  | ok r =>
    obtain ⟨e, hnd⟩ := remapLoop_ok w₁ [] r h₁
    have hnd₁ : (canonTable w₁).keys.Nodup := by
      have := hnd (by simp [KMap.keys])
      rw [e] at this; simpa using this
    have hnd₂ : (canonTable w₂).keys.Nodup := hkeys.nodup_iff.mp hnd₁
    rw [remapLoop_ok_of_nodup w₂ [] (by simpa using hnd₂), e]
    exact ⟨by simpa using canonTable_perm h, by simpa [KMap.keys] using hnd₁⟩
  | error e =>
    cases h₂ : forIn w₂ ([] : KMap α) remapStep with
    | error e' => trivial
    | ok r =>
      obtain ⟨e', hnd⟩ := remapLoop_ok w₂ [] r h₂
      have hnd₂ : (canonTable w₂).keys.Nodup := by
        have := hnd (by simp [KMap.keys])
        rw [e'] at this; simpa using this
      have hnd₁ : (canonTable w₁).keys.Nodup := hkeys.nodup_iff.mpr hnd₂
      rw [remapLoop_ok_of_nodup w₁ [] (by simpa using hnd₁)] at h₁
      cases h₁

/-! ### `parse` -/

variable [Num α]

/-- one iteration of `validateAllWeightsAvailable` -/
def availStep (rem : KMap α) (s : List String) (_ : PUnit.{1}) : R (ForInStep PUnit.{1}) := do
  let _ ← unionWeight rem s
  pure (ForInStep.yield PUnit.unit)

/-- `parse` gives the same verdict for every listing of the raw capacity table, and when it accepts, the
    parsed tables are listings of the same map (a permutation with distinct keys) -/
theorem choquetParse_perm_agree (crits : List (Crit α)) {w₁ w₂ : KMap α} (h : w₁.Perm w₂) :
    R.Agree (fun r r' : KMap α => r.Perm r' ∧ (r.map Prod.fst).Nodup)
      (choquetParse crits w₁) (choquetParse crits w₂) := by
  unfold choquetParse
  refine R.Agree.bind (rel := fun _ _ => True) (R.Agree.of_eq (fun _ => trivial) rfl) (fun _ _ _ => ?_)
  refine R.Agree.bind (rel := fun r r' : KMap α => r.Perm r' ∧ (r.map Prod.fst).Nodup)
    (remapLoop_perm_agree h) (fun rem rem' hrem => ?_)
  have hl : KMap.LookupEq rem rem' := KMap.LookupEq.of_perm hrem.1 hrem.2
  have havail : forIn (powerSet (crits.map (·.id))) PUnit.unit (availStep rem)
      = forIn (powerSet (crits.map (·.id))) PUnit.unit (availStep rem') := by
    congr 1
    funext s u
    unfold availStep
    rw [unionWeight_lookupEq hl]
  refine R.Agree.bind (rel := fun _ _ => True) (R.Agree.of_eq (fun _ => trivial) havail) (fun _ _ _ => ?_)
  refine R.Agree.bind (rel := fun _ _ => True) (forIn_unit_perm_agree _ ?hf hrem.1) (fun _ _ _ => hrem)
  -- every iteration of `prepareWeights` either throws or continues
  intro x s hs
  obtain ⟨k, v⟩ := x
  simp only at hs
  split at hs
  · simp [bind, Except.bind, throw, throwThe, MonadExceptOf.throw] at hs
  · split at hs
    · simp [bind, Except.bind, throw, throwThe, MonadExceptOf.throw] at hs
    · simpa [pure, Except.pure] using hs.symm

end Rdm
