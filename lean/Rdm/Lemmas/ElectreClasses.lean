/-
  The class structure of the distillation model (generic in the number type, core Lean only):
  `findBestMatch` returns a non-empty ascending index list, `updateValues`/`writePositionsSequentially`
  bookkeeping, and the main invariant `distillate_classes`: an outer distillation uses exactly the class
  numbers `pos, …, pos + k` (every class non-empty), hence `rank` numbers consecutively from 1.
-/
import Rdm.Lemmas.ElectreMatrix
import Rdm.Spec.C05
namespace Rdm

/-- invariant of the loop of `findBestMatch`: the index list is strictly ascending and below the next index -/
def BestInv (k : Nat) (l : List Nat) : Prop := l.Pairwise (· < ·) ∧ ∀ i ∈ l, i < k

theorem bestMatchStep_inv (cmp : Int → Int → Bool) (acc : Int × List Nat) (v : Int) (k : Nat)
    (h : BestInv k acc.2) : BestInv (k + 1) (bestMatchStep cmp acc (v, k)).2 := by
  unfold bestMatchStep
  simp only
  split
  · exact ⟨by simp, by simp⟩
  · split
    · refine ⟨?_, ?_⟩
      · rw [List.pairwise_append]
        exact ⟨h.1, by simp, fun a ha b hb => by simp at hb; subst hb; exact h.2 a ha⟩
      · intro i hi
        rcases List.mem_append.mp hi with hi | hi
        · exact Nat.lt_succ_of_lt (h.2 i hi)
        · simp at hi; omega
    · exact ⟨h.1, fun i hi => Nat.lt_succ_of_lt (h.2 i hi)⟩

theorem bestMatchStep_nonempty (cmp : Int → Int → Bool) (acc : Int × List Nat) (vi : Int × Nat)
    (h : acc.2 ≠ []) : (bestMatchStep cmp acc vi).2 ≠ [] := by
  unfold bestMatchStep
  split
  · simp
  · split
    · simp
    · exact h

theorem bestMatch_fold_inv (cmp : Int → Int → Bool) (l : List Int) (k : Nat) (acc : Int × List Nat)
    (h : BestInv k acc.2) : BestInv (k + l.length) ((l.zipIdx k).foldl (bestMatchStep cmp) acc).2 := by
  induction l generalizing k acc with
  | nil => simpa using h
  | cons v l ih =>
    rw [List.zipIdx_cons, List.foldl_cons]
    have := ih (k + 1) _ (bestMatchStep_inv cmp acc v k h)
    rw [List.length_cons]
    rw [show k + (l.length + 1) = k + 1 + l.length by omega]
    exact this

theorem bestMatch_fold_nonempty (cmp : Int → Int → Bool) (l : List (Int × Nat)) (acc : Int × List Nat)
    (h : acc.2 ≠ []) : (l.foldl (bestMatchStep cmp) acc).2 ≠ [] := by
  induction l generalizing acc with
  | nil => exact h
  | cons v l ih => rw [List.foldl_cons]; exact ih _ (bestMatchStep_nonempty cmp acc v h)

/-- `findBestMatch` returns a non-empty, strictly ascending list of valid indices -/
theorem findBestMatch_facts (values : List Int) (cmp : Int → Int → Bool) (r : Int × List Nat)
    (h : findBestMatch values cmp = .ok r) :
    r.2 ≠ [] ∧ r.2.Pairwise (· < ·) ∧ ∀ i ∈ r.2, i < values.length := by
  unfold findBestMatch at h
  cases values with
  | nil => simp [throw, throwThe, MonadExceptOf.throw] at h
  | cons v0 rest =>
    simp only [pure, Except.pure, Except.ok.injEq] at h
    subst h
    have hinv := bestMatch_fold_inv cmp (v0 :: rest) 0 (v0, []) ⟨by simp, by simp⟩
    simp only [Nat.zero_add] at hinv
    refine ⟨?_, hinv.1, hinv.2⟩
    rw [List.zipIdx_cons, List.foldl_cons]
    apply bestMatch_fold_nonempty
    unfold bestMatchStep
    simp only
    split
    · simp
    · simp

variable {α : Type} [Num α]

theorem computeQuality_length (m : Matrix α) : (computeQuality m).length = m.size := by
  simp [computeQuality, Matrix.matchesInRow, Matrix.matchesInColumn]

theorem getDistillateMatrix_size (s : LinFun α) (mc : α) (m : Matrix α) (r : α × Matrix α)
    (h : getDistillateMatrix s mc m = .ok r) : r.2.size = m.size := by
  unfold getDistillateMatrix at h
  simp only [bind, Except.bind] at h
  split at h
  · cases h
  · simp only [pure, Except.pure, Except.ok.injEq] at h
    subst h; rfl

/-- effect of a sequence of writes at pairwise distinct indices -/
theorem foldl_set_spec (pairs : List (Nat × Int)) (orig : List Int) (hn : (pairs.map Prod.fst).Nodup) :
    (pairs.foldl (fun acc p => acc.set p.1 p.2) orig).length = orig.length ∧
    (∀ i, i ∉ pairs.map Prod.fst → (pairs.foldl (fun acc p => acc.set p.1 p.2) orig)[i]? = orig[i]?) ∧
    (∀ p ∈ pairs, p.1 < orig.length → (pairs.foldl (fun acc p => acc.set p.1 p.2) orig)[p.1]? = some p.2) := by
  induction pairs generalizing orig with
  | nil => simp
  | cons q pairs ih =>
    simp only [List.map_cons, List.nodup_cons] at hn
    obtain ⟨h1, h2, h3⟩ := ih (orig.set q.1 q.2) hn.2
    simp only [List.foldl_cons]
    refine ⟨by rw [h1]; simp, ?_, ?_⟩
    · intro i hi
      simp only [List.map_cons, List.mem_cons, not_or] at hi
      rw [h2 i hi.2, List.getElem?_set]
      simp [Ne.symm hi.1]
    · intro p hp hlt
      rcases List.mem_cons.mp hp with rfl | hp
      · rw [h2 p.1 hn.1, List.getElem?_set]
        simp [hlt]
      · exact h3 p hp (by simpa using hlt)

theorem pairwise_lt_nodup {l : List Nat} (h : l.Pairwise (· < ·)) : l.Nodup :=
  List.nodup_iff_pairwise_ne.mpr (h.imp fun hab => Nat.ne_of_lt hab)

/-- `updateValues` on a zero vector: shape of the result -/
theorem updateValues_spec (best : List Nat) (n : Nat) (sub : List Int) (hb : best.Pairwise (· < ·))
    (hr : ∀ i ∈ best, i < n) (hl : sub.length = best.length) :
    let ps := updateValues best (samePositions n 0) sub
    ps.length = n ∧
    (∀ i, i ∉ best → ps.getD i 0 = 0) ∧
    (∀ k (hk : k < best.length), ps.getD best[k] 0 = sub[k]'(by rw [hl]; exact hk)) := by
  intro ps
  have hfst : (best.zip sub).map Prod.fst = best := List.map_fst_zip (by omega)
  obtain ⟨h1, h2, h3⟩ := foldl_set_spec (best.zip sub) (samePositions n 0) (by rw [hfst]; exact pairwise_lt_nodup hb)
  refine ⟨by simp only [ps, updateValues]; rw [h1]; simp [samePositions], ?_, ?_⟩
  · intro i hi
    simp only [ps, updateValues, List.getD_eq_getElem?_getD]
    rw [h2 i (by rw [hfst]; exact hi)]
    simp only [samePositions]
    by_cases hin : i < n
    · simp [hin]
    · simp [hin]
  · intro k hk
    have hmem : (best[k], sub[k]'(by rw [hl]; exact hk)) ∈ best.zip sub := by
      apply List.mem_iff_getElem.mpr
      exact ⟨k, by simp [hl, hk], by simp⟩
    have := h3 _ hmem (by simp only [samePositions, List.length_replicate]; exact hr _ (List.getElem_mem hk))
    simp only [ps, updateValues, List.getD_eq_getElem?_getD]
    rw [this]; rfl

theorem writePositionsSequentially_spec (w ps out : List Int)
    (h : writePositionsSequentially w ps = .ok out) :
    (∀ x, x ∈ out → (x ∈ ps ∧ x ≠ 0) ∨ x ∈ w) ∧
    (∀ x, x ∈ ps → x ≠ 0 → x ∈ out) ∧
    (w.length ≤ ps.countP (· == 0) → ∀ x ∈ w, x ∈ out) := by
  induction ps generalizing w out with
  | nil =>
    simp only [writePositionsSequentially, pure, Except.pure, Except.ok.injEq] at h
    subst h
    refine ⟨by simp, by simp, ?_⟩
    intro hl x hx
    simp only [List.countP_nil, Nat.le_zero, List.length_eq_zero_iff] at hl
    subst hl; cases hx
  | cons p rest ih =>
    unfold writePositionsSequentially at h
    split at h
    · rename_i hp
      have hp0 : p = 0 := by simpa using hp
      cases w with
      | nil => simp [throw, throwThe, MonadExceptOf.throw] at h
      | cons x ws =>
        simp only [bind, Except.bind] at h
        cases hr : writePositionsSequentially ws rest with
        | error e => rw [hr] at h; cases h
        | ok r =>
          rw [hr] at h
          simp only [pure, Except.pure, Except.ok.injEq] at h
          subst h
          obtain ⟨i1, i2, i3⟩ := ih ws r hr
          refine ⟨?_, ?_, ?_⟩
          · intro y hy
            rcases List.mem_cons.mp hy with rfl | hy
            · right; simp
            · rcases i1 y hy with ⟨a, b⟩ | c
              · left; exact ⟨by simp [a], b⟩
              · right; simp [c]
          · intro y hy hne
            rcases List.mem_cons.mp hy with rfl | hy
            · exact absurd hp0 hne
            · exact List.mem_cons_of_mem _ (i2 y hy hne)
          · intro hl y hy
            have hl' : ws.length ≤ rest.countP (· == 0) := by
              rw [List.countP_cons_of_pos (by simpa using hp0)] at hl
              simpa using hl
            rcases List.mem_cons.mp hy with rfl | hy
            · simp
            · exact List.mem_cons_of_mem _ (i3 hl' y hy)
    · rename_i hp
      have hp0 : p ≠ 0 := by simpa using hp
      simp only [bind, Except.bind] at h
      cases hr : writePositionsSequentially w rest with
      | error e => rw [hr] at h; cases h
      | ok r =>
        rw [hr] at h
        simp only [pure, Except.pure, Except.ok.injEq] at h
        subst h
        obtain ⟨i1, i2, i3⟩ := ih w r hr
        refine ⟨?_, ?_, ?_⟩
        · intro y hy
          rcases List.mem_cons.mp hy with rfl | hy
          · left; exact ⟨by simp, hp0⟩
          · rcases i1 y hy with ⟨a, b⟩ | c
            · left; exact ⟨by simp [a], b⟩
            · right; exact c
        · intro y hy hne
          rcases List.mem_cons.mp hy with rfl | hy
          · simp
          · exact List.mem_cons_of_mem _ (i2 y hy hne)
        · intro hl y hy
          have hl' : w.length ≤ rest.countP (· == 0) := by
            rw [List.countP_cons_of_neg (by simpa using hp0)] at hl
            exact hl
          exact List.mem_cons_of_mem _ (i3 hl' y hy)

theorem ascending_eq_of_mem_iff {l₁ l₂ : List Nat} (h1 : l₁.Pairwise (· < ·)) (h2 : l₂.Pairwise (· < ·))
    (h : ∀ a, a ∈ l₁ ↔ a ∈ l₂) : l₁ = l₂ := by
  have hp : l₁.Perm l₂ := (List.perm_ext_iff_of_nodup (pairwise_lt_nodup h1) (pairwise_lt_nodup h2)).mpr h
  exact List.Perm.eq_of_pairwise (le := (· < ·)) (fun a b _ _ hab hba => by omega) h1 h2 hp

/-- the classed indices (`updatedPositions`) are exactly the indices with a non-zero position -/
theorem updatedPositions_eq (best : List Nat) (ps : List Int) (hb : best.Pairwise (· < ·))
    (hr : ∀ i ∈ best, i < ps.length) (hz : ∀ i, i ∉ best → ps.getD i 0 = 0) :
    updatedPositions best ps = (List.range ps.length).filter fun i => ps.getD i 0 != 0 := by
  apply ascending_eq_of_mem_iff (hb.filter _) (List.pairwise_lt_range.filter _)
  intro a
  simp only [List.mem_filter, List.mem_range]
  constructor
  · rintro ⟨ha, hne⟩; exact ⟨hr a ha, hne⟩
  · rintro ⟨_, hne⟩
    refine ⟨?_, hne⟩
    apply Classical.byContradiction
    intro hnb
    have h0 := hz a hnb
    simp only [List.getD_eq_getElem?_getD] at h0
    simp [h0] at hne

omit [Num α] in
theorem keep_eq_zeros (m : Matrix α) (ps : List Int) (hn : ps.length = m.size) :
    m.keep ((List.range ps.length).filter fun i => ps.getD i 0 != 0)
      = (List.range ps.length).filter fun i => ps.getD i 0 == 0 := by
  unfold Matrix.keep
  rw [← hn]
  apply List.filter_congr
  intro i hi
  simp only [List.mem_range] at hi
  simp only [List.contains_eq_mem, List.mem_filter, List.mem_range, hi, true_and]
  rw [Bool.eq_iff_iff]; simp

theorem zeros_count (ps : List Int) :
    ((List.range ps.length).filter fun i => ps.getD i 0 == 0).length = ps.countP (· == 0) := by
  rw [List.countP_eq_length_filter]
  have hmap : (List.range ps.length).map (fun i => ps.getD i 0) = ps := by
    apply List.ext_getElem
    · simp
    · intro i h1 h2
      simp [List.getD_eq_getElem?_getD, h2]
  have h2 : (ps.filter (· == 0)).length = (((List.range ps.length).map (fun i => ps.getD i 0)).filter (· == 0)).length := by
    rw [hmap]
  rw [h2, List.filter_map, List.length_map]
  rfl

/-- result of an inner distillation: every entry is 0 (not classed) or the current class, which occurs -/
def InnerOk (pos : Int) (ps : List Int) : Prop := (∀ p ∈ ps, p = 0 ∨ p = pos) ∧ pos ∈ ps
/-- result of an outer distillation: the class numbers are exactly `pos, …, pos + k` -/
def OuterOk (pos : Int) (ps : List Int) : Prop := ∃ k : Nat, ∀ x, x ∈ ps ↔ pos ≤ x ∧ x ≤ pos + k

theorem levelPositions_classes (recur : α → Int → Matrix α → Bool → R (List Int))
    (hrec : ∀ mc pos m ps, 1 ≤ pos → m.size ≠ 0 → recur mc pos m true = .ok ps → InnerOk pos ps ∧ ps.length = m.size)
    (m : Matrix α) (best : List Nat) (minCred : α) (pos : Int) (hpos : 1 ≤ pos)
    (hne : best ≠ []) (hb : best.Pairwise (· < ·)) (hr : ∀ i ∈ best, i < m.size)
    (positions : List Int) (h : levelPositions recur m best minCred pos = .ok positions) :
    positions.length = m.size ∧ InnerOk pos positions ∧ (∀ i, i ∉ best → positions.getD i 0 = 0) := by
  have hlen : 0 < best.length := List.length_pos_iff.mpr hne
  -- both branches write a vector `sub` with `InnerOk pos sub` at the indices `best`
  have key : ∀ sub : List Int, sub.length = best.length → InnerOk pos sub →
      positions = updateValues best (samePositions m.size 0) sub →
      positions.length = m.size ∧ InnerOk pos positions ∧ (∀ i, i ∉ best → positions.getD i 0 = 0) := by
    intro sub hl hin he
    obtain ⟨u1, u2, u3⟩ := updateValues_spec best m.size sub hb hr hl
    rw [← he] at u1 u2 u3
    refine ⟨u1, ⟨?_, ?_⟩, u2⟩
    · intro p hp
      rw [he, updateValues] at hp
      have : ∀ (pairs : List (Nat × Int)) (orig : List Int), (∀ q ∈ pairs, q.2 = 0 ∨ q.2 = pos) →
          (∀ x ∈ orig, x = 0 ∨ x = pos) → ∀ x ∈ pairs.foldl (fun acc p => acc.set p.1 p.2) orig, x = 0 ∨ x = pos := by
        intro pairs
        induction pairs with
        | nil => intro orig _ ho x hx; exact ho x hx
        | cons q pairs ih =>
          intro orig hq ho x hx
          rw [List.foldl_cons] at hx
          apply ih (orig.set q.1 q.2) (fun q' hq' => hq q' (by simp [hq'])) _ x hx
          intro y hy
          rcases List.mem_or_eq_of_mem_set hy with hy | rfl
          · exact ho y hy
          · exact hq q (by simp)
      apply this (best.zip sub) (samePositions m.size 0) _ _ p hp
      · intro q hq
        exact hin.1 q.2 (List.of_mem_zip hq).2
      · intro x hx
        left
        simp only [samePositions] at hx
        exact (List.mem_replicate.mp hx).2
    · obtain ⟨k, hk, hkp⟩ := List.mem_iff_getElem.mp hin.2
      have hk' : k < best.length := by rw [← hl]; exact hk
      have h3 := u3 k hk'
      rw [hkp] at h3
      have hidx : best[k] < positions.length := by rw [u1]; exact hr _ (List.getElem_mem hk')
      rw [List.getD_eq_getElem?_getD, List.getElem?_eq_getElem hidx] at h3
      simp only [Option.getD_some] at h3
      rw [← h3]
      exact List.getElem_mem hidx
  unfold levelPositions at h
  simp only at h
  split at h
  · rename_i hcond
    simp only [bind, Except.bind] at h
    split at h
    · cases h
    · rename_i sub hsub
      simp only [pure, Except.pure, Except.ok.injEq] at h
      have hsz : (m.slice best).size ≠ 0 := by rw [slice_size]; omega
      obtain ⟨hin, hl⟩ := hrec _ _ _ _ hpos hsz hsub
      rw [slice_size] at hl
      exact key sub hl hin h.symm
  · simp only [pure, Except.pure, Except.ok.injEq] at h
    refine key (samePositions best.length pos) (by simp [samePositions]) ⟨?_, ?_⟩ h.symm
    · intro p hp
      right
      simp only [samePositions] at hp
      exact (List.mem_replicate.mp hp).2
    · simp only [samePositions]
      exact List.mem_replicate.mpr ⟨by omega, rfl⟩

omit [Num α] in
theorem findBest_size_ne_zero (m : Matrix α) (f : α → α → Bool) (x : α) (h : m.findBest f = .ok x) : m.size ≠ 0 := by
  unfold Matrix.findBest at h
  split at h
  · simp [throw, throwThe, MonadExceptOf.throw] at h
  · rename_i hs; simpa using hs

theorem finishLevel_classes (recur : α → Int → Matrix α → Bool → R (List Int))
    (hrec : ∀ mc pos m ps, 1 ≤ pos → m.size ≠ 0 → recur mc pos m false = .ok ps → OuterOk pos ps ∧ ps.length = m.size)
    (m : Matrix α) (best : List Nat) (pos : Int) (hpos : 1 ≤ pos)
    (hb : best.Pairwise (· < ·)) (hr : ∀ i ∈ best, i < m.size)
    (positions : List Int) (hlen : positions.length = m.size) (hin : InnerOk pos positions)
    (hz : ∀ i, i ∉ best → positions.getD i 0 = 0)
    (ps : List Int) (h : finishLevel recur m best pos false positions = .ok ps) : OuterOk pos ps := by
  have hleft := updatedPositions_eq best positions hb (by rw [hlen]; exact hr) hz
  unfold finishLevel at h
  simp only [Bool.or_false] at h
  split at h
  · -- everything is classed at this level
    rename_i hall
    simp only [pure, Except.pure, Except.ok.injEq] at h
    subst h
    rw [hleft, beq_iff_eq, ← hlen] at hall
    have hall' := List.length_filter_eq_length_iff.mp (by rw [List.length_range]; exact hall)
    refine ⟨0, fun x => ⟨fun hx => ?_, fun hx => ?_⟩⟩
    · obtain ⟨k, hk, rfl⟩ := List.mem_iff_getElem.mp hx
      have hnz : positions[k] ≠ 0 := by
        have := hall' k (by simpa using hk)
        simpa [List.getD_eq_getElem?_getD, hk] using this
      rcases hin.1 _ (List.getElem_mem hk) with h0 | hp
      · exact absurd h0 hnz
      · rw [hp]; omega
    · have : x = pos := by omega
      rw [this]; exact hin.2
  · rename_i hnall
    simp only [bind, Except.bind] at h
    split at h
    · cases h
    · rename_i mc hmc
      split at h
      · cases h
      · rename_i further hf
        have hsz : (m.without (updatedPositions best positions)).size ≠ 0 := findBest_size_ne_zero _ _ _ hmc
        obtain ⟨⟨k, hk⟩, hfl⟩ := hrec _ _ _ _ (by omega : (1 : Int) ≤ pos + 1) hsz hf
        obtain ⟨w1, w2, w3⟩ := writePositionsSequentially_spec _ _ _ h
        -- the rest has exactly as many members as there are free slots
        have hcount : further.length ≤ positions.countP (· == 0) := by
          rw [hfl, ← zeros_count, ← keep_eq_zeros m positions hlen, ← hleft]
          unfold Matrix.without
          rw [if_neg hnall]
          simp [Matrix.sub]
        refine ⟨k + 1, fun x => ⟨fun hx => ?_, fun hx => ?_⟩⟩
        · rcases w1 x hx with ⟨hxp, hx0⟩ | hxf
          · rcases hin.1 x hxp with h0 | hp
            · exact absurd h0 hx0
            · rw [hp]; omega
          · have := (hk x).mp hxf
            omega
        · by_cases hxp : x = pos
          · rw [hxp]; exact w2 pos hin.2 (by omega)
          · exact w3 hcount x ((hk x).mpr (by omega))

/-- the class structure of every distillation call: an inner call marks a non-empty part of its alternatives
    with the current class number, an outer call uses exactly the class numbers `pos, …, pos + k` -/
theorem distillate_classes (cmp : Int → Int → Bool) (s : LinFun α) (fuel : Nat) :
    ∀ (maxCred : α) (pos : Int) (m : Matrix α) (inner : Bool) (ps : List Int), 1 ≤ pos → m.size ≠ 0 →
      distillate cmp s fuel maxCred pos m inner = .ok ps →
      (inner = true → InnerOk pos ps) ∧ (inner = false → OuterOk pos ps) := by
  induction fuel with
  | zero =>
    intro maxCred pos m inner ps _ _ h
    simp [distillate, throw, throwThe, MonadExceptOf.throw] at h
  | succ fuel ih =>
    intro maxCred pos m inner ps hpos hsz h
    unfold distillate at h
    split at h
    · -- level 0: everybody in the same class
      simp only [pure, Except.pure, Except.ok.injEq] at h
      subst h
      have hmem : ∀ x, x ∈ samePositions m.size pos ↔ x = pos := by
        intro x
        simp only [samePositions, List.mem_replicate]
        exact ⟨fun h => h.2, fun h => ⟨hsz, h⟩⟩
      refine ⟨fun _ => ⟨fun p hp => Or.inr ((hmem p).mp hp), (hmem pos).mpr rfl⟩, fun _ => ⟨0, fun x => ?_⟩⟩
      rw [hmem]; constructor <;> intro hx <;> omega
    · simp only [bind, Except.bind] at h
      split at h
      · cases h
      · rename_i dm hdm
        split at h
        · cases h
        · rename_i bm hbm
          split at h
          · cases h
          · rename_i positions hp
            obtain ⟨bne, basc, brange⟩ := findBestMatch_facts _ _ _ hbm
            rw [computeQuality_length, getDistillateMatrix_size s maxCred m dm hdm] at brange
            have hrecI : ∀ mc pos m ps, 1 ≤ pos → m.size ≠ 0 → distillate cmp s fuel mc pos m true = .ok ps →
                InnerOk pos ps ∧ ps.length = m.size :=
              fun mc pos m ps h1 h2 h3 => ⟨(ih mc pos m true ps h1 h2 h3).1 rfl, distillate_length _ _ _ _ _ _ _ _ h3⟩
            have hrecO : ∀ mc pos m ps, 1 ≤ pos → m.size ≠ 0 → distillate cmp s fuel mc pos m false = .ok ps →
                OuterOk pos ps ∧ ps.length = m.size :=
              fun mc pos m ps h1 h2 h3 => ⟨(ih mc pos m false ps h1 h2 h3).2 rfl, distillate_length _ _ _ _ _ _ _ _ h3⟩
            obtain ⟨plen, pin, pz⟩ := levelPositions_classes _ hrecI m bm.2 dm.1 pos hpos bne basc brange positions hp
            constructor
            · intro hi
              subst hi
              unfold finishLevel at h
              simp only [Bool.or_true, if_true, pure, Except.pure, Except.ok.injEq] at h
              subst h
              exact pin
            · intro hi
              subst hi
              exact finishLevel_classes _ hrecO m bm.2 pos hpos basc brange positions plen pin pz ps h

theorem foldl_max_mem (l : List Int) (init : Int) :
    l.foldl (fun b x => if b < x then x else b) init = init ∨ l.foldl (fun b x => if b < x then x else b) init ∈ l := by
  induction l generalizing init with
  | nil => left; rfl
  | cons a l ih =>
    rw [List.foldl_cons]
    rcases ih (if init < a then a else init) with h | h
    · rw [h]
      split
      · right; simp
      · left; rfl
    · right; exact List.mem_cons_of_mem _ h

theorem foldl_max_ge (l : List Int) (init : Int) :
    init ≤ l.foldl (fun b x => if b < x then x else b) init ∧
    ∀ x ∈ l, x ≤ l.foldl (fun b x => if b < x then x else b) init := by
  induction l generalizing init with
  | nil => simp
  | cons a l ih =>
    rw [List.foldl_cons]
    obtain ⟨h1, h2⟩ := ih (if init < a then a else init)
    by_cases hlt : init < a
    · simp only [hlt, if_true] at h1 h2 ⊢
      refine ⟨by omega, fun x hx => ?_⟩
      rcases List.mem_cons.mp hx with rfl | hx
      · exact h1
      · exact h2 x hx
    · simp only [hlt, if_false] at h1 h2 ⊢
      refine ⟨h1, fun x hx => ?_⟩
      rcases List.mem_cons.mp hx with rfl | hx
      · omega
      · exact h2 x hx

/-- `consecutiveFrom1` from the set of class numbers -/
theorem consecutiveFrom1_of_range (ps : List Int) (k : Nat) (h : ∀ x, x ∈ ps ↔ 1 ≤ x ∧ x ≤ 1 + k) :
    Spec.C05.consecutiveFrom1 ps = true := by
  unfold Spec.C05.consecutiveFrom1
  simp only [Bool.and_eq_true, List.all_eq_true, decide_eq_true_eq, List.mem_range, List.contains_eq_mem]
  refine ⟨fun x hx => ((h x).mp hx).1, fun j hj => ?_⟩
  have hmx : ps.foldl (fun b x => if b < x then x else b) 0 ≤ 1 + k := by
    rcases foldl_max_mem ps 0 with h0 | hm
    · rw [h0]; omega
    · exact ((h _).mp hm).2
  exact (h _).mpr ⟨by omega, by omega⟩

/-- the class numbers returned by `rank` are exactly `1, …, 1 + k` for some `k` -/
theorem rank_classes (m : Matrix α) (s : LinFun α) (cmp : Int → Int → Bool) (ps : List Int)
    (h : rank m s cmp = .ok ps) : ∃ k : Nat, ∀ x, x ∈ ps ↔ 1 ≤ x ∧ x ≤ 1 + k := by
  unfold rank at h
  simp only [bind, Except.bind] at h
  split at h
  · cases h
  · rename_i mc hmc
    have hsz : (removeDiagonal m).size ≠ 0 := findBest_size_ne_zero _ _ _ hmc
    exact (distillate_classes cmp s _ mc 1 _ false ps (by omega) hsz h).2 rfl

theorem rankAscending_consecutive (m : Matrix α) (s : LinFun α) (ps : List Int)
    (h : rankAscending m s = .ok ps) : Spec.C05.consecutiveFrom1 ps = true := by
  obtain ⟨k, hk⟩ := rank_classes m s _ ps h
  exact consecutiveFrom1_of_range ps k hk

theorem maxInt_spec (l : List Int) (mx : Int) (h : maxInt l = .ok mx) : mx ∈ l ∧ ∀ x ∈ l, x ≤ mx := by
  unfold maxInt at h
  cases l with
  | nil => simp [throw, throwThe, MonadExceptOf.throw] at h
  | cons v rest =>
    simp only [pure, Except.pure, Except.ok.injEq] at h
    subst h
    refine ⟨?_, (foldl_max_ge (v :: rest) v).2⟩
    rcases foldl_max_mem (v :: rest) v with h0 | hm
    · rw [h0]; simp
    · exact hm

theorem rankDescending_classes (m : Matrix α) (s : LinFun α) (ps : List Int)
    (h : rankDescending m s = .ok ps) : ∃ k : Nat, ∀ x, x ∈ ps ↔ 1 ≤ x ∧ x ≤ 1 + k := by
  unfold rankDescending at h
  simp only [bind, Except.bind] at h
  split at h
  · cases h
  · rename_i r hr
    split at h
    · cases h
    · rename_i mx hmx
      simp only [pure, Except.pure, Except.ok.injEq] at h
      subst h
      obtain ⟨k, hk⟩ := rank_classes m s _ r hr
      obtain ⟨m1, m2⟩ := maxInt_spec r mx hmx
      have hmxk : mx = 1 + k := by
        have h1 := ((hk mx).mp m1).2
        have h2 := m2 (1 + k) ((hk _).mpr ⟨by omega, by omega⟩)
        omega
      refine ⟨k, fun x => ?_⟩
      simp only [List.mem_map]
      constructor
      · rintro ⟨v, hv, rfl⟩
        have := (hk v).mp hv
        omega
      · intro hx
        exact ⟨mx + 1 - x, (hk _).mpr ⟨by omega, by omega⟩, by omega⟩

theorem rankDescending_consecutive (m : Matrix α) (s : LinFun α) (ps : List Int)
    (h : rankDescending m s = .ok ps) : Spec.C05.consecutiveFrom1 ps = true := by
  obtain ⟨k, hk⟩ := rankDescending_classes m s ps h
  exact consecutiveFrom1_of_range ps k hk

end Rdm
