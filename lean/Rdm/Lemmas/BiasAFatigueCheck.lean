/-
  `Spec.C17.check` as ONE statement on the output of the model (`fatigueBlur`): the clauses
  `altsOk` (considered / not considered) and `reportOk`, on top of the per-value clause
  (`valueOk_of_moved`) and the frame clause (`fatigue_frameOk`) of Rdm/Lemmas/BiasAFatigueSpec.lean.
-/
import Rdm.Lemmas.BiasAFatigue
import Rdm.Lemmas.BiasAFatigueSpec
import Rdm.Lemmas.BiasARange
import Rdm.Spec.C17
import Mathlib.Data.List.Forall2
import Mathlib.Data.List.Nodup
import Mathlib.Tactic.Linarith
set_option linter.unusedSectionVars false
set_option linter.unusedSimpArgs false
open Rdm
namespace Rdm.BiasA
variable {α : Type} [Num α]

/-! ### the range: the model's min/max fold against the spec's -/

/-- over the rationals the model's accumulation step (`if x < lo then x else lo`, …) is the spec's
    (`min`/`max`) -/
theorem c17spec_mmStep_eq (acc : Rat × Rat) (x : Rat) : mmStep acc x = (min acc.1 x, max acc.2 x) := by
  unfold mmStep
  refine Prod.ext ?_ ?_
  · simp only [min_def]
    split_ifs <;> first | rfl | linarith
  · simp only [max_def]
    split_ifs <;> first | rfl | linarith

theorem c17spec_foldl_eq (rest : List Rat) (acc : Rat × Rat) :
    rest.foldl (fun (acc : Rat × Rat) x => (min acc.1 x, max acc.2 x)) acc = rest.foldl mmStep acc := by
  have : (fun (acc : Rat × Rat) x => (min acc.1 x, max acc.2 x)) = mmStep := by
    funext acc x; exact (c17spec_mmStep_eq acc x).symm
  rw [this]

/-- a successful `mapM` of `CriterionRawValue` (in `Except`) is a successful `mapM` of the lookups (in
    `Option`), with the same values -/
theorem c17spec_mapM_raw {c : Crit Rat} : ∀ {alts : List (Alt Rat)} {vs : List Rat},
    alts.mapM (·.raw c) = .ok vs → alts.mapM (fun a => a.vals.get? c.id) = some vs := by
  intro alts
  induction alts with
  | nil =>
    intro vs h
    rw [List.mapM_nil, pure_ok] at h
    subst h
    rfl
  | cons a rest ih =>
    intro vs h
    rw [List.mapM_cons, bind_ok] at h
    obtain ⟨v, hv, h⟩ := h
    rw [bind_ok] at h
    obtain ⟨tl, htl, h⟩ := h
    rw [pure_ok] at h
    subst h
    rw [List.mapM_cons, raw_ok.1 hv, ih htl]
    rfl

theorem c17spec_mapM_length {c : Crit Rat} : ∀ {alts : List (Alt Rat)} {vs : List Rat},
    alts.mapM (·.raw c) = .ok vs → vs.length = alts.length := by
  intro alts vs h
  exact (mapM_ok_forall₂ h).length_eq.symm

/-- the range the model blurs in (`CriteriaValuesRange` over all current alternatives) is the range the
    spec expects (declared, else observed), and it is ordered — for at least one known alternative
    (with none there is nothing to blur) and an ordered declared range -/
theorem c17spec_expectedRange {alts : List (Alt Rat)} {c : Crit Rat} {r : Rat × Rat} (hne : alts ≠ [])
    (hord : ∀ r0, c.range = some r0 → r0.1 ≤ r0.2) (h : valuesRange alts c = .ok r) :
    Spec.C16.expectedRange alts c = some r ∧ r.1 ≤ r.2 := by
  unfold Spec.C16.expectedRange
  cases hc : c.range with
  | some r0 =>
    rw [valuesRange_some hc] at h
    cases h
    exact ⟨rfl, hord _ hc⟩
  | none =>
    rw [valuesRange_none hc, bind_ok] at h
    obtain ⟨vs, hvs, h⟩ := h
    rw [pure_ok] at h
    have hlen := c17spec_mapM_length hvs
    simp only
    unfold Spec.C16.observedRange
    rw [c17spec_mapM_raw hvs]
    cases vs with
    | nil =>
      exfalso
      apply hne
      exact List.length_eq_zero_iff.1 hlen.symm
    | cons v rest =>
      simp only at h ⊢
      rw [c17spec_foldl_eq, h]
      refine ⟨rfl, ?_⟩
      have := (mm_of_list v rest).2.2 v List.mem_cons_self
      rw [h] at this
      exact this.1.trans this.2

/-! ### lookups in the produced value map -/

/-- in a list built entry by entry from keys that are pairwise distinct, `lookup` finds the entry
    of every key -/
theorem c17spec_lookup_of_forall₂ {β γ : Type} {R : β → String × γ → Prop} {key : β → String}
    (hk : ∀ x kv, R x kv → kv.1 = key x) :
    ∀ {l : List β} {m : List (String × γ)}, List.Forall₂ R l m → (l.map key).Nodup →
      ∀ x ∈ l, ∃ kv, R x kv ∧ List.lookup (key x) m = some kv.2 := by
  intro l m h
  induction h with
  | nil => intro _ x hx; cases hx
  | @cons y kv l m hy _ ih =>
    intro hnd x hx
    rw [List.map_cons, List.nodup_cons] at hnd
    rw [lookup_cons_ite]
    rcases List.mem_cons.1 hx with rfl | hx
    · exact ⟨kv, hy, by rw [if_pos (hk _ _ hy).symm]⟩
    · obtain ⟨kv', hr, hl⟩ := ih hnd.2 x hx
      refine ⟨kv', hr, ?_⟩
      have : key x ≠ kv.1 := by
        rw [hk _ _ hy]
        intro he
        exact hnd.1 (he ▸ List.mem_map_of_mem hx)
      rw [if_neg this, hl]

/-- the value keys of a blurred alternative are the criteria ids, in declared order -/
theorem c17spec_blurred_keys {f : α} {b : Bounding α} {cr : List (Crit α × (α × α))} {vd sd : Draws α}
    {a a' : Alt α} (h : BlurredAlt f b cr vd sd a a') : a'.vals.keys = cr.map (·.1.id) := by
  unfold KMap.keys
  exact forall₂_map_map (fun c kv h => h.1) h.2

/-! ### `altsOk` -/

theorem c17spec_altsOk {f : Rat} {b : Bounding Rat} {cur : DMP Rat} {cr : List (Crit Rat × (Rat × Rat))}
    {vd sd : Draws Rat} (hcr1 : cr.map (·.1) = cur.crit)
    (hcr2 : ∀ c ∈ cr, valuesRange cur.all c.1 = .ok c.2)
    (hnd : (cur.crit.map (·.id)).Nodup)
    (hord : ∀ c ∈ cur.crit, ∀ r, c.range = some r → r.1 ≤ r.2)
    (hd : ∀ u ∈ vd, 0 ≤ u ∧ u < 1)
    {before after : List (Alt Rat)} (hsub : ∀ a ∈ before, a ∈ cur.all)
    (h : List.Forall₂ (BlurredAlt f b cr vd sd) before after) :
    Spec.C17.altsOk f b cur before after = true := by
  unfold Spec.C17.altsOk
  simp only [Bool.and_eq_true, beq_iff_eq, List.all_eq_true]
  refine ⟨h.length_eq, ?_⟩
  rintro ⟨a, a'⟩ hp
  obtain ⟨hid, hx⟩ := (List.forall₂_iff_zip.1 h).2 hp
  refine ⟨hid.symm, ?_⟩
  intro c hc
  have hne : cur.all ≠ [] := List.ne_nil_of_mem (hsub a (List.of_mem_zip hp).1)
  rw [← hcr1] at hc
  obtain ⟨ce, hce, rfl⟩ := List.mem_map.1 hc
  have hcmem : ce.1 ∈ cur.crit := hcr1 ▸ List.mem_map_of_mem hce
  obtain ⟨hexp, hr⟩ := c17spec_expectedRange hne (hord ce.1 hcmem) (hcr2 ce hce)
  have hnd' : (cr.map (fun x => x.1.id)).Nodup := by
    have : cr.map (fun x => x.1.id) = cur.crit.map (·.id) := by rw [← hcr1, List.map_map]; rfl
    rw [this]; exact hnd
  obtain ⟨kv, ⟨_, v, u, s, hv, hu, _, hkv⟩, hl⟩ :=
    c17spec_lookup_of_forall₂ (R := BlurredEntry f b a vd sd) (key := fun x => x.1.id)
      (fun x kv h => h.1) hx hnd' ce hce
  have hl' : a'.vals.get? ce.1.id = some kv.2 := hl
  rw [hexp, hv, hl', hkv, blurValue_eq]
  exact valueOk_of_moved f b ce.2 hr v _ (preBound_close f v u s (hd u hu).1 (hd u hu).2)
    (fun hf => by subst hf; exact preBound_zero v u s)

/-! ### `reportOk` -/

theorem c17spec_nodupStr : ∀ {l : List String}, l.Nodup → Spec.C15.nodupStr l = true := by
  intro l
  induction l with
  | nil => intro _; rfl
  | cons x xs ih =>
    intro h
    rw [List.nodup_cons] at h
    unfold Spec.C15.nodupStr
    simp only [Bool.and_eq_true, Bool.not_eq_true', List.contains_eq_mem, decide_eq_false_iff_not]
    exact ⟨h.1, ih h.2⟩

theorem c17spec_sameIds_refl {l : List String} (h : l.Nodup) : Spec.C15.sameIds l l = true := by
  unfold Spec.C15.sameIds
  simp only [Bool.and_eq_true, beq_self_eq_true, and_true, c17spec_nodupStr h, true_and,
    List.all_eq_true, List.contains_iff_mem]
  exact fun x hx => hx

/-- with duplicate-free keys every entry is found under its key -/
theorem c17spec_lookup_self {γ : Type} : ∀ {m : List (String × γ)}, (m.map Prod.fst).Nodup →
    ∀ kv ∈ m, List.lookup kv.1 m = some kv.2 := by
  intro m
  induction m with
  | nil => intro _ kv h; cases h
  | cons p m ih =>
    intro hnd kv hkv
    rw [List.map_cons, List.nodup_cons] at hnd
    rw [lookup_cons_ite]
    rcases List.mem_cons.1 hkv with rfl | hkv
    · rw [if_pos rfl]
    · have : kv.1 ≠ p.1 := by
        intro he
        exact hnd.1 (he ▸ List.mem_map_of_mem hkv)
      rw [if_neg this]
      exact ih hnd.2 kv hkv

/-- `altsSame` is reflexive on alternatives whose value keys are duplicate-free -/
theorem c17spec_altsSame_refl : ∀ {l : List (Alt Rat)}, (∀ a ∈ l, a.vals.keys.Nodup) →
    Spec.C17.altsSame l l = true := by
  intro l h
  unfold Spec.C17.altsSame
  simp only [beq_self_eq_true, Bool.true_and, List.all_eq_true, Bool.and_eq_true, beq_iff_eq]
  rintro ⟨x, y⟩ hp
  have hxy : x = y := by
    clear h
    induction l with
    | nil => simp at hp
    | cons z zs ih =>
      simp only [List.zip_cons_cons, List.mem_cons, Prod.mk.injEq] at hp
      rcases hp with ⟨rfl, rfl⟩ | hp
      · rfl
      · exact ih hp
  subst hxy
  have hk := h x (List.of_mem_zip hp).1
  refine ⟨⟨rfl, c17spec_sameIds_refl hk⟩, ?_⟩
  rintro ⟨k, v⟩ hkv
  exact c17spec_lookup_self (m := x.vals) hk (k, v) hkv

theorem c17spec_blurred_nodup {f : Rat} {b : Bounding Rat} {cur : DMP Rat} {cr : List (Crit Rat × (Rat × Rat))}
    {vd sd : Draws Rat} (hcr1 : cr.map (·.1) = cur.crit) (hnd : (cur.crit.map (·.id)).Nodup)
    {before after : List (Alt Rat)} (h : List.Forall₂ (BlurredAlt f b cr vd sd) before after) :
    ∀ a' ∈ after, a'.vals.keys.Nodup := by
  intro a' ha'
  obtain ⟨a, _, hb⟩ := forall₂_mem_right h a' ha'
  rw [c17spec_blurred_keys hb]
  have : cr.map (fun x => x.1.id) = cur.crit.map (·.id) := by rw [← hcr1, List.map_map]; rfl
  rw [this]; exact hnd

/-! ### the whole checker -/

/-- `Spec.C17.check` — the checker the driver evaluates on the implementation's output — accepts the
    model's output, for criteria with distinct ids, ordered declared ranges and value draws in `[0,1)` -/
theorem c17spec_check {f : Rat} {b : Bounding Rat} {cur res : DMP Rat} {vd sd : Draws Rat}
    {rep : FatigueReport Rat} (h : fatigueBlur f b cur vd sd = .ok (res, rep))
    (hd : ∀ u ∈ vd, 0 ≤ u ∧ u < 1)
    (hnd : (cur.crit.map (·.id)).Nodup)
    (hord : ∀ c ∈ cur.crit, ∀ r, c.range = some r → r.1 ≤ r.2) :
    Spec.C17.check f b cur res rep = true := by
  obtain ⟨_, _, _, hf, hco, hnc, cr, hcr, h1, h2⟩ := fatigueBlur_ok h
  obtain ⟨hcr1, hcr2⟩ := criteriaRanges_ok hcr
  unfold Spec.C17.check
  simp only [Bool.and_eq_true]
  refine ⟨⟨⟨fatigue_frameOk h, ?_⟩, ?_⟩, ?_⟩
  · exact c17spec_altsOk hcr1 hcr2 hnd hord hd (fun a ha => List.mem_append_left _ ha) h1
  · exact c17spec_altsOk hcr1 hcr2 hnd hord hd (fun a ha => List.mem_append_right _ ha) h2
  · unfold Spec.C17.reportOk
    rw [hf, hco, hnc]
    simp only [beq_self_eq_true, Bool.true_and, Bool.and_eq_true]
    exact ⟨c17spec_altsSame_refl (c17spec_blurred_nodup hcr1 hnd h1),
      c17spec_altsSame_refl (c17spec_blurred_nodup hcr1 hnd h2)⟩

theorem c17spec_explain_ok {f : Rat} {b : Bounding Rat} {cur res : DMP Rat} {rep : FatigueReport Rat}
    (h : Spec.C17.check f b cur res rep = true) : Spec.C17.explain f b cur res rep = "ok" := by
  unfold Spec.C17.check at h
  simp only [Bool.and_eq_true] at h
  obtain ⟨⟨⟨h1, h2⟩, h3⟩, h4⟩ := h
  unfold Spec.C17.explain
  simp [h1, h2, h3, h4]

end Rdm.BiasA
