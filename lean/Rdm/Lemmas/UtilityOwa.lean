/-
  OWA: sorting facts over `Rat`, `owa = owaSpec`, independence from the order of values and weights.
-/
import Mathlib.Tactic.Linarith
import Rdm.Model.Utility
import Rdm.Spec.C03
import Rdm.Lemmas.NumRat
namespace Rdm

/-! ### OWA -/

theorem sortNums_eq_sortAsc (l : List Rat) : sortNums l = Spec.C03.sortAsc l := rfl

theorem sortAsc_pairwise (l : List Rat) : (Spec.C03.sortAsc l).Pairwise (· ≤ ·) := by
  have := List.pairwise_mergeSort (le := fun a b : Rat => decide (a ≤ b))
    (fun a b c h1 h2 => by simp only [decide_eq_true_eq] at *; exact le_trans h1 h2)
    (fun a b => by simp only [Bool.or_eq_true, decide_eq_true_eq]; exact le_total a b) l
  simpa [Spec.C03.sortAsc] using this

theorem sortAsc_perm (l : List Rat) : (Spec.C03.sortAsc l).Perm l := List.mergeSort_perm _ _

/-- ascending sort of rationals only depends on the multiset -/
theorem sortAsc_perm_eq {l₁ l₂ : List Rat} (h : l₁.Perm l₂) : Spec.C03.sortAsc l₁ = Spec.C03.sortAsc l₂ :=
  List.Perm.eq_of_pairwise (le := (· ≤ ·)) (fun _ _ _ _ h1 h2 => le_antisymm h1 h2)
    (sortAsc_pairwise l₁) (sortAsc_pairwise l₂)
    ((sortAsc_perm l₁).trans (h.trans (sortAsc_perm l₂).symm))

/-- the weights of the stably sorted weighted criteria are the ascending sort of the weights -/
theorem sortWCrits_weights (wc : List (WCrit Rat)) :
    (sortWCrits wc).map (·.w) = Spec.C03.sortAsc (wc.map (·.w)) := by
  unfold sortWCrits Spec.C03.sortAsc
  apply List.map_mergeSort
  intro a _ b _
  by_cases h : b.w < a.w
  · simp [h, not_le.mpr h]
  · simp [h, not_lt.mp h]

theorem owaTotal_eq_sum (vals ws : List Rat) :
    owaTotal vals ws = Spec.C03.sum ((vals.zip ws).map fun p => p.1 * p.2) := by
  unfold owaTotal Spec.C03.sum
  rw [List.foldl_map]; rfl

theorem owa_eq_owaSpec (a : Alt Rat) (wc : List (WCrit Rat)) (h : a.vals.length = wc.length) :
    owa a wc = .ok (Spec.C03.owaSpec (a.vals.map (·.2)) (wc.map (·.w))) := by
  unfold owa Spec.C03.owaSpec
  simp only [h, bne_self_eq_false, Bool.false_eq_true, if_false, pure, Except.pure]
  rw [owaTotal_eq_sum, sortWCrits_weights, sortNums_eq_sortAsc]

theorem owa_perm_eq (a a' : Alt Rat) (wc wc' : List (WCrit Rat))
    (hv : a.vals.Perm a'.vals) (hw : wc.Perm wc') : owa a wc = owa a' wc' := by
  unfold owa
  rw [hv.length_eq, hw.length_eq, sortWCrits_weights, sortWCrits_weights, sortNums_eq_sortAsc, sortNums_eq_sortAsc,
    sortAsc_perm_eq (hv.map (·.2)), sortAsc_perm_eq (hw.map (·.w))]

end Rdm
