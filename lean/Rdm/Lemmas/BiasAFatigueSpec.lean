/-
  The spec clauses of C17 (and the shared frame clause) on the model's output.
-/
import Rdm.Lemmas.BiasAFatigue
import Rdm.Spec.C17
set_option linter.unusedSectionVars false
set_option linter.unusedSimpArgs false
open Rdm
namespace Rdm.BiasA

theorem critEq_refl (c : Crit Rat) : Spec.C15.critEq c c = true := by
  unfold Spec.C15.critEq
  cases h : c.range with
  | none => simp
  | some r => simp

theorem critsSame_refl (l : List (Crit Rat)) : Spec.C16.critsSame l l = true := by
  unfold Spec.C16.critsSame
  simp only [beq_self_eq_true, Bool.true_and, List.all_eq_true]
  intro p hp
  have : p.1 = p.2 := by
    induction l with
    | nil => simp at hp
    | cons x xs ih =>
      simp only [List.zip_cons_cons, List.mem_cons] at hp
      rcases hp with rfl | hp
      · rfl
      · exact ih hp
  obtain ⟨a, b⟩ := p
  simp only at this
  subst this
  exact critEq_refl a

/-- on the model's output the frame clause of the spec holds (criteria and parameters untouched) -/
theorem fatigue_frameOk {f : Rat} {b : Bounding Rat} {cur res : DMP Rat} {vd sd : Draws Rat}
    {rep : FatigueReport Rat} (h : fatigueBlur f b cur vd sd = .ok (res, rep)) :
    Spec.C17.frameOk cur res = true := by
  obtain ⟨_, hc, hm, _⟩ := fatigueBlur_ok h
  unfold Spec.C17.frameOk
  rw [hc, hm, critsSame_refl]
  simp


theorem absR_eq_abs (x : Rat) : Spec.C15.absR x = |x| := by
  unfold Spec.C15.absR
  split_ifs with h
  · exact (abs_of_neg h).symm
  · exact (abs_of_nonneg (not_lt.1 h)).symm

theorem boundSpec_mono (b : Bounding Rat) (r : Rat × Rat) {x y : Rat} (h : x ≤ y) :
    Spec.C17.boundSpec b r x ≤ Spec.C17.boundSpec b r y := by
  unfold Spec.C17.boundSpec
  cases hn : b.nonNeg <;> simp only [Bool.false_eq_true, if_false, if_true]
  · split_ifs
    · exact min_le_min le_rfl (max_le_max le_rfl h)
    · exact h
  · split_ifs
    · exact min_le_min le_rfl (max_le_max le_rfl (max_le_max h le_rfl))
    · exact max_le_max h le_rfl

theorem tol_pos : (0 : Rat) < Spec.C15.tol := by unfold Spec.C15.tol; norm_num

/-- the per-value clause of the spec the driver evaluates on the implementation's output holds for
    every value the model produces (range ordered, move within `|f·v|` before bounding) -/
theorem valueOk_of_moved (f : Rat) (b : Bounding Rat) (r : Rat × Rat) (hr : r.1 ≤ r.2) (v w : Rat)
    (hw : Num.abs (w - v) ≤ Num.abs (f * v)) (h0 : f = 0 → w = v) :
    Spec.C17.valueOk f b r v (b.bound r w) = true := by
  rw [bound_eq_spec b r (fun hs => scaledRange_ordered hr hs)]
  rw [numAbs_eq_abs, numAbs_eq_abs] at hw
  have hw' := abs_le.1 hw
  have hm : 0 ≤ |f * v| := abs_nonneg _
  have hslack : 0 ≤ Spec.C15.tol * (|v| + |f * v|) :=
    mul_nonneg tol_pos.le (add_nonneg (abs_nonneg _) hm)
  have hrs : 0 ≤ Spec.C15.tol * ((|r.1| + |r.2|) * (1 + |b.scaling|)) + Spec.C15.tol * (|v| + |f * v|) :=
    add_nonneg (mul_nonneg tol_pos.le (mul_nonneg (add_nonneg (abs_nonneg _) (abs_nonneg _))
      (add_nonneg zero_le_one (abs_nonneg _)))) hslack
  unfold Spec.C17.valueOk
  simp only [absR_eq_abs, Bool.and_eq_true, decide_eq_true_eq]
  refine ⟨⟨⟨⟨⟨?_, ?_⟩, ?_⟩, ?_⟩, ?_⟩, ?_⟩
  · have := boundSpec_mono b r (x := v - |f * v| - Spec.C15.tol * (|v| + |f * v|)) (y := w) (by linarith)
    linarith
  · have := boundSpec_mono b r (x := w) (y := v + |f * v| + Spec.C15.tol * (|v| + |f * v|)) (by linarith)
    linarith
  · split_ifs with hs
    · have hord := scaledRange_ordered hr hs
      have : (Spec.C17.scaledRange r b.scaling).1 ≤ Spec.C17.boundSpec b r w ∧
          Spec.C17.boundSpec b r w ≤ (Spec.C17.scaledRange r b.scaling).2 := by
        unfold Spec.C17.boundSpec
        simp only [hs, if_true]
        exact ⟨le_min hord (le_max_left _ _), min_le_left _ _⟩
      simp only [Bool.and_eq_true, decide_eq_true_eq]
      constructor <;> linarith
    · rfl
  · split_ifs with hc
    · simp only [decide_eq_true_eq]
      have hnn : b.nonNeg = true := hc.1
      have : 0 ≤ Spec.C17.boundSpec b r w := by
        unfold Spec.C17.boundSpec
        simp only [hnn, if_true]
        split_ifs with hs
        · have h2 : 0 ≤ (Spec.C17.scaledRange r b.scaling).2 := by
            simp only [Bool.and_eq_true, Bool.or_eq_true, Bool.not_eq_true', decide_eq_false_iff_not,
              decide_eq_true_eq] at hc
            rcases hc.2 with h | h
            · exact absurd hs h
            · exact h
          exact le_min h2 (le_max_of_le_right (le_max_right _ _))
        · exact le_max_right _ _
      linarith
    · rfl
  · split_ifs with hc
    · simp only [Bool.and_eq_true, beq_iff_eq] at hc
      have hoff := hc.2
      unfold Spec.C17.boundingOff at hoff
      simp only [Bool.and_eq_true, Bool.not_eq_true', decide_eq_false_iff_not] at hoff
      have : Spec.C17.boundSpec b r w = w := by
        unfold Spec.C17.boundSpec
        simp [hoff.1, hoff.2]
      rw [this, h0 hc.1]
      simp
    · rfl
  · split_ifs with hoff
    · unfold Spec.C17.boundingOff at hoff
      simp only [Bool.and_eq_true, Bool.not_eq_true', decide_eq_false_iff_not] at hoff
      have : Spec.C17.boundSpec b r w = w := by
        unfold Spec.C17.boundSpec
        simp [hoff.1, hoff.2]
      rw [this]
      simp only [decide_eq_true_eq]
      linarith
    · rfl

end Rdm.BiasA
