/-
  Weighted sum: the model is the plain sum of signed values; equals `Spec.C03.wsSpec` when all weights are 1.
-/
import Mathlib.Tactic.Ring
import Rdm.Model.Utility
import Rdm.Spec.C03
import Rdm.Lemmas.NumRat
namespace Rdm

/-! ### weighted sum -/
section ws
variable {α : Type} [Num α]

theorem foldlM_signed (a : Alt α) : ∀ (wc : List (WCrit α)) (t : α),
    wc.foldlM (fun total c => do pure (total + (← a.signed c.crit))) t
      = (wc.mapM fun c => a.signed c.crit).map (fun vs => vs.foldl (· + ·) t)
  | [], t => rfl
  | c :: rest, t => by
    rw [List.foldlM_cons, List.mapM_cons]
    cases h : a.signed c.crit with
    | error e => rfl
    | ok v =>
      have ih := foldlM_signed a rest (t + v)
      simp only [bind, Except.bind, pure, Except.pure] at ih ⊢
      rw [ih]
      cases rest.mapM (fun c => a.signed c.crit) <;> rfl

end ws

theorem ws_step_spec (a : Alt Rat) (c : WCrit Rat) (hw : c.w = 1) (t : Rat) :
    (do pure (t + (← a.signed c.crit)) : R Rat).toOption
      = (a.vals.get? c.crit.id).map fun v => t + c.w * (if c.crit.type == "cost" then -v else v) := by
  unfold Alt.signed Alt.raw Crit.mult
  cases h : a.vals.get? c.crit.id with
  | none => rfl
  | some v =>
    simp only [bind, Except.bind, pure, Except.pure, Except.toOption, Option.map_some, hw]
    congr 1
    split <;> simp

theorem ws_foldlM_spec (a : Alt Rat) : ∀ (wc : List (WCrit Rat)), (∀ c ∈ wc, c.w = 1) → ∀ t : Rat,
    (wc.foldlM (fun total c => do pure (total + (← a.signed c.crit))) t : R Rat).toOption
      = wc.foldlM (fun t c => (a.vals.get? c.crit.id).map fun v =>
          t + c.w * (if c.crit.type == "cost" then -v else v)) t
  | [], _, t => rfl
  | c :: rest, hw, t => by
    have h1 := ws_step_spec a c (hw c (by simp)) t
    rw [List.foldlM_cons, List.foldlM_cons]
    cases hs : (do pure (t + (← a.signed c.crit)) : R Rat) with
    | error e =>
      rw [hs] at h1
      simp only [Except.toOption] at h1
      rw [← h1]; rfl
    | ok v =>
      rw [hs] at h1
      simp only [Except.toOption] at h1
      rw [← h1]
      exact ws_foldlM_spec a rest (fun c hc => hw c (by simp [hc])) v

end Rdm
