/-
  A concrete request (over `Rat`) on which the hypotheses of the progress theorems of Props/C07 are discharged:
  electreIII, two criteria, two alternatives, an omission with the uniform-shuffle ordering followed by a fatigue;
  and a majority state for the criterion-adding biases.  Used by the `example`s of Props/C07 only.
-/
import Rdm.Lemmas.DecideProgressSeq
import Rdm.Props.C15
import Mathlib.Tactic.NormNum
namespace Rdm
set_option linter.unusedSimpArgs false

def prog_exC0 : Crit Rat := ⟨"c0", "gain", none⟩
def prog_exC1 : Crit Rat := ⟨"c1", "cost", none⟩
def prog_exA : Alt Rat := ⟨"a", [("c0", 1), ("c1", 2)]⟩
def prog_exB : Alt Rat := ⟨"b", [("c0", 3), ("c1", 1)]⟩
def prog_exElectre : MParams Rat :=
  .electre [("c0", ⟨2, ⟨0, 1/2⟩, ⟨0, 1⟩, ⟨0, 3⟩⟩), ("c1", ⟨1, ⟨0, 0⟩, ⟨0, 0⟩, ⟨0, 0⟩⟩)] defaultDistillation
def prog_exOmission : BProps Rat := .split ⟨1 / 2, 0, maxInt64⟩ Facts.orderingRandom 7
def prog_exFatigue : BProps Rat := .fatigue (.const (1 / 8)) ⟨-1, false⟩ 3

/-- the request: `criteriaOmission` (random ordering, seed 7) then `fatigue` (probability ½, seed 3),
    `biasApplyRandomSeed` 1 -/
def prog_exReq : Request Rat :=
  ⟨"electreIII", [prog_exC0, prog_exC1], [prog_exA, prog_exB], ["a", "b"], some prog_exElectre,
   [⟨Facts.biasOmission, false, none, prog_exOmission⟩, ⟨Facts.biasFatigue, false, some (1/2), prog_exFatigue⟩], 1⟩

def prog_exParams : DMP Rat := ⟨[], [prog_exA, prog_exB], [prog_exC0, prog_exC1], prog_exElectre⟩
def prog_exChosen : List (Chosen Rat (BProps Rat)) :=
  [⟨Facts.biasOmission, 1, prog_exOmission⟩, ⟨Facts.biasFatigue, 1/2, prog_exFatigue⟩]

/-- a seed table with eight numbers for each of the three seeds the request names -/
def prog_exSeeds : Seeds Rat :=
  [(1, List.replicate 8 (1/2)), (7, List.replicate 8 (1/4)), (3, List.replicate 8 (3/4))]

theorem prog_exPrepare : prepare prog_exReq = .ok (prog_exParams, prog_exChosen) := rfl

theorem prog_exSeeds_mem {k : Int} (h : k ∈ prog_exReq.seeds) : k = 1 ∨ k = 7 ∨ k = 3 := by
  have e : prog_exReq.seeds = [1, 7, 3] := by decide +kernel
  rw [e] at h
  simp only [List.mem_cons, List.not_mem_nil, or_false] at h
  omega

/-- the default clamps with ratio ½: the pivot stays in `[0, n]` and below `n` for `n > 0` -/
theorem prog_pivot_half (N : Nat) (hN : (N : Int) ≤ maxInt64) :
    (∀ n ≤ N, 0 ≤ (⟨1 / 2, 0, maxInt64⟩ : SplitCond Rat).pivot n ∧
      (⟨1 / 2, 0, maxInt64⟩ : SplitCond Rat).pivot n ≤ n) ∧
    (∀ n, 0 < n → n ≤ N → (⟨1 / 2, 0, maxInt64⟩ : SplitCond Rat).pivot n < n) := by
  constructor
  · intro n hn
    have := Rdm.Props.C15.pivot_default (1 / 2) n (by norm_num) (by norm_num) (by omega)
    exact ⟨this.2.1, this.2.2⟩
  · intro n hpos hn
    have hp := Rdm.Props.C15.pivot_default (1 / 2) n (by norm_num) (by norm_num) (by omega)
    rw [hp.1]
    have hfl : ((n : Rat) * (1 / 2)).floor ≤ (n : Int) - 1 ∨ (n : Int) ≤ ((n : Rat) * (1 / 2)).floor := by omega
    rcases hfl with h | h
    · omega
    · have h1 := Rat.floor_le ((n : Rat) * (1 / 2))
      have h2 : ((n : Int) : Rat) ≤ ((((n : Rat) * (1 / 2)).floor : Int) : Rat) := by exact_mod_cast h
      have h3 : (0 : Rat) < (n : Rat) := by exact_mod_cast hpos
      push_cast at h2
      linarith

theorem prog_exEntries : ∀ b ∈ prog_exChosen, ProgEntry true 2 b := by
  intro b hb
  simp only [prog_exChosen, List.mem_cons, List.not_mem_nil, or_false] at hb
  rcases hb with rfl | rfl
  · obtain ⟨h1, h2⟩ := prog_pivot_half 2 (by decide)
    exact Or.inr (Or.inr ⟨rfl, ⟨1 / 2, 0, maxInt64⟩, Facts.orderingRandom, 7, rfl, by decide +kernel,
      Or.inr (Or.inr (Or.inr (Or.inl rfl))), h1, fun _ => h2⟩)
  · exact Or.inl ⟨rfl, .const (1 / 8), ⟨-1, false⟩, 3, rfl, fun n h => (by cases h), by decide +kernel⟩

theorem prog_exStreams {k : Int} (h : k ∈ prog_exReq.seeds) :
    (∀ u ∈ genOf prog_exSeeds k, 0 ≤ u ∧ u ≤ 1) ∧ prog_demand prog_exParams ≤ (genOf prog_exSeeds k).length := by
  rcases prog_exSeeds_mem h with rfl | rfl | rfl
  · have e : genOf prog_exSeeds 1 = List.replicate 8 (1/2) := by decide +kernel
    refine ⟨fun u hu => ?_, by decide +kernel⟩
    rw [e] at hu; rw [List.eq_of_mem_replicate hu]; norm_num
  · have e : genOf prog_exSeeds 7 = List.replicate 8 (1/4) := by decide +kernel
    refine ⟨fun u hu => ?_, by decide +kernel⟩
    rw [e] at hu; rw [List.eq_of_mem_replicate hu]; norm_num
  · have e : genOf prog_exSeeds 3 = List.replicate 8 (3/4) := by decide +kernel
    refine ⟨fun u hu => ?_, by decide +kernel⟩
    rw [e] at hu; rw [List.eq_of_mem_replicate hu]; norm_num

/-! a majority state, ready for a criterion-adding bias, and props of the three adding steps -/

def prog_exMajority : DMP Rat :=
  ⟨[⟨"z", [("c0", 0)]⟩], [⟨"a", [("c0", 1)]⟩], [⟨"c0", "gain", none⟩], .majority [("c0", 1)] "" 7 false ""⟩

def prog_exAnchNew : AnchProps Rat :=
  ⟨[("z", some 1)], false, ⟨"linear", {}⟩, ⟨Facts.fatigueExp, {}⟩, Facts.anchoringIdeal, ⟨Facts.anchoringNewCriterion, {}⟩⟩

def prog_exAnchInline : AnchProps Rat :=
  ⟨[("a", none)], false, ⟨"linear", {}⟩, ⟨"linear", {}⟩, Facts.anchoringNadir, ⟨Facts.anchoringInline, {}⟩⟩

/-- every seed ↦ four halves -/
def prog_exGen : Int → Draws Rat := fun _ => List.replicate 4 (1 / 2)

theorem prog_exGen_unit (k : Int) : ∀ u ∈ prog_exGen k, 0 ≤ u ∧ u < 1 := by
  intro u hu
  rw [List.eq_of_mem_replicate hu]; norm_num

/-! the same request with an inline anchoring (to the nadir of alternative `a`) in front of the omission -/

def prog_exReqA : Request Rat :=
  ⟨"electreIII", [prog_exC0, prog_exC1], [prog_exA, prog_exB], ["a", "b"], some prog_exElectre,
   [⟨Facts.biasAnchoring, false, none, .anch prog_exAnchInline⟩,
    ⟨Facts.biasOmission, false, none, prog_exOmission⟩], 1⟩

def prog_exChosenA : List (Chosen Rat (BProps Rat)) :=
  [⟨Facts.biasAnchoring, 1, .anch prog_exAnchInline⟩, ⟨Facts.biasOmission, 1, prog_exOmission⟩]

def prog_exSeedsA : Seeds Rat :=
  [(0, List.replicate 8 (1/2)), (1, List.replicate 8 (1/2)), (2, List.replicate 8 (1/2)), (7, List.replicate 8 (1/4))]

theorem prog_exPrepareA : prepare prog_exReqA = .ok (prog_exParams, prog_exChosenA) := rfl

theorem prog_exEntriesA : ∀ b ∈ prog_exChosenA, ProgEntryA prog_exParams true 2 b := by
  intro b hb
  simp only [prog_exChosenA, List.mem_cons, List.not_mem_nil, or_false] at hb
  rcases hb with rfl | rfl
  · exact Or.inr ⟨rfl, prog_exAnchInline, rfl, rfl, by decide +kernel⟩
  · obtain ⟨h1, h2⟩ := prog_pivot_half 2 (by decide)
    exact Or.inl (Or.inr (Or.inr ⟨rfl, ⟨1 / 2, 0, maxInt64⟩, Facts.orderingRandom, 7, rfl, by decide +kernel,
      Or.inr (Or.inr (Or.inr (Or.inl rfl))), h1, fun _ => h2⟩))

theorem prog_exStreamsA {k : Int} (h : k ∈ prog_exReqA.seeds) :
    (∀ u ∈ genOf prog_exSeedsA k, 0 ≤ u ∧ u ≤ 1) ∧ prog_demand prog_exParams ≤ (genOf prog_exSeedsA k).length := by
  have hk : k = 0 ∨ k = 1 ∨ k = 2 ∨ k = 7 := by
    have e : prog_exReqA.seeds = [1, 0, 0, 1, 2, 7] := by decide +kernel
    rw [e] at h
    simp only [List.mem_cons, List.not_mem_nil, or_false] at h
    omega
  rcases hk with rfl | rfl | rfl | rfl
  · have e : genOf prog_exSeedsA 0 = List.replicate 8 (1/2) := by decide +kernel
    refine ⟨fun u hu => ?_, by decide +kernel⟩
    rw [e] at hu; rw [List.eq_of_mem_replicate hu]; norm_num
  · have e : genOf prog_exSeedsA 1 = List.replicate 8 (1/2) := by decide +kernel
    refine ⟨fun u hu => ?_, by decide +kernel⟩
    rw [e] at hu; rw [List.eq_of_mem_replicate hu]; norm_num
  · have e : genOf prog_exSeedsA 2 = List.replicate 8 (1/2) := by decide +kernel
    refine ⟨fun u hu => ?_, by decide +kernel⟩
    rw [e] at hu; rw [List.eq_of_mem_replicate hu]; norm_num
  · have e : genOf prog_exSeedsA 7 = List.replicate 8 (1/4) := by decide +kernel
    refine ⟨fun u hu => ?_, by decide +kernel⟩
    rw [e] at hu; rw [List.eq_of_mem_replicate hu]; norm_num

end Rdm
