/-
  Lemmas for the END-TO-END theorems of Props/C02 and Props/C10 about whole requests:
    * the seed table restricted to the seeds a request names (`e2es_genOf_restrict`);
    * `e2esHandleAll`: the model of the service handling a batch of (tagged) requests one after the other —
      the handler of the model is the pure function `Rdm.decide exp · seeds`, there is no state to hand from one
      request to the next — with its basic facts (membership, permutation, append).
  Core only (no Mathlib).  All names carry the prefix `e2es_` / `e2es` (every lemma file shares `namespace Rdm`).
-/
import Rdm.Model.Decide
namespace Rdm
set_option linter.unusedSectionVars false
variable {α : Type} [Num α]

/-! ### the seed table restricted to named seeds -/

/-- the table that knows exactly the seeds `ks`, each with the stream `s` gives it -/
def e2esRestrict (s : Seeds α) (ks : List Int) : Seeds α := ks.map fun k => (k, genOf s k)

theorem e2es_genOf_restrict (s : Seeds α) (ks : List Int) (k : Int) (hk : k ∈ ks) :
    genOf (e2esRestrict s ks) k = genOf s k := by
  unfold e2esRestrict
  induction ks with
  | nil => cases hk
  | cons a rest ih =>
    unfold genOf
    simp only [List.map_cons, List.lookup_cons]
    by_cases hka : k = a
    · subst hka
      simp
    · have hne : (k == a) = false := by simpa using hka
      rw [hne]
      rcases List.mem_cons.mp hk with h | h
      · exact absurd h hka
      · exact ih h

theorem e2es_genOf_restrict_other (s : Seeds α) (ks : List Int) (k : Int) (hk : k ∉ ks) :
    genOf (e2esRestrict s ks) k = [] := by
  unfold e2esRestrict
  induction ks with
  | nil => rfl
  | cons a rest ih =>
    unfold genOf
    simp only [List.map_cons, List.lookup_cons]
    have hka : k ≠ a := fun h => hk (h ▸ List.mem_cons_self)
    have hne : (k == a) = false := by simpa using hka
    rw [hne]
    exact ih (fun h => hk (List.mem_cons_of_mem _ h))

/-! ### a batch of requests -/

/-- the service handling a batch one request after the other; the tags identify the requests (two entries may
    carry the same request) -/
def e2esHandleAll (exp : α → α) (seeds : Seeds α) :
    List (Nat × Request α) → List (Nat × R (Response α))
  | [] => []
  | (t, req) :: rest => (t, Rdm.decide exp req seeds) :: e2esHandleAll exp seeds rest

theorem e2es_handleAll_eq_map (exp : α → α) (seeds : Seeds α) (l : List (Nat × Request α)) :
    e2esHandleAll exp seeds l = l.map fun p => (p.1, Rdm.decide exp p.2 seeds) := by
  induction l with
  | nil => rfl
  | cons p rest ih =>
    obtain ⟨t, req⟩ := p
    simp only [e2esHandleAll, List.map_cons, ih]

theorem e2es_handleAll_append (exp : α → α) (seeds : Seeds α) (l₁ l₂ : List (Nat × Request α)) :
    e2esHandleAll exp seeds (l₁ ++ l₂) = e2esHandleAll exp seeds l₁ ++ e2esHandleAll exp seeds l₂ := by
  rw [e2es_handleAll_eq_map, e2es_handleAll_eq_map, e2es_handleAll_eq_map, List.map_append]

theorem e2es_handleAll_mem (exp : α → α) (seeds : Seeds α) (l : List (Nat × Request α))
    (t : Nat) (r : R (Response α)) :
    (t, r) ∈ e2esHandleAll exp seeds l ↔ ∃ req, (t, req) ∈ l ∧ r = Rdm.decide exp req seeds := by
  rw [e2es_handleAll_eq_map, List.mem_map]
  constructor
  · rintro ⟨⟨t', req⟩, hm, he⟩
    simp only [Prod.mk.injEq] at he
    obtain ⟨rfl, rfl⟩ := he
    exact ⟨req, hm, rfl⟩
  · rintro ⟨req, hm, rfl⟩
    exact ⟨(t, req), hm, rfl⟩

theorem e2es_handleAll_perm (exp : α → α) (seeds : Seeds α) {l l' : List (Nat × Request α)}
    (h : l'.Perm l) : (e2esHandleAll exp seeds l').Perm (e2esHandleAll exp seeds l) := by
  rw [e2es_handleAll_eq_map, e2es_handleAll_eq_map]
  exact h.map _

end Rdm
