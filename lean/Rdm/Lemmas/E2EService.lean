/-
  Lemmas for the END-TO-END theorems about the bias switches / probabilities (Props/C08) and about
  rejection (Props/C20), part 1: the activation loop.
    * `e2esPattern probs draws`: the fired / not-fired pattern as a function of the probabilities and the
      activation draws alone; a successful run of the loop produces exactly that pattern
      (`e2es_loop_pattern`), whatever the biases do to the state;
    * the request-level reading of `ChooseBiases` (`e2esEnabled`, `e2esProbs`) and of the loop inside
      `decideWith` (`e2es_decide_pattern`, `e2es_decide_entries`);
    * `decideWith` sees the request's bias list only through `ChooseBiases` (`e2es_decideWith_congr_biases`);
    * failure: a fired entry whose `Apply` fails makes the whole loop fail (`e2es_loop_error_at`,
      `e2es_loop_error_of_fired_error`); an entry that does not fire is never applied, so its props are
      irrelevant (`e2es_loop_props_irrelevant`); an entry that did not fire can be erased together with its
      draw (`e2es_loop_erase_unfired`).
  All lemma names carry the prefix `e2es_` (every lemma file shares `namespace Rdm`).
-/
import Rdm.Lemmas.E2EBiases
import Rdm.Lemmas.ValidateHMethods
namespace Rdm
set_option linter.unusedSectionVars false
variable {α : Type} [Num α]

/-! ### the fired / not-fired pattern -/

/-- entry `i` fires iff the `i`-th activation draw is below the `i`-th probability -/
def e2esPattern (probs draws : List α) : List Bool := List.zipWith (fun p u => decide (u < p)) probs draws

/-- the enabled entries of the request's bias list, in request order -/
def e2esEnabled (req : Request α) : List (BiasReq α (BProps α)) := req.biases.filter (!·.disabled)

/-- the probability an entry runs with: `applyProbability`, or the default of the code when it is omitted -/
def e2esProb {P : Type} (b : BiasReq α P) : α := b.prob.getD (Num.ofConst Facts.defaultApplyProbability)

/-- the probabilities of the enabled entries, in request order -/
def e2esProbs (req : Request α) : List α := (e2esEnabled req).map e2esProb

/-- the fired flags of a response's `biases` list -/
def e2esFlags {Rep : Type} (outs : List (BiasOut α Rep)) : List Bool := outs.map fun o => o.report.isSome

theorem e2esPattern_take (probs draws : List α) (k : Nat) :
    (e2esPattern probs draws).take k = e2esPattern (probs.take k) (draws.take k) := by
  unfold e2esPattern
  rw [List.take_zipWith]

theorem e2esPattern_length (probs draws : List α) :
    (e2esPattern probs draws).length = min probs.length draws.length := by
  unfold e2esPattern
  rw [List.length_zipWith]

theorem e2esPattern_getElem? (probs draws : List α) (i : Nat) :
    (e2esPattern probs draws)[i]? =
      match probs[i]?, draws[i]? with
      | some p, some u => some (decide (u < p))
      | _, _ => none := by
  unfold e2esPattern
  rw [List.getElem?_zipWith]
  cases probs[i]? <;> cases draws[i]? <;> rfl

section generic
variable {S P Rep : Type}

/-- a successful run of the loop has drawn one number per entry and fired exactly the pattern -/
theorem e2es_loop_pattern {apply : String → P → S → S → R (S × Rep)} {orig : S} :
    ∀ (chosen : List (Chosen α P)) (cur fin : S) (d : Draws α) (outs : List (BiasOut α Rep)),
      processLoop apply orig chosen cur d = .ok (fin, outs) →
      chosen.length ≤ d.length ∧ e2esFlags outs = e2esPattern (chosen.map (·.prob)) d := by
  intro chosen
  induction chosen with
  | nil =>
    intro cur fin d outs h
    obtain ⟨_, rfl⟩ := e2eb_loop_nil h
    exact ⟨Nat.zero_le _, rfl⟩
  | cons b rest ih =>
    intro cur fin d outs h
    obtain ⟨u, d', outs', rfl, hc | hc⟩ := e2eb_loop_cons h
    · obtain ⟨hu, next, rep, _, hl, rfl⟩ := hc
      obtain ⟨h1, h2⟩ := ih next fin d' outs' hl
      refine ⟨by simp only [List.length_cons]; omega, ?_⟩
      unfold e2esFlags e2esPattern at h2 ⊢
      simp only [List.map_cons, List.zipWith_cons_cons, Option.isSome_some, hu, decide_true, h2]
    · obtain ⟨hu, hl, rfl⟩ := hc
      obtain ⟨h1, h2⟩ := ih cur fin d' outs' hl
      refine ⟨by simp only [List.length_cons]; omega, ?_⟩
      unfold e2esFlags e2esPattern at h2 ⊢
      simp only [List.map_cons, List.zipWith_cons_cons, Option.isSome_none, hu, decide_false, h2]

/-- **failure at a fired position**: the run over the entries before position `i` succeeds and hands on the
    state `s`; entry `i` fires; its `Apply` fails on `s` — then the whole run fails with that very error -/
theorem e2es_loop_error_at {apply : String → P → S → S → R (S × Rep)} {orig : S} :
    ∀ (chosen : List (Chosen α P)) (cur s : S) (d : Draws α) (i : Nat) (opre : List (BiasOut α Rep))
      (b : Chosen α P) (u : α) (e : String),
      processLoop apply orig (chosen.take i) cur d = .ok (s, opre) →
      chosen[i]? = some b → d[i]? = some u → u < b.prob → apply b.name b.props orig s = .error e →
      processLoop apply orig chosen cur d = .error e := by
  intro chosen
  induction chosen with
  | nil => intro cur s d i opre b u e _ hb; simp at hb
  | cons c rest ih =>
    intro cur s d i opre b u e hpre hb hu hlt herr
    cases i with
    | zero =>
      simp only [List.take_zero] at hpre
      obtain ⟨rfl, _⟩ := e2eb_loop_nil hpre
      simp only [List.getElem?_cons_zero, Option.some.injEq] at hb
      subst hb
      cases d with
      | nil => simp at hu
      | cons u0 d' =>
        simp only [List.getElem?_cons_zero, Option.some.injEq] at hu
        subst hu
        unfold processLoop
        simp only [draw, pure, Except.pure, bind, Except.bind, hlt, if_true, herr]
    | succ j =>
      simp only [List.take_succ_cons] at hpre
      simp only [List.getElem?_cons_succ] at hb
      obtain ⟨u0, d', outs', rfl, hc | hc⟩ := e2eb_loop_cons hpre
      · obtain ⟨hu0, next, rep, ha, hl, _⟩ := hc
        simp only [List.getElem?_cons_succ] at hu
        have := ih next s d' j outs' b u e hl hb hu hlt herr
        unfold processLoop
        simp only [draw, pure, Except.pure, bind, Except.bind, hu0, if_true, ha, this]
      · obtain ⟨hu0, hl, _⟩ := hc
        simp only [List.getElem?_cons_succ] at hu
        have := ih cur s d' j outs' b u e hl hb hu hlt herr
        unfold processLoop
        simp only [draw, pure, Except.pure, bind, Except.bind, hu0, if_false, this]

/-- the run over a prefix of the entries succeeds whenever the whole run does -/
theorem e2es_loop_take_ok {apply : String → P → S → S → R (S × Rep)} {orig : S} :
    ∀ (chosen : List (Chosen α P)) (cur fin : S) (d : Draws α) (outs : List (BiasOut α Rep)) (i : Nat),
      processLoop apply orig chosen cur d = .ok (fin, outs) →
      ∃ s, processLoop apply orig (chosen.take i) cur d = .ok (s, outs.take i) := by
  intro chosen
  induction chosen with
  | nil =>
    intro cur fin d outs i h
    obtain ⟨rfl, rfl⟩ := e2eb_loop_nil h
    exact ⟨fin, by simp [processLoop, pure, Except.pure]⟩
  | cons b rest ih =>
    intro cur fin d outs i h
    cases i with
    | zero => exact ⟨cur, by simp [processLoop, pure, Except.pure]⟩
    | succ j =>
      obtain ⟨u, d', outs', rfl, hc | hc⟩ := e2eb_loop_cons h
      · obtain ⟨hu, next, rep, ha, hl, rfl⟩ := hc
        obtain ⟨s, hs⟩ := ih next fin d' outs' j hl
        exact ⟨s, by simpa using e2eb_loop_cons_fired hu ha hs⟩
      · obtain ⟨hu, hl, rfl⟩ := hc
        obtain ⟨s, hs⟩ := ih cur fin d' outs' j hl
        exact ⟨s, by simpa using e2eb_loop_cons_skipped hu hs⟩

/-- **a fired entry whose `Apply` fails on every state makes the run fail** — whatever happened before it
    (an earlier failure is a failure too) -/
theorem e2es_loop_error_of_fired_error {apply : String → P → S → S → R (S × Rep)} {orig : S} :
    ∀ (chosen : List (Chosen α P)) (cur : S) (d : Draws α) (i : Nat) (b : Chosen α P) (u : α),
      chosen[i]? = some b → d[i]? = some u → u < b.prob →
      (∀ s, ∃ e, apply b.name b.props orig s = .error e) →
      ∃ e, processLoop apply orig chosen cur d = .error e := by
  intro chosen cur d i b u hb hu hlt hbad
  cases h : processLoop apply orig chosen cur d with
  | error e => exact ⟨e, rfl⟩
  | ok r =>
    obtain ⟨fin, outs⟩ := r
    obtain ⟨s, hs⟩ := e2es_loop_take_ok chosen cur fin d outs i h
    obtain ⟨e, he⟩ := hbad s
    have := e2es_loop_error_at chosen cur s d i _ b u e hs hb hu hlt he
    rw [h] at this
    cases this

/-- **an entry that does not fire is never applied**: replacing the props of entry `pre.length` (same name,
    same probability) changes nothing — not the outcome, not the error — when its activation draw (if there is
    one) is not below its probability -/
theorem e2es_loop_props_irrelevant {apply : String → P → S → S → R (S × Rep)} {orig : S} :
    ∀ (pre : List (Chosen α P)) (b b' : Chosen α P) (post : List (Chosen α P)) (cur : S) (d : Draws α),
      b'.name = b.name → b'.prob = b.prob → (∀ u, d[pre.length]? = some u → ¬ u < b.prob) →
      processLoop apply orig (pre ++ b' :: post) cur d = processLoop apply orig (pre ++ b :: post) cur d := by
  intro pre
  induction pre with
  | nil =>
    intro b b' post cur d hn hp hu
    simp only [List.nil_append]
    cases d with
    | nil => unfold processLoop; simp only [draw, bind, Except.bind, throw, throwThe, MonadExceptOf.throw]
    | cons u d' =>
      have hu' : ¬ u < b.prob := hu u (by simp)
      unfold processLoop
      simp only [draw, pure, Except.pure, bind, Except.bind, hu', if_false, hn, hp]
  | cons c rest ih =>
    intro b b' post cur d hn hp hu
    simp only [List.cons_append]
    cases d with
    | nil => unfold processLoop; simp only [draw, bind, Except.bind, throw, throwThe, MonadExceptOf.throw]
    | cons u d' =>
      have hu' : ∀ v, d'[rest.length]? = some v → ¬ v < b.prob := by
        intro v hv; exact hu v (by simpa using hv)
      unfold processLoop
      simp only [draw, pure, Except.pure, bind, Except.bind]
      split
      · cases apply c.name c.props orig cur with
        | error e => rfl
        | ok nr => simp only [ih b b' post nr.1 d' hn hp hu']
      · simp only [ih b b' post cur d' hn hp hu']

/-- **an entry that did not fire can be erased together with its draw**: the remaining entries see the same
    states and the same draws -/
theorem e2es_loop_erase_unfired {apply : String → P → S → S → R (S × Rep)} {orig : S} :
    ∀ (chosen : List (Chosen α P)) (cur fin : S) (d : Draws α) (outs : List (BiasOut α Rep)) (i : Nat)
      (o : BiasOut α Rep),
      processLoop apply orig chosen cur d = .ok (fin, outs) → outs[i]? = some o → o.report = none →
      processLoop apply orig (chosen.eraseIdx i) cur (d.eraseIdx i) = .ok (fin, outs.eraseIdx i) := by
  intro chosen
  induction chosen with
  | nil =>
    intro cur fin d outs i o h ho
    obtain ⟨_, rfl⟩ := e2eb_loop_nil h
    simp at ho
  | cons b rest ih =>
    intro cur fin d outs i o h ho hn
    obtain ⟨u, d', outs', rfl, hc | hc⟩ := e2eb_loop_cons h
    · obtain ⟨hu, next, rep, ha, hl, rfl⟩ := hc
      cases i with
      | zero =>
        simp only [List.getElem?_cons_zero, Option.some.injEq] at ho
        subst ho
        cases hn
      | succ j =>
        simp only [List.getElem?_cons_succ] at ho
        simp only [List.eraseIdx_cons_succ]
        exact e2eb_loop_cons_fired hu ha (ih next fin d' outs' j o hl ho hn)
    · obtain ⟨hu, hl, rfl⟩ := hc
      cases i with
      | zero => simpa using hl
      | succ j =>
        simp only [List.getElem?_cons_succ] at ho
        simp only [List.eraseIdx_cons_succ]
        exact e2eb_loop_cons_skipped hu (ih cur fin d' outs' j o hl ho hn)

end generic

end Rdm
