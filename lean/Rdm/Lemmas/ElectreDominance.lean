/-
  Dominance (C06 a) for the declarative distillation and, through the refinement theorem, for the model:
  if `a` dominates `b` on the credibility function then `a` has at least the qualification of `b` in every
  set and at every cut level, hence is never narrowed away before `b` in the max-distillation (nor `b` before
  `a` in the min-distillation), hence `asc a ≤ asc b` and `desc a ≤ desc b`.  Needs `s ≥ 0` at `σ(b,a)` and a
  non-increasing `s` — exactly the domain of the property.
-/
import Rdm.Lemmas.ElectreRefine
import Rdm.Lemmas.ElectreCred
import Rdm.Lemmas.ElectreTermination
import Mathlib.Tactic.Linarith
namespace Rdm
open Rdm.Spec.C05

/-- `a` dominates `b` on the credibility function `σ` among the alternatives `< n`: it outranks every third
    alternative at least as credibly, is outranked at most as credibly, `σ(b,a) ≤ σ(a,b)`; and the distillation
    function is non-negative at `σ(b,a)` and non-increasing -/
structure DomSigma (σ : Nat → Nat → Rat) (s : LinFun Rat) (n a b : Nat) : Prop where
  ne : a ≠ b
  out : ∀ x, x < n → x ≠ a → x ≠ b → σ b x ≤ σ a x
  inn : ∀ x, x < n → x ≠ a → x ≠ b → σ x a ≤ σ x b
  ab : σ b a ≤ σ a b
  s_ba : 0 ≤ sVal s (σ b a)
  s_anti : ∀ u v : Rat, u ≤ v → sVal s v ≤ sVal s u

variable {σ : Nat → Nat → Rat} {s : LinFun Rat} {n a b : Nat}

theorem dom_not_ba (h : DomSigma σ s n a b) (cut : Rat) : outranks σ s cut b a = false := by
  unfold outranks
  have := h.ab
  have := h.s_ba
  have : ¬ (σ a b + sVal s (σ b a) < σ b a) := by linarith
  simp [this]

theorem dom_out_imp (h : DomSigma σ s n a b) (cut : Rat) (x : Nat) (hx : x < n) (hxa : x ≠ a) (hxb : x ≠ b)
    (ho : outranks σ s cut b x = true) : outranks σ s cut a x = true := by
  unfold outranks at ho ⊢
  simp only [Bool.and_eq_true, bne_iff_ne, ne_eq, decide_eq_true_eq] at ho ⊢
  obtain ⟨⟨_, h1⟩, h2⟩ := ho
  have e1 := h.out x hx hxa hxb
  have e2 := h.inn x hx hxa hxb
  have e3 := h.s_anti _ _ e1
  exact ⟨⟨fun he => hxa he.symm, by linarith⟩, by linarith⟩

theorem dom_in_imp (h : DomSigma σ s n a b) (cut : Rat) (x : Nat) (hx : x < n) (hxa : x ≠ a) (hxb : x ≠ b)
    (ho : outranks σ s cut x a = true) : outranks σ s cut x b = true := by
  unfold outranks at ho ⊢
  simp only [Bool.and_eq_true, bne_iff_ne, ne_eq, decide_eq_true_eq] at ho ⊢
  obtain ⟨⟨_, h1⟩, h2⟩ := ho
  have e1 := h.out x hx hxa hxb
  have e2 := h.inn x hx hxa hxb
  have e3 := h.s_anti _ _ e2
  exact ⟨⟨hxb, by linarith⟩, by linarith⟩

theorem outranks_self (cut : Rat) (x : Nat) : outranks σ s cut x x = false := by
  simp [outranks]

theorem filter_length_le_of_imp {β : Type} (l : List β) (P Q : β → Bool) (h : ∀ x ∈ l, P x = true → Q x = true) :
    (l.filter P).length ≤ (l.filter Q).length := by
  induction l with
  | nil => simp
  | cons x l ih =>
    have ih' := ih (fun y hy => h y (by simp [hy]))
    rw [List.filter_cons, List.filter_cons]
    by_cases hp : P x = true
    · have hq := h x (by simp) hp
      simp only [hp, hq, if_true, List.length_cons]; omega
    · simp only [hp]
      by_cases hq : Q x = true
      · simp only [hq, if_true, List.length_cons, Bool.false_eq_true, if_false]; omega
      · simp only [hq, Bool.false_eq_true, if_false]; exact ih'

/-- the dominating alternative has at least the qualification of the dominated one, in every set and at
    every cut level -/
theorem dom_qualification (h : DomSigma σ s n a b) (cut : Rat) (A : List Nat) (hA : ∀ x ∈ A, x < n) :
    qualification σ s cut A b ≤ qualification σ s cut A a := by
  unfold qualification
  have h1 : (A.filter fun j => outranks σ s cut b j).length ≤ (A.filter fun j => outranks σ s cut a j).length := by
    apply filter_length_le_of_imp
    intro j hj ho
    by_cases hja : j = a
    · subst hja; rw [dom_not_ba h cut] at ho; cases ho
    · by_cases hjb : j = b
      · subst hjb; rw [outranks_self] at ho; cases ho
      · exact dom_out_imp h cut j (hA j hj) hja hjb ho
  have h2 : (A.filter fun j => outranks σ s cut j a).length ≤ (A.filter fun j => outranks σ s cut j b).length := by
    apply filter_length_le_of_imp
    intro j hj ho
    by_cases hja : j = a
    · subst hja; rw [outranks_self] at ho; cases ho
    · by_cases hjb : j = b
      · subst hjb; rw [dom_not_ba h cut] at ho; cases ho
      · exact dom_in_imp h cut j (hA j hj) hja hjb ho
  omega

theorem foldl_stepBest_ge_all (pm : Bool) (l : List Int) (b : Int) :
    ∀ x ∈ l, asGood pm x (l.foldl (stepBest pm) b) := by
  induction l generalizing b with
  | nil => intro x hx; cases hx
  | cons y l ih =>
    intro x hx
    rw [List.foldl_cons]
    rcases List.mem_cons.mp hx with rfl | hx
    · have h1 := foldl_stepBest_asGood pm l (stepBest pm b x)
      unfold stepBest at h1 ⊢
      by_cases hc : cmpOf pm b x = true
      · simp only [hc, if_true] at h1 ⊢; exact h1
      · simp only [hc] at h1 ⊢
        have := (cmpOf_iff pm b x).not.mp hc
        cases pm <;> simp_all [asGood] <;> omega
    · exact ih _ x hx

/-- every member's qualification is at most (pm) / at least (¬pm) the best one -/
theorem bestOf_bound (pm : Bool) (A : List Nat) (q : Nat → Int) (x : Nat) (hx : x ∈ A) :
    asGood pm (q x) (bestOf pm (A.map q)) := by
  cases A with
  | nil => cases hx
  | cons a0 A' =>
    rw [List.map_cons, bestOf_eq_fold]
    exact foldl_stepBest_ge_all pm (q a0 :: A'.map q) (q a0) (q x) (by
      rw [← List.map_cons]; exact List.mem_map_of_mem hx)

theorem mem_bestSet (pm : Bool) (A : List Nat) (q : Nat → Int) (x : Nat) :
    x ∈ bestSet pm A q ↔ x ∈ A ∧ q x = bestOf pm (A.map q) := by
  simp [bestSet]

/-- the best set of the max-distillation contains the dominating alternative whenever it contains the
    dominated one; the min-distillation the other way round -/
theorem dom_bestSet (q : Nat → Int) (hq : q b ≤ q a) (A : List Nat) (ha : a ∈ A) (hb : b ∈ A) :
    (b ∈ bestSet true A q → a ∈ bestSet true A q) ∧ (a ∈ bestSet false A q → b ∈ bestSet false A q) := by
  constructor
  · intro h
    rw [mem_bestSet] at h ⊢
    have := bestOf_bound true A q a ha
    simp only [asGood, if_true] at this
    exact ⟨ha, by omega⟩
  · intro h
    rw [mem_bestSet] at h ⊢
    have := bestOf_bound false A q b hb
    simp only [asGood, Bool.false_eq_true, if_false] at this
    exact ⟨hb, by omega⟩

theorem bestSet_subset (pm : Bool) (A : List Nat) (q : Nat → Int) : ∀ x ∈ bestSet pm A q, x ∈ A := by
  intro x hx; exact ((mem_bestSet pm A q x).mp hx).1

theorem narrow_subset (pm : Bool) (fuel : Nat) (A : List Nat) (lam : Rat) (C : List Nat)
    (h : narrow σ s pm fuel A lam = some C) : ∀ x ∈ C, x ∈ A := by
  induction fuel generalizing A lam with
  | zero => simp [narrow] at h
  | succ fuel ih =>
    unfold narrow at h
    split at h
    · simp only [Option.some.injEq] at h; subst h; exact fun x hx => hx
    · simp only at h
      split at h
      · intro x hx
        exact bestSet_subset pm A _ x (ih _ _ h x hx)
      · simp only [Option.some.injEq] at h; subst h
        exact bestSet_subset pm A _

/-- narrowing respects dominance -/
theorem dom_narrow (h : DomSigma σ s n a b) (fuel : Nat) (A : List Nat) (hA : ∀ x ∈ A, x < n) (lam : Rat)
    (ha : a ∈ A) (hb : b ∈ A) :
    (∀ C, narrow σ s true fuel A lam = some C → b ∈ C → a ∈ C) ∧
    (∀ C, narrow σ s false fuel A lam = some C → a ∈ C → b ∈ C) := by
  induction fuel generalizing A lam with
  | zero => constructor <;> (intro C hC; simp [narrow] at hC)
  | succ fuel ih =>
    constructor
    · intro C hC hbC
      unfold narrow at hC
      split at hC
      · simp only [Option.some.injEq] at hC; subst hC; exact ha
      · simp only at hC
        have hq := dom_qualification h (cutLevel σ s A lam) A hA
        split at hC
        · have hbB := narrow_subset true fuel _ _ C hC b hbC
          have haB := (dom_bestSet _ hq A ha hb).1 hbB
          exact (ih _ (fun x hx => hA x (bestSet_subset true A _ x hx)) _ haB hbB).1 C hC hbC
        · simp only [Option.some.injEq] at hC; subst hC
          exact (dom_bestSet _ hq A ha hb).1 hbC
    · intro C hC haC
      unfold narrow at hC
      split at hC
      · simp only [Option.some.injEq] at hC; subst hC; exact hb
      · simp only at hC
        have hq := dom_qualification h (cutLevel σ s A lam) A hA
        split at hC
        · have haB := narrow_subset false fuel _ _ C hC a haC
          have hbB := (dom_bestSet _ hq A ha hb).2 haB
          exact (ih _ (fun x hx => hA x (bestSet_subset false A _ x hx)) _ haB hbB).2 C hC haC
        · simp only [Option.some.injEq] at hC; subst hC
          exact (dom_bestSet _ hq A ha hb).2 haC

/-! ### the distillation respects dominance -/

theorem lookup_const_some (C : List Nat) (k : Int) (x : Nat) (c : Int)
    (h : (C.map fun i => (i, k)).lookup x = some c) : x ∈ C ∧ c = k := by
  by_cases hx : x ∈ C
  · rw [lookup_map_const_mem C k x hx] at h
    simp only [Option.some.injEq] at h
    exact ⟨hx, h.symm⟩
  · rw [lookup_map_const_not_mem C k x hx] at h; cases h

/-- every class number handed out by `distill … k` is at least `k` -/
theorem distill_lookup_ge (pm : Bool) (fN fo : Nat) (A : List Nat) (k : Int) (asg : List (Nat × Int))
    (h : distill σ s pm fN fo A k = some asg) : ∀ x c, asg.lookup x = some c → k ≤ c := by
  induction fo generalizing A k asg with
  | zero => simp [distill] at h
  | succ fo ih =>
    unfold distill at h
    split at h
    · simp only [Option.some.injEq] at h; subst h
      intro x c hc; simp at hc
    · simp only [Option.bind_eq_bind] at h
      cases hn : narrow σ s pm fN A (maxOr0 ((pairs A).map fun p => σ p.1 p.2)) with
      | none => rw [hn] at h; simp at h
      | some C =>
        rw [hn] at h
        simp only [Option.bind_some] at h
        split at h
        · simp only [Option.some.injEq] at h; subst h
          intro x c hc
          have := (lookup_const_some C k x c hc).2
          omega
        · cases hd : distill σ s pm fN fo (A.filter fun i => !C.contains i) (k + 1) with
          | none => rw [hd] at h; simp at h
          | some further =>
            rw [hd] at h
            simp only [Option.bind_some, Option.some.injEq] at h
            subst h
            intro x c hc
            rw [List.lookup_append] at hc
            cases hl : (C.map fun i => (i, k)).lookup x with
            | some c' =>
              rw [hl] at hc
              simp only [Option.some_or, Option.some.injEq] at hc
              have := (lookup_const_some C k x c' hl).2
              omega
            | none =>
              rw [hl] at hc
              simp only [Option.none_or] at hc
              have := ih _ _ _ hd x c hc
              omega

/-- **dominance at the level of the declarative distillation**: in the max-distillation the dominating
    alternative is classed no later than the dominated one; in the min-distillation no earlier -/
theorem dom_distill (h : DomSigma σ s n a b) (fN fo : Nat) (A : List Nat) (hA : ∀ x ∈ A, x < n) (k : Int)
    (ha : a ∈ A) (hb : b ∈ A) :
    (∀ asg ca cb, distill σ s true fN fo A k = some asg → asg.lookup a = some ca → asg.lookup b = some cb → ca ≤ cb) ∧
    (∀ asg ca cb, distill σ s false fN fo A k = some asg → asg.lookup a = some ca → asg.lookup b = some cb → cb ≤ ca) := by
  induction fo generalizing A k with
  | zero => constructor <;> (intro asg ca cb hd; simp [distill] at hd)
  | succ fo ih =>
    have key : ∀ pm : Bool, ∀ asg ca cb, distill σ s pm fN (fo + 1) A k = some asg →
        asg.lookup a = some ca → asg.lookup b = some cb → (if pm then ca ≤ cb else cb ≤ ca) := by
      intro pm asg ca cb hd hca hcb
      have hge := distill_lookup_ge pm fN (fo + 1) A k asg hd
      unfold distill at hd
      split at hd
      · simp only [Option.some.injEq] at hd; subst hd; simp at hca
      · simp only [Option.bind_eq_bind] at hd
        cases hn : narrow σ s pm fN A (maxOr0 ((pairs A).map fun p => σ p.1 p.2)) with
        | none => rw [hn] at hd; simp at hd
        | some C =>
          rw [hn] at hd
          simp only [Option.bind_some] at hd
          have hnar := dom_narrow h fN A hA (maxOr0 ((pairs A).map fun p => σ p.1 p.2)) ha hb
          split at hd
          · simp only [Option.some.injEq] at hd; subst hd
            have e1 := (lookup_const_some C k a ca hca).2
            have e2 := (lookup_const_some C k b cb hcb).2
            cases pm <;> simp <;> omega
          · cases hdf : distill σ s pm fN fo (A.filter fun i => !C.contains i) (k + 1) with
            | none => rw [hdf] at hd; simp at hd
            | some further =>
              rw [hdf] at hd
              simp only [Option.bind_some, Option.some.injEq] at hd
              subst hd
              have hfge := distill_lookup_ge pm fN fo _ (k + 1) further hdf
              rw [List.lookup_append] at hca hcb
              by_cases haC : a ∈ C <;> by_cases hbC : b ∈ C
              · rw [lookup_map_const_mem C k a haC] at hca
                rw [lookup_map_const_mem C k b hbC] at hcb
                simp only [Option.some_or, Option.some.injEq] at hca hcb
                cases pm <;> simp <;> omega
              · -- a classed now, b later
                rw [lookup_map_const_mem C k a haC] at hca
                rw [lookup_map_const_not_mem C k b hbC] at hcb
                simp only [Option.some_or, Option.some.injEq, Option.none_or] at hca hcb
                have := hfge b cb hcb
                cases pm
                · -- min-distillation: a ∈ C forces b ∈ C
                  exact absurd (hnar.2 C hn haC) hbC
                · simp; omega
              · -- b classed now, a later
                rw [lookup_map_const_not_mem C k a haC] at hca
                rw [lookup_map_const_mem C k b hbC] at hcb
                simp only [Option.some_or, Option.some.injEq, Option.none_or] at hca hcb
                have := hfge a ca hca
                cases pm
                · simp; omega
                · exact absurd (hnar.1 C hn hbC) haC
              · -- both later
                rw [lookup_map_const_not_mem C k a haC] at hca
                rw [lookup_map_const_not_mem C k b hbC] at hcb
                simp only [Option.none_or] at hca hcb
                have har : a ∈ A.filter fun i => !C.contains i := List.mem_filter.mpr ⟨ha, by simpa using haC⟩
                have hbr : b ∈ A.filter fun i => !C.contains i := List.mem_filter.mpr ⟨hb, by simpa using hbC⟩
                have hAr : ∀ x ∈ A.filter (fun i => !C.contains i), x < n := fun x hx => hA x (List.mem_filter.mp hx).1
                have := ih _ hAr (k + 1) har hbr
                cases pm
                · simpa using this.2 further ca cb hdf hca hcb
                · simpa using this.1 further ca cb hdf hca hcb
    exact ⟨fun asg ca cb hd h1 h2 => by simpa using key true asg ca cb hd h1 h2,
      fun asg ca cb hd h1 h2 => by simpa using key false asg ca cb hd h1 h2⟩

theorem mapM_option_getElem {β γ : Type} (l : List β) (f : β → Option γ) (r : List γ) (h : l.mapM f = some r) :
    r.length = l.length ∧ ∀ i (hi : i < l.length) (hr : i < r.length), f l[i] = some r[i] := by
  induction l generalizing r with
  | nil =>
    simp only [List.mapM_nil, Option.pure_def, Option.some.injEq] at h
    subst h
    exact ⟨rfl, fun i hi => by simp at hi⟩
  | cons x l ih =>
    rw [List.mapM_cons] at h
    cases hx : f x with
    | none => rw [hx] at h; simp at h
    | some y =>
      rw [hx] at h
      cases hl : l.mapM f with
      | none => rw [hl] at h; simp at h
      | some ys =>
        rw [hl] at h
        simp only [Option.pure_def, Option.bind_eq_bind, Option.bind_some, Option.some.injEq] at h
        subst h
        obtain ⟨i1, i2⟩ := ih ys hl
        refine ⟨by simp [i1], fun i hi hr => ?_⟩
        cases i with
        | zero => simpa using hx
        | succ i => simpa using i2 i (by simpa using hi) (by simpa using hr)

/-- dominance on the class vectors of the spec -/
theorem dom_classes (m : Matrix Rat) (h : DomSigma (sigmaOf m) s m.size a b) (ha : a < m.size) (hb : b < m.size) :
    (∀ cl, classes m s true = some cl → cl.getD a 0 ≤ cl.getD b 0) ∧
    (∀ cl, classes m s false = some cl → cl.getD b 0 ≤ cl.getD a 0) := by
  have main : ∀ pm : Bool, ∀ cl, classes m s pm = some cl →
      ∃ asg, distill (sigmaOf m) s pm (rankFuel m.size) (rankFuel m.size) (List.range m.size) 1 = some asg ∧
        asg.lookup a = some (cl.getD a 0) ∧ asg.lookup b = some (cl.getD b 0) := by
    intro pm cl hcl
    unfold classes at hcl
    simp only [Option.bind_eq_bind] at hcl
    cases hd : distill (sigmaOf m) s pm (rankFuel m.size) (rankFuel m.size) (List.range m.size) 1 with
    | none => rw [hd] at hcl; simp at hcl
    | some asg =>
      rw [hd] at hcl
      simp only [Option.bind_some] at hcl
      obtain ⟨l1, l2⟩ := mapM_option_getElem _ _ cl hcl
      simp only [List.length_range] at l1 l2
      refine ⟨asg, rfl, ?_, ?_⟩
      · have := l2 a ha (by omega)
        simp only [List.getElem_range] at this
        rw [this, List.getD_eq_getElem?_getD, List.getElem?_eq_getElem (by omega)]; rfl
      · have := l2 b hb (by omega)
        simp only [List.getElem_range] at this
        rw [this, List.getD_eq_getElem?_getD, List.getElem?_eq_getElem (by omega)]; rfl
  have hA : ∀ x ∈ List.range m.size, x < m.size := fun x hx => List.mem_range.mp hx
  have hd := dom_distill h (rankFuel m.size) (rankFuel m.size) (List.range m.size) hA 1
    (List.mem_range.mpr ha) (List.mem_range.mpr hb)
  constructor
  · intro cl hcl
    obtain ⟨asg, h1, h2, h3⟩ := main true cl hcl
    exact hd.1 asg _ _ h1 h2 h3
  · intro cl hcl
    obtain ⟨asg, h1, h2, h3⟩ := main false cl hcl
    exact hd.2 asg _ _ h1 h2 h3

/-- dominance on the two index vectors of the spec: `asc a ≤ asc b` and `desc a ≤ desc b` -/
theorem dom_spec_indices (m : Matrix Rat) (h : DomSigma (sigmaOf m) s m.size a b) (ha : a < m.size) (hb : b < m.size) :
    (∀ asc, specAscending m s = some asc → asc.getD a 0 ≤ asc.getD b 0) ∧
    (∀ desc, specDescending m s = some desc → desc.getD a 0 ≤ desc.getD b 0) := by
  obtain ⟨h1, h2⟩ := dom_classes m h ha hb
  constructor
  · exact h1
  · intro desc hdesc
    unfold specDescending at hdesc
    simp only [Option.bind_eq_bind] at hdesc
    cases hc : classes m s false with
    | none => rw [hc] at hdesc; simp at hdesc
    | some cl =>
      rw [hc] at hdesc
      simp only [Option.bind_some, Option.some.injEq] at hdesc
      subst hdesc
      have := h2 cl hc
      obtain ⟨l1, _⟩ : cl.length = m.size ∧ True := by
        unfold classes at hc
        simp only [Option.bind_eq_bind] at hc
        cases hd : distill (sigmaOf m) s false (rankFuel m.size) (rankFuel m.size) (List.range m.size) 1 with
        | none => rw [hd] at hc; simp at hc
        | some asg =>
          rw [hd] at hc
          simp only [Option.bind_some] at hc
          exact ⟨by simpa using (mapM_option_getElem _ _ cl hc).1, trivial⟩
      simp only [List.getD_eq_getElem?_getD, List.getElem?_map] at this ⊢
      rw [List.getElem?_eq_getElem (by omega : a < cl.length), List.getElem?_eq_getElem (by omega : b < cl.length)] at this ⊢
      simp only [Option.map_some, Option.getD_some] at this ⊢
      omega

/-! ### dominance for the whole method -/

theorem distInDomain_antitone (s : LinFun Rat) (h : distInDomain s = true) :
    ∀ u v : Rat, u ≤ v → sVal s v ≤ sVal s u := by
  intro u v huv
  unfold distInDomain at h
  simp only [Bool.and_eq_true, decide_eq_true_eq] at h
  obtain ⟨⟨_, _⟩, ha⟩ := h
  unfold sVal LinFun.eval
  split
  · simp
  · simp only
    nlinarith

theorem credibilityMatrix_len {α : Type} [Num α] (alts : List (Alt α)) (crits : List (Crit α)) (ec : KMap (ECrit α))
    (m : Matrix α) (h : credibilityMatrix alts crits ec = .ok m) : m.data.length = m.size * m.size := by
  obtain ⟨rows, hr, rfl⟩ := credibilityMatrix_rows alts crits ec m h
  simp only
  have hlen : rows.length = alts.length := by
    rw [mapM_except_length _ _ _ hr]; simp
  have hrows : ∀ r ∈ rows, (id r : List α).length = alts.length := by
    intro r hr0
    obtain ⟨k, hk, rfl⟩ := List.mem_iff_getElem.mp hr0
    have hk' : k < alts.zipIdx.length := by rw [hlen] at hk; simpa using hk
    have := mapM_except_getElem _ _ _ hr k hk'
    rw [id, mapM_except_length _ _ _ this]; simp
  have := length_flatMap_uniform (id : List α → List α) alts.length rows hrows
  rw [List.flatMap_id] at this
  rw [this, hlen]

/-- **C06 (a) for the model, end to end**: if alternative `ia` is at least as good as alternative `ib` on every
    criterion, then in the answer of `ElectreIII` neither index of `ia` is behind the one of `ib`, and `ia`
    lists `ib` in `betterThanOrSameAs` -/
theorem electreIII_dominance (alts : List (Alt Rat)) (crits : List (Crit Rat)) (hne : crits ≠ [])
    (ec : KMap (ECrit Rat)) (hg : GuardAll crits ec) (dist : LinFun Rat) (hs : distInDomain dist = true)
    (ia ib : Nat) (hia : ia < alts.length) (hib : ib < alts.length) (hab : ia ≠ ib)
    (hdom : Dominates crits alts[ia] alts[ib])
    (out : List (Linked (Int × Int))) (h : electreIII alts crits ec dist = .ok out) :
    ∃ (h1 : ia < out.length) (h2 : ib < out.length),
      out[ia].ev.1 ≤ out[ib].ev.1 ∧ out[ia].ev.2 ≤ out[ib].ev.2 ∧ alts[ib].id ∈ out[ia].links := by
  unfold electreIII at h
  simp only [bind, Except.bind] at h
  split at h
  · cases h
  · rename_i m hm
    split at h
    · cases h
    · rename_i asc hasc
      split at h
      · cases h
      · rename_i desc hdesc
        simp only [pure, Except.pure, Except.ok.injEq] at h
        subst h
        have hsz := credibilityMatrix_size alts crits ec m hm
        have hlen := credibilityMatrix_len alts crits ec m hm
        have hal : asc.length = (alts.map (·.id)).length := by
          rw [rank_length m dist _ asc hasc, hsz]; simp
        have hdl : desc.length = (alts.map (·.id)).length := by
          have : desc.length = m.size := by
            unfold rankDescending at hdesc
            simp only [bind, Except.bind] at hdesc
            split at hdesc
            · cases hdesc
            · rename_i r hr
              split at hdesc
              · cases hdesc
              · simp only [pure, Except.pure, Except.ok.injEq] at hdesc
                subst hdesc
                simp [rank_length m dist _ r hr]
          rw [this, hsz]; simp
        -- dominance on the credibility matrix
        obtain ⟨d1, d2⟩ := credibilityMatrix_dominance alts crits hne ec hg m hm ib ia hib hia hdom
        have hrng := credibilityMatrix_range alts crits hne ec hg m hm
        have hD : DomSigma (sigmaOf m) dist m.size ia ib := by
          have hne1 : (ia == ib) = false := by simpa using hab
          have hne2 : (ib == ia) = false := by simpa using fun h => hab h.symm
          refine ⟨hab, ?_, ?_, ?_, ?_, distInDomain_antitone dist hs⟩
          · intro x hx hxa hxb
            rw [hsz] at hx
            have hx1 : (ib == x) = false := by simpa using fun h => hxb h.symm
            have hx2 : (ia == x) = false := by simpa using fun h => hxa h.symm
            simp only [sigmaOf, hx1, hx2, Bool.false_eq_true, if_false]
            exact (d2 x hx hxb hxa).1
          · intro x hx hxa hxb
            rw [hsz] at hx
            have hx1 : (x == ia) = false := by simpa using hxa
            have hx2 : (x == ib) = false := by simpa using hxb
            simp only [sigmaOf, hx1, hx2, Bool.false_eq_true, if_false]
            exact (d2 x hx hxb hxa).2
          · simp only [sigmaOf, hne1, hne2, Bool.false_eq_true, if_false]
            rw [d1 (fun h => hab h.symm)]
            exact (hrng ib ia hib hia).2
          · simp only [sigmaOf, hne2, Bool.false_eq_true, if_false]
            exact distInDomain_nonneg dist hs _ (hrng ib ia hib hia).1 (hrng ib ia hib hia).2
        have hia' : ia < m.size := by rw [hsz]; exact hia
        have hib' : ib < m.size := by rw [hsz]; exact hib
        obtain ⟨s1, s2⟩ := dom_spec_indices m hD hia' hib'
        have e1 := s1 asc (rankAscending_refines m dist hlen asc hasc)
        have e2 := s2 desc (rankDescending_refines m dist hlen desc hdesc)
        have hia2 : ia < (alts.map (·.id)).length := by simpa using hia
        have hib2 : ib < (alts.map (·.id)).length := by simpa using hib
        have hol := el_evaluateRanking_length asc desc (alts.map (·.id)) hal hdl
        obtain ⟨_, gev, glinks⟩ := el_evaluateRanking_getElem asc desc (alts.map (·.id)) hal hdl ia hia2
        obtain ⟨_, gev', _⟩ := el_evaluateRanking_getElem asc desc (alts.map (·.id)) hal hdl ib hib2
        have ha1 : ia < asc.length := by rw [hal]; exact hia2
        have hb1 : ib < asc.length := by rw [hal]; exact hib2
        have ha2 : ia < desc.length := by rw [hdl]; exact hia2
        have hb2 : ib < desc.length := by rw [hdl]; exact hib2
        rw [List.getD_eq_getElem?_getD, List.getD_eq_getElem?_getD, List.getElem?_eq_getElem ha1,
          List.getElem?_eq_getElem hb1] at e1
        rw [List.getD_eq_getElem?_getD, List.getD_eq_getElem?_getD, List.getElem?_eq_getElem ha2,
          List.getElem?_eq_getElem hb2] at e2
        simp only [Option.getD_some] at e1 e2
        refine ⟨by rw [hol]; exact hia2, by rw [hol]; exact hib2, ?_, ?_, ?_⟩
        · rw [gev, gev']; exact e1
        · rw [gev, gev']; exact e2
        · rw [glinks]
          exact ⟨ib, hib2, fun h => hab h.symm, by simp, e1, e2⟩

end Rdm
