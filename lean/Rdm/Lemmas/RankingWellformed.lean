import Rdm.Lemmas.RankingBasic
import Rdm.Lemmas.LinksSpec
namespace Rdm
variable {α : Type} [Num α]

/-- one unfolding of `positionLoop` with the `let` named -/
theorem positionLoop_cons (a r : Scored α) (rest : List (Scored α)) (f : Bool) (n : α) :
    positionLoop a (r :: rest) f n =
      if (r.v == a.v && r.id != a.id) = true then r.id :: positionLoop a rest f n
      else if r.v < a.v then
        (if r.v < (if f then n else r.v) then [] else r.id :: positionLoop a rest true (if f then n else r.v))
      else positionLoop a rest f n := by
  rw [positionLoop]

theorem positionLoop_sublist (a : Scored α) :
    ∀ (l : List (Scored α)) (f : Bool) (n : α), (positionLoop a l f n).Sublist (l.map (·.id))
  | [], _, _ => by simp [positionLoop]
  | r :: rest, f, n => by
    rw [positionLoop_cons]
    generalize (if f then n else r.v) = n'
    simp only [List.map_cons]
    split
    · exact (positionLoop_sublist a rest _ _).cons_cons _
    · split
      · split
        · exact List.nil_sublist _
        · exact (positionLoop_sublist a rest _ _).cons_cons _
      · exact (positionLoop_sublist a rest _ _).cons _

theorem positionLoop_mem (a : Scored α) :
    ∀ (l : List (Scored α)) (f : Bool) (n : α) (x : String), x ∈ positionLoop a l f n →
      ∃ r ∈ l, r.id = x ∧ ((r.v == a.v && r.id != a.id) = true ∨ r.v < a.v)
  | [], _, _, x, h => by simp [positionLoop] at h
  | r :: rest, f, n, x, h => by
    rw [positionLoop_cons] at h
    generalize (if f then n else r.v) = n' at h
    split at h
    · rename_i hc
      rcases List.mem_cons.mp h with rfl | h
      · exact ⟨r, by simp, rfl, Or.inl hc⟩
      · obtain ⟨r', hr', e, hh⟩ := positionLoop_mem a rest _ _ x h
        exact ⟨r', by simp [hr'], e, hh⟩
    · split at h
      · rename_i hc
        split at h
        · simp at h
        · rcases List.mem_cons.mp h with rfl | h
          · exact ⟨r, by simp, rfl, Or.inr hc⟩
          · obtain ⟨r', hr', e, hh⟩ := positionLoop_mem a rest _ _ x h
            exact ⟨r', by simp [hr'], e, hh⟩
      · obtain ⟨r', hr', e, hh⟩ := positionLoop_mem a rest _ _ x h
        exact ⟨r', by simp [hr'], e, hh⟩

/-- two members of a list with distinct ids that share an id are the same member -/
theorem eq_of_id_eq {β : Type} (f : β → String) : ∀ {l : List β}, (l.map f).Nodup → ∀ {a b : β},
    a ∈ l → b ∈ l → f a = f b → a = b
  | [], _, _, _, ha, _, _ => by simp at ha
  | x :: xs, hnd, a, b, ha, hb, h => by
    simp only [List.map_cons, List.nodup_cons, List.mem_map, not_exists, not_and] at hnd
    rcases List.mem_cons.mp ha with rfl | ha' <;> rcases List.mem_cons.mp hb with rfl | hb'
    · rfl
    · exact absurd h.symm (hnd.1 b hb')
    · exact absurd h (hnd.1 a ha')
    · exact eq_of_id_eq f hnd.2 ha' hb' h

theorem entriesOf_wellformed (hirr : ∀ x : α, ¬ x < x) (s : List (Scored α))
    (hnd : (s.map (·.id)).Nodup) :
    ∀ e ∈ entriesOf s, (∀ x ∈ e.links, x ∈ (entriesOf s).map (·.id)) ∧ e.id ∉ e.links ∧ e.links.Nodup := by
  intro e he
  unfold entriesOf at he
  obtain ⟨a, ha, rfl⟩ := List.mem_map.mp he
  have hsub : (positionInRanking a s).Sublist (s.map (·.id)) := positionLoop_sublist a s _ _
  refine ⟨fun x hx => ?_, ?_, hsub.nodup hnd⟩
  · rw [entriesOf_ids]; exact hsub.subset hx
  · intro hself
    obtain ⟨r, hr, e, hh⟩ := positionLoop_mem a s _ _ _ hself
    have : r = a := eq_of_id_eq (·.id) hnd hr ha e
    subst this
    rcases hh with hh | hh
    · simp at hh
    · exact hirr _ hh

end Rdm
