/-
  Lemmas for the end-to-end model, part 6: value persistence.  The biases that do not deliberately rewrite
  values — criteria omission, concealment, newCriterion anchoring, first-bias mixing — leave the value of every
  criterion that is current before and after the step untouched, for every alternative (so whatever an
  earlier bias wrote stays in force).
-/
import Rdm.Lemmas.DecideCoherent
namespace Rdm
set_option linter.unusedSectionVars false
variable {α : Type} [Num α]

/-- every alternative of `res` is an alternative of `cur` (same id) whose values for the criteria current in
    both states are unchanged -/
def ValuesKept (cur res : DMP α) : Prop :=
  ∀ a' ∈ res.co ++ res.nc, ∃ a ∈ cur.co ++ cur.nc, a'.id = a.id ∧
    ∀ c ∈ res.crit, c ∈ cur.crit → a'.vals.get? c.id = a.vals.get? c.id

theorem decideLookup_append_of_has {β : Type} {m n : KMap β} {k : String} (h : m.has k = true) :
    (m ++ n).get? k = m.get? k := by
  induction m with
  | nil => simp [KMap.has, List.lookup] at h
  | cons p m ih =>
    obtain ⟨k', v'⟩ := p
    unfold KMap.get? KMap.has at *
    by_cases hk : k = k'
    · subst hk; simp [List.lookup]
    · have hne : (k == k') = false := by simpa using hk
      simp only [List.cons_append, List.lookup, hne] at h ⊢
      exact ih h

theorem decideOmission_values {eps : α} {c : SplitCond α} {name : String} {cur res : DMP α} {d : Draws α}
    {om : List (Crit α)} (h : omissionApply eps c name cur d = .ok (res, om)) : ValuesKept cur res := by
  obtain ⟨_, ordered, _, hc⟩ := BiasA.omissionApply_ok h
  obtain ⟨_, _, hco, hnc⟩ := BiasA.omitCriteria_ok hc
  have key : ∀ {l r : List (Alt α)}, List.Forall₂ (BiasA.RestrictedTo res.crit) l r → ∀ a' ∈ r,
      ∃ a ∈ l, a'.id = a.id ∧ ∀ c ∈ res.crit, c ∈ cur.crit → a'.vals.get? c.id = a.vals.get? c.id := by
    intro l r hf a' ha'
    obtain ⟨a, ha, hr⟩ := BiasA.forall₂_mem_right hf a' ha'
    exact ⟨a, ha, hr.1, fun c hc _ => hr.2.2 c hc⟩
  intro a' ha'
  rcases List.mem_append.mp ha' with ha' | ha'
  · obtain ⟨a, ha, e⟩ := key (BiasA.preserveCriteria_ok hco) a' ha'
    exact ⟨a, List.mem_append_left _ ha, e⟩
  · obtain ⟨a, ha, e⟩ := key (BiasA.preserveCriteria_ok hnc) a' ha'
    exact ⟨a, List.mem_append_right _ ha, e⟩

theorem decideConceal_values {eps : α} {orig cur : DMP α} {p : Props α} {rd g : Draws α} {res : DMP α}
    {rep : ConcealReport α} (hc : Coherent cur) (h : conceal eps orig cur p rd g = .ok (res, rep)) :
    ValuesKept cur res := by
  obtain ⟨_, _, _, _, _, _, hvals, _⟩ := conceal_ok h
  intro a' ha'
  obtain ⟨a, ha, v, hid, hv, _, _⟩ := hvals a' ha'
  refine ⟨a, ha, eq_of_beq hid, ?_⟩
  intro c _ hcur
  rw [hv]
  exact decideLookup_append_of_has (hc.values a ha c hcur)

theorem decideMixingFirst_values {eps : α} {cur : DMP α} {p : Props α} {rd g : Draws α} {res : DMP α}
    {rep : Option (MixReport α)} (hc : Coherent cur) (h : mixing eps cur cur p rd g = .ok (res, rep)) :
    ValuesKept cur res := by
  rcases decideMixing_cases h with ⟨_, rfl, _⟩ | ⟨_, _, _, _, _, hcore⟩
  · intro a' ha'
    exact ⟨a', ha', rfl, fun _ _ _ => rfl⟩
  · obtain ⟨r, _, _, _, _, _, _, _, hvals, _⟩ := mixingCore_ok hcore
    intro a' ha'
    obtain ⟨a, ha, v, hid, hv, _⟩ := hvals a' ha'
    refine ⟨a, ha, eq_of_beq hid, ?_⟩
    intro c _ hcur
    rw [hv]
    exact decideLookup_append_of_has (hc.values a ha c hcur)

theorem decideNewCriterion_values {eps : α} {d : DMP α} {diffs : List (AltDiffs α)} {b : Bounding α}
    {sc : KMap (Scale α)} {params : Props α} {rd : Draws α} {gens : List (Draws α)} {res : DMP α}
    {r : ApplierResult α} (hc : Coherent d) (hdiffs : ∀ q ∈ diffs, q.1 ∈ d.all)
    (h : newCriterionApply eps d diffs b sc params rd gens = .ok (res, r)) : ValuesKept d res := by
  obtain ⟨_, _, _, _, _, _, _, _, _, _, _, _, hvals⟩ := newCriterionApply_ok h
  intro a' ha'
  obtain ⟨q, hq, hid, news, hv, _⟩ := hvals a' ha'
  have hmem : q.1 ∈ d.co ++ d.nc := by simpa [DMP.all] using hdiffs q hq
  refine ⟨q.1, hmem, hid, ?_⟩
  intro c _ hcur
  rw [hv]
  exact decideLookup_append_of_has (hc.values q.1 hmem c hcur)

/-! ### the excluded class: criteria mixing after an addition -/

/-- Criteria mixing rebuilds every alternative from `original`.  If `current` holds a criterion `k` the
    alternatives of `original` have no value for (one added by an earlier concealment or anchoring), the state
    mixing hands on is NOT coherent: every alternative lacks the value of `k`. -/
theorem decideMixing_after_addition_incoherent {eps : α} {orig cur : DMP α} {p : Props α} {rd g : Draws α}
    {res : DMP α} {rep : Option (MixReport α)} {k : Crit α}
    (h : mixing eps orig cur p rd g = .ok (res, rep)) (h2 : 2 ≤ cur.crit.length) (hk : k ∈ cur.crit)
    (hmiss : ∀ a ∈ orig.co ++ orig.nc, a.vals.has k.id = false) (hne : cur.co ++ cur.nc ≠ []) :
    ¬ Coherent res := by
  rcases decideMixing_cases h with ⟨hlt, _, _⟩ | ⟨_, _, _, _, _, hcore⟩
  · omega
  · obtain ⟨r, _, _, _, ⟨target, hcr⟩, hfresh, hco, hnc, hvals, _⟩ := mixingCore_ok hcore
    intro hc
    -- some alternative exists
    have hlen : (res.co ++ res.nc).length = (cur.co ++ cur.nc).length := by
      have e1 := congrArg List.length hco
      have e2 := congrArg List.length hnc
      simp only [List.length_map] at e1 e2
      simp [e1, e2]
    obtain ⟨a', ha'⟩ : ∃ a', a' ∈ res.co ++ res.nc := by
      cases hl : res.co ++ res.nc with
      | nil =>
        rw [hl] at hlen
        exact absurd (List.eq_nil_of_length_eq_zero hlen.symm) hne
      | cons x xs => exact ⟨x, by simp⟩
    obtain ⟨a, ha, v, _, hv, _⟩ := hvals a' ha'
    have hhas := hc.values a' ha' k (by rw [hcr]; exact List.mem_append_left _ hk)
    rw [hv, KMap.has_append] at hhas
    rcases hhas with hhas | hhas
    · rw [hmiss a ha] at hhas; cases hhas
    · have hkn := hfresh k hk
      rw [KMap.has_iff_mem_keys] at hhas
      simp only [KMap.keys, List.map_cons, List.map_nil, List.mem_singleton] at hhas
      simp [hhas] at hkn

end Rdm
