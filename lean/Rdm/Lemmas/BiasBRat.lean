/-
  Arithmetic facts about the `Rat` instance of the concealment / mixing / listener primitives.
-/
import Mathlib.Tactic.Linarith
import Mathlib.Tactic.Ring
import Mathlib.Tactic.Positivity
import Mathlib.Tactic.FieldSimp
import Mathlib.Algebra.Order.Floor.Defs
import Rdm.Lemmas.NumRat
import Rdm.Lemmas.BiasBExcept
import Rdm.Model.BiasesB
namespace Rdm

/-! ### bounding -/

/-- bounding switched off (`allowedValuesRangeScaling ≤ 0`, negatives allowed) is the identity -/
theorem bound_off (b : Bounding Rat) (range : Rat × Rat) (x : Rat)
    (hs : ¬ (0 : Rat) < b.scaling) (hn : b.nonNeg = false) : b.bound range x = x := by
  unfold Bounding.bound
  simp only [Num.zero_rat, hn, Bool.false_and]
  simp [hs]

/-- the range a positive `allowedValuesRangeScaling` clamps into -/
def allowedRange (b : Bounding Rat) (range : Rat × Rat) : Rat × Rat :=
  if b.scaling == (1 : Rat) then range else scaleEqually range b.scaling

/-- with a positive scaling every bounded value lies in the allowed range (when that range is ordered) -/
theorem bound_in_allowed (b : Bounding Rat) (range : Rat × Rat) (x : Rat) (hs : (0 : Rat) < b.scaling)
    (hr : (allowedRange b range).1 ≤ (allowedRange b range).2) :
    (allowedRange b range).1 ≤ b.bound range x ∧ b.bound range x ≤ (allowedRange b range).2 := by
  unfold Bounding.bound
  simp only [Num.zero_rat, Num.one_rat, hs, if_true]
  unfold allowedRange at hr ⊢
  generalize (if b.scaling == (1 : Rat) then range else scaleEqually range b.scaling) = r at hr ⊢
  generalize (if (b.nonNeg && decide (x < 0)) = true then (0 : Rat) else x) = y
  split_ifs <;> constructor <;> linarith

/-- scaling about the centre keeps an ordered range ordered for a non-negative factor -/
theorem scaleEqually_ordered (r : Rat × Rat) (s : Rat) (hr : r.1 ≤ r.2) (hs : 0 ≤ s) :
    (scaleEqually r s).1 ≤ (scaleEqually r s).2 := by
  unfold scaleEqually
  simp only [Num.one_rat]
  have : 0 ≤ (r.2 - r.1) / (1 + 1) * s := by
    apply mul_nonneg _ hs
    apply div_nonneg <;> linarith
  linarith

/-! ### concealment -/

/-- a concealed value before bounding lies in the new criterion's range `[lo, hi]` -/
theorem concealValue_in_range (b : Bounding Rat) (lo hi u : Rat)
    (hs : ¬ (0 : Rat) < b.scaling) (hn : b.nonNeg = false) (hr : lo ≤ hi) (hu0 : 0 ≤ u) (hu1 : u < 1) :
    lo ≤ concealValue b (lo, hi) u ∧ concealValue b (lo, hi) u ≤ hi := by
  unfold concealValue
  rw [bound_off b _ _ hs hn]
  constructor <;> nlinarith

/-! ### mixing -/

theorem truncInt_nonneg (x : Rat) (hx : 0 ≤ x) : truncInt x = x.floor := by
  unfold truncInt
  simp only [Num.zero_rat, Num.floorInt_rat]
  rw [if_neg (by linarith)]

theorem floor_mul_bounds (u : Rat) (n : Int) (hu0 : 0 ≤ u) (hu1 : u < 1) (hn : 0 < n) :
    0 ≤ (u * (n : Rat)).floor ∧ (u * (n : Rat)).floor < n := by
  have hnq : (0 : Rat) < (n : Rat) := by exact_mod_cast hn
  constructor
  · rw [Rat.le_floor_iff]; simp; positivity
  · rw [Rat.floor_lt_iff]; nlinarith

/-- the index arithmetic of `selectCriteriaToMix`: for `n ≥ 2` criteria and draws in `[0,1)` both
    indices are in range and different -/
theorem mixIndices_distinct (n : Nat) (u1 u2 : Rat) (hn : 2 ≤ n)
    (h10 : 0 ≤ u1) (h11 : u1 < 1) (h20 : 0 ≤ u2) (h21 : u2 < 1) :
    0 ≤ (mixIndices n u1 u2).1 ∧ (mixIndices n u1 u2).1 < n ∧
    0 ≤ (mixIndices n u1 u2).2 ∧ (mixIndices n u1 u2).2 < n ∧
    (mixIndices n u1 u2).1 ≠ (mixIndices n u1 u2).2 := by
  unfold mixIndices
  have hnpos : (0 : Int) < (n : Int) := by omega
  have hx1 : (0 : Rat) ≤ u1 * Num.ofNat n := by
    simp only [Num.ofNat, Num.ofInt_rat]; positivity
  have hx2 : (0 : Rat) ≤ u2 * Num.ofInt ((n : Int) - 2) := by
    simp only [Num.ofInt_rat]
    have : (0 : Rat) ≤ (((n : Int) - 2 : Int) : Rat) := by exact_mod_cast (by omega : (0 : Int) ≤ (n : Int) - 2)
    positivity
  rw [truncInt_nonneg _ hx1, truncInt_nonneg _ hx2]
  simp only [Num.ofNat, Num.ofInt_rat]
  obtain ⟨a0, a1⟩ := floor_mul_bounds u1 (Int.ofNat n) h10 h11 hnpos
  -- the offset lies in [1, n-1]
  have hoff : 1 ≤ (u2 * (((n : Int) - 2 : Int) : Rat)).floor + 1 ∧
      (u2 * (((n : Int) - 2 : Int) : Rat)).floor + 1 < (n : Int) := by
    by_cases h2 : (n : Int) - 2 = 0
    · have hf0 : (0 : Rat).floor = 0 := by rfl
      rw [h2]; simp [hf0]; omega
    · have hpos : (0 : Int) < (n : Int) - 2 := by omega
      obtain ⟨b0, b1⟩ := floor_mul_bounds u2 ((n : Int) - 2) h20 h21 hpos
      omega
  set i1 := (u1 * ((Int.ofNat n : Int) : Rat)).floor with hi1
  set off := (u2 * (((n : Int) - 2 : Int) : Rat)).floor + 1 with hoffdef
  have hi1n : i1 < (n : Int) := a1
  refine ⟨a0, hi1n, Int.emod_nonneg _ (by omega), Int.emod_lt_of_pos _ hnpos, ?_⟩
  intro heq
  have h1 : i1 % (n : Int) = i1 := Int.emod_eq_of_lt a0 hi1n
  have h2 : (i1 + off) % (n : Int) = i1 % (n : Int) := by rw [h1]; exact heq.symm
  rw [Int.emod_eq_emod_iff_emod_sub_eq_zero] at h2
  have h3 : (i1 + off - i1) = off := by ring
  rw [h3, Int.emod_eq_of_lt (by omega) hoff.2] at h2
  omega

/-- a mixed value lies between its two components for a ratio in [0,1] -/
theorem mixValue_between (ρ x y : Rat) (h0 : 0 ≤ ρ) (h1 : ρ ≤ 1) :
    min x y ≤ mixValue ρ x y ∧ mixValue ρ x y ≤ max x y := by
  unfold mixValue
  simp only [Num.one_rat]
  rcases le_total x y with h | h
  · rw [min_eq_left h, max_eq_right h]; constructor <;> nlinarith
  · rw [min_eq_right h, max_eq_left h]; constructor <;> nlinarith

/-- rescaled components lie in `[0, T]` when the criterion's range contains the value -/
theorem scaleValue_in_target (c : Crit Rat) (lo hi t v : Rat) (hlt : lo < hi) (ht : 0 ≤ t)
    (hv0 : lo ≤ v) (hv1 : v ≤ hi) :
    0 ≤ scaleValue c (lo, hi) (getScaleRatio (0, t) (lo, hi)) (0, t) v ∧
    scaleValue c (lo, hi) (getScaleRatio (0, t) (lo, hi)) (0, t) v ≤ t := by
  have hd : (0 : Rat) < hi - lo := by linarith
  have hne : ¬ ((hi - lo == (0 : Rat)) = true) := by
    simp only [beq_iff_eq]; exact ne_of_gt hd
  unfold scaleValue getScaleRatio
  simp only [Num.zero_rat, hne, Bool.not_false, if_true, sub_zero, add_zero]
  have key : ∀ w : Rat, 0 ≤ w → w ≤ hi - lo → 0 ≤ w * (t / (hi - lo)) ∧ w * (t / (hi - lo)) ≤ t := by
    intro w hw0 hw1
    have h1 : w * (t / (hi - lo)) = t * (w / (hi - lo)) := by field_simp
    have h2 : 0 ≤ w / (hi - lo) := div_nonneg hw0 hd.le
    have h3 : w / (hi - lo) ≤ 1 := by rw [div_le_one hd]; exact hw1
    rw [h1]
    constructor
    · exact mul_nonneg ht h2
    · nlinarith
  split_ifs
  · exact key (hi - v) (by linarith) (by linarith)
  · exact key (v - lo) (by linarith) (by linarith)

/-! ### the new weight is a seeded fraction of the reference weight -/

/-- `u · w` for `u ∈ [0,1)` and a positive reference weight `w` lies in `[0, w)` -/
theorem fraction_of_positive (u w : Rat) (hu0 : 0 ≤ u) (hu1 : u < 1) (hw : 0 < w) :
    0 ≤ u * w ∧ u * w < w := by
  constructor
  · positivity
  · nlinarith

end Rdm
