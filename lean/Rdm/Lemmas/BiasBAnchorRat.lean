/-
  Anchoring over exact rationals: the fold of the better-than test is an arg-max of the coefficient-weighted
  score for positive coefficients; zero gain/loss functions; normalised importance; value formulas.
-/
import Mathlib.Tactic.Linarith
import Mathlib.Tactic.Ring
import Mathlib.Tactic.Positivity
import Mathlib.Tactic.FieldSimp
import Rdm.Lemmas.NumRat
import Rdm.Lemmas.BiasBAnchor
import Rdm.Lemmas.BiasBRat
namespace Rdm

/-! ### arg-best -/

/-- if the test only ever replaces by a candidate with at least the score of the current one, and keeps
    the current one only when the candidate's score is at most its score, the fold ends with a maximal score -/
theorem bestFold_maximises (pred : Crit Rat → Rat × Rat → Rat × Rat → Bool) (c : Crit Rat)
    (sc : Rat × Rat → Rat)
    (hp1 : ∀ a b : Rat × Rat, 0 < a.2 → 0 < b.2 → pred c a b = true → sc a ≤ sc b)
    (hp2 : ∀ a b : Rat × Rat, 0 < a.2 → 0 < b.2 → pred c a b = false → sc b ≤ sc a) :
    ∀ (l : List (Rat × Rat)) (init : Rat × Rat), (∀ x ∈ init :: l, 0 < x.2) →
      ∀ x ∈ init :: l, sc x ≤ sc (bestFold pred c init l) := by
  intro l
  induction l with
  | nil => intro init _ x hx; simp at hx; subst hx; simp [bestFold]
  | cons y ys ih =>
    intro init hpos x hx
    have hi : 0 < init.2 := hpos init (by simp)
    have hy : 0 < y.2 := hpos y (by simp)
    have hfold : bestFold pred c init (y :: ys) = bestFold pred c (if pred c init y then y else init) ys := by
      simp [bestFold]
    rw [hfold]
    by_cases hp : pred c init y = true
    · simp only [hp, if_true]
      have hpos' : ∀ z ∈ y :: ys, 0 < z.2 := fun z hz => hpos z (List.mem_cons_of_mem _ hz)
      have hmax := ih y hpos'
      simp only [List.mem_cons] at hx
      rcases hx with rfl | rfl | hx
      · exact le_trans (hp1 _ _ hi hy hp) (hmax y (by simp))
      · exact hmax _ (by simp)
      · exact hmax x (List.mem_cons_of_mem _ hx)
    · have hp' : pred c init y = false := by simpa using hp
      simp only [hp', Bool.false_eq_true, if_false]
      have hpos' : ∀ z ∈ init :: ys, 0 < z.2 := by
        intro z hz
        simp only [List.mem_cons] at hz
        rcases hz with rfl | hz
        · exact hi
        · exact hpos z (by simp [hz])
      have hmax := ih init hpos'
      simp only [List.mem_cons] at hx
      rcases hx with rfl | rfl | hx
      · exact hmax _ (by simp)
      · exact le_trans (hp2 _ _ hi hy hp') (hmax init (by simp))
      · exact hmax x (List.mem_cons_of_mem _ hx)

theorem canNewBeBetter_pos (a b : Rat × Rat) (ha : 0 < a.2) (hb : 0 < b.2) : canNewBeBetter a b = true := by
  unfold canNewBeBetter
  have h1 : (a.2 == (Num.zero : Rat)) = false := by simp [Num.zero_rat]; exact ne_of_gt ha
  have h2 : (b.2 == (Num.zero : Rat)) = false := by simp [Num.zero_rat]; exact ne_of_gt hb
  rw [h1, h2]; rfl

theorem div_le_div_cross (a b c d : Rat) (hb : 0 < b) (hd : 0 < d) : a / b ≤ c / d ↔ a * d ≤ c * b := by
  rw [div_le_iff₀ hb, div_mul_eq_mul_div, le_div_iff₀ hd]

/-- gain criterion: `isBetter a b` compares `v·κ` -/
theorem isBetter_gain_true {c : Crit Rat} (hc : c.isGain = true) {a b : Rat × Rat}
    (h : isBetter c a b = true) : a.1 * a.2 ≤ b.1 * b.2 := by
  unfold isBetter at h
  simp only [hc, if_true] at h
  split at h
  · rename_i heq; simp at heq; exact le_of_eq heq
  · simp at h; exact le_of_lt h

theorem isBetter_gain_false {c : Crit Rat} (hc : c.isGain = true) {a b : Rat × Rat}
    (h : isBetter c a b = false) : b.1 * b.2 ≤ a.1 * a.2 := by
  unfold isBetter at h
  simp only [hc, if_true] at h
  split at h
  · rename_i heq; simp at heq; exact le_of_eq heq.symm
  · simp at h; exact h

/-- cost criterion: `isBetter a b` compares `v/κ` by cross-multiplication -/
theorem isBetter_cost_true {c : Crit Rat} (hc : c.isGain = false) {a b : Rat × Rat}
    (ha : 0 < a.2) (hb : 0 < b.2) (h : isBetter c a b = true) : b.1 / b.2 ≤ a.1 / a.2 := by
  unfold isBetter at h
  simp only [hc, Bool.false_eq_true, if_false] at h
  rw [div_le_div_cross _ _ _ _ hb ha]
  split at h
  · rename_i heq; simp at heq; exact le_of_eq heq.symm
  · simp at h; exact le_of_lt h

theorem isBetter_cost_false {c : Crit Rat} (hc : c.isGain = false) {a b : Rat × Rat}
    (ha : 0 < a.2) (hb : 0 < b.2) (h : isBetter c a b = false) : a.1 / a.2 ≤ b.1 / b.2 := by
  unfold isBetter at h
  simp only [hc, Bool.false_eq_true, if_false] at h
  rw [div_le_div_cross _ _ _ _ ha hb]
  split at h
  · rename_i heq; simp at heq; exact le_of_eq heq
  · simp at h; exact h

/-- `ideal`, gain criterion, positive coefficients: the fold ends with the largest `v·κ` -/
theorem bestFold_ideal_gain (c : Crit Rat) (hc : c.isGain = true) (l : List (Rat × Rat)) (init : Rat × Rat)
    (hpos : ∀ x ∈ init :: l, 0 < x.2) :
    ∀ x ∈ init :: l, x.1 * x.2 ≤ (bestFold idealPred c init l).1 * (bestFold idealPred c init l).2 := by
  refine bestFold_maximises idealPred c (fun x => x.1 * x.2) ?_ ?_ l init hpos
  · intro a b ha hb h
    unfold idealPred at h
    rw [canNewBeBetter_pos a b ha hb, Bool.true_and] at h
    exact isBetter_gain_true hc h
  · intro a b ha hb h
    unfold idealPred at h
    rw [canNewBeBetter_pos a b ha hb, Bool.true_and] at h
    exact isBetter_gain_false hc h

/-- `ideal`, cost criterion, positive coefficients: the fold ends with the smallest `v/κ` -/
theorem bestFold_ideal_cost (c : Crit Rat) (hc : c.isGain = false) (l : List (Rat × Rat)) (init : Rat × Rat)
    (hpos : ∀ x ∈ init :: l, 0 < x.2) :
    ∀ x ∈ init :: l, (bestFold idealPred c init l).1 / (bestFold idealPred c init l).2 ≤ x.1 / x.2 := by
  have := bestFold_maximises idealPred c (fun x => -(x.1 / x.2)) ?_ ?_ l init hpos
  · intro x hx; have := this x hx; linarith
  · intro a b ha hb h
    unfold idealPred at h
    rw [canNewBeBetter_pos a b ha hb, Bool.true_and] at h
    have := isBetter_cost_true hc ha hb h
    show _ ≤ _
    linarith
  · intro a b ha hb h
    unfold idealPred at h
    rw [canNewBeBetter_pos a b ha hb, Bool.true_and] at h
    have := isBetter_cost_false hc ha hb h
    show _ ≤ _
    linarith

/-- `nadir`, gain criterion, positive coefficients: the fold ends with the smallest `v·κ` -/
theorem bestFold_nadir_gain (c : Crit Rat) (hc : c.isGain = true) (l : List (Rat × Rat)) (init : Rat × Rat)
    (hpos : ∀ x ∈ init :: l, 0 < x.2) :
    ∀ x ∈ init :: l, (bestFold nadirPred c init l).1 * (bestFold nadirPred c init l).2 ≤ x.1 * x.2 := by
  have := bestFold_maximises nadirPred c (fun x => -(x.1 * x.2)) ?_ ?_ l init hpos
  · intro x hx; have := this x hx; linarith
  · intro a b ha hb h
    unfold nadirPred at h
    rw [canNewBeBetter_pos a b ha hb, Bool.true_and] at h
    have : isBetter c a b = false := by simpa using h
    have := isBetter_gain_false hc this
    show _ ≤ _
    linarith
  · intro a b ha hb h
    unfold nadirPred at h
    rw [canNewBeBetter_pos a b ha hb, Bool.true_and] at h
    have : isBetter c a b = true := by simpa using h
    have := isBetter_gain_true hc this
    show _ ≤ _
    linarith

/-- `nadir`, cost criterion, positive coefficients: the fold ends with the largest `v/κ` -/
theorem bestFold_nadir_cost (c : Crit Rat) (hc : c.isGain = false) (l : List (Rat × Rat)) (init : Rat × Rat)
    (hpos : ∀ x ∈ init :: l, 0 < x.2) :
    ∀ x ∈ init :: l, x.1 / x.2 ≤ (bestFold nadirPred c init l).1 / (bestFold nadirPred c init l).2 := by
  refine bestFold_maximises nadirPred c (fun x => x.1 / x.2) ?_ ?_ l init hpos
  · intro a b ha hb h
    unfold nadirPred at h
    rw [canNewBeBetter_pos a b ha hb, Bool.true_and] at h
    have : isBetter c a b = false := by simpa using h
    exact isBetter_cost_false hc ha hb this
  · intro a b ha hb h
    unfold nadirPred at h
    rw [canNewBeBetter_pos a b ha hb, Bool.true_and] at h
    have : isBetter c a b = true := by simpa using h
    exact isBetter_cost_true hc ha hb this

/-! ### gain / loss functions -/

/-- identically-zero functions (linear with a = b = 0, or expFromZero with multiplier 0) map every
    difference to 0, whatever `exp` is -/
def AFun.isZero : AFun Rat → Prop
  | .linear f => f.a = 0 ∧ f.b = 0
  | .expFromZero _ m => m = 0

theorem eval_zero (exp : Rat → Rat) (f : AFun Rat) (hf : AFun.isZero f) (x : Rat) : f.eval exp x = 0 := by
  cases f with
  | linear l =>
    obtain ⟨ha, hb⟩ := hf
    simp [AFun.eval, LinFun.eval, ha, hb, Num.zero_rat]
  | expFromZero a m =>
    have : m = 0 := hf
    simp [AFun.eval, this]

theorem mapDiff_zero (exp : Rat → Rat) (loss gain : AFun Rat) (hl : AFun.isZero loss) (hg : AFun.isZero gain)
    (d : Rat) : mapDiff (AFun.eval exp) loss gain d = 0 := by
  unfold mapDiff
  split
  · exact eval_zero exp gain hg d
  · rw [eval_zero exp loss hl]; simp

/-- linear functions: the mapped difference is `a·d + b` on the better side, `−(a·(−d) + b)` otherwise -/
theorem mapDiff_linear (exp : Rat → Rat) (l g : LinFun Rat) (hl : ¬ (l.a = 0 ∧ l.b = 0)) (hg : ¬ (g.a = 0 ∧ g.b = 0))
    (d : Rat) :
    mapDiff (AFun.eval exp) (.linear l) (.linear g) d = if 0 < d then g.a * d + g.b else -(l.a * (-d) + l.b) := by
  unfold mapDiff
  simp only [Num.zero_rat, AFun.eval, LinFun.eval]
  have h1 : ¬ ((l.a == (0 : Rat) && l.b == (0 : Rat)) = true) := by simpa using hl
  have h2 : ¬ ((g.a == (0 : Rat) && g.b == (0 : Rat)) = true) := by simpa using hg
  simp only [h1, h2]
  rfl

/-! ### inline applier -/

/-- zero mean difference: the new value is the bounded old value; with bounding off, the old value -/
theorem inlineValue_zero (b : Bounding Rat) (range : Rat × Rat) (v : Rat) :
    inlineValue b range v 0 = b.bound range v := by
  unfold inlineValue; simp

theorem inlineValue_zero_off (b : Bounding Rat) (range : Rat × Rat) (v : Rat)
    (hs : ¬ (0 : Rat) < b.scaling) (hn : b.nonNeg = false) : inlineValue b range v 0 = v := by
  rw [inlineValue_zero, bound_off b range v hs hn]

theorem inlineValue_off (b : Bounding Rat) (range : Rat × Rat) (v mean : Rat)
    (hs : ¬ (0 : Rat) < b.scaling) (hn : b.nonNeg = false) :
    inlineValue b range v mean = v + (range.2 - range.1) * mean := by
  unfold inlineValue; rw [bound_off b range _ hs hn]

/-! ### newCriterion applier -/

theorem foldl_add_w (l : List (WCrit Rat)) (acc : Rat) :
    l.foldl (fun t c => t + c.w) acc = acc + l.foldl (fun t c => t + c.w) 0 := by
  induction l generalizing acc with
  | nil => simp
  | cons x xs ih =>
    simp only [List.foldl_cons]
    rw [ih (acc + x.w), ih (0 + x.w)]; ring

theorem foldl_div_total (l : List (WCrit Rat)) (T : Rat) :
    (l.map fun c => ({ c with w := c.w / T } : WCrit Rat)).foldl (fun t c => t + c.w) 0
      = (l.foldl (fun t c => t + c.w) 0) / T := by
  induction l with
  | nil => simp
  | cons x xs ih =>
    simp only [List.map_cons, List.foldl_cons]
    rw [foldl_add_w _ (0 + x.w / T), foldl_add_w _ (0 + x.w), ih]; ring

theorem foldl_nonneg (l : List (WCrit Rat)) (h : ∀ c ∈ l, 0 ≤ c.w) : 0 ≤ l.foldl (fun t c => t + c.w) 0 := by
  induction l with
  | nil => simp
  | cons x xs ih =>
    simp only [List.foldl_cons]
    rw [foldl_add_w]
    have := ih (fun c hc => h c (List.mem_cons_of_mem _ hc))
    have := h x (by simp)
    linarith

/-- `normalizeCriteriaByTotalValue` on an ascending ranking (the head is the smallest weight) with a
    positive minimum allowed weight: every normalised weight is positive and they sum to 1 -/
theorem normalizeWeights_ok {m : Rat} {c0 : WCrit Rat} {rest out : List (WCrit Rat)} (hm : 0 < m)
    (hmin : ∀ c ∈ c0 :: rest, c0.w ≤ c.w)
    (h : normalizeWeights m (c0 :: rest) = .ok out) :
    (∀ c ∈ out, 0 < c.w) ∧ out.foldl (fun t c => t + c.w) 0 = 1 ∧
    out.map (·.crit) = (c0 :: rest).map (·.crit) := by
  unfold normalizeWeights at h
  simp only [pure, Except.pure, Except.ok.injEq] at h
  subst h
  set dif : Rat := if c0.w < m then m - c0.w else Num.zero with hdif
  set shifted := (c0 :: rest).map fun c => ({ c with w := c.w + dif } : WCrit Rat) with hsh
  have hshpos : ∀ c ∈ shifted, m ≤ c.w := by
    intro c hc
    rw [hsh, List.mem_map] at hc
    obtain ⟨x, hx, rfl⟩ := hc
    have := hmin x hx
    simp only
    rw [hdif]
    split_ifs with hlt
    · linarith
    · simp only [Num.zero_rat]; linarith
  have hne : shifted ≠ [] := by rw [hsh]; simp
  have htotal : 0 < shifted.foldl (fun t c => t + c.w) Num.zero := by
    simp only [Num.zero_rat]
    cases hs : shifted with
    | nil => exact (hne hs).elim
    | cons y ys =>
      simp only [List.foldl_cons]
      rw [foldl_add_w]
      have hy := hshpos y (by rw [hs]; simp)
      have := foldl_nonneg ys (fun c hc => le_trans hm.le (hshpos c (by rw [hs]; simp [hc])))
      linarith
  refine ⟨?_, ?_, ?_⟩
  · intro c hc
    rw [List.mem_map] at hc
    obtain ⟨x, hx, rfl⟩ := hc
    simp only
    exact div_pos (lt_of_lt_of_le hm (hshpos x hx)) htotal
  · rw [foldl_div_total]
    simp only [Num.zero_rat] at htotal ⊢
    exact div_self (ne_of_gt htotal)
  · rw [hsh]; simp [List.map_map, Function.comp_def]

/-- the anchoring criterion's value without bounding: mid-range + half-range × weighted difference -/
theorem ncValue_off (b : Bounding Rat) (lo hi cv : Rat) (hs : ¬ (0 : Rat) < b.scaling) (hn : b.nonNeg = false) :
    ncValue b (lo, hi) cv = lo + (hi - lo) / 2 + (hi - lo) / 2 * cv := by
  unfold ncValue
  simp only [Num.one_rat]
  rw [bound_off b _ _ hs hn]; norm_num

/-- … which stays inside the reference criterion's range when the weighted difference is in [−1, 1] -/
theorem ncValue_in_range (b : Bounding Rat) (lo hi cv : Rat) (hs : ¬ (0 : Rat) < b.scaling) (hn : b.nonNeg = false)
    (hr : lo ≤ hi) (h0 : -1 ≤ cv) (h1 : cv ≤ 1) :
    lo ≤ ncValue b (lo, hi) cv ∧ ncValue b (lo, hi) cv ≤ hi := by
  rw [ncValue_off b lo hi cv hs hn]
  constructor <;> nlinarith

end Rdm
