/-
  Bridge between the executable checker `Spec.C01.check` and the `List` notions
  (`Perm`, `Nodup`, membership) in which the well-formedness theorems are proved.
-/
import Rdm.Spec.C01
namespace Rdm

theorem Spec.C01.nodup_iff : ∀ l : List String, Spec.C01.nodup l = true ↔ l.Nodup
  | [] => by simp [Spec.C01.nodup]
  | x :: xs => by
    simp [Spec.C01.nodup, Spec.C01.nodup_iff xs]

theorem Spec.C01.sameIds_of_perm {a b : List String} (h : a.Perm b) : Spec.C01.sameIds a b = true := by
  unfold Spec.C01.sameIds
  simp only [Bool.and_eq_true, beq_iff_eq, List.all_eq_true]
  refine ⟨h.length_eq, fun x _ => ?_⟩
  unfold Spec.C01.count
  exact (h.filter _).length_eq

theorem Spec.C01.entryOk_iff (ids : List String) (e : String × List String) :
    Spec.C01.entryOk ids e = true ↔ (∀ x ∈ e.2, x ∈ ids) ∧ e.1 ∉ e.2 ∧ e.2.Nodup := by
  simp [Spec.C01.entryOk, Spec.C01.nodup_iff, and_assoc]

/-- the three clauses of C01, stated with `List` notions, imply the executable checker -/
theorem Spec.C01.check_of_wellformed (expected : List String) (out : List (String × List String))
    (hperm : (out.map (·.1)).Perm expected) (hnd : (out.map (·.1)).Nodup)
    (hlinks : ∀ e ∈ out, (∀ x ∈ e.2, x ∈ out.map (·.1)) ∧ e.1 ∉ e.2 ∧ e.2.Nodup) :
    Spec.C01.check expected out = true := by
  unfold Spec.C01.check Spec.C01.explain
  simp only [Spec.C01.sameIds_of_perm hperm, (Spec.C01.nodup_iff _).mpr hnd]
  have : out.find? (fun e => !Spec.C01.entryOk (out.map (·.1)) e) = none := by
    rw [List.find?_eq_none]
    intro e he
    simp [(Spec.C01.entryOk_iff _ e).mpr (hlinks e he)]
  simp [this]

end Rdm
