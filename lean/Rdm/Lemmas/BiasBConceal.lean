/-
  Structure of a successful criteria concealment / criteria mixing in the model (generic number type).
  Core only.
-/
import Rdm.Lemmas.BiasBExcept
import Rdm.Model.BiasesB
namespace Rdm
variable {α : Type}

theorem withCrit_ok {a a' : Alt α} {k : String} {v : α} (h : a.withCrit k v = .ok a') :
    a' = { a with vals := a.vals ++ [(k, v)] } ∧ a.vals.has k = false := by
  unfold Alt.withCrit at h
  split at h
  · simp [throw, throwThe, MonadExceptOf.throw] at h
  · rename_i hn
    simp [pure, Except.pure] at h
    exact ⟨h.symm, by simpa using hn⟩

variable [Num α]

/-- `assignConcealed`: position by position the old alternative with one appended value, which is
    `concealValue` of one of the supplied draws and is the reported value of that alternative -/
theorem assignConcealed_ok {b : Bounding α} {range : α × α} {cid : String} :
    ∀ {l : List (Alt α)} {d : Draws α} {alts : List (Alt α)} {vals : KMap α} {d' : Draws α},
      assignConcealed b range cid l d = .ok (alts, vals, d') →
      alts.length = l.length ∧ vals.length = l.length ∧
      (∀ p ∈ l.zip alts, ∃ v, p.2 = { p.1 with vals := p.1.vals ++ [(cid, v)] } ∧
          p.1.vals.has cid = false ∧ (p.1.id, v) ∈ vals) ∧
      (∀ iv ∈ vals, ∃ u ∈ d, iv.2 = concealValue b range u) := by
  intro l
  induction l with
  | nil =>
    intro d alts vals d' h
    simp [assignConcealed, pure, Except.pure] at h
    obtain ⟨rfl, rfl, rfl⟩ := h
    simp
  | cons a rest ih =>
    intro d alts vals d' h
    unfold assignConcealed at h
    obtain ⟨⟨u, d1⟩, hu, h⟩ := bind_eq_ok.mp h
    obtain ⟨a', ha', h⟩ := bind_eq_ok.mp h
    obtain ⟨⟨as', vals', d2⟩, hrest, h⟩ := bind_eq_ok.mp h
    simp [pure, Except.pure] at h
    obtain ⟨rfl, rfl, rfl⟩ := h
    obtain ⟨h1, h2, h3, h4⟩ := ih hrest
    obtain ⟨hdef, hnot⟩ := withCrit_ok ha'
    have hud : d = u :: d1 := by
      cases d with
      | nil => simp [draw, throw, throwThe, MonadExceptOf.throw] at hu
      | cons x xs => simp [draw, pure, Except.pure] at hu; obtain ⟨rfl, rfl⟩ := hu; rfl
    refine ⟨by simp [h1], by simp [h2], ?_, ?_⟩
    · intro p hp
      simp only [List.zip_cons_cons, List.mem_cons] at hp
      rcases hp with rfl | hp
      · exact ⟨_, hdef, hnot, by simp⟩
      · obtain ⟨v, e1, e2, e3⟩ := h3 p hp
        exact ⟨v, e1, e2, List.mem_cons_of_mem _ e3⟩
    · intro iv hiv
      simp only [List.mem_cons] at hiv
      rcases hiv with rfl | hiv
      · exact ⟨u, by simp [hud], rfl⟩
      · obtain ⟨u', hu', e⟩ := h4 iv hiv
        exact ⟨u', by simp [hud, hu'], e⟩

omit [Num α] in
theorem sortAltsById_perm (l : List (Alt α)) : (sortAltsById l).Perm l := by
  unfold sortAltsById; exact List.mergeSort_perm _ _

/-- what a successful concealment looks like -/
theorem conceal_ok {eps : α} {orig cur : DMP α} {p : Props α} {rd g : Draws α} {res : DMP α}
    {rep : ConcealReport α} (h : conceal eps orig cur p rd g = .ok (res, rep)) :
    rep.id = notUsedName (cur.crit.map (·.id)) Facts.concealedBaseName ∧
    rep.type = Facts.critGain ∧
    res.crit = cur.crit ++ [{ id := rep.id, type := rep.type, range := some rep.range }] ∧
    (∀ x ∈ cur.crit, (x.id == rep.id) = false) ∧
    res.co.map (·.id) = cur.co.map (·.id) ∧ res.nc.map (·.id) = cur.nc.map (·.id) ∧
    (∀ a' ∈ res.co ++ res.nc, ∃ a ∈ cur.co ++ cur.nc, ∃ v,
        (a'.id == a.id) = true ∧ a'.vals = a.vals ++ [(rep.id, v)] ∧ a.vals.has rep.id = false ∧ (a.id, v) ∈ rep.values) ∧
    rep.values.length = (cur.co ++ cur.nc).length ∧
    (∃ b : Bounding α, boundingOfProps p = .ok b ∧ ∀ iv ∈ rep.values, ∃ u ∈ g, iv.2 = concealValue b rep.range u) := by
  unfold conceal at h
  dsimp only at h
  split at h
  · exact (throw_bind_ne_ok.mp h).elim
  · obtain ⟨b, hb, h⟩ := bind_eq_ok.mp h
    obtain ⟨⟨ref, newC⟩, hbase, h⟩ := bind_eq_ok.mp h
    obtain ⟨⟨alts, values, g'⟩, hassign, h⟩ := bind_eq_ok.mp h
    obtain ⟨nc, hnc, h⟩ := bind_eq_ok.mp h
    obtain ⟨co, hco, h⟩ := bind_eq_ok.mp h
    obtain ⟨⟨add, g''⟩, _, h⟩ := bind_eq_ok.mp h
    obtain ⟨mp, _, h⟩ := bind_eq_ok.mp h
    obtain ⟨crits, hcrits, h⟩ := bind_eq_ok.mp h
    simp only [pure, Except.pure, Except.ok.injEq, Prod.mk.injEq] at h
    obtain ⟨rfl, rfl⟩ := h
    -- the new criterion
    unfold concealBase at hbase
    obtain ⟨ranked, _, hbase⟩ := bind_eq_ok.mp hbase
    obtain ⟨ref', _, hbase⟩ := bind_eq_ok.mp hbase
    obtain ⟨r, _, hbase⟩ := bind_eq_ok.mp hbase
    simp only [pure, Except.pure, Except.ok.injEq, Prod.mk.injEq] at hbase
    obtain ⟨rfl, rfl⟩ := hbase
    obtain ⟨hc1, hc2⟩ := critsAdd_ok hcrits
    obtain ⟨ha1, ha2, ha3, ha4⟩ := assignConcealed_ok hassign
    have hperm := sortAltsById_perm cur.all
    have hmem : ∀ a' ∈ alts, ∃ a ∈ cur.co ++ cur.nc, ∃ v, (a'.id == a.id) = true ∧
        a'.vals = a.vals ++ [(notUsedName (cur.crit.map (·.id)) Facts.concealedBaseName, v)] ∧
        a.vals.has (notUsedName (cur.crit.map (·.id)) Facts.concealedBaseName) = false ∧ (a.id, v) ∈ values := by
      intro a' ha'
      obtain ⟨i, hi, rfl⟩ := List.mem_iff_getElem.mp ha'
      have hi' : i < (sortAltsById cur.all).length := ha1 ▸ hi
      have hz : ((sortAltsById cur.all)[i], alts[i]) ∈ (sortAltsById cur.all).zip alts := by
        rw [List.mem_iff_getElem]; exact ⟨i, by simp only [List.length_zip]; omega, by simp⟩
      obtain ⟨v, e1, e2, e3⟩ := ha3 _ hz
      refine ⟨(sortAltsById cur.all)[i], ?_, v, ?_, ?_, e2, e3⟩
      · have := hperm.mem_iff.mp (List.getElem_mem hi')
        simpa [DMP.all] using this
      · simp only at e1; rw [e1]; simp
      · simp only at e1; rw [e1]
    refine ⟨rfl, rfl, by simpa using hc1, ?_, updateAlts_ids hco, updateAlts_ids hnc, ?_, ?_, ⟨b, hb, ?_⟩⟩
    · simpa using hc2
    · intro a' ha'
      obtain ⟨hl1, hp1⟩ := updateAlts_ok hco
      obtain ⟨hl2, hp2⟩ := updateAlts_ok hnc
      have : a' ∈ alts := by
        simp only [List.mem_append] at ha'
        rcases ha' with ha' | ha'
        · obtain ⟨i, hi, rfl⟩ := List.mem_iff_getElem.mp ha'
          have hz : (cur.co[i]'(hl1 ▸ hi), co[i]) ∈ cur.co.zip co := by
            rw [List.mem_iff_getElem]; exact ⟨i, by simp only [List.length_zip]; omega, by simp⟩
          exact (hp1 _ hz).1
        · obtain ⟨i, hi, rfl⟩ := List.mem_iff_getElem.mp ha'
          have hz : (cur.nc[i]'(hl2 ▸ hi), nc[i]) ∈ cur.nc.zip nc := by
            rw [List.mem_iff_getElem]; exact ⟨i, by simp only [List.length_zip]; omega, by simp⟩
          exact (hp2 _ hz).1
      exact hmem a' this
    · rw [ha2, hperm.length_eq]; simp [DMP.all]
    · simpa using ha4

end Rdm

namespace Rdm
variable {α : Type} [Num α]

/-- fewer than two current criteria: mixing returns the current state unchanged, with no report -/
theorem mixing_noop {eps : α} {orig cur : DMP α} {p : Props α} {rd g : Draws α}
    (hlen : cur.crit.length < 2) : mixing eps orig cur p rd g = .ok (cur, none) := by
  unfold mixing
  simp [hlen, pure, Except.pure]

omit [Num α] in
theorem critAt_ok {cs : List (Crit α)} {i : Int} {c : Crit α} (h : critAt cs i = .ok c) :
    0 ≤ i ∧ cs[i.toNat]? = some c := by
  unfold critAt at h
  split at h
  · simp [throw, throwThe, MonadExceptOf.throw] at h
  · rename_i hi
    split at h
    · rename_i x hx
      simp [pure, Except.pure] at h; subst h
      exact ⟨by omega, hx⟩
    · simp [throw, throwThe, MonadExceptOf.throw] at h

theorem mixValues_ok {ρ : α} {v1 v2 res : KMap α} (h : mixValues ρ v1 v2 = .ok res) :
    res.length = v1.length ∧
    ∀ am ∈ res, ∃ x y, (am.1, x) ∈ v1 ∧ v2.get? am.1 = some y ∧ am.2 = mixValue ρ x y := by
  unfold mixValues at h
  refine ⟨(mapM_ok h).1, ?_⟩
  intro am ham
  obtain ⟨⟨a, x⟩, hax, hf⟩ := mapM_ok_mem h am ham
  simp only at hf
  split at hf
  · rename_i y hy
    simp [pure, Except.pure] at hf; subst hf
    exact ⟨x, y, hax, hy, rfl⟩
  · simp [throw, throwThe, MonadExceptOf.throw] at hf

/-- what a successful mixing (two or more current criteria) looks like.  Note the alternatives: every
    resulting alternative is an alternative of `original` with the mixed value appended. -/
theorem mixingCore_ok {eps : α} {orig cur : DMP α} {p : Props α} {ρ : α} {rd : Draws α} {u1 u2 : α}
    {g : Draws α} {res : DMP α} {rep : Option (MixReport α)}
    (h : mixingCore eps orig cur p ρ rd u1 u2 g = .ok (res, rep)) :
    ∃ r : MixReport α, rep = some r ∧
      (∃ c1 c2 : Crit α,
        orig.crit[(mixIndices orig.crit.length u1 u2).1.toNat]? = some c1 ∧
        orig.crit[(mixIndices orig.crit.length u1 u2).2.toNat]? = some c2 ∧
        r.c1.id = c1.id ∧ r.c1.type = c1.type ∧ r.c2.id = c2.id ∧ r.c2.type = c2.type ∧
        r.new.id = "__" ++ c1.id ++ "+" ++ c2.id ++ "__") ∧
      r.new.type = Facts.critGain ∧
      (∃ target : α × α, res.crit = cur.crit ++ [{ id := r.new.id, type := r.new.type, range := some target }]) ∧
      (∀ x ∈ cur.crit, (x.id == r.new.id) = false) ∧
      res.co.map (·.id) = cur.co.map (·.id) ∧ res.nc.map (·.id) = cur.nc.map (·.id) ∧
      (∀ a' ∈ res.co ++ res.nc, ∃ a ∈ orig.co ++ orig.nc, ∃ v,
          (a'.id == a.id) = true ∧ a'.vals = a.vals ++ [(r.new.id, v)] ∧ a.vals.has r.new.id = false) ∧
      (∀ am ∈ r.new.values, ∃ x y, (am.1, x) ∈ r.c1.values ∧ r.c2.values.get? am.1 = some y ∧
          am.2 = mixValue ρ x y) := by
  unfold mixingCore at h
  dsimp only at h
  obtain ⟨c1, hc1, h⟩ := bind_eq_ok.mp h
  obtain ⟨c2, hc2, h⟩ := bind_eq_ok.mp h
  obtain ⟨kind, _, h⟩ := bind_eq_ok.mp h
  obtain ⟨ranked, _, h⟩ := bind_eq_ok.mp h
  obtain ⟨ref, _, h⟩ := bind_eq_ok.mp h
  obtain ⟨target, _, h⟩ := bind_eq_ok.mp h
  obtain ⟨v1, _, h⟩ := bind_eq_ok.mp h
  obtain ⟨v2, _, h⟩ := bind_eq_ok.mp h
  obtain ⟨mixed, hmixed, h⟩ := bind_eq_ok.mp h
  obtain ⟨add, _, h⟩ := bind_eq_ok.mp h
  obtain ⟨mp, _, h⟩ := bind_eq_ok.mp h
  obtain ⟨newAlts, hnew, h⟩ := bind_eq_ok.mp h
  obtain ⟨nc, hnc, h⟩ := bind_eq_ok.mp h
  obtain ⟨co, hco, h⟩ := bind_eq_ok.mp h
  obtain ⟨crits, hcrits, h⟩ := bind_eq_ok.mp h
  simp only [pure, Except.pure, Except.ok.injEq, Prod.mk.injEq] at h
  obtain ⟨rfl, rfl⟩ := h
  obtain ⟨hcr1, hcr2⟩ := critsAdd_ok hcrits
  refine ⟨_, rfl, ⟨c1, c2, (critAt_ok hc1).2, (critAt_ok hc2).2, rfl, rfl, rfl, rfl, rfl⟩, rfl,
    ⟨target, by simpa using hcr1⟩, by simpa using hcr2, updateAlts_ids hco, updateAlts_ids hnc, ?_,
    (mixValues_ok hmixed).2⟩
  intro a' ha'
  obtain ⟨hl1, hp1⟩ := updateAlts_ok hco
  obtain ⟨hl2, hp2⟩ := updateAlts_ok hnc
  have hmem : a' ∈ newAlts := by
    simp only [List.mem_append] at ha'
    rcases ha' with ha' | ha'
    · obtain ⟨i, hi, rfl⟩ := List.mem_iff_getElem.mp ha'
      have hz : (cur.co[i]'(hl1 ▸ hi), co[i]) ∈ cur.co.zip co := by
        rw [List.mem_iff_getElem]; exact ⟨i, by simp only [List.length_zip]; omega, by simp⟩
      exact (hp1 _ hz).1
    · obtain ⟨i, hi, rfl⟩ := List.mem_iff_getElem.mp ha'
      have hz : (cur.nc[i]'(hl2 ▸ hi), nc[i]) ∈ cur.nc.zip nc := by
        rw [List.mem_iff_getElem]; exact ⟨i, by simp only [List.length_zip]; omega, by simp⟩
      exact (hp2 _ hz).1
  obtain ⟨a, ha, hf⟩ := mapM_ok_mem hnew a' hmem
  obtain ⟨hdef, hnot⟩ := withCrit_ok hf
  refine ⟨a, by simpa [DMP.all] using ha, (mixed.get? a.id).getD Num.zero, ?_, ?_, hnot⟩
  · rw [hdef]; simp
  · rw [hdef]

end Rdm
