/-
  Structural lemmas about the ELECTRE III matrix and distillation model (generic in the number type,
  core Lean only): index-map reading of `sub`/`slice`/`without`, lengths of the position vectors.
-/
import Rdm.Model.Electre
namespace Rdm

theorem getD_flatMap_uniform {β γ : Type} (f : β → List γ) (n : Nat) (d : γ) (l : List β)
    (hf : ∀ r ∈ l, (f r).length = n) (i j : Nat) (hi : i < l.length) (hj : j < n) :
    (l.flatMap f).getD (i * n + j) d = (f l[i]).getD j d := by
  induction l generalizing i with
  | nil => simp at hi
  | cons r rs ih =>
    have hr : (f r).length = n := hf r (by simp)
    rw [List.flatMap_cons]
    cases i with
    | zero =>
      simp only [Nat.zero_mul, Nat.zero_add, List.getElem_cons_zero]
      simp only [List.getD_eq_getElem?_getD]
      rw [List.getElem?_append_left (by rw [hr]; exact hj)]
    | succ i =>
      have : (i + 1) * n + j = (f r).length + (i * n + j) := by rw [hr, Nat.succ_mul]; omega
      have ih' := ih (fun x hx => hf x (by simp [hx])) i (by simpa using hi)
      simp only [List.getD_eq_getElem?_getD] at ih' ⊢
      rw [this, List.getElem?_append_right (by omega)]
      simp only [Nat.add_sub_cancel_left, List.getElem_cons_succ]
      exact ih'

variable {α : Type} [Num α]

theorem sub_size (m : Matrix α) (I : List Nat) : (m.sub I).size = I.length := rfl

/-- the index-map reading of a sub-matrix: entry (i, j) is entry (I[i], I[j]) of the original -/
theorem sub_at (m : Matrix α) (I : List Nat) (i j : Nat) (hi : i < I.length) (hj : j < I.length) :
    (m.sub I).at i j = m.at I[i] I[j] := by
  unfold Matrix.sub Matrix.at
  simp only
  rw [getD_flatMap_uniform (fun r => I.map fun c => (m.data.getD (r * m.size + c) Num.zero)) I.length Num.zero I
    (fun r _ => by simp) i j hi hj]
  simp [List.getD_eq_getElem?_getD, hj]

theorem sortIdx_length (l : List Nat) : (Matrix.sortIdx l).length = l.length := by
  simp [Matrix.sortIdx]

theorem slice_size (m : Matrix α) (idx : List Nat) : (m.slice idx).size = idx.length := by
  unfold Matrix.slice
  split
  · rename_i h; simp at h; exact h.symm
  · simp [Matrix.sub, sortIdx_length]

theorem slice_at (m : Matrix α) (idx : List Nat) (h : idx.length ≠ m.size) (i j : Nat)
    (hi : i < idx.length) (hj : j < idx.length) :
    (m.slice idx).at i j = m.at ((Matrix.sortIdx idx)[i]'(by rw [sortIdx_length]; exact hi))
      ((Matrix.sortIdx idx)[j]'(by rw [sortIdx_length]; exact hj)) := by
  unfold Matrix.slice
  simp only [beq_iff_eq, h, if_false]
  exact sub_at m _ i j _ _

theorem without_at (m : Matrix α) (idx : List Nat) (h : idx.length ≠ m.size) (i j : Nat)
    (hi : i < (m.keep idx).length) (hj : j < (m.keep idx).length) :
    (m.without idx).at i j = m.at (m.keep idx)[i] (m.keep idx)[j] := by
  unfold Matrix.without
  simp only [beq_iff_eq, h, if_false]
  exact sub_at m _ i j hi hj

theorem updateValues_length (idx : List Nat) (orig new : List Int) :
    (updateValues idx orig new).length = orig.length := by
  unfold updateValues
  generalize idx.zip new = l
  induction l generalizing orig with
  | nil => rfl
  | cons p l ih => simp only [List.foldl_cons]; rw [ih]; simp

theorem writePositionsSequentially_length (w ps out : List Int)
    (h : writePositionsSequentially w ps = .ok out) : out.length = ps.length := by
  induction ps generalizing w out with
  | nil => simp [writePositionsSequentially, pure, Except.pure] at h; subst h; rfl
  | cons p rest ih =>
    unfold writePositionsSequentially at h
    split at h
    · cases w with
      | nil => simp [throw, throwThe, MonadExceptOf.throw] at h
      | cons x ws =>
        simp only [bind, Except.bind] at h
        cases hr : writePositionsSequentially ws rest with
        | error e => rw [hr] at h; cases h
        | ok r =>
          rw [hr] at h
          simp only [pure, Except.pure, Except.ok.injEq] at h
          subst h; simp [ih ws r hr]
    · simp only [bind, Except.bind] at h
      cases hr : writePositionsSequentially w rest with
      | error e => rw [hr] at h; cases h
      | ok r =>
        rw [hr] at h
        simp only [pure, Except.pure, Except.ok.injEq] at h
        subst h; simp [ih w r hr]

theorem levelPositions_length (recur : α → Int → Matrix α → Bool → R (List Int))
    (m : Matrix α) (best : List Nat) (minCred : α) (pos : Int) (ps : List Int)
    (h : levelPositions recur m best minCred pos = .ok ps) : ps.length = m.size := by
  unfold levelPositions at h
  simp only at h
  split at h
  · simp only [bind, Except.bind] at h
    split at h
    · cases h
    · simp only [pure, Except.pure, Except.ok.injEq] at h
      subst h; simp [updateValues_length, samePositions]
  · split at h <;>
    · simp only [pure, Except.pure, Except.ok.injEq] at h
      subst h; simp [updateValues_length, samePositions]

theorem finishLevel_length (recur : α → Int → Matrix α → Bool → R (List Int))
    (m : Matrix α) (best : List Nat) (pos : Int) (inner : Bool) (positions ps : List Int)
    (h : finishLevel recur m best pos inner positions = .ok ps) : ps.length = positions.length := by
  unfold finishLevel at h
  simp only at h
  split at h
  · simp only [pure, Except.pure, Except.ok.injEq] at h
    subst h; rfl
  · simp only [bind, Except.bind] at h
    split at h
    · cases h
    · split at h
      · cases h
      · exact writePositionsSequentially_length _ _ _ h

theorem distillate_length (cmp : Int → Int → Bool) (s : LinFun α) (fuel : Nat) (maxCred : α) (pos : Int)
    (m : Matrix α) (inner : Bool) (ps : List Int)
    (h : distillate cmp s fuel maxCred pos m inner = .ok ps) : ps.length = m.size := by
  cases fuel with
  | zero => simp [distillate, throw, throwThe, MonadExceptOf.throw] at h
  | succ fuel =>
    unfold distillate at h
    split at h
    · simp only [pure, Except.pure, Except.ok.injEq] at h
      subst h; simp [samePositions]
    · simp only [bind, Except.bind] at h
      split at h
      · cases h
      · split at h
        · cases h
        · split at h
          · cases h
          · rename_i positions hp
            rw [finishLevel_length _ _ _ _ _ _ _ h]
            exact levelPositions_length _ _ _ _ _ _ hp

theorem filter_size (m : Matrix α) (f : Nat → Nat → α → Bool) : (m.filter f).size = m.size := rfl

/-- `rank` returns one class number per alternative -/
theorem rank_length (m : Matrix α) (s : LinFun α) (cmp : Int → Int → Bool) (ps : List Int)
    (h : rank m s cmp = .ok ps) : ps.length = m.size := by
  unfold rank at h
  simp only [bind, Except.bind] at h
  split at h
  · cases h
  · have := distillate_length _ _ _ _ _ _ _ _ h
    simpa [removeDiagonal, filter_size] using this

end Rdm
