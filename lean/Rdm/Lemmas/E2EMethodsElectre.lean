/-
  Lemmas for the END-TO-END theorems about ELECTRE III (C05, C06), part 3:
    * inversion of `electreIII` into credibility matrix (square, one row per alternative), the two
      distillations (one class number per alternative) and `evaluateRanking`;
    * two requests without an enabled bias that list the same alternatives in another order reach
      `Evaluate` with considered alternatives that are permuted accordingly.
  All names carry the prefix `e2em`.
-/
import Rdm.Lemmas.E2EMethods
import Rdm.Lemmas.ElectreLinks
import Rdm.Lemmas.ElectreDominance
import Rdm.Lemmas.ElectrePermutation
namespace Rdm
set_option linter.unusedSectionVars false
set_option linter.unusedSimpArgs false
variable {α : Type} [Num α]

/-- `ElectreIII` that answered: the credibility matrix of the alternatives (square, `n × n`), its two
    distillations (one class number per alternative) and `EvaluateRanking` of them -/
theorem e2em_electreIII_ok {alts : List (Alt α)} {crits : List (Crit α)} {ec : KMap (ECrit α)} {dist : LinFun α}
    {r : List (Linked (Int × Int))} (h : electreIII alts crits ec dist = .ok r) :
    ∃ m asc desc, credibilityMatrix alts crits ec = .ok m ∧ rankAscending m dist = .ok asc ∧
      rankDescending m dist = .ok desc ∧ r = evaluateRanking asc desc (alts.map (·.id)) ∧
      m.size = alts.length ∧ m.data.length = m.size * m.size ∧
      asc.length = alts.length ∧ desc.length = alts.length := by
  unfold electreIII at h
  obtain ⟨m, hm, h⟩ := bind_eq_ok.mp h
  obtain ⟨asc, hasc, h⟩ := bind_eq_ok.mp h
  obtain ⟨desc, hdesc, h⟩ := bind_eq_ok.mp h
  simp only [pure, Except.pure, Except.ok.injEq] at h
  have hsz : m.size = alts.length := credibilityMatrix_size alts crits ec m hm
  refine ⟨m, asc, desc, hm, hasc, hdesc, h.symm, hsz, credibilityMatrix_len alts crits ec m hm, ?_, ?_⟩
  · rw [← hsz]; exact rank_length m dist _ asc hasc
  · rw [← hsz]; exact e2e_rankDescending_length m dist desc hdesc

/-- the considered alternatives of two bias-free requests that list the same known alternatives (distinct ids)
    in another order and name them in `choseToMake` in the order `π` -/
theorem e2em_prepareParams_permuted {req req' : Request α} {mp mp' : MParams α} {d d' : DMP α}
    (hk : req'.known.Perm req.known) (hnd : (req.known.map (·.id)).Nodup) (π : Nat → Nat)
    (hπ : ∀ i, i < req.chosen.length → π i < req.chosen.length)
    (hl : req'.chosen.length = req.chosen.length)
    (hc : ∀ i (hi : i < req.chosen.length), req'.chosen[i]'(by rw [hl]; exact hi) = req.chosen[π i]'(hπ i hi))
    (hp : prepareParams req mp = .ok d) (hp' : prepareParams req' mp' = .ok d') :
    d.co.length = req.chosen.length ∧ d'.co.length = req.chosen.length ∧
    ∀ i (_ : i < req.chosen.length) (h1 : i < d'.co.length) (h2 : π i < d.co.length), d'.co[i] = d.co[π i] := by
  have l1 : d.co.length = req.chosen.length := by
    have := congrArg List.length (e2e_prepareParams_ok hp).1; simpa using this
  have l2 : d'.co.length = req.chosen.length := by
    have := congrArg List.length (e2e_prepareParams_ok hp').1; simpa [hl] using this
  refine ⟨l1, l2, ?_⟩
  intro i hi h1 h2
  obtain ⟨_, f'⟩ := e2em_prepareParams_getElem hp' i (by rw [hl]; exact hi)
  obtain ⟨_, f⟩ := e2em_prepareParams_getElem hp (π i) (hπ i hi)
  rw [hc i hi, ← e2e_fetchAlt_perm hk.symm hnd, f] at f'
  simp only [Except.ok.injEq] at f'
  exact f'.symm

/-! ### `betterThanOrSameAs` is determined by the indices -/

/-- the links clause of C05 stated on the entries themselves: entry i lists b exactly when b is the id of
    another entry j that is not ahead of i in either distillation -/
def E2EMLinksByIndices (out : List (Linked (Int × Int))) : Prop :=
  ∀ (i : Nat) (hi : i < out.length) (b : String), b ∈ out[i].links ↔
    ∃ (j : Nat) (hj : j < out.length), j ≠ i ∧ out[j].id = b ∧ out[i].ev.1 ≤ out[j].ev.1 ∧ out[i].ev.2 ≤ out[j].ev.2

theorem e2em_evaluateRanking_linksByIndices (asc desc : List Int) (ids : List String)
    (ha : asc.length = ids.length) (hd : desc.length = ids.length) :
    E2EMLinksByIndices (evaluateRanking asc desc ids) := by
  have hlen := el_evaluateRanking_length asc desc ids ha hd
  intro i hi b
  have hi' : i < ids.length := by rw [← hlen]; exact hi
  obtain ⟨_, e2, e3⟩ := el_evaluateRanking_getElem asc desc ids ha hd i hi'
  rw [e3 b, e2]
  constructor
  · rintro ⟨j, hj, hne, hid, h1, h2⟩
    obtain ⟨f1, f2, _⟩ := el_evaluateRanking_getElem asc desc ids ha hd j hj
    exact ⟨j, by rw [hlen]; exact hj, hne, by rw [f1]; exact hid, by rw [f2]; exact h1, by rw [f2]; exact h2⟩
  · rintro ⟨j, hj, hne, hid, h1, h2⟩
    have hj' : j < ids.length := by rw [← hlen]; exact hj
    obtain ⟨f1, f2, _⟩ := el_evaluateRanking_getElem asc desc ids ha hd j hj'
    rw [f2] at h1 h2
    exact ⟨j, hj', hne, by rw [← f1]; exact hid, h1, h2⟩

/-- the answer of `ElectreIII`: one entry per alternative, in order, same id; links determined by the indices -/
theorem e2em_electreIII_shape {alts : List (Alt α)} {crits : List (Crit α)} {ec : KMap (ECrit α)} {dist : LinFun α}
    {r : List (Linked (Int × Int))} (h : electreIII alts crits ec dist = .ok r) :
    r.length = alts.length ∧ (∀ i (hi : i < alts.length) (h' : i < r.length), r[i].id = alts[i].id) ∧
    E2EMLinksByIndices r := by
  obtain ⟨m, asc, desc, _, _, _, rfl, _, _, hal, hdl⟩ := e2em_electreIII_ok h
  have ha : asc.length = (alts.map (·.id)).length := by simpa using hal
  have hd : desc.length = (alts.map (·.id)).length := by simpa using hdl
  refine ⟨by rw [el_evaluateRanking_length _ _ _ ha hd]; simp, ?_, e2em_evaluateRanking_linksByIndices _ _ _ ha hd⟩
  intro i hi h'
  have := (el_evaluateRanking_getElem asc desc (alts.map (·.id)) ha hd i (by simpa using hi)).1
  rw [this]; simp

/-- if two answers carry, position by position along a permutation `π`, the same ids and the same pairs of
    indices, and both have their links determined by the indices, then the links agree as well -/
theorem e2em_links_equivariant {out out' : List (Linked (Int × Int))} {n : Nat} {π : Nat → Nat}
    (hπ : IsPerm n π) (hl : out.length = n) (hl' : out'.length = n)
    (hk : E2EMLinksByIndices out) (hk' : E2EMLinksByIndices out')
    (he : ∀ i (_ : i < n) (h1 : i < out'.length) (h2 : π i < out.length),
      out'[i].ev = out[π i].ev ∧ out'[i].id = out[π i].id) :
    ∀ i (_ : i < n) (h1 : i < out'.length) (h2 : π i < out.length) (b : String),
      b ∈ out'[i].links ↔ b ∈ out[π i].links := by
  intro i hi h1 h2 b
  rw [hk' i h1 b, hk (π i) h2 b]
  obtain ⟨ei, _⟩ := he i hi h1 h2
  constructor
  · rintro ⟨j, hj, hne, hid, p1, p2⟩
    have hjn : j < n := by rw [← hl']; exact hj
    have hj2 : π j < out.length := by rw [hl]; exact hπ.lt j hjn
    obtain ⟨ej, ij⟩ := he j hjn hj hj2
    refine ⟨π j, hj2, fun e => hne (hπ.inj j i e), by rw [← ij]; exact hid, ?_, ?_⟩
    · rw [← ei, ← ej]; exact p1
    · rw [← ei, ← ej]; exact p2
  · rintro ⟨k, hk0, hne, hid, p1, p2⟩
    have hkn : k < n := by rw [← hl]; exact hk0
    have : k ∈ (List.range n).map π := hπ.perm.mem_iff.mpr (List.mem_range.mpr hkn)
    obtain ⟨j, hjr, rfl⟩ := List.mem_map.mp this
    have hjn : j < n := List.mem_range.mp hjr
    have hj : j < out'.length := by rw [hl']; exact hjn
    obtain ⟨ej, ij⟩ := he j hjn hj hk0
    refine ⟨j, hj, fun e => hne (by rw [e]), by rw [ij]; exact hid, ?_, ?_⟩
    · rw [ei, ej]; exact p1
    · rw [ei, ej]; exact p2

/-! ### decidable forms of the hypotheses of C06 (for concrete instances) -/

/-- every criterion in use has in-domain thresholds (`Props.C06.Guard` as a Boolean) -/
def e2emGuardB (crits : List (Crit Rat)) (ec : KMap (ECrit Rat)) : Bool :=
  crits.all fun c => match ec.get? c.id with
    | some t => Spec.C05.critInDomain t
    | none => true

theorem e2em_guardB {crits : List (Crit Rat)} {ec : KMap (ECrit Rat)} (h : e2emGuardB crits ec = true) :
    ∀ c ∈ crits, ∀ t, ec.get? c.id = some t → Spec.C05.critInDomain t = true := by
  intro c hc t ht
  unfold e2emGuardB at h
  have := List.all_eq_true.mp h c hc
  rw [ht] at this
  exact this

/-- `a'` is at least as good as `a` on every criterion (`Dominates` as a Boolean) -/
def e2emDominatesB (crits : List (Crit Rat)) (a' a : Alt Rat) : Bool :=
  crits.all fun c => match a.signed c, a'.signed c with
    | .ok x, .ok y => decide (x ≤ y)
    | _, _ => true

theorem e2em_dominatesB {crits : List (Crit Rat)} {a' a : Alt Rat} (h : e2emDominatesB crits a' a = true) :
    Dominates crits a' a := by
  intro c hc x y hx hy
  unfold e2emDominatesB at h
  have := List.all_eq_true.mp h c hc
  rw [hx, hy] at this
  simpa using this

end Rdm
