import Mathlib.Tactic.Linarith
import Rdm.Model.Ranking
import Rdm.Spec.C04
import Rdm.Lemmas.NumRat
namespace Rdm

theorem rankLe_iff (a b : Scored Rat) :
    rankLe a b = true ↔ (a.v = b.v ∧ a.id ≤ b.id) ∨ b.v < a.v := by
  unfold rankLe
  by_cases h : a.v = b.v <;> simp [h]

theorem rankLe_total (a b : Scored Rat) : (rankLe a b || rankLe b a) = true := by
  simp only [Bool.or_eq_true, rankLe_iff]
  rcases lt_trichotomy a.v b.v with h | h | h
  · right; right; exact h
  · rcases String.le_total a.id b.id with h2 | h2
    · left; left; exact ⟨h, h2⟩
    · right; left; exact ⟨h.symm, h2⟩
  · left; right; exact h

theorem rankLe_trans (a b c : Scored Rat) (h1 : rankLe a b = true) (h2 : rankLe b c = true) :
    rankLe a c = true := by
  rw [rankLe_iff] at *
  rcases h1 with ⟨e1, i1⟩ | h1 <;> rcases h2 with ⟨e2, i2⟩ | h2
  · left; exact ⟨e1.trans e2, String.le_trans i1 i2⟩
  · right; rw [e1]; exact h2
  · right; rw [← e2]; exact h1
  · right; exact lt_trans h2 h1

theorem rankLe_antisymm (a b : Scored Rat) (h1 : rankLe a b = true) (h2 : rankLe b a = true) :
    a = b := by
  rw [rankLe_iff] at *
  cases a; cases b
  simp only at *
  rcases h1 with ⟨e1, i1⟩ | h1 <;> rcases h2 with ⟨e2, i2⟩ | h2
  · rw [e1, String.le_antisymm i1 i2]
  · rw [e1] at h2; exact absurd h2 (lt_irrefl _)
  · rw [e2] at h1; exact absurd h1 (lt_irrefl _)
  · exact absurd (lt_trans h1 h2) (lt_irrefl _)

/-- value part of `rankLe` -/
theorem rankLe_v (a b : Scored Rat) (h : rankLe a b = true) : b.v ≤ a.v := by
  rw [rankLe_iff] at h
  rcases h with ⟨e, _⟩ | h
  · exact le_of_eq e.symm
  · exact le_of_lt h

theorem mergeSort_rankLe_pairwise (l : List (Scored Rat)) :
    (l.mergeSort rankLe).Pairwise (fun a b => rankLe a b = true) :=
  List.pairwise_mergeSort rankLe_trans rankLe_total l

theorem mergeSort_rankLe_perm_eq {l₁ l₂ : List (Scored Rat)} (h : l₁.Perm l₂) :
    l₁.mergeSort rankLe = l₂.mergeSort rankLe := by
  apply List.Perm.eq_of_pairwise (le := fun a b => rankLe a b = true)
  · intro a b _ _ h1 h2; exact rankLe_antisymm a b h1 h2
  · exact mergeSort_rankLe_pairwise l₁
  · exact mergeSort_rankLe_pairwise l₂
  · exact (List.mergeSort_perm l₁ rankLe).trans (h.trans (List.mergeSort_perm l₂ rankLe).symm)

end Rdm
