/-
  `KMap` (association list standing for a Go map) lemmas: `get?` / `set` / membership, and an invariant
  rule for `List.foldlM` in `Except`.  Core only.
-/
import Rdm.Lemmas.BiasBExcept
namespace Rdm
variable {β : Type}

theorem lookup_mem {k : String} {v : β} : ∀ {m : KMap β}, List.lookup k m = some v → (k, v) ∈ m := by
  intro m
  induction m with
  | nil => intro h; simp [List.lookup] at h
  | cons p ps ih =>
    intro h
    obtain ⟨k', v'⟩ := p
    simp only [List.lookup] at h
    split at h
    · rename_i heq
      simp at h; subst h
      have : k = k' := by simpa using heq
      subst this; simp
    · exact List.mem_cons_of_mem _ (ih h)

theorem KMap.get?_mem {m : KMap β} {k : String} {v : β} (h : m.get? k = some v) : (k, v) ∈ m :=
  lookup_mem h

theorem KMap.mem_set {m : KMap β} {k : String} {v : β} {e : String × β} (h : e ∈ m.set k v) :
    e ∈ m ∨ e = (k, v) := by
  unfold KMap.set at h
  split at h
  · rw [List.mem_map] at h
    obtain ⟨p, hp, rfl⟩ := h
    split
    · right; rfl
    · left; exact hp
  · rw [List.mem_append] at h
    rcases h with h | h
    · left; exact h
    · right; simpa using h

theorem lookup_map_ne {k k' : String} {v : β} (hne : k' ≠ k) : ∀ (m : KMap β),
    List.lookup k' (m.map fun p => if p.1 == k then (k, v) else p) = List.lookup k' m := by
  intro m
  induction m with
  | nil => rfl
  | cons p ps ih =>
    obtain ⟨a, b⟩ := p
    rw [List.map_cons]
    have hk'k : (k' == k) = false := by simpa using hne
    by_cases hak : (a == k) = true
    · have e : a = k := by simpa using hak
      rw [if_pos hak]
      simp only [List.lookup]
      rw [hk'k, e, hk'k]
      exact ih
    · rw [if_neg hak]
      simp only [List.lookup]
      rw [ih]

theorem lookup_map_eq {k : String} {v : β} : ∀ (m : KMap β), (m.any fun p => p.1 == k) = true →
    List.lookup k (m.map fun p => if p.1 == k then (k, v) else p) = some v := by
  intro m
  induction m with
  | nil => intro h; simp at h
  | cons p ps ih =>
    intro h
    obtain ⟨a, b⟩ := p
    rw [List.map_cons]
    by_cases hak : (a == k) = true
    · rw [if_pos hak]
      simp only [List.lookup]
      have : (k == k) = true := by simp
      rw [this]
    · rw [if_neg hak]
      simp only [List.lookup]
      have e : ¬ a = k := by simpa using hak
      have h3 : (k == a) = false := by simpa using (Ne.symm e)
      rw [h3]
      apply ih
      rw [List.any_cons] at h
      have h2 : (a == k) = false := by simpa using hak
      simpa [h2] using h

theorem lookup_append_ne {k k' : String} {v : β} (hne : k' ≠ k) (m : KMap β) :
    List.lookup k' (m ++ [(k, v)]) = List.lookup k' m := by
  induction m with
  | nil =>
    have : (k' == k) = false := by simpa using hne
    simp [List.lookup, this]
  | cons p ps ih =>
    obtain ⟨a, b⟩ := p
    simp only [List.cons_append, List.lookup]
    split <;> simp_all

theorem lookup_append_new {k : String} {v : β} (m : KMap β) (h : (m.any fun p => p.1 == k) = false) :
    List.lookup k (m ++ [(k, v)]) = some v := by
  induction m with
  | nil => simp [List.lookup]
  | cons p ps ih =>
    obtain ⟨a, b⟩ := p
    simp only [List.any_cons, Bool.or_eq_false_iff] at h
    have h1 : (k == a) = false := by
      have := h.1; simp at this; simpa using (Ne.symm this)
    simp only [List.cons_append, List.lookup, h1]
    exact ih h.2

theorem KMap.get?_set_ne {m : KMap β} {k k' : String} {v : β} (hne : k' ≠ k) :
    (m.set k v).get? k' = m.get? k' := by
  unfold KMap.set KMap.get?
  split
  · exact lookup_map_ne hne m
  · exact lookup_append_ne hne m

theorem KMap.get?_set_eq {m : KMap β} {k : String} {v : β} : (m.set k v).get? k = some v := by
  unfold KMap.set KMap.get?
  split
  · rename_i h; exact lookup_map_eq m h
  · rename_i h; exact lookup_append_new m (by simpa only [Bool.not_eq_true] using h)

/-- invariant rule for `foldlM` in `Except` -/
theorem foldlM_invariant {ε α γ : Type} {f : γ → α → Except ε γ} (P : γ → Prop)
    (hstep : ∀ b a b', P b → f b a = .ok b' → P b') :
    ∀ (l : List α) (b b' : γ), P b → l.foldlM f b = .ok b' → P b' := by
  intro l
  induction l with
  | nil => intro b b' hb h; simp [List.foldlM, pure, Except.pure] at h; subst h; exact hb
  | cons a as ih =>
    intro b b' hb h
    rw [List.foldlM_cons] at h
    obtain ⟨b1, h1, h2⟩ := bind_eq_ok.mp h
    exact ih b1 b' (hstep b a b1 hb h1) h2

/-- invariant rule for `foldlM` where the step may use membership in the list -/
theorem foldlM_invariant_mem {ε α γ : Type} {f : γ → α → Except ε γ} (P : γ → Prop) :
    ∀ (l : List α), (∀ b a b', a ∈ l → P b → f b a = .ok b' → P b') →
      ∀ (b b' : γ), P b → l.foldlM f b = .ok b' → P b' := by
  intro l
  induction l with
  | nil => intro _ b b' hb h; simp [List.foldlM, pure, Except.pure] at h; subst h; exact hb
  | cons a as ih =>
    intro hstep b b' hb h
    rw [List.foldlM_cons] at h
    obtain ⟨b1, h1, h2⟩ := bind_eq_ok.mp h
    exact ih (fun b a' b' ha' => hstep b a' b' (List.mem_cons_of_mem _ ha')) b1 b'
      (hstep b a b1 (by simp) hb h1) h2

end Rdm
