/-
  Reachability along the links of a utility ranking: the reflexive-transitive closure of the link
  relation from an entry is exactly the set of entries whose value is not higher.
-/
import Mathlib.Logic.Relation
import Rdm.Lemmas.RankingLinks
import Rdm.Lemmas.RankingWellformed
namespace Rdm

/-- one step along `betterThanOrSameAs` inside a ranking: `x` has an entry that links to `y` -/
def LinkStep (out : List (RankEntry Rat)) (x y : String) : Prop := ∃ e ∈ out, e.id = x ∧ y ∈ e.links

theorem linkStep_entriesOf (s : List (Scored Rat)) (x y : String) :
    LinkStep (entriesOf s) x y ↔ ∃ a ∈ s, a.id = x ∧ y ∈ positionInRanking a s := by
  unfold LinkStep entriesOf
  constructor
  · rintro ⟨e, he, rfl, hy⟩
    obtain ⟨a, ha, rfl⟩ := List.mem_map.mp he
    exact ⟨a, ha, rfl, hy⟩
  · rintro ⟨a, ha, rfl, hy⟩
    exact ⟨_, List.mem_map.mpr ⟨a, ha, rfl⟩, rfl, hy⟩

/-- soundness: links only lead to values that are not higher -/
theorem reach_le (s : List (Scored Rat)) (hs : s.Pairwise (fun a b => rankLe a b = true))
    (hnd : (s.map (·.id)).Nodup) (x y : String)
    (h : Relation.ReflTransGen (LinkStep (entriesOf s)) x y) :
    ∀ a ∈ s, a.id = x → ∃ r ∈ s, r.id = y ∧ r.v ≤ a.v := by
  induction h using Relation.ReflTransGen.head_induction_on with
  | refl => intro a ha e; exact ⟨a, ha, e, le_refl _⟩
  | head hstep _ ih =>
    intro a ha e
    obtain ⟨a', ha', e', hy⟩ := (linkStep_entriesOf s _ _).mp hstep
    have : a' = a := eq_of_id_eq (·.id) hnd ha' ha (e'.trans e.symm)
    subst this
    obtain ⟨r, hr, hrid, hh⟩ := (mem_positionInRanking a' s hs _).mp hy
    obtain ⟨r', hr', hid', hle⟩ := ih r hr hrid
    refine ⟨r', hr', hid', le_trans hle ?_⟩
    rcases hh with ⟨_, hv⟩ | ⟨hv, _⟩
    · exact le_of_eq hv
    · exact le_of_lt hv

/-- completeness: every entry whose value is not higher is reached -/
theorem le_reach (s : List (Scored Rat)) (hs : s.Pairwise (fun a b => rankLe a b = true)) :
    ∀ (n : Nat) (a : Scored Rat), a ∈ s → (s.filter fun r => decide (r.v < a.v)).length ≤ n →
      ∀ r ∈ s, r.v ≤ a.v → Relation.ReflTransGen (LinkStep (entriesOf s)) a.id r.id := by
  intro n
  induction n with
  | zero =>
    intro a ha hn r hr hle
    have hnil : s.filter (fun r => decide (r.v < a.v)) = [] := List.eq_nil_of_length_eq_zero (Nat.le_zero.mp hn)
    have hnot : ¬ r.v < a.v := fun hlt => by
      have : r ∈ s.filter (fun r => decide (r.v < a.v)) := List.mem_filter.mpr ⟨hr, by simpa using hlt⟩
      rw [hnil] at this; simp at this
    have hv : r.v = a.v := le_antisymm hle (not_lt.mp hnot)
    by_cases hid : r.id = a.id
    · rw [hid]
    · exact Relation.ReflTransGen.single ((linkStep_entriesOf s _ _).mpr
        ⟨a, ha, rfl, (mem_positionInRanking a s hs _).mpr ⟨r, hr, rfl, Or.inl ⟨hid, hv⟩⟩⟩)
  | succ n ih =>
    intro a ha hn r hr hle
    rcases lt_or_eq_of_le hle with hlt | hv
    · -- go one level down first
      have hdesc := pairwise_desc_of_rankLe hs
      have hp' := hdesc.filter (fun r => decide (r.v < a.v))
      cases hf : s.filter (fun r => decide (r.v < a.v)) with
      | nil =>
        have : r ∈ s.filter (fun r => decide (r.v < a.v)) := List.mem_filter.mpr ⟨hr, by simpa using hlt⟩
        rw [hf] at this; simp at this
      | cons m tl =>
        have hm : m ∈ s.filter (fun r => decide (r.v < a.v)) := by rw [hf]; simp
        have hml : m ∈ s := (List.mem_filter.mp hm).1
        have hmv : m.v < a.v := by simpa using (List.mem_filter.mp hm).2
        have hmax : ∀ y ∈ s, y.v < a.v → y.v ≤ m.v := by
          intro y hy hlt
          have : y ∈ s.filter (fun r => decide (r.v < a.v)) := List.mem_filter.mpr ⟨hy, by simpa using hlt⟩
          rw [hf] at this hp'
          rcases List.mem_cons.mp this with rfl | h
          · exact le_refl _
          · exact (List.pairwise_cons.mp hp').1 y h
        have hstep : LinkStep (entriesOf s) a.id m.id :=
          (linkStep_entriesOf s _ _).mpr ⟨a, ha, rfl, (mem_positionInRanking a s hs _).mpr
            ⟨m, hml, rfl, Or.inr ⟨hmv, fun ⟨y, hy, h1, h2⟩ => by have := hmax y hy h2; linarith⟩⟩⟩
        have hcount : (s.filter fun r => decide (r.v < m.v)).length ≤ n := by
          have hsub : (s.filter fun r => decide (r.v < m.v)).Sublist tl := by
            have h1 : (s.filter fun r => decide (r.v < m.v))
                = (s.filter fun r => decide (r.v < a.v)).filter fun r => decide (r.v < m.v) := by
              rw [List.filter_filter]
              apply List.filter_congr
              intro x _
              by_cases hx : x.v < m.v
              · simp [hx, lt_trans hx hmv]
              · simp [hx]
            rw [h1, hf, List.filter_cons_of_neg (by simp)]
            exact List.filter_sublist
          have := hsub.length_le
          rw [hf] at hn
          simp only [List.length_cons] at hn
          omega
        exact Relation.ReflTransGen.head hstep (ih m hml hcount r hr (hmax r hr hlt))
    · by_cases hid : r.id = a.id
      · rw [hid]
      · exact Relation.ReflTransGen.single ((linkStep_entriesOf s _ _).mpr
          ⟨a, ha, rfl, (mem_positionInRanking a s hs _).mpr ⟨r, hr, rfl, Or.inl ⟨hid, hv⟩⟩⟩)

end Rdm
