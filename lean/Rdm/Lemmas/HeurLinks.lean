/-
  Lemmas about `sequentialRanking` (heuristic-utils.go: PrepareSequentialRanking) and the search order.
-/
import Rdm.Model.Heuristics
import Rdm.Lemmas.HeurList
import Mathlib.Data.List.Perm.Basic
set_option linter.unusedSectionVars false
set_option linter.unusedSimpArgs false
namespace Rdm
variable {α : Type} [Num α]

theorem heurSeq_ids {β : Type} : ∀ (l : List (String × β)),
    (sequentialRanking l).map (·.id) = l.map (·.1)
  | [] => rfl
  | [(_, _)] => rfl
  | (i, e) :: (j, f) :: rest => by
    simp [sequentialRanking, heurSeq_ids ((j, f) :: rest)]

theorem heurSeq_payload {β : Type} : ∀ (l : List (String × β)),
    (sequentialRanking l).map (fun e => (e.id, e.ev)) = l
  | [] => rfl
  | [(_, _)] => rfl
  | (i, e) :: (j, f) :: rest => by
    simp [sequentialRanking, heurSeq_payload ((j, f) :: rest)]

theorem heurSeq_length {β : Type} (l : List (String × β)) :
    (sequentialRanking l).length = l.length := by
  have := congrArg List.length (heurSeq_ids l); simpa using this

/-- entry `i` links to entry `i+1` if there is one, and to nothing else -/
theorem heurSeq_links {β : Type} : ∀ (l : List (String × β)) (i : Nat) (e : Linked β),
    (sequentialRanking l)[i]? = some e → e.links = ((l.map (·.1))[i + 1]?).toList
  | [], i, e, h => by simp [sequentialRanking] at h
  | [(_, _)], i, e, h => by
    cases i with
    | zero => simp [sequentialRanking] at h; subst h; simp
    | succ i => simp [sequentialRanking] at h
  | (a, x) :: (b, y) :: rest, i, e, h => by
    cases i with
    | zero => simp [sequentialRanking] at h; subst h; simp
    | succ i =>
      have h' : (sequentialRanking ((b, y) :: rest))[i]? = some e := by simpa [sequentialRanking] using h
      have := heurSeq_links ((b, y) :: rest) i e h'
      simpa using this

/-- every entry of the ranking stems from an input pair -/
theorem heurSeq_mem {β : Type} (l : List (String × β)) (e : Linked β)
    (h : e ∈ sequentialRanking l) : (e.id, e.ev) ∈ l := by
  have := heurSeq_payload l
  rw [← this]
  exact List.mem_map.mpr ⟨e, h, rfl⟩

/-! ### search order -/

/-- with a current choice: it comes first, was looked up among ALL alternatives, and the rest is a
    permutation of the considered alternatives without it -/
theorem searchOrder_with_current (d : DMP α) (cur : String) (rnd : Bool) (ds ds' : Draws α)
    (first : Alt α) (rest : List (Alt α)) (hc : cur ≠ "")
    (h : searchOrder d cur rnd ds = Except.ok ((first, rest), ds')) :
    first.id = cur ∧ first ∈ d.all ∧ rest.Perm (removeAlt d.co cur) := by
  unfold searchOrder at h
  have hb : (cur != "") = true := by simpa using hc
  simp only [hb, if_true] at h
  obtain ⟨choice, h1, h⟩ := R.bind_eq_ok h
  obtain ⟨⟨others, ds1⟩, h2, h⟩ := R.bind_eq_ok h
  simp at h
  obtain ⟨⟨rfl, rfl⟩, rfl⟩ := h
  unfold fetchAlt at h1
  split at h1
  · rename_i a hf
    simp at h1; subst h1
    have := List.find?_some hf
    have hid : a.id = cur := by simpa using this
    refine ⟨hid, List.mem_of_find?_eq_some hf, ?_⟩
    rw [← hid]; exact orderAlternatives_perm _ _ _ _ _ h2
  · simp at h1

/-- without a current choice: head and tail of the ordered considered alternatives -/
theorem searchOrder_without_current (d : DMP α) (rnd : Bool) (ds ds' : Draws α)
    (first : Alt α) (rest : List (Alt α))
    (h : searchOrder d "" rnd ds = Except.ok ((first, rest), ds')) :
    (first :: rest).Perm d.co := by
  unfold searchOrder at h
  simp at h
  obtain ⟨⟨alts, ds1⟩, h2, h⟩ := R.bind_eq_ok h
  cases alts with
  | nil => simp at h
  | cons a r =>
    simp at h
    obtain ⟨⟨rfl, rfl⟩, rfl⟩ := h
    exact orderAlternatives_perm _ _ _ _ _ h2

/-- fixed order: exactly the considered list (current choice removed and put in front) -/
theorem searchOrder_fixed_without_current (d : DMP α) (ds : Draws α) (a : Alt α) (r : List (Alt α))
    (h : d.co = a :: r) : searchOrder d "" false ds = Except.ok ((a, r), ds) := by
  unfold searchOrder
  simp [orderAlternatives_fixed, h]

end Rdm
