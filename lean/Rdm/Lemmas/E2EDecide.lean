/-
  Lemmas for the END-TO-END theorems about `decideWith` / `Rdm.decide` (Model/Decide.lean), part 1:
    * inversion of `decideWith` into `pipeline` + `evaluateWith`;
    * the part of the method parameters no bias ever touches (`e2eTag`: which method it is, and the
      heuristic's `currentChoice`), as an invariant of `applyBias`, of the whole loop and of `pipeline`;
    * the frame of `pipeline`: considered ids = `choseToMake`, not-considered ids as `prepareParams`
      built them, tag of the request's parameters;
    * the response's `biases` list: names and probabilities of the enabled biases, in request order.
  All lemma names carry the prefix `e2e_` (every lemma file shares `namespace Rdm`).
-/
import Rdm.Lemmas.DecideFrame
import Mathlib.Data.List.Perm.Basic
namespace Rdm
set_option linter.unusedSectionVars false
variable {α : Type} [Num α]

/-! ### inversion of `decideWith` -/

theorem e2e_decideWith_ok {exp : α → α} {o : List (WCrit α) → List (WCrit α)} {req : Request α}
    {g : Int → Draws α} {resp : Response α} (h : decideWith exp o req g = .ok resp) :
    pipeline exp req g = .ok (resp.final, resp.biases) ∧ evaluateWith o g resp.final = .ok resp.result := by
  unfold decideWith at h
  obtain ⟨⟨fin, outs⟩, hp, h⟩ := bind_eq_ok.mp h
  obtain ⟨res, he, h⟩ := bind_eq_ok.mp h
  simp only [pure, Except.pure, Except.ok.injEq] at h
  subst h
  exact ⟨hp, he⟩

theorem e2e_decideWith_of {exp : α → α} {o : List (WCrit α) → List (WCrit α)} {req : Request α}
    {g : Int → Draws α} {fin : DMP α} {outs : List (BiasOut α (Report α))} {res : List (Linked (Eval α))}
    (hp : pipeline exp req g = .ok (fin, outs)) (he : evaluateWith o g fin = .ok res) :
    decideWith exp o req g = .ok ⟨res, outs, fin⟩ := by
  unfold decideWith
  rw [hp]
  simp only [bind, Except.bind]
  rw [he]
  rfl

/-! ### what no bias changes in the method parameters -/

/-- the method the parameters belong to (constructor index) and the heuristic's `currentChoice`
    (majority, satisfaction; "" for the methods that have none) -/
def e2eTag : MParams α → Nat × String
  | .ws _ => (0, "")
  | .owa _ => (1, "")
  | .choquet _ _ => (2, "")
  | .electre _ _ => (3, "")
  | .majority _ cur _ _ _ => (4, cur)
  | .aspect _ _ _ _ _ => (5, "")
  | .satisf _ _ _ cur _ => (6, cur)

/-- the heuristic's `currentChoice` ("" = none given, and for the methods without one) -/
def e2eCur (mp : MParams α) : String := (e2eTag mp).2

/-- weightedSum, owa, choquetIntegral -/
def e2eIsUtility (mp : MParams α) : Bool := decide ((e2eTag mp).1 ≤ 2)

theorem e2e_onRemoved_tag {mp mp' : MParams α} {left : List (Crit α)} (h : onRemoved mp left = .ok mp') :
    e2eTag mp' = e2eTag mp := by
  cases mp with
  | ws wc =>
    simp only [onRemoved] at h
    obtain ⟨x, _, h⟩ := bind_eq_ok.mp h
    simp only [pure, Except.pure, Except.ok.injEq] at h; subst h; rfl
  | owa wc =>
    simp only [onRemoved] at h
    obtain ⟨x, _, h⟩ := bind_eq_ok.mp h
    simp only [pure, Except.pure, Except.ok.injEq] at h; subst h; rfl
  | choquet w cs =>
    simp only [onRemoved] at h
    obtain ⟨x, _, h⟩ := bind_eq_ok.mp h
    simp only [pure, Except.pure, Except.ok.injEq] at h; subst h; rfl
  | electre ec dist =>
    simp only [onRemoved] at h
    obtain ⟨x, _, h⟩ := bind_eq_ok.mp h
    simp only [pure, Except.pure, Except.ok.injEq] at h; subst h; rfl
  | majority w cur seed rnd dr =>
    simp only [onRemoved] at h
    obtain ⟨x, _, h⟩ := bind_eq_ok.mp h
    simp only [pure, Except.pure, Except.ok.injEq] at h; subst h; rfl
  | aspect fn lv seed w rnd =>
    simp only [onRemoved] at h
    split at h
    · simp [throw, throwThe, MonadExceptOf.throw, bind, Except.bind] at h
    · simp only [pure, Except.pure, bind, Except.bind] at h
      split at h
      · cases h
      · split at h
        · cases h
        · simp only [Except.ok.injEq] at h; subst h; rfl
  | satisf fn lv seed cur rnd =>
    simp only [onRemoved] at h
    split at h
    · simp [throw, throwThe, MonadExceptOf.throw, bind, Except.bind] at h
    · simp only [pure, Except.pure, bind, Except.bind] at h
      split at h
      · cases h
      · simp only [Except.ok.injEq] at h; subst h; rfl

theorem e2e_merge_tag {mp mp' : MParams α} {add : Addition α} (h : mergeParams mp add = .ok mp') :
    e2eTag mp' = e2eTag mp := by
  cases mp <;> cases add <;> simp only [mergeParams] at h <;>
    first
    | (simp [throw, throwThe, MonadExceptOf.throw] at h; done)
    | (simp only [pure, Except.pure, Except.ok.injEq] at h; subst h; rfl)
    | (obtain ⟨x, _, h⟩ := bind_eq_ok.mp h
       simp only [pure, Except.pure, Except.ok.injEq] at h; subst h; rfl)
    | (split at h
       · simp [throw, throwThe, MonadExceptOf.throw, bind, Except.bind] at h
       · simp only [pure, Except.pure, bind, Except.bind] at h
         split at h
         · cases h
         · first
           | (simp only [Except.ok.injEq] at h; subst h; rfl)
           | (split at h
              · cases h
              · simp only [Except.ok.injEq] at h; subst h; rfl))

/-- no bias changes which method the parameters belong to, nor the heuristic's current choice -/
theorem e2e_applyBias_tag {exp : α → α} {g : Int → Draws α} {name : String} {p : BProps α}
    {orig cur res : DMP α} {rep : Report α} (h : applyBias exp g name p orig cur = .ok (res, rep)) :
    e2eTag res.mp = e2eTag cur.mp := by
  cases decideApplyBias_inv h with
  | omission hb =>
    obtain ⟨_, ordered, _, hc⟩ := BiasA.omissionApply_ok hb
    obtain ⟨_, hmp, _, _⟩ := BiasA.omitCriteria_ok hc
    exact e2e_onRemoved_tag hmp
  | reversal hb =>
    obtain ⟨_, _, _, _, _, _, hr⟩ := BiasA.reversalApply_ok hb
    obtain ⟨_, _, _, _, _, _, _, hmp, _⟩ := BiasA.reverseSelected_ok hr
    rw [hmp]
  | fatigue hb =>
    unfold fatigueApply at hb
    obtain ⟨f, _, hb⟩ := bind_eq_ok.mp hb
    obtain ⟨_, _, hmp, _⟩ := BiasA.fatigueBlur_ok hb
    rw [hmp]
  | conceal hb =>
    obtain ⟨_, _, _, _, hm⟩ := decideConceal_params hb
    exact e2e_merge_tag hm
  | mixing hb =>
    rcases decideMixing_cases hb with ⟨_, rfl, _⟩ | ⟨_, _, _, _, _, hc⟩
    · rfl
    · obtain ⟨_, _, _, _, _, _, _, hm, _⟩ := decideMixingCore_params hc
      exact e2e_merge_tag hm
  | anchoring hb =>
    obtain ⟨b, _, hi | hn⟩ := decideAnchoring_cases hb
    · obtain ⟨_, hmp, _⟩ := decideInlineApply_ok hi.2
      rw [hmp]
    · obtain ⟨ranked, ref, range, st, alts, hloop, _, hmp⟩ := decideNewCriterionApply_loop hn.2
      rw [hmp]
      refine decideNcLoop_invariant (fun _ mp => e2eTag mp = e2eTag cur.mp) ?_ _ _ _ _ _ rfl hloop
      intro st ri rp st' hq hnew
      rcases decideNcNewCriterion_cases hnew with rfl | ⟨_, _, _, _, _, _, _, _, hm⟩
      · exact hq
      · rw [e2e_merge_tag hm]; exact hq

theorem e2e_loop_tag {exp : α → α} {g : Int → Draws α} {orig : DMP α}
    (chosen : List (Chosen α (BProps α))) (cur fin : DMP α) (d : Draws α) (outs : List (BiasOut α (Report α)))
    (h : processLoop (applyBias exp g) orig chosen cur d = .ok (fin, outs)) : e2eTag fin.mp = e2eTag cur.mp := by
  refine decideLoop_invariant (Inv := fun s => e2eTag s.mp = e2eTag cur.mp) chosen ?_ cur fin d outs rfl h
  intro b _ c next rep hc ha
  exact (e2e_applyBias_tag ha).trans hc

/-! ### the loop echoes names and probabilities -/

theorem e2e_loop_echo {S P Rep : Type} {apply : String → P → S → S → R (S × Rep)} :
    ∀ (chosen : List (Chosen α P)) (orig cur fin : S) (d : Draws α) (outs : List (BiasOut α Rep)),
      processLoop apply orig chosen cur d = .ok (fin, outs) →
      outs.map (fun o => (o.name, o.prob)) = chosen.map (fun c => (c.name, c.prob)) := by
  intro chosen
  induction chosen with
  | nil =>
    intro orig cur fin d outs h
    simp only [processLoop, pure, Except.pure, Except.ok.injEq, Prod.mk.injEq] at h
    obtain ⟨_, rfl⟩ := h
    rfl
  | cons b rest ih =>
    intro orig cur fin d outs h
    unfold processLoop at h
    obtain ⟨⟨u, d'⟩, _, h⟩ := bind_eq_ok.mp h
    dsimp only at h
    split at h
    · obtain ⟨⟨next, rep⟩, ha, h⟩ := bind_eq_ok.mp h
      dsimp only at h
      obtain ⟨⟨fin', outs'⟩, hl, h⟩ := bind_eq_ok.mp h
      simp only [pure, Except.pure, Except.ok.injEq, Prod.mk.injEq] at h
      obtain ⟨_, rfl⟩ := h
      simp only [List.map_cons, ih orig next fin' d' outs' hl]
    · obtain ⟨⟨fin', outs'⟩, hl, h⟩ := bind_eq_ok.mp h
      simp only [pure, Except.pure, Except.ok.injEq, Prod.mk.injEq] at h
      obtain ⟨_, rfl⟩ := h
      simp only [List.map_cons, ih orig cur fin' d' outs' hl]

/-- `ChooseBiases`: the enabled entries in request order, every name registered, the probability default
    filled in -/
theorem e2e_choose_echo {P : Type} {avail : List String} {reqs : List (BiasReq α P)} {ch : List (Chosen α P)}
    (h : chooseBiases avail reqs = .ok ch) :
    ch.map (fun c => (c.name, c.prob)) =
      (reqs.filter (!·.disabled)).map (fun b => (b.name, b.prob.getD (Num.ofConst Facts.defaultApplyProbability))) ∧
    ∀ b ∈ reqs, b.disabled = false → avail.contains b.name = true := by
  unfold chooseBiases at h
  obtain ⟨hl, hp⟩ := mapM_ok h
  constructor
  · apply List.ext_getElem (by simp [hl])
    intro i h1 h2
    simp only [List.getElem_map]
    have hi' : i < ch.length := by simpa using h1
    have hi : i < (reqs.filter (!·.disabled)).length := by simpa using h2
    have hz : ((reqs.filter (!·.disabled))[i], ch[i]) ∈ (reqs.filter (!·.disabled)).zip ch := by
      rw [List.mem_iff_getElem]; exact ⟨i, by simp only [List.length_zip]; omega, by simp⟩
    have := hp _ hz
    dsimp only at this
    split at this
    · simp only [pure, Except.pure, Except.ok.injEq] at this
      rw [← this]
    · simp [throw, throwThe, MonadExceptOf.throw] at this
  · intro b hb hd
    have hbf : b ∈ reqs.filter (!·.disabled) := by simp [List.mem_filter, hb, hd]
    obtain ⟨i, hi, rfl⟩ := List.mem_iff_getElem.mp hbf
    have hi' : i < ch.length := by omega
    have hz : ((reqs.filter (!·.disabled))[i], ch[i]) ∈ (reqs.filter (!·.disabled)).zip ch := by
      rw [List.mem_iff_getElem]; exact ⟨i, by simp only [List.length_zip]; omega, by simp⟩
    have := hp _ hz
    dsimp only at this
    split at this
    · assumption
    · simp [throw, throwThe, MonadExceptOf.throw] at this

/-! ### the frame of `pipeline` -/

/-- `prepareParams`: the considered alternatives are `choseToMake`, in order, each fetched among the known
    ones; the not-considered ones are the known alternatives not named, in known order -/
theorem e2e_prepareParams_ok {req : Request α} {mp : MParams α} {params : DMP α}
    (h : prepareParams req mp = .ok params) :
    params.co.map (·.id) = req.chosen ∧ (∀ a ∈ params.co, a ∈ req.known) ∧
    params.nc = req.known.filter (fun a => !req.chosen.contains a.id) ∧ params.crit = req.crit ∧ params.mp = mp := by
  unfold prepareParams at h
  obtain ⟨co, hco, hpp⟩ := bind_eq_ok.mp h
  simp only [pure, Except.pure, Except.ok.injEq] at hpp
  subst hpp
  refine ⟨?_, ?_, rfl, rfl, rfl⟩
  · obtain ⟨hl, hpz⟩ := mapM_ok hco
    apply List.ext_getElem (by simp [hl])
    intro i h1 h2
    simp only [List.getElem_map]
    have hi : i < req.chosen.length := h2
    have hi' : i < co.length := by simpa using h1
    have hz : (req.chosen[i], co[i]) ∈ req.chosen.zip co := by
      rw [List.mem_iff_getElem]; exact ⟨i, by simp only [List.length_zip]; omega, by simp⟩
    have := (fetchAlt_ok (hpz _ hz)).2
    simpa using this
  · intro a ha
    obtain ⟨id, _, hf⟩ := mapM_ok_mem hco a ha
    exact (fetchAlt_ok hf).1

/-- everything `pipeline` guarantees about the state it hands to the method, whatever the biases did:
    the request was accepted by `prepare`; considered ids = `choseToMake` (same order), not-considered ids =
    the known alternatives not named (known order); the parameters are still those of the same method with
    the same current choice; the biases list echoes names and probabilities of the enabled entries -/
theorem e2e_pipeline_frame {exp : α → α} {req : Request α} {g : Int → Draws α} {fin : DMP α}
    {outs : List (BiasOut α (Report α))} (h : pipeline exp req g = .ok (fin, outs)) :
    ∃ mp params, req.mp = some mp ∧ prepareParams req mp = .ok params ∧
      validateRequest req.method req.crit req.known req.chosen = .ok () ∧
      e2eTag fin.mp = e2eTag mp ∧
      fin.co.map (·.id) = req.chosen ∧
      fin.nc.map (·.id) = (req.known.filter fun a => !req.chosen.contains a.id).map (·.id) ∧
      outs.map (fun o => (o.name, o.prob)) =
        (req.biases.filter (!·.disabled)).map
          (fun b => (b.name, b.prob.getD (Num.ofConst Facts.defaultApplyProbability))) ∧
      ∀ b ∈ req.biases, b.disabled = false → availableBiases.contains b.name = true := by
  unfold pipeline at h
  obtain ⟨⟨params, chosen⟩, hp, h⟩ := bind_eq_ok.mp h
  obtain ⟨hv, mp, hmp, hpp, hch⟩ := decidePrepare_ok hp
  dsimp only at h
  obtain ⟨e1, e2⟩ := decideLoop_ids chosen params fin _ outs h
  have ht := e2e_loop_tag chosen params fin _ outs h
  have hecho := e2e_loop_echo chosen params params fin _ outs h
  obtain ⟨hco, _, hnc, _, hpmp⟩ := e2e_prepareParams_ok hpp
  obtain ⟨hce, hav⟩ := e2e_choose_echo hch
  refine ⟨mp, params, hmp, hpp, hv, ?_, e1.trans hco, ?_, hecho.trans hce, hav⟩
  · rw [ht, hpmp]
  · rw [e2, hnc]

/-- with distinct ids on both sides, `choseToMake` followed by the known alternatives not named is the known
    set again -/
theorem e2e_split_perm (known : List (Alt α)) (chosen : List String) (hk : (known.map (·.id)).Nodup)
    (hc : chosen.Nodup) (hsub : ∀ x ∈ chosen, x ∈ known.map (·.id)) :
    (chosen ++ (known.filter fun a => !chosen.contains a.id).map (·.id)).Perm (known.map (·.id)) := by
  have hf : (known.filter fun a => !chosen.contains a.id).map (·.id)
      = (known.map (·.id)).filter (fun x => !chosen.contains x) := by
    rw [List.filter_map]; rfl
  rw [hf]
  apply (List.perm_ext_iff_of_nodup ?_ hk).mpr
  · intro x
    simp only [List.mem_append, List.mem_filter, Bool.not_eq_true', List.contains_eq_mem, decide_eq_false_iff_not]
    constructor
    · rintro (h | h)
      · exact hsub x h
      · exact h.1
    · intro h
      by_cases hx : x ∈ chosen
      · exact Or.inl hx
      · exact Or.inr ⟨h, hx⟩
  · apply List.Nodup.append hc (hk.filter _)
    intro x hx hx'
    simp only [List.mem_filter, Bool.not_eq_true', List.contains_eq_mem, decide_eq_false_iff_not] at hx'
    exact hx'.2 hx

/-- the state handed to the method knows exactly the alternatives of the request (as sets of ids), when the
    known alternatives and `choseToMake` have pairwise different ids -/
theorem e2e_pipeline_all_ids {exp : α → α} {req : Request α} {g : Int → Draws α} {fin : DMP α}
    {outs : List (BiasOut α (Report α))} (h : pipeline exp req g = .ok (fin, outs))
    (hk : (req.known.map (·.id)).Nodup) (hc : req.chosen.Nodup) :
    (fin.all.map (·.id)).Perm (req.known.map (·.id)) := by
  obtain ⟨mp, params, _, hpp, _, _, hco, hnc, _⟩ := e2e_pipeline_frame h
  obtain ⟨hpco, hmem, _⟩ := e2e_prepareParams_ok hpp
  unfold DMP.all
  rw [List.map_append, hco, hnc]
  apply e2e_split_perm _ _ hk hc
  intro x hx
  rw [← hpco] at hx
  obtain ⟨a, ha, rfl⟩ := List.mem_map.mp hx
  exact List.mem_map.mpr ⟨a, hmem a ha, rfl⟩

end Rdm
