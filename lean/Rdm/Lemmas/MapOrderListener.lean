/-
  Map-order independence of the bias-listener helpers (C02): `SortByWeights`, `RankCriteriaAscending`,
  `OnCriteriaRemoved`, `Merge` only see the maps inside the method parameters through lookups, through
  per-key loops, or through the Choquet integral.
-/
import Rdm.Lemmas.MapOrderLoops
import Rdm.Lemmas.MapOrderChoquet
namespace Rdm
variable {α : Type} {β : Type}

/-! ### "the same parameters, maps listed in another order" -/

/-- two listings of the same Go map: a permutation of each other, keys distinct -/
def KMap.SameMap (m₁ m₂ : KMap β) : Prop := m₁.Perm m₂ ∧ (m₁.map Prod.fst).Nodup

theorem KMap.SameMap.lookupEq {m₁ m₂ : KMap β} (h : KMap.SameMap m₁ m₂) : KMap.LookupEq m₁ m₂ :=
  KMap.LookupEq.of_perm h.1 h.2

theorem KMap.SameMap.refl {m : KMap β} (h : (m.map Prod.fst).Nodup) : KMap.SameMap m m := ⟨List.Perm.refl _, h⟩

def Levels.SameMaps : Levels α → Levels α → Prop
  | .coef c mx mn, .coef c' mx' mn' => c = c' ∧ mx = mx' ∧ mn = mn'
  | .thresholds ts, .thresholds ts' => List.Forall₂ KMap.SameMap ts ts'
  | _, _ => False

/-- method parameters that differ only in the listing order of their maps (weights, capacities, ELECTRE
    criteria, thresholds); slices (`ws`/`owa` weighted criteria, criteria lists) are equal -/
def MParams.SameMaps : MParams α → MParams α → Prop
  | .ws wc, .ws wc' => wc = wc'
  | .owa wc, .owa wc' => wc = wc'
  | .choquet w cs, .choquet w' cs' => KMap.SameMap w w' ∧ cs = cs'
  | .electre ec dist, .electre ec' dist' => KMap.SameMap ec ec' ∧ dist = dist'
  | .majority w cur seed rnd dr, .majority w' cur' seed' rnd' dr' =>
    KMap.SameMap w w' ∧ cur = cur' ∧ seed = seed' ∧ rnd = rnd' ∧ dr = dr'
  | .aspect fn lv seed w rnd, .aspect fn' lv' seed' w' rnd' =>
    fn = fn' ∧ Levels.SameMaps lv lv' ∧ seed = seed' ∧ KMap.SameMap w w' ∧ rnd = rnd'
  | .satisf fn lv seed cur rnd, .satisf fn' lv' seed' cur' rnd' =>
    fn = fn' ∧ Levels.SameMaps lv lv' ∧ seed = seed' ∧ cur = cur' ∧ rnd = rnd'
  | _, _ => False

/-- the same working state, every map (alternatives' values, method parameters) listed in another order -/
structure DMP.SameMaps [Num α] (d d' : DMP α) : Prop where
  nc : List.Forall₂ Alt.SameMap d.nc d'.nc
  co : List.Forall₂ Alt.SameMap d.co d'.co
  crit : d.crit = d'.crit
  mp : MParams.SameMaps d.mp d'.mp

theorem forall₂_imp {γ δ : Type} {r s : γ → δ → Prop} (h : ∀ a b, r a b → s a b) :
    ∀ {l₁ : List γ} {l₂ : List δ}, List.Forall₂ r l₁ l₂ → List.Forall₂ s l₁ l₂
  | _, _, .nil => .nil
  | _, _, .cons hab hrest => .cons (h _ _ hab) (forall₂_imp h hrest)

/-! ### `SortByWeights` -/

variable [Num α]

/-- `Criteria.SortByWeights` walks the criteria *slice* and only looks weights up -/
theorem sortByWeights_lookupEq {w₁ w₂ : KMap α} (h : KMap.LookupEq w₁ w₂) (cs : List (Crit α)) :
    sortByWeights cs w₁ = sortByWeights cs w₂ := by
  unfold sortByWeights
  simp only [h.fetch]

omit [Num α] in
theorem zipWithWeights_lookupEq {w₁ w₂ : KMap α} (h : KMap.LookupEq w₁ w₂) (cs : List (Crit α)) :
    zipWithWeights cs w₁ = zipWithWeights cs w₂ := by
  unfold zipWithWeights
  simp only [h.fetch]

/-! ### `OnCriteriaRemoved` -/

omit [Num α] in
theorem levelsOnRemoved_sameMaps {lv lv' : Levels α} (h : Levels.SameMaps lv lv') (left : List (Crit α)) :
    levelsOnRemoved lv left = levelsOnRemoved lv' left := by
  cases lv <;> cases lv' <;> simp only [Levels.SameMaps] at h
  · obtain ⟨rfl, rfl, rfl⟩ := h; rfl
  · unfold levelsOnRemoved
    simp only
    rw [mapM_forall₂_eq (fun a b hab => preserveOnly_lookupEq (KMap.SameMap.lookupEq hab) left) h]

omit [Num α] in
/-- `OnCriteriaRemoved` of every method: equal results (and equal errors) for every listing of the maps in
    the parameters — it walks the left criteria slice and looks keys up -/
theorem onRemoved_sameMaps {mp mp' : MParams α} (h : MParams.SameMaps mp mp') (left : List (Crit α)) :
    onRemoved mp left = onRemoved mp' left := by
  cases mp <;> cases mp' <;> simp only [MParams.SameMaps] at h
  · subst h; rfl
  · subst h; rfl
  · obtain ⟨hw, rfl⟩ := h
    unfold onRemoved
    simp only [hw.lookupEq.fetch]
  · obtain ⟨hw, rfl⟩ := h
    unfold onRemoved
    have := hw.lookupEq
    unfold KMap.LookupEq at this
    simp only [this]
  · obtain ⟨hw, rfl, rfl, rfl, rfl⟩ := h
    unfold onRemoved
    simp only [preserveOnly_lookupEq hw.lookupEq]
  · obtain ⟨rfl, hl, rfl, hw, rfl⟩ := h
    unfold onRemoved
    simp only [preserveOnly_lookupEq hw.lookupEq, levelsOnRemoved_sameMaps hl]
  · obtain ⟨rfl, hl, rfl, rfl, rfl⟩ := h
    unfold onRemoved
    simp only [levelsOnRemoved_sameMaps hl]

/-! ### `RankCriteriaAscending` -/

omit [Num α] in
/-- the ELECTRE listener's loop `weights[c] = criterion.K`: a per-key copy -/
theorem electreWeights_sameMap {ec ec' : KMap (ECrit α)} (h : KMap.SameMap ec ec') :
    KMap.SameMap (ec.map fun p => (p.1, p.2.k)) (ec'.map fun p => (p.1, p.2.k)) := by
  refine ⟨h.1.map _, ?_⟩
  rw [List.map_map]
  exact h.2

theorem cumulated_sortByWeights_agree (cs : List (Crit α)) (mapper : String → α → R α) {co co' : List (Alt α)}
    (h : List.Forall₂ Alt.SameMap co co') :
    R.Agree (· = ·) (cumulated cs co mapper >>= fun w => sortByWeights cs w)
      (cumulated cs co' mapper >>= fun w => sortByWeights cs w) :=
  R.Agree.bind (cumulated_perm cs mapper (forall₂_imp (fun _ _ hab => ⟨hab.perm, hab.distinct⟩) h))
    (fun _ _ hw => R.Agree.of_eq (fun _ => rfl) (sortByWeights_lookupEq hw cs))

/-- `RankCriteriaAscending` of every method: same verdict and, when it succeeds, the same ranking for every
    listing of the alternatives' value maps and of the maps in the method parameters -/
theorem rankAsc_sameMaps (eps : Rat) (heps : 0 ≤ eps) {d d' : DMP Rat} (h : DMP.SameMaps d d') :
    R.Agree (· = ·) (rankAsc eps d) (rankAsc eps d') := by
  obtain ⟨nc, co, crit, mp⟩ := d
  obtain ⟨nc', co', crit', mp'⟩ := d'
  obtain ⟨_, hco, hcrit, hmp⟩ := h
  simp only at hco hcrit hmp
  subst hcrit
  unfold rankAsc
  cases mp <;> cases mp' <;> simp only [MParams.SameMaps] at hmp
  · subst hmp
    exact cumulated_sortByWeights_agree crit _ hco
  · exact cumulated_sortByWeights_agree crit _ hco
  · obtain ⟨hw, _⟩ := hmp
    simp only
    rw [choquetDecompose_perm eps heps crit (forall₂_imp (fun _ _ hab => hab.perm) hco) hw.lookupEq]
    exact R.Agree.of_eq (fun _ => rfl) rfl
  · exact R.Agree.of_eq (fun _ => rfl)
      (sortByWeights_lookupEq (electreWeights_sameMap hmp.1).lookupEq crit)
  · exact R.Agree.of_eq (fun _ => rfl) (sortByWeights_lookupEq hmp.1.lookupEq crit)
  · exact R.Agree.of_eq (fun _ => rfl) (sortByWeights_lookupEq hmp.2.2.2.1.lookupEq crit)
  · exact cumulated_sortByWeights_agree crit _ hco

/-! ### `Merge` -/

omit [Num α] in
/-- `Weights.Merge` on two listings of the same two maps: same verdict, the unions are listings of the same map -/
theorem mergeDisjoint_sameMap {m m' o o' : KMap β} (hm : KMap.SameMap m m') (ho : KMap.SameMap o o') :
    R.Agree KMap.SameMap (KMap.mergeDisjoint m o) (KMap.mergeDisjoint m' o') := by
  obtain ⟨herr, hok⟩ := mergeDisjoint_perm hm.1 hm.2 ho.1
  cases h₁ : KMap.mergeDisjoint m o with
  | error e => rw [(herr e).mp h₁]; trivial
  | ok r =>
    obtain ⟨r', h₂, hp⟩ := hok r h₁
    rw [h₂]
    exact ⟨hp, (mergeDisjoint_ok_distinct h₁ hm.2 ho.2).2⟩

theorem mapM_forall₂_agree {γ δ γ' δ' : Type} {rel : γ → δ → Prop} {rel' : γ' → δ' → Prop}
    {f : γ → R γ'} {g : δ → R δ'} (hfg : ∀ a b, rel a b → R.Agree rel' (f a) (g b)) :
    ∀ {l₁ : List γ} {l₂ : List δ}, List.Forall₂ rel l₁ l₂ →
      R.Agree (List.Forall₂ rel') (l₁.mapM f) (l₂.mapM g)
  | _, _, .nil => List.Forall₂.nil
  | _, _, .cons hab hrest => by
    rw [List.mapM_cons, List.mapM_cons]
    refine R.Agree.bind (hfg _ _ hab) (fun a b hab' => ?_)
    refine R.Agree.bind (mapM_forall₂_agree hfg hrest) (fun l l' hl => ?_)
    exact List.Forall₂.cons hab' hl

theorem forall₂_length {γ δ : Type} {r : γ → δ → Prop} : ∀ {l₁ : List γ} {l₂ : List δ},
    List.Forall₂ r l₁ l₂ → l₁.length = l₂.length
  | _, _, .nil => rfl
  | _, _, .cons _ hrest => by simp [forall₂_length hrest]

theorem forall₂_zip {γ δ γ' δ' : Type} {r : γ → δ → Prop} {r' : γ' → δ' → Prop} :
    ∀ {l₁ : List γ} {l₂ : List δ} {k₁ : List γ'} {k₂ : List δ'},
    List.Forall₂ r l₁ l₂ → List.Forall₂ r' k₁ k₂ →
    List.Forall₂ (fun p q => r p.1 q.1 ∧ r' p.2 q.2) (l₁.zip k₁) (l₂.zip k₂)
  | _, _, _, _, .nil, _ => by simp only [List.zip_nil_left]; exact .nil
  | _, _, _, _, .cons _ _, .nil => by simp only [List.zip_nil_right]; exact .nil
  | _, _, _, _, .cons hab hrest, .cons hab' hrest' => by
    simp only [List.zip_cons_cons]
    exact .cons ⟨hab, hab'⟩ (forall₂_zip hrest hrest')

/-- what `OnCriterionAdded` returned, maps listed in another order -/
def LvAdd.SameMaps : LvAdd α → LvAdd α → Prop
  | .none, .none => True
  | .thresholds ts, .thresholds ts' => List.Forall₂ KMap.SameMap ts ts'
  | _, _ => False

def Addition.SameMaps : Addition α → Addition α → Prop
  | .ws wc, .ws wc' => wc = wc'
  | .weightType w, .weightType w' => KMap.SameMap w w'
  | .choquet w cs, .choquet w' cs' => KMap.SameMap w w' ∧ cs = cs'
  | .electre ec, .electre ec' => KMap.SameMap ec ec'
  | .aspect w lv, .aspect w' lv' => KMap.SameMap w w' ∧ LvAdd.SameMaps lv lv'
  | .satisf lv, .satisf lv' => LvAdd.SameMaps lv lv'
  | _, _ => False

omit [Num α] in
theorem levelsMerge_sameMaps {lv lv' : Levels α} {la la' : LvAdd α} (h : Levels.SameMaps lv lv')
    (ha : LvAdd.SameMaps la la') : R.Agree Levels.SameMaps (levelsMerge lv la) (levelsMerge lv' la') := by
  cases lv <;> cases lv' <;> simp only [Levels.SameMaps] at h
  · obtain ⟨rfl, rfl, rfl⟩ := h
    simp only [levelsMerge, pure, Except.pure, R.Agree, Levels.SameMaps, and_self]
  · cases la <;> cases la' <;> simp only [LvAdd.SameMaps] at ha
    · simp only [levelsMerge]; trivial
    · simp only [levelsMerge]
      rw [forall₂_length h, forall₂_length ha]
      split
      · trivial
      · refine R.Agree.bind (rel := List.Forall₂ KMap.SameMap)
          (mapM_forall₂_agree (fun p q hpq => mergeDisjoint_sameMap hpq.1 hpq.2) (forall₂_zip h ha))
          (fun l l' hl => hl)

omit [Num α] in
/-- `Merge(params, addition)` of every method: same verdict, and the merged parameters again differ only in
    the listing order of their maps -/
theorem mergeParams_sameMaps {mp mp' : MParams α} {add add' : Addition α} (h : MParams.SameMaps mp mp')
    (ha : Addition.SameMaps add add') :
    R.Agree MParams.SameMaps (mergeParams mp add) (mergeParams mp' add') := by
  cases mp <;> cases mp' <;> simp only [MParams.SameMaps] at h <;>
    cases add <;> cases add' <;> simp only [Addition.SameMaps] at ha <;>
    simp only [mergeParams] <;> try trivial
  · -- ws
    subst h; subst ha
    simp only [pure, Except.pure, R.Agree, MParams.SameMaps]
  · -- choquet
    obtain ⟨hw, rfl⟩ := h
    obtain ⟨hw2, rfl⟩ := ha
    refine R.Agree.bind (mergeDisjoint_sameMap hw hw2) (fun r r' hr => ?_)
    simp only [pure, Except.pure, R.Agree, MParams.SameMaps]
    exact ⟨hr, trivial⟩
  · -- electre
    obtain ⟨hw, rfl⟩ := h
    refine R.Agree.bind (mergeDisjoint_sameMap hw ha) (fun r r' hr => ?_)
    simp only [pure, Except.pure, R.Agree, MParams.SameMaps]
    exact ⟨hr, trivial⟩
  · -- majority
    obtain ⟨hw, rfl, rfl, rfl, rfl⟩ := h
    refine R.Agree.bind (mergeDisjoint_sameMap hw ha) (fun r r' hr => ?_)
    simp only [pure, Except.pure, R.Agree, MParams.SameMaps]
    exact ⟨hr, trivial, trivial, trivial, trivial⟩
  · -- aspect
    obtain ⟨rfl, hl, rfl, hw, rfl⟩ := h
    split
    · trivial
    · refine R.Agree.bind (levelsMerge_sameMaps hl ha.2) (fun lv lv' hlv => ?_)
      refine R.Agree.bind (mergeDisjoint_sameMap hw ha.1) (fun r r' hr => ?_)
      simp only [pure, Except.pure, R.Agree, MParams.SameMaps]
      exact ⟨trivial, hlv, trivial, hr, trivial⟩
  · -- satisf
    obtain ⟨rfl, hl, rfl, rfl, rfl⟩ := h
    split
    · trivial
    · refine R.Agree.bind (levelsMerge_sameMaps hl ha) (fun lv lv' hlv => ?_)
      simp only [pure, Except.pure, R.Agree, MParams.SameMaps]
      exact ⟨trivial, hlv, trivial, trivial, trivial⟩

/-! ### `OnCriterionAdded` -/

theorem levelsOnAdded_sameMaps (asc : Bool) {lv lv' : Levels α} (h : Levels.SameMaps lv lv') (crit ref : Crit α)
    (d : Draws α) : levelsOnAdded asc lv crit ref d = levelsOnAdded asc lv' crit ref d := by
  cases lv <;> cases lv' <;> simp only [Levels.SameMaps] at h
  · rfl
  · unfold levelsOnAdded
    simp only
    congr 1
    apply forIn_forall₂_eq _ h
    intro t t' ht s
    rw [ht.lookupEq.fetch]

/-- `OnCriterionAdded` of every method only looks keys up -/
theorem onAdded_sameMaps {mp mp' : MParams α} (h : MParams.SameMaps mp mp') (crit ref : Crit α) (d : Draws α) :
    onAdded mp crit ref d = onAdded mp' crit ref d := by
  cases mp <;> cases mp' <;> simp only [MParams.SameMaps] at h
  · subst h; rfl
  · subst h; rfl
  · obtain ⟨hw, rfl⟩ := h
    have hl := hw.lookupEq
    unfold onAdded
    have hg : ∀ k, KMap.get? _ k = KMap.get? _ k := hl
    simp only [hg, unionWeight_lookupEq hl]
  · obtain ⟨hw, rfl⟩ := h
    have hg : ∀ k, KMap.get? _ k = KMap.get? _ k := hw.lookupEq
    unfold onAdded
    simp only [hg]
  · obtain ⟨hw, rfl, rfl, rfl, rfl⟩ := h
    have hg : ∀ k, KMap.get? _ k = KMap.get? _ k := hw.lookupEq
    unfold onAdded
    simp only [hg]
  · obtain ⟨rfl, hl, rfl, hw, rfl⟩ := h
    have hg : ∀ k, KMap.get? _ k = KMap.get? _ k := hw.lookupEq
    unfold onAdded
    simp only [hg, levelsOnAdded_sameMaps _ hl]
  · obtain ⟨rfl, hl, rfl, rfl, rfl⟩ := h
    unfold onAdded
    simp only [levelsOnAdded_sameMaps _ hl]

end Rdm
