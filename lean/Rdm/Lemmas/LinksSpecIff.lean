/-
  The executable checker `Spec.C01.check` accepts exactly the well-formed rankings (both directions).
-/
import Batteries.Data.List.Perm
import Rdm.Lemmas.LinksSpec
namespace Rdm
theorem Spec.C01.count_eq (l : List String) (x : String) : Spec.C01.count l x = l.count x := by
  unfold Spec.C01.count
  rw [List.count_eq_length_filter]

theorem Spec.C01.perm_of_sameIds {a b : List String} (h : Spec.C01.sameIds a b = true) : a.Perm b := by
  unfold Spec.C01.sameIds at h
  simp only [Bool.and_eq_true, beq_iff_eq, List.all_eq_true] at h
  apply List.Subperm.perm_of_length_le
  · rw [List.subperm_ext_iff]
    intro x hx
    have := h.2 x hx
    rw [Spec.C01.count_eq, Spec.C01.count_eq] at this
    omega
  · omega

theorem append_ne_ok (s t : String) (h : 2 < s.length) : (s ++ t == "ok") = false := by
  rw [beq_eq_false_iff_ne]
  intro e
  have := congrArg String.length e
  rw [String.length_append] at this
  have h2 : "ok".length = 2 := by decide
  omega

/-- the executable checker accepts exactly the well-formed rankings -/
theorem Spec.C01.check_iff (expected : List String) (out : List (String × List String)) :
    Spec.C01.check expected out = true ↔
      (out.map (·.1)).Perm expected ∧ (out.map (·.1)).Nodup ∧
      ∀ e ∈ out, (∀ x ∈ e.2, x ∈ out.map (·.1)) ∧ e.1 ∉ e.2 ∧ e.2.Nodup := by
  constructor
  · intro h
    unfold Spec.C01.check Spec.C01.explain at h
    by_cases h1 : Spec.C01.sameIds (out.map (·.1)) expected = true
    · by_cases h2 : Spec.C01.nodup (out.map (·.1)) = true
      · simp only [h1, h2] at h
        refine ⟨Spec.C01.perm_of_sameIds h1, (Spec.C01.nodup_iff _).mp h2, ?_⟩
        cases hf : out.find? (fun e => !Spec.C01.entryOk (out.map (·.1)) e) with
        | none =>
          rw [List.find?_eq_none] at hf
          intro e he
          have := hf e he
          exact (Spec.C01.entryOk_iff _ e).mp (by simpa using this)
        | some e =>
          rw [hf] at h
          simp only [Bool.not_true, Bool.false_eq_true, if_false] at h
          split at h
          · rw [append_ne_ok _ _ (by decide)] at h; simp at h
          · split at h
            · rw [append_ne_ok _ _ (by decide)] at h; simp at h
            · rw [append_ne_ok _ _ (by decide)] at h; simp at h
      · simp [h1, h2] at h
    · simp [h1] at h
  · rintro ⟨h1, h2, h3⟩
    exact Spec.C01.check_of_wellformed expected out h1 h2 h3
end Rdm
