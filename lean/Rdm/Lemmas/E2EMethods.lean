/-
  Lemmas for the END-TO-END theorems about the four non-utility methods (C05, C06, C11–C14), part 2:
    * the entries of a response read back in the method's own payload type (`e2emElectreEntries`,
      `e2emMajEntries`, `e2emAspEntries`, `e2emSatEntries` — what the per-method checkers are evaluated on);
    * inversion of `evaluateWith` / `decideWith` for a given method: the response IS the method's `Evaluate`
      on the state that reached it (`resp.final`), with the stream `g seed`;
    * the parameters that reached `Evaluate` are the request's up to the per-criterion part (`e2emTag`);
    * requests without an enabled bias: the considered alternatives of the final state are the known
      alternatives `choseToMake` names, position by position.
  All names carry the prefix `e2em`.
-/
import Rdm.Lemmas.E2EMethodsTag
import Rdm.Lemmas.E2EWellformed
import Rdm.Lemmas.E2EUtility
namespace Rdm
set_option linter.unusedSectionVars false
set_option linter.unusedSimpArgs false
variable {α : Type} [Num α]

/-! ### the entries of a response, per method -/

/-- the ELECTRE III payload as it appears in the response -/
def e2emOfElectre (p : Int × Int) : Eval α := .electre p.1 p.2

/-- the entries of a response's `result` that carry a pair of distillation indices, read back as
    `ElectreIII` returned them (what the C05 / C06 checkers are evaluated on) -/
def e2emElectreEntries (res : List (Linked (Eval α))) : List (Linked (Int × Int)) :=
  res.filterMap fun e => match e.ev with
    | .electre a d => some ⟨e.id, (a, d), e.links⟩
    | _ => none

def e2emMajEntries (res : List (Linked (Eval α))) : List (Linked (MajEval α)) :=
  res.filterMap fun e => match e.ev with
    | .maj v => some ⟨e.id, v, e.links⟩
    | _ => none

def e2emAspEntries (res : List (Linked (Eval α))) : List (Linked (AspEval α)) :=
  res.filterMap fun e => match e.ev with
    | .asp v => some ⟨e.id, v, e.links⟩
    | _ => none

def e2emSatEntries (res : List (Linked (Eval α))) : List (Linked (SatEval α)) :=
  res.filterMap fun e => match e.ev with
    | .sat v => some ⟨e.id, v, e.links⟩
    | _ => none

theorem e2emElectreEntries_map (r : List (Linked (Int × Int))) :
    e2emElectreEntries (α := α) (r.map (Linked.mapEv fun p => .electre p.1 p.2)) = r := by
  induction r with
  | nil => rfl
  | cons x xs ih =>
    unfold e2emElectreEntries at ih ⊢
    simp only [List.map_cons, List.filterMap_cons, Linked.mapEv] at ih ⊢
    rw [ih]

theorem e2emMajEntries_map (r : List (Linked (MajEval α))) :
    e2emMajEntries (r.map (Linked.mapEv .maj)) = r := by
  induction r with
  | nil => rfl
  | cons x xs ih =>
    unfold e2emMajEntries at ih ⊢
    simp only [List.map_cons, List.filterMap_cons, Linked.mapEv] at ih ⊢
    rw [ih]

theorem e2emAspEntries_map (r : List (Linked (AspEval α))) :
    e2emAspEntries (r.map (Linked.mapEv .asp)) = r := by
  induction r with
  | nil => rfl
  | cons x xs ih =>
    unfold e2emAspEntries at ih ⊢
    simp only [List.map_cons, List.filterMap_cons, Linked.mapEv] at ih ⊢
    rw [ih]

theorem e2emSatEntries_map (r : List (Linked (SatEval α))) :
    e2emSatEntries (r.map (Linked.mapEv .sat)) = r := by
  induction r with
  | nil => rfl
  | cons x xs ih =>
    unfold e2emSatEntries at ih ⊢
    simp only [List.map_cons, List.filterMap_cons, Linked.mapEv] at ih ⊢
    rw [ih]

/-! ### `evaluateWith` for a given method -/

theorem e2em_evaluateWith_electre {o : List (WCrit α) → List (WCrit α)} {g : Int → Draws α} {d : DMP α}
    {res : List (Linked (Eval α))} {ec : KMap (ECrit α)} {dist : LinFun α} (hmp : d.mp = .electre ec dist)
    (h : evaluateWith o g d = .ok res) :
    ∃ r, electreIII d.co d.crit ec dist = .ok r ∧ res = r.map (Linked.mapEv fun p => .electre p.1 p.2) := by
  rcases e2e_evaluateWith_cases h with ⟨hu, _⟩ | ⟨ec', dist', r, hm, hr, hres⟩ |
      ⟨_, _, _, _, _, _, hm, _⟩ | ⟨_, _, _, _, _, _, hm, _⟩ | ⟨_, _, _, _, _, _, hm, _⟩
  · rw [hmp] at hu; simp [e2eIsUtility, e2eTag] at hu
  · rw [hmp] at hm; cases hm; exact ⟨r, hr, hres⟩
  all_goals (rw [hmp] at hm; cases hm)

theorem e2em_evaluateWith_majority {o : List (WCrit α) → List (WCrit α)} {g : Int → Draws α} {d : DMP α}
    {res : List (Linked (Eval α))} {w : KMap α} {cur : String} {seed : Int} {rnd : Bool} {dr : String}
    (hmp : d.mp = .majority w cur seed rnd dr) (h : evaluateWith o g d = .ok res) :
    ∃ r, majorityEvaluate d (g seed) = .ok r ∧ res = r.map (Linked.mapEv .maj) := by
  rcases e2e_evaluateWith_cases h with ⟨hu, _⟩ | ⟨_, _, _, hm, _⟩ |
      ⟨_, _, _, _, _, r, hm, hr, hres⟩ | ⟨_, _, _, _, _, _, hm, _⟩ | ⟨_, _, _, _, _, _, hm, _⟩
  · rw [hmp] at hu; simp [e2eIsUtility, e2eTag] at hu
  · rw [hmp] at hm; cases hm
  · rw [hmp] at hm; cases hm; exact ⟨r, hr, hres⟩
  all_goals (rw [hmp] at hm; cases hm)

theorem e2em_evaluateWith_aspect {o : List (WCrit α) → List (WCrit α)} {g : Int → Draws α} {d : DMP α}
    {res : List (Linked (Eval α))} {fn : String} {lv : Levels α} {seed : Int} {w : KMap α} {rnd : Bool}
    (hmp : d.mp = .aspect fn lv seed w rnd) (h : evaluateWith o g d = .ok res) :
    ∃ r, aspectEvaluateWith d (g seed) (aspectLevels d) o = .ok r ∧ res = r.map (Linked.mapEv .asp) := by
  rcases e2e_evaluateWith_cases h with ⟨hu, _⟩ | ⟨_, _, _, hm, _⟩ |
      ⟨_, _, _, _, _, _, hm, _⟩ | ⟨_, _, _, _, _, r, hm, hr, hres⟩ | ⟨_, _, _, _, _, _, hm, _⟩
  · rw [hmp] at hu; simp [e2eIsUtility, e2eTag] at hu
  · rw [hmp] at hm; cases hm
  · rw [hmp] at hm; cases hm
  · rw [hmp] at hm; cases hm; exact ⟨r, hr, hres⟩
  · rw [hmp] at hm; cases hm

theorem e2em_evaluateWith_satisf {o : List (WCrit α) → List (WCrit α)} {g : Int → Draws α} {d : DMP α}
    {res : List (Linked (Eval α))} {fn : String} {lv : Levels α} {seed : Int} {cur : String} {rnd : Bool}
    (hmp : d.mp = .satisf fn lv seed cur rnd) (h : evaluateWith o g d = .ok res) :
    ∃ r, satisfactionEvaluate d (g seed) = .ok r ∧ res = r.map (Linked.mapEv .sat) := by
  rcases e2e_evaluateWith_cases h with ⟨hu, _⟩ | ⟨_, _, _, hm, _⟩ |
      ⟨_, _, _, _, _, _, hm, _⟩ | ⟨_, _, _, _, _, _, hm, _⟩ | ⟨_, _, _, _, _, r, hm, hr, hres⟩
  · rw [hmp] at hu; simp [e2eIsUtility, e2eTag] at hu
  · rw [hmp] at hm; cases hm
  · rw [hmp] at hm; cases hm
  · rw [hmp] at hm; cases hm
  · rw [hmp] at hm; cases hm; exact ⟨r, hr, hres⟩

/-! ### `decideWith` for a given method of the REQUEST -/

/-- the considered alternatives of the final state are as many as `choseToMake`, with these ids -/
theorem e2em_decideWith_co {exp : α → α} {o : List (WCrit α) → List (WCrit α)} {req : Request α}
    {g : Int → Draws α} {resp : Response α} (h : decideWith exp o req g = .ok resp) :
    resp.final.co.map (·.id) = req.chosen ∧ resp.final.co.length = req.chosen.length := by
  obtain ⟨_, _, _, _, _, _, hco, _⟩ := e2e_pipeline_frame (e2e_decideWith_ok h).1
  exact ⟨hco, by rw [← hco]; simp⟩

/-- **electreIII**: whatever biases ran, the parameters that reach `Evaluate` are ELECTRE parameters with the
    request's distillation function, and the response is `ElectreIII` of the final state -/
theorem e2em_decideWith_electre {exp : α → α} {o : List (WCrit α) → List (WCrit α)} {req : Request α}
    {g : Int → Draws α} {resp : Response α} {ec₀ : KMap (ECrit α)} {dist : LinFun α}
    (h : decideWith exp o req g = .ok resp) (hmp : req.mp = some (.electre ec₀ dist)) :
    ∃ ec r, resp.final.mp = .electre ec dist ∧
      electreIII resp.final.co resp.final.crit ec dist = .ok r ∧
      resp.result = r.map (Linked.mapEv fun p => .electre p.1 p.2) := by
  obtain ⟨mp, hmp', htag⟩ := e2em_decideWith_tag h
  rw [hmp] at hmp'; cases hmp'
  obtain ⟨ec, hfin⟩ := e2em_tag_electre htag
  obtain ⟨r, hr, hres⟩ := e2em_evaluateWith_electre hfin (e2e_decideWith_ok h).2
  exact ⟨ec, r, hfin, hr, hres⟩

/-- … and conversely: ELECTRE parameters at `Evaluate` mean ELECTRE parameters, with that distillation
    function, in the request -/
theorem e2em_decideWith_electre_of_final {exp : α → α} {o : List (WCrit α) → List (WCrit α)} {req : Request α}
    {g : Int → Draws α} {resp : Response α} {ec : KMap (ECrit α)} {dist : LinFun α}
    (h : decideWith exp o req g = .ok resp) (hfin : resp.final.mp = .electre ec dist) :
    (∃ ec₀, req.mp = some (.electre ec₀ dist)) ∧
    ∃ r, electreIII resp.final.co resp.final.crit ec dist = .ok r ∧
      resp.result = r.map (Linked.mapEv fun p => .electre p.1 p.2) := by
  obtain ⟨mp, hmp, htag⟩ := e2em_decideWith_tag h
  rw [hfin] at htag
  obtain ⟨ec₀, rfl⟩ := e2em_tag_electre htag.symm
  exact ⟨⟨ec₀, hmp⟩, e2em_evaluateWith_electre hfin (e2e_decideWith_ok h).2⟩

/-- **majority**: current choice, seed, ordering flag and draw policy of the request are those in force at
    `Evaluate`; the response is `Majority.Evaluate` of the final state on the stream of the request's seed -/
theorem e2em_decideWith_majority {exp : α → α} {o : List (WCrit α) → List (WCrit α)} {req : Request α}
    {g : Int → Draws α} {resp : Response α} {w₀ : KMap α} {cur : String} {seed : Int} {rnd : Bool} {dr : String}
    (h : decideWith exp o req g = .ok resp) (hmp : req.mp = some (.majority w₀ cur seed rnd dr)) :
    ∃ w r, resp.final.mp = .majority w cur seed rnd dr ∧
      majorityEvaluate resp.final (g seed) = .ok r ∧ resp.result = r.map (Linked.mapEv .maj) := by
  obtain ⟨mp, hmp', htag⟩ := e2em_decideWith_tag h
  rw [hmp] at hmp'; cases hmp'
  obtain ⟨w, hfin⟩ := e2em_tag_majority htag
  obtain ⟨r, hr, hres⟩ := e2em_evaluateWith_majority hfin (e2e_decideWith_ok h).2
  exact ⟨w, r, hfin, hr, hres⟩

theorem e2em_decideWith_majority_of_final {exp : α → α} {o : List (WCrit α) → List (WCrit α)}
    {req : Request α} {g : Int → Draws α} {resp : Response α} {w : KMap α} {cur : String} {seed : Int}
    {rnd : Bool} {dr : String}
    (h : decideWith exp o req g = .ok resp) (hfin : resp.final.mp = .majority w cur seed rnd dr) :
    (∃ w₀, req.mp = some (.majority w₀ cur seed rnd dr)) ∧
    ∃ r, majorityEvaluate resp.final (g seed) = .ok r ∧ resp.result = r.map (Linked.mapEv .maj) := by
  obtain ⟨mp, hmp, htag⟩ := e2em_decideWith_tag h
  rw [hfin] at htag
  obtain ⟨w₀, rfl⟩ := e2em_tag_majority htag.symm
  exact ⟨⟨w₀, hmp⟩, e2em_evaluateWith_majority hfin (e2e_decideWith_ok h).2⟩

/-- **aspect elimination**: levels function, seed and ordering flag of the request are those in force at
    `Evaluate`, the levels parameters are the request's up to their per-criterion entries; the response is
    `Evaluate` of the final state with the levels generated from the final state -/
theorem e2em_decideWith_aspect {exp : α → α} {o : List (WCrit α) → List (WCrit α)} {req : Request α}
    {g : Int → Draws α} {resp : Response α} {fn : String} {lv₀ : Levels α} {seed : Int} {w₀ : KMap α} {rnd : Bool}
    (h : decideWith exp o req g = .ok resp) (hmp : req.mp = some (.aspect fn lv₀ seed w₀ rnd)) :
    ∃ lv w r, resp.final.mp = .aspect fn lv seed w rnd ∧ e2emLvTag lv = e2emLvTag lv₀ ∧
      aspectEvaluateWith resp.final (g seed) (aspectLevels resp.final) o = .ok r ∧
      resp.result = r.map (Linked.mapEv .asp) := by
  obtain ⟨mp, hmp', htag⟩ := e2em_decideWith_tag h
  rw [hmp] at hmp'; cases hmp'
  obtain ⟨lv, w, hfin, hl⟩ := e2em_tag_aspect htag
  obtain ⟨r, hr, hres⟩ := e2em_evaluateWith_aspect hfin (e2e_decideWith_ok h).2
  exact ⟨lv, w, r, hfin, hl, hr, hres⟩

theorem e2em_decideWith_aspect_of_final {exp : α → α} {o : List (WCrit α) → List (WCrit α)} {req : Request α}
    {g : Int → Draws α} {resp : Response α} {fn : String} {lv : Levels α} {seed : Int} {w : KMap α} {rnd : Bool}
    (h : decideWith exp o req g = .ok resp) (hfin : resp.final.mp = .aspect fn lv seed w rnd) :
    (∃ lv₀ w₀, req.mp = some (.aspect fn lv₀ seed w₀ rnd) ∧ e2emLvTag lv = e2emLvTag lv₀) ∧
    ∃ r, aspectEvaluateWith resp.final (g seed) (aspectLevels resp.final) o = .ok r ∧
      resp.result = r.map (Linked.mapEv .asp) := by
  obtain ⟨mp, hmp, htag⟩ := e2em_decideWith_tag h
  rw [hfin] at htag
  obtain ⟨lv₀, w₀, rfl, hl⟩ := e2em_tag_aspect htag.symm
  exact ⟨⟨lv₀, w₀, hmp, hl.symm⟩, e2em_evaluateWith_aspect hfin (e2e_decideWith_ok h).2⟩

/-- **satisfaction**: likewise, plus the current choice -/
theorem e2em_decideWith_satisf {exp : α → α} {o : List (WCrit α) → List (WCrit α)} {req : Request α}
    {g : Int → Draws α} {resp : Response α} {fn : String} {lv₀ : Levels α} {seed : Int} {cur : String} {rnd : Bool}
    (h : decideWith exp o req g = .ok resp) (hmp : req.mp = some (.satisf fn lv₀ seed cur rnd)) :
    ∃ lv r, resp.final.mp = .satisf fn lv seed cur rnd ∧ e2emLvTag lv = e2emLvTag lv₀ ∧
      satisfactionEvaluate resp.final (g seed) = .ok r ∧ resp.result = r.map (Linked.mapEv .sat) := by
  obtain ⟨mp, hmp', htag⟩ := e2em_decideWith_tag h
  rw [hmp] at hmp'; cases hmp'
  obtain ⟨lv, hfin, hl⟩ := e2em_tag_satisf htag
  obtain ⟨r, hr, hres⟩ := e2em_evaluateWith_satisf hfin (e2e_decideWith_ok h).2
  exact ⟨lv, r, hfin, hl, hr, hres⟩

theorem e2em_decideWith_satisf_of_final {exp : α → α} {o : List (WCrit α) → List (WCrit α)} {req : Request α}
    {g : Int → Draws α} {resp : Response α} {fn : String} {lv : Levels α} {seed : Int} {cur : String} {rnd : Bool}
    (h : decideWith exp o req g = .ok resp) (hfin : resp.final.mp = .satisf fn lv seed cur rnd) :
    (∃ lv₀, req.mp = some (.satisf fn lv₀ seed cur rnd) ∧ e2emLvTag lv = e2emLvTag lv₀) ∧
    ∃ r, satisfactionEvaluate resp.final (g seed) = .ok r ∧ resp.result = r.map (Linked.mapEv .sat) := by
  obtain ⟨mp, hmp, htag⟩ := e2em_decideWith_tag h
  rw [hfin] at htag
  obtain ⟨lv₀, rfl, hl⟩ := e2em_tag_satisf htag.symm
  exact ⟨⟨lv₀, hmp, hl.symm⟩, e2em_evaluateWith_satisf hfin (e2e_decideWith_ok h).2⟩

/-! ### the stages of the three heuristics' `Evaluate` -/

/-- `Majority.Evaluate` that answered: weights zipped to the criteria of the state, search order drawn from the
    stream, the draw policy looked up by the configured name, then the tournament -/
theorem e2em_majorityEvaluate_ok {d : DMP α} {ds : Draws α} {w : KMap α} {cur : String} {seed : Int} {rnd : Bool}
    {dr : String} {out : List (Linked (MajEval α))} (hmp : d.mp = .majority w cur seed rnd dr)
    (h : majorityEvaluate d ds = .ok out) :
    ∃ wc first rest ds' pol, zipWithWeights d.crit w = .ok wc ∧
      searchOrder d cur rnd ds = .ok ((first, rest), ds') ∧ findPolicy dr = .ok pol ∧
      majorityTournament pol wc first rest ds' = .ok out := by
  unfold majorityEvaluate at h
  rw [hmp] at h
  dsimp only at h
  obtain ⟨wc, hz, h⟩ := bind_eq_ok.mp h
  obtain ⟨⟨⟨first, rest⟩, ds'⟩, hso, h⟩ := bind_eq_ok.mp h
  obtain ⟨pol, hp, h⟩ := bind_eq_ok.mp h
  exact ⟨wc, first, rest, ds', pol, hz, hso, hp, h⟩

/-- aspect elimination that answered on given levels: alternatives ordered with the stream, weights zipped,
    criteria put in examination order, then the elimination procedure -/
theorem e2em_aspectEvaluateWith_ok {d : DMP α} {ds : Draws α} {lvl : List (KMap α)}
    {o : List (WCrit α) → List (WCrit α)} {fn : String} {lv : Levels α} {seed : Int} {w : KMap α} {rnd : Bool}
    {out : List (Linked (AspEval α))} (hmp : d.mp = .aspect fn lv seed w rnd)
    (h : aspectEvaluateWith d ds (.ok lvl) o = .ok out) :
    ∃ alts ds' wc, orderAlternatives rnd d.co ds = .ok (alts, ds') ∧ zipWithWeights d.crit w = .ok wc ∧
      aspectCore ((o wc).map (·.crit)) lvl alts = .ok out := by
  unfold aspectEvaluateWith at h
  rw [hmp] at h
  dsimp only at h
  obtain ⟨lvl', hl, h⟩ := bind_eq_ok.mp h
  cases hl
  obtain ⟨⟨alts, ds'⟩, ha, h⟩ := bind_eq_ok.mp h
  obtain ⟨wc, hz, h⟩ := bind_eq_ok.mp h
  exact ⟨alts, ds', wc, ha, hz, h⟩

/-- satisfaction that answered on given levels: search order drawn from the stream, then the level loop -/
theorem e2em_satisfactionEvaluateWith_ok {d : DMP α} {ds : Draws α} {lvl : List (KMap α)}
    {fn : String} {lv : Levels α} {seed : Int} {cur : String} {rnd : Bool}
    {out : List (Linked (SatEval α))} (hmp : d.mp = .satisf fn lv seed cur rnd)
    (h : satisfactionEvaluateWith d ds (.ok lvl) = .ok out) :
    ∃ first rest ds', searchOrder d cur rnd ds = .ok ((first, rest), ds') ∧
      satisfactionCore d lvl (first :: rest) = .ok out := by
  unfold satisfactionEvaluateWith at h
  rw [hmp] at h
  dsimp only at h
  obtain ⟨lvl', hl, h⟩ := bind_eq_ok.mp h
  cases hl
  obtain ⟨⟨⟨first, rest⟩, ds'⟩, hso, h⟩ := bind_eq_ok.mp h
  exact ⟨first, rest, ds', hso, h⟩

/-! ### the final state knows distinct alternatives when the request does -/

theorem e2em_decideWith_all_nodup {exp : α → α} {o : List (WCrit α) → List (WCrit α)} {req : Request α}
    {g : Int → Draws α} {resp : Response α} (h : decideWith exp o req g = .ok resp)
    (hk : (req.known.map (·.id)).Nodup) (hc : req.chosen.Nodup) : (resp.final.all.map (·.id)).Nodup :=
  (e2e_pipeline_all_ids (e2e_decideWith_ok h).1 hk hc).nodup_iff.mpr hk

/-! ### requests without an enabled bias -/

/-- `prepareParams`: position by position the considered alternatives are what `FetchAlternative` finds -/
theorem e2em_prepareParams_getElem {req : Request α} {mp : MParams α} {params : DMP α}
    (h : prepareParams req mp = .ok params) (i : Nat) (hi : i < req.chosen.length) :
    ∃ hi' : i < params.co.length, fetchAlt req.known req.chosen[i] = .ok params.co[i] := by
  unfold prepareParams at h
  obtain ⟨co, hco, hpp⟩ := bind_eq_ok.mp h
  simp only [pure, Except.pure, Except.ok.injEq] at hpp
  subst hpp
  obtain ⟨hl, hpz⟩ := mapM_ok hco
  have hi' : i < co.length := by omega
  refine ⟨hi', ?_⟩
  have hz : (req.chosen[i], co[i]) ∈ req.chosen.zip co := by
    rw [List.mem_iff_getElem]; exact ⟨i, by simp only [List.length_zip]; omega, by simp⟩
  exact hpz _ hz

/-- with distinct known ids, the alternative at position `i` is THE known alternative `choseToMake[i]` names -/
theorem e2em_prepareParams_getElem_eq {req : Request α} {mp : MParams α} {params : DMP α}
    (h : prepareParams req mp = .ok params) (hk : (req.known.map (·.id)).Nodup) (i : Nat)
    (hi : i < req.chosen.length) (a : Alt α) (ha : a ∈ req.known) (hid : req.chosen[i] = a.id) :
    ∃ hi' : i < params.co.length, params.co[i] = a := by
  obtain ⟨hi', hf⟩ := e2em_prepareParams_getElem h i hi
  refine ⟨hi', ?_⟩
  obtain ⟨hm, hb⟩ := fetchAlt_ok hf
  exact eq_of_id_eq (·.id) hk hm ha ((eq_of_beq hb).trans hid)

/-- a request without an enabled bias: the state that reaches `Evaluate` has the request's criteria and
    parsed parameters, and its considered alternatives are the known alternatives `choseToMake` names -/
theorem e2em_no_bias_final {exp : α → α} {o : List (WCrit α) → List (WCrit α)} {req : Request α}
    {g : Int → Draws α} {resp : Response α} (h : decideWith exp o req g = .ok resp)
    (hb : ∀ b ∈ req.biases, b.disabled = true) :
    ∃ mp, req.mp = some mp ∧ prepareParams req mp = .ok resp.final ∧
      resp.final.crit = req.crit ∧ resp.final.mp = mp ∧ resp.biases = [] := by
  obtain ⟨mp, hmp, hpp, ho⟩ := e2e_no_bias_pipeline (e2e_decideWith_ok h).1 hb
  obtain ⟨_, _, _, hcrit, hpmp⟩ := e2e_prepareParams_ok hpp
  exact ⟨mp, hmp, hpp, hcrit, hpmp, ho⟩

end Rdm
