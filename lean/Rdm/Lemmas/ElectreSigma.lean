/-
  Lemmas lifting the arithmetic facts of ElectreArith to alternatives: the credibility
  `σ(a,b) = (electreCredibility a b crits ec).d` under scaling of all weights and under dominance.
-/
import Rdm.Lemmas.ElectreArith
namespace Rdm

/-! ### generic helpers (Except monad, association lists) -/

theorem el_lookup_map_snd {β γ : Type} (f : β → γ) (k : String) (l : List (String × β)) :
    List.lookup k (l.map fun p => (p.1, f p.2)) = (List.lookup k l).map f := by
  induction l with
  | nil => rfl
  | cons p l ih =>
    obtain ⟨k', v⟩ := p
    simp only [List.map_cons, List.lookup_cons]
    cases h : (k == k') <;> simp [ih]

theorem mapM_except_map {ε β γ δ : Type} (g : β → Except ε γ) (f : γ → δ) (l : List β) :
    l.mapM (fun c => (g c).map f) = (l.mapM g).map (List.map f) := by
  induction l with
  | nil => rfl
  | cons c l ih =>
    simp only [List.mapM_cons, ih]
    cases g c with
    | error e => rfl
    | ok x =>
      cases l.mapM g with
      | error e => rfl
      | ok xs => rfl

theorem mapM_except_forall₂ {ε β γ : Type} (g g' : β → Except ε γ) (Rel : γ → γ → Prop) (l : List β)
    (h : ∀ c ∈ l, ∀ x y, g c = .ok x → g' c = .ok y → Rel x y) :
    ∀ xs ys, l.mapM g = .ok xs → l.mapM g' = .ok ys → List.Forall₂ Rel xs ys := by
  induction l with
  | nil =>
    intro xs ys h1 h2
    simp only [List.mapM_nil, pure, Except.pure, Except.ok.injEq] at h1 h2
    subst h1; subst h2; exact .nil
  | cons c l ih =>
    intro xs ys h1 h2
    simp only [List.mapM_cons, bind, Except.bind] at h1 h2
    cases hg : g c with
    | error e => rw [hg] at h1; cases h1
    | ok x =>
      cases hg' : g' c with
      | error e => rw [hg'] at h2; cases h2
      | ok y =>
        rw [hg] at h1; rw [hg'] at h2
        simp only at h1 h2
        cases hl : l.mapM g with
        | error e => rw [hl] at h1; cases h1
        | ok xs' =>
          cases hl' : l.mapM g' with
          | error e => rw [hl'] at h2; cases h2
          | ok ys' =>
            rw [hl] at h1; rw [hl'] at h2
            simp only [pure, Except.pure, Except.ok.injEq] at h1 h2
            subst h1; subst h2
            exact .cons (h c (by simp) x y hg hg') (ih (fun c hc => h c (by simp [hc])) xs' ys' hl hl')

theorem mapM_except_mem {ε β γ : Type} (g : β → Except ε γ) (l : List β) (xs : List γ)
    (h : l.mapM g = .ok xs) : ∀ x ∈ xs, ∃ c ∈ l, g c = .ok x := by
  induction l generalizing xs with
  | nil =>
    simp only [List.mapM_nil, pure, Except.pure, Except.ok.injEq] at h
    subst h; intro x hx; cases hx
  | cons c l ih =>
    simp only [List.mapM_cons, bind, Except.bind] at h
    cases hg : g c with
    | error e => rw [hg] at h; cases h
    | ok y =>
      rw [hg] at h
      simp only at h
      cases hl : l.mapM g with
      | error e => rw [hl] at h; cases h
      | ok ys =>
        rw [hl] at h
        simp only [pure, Except.pure, Except.ok.injEq] at h
        subst h
        intro x hx
        rcases List.mem_cons.mp hx with rfl | hx
        · exact ⟨c, by simp, hg⟩
        · obtain ⟨c', hc', hg'⟩ := ih ys hl x hx
          exact ⟨c', by simp [hc'], hg'⟩

theorem mapM_except_length {ε β γ : Type} (g : β → Except ε γ) (l : List β) (xs : List γ)
    (h : l.mapM g = .ok xs) : xs.length = l.length := by
  induction l generalizing xs with
  | nil =>
    simp only [List.mapM_nil, pure, Except.pure, Except.ok.injEq] at h
    subst h; rfl
  | cons c l ih =>
    simp only [List.mapM_cons, bind, Except.bind] at h
    cases hg : g c with
    | error e => rw [hg] at h; cases h
    | ok y =>
      rw [hg] at h
      simp only at h
      cases hl : l.mapM g with
      | error e => rw [hl] at h; cases h
      | ok ys =>
        rw [hl] at h
        simp only [pure, Except.pure, Except.ok.injEq] at h
        subst h
        simp [ih ys hl]

/-! ### scaling all weights -/

/-- multiply the weight `k` of every ELECTRE criterion by `c` -/
def scaleCrit (c : Rat) (t : ECrit Rat) : ECrit Rat := ⟨c * t.k, t.q, t.p, t.v⟩

/-- multiply the weight `k` of every ELECTRE criterion by `c` -/
def scaleWeights (c : Rat) (ec : KMap (ECrit Rat)) : KMap (ECrit Rat) :=
  ec.map fun p => (p.1, scaleCrit c p.2)

theorem evaluatePair_scale (c : Rat) (a1 a2 : Alt Rat) (cr : Crit Rat) (ec : KMap (ECrit Rat)) :
    evaluatePair a1 a2 cr (scaleWeights c ec) = (evaluatePair a1 a2 cr ec).map (scaleRes c) := by
  unfold evaluatePair scaleWeights KMap.get?
  rw [el_lookup_map_snd (scaleCrit c)]
  cases a1.signed cr with
  | error e => rfl
  | ok c1 =>
    cases a2.signed cr with
    | error e => rfl
    | ok c2 =>
      simp only [bind, Except.bind]
      cases List.lookup cr.id ec with
      | none => rfl
      | some t => rfl

theorem electreCredibility_scale (c : Rat) (hc : c ≠ 0) (a1 a2 : Alt Rat) (crits : List (Crit Rat))
    (ec : KMap (ECrit Rat)) :
    electreCredibility a1 a2 crits (scaleWeights c ec) = electreCredibility a1 a2 crits ec := by
  unfold electreCredibility
  have : (fun cr => evaluatePair a1 a2 cr (scaleWeights c ec)) = fun cr => (evaluatePair a1 a2 cr ec).map (scaleRes c) := by
    funext cr; exact evaluatePair_scale c a1 a2 cr ec
  rw [this, mapM_except_map]
  cases crits.mapM (fun cr => evaluatePair a1 a2 cr ec) with
  | error e => rfl
  | ok rs =>
    simp only [Except.map, bind, Except.bind, pure, Except.pure]
    rw [totalC_scale c hc, credibility_scale]

/-! ### dominance: σ is monotone in the criterion values -/

/-- the guard of C05/C06 for every criterion in use: constant thresholds `0 ≤ q < p < v`, `k > 0` -/
def GuardAll (crits : List (Crit Rat)) (ec : KMap (ECrit Rat)) : Prop :=
  ∀ c ∈ crits, ∀ t, ec.get? c.id = some t → ConstThr t ∧ 0 < t.k

/-- `a'` is at least as good as `a` on every criterion (signed values) -/
def Dominates (crits : List (Crit Rat)) (a' a : Alt Rat) : Prop :=
  ∀ c ∈ crits, ∀ x y, a.signed c = .ok x → a'.signed c = .ok y → x ≤ y

theorem evaluatePair_ok {a1 a2 : Alt Rat} {cr : Crit Rat} {ec : KMap (ECrit Rat)} {r : ESingle Rat}
    (h : evaluatePair a1 a2 cr ec = .ok r) :
    ∃ c1 c2 t, a1.signed cr = .ok c1 ∧ a2.signed cr = .ok c2 ∧ ec.get? cr.id = some t ∧
      r = ⟨t.k, calcElectreResult c1 c2 cr.mult t⟩ := by
  unfold evaluatePair at h
  cases h1 : a1.signed cr with
  | error e => rw [h1] at h; cases h
  | ok c1 =>
    cases h2 : a2.signed cr with
    | error e => rw [h1, h2] at h; cases h
    | ok c2 =>
      rw [h1, h2] at h
      simp only [bind, Except.bind] at h
      cases h3 : ec.get? cr.id with
      | none => rw [h3] at h; cases h
      | some t =>
        rw [h3] at h
        simp only [pure, Except.pure, Except.ok.injEq] at h
        exact ⟨c1, c2, t, rfl, rfl, rfl, h.symm⟩

/-- a smaller difference `g(b) − g(a)` gives at least the concordance and at most the discordance -/
theorem calc_betterRes (t : ECrit Rat) (g : ConstThr t) (c1 c2 c1' c2' m m' : Rat) (h : c2' - c1' ≤ c2 - c1) :
    BetterRes ⟨t.k, calcElectreResult c1 c2 m t⟩ ⟨t.k, calcElectreResult c1' c2' m' t⟩ := by
  obtain ⟨e1, e2⟩ := calc_closed_form c1 c2 m t g
  obtain ⟨e1', e2'⟩ := calc_closed_form c1' c2' m' t g
  refine ⟨rfl, ?_, ?_⟩
  · simp only [e1, e1']; exact cOfDiff_antitone _ _ _ _ h
  · simp only [e2, e2']; exact dOfDiff_monotone _ _ _ _ h

theorem ranges_of_mapM (a1 a2 : Alt Rat) (crits : List (Crit Rat)) (ec : KMap (ECrit Rat))
    (hg : GuardAll crits ec) (rs : List (ESingle Rat))
    (h : crits.mapM (fun c => evaluatePair a1 a2 c ec) = .ok rs) :
    ∀ r ∈ rs, 0 < r.k ∧ (0 ≤ r.res.c ∧ r.res.c ≤ 1) ∧ (0 ≤ r.res.d ∧ r.res.d ≤ 1) := by
  intro r hr
  obtain ⟨c, hc, hp⟩ := mapM_except_mem _ _ _ h r hr
  obtain ⟨c1, c2, t, _, _, ht, rfl⟩ := evaluatePair_ok hp
  obtain ⟨g, hk⟩ := hg c hc t ht
  obtain ⟨r1, r2, r3, r4⟩ := crit_range c1 c2 c.mult t g
  exact ⟨hk, ⟨r1, r2⟩, ⟨r3, r4⟩⟩

/-- core of the dominance argument: if every per-criterion result of `(x, y)` is `BetterRes`-below the one
    of `(x', y')`, then concordance and credibility are ordered -/
theorem electreCredibility_mono_of (x y x' y' : Alt Rat) (crits : List (Crit Rat)) (hne : crits ≠ [])
    (ec : KMap (ECrit Rat)) (hg : GuardAll crits ec)
    (hpair : ∀ c ∈ crits, ∀ r r', evaluatePair x y c ec = .ok r → evaluatePair x' y' c ec = .ok r' → BetterRes r r')
    (r r' : ERes Rat) (h : electreCredibility x y crits ec = .ok r) (h' : electreCredibility x' y' crits ec = .ok r') :
    r.c ≤ r'.c ∧ r.d ≤ r'.d := by
  unfold electreCredibility at h h'
  cases hm : crits.mapM (fun c => evaluatePair x y c ec) with
  | error e => rw [hm] at h; cases h
  | ok rs =>
    cases hm' : crits.mapM (fun c => evaluatePair x' y' c ec) with
    | error e => rw [hm'] at h'; cases h'
    | ok rs' =>
      rw [hm] at h; rw [hm'] at h'
      simp only [bind, Except.bind, pure, Except.pure, Except.ok.injEq] at h h'
      subst h; subst h'
      simp only
      have hf := mapM_except_forall₂ _ _ BetterRes crits hpair rs rs' hm hm'
      have hr := ranges_of_mapM x y crits ec hg rs hm
      have hr' := ranges_of_mapM x' y' crits ec hg rs' hm'
      have hne' : rs' ≠ [] := by
        intro he
        have := mapM_except_length _ _ _ hm'
        rw [he] at this
        exact hne (List.length_eq_zero_iff.mp this.symm)
      have hne0 : rs ≠ [] := by
        intro he
        have := mapM_except_length _ _ _ hm
        rw [he] at this
        exact hne (List.length_eq_zero_iff.mp this.symm)
      have hC : calculateTotalC rs ≤ calculateTotalC rs' :=
        totalC_mono rs rs' (List.Forall₂.imp (fun _ _ hab => ⟨hab.1, hab.2.1⟩) hf) (fun r hr0 => (hr r hr0).1)
      have hC0 := (totalC_range rs hne0 (fun r hr0 => (hr r hr0).1) (fun r hr0 => (hr r hr0).2.1)).1
      have hC1 := (totalC_range rs' hne' (fun r hr0 => (hr' r hr0).1) (fun r hr0 => (hr' r hr0).2.1)).2
      exact ⟨hC, calculateCredibility_mono _ _ hC0 hC hC1 rs rs' hf
        (fun r hr0 => (hr r hr0).2.2.2) (fun r hr0 => (hr' r hr0).2.2.1)⟩

/-- σ(a, b) ≤ σ(a', b) when `a'` is at least as good as `a` on every criterion -/
theorem sigma_mono_left (a a' b : Alt Rat) (crits : List (Crit Rat)) (hne : crits ≠ [])
    (ec : KMap (ECrit Rat)) (hg : GuardAll crits ec) (hdom : Dominates crits a' a)
    (r r' : ERes Rat) (h : electreCredibility a b crits ec = .ok r) (h' : electreCredibility a' b crits ec = .ok r') :
    r.c ≤ r'.c ∧ r.d ≤ r'.d := by
  apply electreCredibility_mono_of a b a' b crits hne ec hg _ r r' h h'
  intro c hc r r' hp hp'
  obtain ⟨c1, c2, t, h1, h2, ht, rfl⟩ := evaluatePair_ok hp
  obtain ⟨c1', c2', t', h1', h2', ht', rfl⟩ := evaluatePair_ok hp'
  rw [ht] at ht'; cases ht'
  rw [h2] at h2'; cases h2'
  have := hdom c hc c1 c1' h1 h1'
  exact calc_betterRes t (hg c hc t ht).1 _ _ _ _ _ _ (by linarith)

/-- σ(b, a') ≤ σ(b, a) when `a'` is at least as good as `a` on every criterion -/
theorem sigma_mono_right (a a' b : Alt Rat) (crits : List (Crit Rat)) (hne : crits ≠ [])
    (ec : KMap (ECrit Rat)) (hg : GuardAll crits ec) (hdom : Dominates crits a' a)
    (r r' : ERes Rat) (h : electreCredibility b a crits ec = .ok r) (h' : electreCredibility b a' crits ec = .ok r') :
    r'.c ≤ r.c ∧ r'.d ≤ r.d := by
  apply electreCredibility_mono_of b a' b a crits hne ec hg _ r' r h' h
  intro c hc r r' hp hp'
  obtain ⟨c1, c2, t, h1, h2, ht, rfl⟩ := evaluatePair_ok hp
  obtain ⟨c1', c2', t', h1', h2', ht', rfl⟩ := evaluatePair_ok hp'
  rw [ht] at ht'; cases ht'
  rw [h1] at h1'; cases h1'
  have := hdom c hc c2' c2 h2' h2
  exact calc_betterRes t (hg c hc t ht).1 _ _ _ _ _ _ (by linarith)

end Rdm
