/-
  The links computed by `positionInRanking` on a list sorted by `rankLe` (over `Rat`): list form
  (peers ++ next lower level), membership form, and the connection with `Spec.C04`.
-/
import Rdm.Lemmas.RankingOrder
import Rdm.Spec.C04
namespace Rdm

theorem Num.beq_rat' (a b : Rat) : (@BEq.beq Rat Num.toBEq a b) = decide (a = b) := rfl

/-- second phase of `positionInRanking` (a lower value `m` was found): on a list sorted by
    descending value all of whose values are `≤ m`, the loop collects exactly the entries at `m` -/
theorem positionLoop_found (a : Scored Rat) (m : Rat) (hm : m < a.v) :
    ∀ l : List (Scored Rat), l.Pairwise (fun x y => y.v ≤ x.v) → (∀ r ∈ l, r.v ≤ m) →
      positionLoop a l true m = (l.filter (fun r => r.v == m)).map (·.id)
  | [], _, _ => by simp [positionLoop]
  | r :: rest, hp, hle => by
    have hr : r.v ≤ m := hle r (by simp)
    have hra : r.v < a.v := lt_of_le_of_lt hr hm
    have hne : r.v ≠ a.v := ne_of_lt hra
    rw [List.pairwise_cons] at hp
    unfold positionLoop
    simp only [Num.beq_rat', hne, decide_false, Bool.false_and, if_true, hra]
    by_cases hlt : r.v < m
    · have : ∀ x ∈ rest, ¬ x.v = m := fun x hx h => by
        have := hp.1 x hx; linarith
      simp [hlt, ne_of_lt hlt]
      exact this
    · have heq : r.v = m := le_antisymm hr (not_lt.mp hlt)
      have ih := positionLoop_found a m hm rest hp.2 (fun x hx => hle x (by simp [hx]))
      simp [heq, ih, Num.beq_rat]

/-- the entries one level below `a` in a list: those holding the value of the first entry lower than `a` -/
def lowerLevel (a : Scored Rat) (l : List (Scored Rat)) : List String :=
  match l.filter (fun r => decide (r.v < a.v)) with
  | [] => []
  | r :: _ => (l.filter (fun x => x.v == r.v)).map (·.id)

def peerIds (a : Scored Rat) (l : List (Scored Rat)) : List String :=
  (l.filter (fun r => r.v == a.v && r.id != a.id)).map (·.id)

theorem lowerLevel_cons_of_not_lt (a r : Scored Rat) (rest : List (Scored Rat)) (h : ¬ r.v < a.v) :
    lowerLevel a (r :: rest) = lowerLevel a rest := by
  unfold lowerLevel
  rw [List.filter_cons_of_neg (by simpa using h)]
  cases hf : rest.filter (fun r => decide (r.v < a.v)) with
  | nil => rfl
  | cons m tl =>
    have hm : m ∈ rest.filter (fun r => decide (r.v < a.v)) := by rw [hf]; simp
    have hmv : m.v < a.v := by simpa using (List.mem_filter.mp hm).2
    have : r.v ≠ m.v := fun e => h (e ▸ hmv)
    simp [Num.beq_rat, this]

/-- first phase -/
theorem positionLoop_start (a : Scored Rat) (nx : Rat) :
    ∀ l : List (Scored Rat), l.Pairwise (fun x y => y.v ≤ x.v) →
      positionLoop a l false nx = peerIds a l ++ lowerLevel a l
  | [], _ => by simp [positionLoop, peerIds, lowerLevel]
  | r :: rest, hp => by
    rw [List.pairwise_cons] at hp
    have ih := positionLoop_start a nx rest hp.2
    unfold positionLoop
    simp only [Num.beq_rat']
    rcases lt_trichotomy r.v a.v with h | h | h
    · -- first lower entry
      have hne : r.v ≠ a.v := ne_of_lt h
      have hrest : ∀ x ∈ rest, x.v ≤ r.v := hp.1
      have hf := positionLoop_found a r.v h rest hp.2 hrest
      have hpe : peerIds a (r :: rest) = [] := by
        simp only [peerIds, List.map_eq_nil_iff, List.filter_eq_nil_iff]
        intro x hx
        simp only [List.mem_cons] at hx
        rcases hx with rfl | hx
        · simp [Num.beq_rat, hne]
        · have := hrest x hx
          have : x.v ≠ a.v := ne_of_lt (lt_of_le_of_lt this h)
          simp [Num.beq_rat, this]
      simp [hne, h, hf, hpe, lowerLevel, Num.beq_rat]
    · have hnl : ¬ r.v < a.v := by rw [h]; exact lt_irrefl _
      rw [lowerLevel_cons_of_not_lt a r rest hnl]
      by_cases hid : r.id = a.id
      · simp [h, hid, ih, peerIds, Num.beq_rat]
      · simp [h, hid, ih, peerIds, Num.beq_rat]
    · have hne : r.v ≠ a.v := ne_of_gt h
      have hnl : ¬ r.v < a.v := not_lt.mpr (le_of_lt h)
      rw [lowerLevel_cons_of_not_lt a r rest hnl]
      simp [hne, hnl, ih, peerIds, Num.beq_rat]

/-! ### connection with `Spec.C04` -/

/-- `g` re-packages scored alternatives as ranking entries without touching id and value -/
def Preserves (g : Scored Rat → RankEntry Rat) : Prop := ∀ s, (g s).id = s.id ∧ (g s).v = s.v

theorem spec_peers_map (g : Scored Rat → RankEntry Rat) (hg : Preserves g) (l : List (Scored Rat))
    (a : Scored Rat) : Spec.C04.peers (l.map g) (g a) = peerIds a l := by
  unfold Spec.C04.peers peerIds
  rw [List.filter_map, List.map_map]
  have h1 : ((fun r : RankEntry Rat => r.v == (g a).v && r.id != (g a).id) ∘ g)
      = (fun r : Scored Rat => r.v == a.v && r.id != a.id) := by
    funext r; simp [(hg r).1, (hg r).2, (hg a).1, (hg a).2]
  have h2 : ((fun r : RankEntry Rat => r.id) ∘ g) = (fun r : Scored Rat => r.id) := by
    funext r; simp [(hg r).1]
  rw [h1, h2]

theorem nextLower_fold_some (m : Rat) : ∀ (l : List (RankEntry Rat)), (∀ r ∈ l, r.v ≤ m) →
    l.foldl (fun acc r => match acc with
      | none => some r.v
      | some m => if m < r.v then some r.v else some m) (some m) = some m
  | [], _ => rfl
  | r :: rest, h => by
    have hr : ¬ m < r.v := not_lt.mpr (h r (by simp))
    simp only [List.foldl_cons, hr, if_false]
    exact nextLower_fold_some m rest (fun x hx => h x (by simp [hx]))

theorem spec_nextLower_sorted (l : List (RankEntry Rat)) (hp : l.Pairwise (fun x y => y.v ≤ x.v)) (v : Rat) :
    Spec.C04.nextLower l v = ((l.filter fun r => decide (r.v < v)).head?).map (·.v) := by
  unfold Spec.C04.nextLower
  have hp' := hp.filter (fun r => decide (r.v < v))
  cases hf : l.filter (fun r => decide (r.v < v)) with
  | nil => rfl
  | cons m tl =>
    rw [hf, List.pairwise_cons] at hp'
    simp only [List.foldl_cons, List.head?_cons, Option.map_some]
    exact nextLower_fold_some m.v tl hp'.1

theorem spec_nextLevel_map (g : Scored Rat → RankEntry Rat) (hg : Preserves g) (l : List (Scored Rat))
    (hp : l.Pairwise (fun x y => y.v ≤ x.v)) (a : Scored Rat) :
    Spec.C04.nextLevel (l.map g) (g a) = lowerLevel a l := by
  have hp2 : (l.map g).Pairwise (fun x y => y.v ≤ x.v) := by
    rw [List.pairwise_map]; simpa [(hg _).2] using hp
  unfold Spec.C04.nextLevel lowerLevel
  rw [spec_nextLower_sorted _ hp2, List.filter_map]
  have h1 : ((fun r : RankEntry Rat => decide (r.v < (g a).v)) ∘ g)
      = (fun r : Scored Rat => decide (r.v < a.v)) := by
    funext r; simp [(hg r).2, (hg a).2]
  rw [h1]
  cases hf : l.filter (fun r => decide (r.v < a.v)) with
  | nil => rfl
  | cons m tl =>
    simp only [List.map_cons, List.head?_cons, Option.map_some, (hg m).2]
    rw [List.filter_map, List.map_map]
    have h2 : ((fun r : RankEntry Rat => r.v == m.v) ∘ g) = (fun r : Scored Rat => r.v == m.v) := by
      funext r; simp [(hg r).2]
    have h3 : ((fun r : RankEntry Rat => r.id) ∘ g) = (fun r : Scored Rat => r.id) := by
      funext r; simp [(hg r).1]
    rw [h2, h3]

theorem pairwise_desc_of_rankLe {l : List (Scored Rat)} (h : l.Pairwise (fun a b => rankLe a b = true)) :
    l.Pairwise (fun x y => y.v ≤ x.v) :=
  h.imp (fun {a b} hab => rankLe_v a b hab)

/-- links of an entry of a sorted list, as a list: peers then the next lower level -/
theorem positionInRanking_eq (a : Scored Rat) (l : List (Scored Rat))
    (h : l.Pairwise (fun a b => rankLe a b = true)) :
    positionInRanking a l = peerIds a l ++ lowerLevel a l :=
  positionLoop_start a a.v l (pairwise_desc_of_rankLe h)

/-! ### membership form -/

theorem mem_peerIds (a : Scored Rat) (l : List (Scored Rat)) (x : String) :
    x ∈ peerIds a l ↔ ∃ r ∈ l, r.id = x ∧ r.id ≠ a.id ∧ r.v = a.v := by
  simp only [peerIds, List.mem_map, List.mem_filter, Num.beq_rat, Bool.and_eq_true, decide_eq_true_eq,
    bne_iff_ne, ne_eq]
  constructor
  · rintro ⟨r, ⟨hr, hv, hid⟩, rfl⟩; exact ⟨r, hr, rfl, hid, hv⟩
  · rintro ⟨r, hr, rfl, hid, hv⟩; exact ⟨r, ⟨hr, hv, hid⟩, rfl⟩

theorem mem_lowerLevel (a : Scored Rat) (l : List (Scored Rat)) (hp : l.Pairwise (fun x y => y.v ≤ x.v))
    (x : String) :
    x ∈ lowerLevel a l ↔ ∃ r ∈ l, r.id = x ∧ r.v < a.v ∧ ¬ ∃ y ∈ l, r.v < y.v ∧ y.v < a.v := by
  unfold lowerLevel
  have hp' := hp.filter (fun r => decide (r.v < a.v))
  cases hf : l.filter (fun r => decide (r.v < a.v)) with
  | nil =>
    simp only [List.not_mem_nil, false_iff]
    rintro ⟨r, hr, _, hlt, _⟩
    have : r ∈ l.filter (fun r => decide (r.v < a.v)) := List.mem_filter.mpr ⟨hr, by simpa using hlt⟩
    rw [hf] at this; simp at this
  | cons m tl =>
    have hm : m ∈ l.filter (fun r => decide (r.v < a.v)) := by rw [hf]; simp
    have hml : m ∈ l := (List.mem_filter.mp hm).1
    have hmv : m.v < a.v := by simpa using (List.mem_filter.mp hm).2
    have hmax : ∀ y ∈ l, y.v < a.v → y.v ≤ m.v := by
      intro y hy hlt
      have : y ∈ l.filter (fun r => decide (r.v < a.v)) := List.mem_filter.mpr ⟨hy, by simpa using hlt⟩
      rw [hf] at this hp'
      rcases List.mem_cons.mp this with rfl | h
      · exact le_refl _
      · exact (List.pairwise_cons.mp hp').1 y h
    simp only [List.mem_map, List.mem_filter, Num.beq_rat, decide_eq_true_eq]
    constructor
    · rintro ⟨r, ⟨hr, hv⟩, rfl⟩
      refine ⟨r, hr, rfl, hv ▸ hmv, ?_⟩
      rintro ⟨y, hy, h1, h2⟩
      have := hmax y hy h2
      linarith
    · rintro ⟨r, hr, rfl, hlt, hno⟩
      refine ⟨r, ⟨hr, ?_⟩, rfl⟩
      have hle := hmax r hr hlt
      rcases lt_or_eq_of_le hle with h | h
      · exact absurd ⟨m, hml, h, hmv⟩ hno
      · exact h

/-- membership characterisation of the links of an entry of a list sorted by `rankLe` -/
theorem mem_positionInRanking (a : Scored Rat) (l : List (Scored Rat))
    (h : l.Pairwise (fun a b => rankLe a b = true)) (x : String) :
    x ∈ positionInRanking a l ↔
      ∃ r ∈ l, r.id = x ∧ ((r.id ≠ a.id ∧ r.v = a.v) ∨ (r.v < a.v ∧ ¬ ∃ y ∈ l, r.v < y.v ∧ y.v < a.v)) := by
  rw [positionInRanking_eq a l h, List.mem_append, mem_peerIds, mem_lowerLevel a l (pairwise_desc_of_rankLe h)]
  constructor
  · rintro (⟨r, hr, e, hh⟩ | ⟨r, hr, e, hh⟩)
    · exact ⟨r, hr, e, Or.inl hh⟩
    · exact ⟨r, hr, e, Or.inr hh⟩
  · rintro ⟨r, hr, e, hh | hh⟩
    · exact Or.inl ⟨r, hr, e, hh⟩
    · exact Or.inr ⟨r, hr, e, hh⟩

/-- a list sorted by `rankLe` passes the order clause of the spec -/
theorem sortedOk_of_pairwise (g : Scored Rat → RankEntry Rat) (hg : Preserves g) :
    ∀ l : List (Scored Rat), l.Pairwise (fun a b => rankLe a b = true) →
      Spec.C04.sortedOk (l.map g) = true
  | [], _ => rfl
  | [_], _ => rfl
  | a :: b :: rest, h => by
    rw [List.pairwise_cons] at h
    have hab := (rankLe_iff a b).mp (h.1 b (by simp))
    have ih := sortedOk_of_pairwise g hg (b :: rest) h.2
    simp only [List.map_cons] at ih ⊢
    unfold Spec.C04.sortedOk
    rw [ih]
    simp only [(hg a).1, (hg a).2, (hg b).1, (hg b).2, Bool.and_true, Bool.or_eq_true, Bool.and_eq_true,
      decide_eq_true_eq, Num.beq_rat]
    rcases hab with ⟨e, i⟩ | h
    · right; exact ⟨e, i⟩
    · left; exact h

end Rdm
