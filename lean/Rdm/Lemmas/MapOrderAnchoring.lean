/-
  Map-order independence (C02) of the `range`-over-map loops of the two biases whose sites were covered by
  differential repetition only:

    criteria-mixing.go : criteriaToMix.mix             for a, c1Value := range c1Values { result[a] = … }
    inline-anchoring-applier.go : ApplyAnchoring       for c, scaling := range boundingsWithScales { … }
    inline-anchoring-applier.go : arithmeticAverage    for c, v := range a.Coefficients { sum[c] += v }

  Each is a per-key loop: the step of one key reads inputs that the loop never writes (or only its own key of
  the accumulator) and writes its own key only, so steps of different keys commute up to "equal lookups".
-/
import Rdm.Model.BiasesB
import Rdm.Model.Anchoring
import Rdm.Lemmas.MapOrderLoops
namespace Rdm.MapOrderAnch
open Rdm
variable {α : Type}

/-! ### a `mapM` over a map listing: the result is a listing of the same map -/

theorem mapM_perm_agree {γ δ : Type} (f : γ → R δ) {l₁ l₂ : List γ} (h : l₁.Perm l₂) :
    R.Agree List.Perm (l₁.mapM f) (l₂.mapM f) := by
  induction h with
  | nil => exact List.Perm.refl _
  | cons x _ ih =>
    rw [List.mapM_cons, List.mapM_cons]
    rename_i l₁ l₂ _
    cases hx : f x with
    | error e => trivial
    | ok y =>
      cases h1 : l₁.mapM f with
      | error e =>
        rw [h1] at ih
        cases h2 : l₂.mapM f with
        | ok _ => rw [h2] at ih; exact absurd ih (by simp [R.Agree])
        | error _ => simp only [bind, Except.bind]; trivial
      | ok a =>
        rw [h1] at ih
        cases h2 : l₂.mapM f with
        | error _ => rw [h2] at ih; exact absurd ih (by simp [R.Agree])
        | ok b =>
          rw [h2] at ih
          simp only [bind, Except.bind, pure, Except.pure]
          exact List.Perm.cons y ih
  | swap x y l =>
    rw [List.mapM_cons, List.mapM_cons, List.mapM_cons, List.mapM_cons]
    cases hx : f x with
    | error e =>
      cases hy : f y with
      | error e' => trivial
      | ok b => simp only [bind, Except.bind]; trivial
    | ok a =>
      cases hy : f y with
      | error e' => simp only [bind, Except.bind]; trivial
      | ok b =>
        cases hl : l.mapM f with
        | error e => simp only [bind, Except.bind]; trivial
        | ok r =>
          simp only [bind, Except.bind, pure, Except.pure]
          exact List.Perm.swap a b r
  | trans _ _ ih₁ ih₂ =>
    rename_i l₁ l₂ l₃ _ _
    cases h1 : l₁.mapM f with
    | error e =>
      rw [h1] at ih₁
      cases h2 : l₂.mapM f with
      | ok _ => rw [h2] at ih₁; exact absurd ih₁ (by simp [R.Agree])
      | error e2 =>
        rw [h2] at ih₂
        cases h3 : l₃.mapM f with
        | ok _ => rw [h3] at ih₂; exact absurd ih₂ (by simp [R.Agree])
        | error _ => trivial
    | ok a =>
      rw [h1] at ih₁
      cases h2 : l₂.mapM f with
      | error _ => rw [h2] at ih₁; exact absurd ih₁ (by simp [R.Agree])
      | ok b =>
        rw [h2] at ih₁ ih₂
        cases h3 : l₃.mapM f with
        | error _ => rw [h3] at ih₂; exact absurd ih₂ (by simp [R.Agree])
        | ok c => rw [h3] at ih₂; exact List.Perm.trans ih₁ ih₂

section Mix
variable [Num α]

/-- the body of `mix` reads the second map through a lookup only -/
theorem mixValues_congr (ρ : α) (v1 : KMap α) {v2 v2' : KMap α} (h : KMap.LookupEq v2 v2') :
    mixValues ρ v1 v2 = mixValues ρ v1 v2' := by
  unfold mixValues
  congr 1
  funext p
  obtain ⟨a, x⟩ := p
  simp only [h a]

/-- **`criteriaToMix.mix`** gives a listing of the same result map (and the same verdict) for every listing
    of the two rescaled-value maps it ranges over / looks up -/
theorem mixValues_map_order (ρ : α) {v1 v1' v2 v2' : KMap α} (h1 : v1.Perm v1') (h2 : v2.Perm v2')
    (hk2 : (v2.map Prod.fst).Nodup) :
    R.Agree List.Perm (mixValues ρ v1 v2) (mixValues ρ v1' v2') := by
  rw [mixValues_congr ρ v1 (KMap.LookupEq.of_perm h2 hk2)]
  unfold mixValues
  exact mapM_perm_agree _ h1

/-- … hence equal lookups: what `mixingCore` reads of the result (`res.get? a.id`) does not depend on the
    listing -/
theorem mixValues_map_order_lookups (ρ : α) {v1 v1' v2 v2' : KMap α} (h1 : v1.Perm v1') (h2 : v2.Perm v2')
    (hk2 : (v2.map Prod.fst).Nodup) {r r' : KMap α}
    (hr : mixValues ρ v1 v2 = .ok r) (hr' : mixValues ρ v1' v2' = .ok r')
    (hkr : (r.map Prod.fst).Nodup) : KMap.LookupEq r r' := by
  have h := mixValues_map_order ρ h1 h2 hk2
  rw [hr, hr'] at h
  exact KMap.LookupEq.of_perm h hkr

end Mix

section Inline
variable [Num α]

/-- equal lookups in both accumulators of the inline applier's loop -/
def PairEq (s₁ s₂ : KMap α × KMap α) : Prop := KMap.LookupEq s₁.1 s₂.1 ∧ KMap.LookupEq s₁.2 s₂.2

theorem set_respects {β : Type} {w₁ w₂ : KMap β} (h : KMap.LookupEq w₁ w₂) (k : String) (v : β) :
    KMap.LookupEq (w₁.set k v) (w₂.set k v) := by
  intro k'
  rw [KMap.get?_set, KMap.get?_set, h k']

theorem set_comm {β : Type} (w : KMap β) {k₁ k₂ : String} (hne : k₁ ≠ k₂) (v₁ v₂ : β) :
    KMap.LookupEq ((w.set k₁ v₁).set k₂ v₂) ((w.set k₂ v₂).set k₁ v₁) := by
  intro k'
  simp only [KMap.get?_set]
  by_cases h1 : k' = k₁
  · subst h1; simp [hne]
  · by_cases h2 : k' = k₂
    · subst h2; simp [h1]
    · simp [h1, h2]

theorem inlineStep_respects (b : Bounding α) (avg old : KMap α) (s₁ s₂ : KMap α × KMap α)
    (x : String × Scale α) (h : PairEq s₁ s₂) :
    R.Agree PairEq (inlineStep b avg old s₁ x) (inlineStep b avg old s₂ x) := by
  unfold inlineStep
  cases KMap.fetch avg x.1 with
  | error e => trivial
  | ok d =>
    cases KMap.fetch old x.1 with
    | error e => trivial
    | ok v => exact ⟨set_respects h.1 _ _, set_respects h.2 _ _⟩

theorem inlineStep_comm (b : Bounding α) (avg old : KMap α) (s : KMap α × KMap α)
    (x y : String × Scale α) (hne : x.1 ≠ y.1) :
    R.Agree PairEq (inlineStep b avg old s x >>= (inlineStep b avg old · y))
      (inlineStep b avg old s y >>= (inlineStep b avg old · x)) := by
  unfold inlineStep
  cases KMap.fetch avg x.1 with
  | error e =>
    cases KMap.fetch avg y.1 with
    | error e' => trivial
    | ok dy =>
      cases KMap.fetch old y.1 with
      | error e' => trivial
      | ok vy => simp only [bind, Except.bind, pure, Except.pure]; trivial
  | ok dx =>
    cases KMap.fetch old x.1 with
    | error e =>
      cases KMap.fetch avg y.1 with
      | error e' => trivial
      | ok dy =>
        cases KMap.fetch old y.1 with
        | error e' => trivial
        | ok vy => simp only [bind, Except.bind, pure, Except.pure]; trivial
    | ok vx =>
      cases KMap.fetch avg y.1 with
      | error e' => simp only [bind, Except.bind, pure, Except.pure]; trivial
      | ok dy =>
        cases KMap.fetch old y.1 with
        | error e' => simp only [bind, Except.bind, pure, Except.pure]; trivial
        | ok vy =>
          simp only [bind, Except.bind, pure, Except.pure]
          exact ⟨set_comm s.1 hne _ _, set_comm s.2 hne _ _⟩

omit [Num α] in
theorem PairEq.refl (s : KMap α × KMap α) : PairEq s s := ⟨KMap.LookupEq.refl _, KMap.LookupEq.refl _⟩
omit [Num α] in
theorem PairEq.trans {a b c : KMap α × KMap α} (h : PairEq a b) (h' : PairEq b c) : PairEq a c :=
  ⟨h.1.trans h'.1, h.2.trans h'.2⟩

/-- **`InlineAnchoringApplier.ApplyAnchoring`, loop over `boundingsWithScales`**: the new values and the
    applied differences of an alternative have the same lookups (and the verdict is the same) for every listing
    of the scales map -/
theorem inlineLoop_map_order (b : Bounding α) (avg old : KMap α) {sc sc' : KMap (Scale α)}
    (h : sc.Perm sc') (hk : (sc.map Prod.fst).Nodup) (s₁ s₂ : KMap α × KMap α) (hs : PairEq s₁ s₂) :
    R.Agree PairEq (sc.foldlM (inlineStep b avg old) s₁) (sc'.foldlM (inlineStep b avg old) s₂) :=
  foldlM_perm_agree PairEq (inlineStep b avg old) (fun x y => x.1 ≠ y.1)
    (fun h => h.symm) PairEq.refl (fun _ _ _ => PairEq.trans)
    (inlineStep_respects b avg old) (inlineStep_comm b avg old) h (pairwise_ne_of_distinct_keys hk) s₁ s₂ hs

/-! ### `arithmeticAverage`: `sum[c] += v` per coefficient of a reference point -/

def avgStep (acc : KMap α) (cv : String × α) : R (KMap α) := do
  pure (acc.set cv.1 ((← KMap.fetch acc cv.1) + cv.2))

theorem avgStep_respects (w₁ w₂ : KMap α) (x : String × α) (h : KMap.LookupEq w₁ w₂) :
    R.Agree KMap.LookupEq (avgStep w₁ x) (avgStep w₂ x) := by
  unfold avgStep
  rw [h.fetch x.1]
  cases KMap.fetch w₂ x.1 with
  | error e => trivial
  | ok v => exact set_respects h _ _

omit [Num α] in
theorem fetch_set_ne (w : KMap α) {k k' : String} (hne : k' ≠ k) (v : α) :
    KMap.fetch (w.set k v) k' = KMap.fetch w k' := by
  unfold KMap.fetch
  rw [KMap.get?_set, if_neg hne]

theorem avgStep_comm (w : KMap α) (x y : String × α) (hne : x.1 ≠ y.1) :
    R.Agree KMap.LookupEq (avgStep w x >>= (avgStep · y)) (avgStep w y >>= (avgStep · x)) := by
  unfold avgStep
  cases hx : KMap.fetch w x.1 with
  | error e =>
    cases hy : KMap.fetch w y.1 with
    | error e' => trivial
    | ok vy =>
      simp only [bind, Except.bind, pure, Except.pure]
      rw [fetch_set_ne w hne, hx]
      trivial
  | ok vx =>
    cases hy : KMap.fetch w y.1 with
    | error e' =>
      simp only [bind, Except.bind, pure, Except.pure]
      rw [fetch_set_ne w hne.symm, hy]
      trivial
    | ok vy =>
      simp only [bind, Except.bind, pure, Except.pure]
      rw [fetch_set_ne w hne.symm, hy, fetch_set_ne w hne, hx]
      exact set_comm w hne _ _

/-- **`arithmeticAverage`, inner loop**: adding one reference point's coefficient map to the running sum gives
    the same sums (and the same verdict) for every listing of that map -/
theorem avgInner_map_order {m m' : KMap α} (h : m.Perm m') (hk : (m.map Prod.fst).Nodup)
    (w₁ w₂ : KMap α) (hw : KMap.LookupEq w₁ w₂) :
    R.Agree KMap.LookupEq (m.foldlM avgStep w₁) (m'.foldlM avgStep w₂) :=
  foldlM_perm_agree KMap.LookupEq avgStep (fun x y => x.1 ≠ y.1)
    (fun h => h.symm) KMap.LookupEq.refl (fun _ _ _ => KMap.LookupEq.trans)
    avgStep_respects avgStep_comm h (pairwise_ne_of_distinct_keys hk) w₁ w₂ hw

/-- the model's `arithmeticAverage` is built from `avgStep` -/
theorem arithmeticAverage_sum_eq (p0 : String × KMap α) (rest : List (String × KMap α)) :
    arithmeticAverage (p0 :: rest) =
      (rest.foldlM (fun acc p => p.2.foldlM avgStep acc) p0.2 >>= fun sum =>
        pure (if Num.one < (Num.ofNat (p0 :: rest).length : α) then sum.map fun cv => (cv.1, cv.2 / Num.ofNat (p0 :: rest).length)
              else sum)) := rfl

/-- the outer loop of `arithmeticAverage` over the reference points (a slice), each with its own listing -/
theorem avgOuter_map_order : ∀ (rest rest' : List (String × KMap α)), rest.length = rest'.length →
    (∀ p ∈ rest.zip rest', p.1.2.Perm p.2.2 ∧ (p.1.2.map Prod.fst).Nodup) →
    ∀ (w₁ w₂ : KMap α), KMap.LookupEq w₁ w₂ →
    R.Agree KMap.LookupEq (rest.foldlM (fun acc p => p.2.foldlM avgStep acc) w₁)
      (rest'.foldlM (fun acc p => p.2.foldlM avgStep acc) w₂)
  | [], [], _, _, _, _, hw => hw
  | [], _ :: _, hl, _, _, _, _ => by simp at hl
  | _ :: _, [], hl, _, _, _, _ => by simp at hl
  | p :: ps, q :: qs, hl, hz, w₁, w₂, hw => by
    rw [List.foldlM_cons, List.foldlM_cons]
    have hpq := hz (p, q) (by simp [List.zip_cons_cons])
    refine R.Agree.bind (avgInner_map_order hpq.1 hpq.2 w₁ w₂ hw) (fun a b hab => ?_)
    exact avgOuter_map_order ps qs (by simpa using hl)
      (fun r hr => hz r (by rw [List.zip_cons_cons]; exact List.mem_cons_of_mem _ hr)) a b hab

omit [Num α] in
theorem lookup_map_val {β γ : Type} (g : β → γ) (k : String) : ∀ (m : KMap β),
    List.lookup k (m.map fun cv => (cv.1, g cv.2)) = (List.lookup k m).map g
  | [] => rfl
  | (a, v) :: m => by
    rw [List.map_cons, List.lookup_cons, List.lookup_cons]
    cases k == a
    · exact lookup_map_val g k m
    · rfl

/-- **`arithmeticAverage`**: the averaged coefficients have the same lookups (and the verdict is the same) for
    every listing of every reference point's coefficient map -/
theorem arithmeticAverage_map_order (points points' : List (String × KMap α)) (hl : points.length = points'.length)
    (hz : ∀ p ∈ points.zip points', p.1.2.Perm p.2.2 ∧ (p.1.2.map Prod.fst).Nodup) :
    R.Agree KMap.LookupEq (arithmeticAverage points) (arithmeticAverage points') := by
  match points, points', hl, hz with
  | [], [], _, _ => trivial
  | [], _ :: _, hl, _ => simp at hl
  | _ :: _, [], hl, _ => simp at hl
  | p0 :: rest, q0 :: rest', hl, hz =>
    rw [arithmeticAverage_sum_eq, arithmeticAverage_sum_eq]
    have h0 := hz (p0, q0) (by simp [List.zip_cons_cons])
    have hl' : rest.length = rest'.length := by simpa using hl
    refine R.Agree.bind (avgOuter_map_order rest rest' hl'
      (fun r hr => hz r (by rw [List.zip_cons_cons]; exact List.mem_cons_of_mem _ hr))
      p0.2 q0.2 (KMap.LookupEq.of_perm h0.1 h0.2)) (fun a b hab => ?_)
    show KMap.LookupEq _ _
    rw [List.length_cons, List.length_cons, hl']
    split
    · intro k
      unfold KMap.get?
      rw [lookup_map_val (fun v => v / (Num.ofNat (rest'.length + 1) : α)),
        lookup_map_val (fun v => v / (Num.ofNat (rest'.length + 1) : α))]
      have := hab k
      unfold KMap.get? at this
      rw [this]
    · exact hab

/-- result of `inlineOne` up to the listing of its two maps -/
def OneEq (r r' : Alt α × Alt α) : Prop :=
  r.1.id = r'.1.id ∧ r.2.id = r'.2.id ∧ KMap.LookupEq r.1.vals r'.1.vals ∧ KMap.LookupEq r.2.vals r'.2.vals

/-- **the per-alternative body of `InlineAnchoringApplier.ApplyAnchoring`**: the new values and the applied
    differences of an alternative do not depend on the listing of the scales map -/
theorem inlineOne_map_order (b : Bounding α) {sc sc' : KMap (Scale α)} (h : sc.Perm sc')
    (hk : (sc.map Prod.fst).Nodup) (p : AltDiffs α) :
    R.Agree OneEq (inlineOne b sc p) (inlineOne b sc' p) := by
  unfold inlineOne
  cases arithmeticAverage p.2 with
  | error e => trivial
  | ok avg =>
    show R.Agree OneEq (sc.foldlM (inlineStep b avg p.1.vals) (avg, []) >>= _)
      (sc'.foldlM (inlineStep b avg p.1.vals) (avg, []) >>= _)
    refine R.Agree.bind (inlineLoop_map_order b avg p.1.vals h hk (avg, []) (avg, []) (PairEq.refl _))
      (fun a c hac => ?_)
    exact ⟨rfl, rfl, hac.1, hac.2⟩

end Inline
/-! ### `idealReferenceAlternativeEvaluator`: `prepareCriteriaWithCoefficients` (range over the first anchoring
    alternative's value map) and `extractCriteriaValues` (range over the `best` map) -/

section FindBest
variable [Num α]

/-- the loop body of `findBestCriteriaValues` for one alternative and one criterion -/
def fbStep (pred : Crit α → α × α → α × α → Bool) (a : Alt α × α) (best : KMap (α × α)) (c : Crit α) :
    R (KMap (α × α)) := do
  let v ← a.1.raw c
  match best.get? c.id with
  | none => throw s!"criterion-not-found:{c.id}"
  | some old => pure (if pred c old (v, a.2) then best.set c.id (v, a.2) else best)

theorem findBestStep_eq (pred : Crit α → α × α → α × α → Bool) (crits : List (Crit α))
    (best : KMap (α × α)) (a : Alt α × α) : findBestStep pred crits best a = crits.foldlM (fbStep pred a) best := rfl

theorem fbStep_respects (pred : Crit α → α × α → α × α → Bool) (a : Alt α × α) (b₁ b₂ : KMap (α × α)) (c : Crit α)
    (h : KMap.LookupEq b₁ b₂) : R.Agree KMap.LookupEq (fbStep pred a b₁ c) (fbStep pred a b₂ c) := by
  unfold fbStep
  cases a.1.raw c with
  | error e => trivial
  | ok v =>
    show R.Agree KMap.LookupEq (match b₁.get? c.id with
        | none => throw s!"criterion-not-found:{c.id}"
        | some old => pure (if pred c old (v, a.2) then b₁.set c.id (v, a.2) else b₁))
      (match b₂.get? c.id with
        | none => throw s!"criterion-not-found:{c.id}"
        | some old => pure (if pred c old (v, a.2) then b₂.set c.id (v, a.2) else b₂))
    rw [h c.id]
    cases b₂.get? c.id with
    | none => trivial
    | some old =>
      show KMap.LookupEq _ _
      split
      · exact set_respects h _ _
      · exact h

theorem findBestStep_respects (pred : Crit α → α × α → α × α → Bool) (crits : List (Crit α))
    (b₁ b₂ : KMap (α × α)) (a : Alt α × α) (h : KMap.LookupEq b₁ b₂) :
    R.Agree KMap.LookupEq (findBestStep pred crits b₁ a) (findBestStep pred crits b₂ a) := by
  rw [findBestStep_eq, findBestStep_eq]
  exact foldlM_respects KMap.LookupEq (fbStep pred a) (fbStep_respects pred a) crits b₁ b₂ h

omit [Num α] in
theorem keys_map_val {β γ : Type} (g : β → γ) (m : KMap β) :
    ((m.map fun p => (p.1, g p.2)).map Prod.fst) = m.map Prod.fst := by
  rw [List.map_map]; rfl

/-- reference point up to the listing of its value map -/
def AltEq (r r' : Alt α) : Prop := r.id = r'.id ∧ KMap.LookupEq r.vals r'.vals

/-- **`ideal` / `nadir` reference alternative**: the reference point has the same values (as lookups), and the
    verdict is the same, for every listing of the FIRST anchoring alternative's value map — the map
    `prepareCriteriaWithCoefficients` ranges over; `extractCriteriaValues` ranges over the resulting `best` map and
    only copies it key by key -/
theorem findBest_map_order (pred : Crit α → α × α → α × α → Bool) (name : String) (a0 a0' : Alt α) (k0 : α)
    (rest : List (Alt α × α)) (crits : List (Crit α)) (h : a0.vals.Perm a0'.vals)
    (hk : (a0.vals.map Prod.fst).Nodup) :
    R.Agree AltEq (findBest pred name ((a0, k0) :: rest) crits) (findBest pred name ((a0', k0) :: rest) crits) := by
  unfold findBest
  have h0 : KMap.LookupEq (a0.vals.map fun p => (p.1, (p.2, k0))) (a0'.vals.map fun p => (p.1, (p.2, k0))) :=
    KMap.LookupEq.of_perm (h.map _) (by rw [keys_map_val (fun v => (v, k0))]; exact hk)
  refine R.Agree.bind (foldlM_respects KMap.LookupEq (findBestStep pred crits)
    (fun s₁ s₂ x hs => findBestStep_respects pred crits s₁ s₂ x hs) rest _ _ h0) (fun b b' hb => ?_)
  refine ⟨rfl, ?_⟩
  intro k
  show List.lookup k (b.map fun p => (p.1, p.2.1)) = List.lookup k (b'.map fun p => (p.1, p.2.1))
  rw [lookup_map_val (fun v : α × α => v.1), lookup_map_val (fun v : α × α => v.1)]
  have := hb k
  unfold KMap.get? at this
  rw [this]

end FindBest

end Rdm.MapOrderAnch
