/-
  Lemmas about the preference-reversal bias (C16): `KMap.set`, the per-alternative mirroring loop,
  `UpdateAlternatives`.
-/
import Rdm.Lemmas.BiasAOmission
import Mathlib.Data.List.Nodup
import Mathlib.Tactic.Ring
import Mathlib.Tactic.Linarith
import Rdm.Lemmas.NumRat
set_option linter.unusedSectionVars false
set_option linter.unusedSimpArgs false
open Rdm
namespace Rdm.BiasA
variable {α : Type} [Num α]

/-! ### `KMap.set` -/

theorem lookup_cons_ite {β : Type} (k' : String) (p : String × β) (m : List (String × β)) :
    List.lookup k' (p :: m) = if k' = p.1 then some p.2 else List.lookup k' m := by
  obtain ⟨pk, pv⟩ := p
  rw [List.lookup_cons]
  by_cases h : k' = pk
  · simp [h]
  · have : (k' == pk) = false := by simp [h]
    simp [this, h]

theorem KMap.any_key_iff {β : Type} (m : KMap β) (k : String) :
    m.any (fun p => p.1 == k) = true ↔ (m.get? k).isSome = true := by
  induction m with
  | nil => simp [KMap.get?]
  | cons p m ih =>
    simp only [List.any_cons, Bool.or_eq_true, KMap.get?, lookup_cons_ite] at ih ⊢
    by_cases h : k = p.1
    · subst h; simp
    · have h1 : (p.1 == k) = false := by simp [Ne.symm h]
      simp only [h1, Bool.false_eq_true, false_or, if_neg h]
      exact ih

theorem KMap.get?_map_set {β : Type} (m : KMap β) (k : String) (v : β) (k' : String) :
    List.lookup k' (m.map fun p => if p.1 == k then (k, v) else p) =
      if k' = k then (if (List.lookup k m).isSome then some v else none) else List.lookup k' m := by
  induction m with
  | nil => simp
  | cons p m ih =>
    simp only [List.map_cons, lookup_cons_ite]
    by_cases hp : p.1 = k
    · have : (p.1 == k) = true := by simp [hp]
      simp only [this, if_true]
      by_cases hk : k' = k
      · subst hk; subst hp; simp
      · have hkp : ¬ k' = p.1 := by rw [hp]; exact hk
        simp only [if_neg hk, if_neg hkp, ih]
    · have : (p.1 == k) = false := by simp [hp]
      simp only [this, Bool.false_eq_true, if_false]
      by_cases hk : k' = k
      · subst hk
        have h1 : ¬ k' = p.1 := fun e => hp e.symm
        simp only [if_neg h1, ih, if_true]
      · by_cases hkp : k' = p.1
        · rw [if_pos hkp, if_pos hkp, if_neg hk]
        · simp only [if_neg hkp, ih, if_neg hk]

theorem KMap.get?_set_self {β : Type} (m : KMap β) (k : String) (v : β) : (m.set k v).get? k = some v := by
  unfold KMap.set
  split
  · rename_i h
    rw [KMap.any_key_iff] at h
    simp only [KMap.get?] at *
    rw [KMap.get?_map_set]; simp [h]
  · rename_i h
    have h' : m.get? k = none := by
      rw [KMap.any_key_iff] at h; simpa using h
    simp only [KMap.get?] at *
    rw [List.lookup_append, h']; simp [lookup_cons_ite]

theorem KMap.get?_set_ne {β : Type} (m : KMap β) (k : String) (v : β) {k' : String} (hk : k' ≠ k) :
    (m.set k v).get? k' = m.get? k' := by
  unfold KMap.set
  split
  · simp only [KMap.get?]; rw [KMap.get?_map_set, if_neg hk]
  · simp only [KMap.get?]
    rw [List.lookup_append]
    cases h : List.lookup k' m <;> simp [lookup_cons_ite, hk]

theorem KMap.keys_set_of_mem {β : Type} (m : KMap β) (k : String) (v : β) (h : (m.get? k).isSome) :
    (m.set k v).keys = m.keys := by
  unfold KMap.set
  rw [if_pos ((KMap.any_key_iff m k).2 h)]
  simp only [KMap.keys, List.map_map]
  apply List.map_congr_left
  intro p _
  simp only [Function.comp]
  split
  · rename_i hp; simpa using (by simpa using hp : p.1 = k).symm
  · rfl

/-- one step of the mirroring loop (the lambda of `reverseAlt`) -/
def revStep (acc : Alt α × List α) (cr : Crit α × (α × α)) : R (Alt α × List α) := do
  let v ← KMap.fetch acc.1.vals cr.1.id
  let nv := reverseValue cr.2 v
  pure ({ acc.1 with vals := acc.1.vals.set cr.1.id nv }, acc.2 ++ [nv])

theorem reverseAlt_eq (toRev : List (Crit α × (α × α))) (a : Alt α) :
    reverseAlt toRev a = toRev.foldlM revStep (a, []) := rfl

theorem revStep_ok {acc acc' : Alt α × List α} {cr : Crit α × (α × α)} (h : revStep acc cr = .ok acc') :
    ∃ v, acc.1.vals.get? cr.1.id = some v ∧
      acc' = ({ acc.1 with vals := acc.1.vals.set cr.1.id (reverseValue cr.2 v) }, acc.2 ++ [reverseValue cr.2 v]) := by
  unfold revStep at h
  rw [bind_ok] at h
  obtain ⟨v, hv, h⟩ := h
  rw [pure_ok] at h
  exact ⟨v, fetch_ok.1 hv, h.symm⟩

/-- the mirroring loop for one alternative: id and key set unchanged; values of criteria that are not
    selected untouched; with distinct selected ids every selected value `v` becomes
    `reverseValue range v`, and the reported values are exactly the stored ones -/
theorem foldlM_revStep_spec : ∀ (toRev : List (Crit α × (α × α))) (acc acc' : Alt α × List α),
    toRev.foldlM revStep acc = .ok acc' →
    acc'.1.id = acc.1.id ∧ acc'.1.vals.keys = acc.1.vals.keys ∧
    (∀ k, k ∉ toRev.map (·.1.id) → acc'.1.vals.get? k = acc.1.vals.get? k) ∧
    ((toRev.map (·.1.id)).Nodup → ∀ cr ∈ toRev, ∃ v, acc.1.vals.get? cr.1.id = some v ∧
        acc'.1.vals.get? cr.1.id = some (reverseValue cr.2 v)) ∧
    ((toRev.map (·.1.id)).Nodup → ∃ vs, acc'.2 = acc.2 ++ vs ∧
        List.Forall₂ (fun cr nv => acc'.1.vals.get? cr.1.id = some nv) toRev vs) := by
  intro toRev
  induction toRev with
  | nil =>
    intro acc acc' h
    rw [List.foldlM_nil, pure_ok] at h
    subst h
    exact ⟨rfl, rfl, fun _ _ => rfl, fun _ cr hcr => absurd hcr (List.not_mem_nil), fun _ => ⟨[], by simp, .nil⟩⟩
  | cons cr rest ih =>
    intro acc acc' h
    rw [List.foldlM_cons, bind_ok] at h
    obtain ⟨mid, hmid, h⟩ := h
    obtain ⟨v, hv, rfl⟩ := revStep_ok hmid
    obtain ⟨h1, h2, h3, h4, h5⟩ := ih _ _ h
    simp only at h1 h2 h3 h4 h5
    have hsome : (acc.1.vals.get? cr.1.id).isSome := by rw [hv]; rfl
    refine ⟨h1, ?_, ?_, ?_, ?_⟩
    · rw [h2, KMap.keys_set_of_mem _ _ _ hsome]
    · intro k hk
      simp only [List.map_cons, List.mem_cons, not_or] at hk
      rw [h3 k hk.2, KMap.get?_set_ne _ _ _ hk.1]
    · intro hnd cr' hcr'
      simp only [List.map_cons, List.nodup_cons] at hnd
      rcases List.mem_cons.1 hcr' with rfl | hmem
      · refine ⟨v, hv, ?_⟩
        rw [h3 _ hnd.1, KMap.get?_set_self]
      · obtain ⟨v', hv', hres⟩ := h4 hnd.2 cr' hmem
        have hne : cr'.1.id ≠ cr.1.id := by
          intro e; exact hnd.1 (e ▸ List.mem_map_of_mem (f := fun x : Crit α × (α × α) => x.1.id) hmem)
        rw [KMap.get?_set_ne _ _ _ hne] at hv'
        exact ⟨v', hv', hres⟩
    · intro hnd
      simp only [List.map_cons, List.nodup_cons] at hnd
      obtain ⟨vs, hvs, hf⟩ := h5 hnd.2
      refine ⟨reverseValue cr.2 v :: vs, by rw [hvs]; simp, .cons ?_ hf⟩
      rw [h3 _ hnd.1, KMap.get?_set_self]


/-- `a'` is `a` with the selected criteria mirrored inside their ranges -/
def Mirrored (toRev : List (Crit α × (α × α))) (a a' : Alt α) : Prop :=
  a'.id = a.id ∧ a'.vals.keys = a.vals.keys ∧
  (∀ k, k ∉ toRev.map (·.1.id) → a'.vals.get? k = a.vals.get? k) ∧
  (∀ cr ∈ toRev, ∃ v, a.vals.get? cr.1.id = some v ∧ a'.vals.get? cr.1.id = some (reverseValue cr.2 v))

theorem reverseAlt_mirrored {toRev : List (Crit α × (α × α))} (hnd : (toRev.map (·.1.id)).Nodup)
    {a : Alt α} {r : Alt α × List α} (h : reverseAlt toRev a = .ok r) :
    Mirrored toRev a r.1 ∧ List.Forall₂ (fun cr nv => r.1.vals.get? cr.1.id = some nv) toRev r.2 := by
  rw [reverseAlt_eq] at h
  obtain ⟨h1, h2, h3, h4, h5⟩ := foldlM_revStep_spec toRev _ _ h
  obtain ⟨vs, hvs, hf⟩ := h5 hnd
  simp only [List.nil_append] at hvs
  exact ⟨⟨h1, h2, h3, h4 hnd⟩, hvs ▸ hf⟩

theorem criteriaToReverse_ok {sel : List (Crit α)} {cur : DMP α} {toRev : List (Crit α × (α × α))}
    (h : criteriaToReverse sel cur = .ok toRev) :
    toRev.map (·.1) = sel ∧ ∀ cr ∈ toRev, valuesRange cur.all cr.1 = .ok cr.2 := by
  unfold criteriaToReverse at h
  have hf := mapM_ok_forall₂ h
  clear h
  induction hf with
  | nil => exact ⟨rfl, fun _ h => absurd h List.not_mem_nil⟩
  | cons hxy _ ih =>
    rw [bind_ok] at hxy
    obtain ⟨r, hr, hxy⟩ := hxy
    rw [pure_ok] at hxy
    subst hxy
    refine ⟨by simp [ih.1], ?_⟩
    intro cr hcr
    rcases List.mem_cons.1 hcr with rfl | hcr
    · exact hr
    · exact ih.2 cr hcr

theorem fetchAlt_ok {l : List (Alt α)} {id : String} {a : Alt α} (h : fetchAlt l id = .ok a) :
    a ∈ l ∧ a.id = id := by
  unfold fetchAlt at h
  split at h
  · rename_i b hb
    rw [pure_ok] at h
    subst h
    have := List.find?_some hb
    exact ⟨List.mem_of_find?_eq_some hb, by simpa using this⟩
  · cases h

theorem updateAlts_ok {old new res : List (Alt α)} (h : updateAlts old new = .ok res) :
    List.Forall₂ (fun a b => b ∈ new ∧ b.id = a.id) old res := by
  unfold updateAlts at h
  exact (mapM_ok_forall₂ h).imp fun a b hab => fetchAlt_ok hab

/-- decomposition of `reverseSelected` -/
theorem reverseSelected_ok {sel : List (Crit α)} {cur res : DMP α} {rep : List (Reversed α)}
    (h : reverseSelected sel cur = .ok (res, rep)) :
    ∃ toRev resl, criteriaToReverse sel cur = .ok toRev ∧
      cur.all.mapM (reverseAlt toRev) = .ok resl ∧
      updateAlts cur.nc (resl.map (·.1)) = .ok res.nc ∧ updateAlts cur.co (resl.map (·.1)) = .ok res.co ∧
      res.crit = cur.crit ∧ res.mp = cur.mp ∧ rep = reversalReport toRev cur.all (resl.map (·.2)) := by
  unfold reverseSelected at h
  rw [bind_ok] at h; obtain ⟨toRev, ht, h⟩ := h
  rw [bind_ok] at h; obtain ⟨resl, hr, h⟩ := h
  rw [bind_ok] at h; obtain ⟨nc, hnc, h⟩ := h
  rw [bind_ok] at h; obtain ⟨co, hco, h⟩ := h
  rw [pure_ok] at h
  cases h
  exact ⟨toRev, resl, ht, hr, hnc, hco, rfl, rfl, rfl⟩

theorem updated_mirrored {toRev : List (Crit α × (α × α))} (hnd : (toRev.map (·.1.id)).Nodup)
    {all old res : List (Alt α)} {resl : List (Alt α × List α)}
    (hall : (all.map (·.id)).Nodup) (hsub : ∀ a ∈ old, a ∈ all)
    (hr : all.mapM (reverseAlt toRev) = .ok resl) (hu : updateAlts old (resl.map (·.1)) = .ok res) :
    List.Forall₂ (Mirrored toRev) old res := by
  have hf := mapM_ok_forall₂ hr
  refine (List.forall₂_iff_zip.2 ?_)
  have hu' := updateAlts_ok hu
  refine ⟨hu'.length_eq, ?_⟩
  intro a b hab
  have hR := (List.forall₂_iff_zip.1 hu').2 hab
  obtain ⟨hb, hid⟩ := hR
  obtain ⟨r, hrm, rfl⟩ := List.mem_map.1 hb
  obtain ⟨a0, ha0, hra⟩ := forall₂_mem_right hf r hrm
  have hm := (reverseAlt_mirrored hnd hra).1
  have ha : a ∈ old := (List.of_mem_zip hab).1
  have : a0 = a := List.inj_on_of_nodup_map hall ha0 (hsub a ha) (by rw [← hm.1, hid])
  subst this
  exact hm


theorem reversalApply_ok {eps : α} {c : SplitCond α} {name : String} {cur res : DMP α} {d : Draws α}
    {rep : List (Reversed α)} (h : reversalApply eps c name cur d = .ok (res, rep)) :
    c.validate = .ok () ∧ ∃ ordered sel rest, orderCriteria eps name cur d = .ok ordered ∧
      c.split ordered = .ok (sel, rest) ∧ reverseSelected sel cur = .ok (res, rep) := by
  unfold reversalApply at h
  rw [bind_ok] at h; obtain ⟨u, hv, h⟩ := h
  rw [bind_ok] at h; obtain ⟨ordered, ho, h⟩ := h
  rw [bind_ok] at h; obtain ⟨⟨sel, rest⟩, hs, h⟩ := h
  exact ⟨hv, ordered, sel, rest, ho, hs, h⟩

theorem forall₂_ids {P : Alt α → Alt α → Prop} (hP : ∀ a b, P a b → b.id = a.id) {l r : List (Alt α)}
    (h : List.Forall₂ P l r) : r.map (·.id) = l.map (·.id) := by
  induction h with
  | nil => rfl
  | cons hxy _ ih => simp [hP _ _ hxy, ih]

theorem updateAlts_ids {old new res : List (Alt α)} (h : updateAlts old new = .ok res) :
    res.map (·.id) = old.map (·.id) :=
  forall₂_ids (fun _ _ h => h.2) (updateAlts_ok h)

/-- the report: one entry per selected criterion, in order, with id, type and range -/
theorem reversalReport_heads (toRev : List (Crit α × (α × α))) (all : List (Alt α)) (outs : List (List α)) :
    (reversalReport toRev all outs).map (fun r => (r.id, r.type, r.range)) =
      toRev.map (fun cr => (cr.1.id, cr.1.type, cr.2)) := by
  unfold reversalReport
  simp only [List.map_map]
  have : ∀ (n : Nat) (l : List (Crit α × (α × α))),
      List.map ((fun r : Reversed α => (r.id, r.type, r.range)) ∘ fun x : Nat × (Crit α × (α × α)) =>
        match x with
        | (i, cr) => ({ id := cr.1.id, type := cr.1.type, range := cr.2,
                        vals := (all.zip outs).map fun (a, o) => (a.id, o.getD i Num.zero) } : Reversed α))
        ((List.range' n l.length).zip l) = l.map fun cr => (cr.1.id, cr.1.type, cr.2) := by
    intro n l
    induction l generalizing n with
    | nil => simp
    | cons x xs ih =>
      simp only [List.length_cons, List.range'_succ, List.zip_cons_cons, List.map_cons, Function.comp]
      rw [← ih (n + 1)]
  rw [List.range_eq_range']
  exact this 0 toRev

/-- alternatives mirrored twice with the same ranges hold their original values -/
theorem mirrored_twice {toRev : List (Crit Rat × (Rat × Rat))} {a a' a'' : Alt Rat}
    (h1 : Mirrored toRev a a') (h2 : Mirrored toRev a' a'') :
    a''.id = a.id ∧ a''.vals.keys = a.vals.keys ∧ ∀ k, a''.vals.get? k = a.vals.get? k := by
  refine ⟨h2.1.trans h1.1, h2.2.1.trans h1.2.1, ?_⟩
  intro k
  by_cases hk : k ∈ toRev.map (·.1.id)
  · obtain ⟨cr, hcr, rfl⟩ := List.mem_map.1 hk
    obtain ⟨v, hv, hv'⟩ := h1.2.2.2 cr hcr
    obtain ⟨w, hw, hw'⟩ := h2.2.2.2 cr hcr
    rw [hv'] at hw
    cases hw
    rw [hw', hv]
    unfold reverseValue
    congr 1
    ring
  · rw [h2.2.2.1 k hk, h1.2.2.1 k hk]


end Rdm.BiasA
