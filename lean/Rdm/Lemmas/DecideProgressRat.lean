/-
  Lemmas for the end-to-end model, part 8 (progress of `Evaluate`, the parts that need arithmetic — over `Rat`):
    * ELECTRE III: credibility matrix total on coherent states; with thresholds in the C05 domain the entries are
      in [0,1], so both distillations terminate within the model's fuel (Lemmas/ElectreTermination);
    * the satisfaction levels of the two threshold heuristics: registered source + valid parameters give a list
      of levels, each naming every current criterion (fuel sufficiency: Lemmas/HeurLevels).
-/
import Rdm.Lemmas.DecideProgressEval
import Rdm.Lemmas.ElectreCred
import Rdm.Lemmas.ElectreTermination
import Rdm.Lemmas.HeurLevels
namespace Rdm
set_option linter.unusedSimpArgs false
set_option linter.unusedSectionVars false

/-! ### ELECTRE III -/

section
variable {α : Type} [Num α]

theorem prog_evaluatePair_total {a1 a2 : Alt α} {c : Crit α} {ec : KMap (ECrit α)}
    (h1 : a1.vals.has c.id = true) (h2 : a2.vals.has c.id = true) (he : ec.has c.id = true) :
    ∃ r, evaluatePair a1 a2 c ec = .ok r := by
  obtain ⟨v1, hv1⟩ := prog_signed_total h1
  obtain ⟨v2, hv2⟩ := prog_signed_total h2
  obtain ⟨t, ht⟩ := decideHas_get he
  exact ⟨⟨t.k, calcElectreResult v1 v2 c.mult t⟩, by
    unfold evaluatePair
    simp only [hv1, hv2, ht, bind, Except.bind, pure, Except.pure]⟩

theorem prog_electreCredibility_total {a1 a2 : Alt α} {crits : List (Crit α)} {ec : KMap (ECrit α)}
    (h1 : ∀ c ∈ crits, a1.vals.has c.id = true) (h2 : ∀ c ∈ crits, a2.vals.has c.id = true)
    (he : ∀ c ∈ crits, ec.has c.id = true) : ∃ r, electreCredibility a1 a2 crits ec = .ok r := by
  obtain ⟨rs, hrs⟩ := decideMapM_total (ε := String) (f := fun c => evaluatePair a1 a2 c ec) (l := crits)
    (fun c hc => prog_evaluatePair_total (h1 c hc) (h2 c hc) (he c hc))
  exact ⟨_, by unfold electreCredibility; rw [hrs]; rfl⟩

theorem prog_credibilityMatrix_total {alts : List (Alt α)} {crits : List (Crit α)} {ec : KMap (ECrit α)}
    (hv : ∀ a ∈ alts, ∀ c ∈ crits, a.vals.has c.id = true) (he : ∀ c ∈ crits, ec.has c.id = true) :
    ∃ m, credibilityMatrix alts crits ec = .ok m := by
  obtain ⟨rows, hrows⟩ := decideMapM_total (ε := String)
    (f := fun (p : Alt α × Nat) => alts.zipIdx.mapM fun (q : Alt α × Nat) =>
      evaluateAlternativesPair p.2 q.2 p.1 q.1 crits ec) (l := alts.zipIdx) (by
      intro p hp
      apply decideMapM_total
      intro q hq
      unfold evaluateAlternativesPair
      split
      · exact ⟨_, rfl⟩
      · obtain ⟨r, hr⟩ := prog_electreCredibility_total (a1 := p.1) (a2 := q.1) (crits := crits) (ec := ec)
          (hv p.1 (List.fst_mem_of_mem_zipIdx hp)) (hv q.1 (List.fst_mem_of_mem_zipIdx hq)) he
        exact ⟨r.d, by rw [hr]; rfl⟩)
  exact ⟨⟨alts.length, rows.flatten⟩, by unfold credibilityMatrix; rw [hrows]; rfl⟩

end

theorem prog_credibilityMatrix_wf {alts : List (Alt Rat)} {crits : List (Crit Rat)} {ec : KMap (ECrit Rat)}
    {m : Matrix Rat} (hne : crits ≠ []) (hg : GuardAll crits ec) (h : credibilityMatrix alts crits ec = .ok m) :
    m.size = alts.length ∧ m.data.length = m.size * m.size ∧ ∀ x ∈ m.data, 0 ≤ x ∧ x ≤ 1 := by
  obtain ⟨rows, hr, rfl⟩ := credibilityMatrix_rows alts crits ec m h
  have hlen : rows.length = alts.length := by rw [(mapM_ok hr).1]; simp
  have hrow : ∀ r ∈ rows, ∃ p ∈ alts.zipIdx,
      alts.zipIdx.mapM (fun q => evaluateAlternativesPair p.2 q.2 p.1 q.1 crits ec) = .ok r := mapM_ok_mem hr
  refine ⟨rfl, ?_, ?_⟩
  · dsimp only
    rw [← List.flatMap_id, length_flatMap_uniform id alts.length rows, hlen]
    intro r hrm
    obtain ⟨p, _, hp⟩ := hrow r hrm
    rw [id, (mapM_ok hp).1]; simp
  · intro x hx
    dsimp only at hx
    obtain ⟨r, hrm, hxr⟩ := List.mem_flatten.mp hx
    obtain ⟨p, _, hp⟩ := hrow r hrm
    obtain ⟨q, _, hq⟩ := mapM_ok_mem hp x hxr
    by_cases hpq : p.2 = q.2
    · unfold evaluateAlternativesPair at hq
      simp only [hpq, beq_self_eq_true, if_true, pure, Except.pure, Except.ok.injEq] at hq
      rw [← hq]; simp
    · obtain ⟨e, he, rfl⟩ := evaluateAlternativesPair_ne hpq _ _ _ _ _ hq
      exact (sigma_range _ _ crits hne ec hg e he).2

/-- the guard of `getDistillationFunc` makes the distillation function non-negative on [0,1] -/
theorem prog_validDistillation_nonneg {s : LinFun Rat} (h : validDistillation s = true) :
    ∀ x, 0 ≤ x → x ≤ 1 → 0 ≤ distVal s x := by
  intro x hx0 hx1
  unfold validDistillation at h
  simp only [Bool.not_eq_true', Bool.or_eq_false_iff, decide_eq_false_iff_not, not_lt, Num.zero_rat] at h
  obtain ⟨hb, hab⟩ := h
  unfold distVal LinFun.eval
  split
  · simp
  · simp only
    nlinarith

/-- the thresholds of every current criterion are in the C05 domain (constant, `0 ≤ q < p < v`, `k > 0`) -/
def prog_electreInDomain (crits : List (Crit Rat)) (ec : KMap (ECrit Rat)) : Bool :=
  crits.all fun c =>
    match ec.get? c.id with
    | some t => Spec.C05.critInDomain t
    | none => true

theorem prog_electreInDomain_guard {crits : List (Crit Rat)} {ec : KMap (ECrit Rat)}
    (h : prog_electreInDomain crits ec = true) : GuardAll crits ec := by
  intro c hc t ht
  unfold prog_electreInDomain at h
  rw [List.all_eq_true] at h
  have := h c hc
  rw [ht] at this
  exact critInDomain_guard t this

/-- `ElectreIII` returns a ranking: at least one considered alternative and one criterion, every alternative
    valued on every criterion, thresholds for every criterion, in the C05 domain, distillation function
    accepted by `getDistillationFunc` -/
theorem prog_electreIII_total {alts : List (Alt Rat)} {crits : List (Crit Rat)} {ec : KMap (ECrit Rat)}
    {dist : LinFun Rat} (hv : ∀ a ∈ alts, ∀ c ∈ crits, a.vals.has c.id = true)
    (he : ∀ c ∈ crits, ec.has c.id = true) (halts : alts ≠ []) (hne : crits ≠ [])
    (hdom : prog_electreInDomain crits ec = true) (hdist : validDistillation dist = true) :
    ∃ r, electreIII alts crits ec dist = .ok r := by
  obtain ⟨m, hm⟩ := prog_credibilityMatrix_total hv he
  obtain ⟨hsz, hlen, hrng⟩ := prog_credibilityMatrix_wf hne (prog_electreInDomain_guard hdom) hm
  have hsz0 : m.size ≠ 0 := by
    rw [hsz]; intro h0; exact halts (List.length_eq_zero_iff.mp h0)
  have hs := prog_validDistillation_nonneg hdist
  obtain ⟨asc, ha⟩ := rank_total m dist cmpGreater hs hsz0 hlen hrng
  obtain ⟨r, hr⟩ := rank_total m dist cmpLower hs hsz0 hlen hrng
  have hrl := rank_length m dist _ r hr
  obtain ⟨desc, hd⟩ : ∃ desc, rankDescending m dist = .ok desc := by
    unfold rankDescending
    simp only [hr, bind, Except.bind]
    cases r with
    | nil => simp at hrl; exact absurd hrl.symm hsz0
    | cons v rest => exact ⟨_, rfl⟩
  refine ⟨evaluateRanking asc desc (alts.map (·.id)), ?_⟩
  unfold electreIII
  have ha' : rankAscending m dist = .ok asc := ha
  simp only [hm, ha', hd, bind, Except.bind, pure, Except.pure]

theorem prog_evaluate_electre {o : List (WCrit Rat) → List (WCrit Rat)} {g : Int → Draws Rat} {d : DMP Rat}
    {ec : KMap (ECrit Rat)} {dist : LinFun Rat} (hmp : d.mp = .electre ec dist) (hc : Coherent d)
    (hco : d.co ≠ []) (hne : d.crit ≠ []) (hdom : prog_electreInDomain d.crit ec = true)
    (hdist : validDistillation dist = true) : ∃ r, evaluateWith o g d = .ok r := by
  have hcov := hc.covers
  rw [hmp] at hcov
  simp only [Spec.C07.covers, List.all_eq_true] at hcov
  obtain ⟨r, h⟩ := prog_electreIII_total (alts := d.co) (crits := d.crit) (ec := ec) (dist := dist)
    (fun a ha => hc.values a (List.mem_append_left _ ha)) hcov hco hne hdom hdist
  refine ⟨r.map (Linked.mapEv fun p => .electre p.1 p.2), ?_⟩
  unfold evaluateWith
  rw [hmp]
  simp only [h, bind, Except.bind, pure, Except.pure]

/-! ### satisfaction levels -/

/-- the levels function is registered with the heuristic and its parameters are accepted by it:
    a coefficient source needs `coefficient` / `minValue` / `maxValue` passing its `Validate`; the thresholds
    source takes any list (its `Initialize` check is what `Spec.C07.covers` states) -/
def prog_levelsReady (sources : List LevelSource) (fn : String) (lv : Levels Rat) : Bool :=
  match findSource sources fn with
  | .ok (.coef k) =>
    (match lv with
     | .coef c mx mn => coefValid k c mx mn
     | .thresholds _ => false)
  | .ok (.thresholds _) => true
  | .error _ => false

theorem prog_levelAt_has (ranges : List (Crit Rat × (Rat × Rat))) (r : Rat) (c : Crit Rat)
    (h : c ∈ ranges.map (·.1)) : (levelAt ranges r).has c.id = true := by
  rw [KMap.has_iff_mem_keys]
  unfold levelAt KMap.keys
  rw [List.map_map]
  obtain ⟨p, hp, rfl⟩ := List.mem_map.mp h
  exact List.mem_map.mpr ⟨p, hp, rfl⟩

theorem prog_coefLevels_total {k : CoefKind} {d : DMP Rat} {c mx mn : Rat} (hc : Coherent d)
    (hv : coefValid k c mx mn = true) :
    ∃ L, coefLevels k d c mx mn = .ok L ∧ prog_LevelsOk d.crit L := by
  obtain ⟨ranges, hr⟩ : ∃ ranges, criteriaRanges d = .ok ranges := by
    unfold criteriaRanges
    apply decideMapM_total
    intro cr hcm
    obtain ⟨r, hr⟩ := decideValuesRange_total (alts := d.all) (c := cr)
      (fun a ha => hc.values a (by simpa [DMP.all] using ha) cr hcm)
    exact ⟨(cr, r), by simp only [hr, bind, Except.bind, pure, Except.pure]⟩
  have hrm : ranges.map (·.1) = d.crit := by
    unfold criteriaRanges at hr
    apply decideMapM_map (gk := fun p : Crit Rat × (Rat × Rat) => p.1) (k := fun c : Crit Rat => c) _ hr |>.trans
    · simp
    · intro x y hxy
      obtain ⟨r, _, hxy⟩ := bind_eq_ok.mp hxy
      simp only [pure, Except.pure, Except.ok.injEq] at hxy
      rw [← hxy]
  obtain ⟨rs, hrs⟩ := coefSeries_fuel_ok k c mx mn hv
  refine ⟨rs.map (levelAt ranges), ?_, ?_⟩
  · unfold coefLevels coefValidate
    simp only [hv, if_true, hr, hrs, bind, Except.bind, pure, Except.pure]
  · intro t ht cr hcr
    obtain ⟨r, _, rfl⟩ := List.mem_map.mp ht
    exact prog_levelAt_has ranges r cr (by rw [hrm]; exact hcr)

theorem prog_levelsOf_total {sources : List LevelSource} {fn : String} {lv : Levels Rat} {d : DMP Rat}
    (hc : Coherent d) (hr : prog_levelsReady sources fn lv = true)
    (hts : ∀ ts, lv = .thresholds ts → ∀ t ∈ ts, ∀ c ∈ d.crit, t.has c.id = true) :
    ∃ L, levelsOf sources fn lv d = .ok L ∧ prog_LevelsOk d.crit L := by
  unfold prog_levelsReady at hr
  unfold levelsOf
  cases hs : findSource sources fn with
  | error e => rw [hs] at hr; cases hr
  | ok s =>
    rw [hs] at hr
    simp only [bind, Except.bind]
    cases s with
    | coef k =>
      cases lv with
      | thresholds ts => simp at hr
      | coef c mx mn => exact prog_coefLevels_total hc hr
    | thresholds asc =>
      cases lv with
      | thresholds ts =>
        exact ⟨ts, prog_explicitLevels_total (hts ts rfl), fun t ht c hcm => hts ts rfl t ht c hcm⟩
      | coef c mx mn =>
        exact ⟨[], prog_explicitLevels_total (by intro t ht; cases ht), by intro t ht; cases ht⟩

end Rdm
