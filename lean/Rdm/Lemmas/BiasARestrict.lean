/-
  The state criteria omission hands on, as a closed expression (C15): `restrictState cur kept` deletes
  the omitted criteria from the criteria list, from every alternative's values and from the method
  parameters.  `omissionApply … = .ok (res, omitted)` implies `res = restrictState cur res.crit`.
  Everything here is generic in the number type.
-/
import Rdm.Lemmas.BiasAReduced
set_option linter.unusedSectionVars false
set_option linter.unusedSimpArgs false
open Rdm
namespace Rdm.BiasA
variable {α : Type} [Num α]

/-! ### the restriction, written without `Except` -/

/-- the sub-map on the kept criteria (entries listed in the order of the kept criteria; a Go map has no
    order) -/
def restrictMap {β : Type} (m : KMap β) (kept : List (Crit α)) : KMap β :=
  kept.filterMap fun c => (m.get? c.id).map fun v => (c.id, v)

/-- an alternative with the values of the kept criteria only -/
def restrictAlt (kept : List (Crit α)) (a : Alt α) : Alt α :=
  { id := a.id, vals := restrictMap a.vals kept }

/-- the weighted criteria of the kept criteria (weighted sum, OWA) -/
def restrictWCrits (wc : List (WCrit α)) (kept : List (Crit α)) : List (WCrit α) :=
  kept.filterMap fun c => wc.find? fun x => x.crit.id == c.id

/-- the capacities of the non-empty subsets of the kept criteria, under their canonical keys -/
def restrictCapacities (w : KMap α) (kept : List (Crit α)) : KMap α :=
  (powerSet (kept.map (·.id))).filterMap fun s => (w.get? (criterionKey s)).map fun v => (criterionKey s, v)

/-- explicit threshold levels are restricted level by level, coefficient levels are unchanged -/
def restrictLevels (lv : Levels α) (kept : List (Crit α)) : Levels α :=
  match lv with
  | .coef c mx mn => .coef c mx mn
  | .thresholds ts => .thresholds (ts.map fun t => restrictMap t kept)

/-- the method parameters with every per-criterion structure restricted to the kept criteria -/
def restrictParams (mp : MParams α) (kept : List (Crit α)) : MParams α :=
  match mp with
  | .ws wc => .ws (restrictWCrits wc kept)
  | .owa wc => .owa (restrictWCrits wc kept)
  | .choquet w _ => .choquet (restrictCapacities w kept) kept
  | .electre ec dist => .electre (restrictMap ec kept) dist
  | .majority w cur seed rnd dr => .majority (restrictMap w kept) cur seed rnd dr
  | .aspect fn lv seed w rnd => .aspect fn (restrictLevels lv kept) seed (restrictMap w kept) rnd
  | .satisf fn lv seed cur rnd => .satisf fn (restrictLevels lv kept) seed cur rnd

/-- **the request with the omitted criteria deleted**, as a state: criteria = the kept ones, every known
    alternative (considered and not considered, same ids, same order) holds the kept values only, the
    parameters are restricted -/
def restrictState (cur : DMP α) (kept : List (Crit α)) : DMP α :=
  { nc := cur.nc.map (restrictAlt kept), co := cur.co.map (restrictAlt kept), crit := kept,
    mp := restrictParams cur.mp kept }

/-! ### `mapM` that succeeds is a `filterMap` / `map` -/

theorem mapM_ok_filterMap {β γ : Type} {f : β → R γ} {g : β → Option γ}
    (hfg : ∀ x y, f x = .ok y → g x = some y) :
    ∀ {l : List β} {r : List γ}, l.mapM f = .ok r → l.filterMap g = r := by
  intro l
  induction l with
  | nil => intro r h; rw [List.mapM_nil, pure_ok] at h; subst h; rfl
  | cons a l ih =>
    intro r h
    rw [List.mapM_cons, bind_ok] at h
    obtain ⟨b, hb, h⟩ := h
    rw [bind_ok] at h
    obtain ⟨bs, hbs, h⟩ := h
    rw [pure_ok] at h
    subst h
    rw [List.filterMap_cons, hfg a b hb, ih hbs]

theorem mapM_ok_map {β γ : Type} {f : β → R γ} {g : β → γ} (hfg : ∀ x y, f x = .ok y → g x = y) :
    ∀ {l : List β} {r : List γ}, l.mapM f = .ok r → l.map g = r := by
  intro l
  induction l with
  | nil => intro r h; rw [List.mapM_nil, pure_ok] at h; subst h; rfl
  | cons a l ih =>
    intro r h
    rw [List.mapM_cons, bind_ok] at h
    obtain ⟨b, hb, h⟩ := h
    rw [bind_ok] at h
    obtain ⟨bs, hbs, h⟩ := h
    rw [pure_ok] at h
    subst h
    rw [List.map_cons, hfg a b hb, ih hbs]

/-- conversely: a `mapM` whose every step succeeds, succeeds -/
theorem mapM_ok_of_forall {β γ : Type} {f : β → R γ} {g : β → γ} :
    ∀ {l : List β}, (∀ x ∈ l, f x = .ok (g x)) → l.mapM f = .ok (l.map g) := by
  intro l
  induction l with
  | nil => intro _; rfl
  | cons a l ih =>
    intro h
    rw [List.mapM_cons, h a List.mem_cons_self, ok_bind, ih fun x hx => h x (List.mem_cons_of_mem _ hx)]
    rfl

theorem mapM_ok_mem {β γ : Type} {f : β → R γ} :
    ∀ {l : List β} {r : List γ}, l.mapM f = .ok r → ∀ x ∈ l, ∃ y, f x = .ok y := by
  intro l r h x hx
  have hf := mapM_ok_forall₂ h
  clear h
  induction hf with
  | nil => cases hx
  | cons hab _ ih =>
    rcases List.mem_cons.1 hx with rfl | hx
    · exact ⟨_, hab⟩
    · exact ih hx

/-! ### the pieces of `omitCriteria` -/

theorem preserveOnly_eq_restrict {m r : KMap α} {kept : List (Crit α)}
    (h : KMap.preserveOnly m kept = .ok r) : r = restrictMap m kept := by
  unfold KMap.preserveOnly at h
  unfold restrictMap
  refine (mapM_ok_filterMap ?_ h).symm
  intro c kv hc
  rw [bind_ok] at hc; obtain ⟨v, hv, hc⟩ := hc
  rw [pure_ok] at hc; subst hc
  rw [fetch_ok.1 hv]; rfl

theorem withOnly_eq_restrict {a a' : Alt α} {kept : List (Crit α)} (h : a.withOnly kept = .ok a') :
    a' = restrictAlt kept a := by
  unfold Alt.withOnly at h
  rw [bind_ok] at h
  obtain ⟨vals, hv, h⟩ := h
  rw [pure_ok] at h
  subst h
  unfold restrictAlt restrictMap
  congr 1
  refine (mapM_ok_filterMap ?_ hv).symm
  intro c kv hc
  rw [bind_ok] at hc; obtain ⟨v, hv, hc⟩ := hc
  rw [pure_ok] at hc; subst hc
  rw [raw_ok.1 hv]; rfl

theorem preserveCriteria_eq_restrict {alts res : List (Alt α)} {kept : List (Crit α)}
    (h : preserveCriteria alts kept = .ok res) : res = alts.map (restrictAlt kept) := by
  unfold preserveCriteria at h
  exact (mapM_ok_map (fun a a' ha => (withOnly_eq_restrict ha).symm) h).symm

theorem findWCrit_ok {wc : List (WCrit α)} {id : String} {x : WCrit α} (h : findWCrit wc id = .ok x) :
    wc.find? (fun c => c.crit.id == id) = some x := by
  unfold findWCrit at h
  split at h
  · rename_i c hc; rw [pure_ok] at h; subst h; exact hc
  · cases h

theorem findWCrit_of_find {wc : List (WCrit α)} {id : String} {x : WCrit α}
    (h : wc.find? (fun c => c.crit.id == id) = some x) : findWCrit wc id = .ok x := by
  unfold findWCrit; rw [h]; rfl

theorem levelsOnRemoved_eq_restrict {lv lv' : Levels α} {kept : List (Crit α)}
    (h : levelsOnRemoved lv kept = .ok lv') : lv' = restrictLevels lv kept := by
  cases lv with
  | coef c mx mn =>
    unfold levelsOnRemoved at h
    rw [pure_ok] at h
    subst h; rfl
  | thresholds ts =>
    unfold levelsOnRemoved at h
    simp only at h
    rw [bind_ok] at h
    obtain ⟨ts', hts, h⟩ := h
    rw [pure_ok] at h
    subst h
    unfold restrictLevels
    simp only
    congr 1
    exact (mapM_ok_map (fun t t' ht => (preserveOnly_eq_restrict ht).symm) hts).symm

theorem onRemoved_choquet (w : KMap α) (cs left : List (Crit α)) :
    onRemoved (.choquet w cs) left =
      (((powerSet (left.map (·.id))).mapM fun s => do
          pure (criterionKey s, ← KMap.fetch w (criterionKey s))) >>= fun fw => pure (.choquet fw left)) := rfl

theorem onRemoved_electre (ec : KMap (ECrit α)) (dist : LinFun α) (left : List (Crit α)) :
    onRemoved (.electre ec dist) left =
      ((left.mapM fun c =>
          match ec.get? c.id with
          | some e => (pure (c.id, e) : R (String × ECrit α))
          | none => throw s!"electre-criterion-missing:{c.id}") >>= fun r => pure (.electre r dist)) := rfl

theorem onRemoved_aspect (fn : String) (lv : Levels α) (seed : Int) (w : KMap α) (rnd : Bool)
    (left : List (Crit α)) :
    onRemoved (.aspect fn lv seed w rnd) left =
      if !aspectFns.contains fn then throw "unknown-levels-listener"
      else levelsOnRemoved lv left >>= fun lv' =>
        KMap.preserveOnly w left >>= fun w' => pure (.aspect fn lv' seed w' rnd) := by
  unfold onRemoved
  by_cases h : aspectFns.contains fn <;> simp [h] <;> rfl

theorem onRemoved_satisf (fn : String) (lv : Levels α) (seed : Int) (cur : String) (rnd : Bool)
    (left : List (Crit α)) :
    onRemoved (.satisf fn lv seed cur rnd) left =
      if !satisfFns.contains fn then throw "unknown-levels-listener"
      else levelsOnRemoved lv left >>= fun lv' => pure (.satisf fn lv' seed cur rnd) := by
  unfold onRemoved
  by_cases h : satisfFns.contains fn <;> simp [h] <;> rfl

/-- `OnCriteriaRemoved` of every listener, when it succeeds, returns the restricted parameters -/
theorem onRemoved_eq_restrict {mp mp' : MParams α} {kept : List (Crit α)}
    (h : onRemoved mp kept = .ok mp') : mp' = restrictParams mp kept := by
  cases mp with
  | ws wc =>
    rw [onRemoved_ws, bind_ok] at h
    obtain ⟨r, hr, h⟩ := h
    rw [pure_ok] at h; subst h
    unfold restrictParams restrictWCrits
    simp only
    congr 1
    exact (mapM_ok_filterMap (fun c x hx => findWCrit_ok hx) hr).symm
  | owa wc =>
    rw [onRemoved_owa, bind_ok] at h
    obtain ⟨r, hr, h⟩ := h
    rw [pure_ok] at h; subst h
    unfold restrictParams restrictWCrits
    simp only
    congr 1
    exact (mapM_ok_filterMap (fun c x hx => findWCrit_ok hx) hr).symm
  | choquet w cs =>
    rw [onRemoved_choquet, bind_ok] at h
    obtain ⟨fw, hfw, h⟩ := h
    rw [pure_ok] at h; subst h
    unfold restrictParams restrictCapacities
    simp only
    congr 1
    refine (mapM_ok_filterMap ?_ hfw).symm
    intro s kv hs
    rw [bind_ok] at hs; obtain ⟨v, hv, hs⟩ := hs
    rw [pure_ok] at hs; subst hs
    rw [fetch_ok.1 hv]; rfl
  | electre ec dist =>
    rw [onRemoved_electre, bind_ok] at h
    obtain ⟨r, hr, h⟩ := h
    rw [pure_ok] at h; subst h
    unfold restrictParams restrictMap
    simp only
    congr 1
    refine (mapM_ok_filterMap ?_ hr).symm
    intro c kv hc
    split at hc
    · rename_i e he; rw [pure_ok] at hc; subst hc; rw [he]; rfl
    · cases hc
  | majority w cur seed rnd dr =>
    rw [onRemoved_majority, bind_ok] at h
    obtain ⟨r, hr, h⟩ := h
    rw [pure_ok] at h; subst h
    unfold restrictParams
    simp only
    rw [preserveOnly_eq_restrict hr]
  | aspect fn lv seed w rnd =>
    rw [onRemoved_aspect] at h
    split at h
    · cases h
    · rw [bind_ok] at h; obtain ⟨lv', hlv, h⟩ := h
      rw [bind_ok] at h; obtain ⟨w', hw, h⟩ := h
      rw [pure_ok] at h; subst h
      unfold restrictParams
      simp only
      rw [preserveOnly_eq_restrict hw, levelsOnRemoved_eq_restrict hlv]
  | satisf fn lv seed cur rnd =>
    rw [onRemoved_satisf] at h
    split at h
    · cases h
    · rw [bind_ok] at h; obtain ⟨lv', hlv, h⟩ := h
      rw [pure_ok] at h; subst h
      unfold restrictParams
      simp only
      rw [levelsOnRemoved_eq_restrict hlv]

/-- **the state criteria omission hands on is the restriction of the current state to the kept
    criteria** — criteria, every alternative's values and the method parameters -/
theorem omitCriteria_eq_restrictState {c : SplitCond α} {ordered : List (Crit α)} {cur res : DMP α}
    {omitted : List (Crit α)} (h : omitCriteria c ordered cur = .ok (res, omitted)) :
    res = restrictState cur res.crit := by
  obtain ⟨_, hmp, hco, hnc⟩ := omitCriteria_ok h
  have h1 := onRemoved_eq_restrict hmp
  have h2 := preserveCriteria_eq_restrict hco
  have h3 := preserveCriteria_eq_restrict hnc
  cases res with
  | mk nc co crit mp =>
    simp only at h1 h2 h3
    unfold restrictState
    simp only
    rw [← h1, ← h2, ← h3]

theorem omissionApply_eq_restrictState {eps : α} {c : SplitCond α} {name : String} {cur res : DMP α}
    {d : Draws α} {omitted : List (Crit α)} (h : omissionApply eps c name cur d = .ok (res, omitted)) :
    res = restrictState cur res.crit := by
  obtain ⟨_, ordered, _, hc⟩ := omissionApply_ok h
  exact omitCriteria_eq_restrictState hc

/-! ### lookups in the restricted structures -/

/-- a table rebuilt by looking up a list of keys holds, for each of those keys, what the table holds -/
theorem filterMap_key_get? {β γ : Type} (key : γ → String) (m : KMap β) (l : List γ) {k : γ} (hk : k ∈ l) :
    KMap.get? (l.filterMap fun c => (m.get? (key c)).map fun v => (key c, v)) (key k) = m.get? (key k) := by
  induction l with
  | nil => cases hk
  | cons x xs ih =>
    rw [List.filterMap_cons]
    cases hx : m.get? (key x) with
    | none =>
      simp only [Option.map_none]
      rcases List.mem_cons.1 hk with rfl | hk'
      · rw [hx]
        clear ih hk
        -- no entry with this key can follow either: every later entry with that key reads the same `none`
        induction xs with
        | nil => rfl
        | cons y ys ihy =>
          rw [List.filterMap_cons]
          cases hy : m.get? (key y) with
          | none => simpa using ihy
          | some v =>
            simp only [Option.map_some, KMap.get?, List.lookup_cons]
            have hne : (key k == key y) = false := by
              cases hb : (key k == key y)
              · rfl
              · have : key k = key y := by simpa using hb
                rw [this, hy] at hx; cases hx
            rw [hne]
            exact ihy
      · exact ih hk'
    | some v =>
      simp only [Option.map_some, KMap.get?, List.lookup_cons]
      by_cases hid : key k = key x
      · have : (key k == key x) = true := by simp [hid]
        rw [this, hid]; exact hx.symm
      · have : (key k == key x) = false := by simp [hid]
        rw [this]
        rcases List.mem_cons.1 hk with rfl | hk'
        · exact absurd rfl hid
        · exact ih hk'

/-- the restricted map holds, for a kept criterion, what the full map holds -/
theorem restrictMap_get? {β : Type} (m : KMap β) (kept : List (Crit α)) {k : Crit α} (hk : k ∈ kept) :
    (restrictMap m kept).get? k.id = m.get? k.id :=
  filterMap_key_get? (fun c : Crit α => c.id) m kept hk

/-- the restricted capacity table holds, for every subset of the kept criteria, what the full table holds -/
theorem restrictCapacities_get? (w : KMap α) (kept : List (Crit α)) {s : List String}
    (hs : s ∈ powerSet (kept.map (·.id))) :
    (restrictCapacities w kept).get? (criterionKey s) = w.get? (criterionKey s) :=
  filterMap_key_get? criterionKey w _ hs

/-- when every kept criterion has an entry, the restricted map lists exactly the kept ids -/
theorem restrictMap_keys {β : Type} (m : KMap β) (kept : List (Crit α))
    (h : ∀ k ∈ kept, (m.get? k.id).isSome) : (restrictMap m kept).keys = kept.map (·.id) := by
  unfold restrictMap KMap.keys
  induction kept with
  | nil => rfl
  | cons x xs ih =>
    rw [List.filterMap_cons]
    obtain ⟨v, hv⟩ := Option.isSome_iff_exists.1 (h x List.mem_cons_self)
    rw [hv]
    simp only [Option.map_some, List.map_cons]
    rw [ih fun k hk => h k (List.mem_cons_of_mem _ hk)]

theorem restrictMap_length_le {β : Type} (m : KMap β) (kept : List (Crit α)) :
    (restrictMap m kept).length ≤ kept.length := List.length_filterMap_le _ _

end Rdm.BiasA
