/-
  Lemmas for the END-TO-END theorems about single biases inside whole requests, part 2:
    * which bias wrote a report: the constructor of the report determines the bias, the shape of its props and
      the one `…Apply` call of the component models (`e2eb_apply_*`), and the same for a fired position of a
      response (`e2eb_fired_*`);
    * facts about the state a fired bias receives that hold whatever ran before it: the considered /
      not-considered alternatives are those of the request (ids, order), the method and the current choice are
      the request's, the criteria ids are distinct (`e2eb_fired_frame`, `e2eb_fired_crit_nodup`,
      `e2eb_fired_alt_ids_nodup`), and coherence under the hypotheses of `decideLoop_coherent`.
-/
import Rdm.Lemmas.E2EBiases
import Rdm.Lemmas.DecideCoherent
namespace Rdm
set_option linter.unusedSectionVars false
variable {α : Type} [Num α]

/-! ### which bias wrote a report -/

theorem e2eb_apply_omission {exp : α → α} {g : Int → Draws α} {name : String} {p : BProps α}
    {orig cur res : DMP α} {om : List (Crit α)}
    (h : applyBias exp g name p orig cur = .ok (res, .omission om)) :
    name = Facts.biasOmission ∧ ∃ c o seed, p = .split c o seed ∧
      omissionApply choquetEpsOf c o cur (g seed) = .ok (res, om) := by
  generalize hr : Report.omission om = rep at h
  cases decideApplyBias_inv h with
  | omission hb => cases hr; exact ⟨rfl, _, _, _, rfl, hb⟩
  | reversal hb => cases hr
  | fatigue hb => cases hr
  | conceal hb => cases hr
  | mixing hb => cases hr
  | anchoring hb => cases hr

theorem e2eb_apply_reversal {exp : α → α} {g : Int → Draws α} {name : String} {p : BProps α}
    {orig cur res : DMP α} {r : List (Reversed α)}
    (h : applyBias exp g name p orig cur = .ok (res, .reversal r)) :
    name = Facts.biasReversal ∧ ∃ c o seed, p = .split c o seed ∧
      reversalApply choquetEpsOf c o cur (g seed) = .ok (res, r) := by
  generalize hr : Report.reversal r = rep at h
  cases decideApplyBias_inv h with
  | omission hb => cases hr
  | reversal hb => cases hr; exact ⟨rfl, _, _, _, rfl, hb⟩
  | fatigue hb => cases hr
  | conceal hb => cases hr
  | mixing hb => cases hr
  | anchoring hb => cases hr

/-- fatigue: the ratio `f` the configured function yields, then the blur with ONE stream (`g seed`) used as
    magnitude and as sign stream -/
theorem e2eb_apply_fatigue {exp : α → α} {g : Int → Draws α} {name : String} {p : BProps α}
    {orig cur res : DMP α} {r : FatigueReport α}
    (h : applyBias exp g name p orig cur = .ok (res, .fatigue r)) :
    name = Facts.biasFatigue ∧ ∃ fn b seed f, p = .fatigue fn b seed ∧
      fatigueApply exp fn b cur (g seed) = .ok (res, r) ∧ fatigueRatio exp fn = .ok f ∧
      fatigueBlur f b cur (g seed) (g seed) = .ok (res, r) := by
  generalize hr : Report.fatigue r = rep at h
  cases decideApplyBias_inv h with
  | omission hb => cases hr
  | reversal hb => cases hr
  | fatigue hb =>
    cases hr
    have hb' := hb
    unfold fatigueApply at hb'
    obtain ⟨f, hf, hbl⟩ := bind_eq_ok.mp hb'
    exact ⟨rfl, _, _, _, f, rfl, hb, hf, hbl⟩
  | conceal hb => cases hr
  | mixing hb => cases hr
  | anchoring hb => cases hr

/-- concealment: `original` is the state `orig`, `current` the state `cur`; the reference criterion's stream is
    that of `newCriterionRandomSeed`, values and listener draw from that of `randomSeed` -/
theorem e2eb_apply_conceal {exp : α → α} {g : Int → Draws α} {name : String} {p : BProps α}
    {orig cur res : DMP α} {r : ConcealReport α}
    (h : applyBias exp g name p orig cur = .ok (res, .conceal r)) :
    name = Facts.biasConcealment ∧ ∃ q, p = .flat q ∧
      conceal choquetEpsOf orig cur q (g (q.seed "newCriterionRandomSeed")) (g (q.seed "randomSeed")) = .ok (res, r) := by
  generalize hr : Report.conceal r = rep at h
  cases decideApplyBias_inv h with
  | omission hb => cases hr
  | reversal hb => cases hr
  | fatigue hb => cases hr
  | conceal hb => cases hr; exact ⟨rfl, _, rfl, hb⟩
  | mixing hb => cases hr
  | anchoring hb => cases hr

theorem e2eb_apply_mixing {exp : α → α} {g : Int → Draws α} {name : String} {p : BProps α}
    {orig cur res : DMP α} {r : Option (MixReport α)}
    (h : applyBias exp g name p orig cur = .ok (res, .mixing r)) :
    name = Facts.biasMixing ∧ ∃ q, p = .flat q ∧
      mixing choquetEpsOf orig cur q (g (q.seed "newCriterionRandomSeed")) (g (q.seed "randomSeed")) = .ok (res, r) := by
  generalize hr : Report.mixing r = rep at h
  cases decideApplyBias_inv h with
  | omission hb => cases hr
  | reversal hb => cases hr
  | fatigue hb => cases hr
  | conceal hb => cases hr
  | mixing hb => cases hr; exact ⟨rfl, _, rfl, hb⟩
  | anchoring hb => cases hr

/-- anchoring reads `current` only -/
theorem e2eb_apply_anchoring {exp : α → α} {g : Int → Draws α} {name : String} {p : BProps α}
    {orig cur res : DMP α} {r : AnchReport α}
    (h : applyBias exp g name p orig cur = .ok (res, .anchoring r)) :
    name = Facts.biasAnchoring ∧ ∃ q, p = .anch q ∧
      anchoringApply exp choquetEpsOf cur q (g (q.applier.params.seed "newCriterionRandomSeed"))
        ((anchGenSeeds q).map g) = .ok (res, r) := by
  generalize hr : Report.anchoring r = rep at h
  cases decideApplyBias_inv h with
  | omission hb => cases hr
  | reversal hb => cases hr
  | fatigue hb => cases hr
  | conceal hb => cases hr
  | mixing hb => cases hr
  | anchoring hb => cases hr; exact ⟨rfl, _, rfl, hb⟩

/-! ### the same for a fired position -/

section fired
variable {exp : α → α} {g : Int → Draws α} {req : Request α} {resp : Response α} {params : DMP α}
  {chosen : List (Chosen α (BProps α))} {i : Nat} {b : Chosen α (BProps α)} {s s' : DMP α}

theorem e2eb_fired_omission {om : List (Crit α)}
    (hf : E2EBFired exp g req resp params chosen i b (.omission om) s s') :
    b.name = Facts.biasOmission ∧ ∃ c o seed, b.props = .split c o seed ∧
      omissionApply choquetEpsOf c o s (g seed) = .ok (s', om) := e2eb_apply_omission hf.step

theorem e2eb_fired_reversal {r : List (Reversed α)}
    (hf : E2EBFired exp g req resp params chosen i b (.reversal r) s s') :
    b.name = Facts.biasReversal ∧ ∃ c o seed, b.props = .split c o seed ∧
      reversalApply choquetEpsOf c o s (g seed) = .ok (s', r) := e2eb_apply_reversal hf.step

theorem e2eb_fired_fatigue {r : FatigueReport α}
    (hf : E2EBFired exp g req resp params chosen i b (.fatigue r) s s') :
    b.name = Facts.biasFatigue ∧ ∃ fn bd seed f, b.props = .fatigue fn bd seed ∧
      fatigueApply exp fn bd s (g seed) = .ok (s', r) ∧ fatigueRatio exp fn = .ok f ∧
      fatigueBlur f bd s (g seed) (g seed) = .ok (s', r) := e2eb_apply_fatigue hf.step

theorem e2eb_fired_conceal {r : ConcealReport α}
    (hf : E2EBFired exp g req resp params chosen i b (.conceal r) s s') :
    b.name = Facts.biasConcealment ∧ ∃ q, b.props = .flat q ∧
      conceal choquetEpsOf params s q (g (q.seed "newCriterionRandomSeed")) (g (q.seed "randomSeed")) = .ok (s', r) :=
  e2eb_apply_conceal hf.step

theorem e2eb_fired_mixing {r : Option (MixReport α)}
    (hf : E2EBFired exp g req resp params chosen i b (.mixing r) s s') :
    b.name = Facts.biasMixing ∧ ∃ q, b.props = .flat q ∧
      mixing choquetEpsOf params s q (g (q.seed "newCriterionRandomSeed")) (g (q.seed "randomSeed")) = .ok (s', r) :=
  e2eb_apply_mixing hf.step

theorem e2eb_fired_anchoring {r : AnchReport α}
    (hf : E2EBFired exp g req resp params chosen i b (.anchoring r) s s') :
    b.name = Facts.biasAnchoring ∧ ∃ q, b.props = .anch q ∧
      anchoringApply exp choquetEpsOf s q (g (q.applier.params.seed "newCriterionRandomSeed"))
        ((anchGenSeeds q).map g) = .ok (s', r) := e2eb_apply_anchoring hf.step

end fired

/-! ### what holds of the state a fired bias receives, whatever ran before -/

/-- no bias makes two criteria share an id -/
theorem e2eb_applyBias_crit_nodup {exp : α → α} {g : Int → Draws α} {name : String} {p : BProps α}
    {orig cur res : DMP α} {rep : Report α} (h : applyBias exp g name p orig cur = .ok (res, rep))
    (hnd : (cur.crit.map (·.id)).Nodup) : (res.crit.map (·.id)).Nodup := by
  cases decideApplyBias_inv h with
  | omission hb => exact (decideOmission_coherent hnd hb).nodup
  | reversal hb =>
    obtain ⟨_, _, _, _, _, _, hr⟩ := BiasA.reversalApply_ok hb
    obtain ⟨_, _, _, _, _, _, hcr, _⟩ := BiasA.reverseSelected_ok hr
    rw [hcr]; exact hnd
  | fatigue hb =>
    unfold fatigueApply at hb
    obtain ⟨f, _, hb⟩ := bind_eq_ok.mp hb
    obtain ⟨_, hcr, _⟩ := BiasA.fatigueBlur_ok hb
    rw [hcr]; exact hnd
  | conceal hb =>
    obtain ⟨_, _, hcr, hfresh, _⟩ := conceal_ok hb
    rw [hcr]; exact decideNodup_append_fresh hnd hfresh
  | mixing hb =>
    rcases decideMixing_cases hb with ⟨_, rfl, _⟩ | ⟨_, _, _, _, _, hc⟩
    · exact hnd
    · obtain ⟨r, _, _, _, ⟨target, hcr⟩, hfresh, _⟩ := mixingCore_ok hc
      rw [hcr]; exact decideNodup_append_fresh hnd hfresh
  | anchoring hb =>
    obtain ⟨bd, _, hi | hn⟩ := decideAnchoring_cases hb
    · obtain ⟨hcr, _⟩ := decideInlineApply_ok hi.2
      rw [hcr]; exact hnd
    · obtain ⟨ref, added, _, _, hcr, hand, hfr, _⟩ := newCriterionApply_ok hn.2
      rw [hcr, List.map_append, List.nodup_append]
      refine ⟨hnd, ?_, ?_⟩
      · simpa [List.map_map, Function.comp_def, AddedAnch.crit] using hand
      · intro x hx y hy e
        simp only [List.map_map, List.mem_map, Function.comp_apply] at hy
        obtain ⟨a, ha, rfl⟩ := hy
        subst e
        exact hfr a ha hx

section fired
variable {exp : α → α} {g : Int → Draws α} {req : Request α} {resp : Response α} {params : DMP α}
  {chosen : List (Chosen α (BProps α))} {i : Nat} {b : Chosen α (BProps α)} {rep : Report α} {s s' : DMP α}

/-- the criteria ids of the state a fired bias receives (and of the one it hands on) are distinct — because the
    request's are (`Criteria.Validate`) and no bias breaks that -/
theorem e2eb_fired_crit_nodup (hf : E2EBFired exp g req resp params chosen i b rep s s') :
    (params.crit.map (·.id)).Nodup ∧ (s.crit.map (·.id)).Nodup ∧ (s'.crit.map (·.id)).Nodup := by
  have h0 : (params.crit.map (·.id)).Nodup := by
    obtain ⟨hv, mp, _, hpp, _⟩ := decidePrepare_ok hf.prepared
    obtain ⟨_, _, _, hcr, _⟩ := e2e_prepareParams_ok hpp
    rw [hcr]
    unfold validateRequest at hv
    dsimp only at hv
    split at hv
    · simp [throw, throwThe, MonadExceptOf.throw, bind, Except.bind] at hv
    · obtain ⟨_, hvc, _⟩ := bind_eq_ok.mp hv
      exact (decideValidateCriteria_nodup _ _ hvc).1
  obtain ⟨h1, h2⟩ := e2eb_fired_invariant hf (fun d => (d.crit.map (·.id)).Nodup) h0
    (fun _ _ _ _ _ hc ha => e2eb_applyBias_crit_nodup ha hc)
  exact ⟨h0, h1, h2⟩

/-- the frame every earlier bias respects: the state a fired bias receives (and the one it hands on) still has
    the request's considered alternatives (`choseToMake`, same order) and not-considered alternatives (the
    known ones not named, known order), and parameters of the request's method with its current choice -/
theorem e2eb_fired_frame (hf : E2EBFired exp g req resp params chosen i b rep s s') :
    ∃ mp, req.mp = some mp ∧
      s.co.map (·.id) = req.chosen ∧ s'.co.map (·.id) = req.chosen ∧
      s.nc.map (·.id) = (req.known.filter fun a => !req.chosen.contains a.id).map (·.id) ∧
      s'.nc.map (·.id) = (req.known.filter fun a => !req.chosen.contains a.id).map (·.id) ∧
      e2eTag s.mp = e2eTag mp ∧ e2eTag s'.mp = e2eTag mp := by
  obtain ⟨_, mp, hmp, hpp, _⟩ := decidePrepare_ok hf.prepared
  obtain ⟨hco, _, hnc, _, hpmp⟩ := e2e_prepareParams_ok hpp
  obtain ⟨e1, e2⟩ := decideLoop_ids _ _ _ _ _ hf.before
  obtain ⟨e3, e4⟩ := decideApplyBias_ids hf.step
  have t1 := e2e_loop_tag _ _ _ _ _ hf.before
  have t2 := e2e_applyBias_tag hf.step
  refine ⟨mp, hmp, e1.trans hco, (e3.trans e1).trans hco, ?_, ?_, ?_, ?_⟩
  · rw [e2, hnc]
  · rw [e4, e2, hnc]
  · rw [t1, hpmp]
  · rw [t2, t1, hpmp]

/-- with pairwise different known ids and a duplicate-free `choseToMake`, the known alternatives of the state a
    fired bias receives (considered followed by not considered) have pairwise different ids -/
theorem e2eb_fired_alt_ids_nodup (hf : E2EBFired exp g req resp params chosen i b rep s s')
    (hk : (req.known.map (·.id)).Nodup) (hc : req.chosen.Nodup) :
    (s.all.map (·.id)).Nodup ∧ (s'.all.map (·.id)).Nodup := by
  obtain ⟨mp, _, h1, h2, h3, h4, _⟩ := e2eb_fired_frame hf
  obtain ⟨_, mp', _, hpp, _⟩ := decidePrepare_ok hf.prepared
  obtain ⟨hpco, hmem, _⟩ := e2e_prepareParams_ok hpp
  have hsub : ∀ x ∈ req.chosen, x ∈ req.known.map (·.id) := by
    intro x hx
    rw [← hpco] at hx
    obtain ⟨a, ha, rfl⟩ := List.mem_map.mp hx
    exact List.mem_map.mpr ⟨a, hmem a ha, rfl⟩
  have hp := e2e_split_perm req.known req.chosen hk hc hsub
  constructor
  · unfold DMP.all
    rw [List.map_append, h1, h3]
    exact hp.nodup_iff.mpr hk
  · unfold DMP.all
    rw [List.map_append, h2, h4]
    exact hp.nodup_iff.mpr hk

/-- coherence (`Spec.C07.coherent`: distinct criteria ids, a value of every criterion for every known
    alternative, parameters covering every criterion) of the state a fired bias receives, when the parsed
    parameters cover the request's criteria and every bias chosen BEFORE position `i` is a `SafeEntry`
    (omission, reversal, fatigue, inline anchoring; concealment and newCriterion anchoring for the methods whose
    listener admits additions) — the hypotheses of `decideLoop_coherent` on the prefix only -/
theorem e2eb_fired_coherent (hf : E2EBFired exp g req resp params chosen i b rep s s')
    (hcov : Spec.C07.covers params.crit params.mp = true)
    (hall : ∀ c ∈ chosen.take i, SafeEntry (admitsAdditions params.mp) c) : Coherent s :=
  decideLoop_coherent _ _ _ _ _ hall (decidePrepare_coherent hf.prepared hcov) hf.before

end fired

end Rdm
