/-
  Range preservation of the preference reversal (C16): min/max of a mirrored criterion.
-/
import Rdm.Lemmas.BiasAReversal
import Rdm.Lemmas.BiasAReduced
set_option linter.unusedSectionVars false
set_option linter.unusedSimpArgs false
open Rdm
namespace Rdm.BiasA

/-- the min/max accumulation of `CriteriaValuesRange` -/
def mmStep (acc : Rat × Rat) (x : Rat) : Rat × Rat :=
  (if x < acc.1 then x else acc.1, if acc.2 < x then x else acc.2)

theorem mm_spec : ∀ (rest : List Rat) (a b : Rat),
    let r := rest.foldl mmStep (a, b)
    (r.1 ≤ a ∧ ∀ x ∈ rest, r.1 ≤ x) ∧ (b ≤ r.2 ∧ ∀ x ∈ rest, x ≤ r.2) ∧
    (r.1 = a ∨ r.1 ∈ rest) ∧ (r.2 = b ∨ r.2 ∈ rest) := by
  intro rest
  induction rest with
  | nil => intro a b; simp
  | cons x xs ih =>
    intro a b
    simp only [List.foldl_cons]
    have := ih (mmStep (a, b) x).1 (mmStep (a, b) x).2
    simp only [Prod.mk.eta] at this
    obtain ⟨⟨h1, h2⟩, ⟨h3, h4⟩, h5, h6⟩ := this
    have e1 : (mmStep (a, b) x).1 ≤ a ∧ (mmStep (a, b) x).1 ≤ x := by
      unfold mmStep; simp only; split_ifs <;> constructor <;> linarith
    have e2 : b ≤ (mmStep (a, b) x).2 ∧ x ≤ (mmStep (a, b) x).2 := by
      unfold mmStep; simp only; split_ifs <;> constructor <;> linarith
    have e3 : (mmStep (a, b) x).1 = a ∨ (mmStep (a, b) x).1 = x := by
      unfold mmStep; simp only; split_ifs <;> simp
    have e4 : (mmStep (a, b) x).2 = b ∨ (mmStep (a, b) x).2 = x := by
      unfold mmStep; simp only; split_ifs <;> simp
    refine ⟨⟨h1.trans e1.1, ?_⟩, ⟨e2.1.trans h3, ?_⟩, ?_, ?_⟩
    · intro y hy
      rcases List.mem_cons.1 hy with rfl | hy
      · exact h1.trans e1.2
      · exact h2 y hy
    · intro y hy
      rcases List.mem_cons.1 hy with rfl | hy
      · exact e2.2.trans h3
      · exact h4 y hy
    · rcases h5 with h5 | h5
      · rcases e3 with e | e
        · left; rw [h5, e]
        · right; rw [h5, e]; exact List.mem_cons_self
      · right; exact List.mem_cons_of_mem _ h5
    · rcases h6 with h6 | h6
      · rcases e4 with e | e
        · left; rw [h6, e]
        · right; rw [h6, e]; exact List.mem_cons_self
      · right; exact List.mem_cons_of_mem _ h6

/-- min/max of a non-empty list: attained and bounding -/
theorem mm_of_list (v : Rat) (rest : List Rat) :
    let r := rest.foldl mmStep (v, v)
    r.1 ∈ v :: rest ∧ r.2 ∈ v :: rest ∧ ∀ x ∈ v :: rest, r.1 ≤ x ∧ x ≤ r.2 := by
  obtain ⟨⟨h1, h2⟩, ⟨h3, h4⟩, h5, h6⟩ := mm_spec rest v v
  refine ⟨?_, ?_, ?_⟩
  · rcases h5 with h | h
    · rw [h]; exact List.mem_cons_self
    · exact List.mem_cons_of_mem _ h
  · rcases h6 with h | h
    · rw [h]; exact List.mem_cons_self
    · exact List.mem_cons_of_mem _ h
  · intro x hx
    rcases List.mem_cons.1 hx with rfl | hx
    · exact ⟨h1, h3⟩
    · exact ⟨h2 x hx, h4 x hx⟩

/-- the pair is determined by these properties -/
theorem mm_unique {l : List Rat} {lo hi lo' hi' : Rat}
    (h : lo ∈ l ∧ hi ∈ l ∧ ∀ x ∈ l, lo ≤ x ∧ x ≤ hi)
    (h' : lo' ∈ l ∧ hi' ∈ l ∧ ∀ x ∈ l, lo' ≤ x ∧ x ≤ hi') : lo = lo' ∧ hi = hi' :=
  ⟨le_antisymm (h.2.2 lo' h'.1).1 (h'.2.2 lo h.1).1, le_antisymm (h'.2.2 hi h.2.1).2 (h.2.2 hi' h'.2.1).2⟩

/-- mirroring every value of a non-empty list inside its own min/max leaves min and max unchanged -/
theorem mm_mirror (v : Rat) (rest : List Rat) :
    let r := rest.foldl mmStep (v, v)
    let l' := (v :: rest).map (reverseValue r)
    ∀ v' rest', l' = v' :: rest' → rest'.foldl mmStep (v', v') = r := by
  intro r l' v' rest' hl
  obtain ⟨m1, m2, m3⟩ := mm_of_list v rest
  have hspec := mm_of_list v' rest'
  rw [← hl] at hspec
  have hr : r.1 ∈ l' ∧ r.2 ∈ l' ∧ ∀ x ∈ l', r.1 ≤ x ∧ x ≤ r.2 := by
    refine ⟨?_, ?_, ?_⟩
    · refine List.mem_map.2 ⟨r.2, m2, ?_⟩
      unfold reverseValue; ring
    · refine List.mem_map.2 ⟨r.1, m1, ?_⟩
      unfold reverseValue; ring
    · intro x hx
      obtain ⟨y, hy, rfl⟩ := List.mem_map.1 hx
      have := m3 y hy
      unfold reverseValue
      constructor <;> linarith
  have := mm_unique hspec hr
  exact Prod.ext this.1 this.2


theorem valuesRange_none {alts : List (Alt Rat)} {c : Crit Rat} (hc : c.range = none) :
    valuesRange alts c = (alts.mapM (·.raw c) >>= fun vs =>
      pure (match vs with
        | [] => ((0 : Rat), (0 : Rat))
        | v :: rest => rest.foldl mmStep (v, v))) := by
  unfold valuesRange
  rw [hc]
  simp only
  cases alts.mapM (·.raw c) with
  | error e => rfl
  | ok vs => cases vs <;> rfl

theorem valuesRange_some {alts : List (Alt Rat)} {c : Crit Rat} {r : Rat × Rat} (hc : c.range = some r) :
    valuesRange alts c = .ok r := by
  unfold valuesRange
  rw [hc]
  rfl

theorem raw_mirrored_selected {toRev : List (Crit Rat × (Rat × Rat))} {cr : Crit Rat × (Rat × Rat)}
    (hcr : cr ∈ toRev) : ∀ {all all' : List (Alt Rat)}, List.Forall₂ (Mirrored toRev) all all' →
    ∀ {vs : List Rat}, all.mapM (·.raw cr.1) = .ok vs →
      all'.mapM (·.raw cr.1) = .ok (vs.map (reverseValue cr.2)) := by
  intro all all' h
  induction h with
  | nil => intro vs hvs; rw [List.mapM_nil, pure_ok] at hvs; subst hvs; rfl
  | @cons a a' l l' hm _ ih =>
    intro vs hvs
    rw [List.mapM_cons, bind_ok] at hvs
    obtain ⟨v, hv, hvs⟩ := hvs
    rw [bind_ok] at hvs
    obtain ⟨tl, htl, hvs⟩ := hvs
    rw [pure_ok] at hvs
    subst hvs
    obtain ⟨v0, hv0, hv0'⟩ := hm.2.2.2 cr hcr
    rw [raw_ok, hv0] at hv
    cases hv
    rw [List.mapM_cons, raw_ok.2 hv0', ok_bind, ih htl, ok_bind]
    rfl

theorem raw_mirrored_unselected {toRev : List (Crit Rat × (Rat × Rat))} {c : Crit Rat}
    (hc : c.id ∉ toRev.map (·.1.id)) : ∀ {all all' : List (Alt Rat)}, List.Forall₂ (Mirrored toRev) all all' →
    all'.mapM (·.raw c) = all.mapM (·.raw c) := by
  intro all all' h
  induction h with
  | nil => rfl
  | @cons a a' l l' hm _ ih =>
    rw [List.mapM_cons, List.mapM_cons, ih]
    have : a'.raw c = a.raw c := by
      unfold Alt.raw
      rw [hm.2.2.1 c.id hc, hm.1]
    rw [this]

/-- the range of every selected criterion is preserved by the mirroring: declared ranges trivially,
    observed ranges because minimum and maximum are exchanged -/
theorem valuesRange_mirrored {toRev : List (Crit Rat × (Rat × Rat))} {cr : Crit Rat × (Rat × Rat)}
    (hcr : cr ∈ toRev) {all all' : List (Alt Rat)} (h : List.Forall₂ (Mirrored toRev) all all')
    (hr : valuesRange all cr.1 = .ok cr.2) : valuesRange all' cr.1 = .ok cr.2 := by
  cases hc : cr.1.range with
  | some r => rw [valuesRange_some hc] at hr ⊢; exact hr
  | none =>
    rw [valuesRange_none hc, bind_ok] at hr
    obtain ⟨vs, hvs, hr⟩ := hr
    rw [pure_ok] at hr
    rw [valuesRange_none hc, raw_mirrored_selected hcr h hvs, ok_bind, pure_ok]
    cases vs with
    | nil => exact hr
    | cons v rest =>
      simp only at hr
      have := mm_mirror v rest
      simp only [hr] at this
      exact this _ _ rfl

/-- the range of every other criterion is untouched -/
theorem valuesRange_unselected {toRev : List (Crit Rat × (Rat × Rat))} {c : Crit Rat}
    (hc : c.id ∉ toRev.map (·.1.id)) {all all' : List (Alt Rat)} (h : List.Forall₂ (Mirrored toRev) all all') :
    valuesRange all' c = valuesRange all c := by
  unfold valuesRange
  rw [raw_mirrored_unselected hc h]

theorem forall₂_append {β γ : Type} {R : β → γ → Prop} {l1 l2 : List β} {r1 r2 : List γ}
    (h1 : List.Forall₂ R l1 r1) (h2 : List.Forall₂ R l2 r2) : List.Forall₂ R (l1 ++ l2) (r1 ++ r2) := by
  induction h1 with
  | nil => exact h2
  | cons hxy _ ih => exact .cons hxy ih

/-- the state after mirroring `sel`: all alternatives (considered ++ not considered) are mirrored -/
theorem reverseSelected_mirrored {sel : List (Crit Rat)} {cur res : DMP Rat} {rep : List (Reversed Rat)}
    (h : reverseSelected sel cur = .ok (res, rep)) (hs : (sel.map (·.id)).Nodup)
    (ha : (cur.all.map (·.id)).Nodup) :
    ∃ toRev, criteriaToReverse sel cur = .ok toRev ∧ (toRev.map (·.1.id)).Nodup ∧
      List.Forall₂ (Mirrored toRev) cur.co res.co ∧ List.Forall₂ (Mirrored toRev) cur.nc res.nc ∧
      List.Forall₂ (Mirrored toRev) cur.all res.all ∧ res.crit = cur.crit ∧ res.mp = cur.mp := by
  obtain ⟨toRev, resl, ht, hm, hnc, hco, hc, hmp, _⟩ := reverseSelected_ok h
  have hnd : (toRev.map (·.1.id)).Nodup := by
    have := (criteriaToReverse_ok ht).1
    rw [← this, List.map_map] at hs
    exact hs
  have h1 := updated_mirrored hnd ha (fun a h => List.mem_append_left _ h) hm hco
  have h2 := updated_mirrored hnd ha (fun a h => List.mem_append_right _ h) hm hnc
  exact ⟨toRev, ht, hnd, h1, h2, forall₂_append h1 h2, hc, hmp⟩

/-- every criterion's range is preserved by the reversal -/
theorem reverseSelected_ranges {sel : List (Crit Rat)} {cur res : DMP Rat} {rep : List (Reversed Rat)}
    (h : reverseSelected sel cur = .ok (res, rep)) (hs : (sel.map (·.id)).Nodup)
    (ha : (cur.all.map (·.id)).Nodup) :
    (∀ c ∈ sel, valuesRange res.all c = valuesRange cur.all c) ∧
    (∀ c : Crit Rat, c.id ∉ sel.map (·.id) → valuesRange res.all c = valuesRange cur.all c) := by
  obtain ⟨toRev, ht, _, _, _, hall, _, _⟩ := reverseSelected_mirrored h hs ha
  obtain ⟨h1, h2⟩ := criteriaToReverse_ok ht
  have hids : toRev.map (·.1.id) = sel.map (·.id) := by rw [← h1, List.map_map]; rfl
  refine ⟨?_, ?_⟩
  · intro c hc
    rw [← h1] at hc
    obtain ⟨cr, hcr, rfl⟩ := List.mem_map.1 hc
    rw [h2 cr hcr]
    exact valuesRange_mirrored hcr hall (h2 cr hcr)
  · intro c hc
    rw [← hids] at hc
    exact valuesRange_unselected hc hall

/-- reversing the same criteria a second time restores the data -/
theorem reverseSelected_twice {sel : List (Crit Rat)} {cur s1 s2 : DMP Rat} {r1 r2 : List (Reversed Rat)}
    (h1 : reverseSelected sel cur = .ok (s1, r1)) (h2 : reverseSelected sel s1 = .ok (s2, r2))
    (hs : (sel.map (·.id)).Nodup) (ha : (cur.all.map (·.id)).Nodup) :
    let same := fun (a a'' : Alt Rat) => a''.id = a.id ∧ a''.vals.keys = a.vals.keys ∧ ∀ k, a''.vals.get? k = a.vals.get? k
    List.Forall₂ same cur.co s2.co ∧ List.Forall₂ same cur.nc s2.nc ∧ s2.crit = cur.crit ∧ s2.mp = cur.mp ∧
      r2.map (fun r => (r.id, r.type, r.range)) = r1.map (fun r => (r.id, r.type, r.range)) := by
  intro same
  obtain ⟨t1, ht1, _, hco1, hnc1, hall1, hc1, hm1⟩ := reverseSelected_mirrored h1 hs ha
  have ha1 : (s1.all.map (·.id)).Nodup := by
    have : s1.all.map (·.id) = cur.all.map (·.id) :=
      forall₂_map_map (R := Mirrored t1) (fun a b h => h.1) hall1
    rw [this]; exact ha
  obtain ⟨t2, ht2, _, hco2, hnc2, _, hc2, hm2⟩ := reverseSelected_mirrored h2 hs ha1
  have hranges := (reverseSelected_ranges h1 hs ha).1
  have heq : criteriaToReverse sel s1 = criteriaToReverse sel cur := by
    unfold criteriaToReverse
    apply mapM_congr_mem
    intro c hc
    rw [hranges c hc]
  have : t2 = t1 := by
    rw [heq, ht1] at ht2; cases ht2; rfl
  subst this
  have inv : ∀ {l l' l'' : List (Alt Rat)}, List.Forall₂ (Mirrored t2) l l' → List.Forall₂ (Mirrored t2) l' l'' →
      List.Forall₂ same l l'' := by
    intro l l' l'' hab
    induction hab generalizing l'' with
    | nil => intro h; cases h; exact .nil
    | cons hxy _ ih =>
      intro h
      cases h with
      | cons hyz hrest => exact .cons (mirrored_twice hxy hyz) (ih hrest)
  refine ⟨inv hco1 hco2, inv hnc1 hnc2, hc2.trans hc1, hm2.trans hm1, ?_⟩
  obtain ⟨t1', resl1, ht1', _, _, _, _, _, hrep1⟩ := reverseSelected_ok h1
  obtain ⟨t2', resl2, ht2', _, _, _, _, _, hrep2⟩ := reverseSelected_ok h2
  rw [ht1] at ht1'; cases ht1'
  rw [heq, ht1] at ht2'; cases ht2'
  rw [hrep1, hrep2, reversalReport_heads, reversalReport_heads]



variable {α : Type} [Num α]

theorem forall₂_zip_range' {β : Type} : ∀ (l pre : List β),
    List.Forall₂ (fun x (p : Nat × β) => p.2 = x ∧ (pre ++ l)[p.1]? = some x) l
      ((List.range' pre.length l.length).zip l) := by
  intro l
  induction l with
  | nil => intro pre; exact .nil
  | cons x xs ih =>
    intro pre
    simp only [List.length_cons, List.range'_succ, List.zip_cons_cons]
    refine .cons ⟨rfl, by simp⟩ ?_
    have := ih (pre ++ [x])
    simp only [List.length_append, List.length_cons, List.length_nil, List.append_assoc,
      List.cons_append, List.nil_append] at this
    exact this

theorem forall₂_zip_range {β : Type} (l : List β) :
    List.Forall₂ (fun x (p : Nat × β) => p.2 = x ∧ l[p.1]? = some x) l ((List.range l.length).zip l) := by
  have := forall₂_zip_range' l []
  rw [List.range_eq_range']
  simpa using this

theorem forall₂_getD {β γ : Type} {R : β → γ → Prop} {l : List β} {r : List γ} (h : List.Forall₂ R l r)
    {i : Nat} {x : β} (hx : l[i]? = some x) (d : γ) : R x (r.getD i d) := by
  induction h generalizing i with
  | nil => simp at hx
  | cons hxy _ ih =>
    cases i with
    | zero => simp at hx; subst hx; simpa using hxy
    | succ i => simp at hx; simpa using ih hx

/-- `UpdateAlternatives` with a list that holds, under distinct ids, exactly the wanted alternatives -/
theorem updateAlts_eq_of_ids {new : List (Alt α)} (hnd : (new.map (·.id)).Nodup) :
    ∀ {old want : List (Alt α)}, (∀ b ∈ want, b ∈ new) → old.map (·.id) = want.map (·.id) →
      updateAlts old new = .ok want := by
  intro old
  induction old with
  | nil => intro want _ h; cases want with
    | nil => rfl
    | cons _ _ => simp at h
  | cons a rest ih =>
    intro want hsub hids
    cases want with
    | nil => simp at hids
    | cons b bs =>
      simp only [List.map_cons, List.cons.injEq] at hids
      unfold updateAlts
      rw [List.mapM_cons]
      have hb : fetchAlt new a.id = .ok b := by
        unfold fetchAlt
        rw [hids.1, find?_of_nodup (key := fun y : Alt α => y.id) hnd (hsub b List.mem_cons_self)]
        rfl
      rw [hb, ok_bind]
      have := ih (want := bs) (fun x hx => hsub x (List.mem_cons_of_mem _ hx)) hids.2
      unfold updateAlts at this
      rw [this, ok_bind]
      rfl

/-- with distinct alternative ids the state handed on holds exactly the mirrored alternatives, in the
    order considered ++ not considered -/
theorem reverseSelected_all {sel : List (Crit α)} {cur res : DMP α} {rep : List (Reversed α)}
    (h : reverseSelected sel cur = .ok (res, rep)) (ha : (cur.all.map (·.id)).Nodup) :
    ∃ toRev resl, criteriaToReverse sel cur = .ok toRev ∧ cur.all.mapM (reverseAlt toRev) = .ok resl ∧
      res.all = resl.map (·.1) ∧ rep = reversalReport toRev cur.all (resl.map (·.2)) := by
  obtain ⟨toRev, resl, ht, hm, hnc, hco, _, _, hrep⟩ := reverseSelected_ok h
  refine ⟨toRev, resl, ht, hm, ?_, hrep⟩
  have hf := mapM_ok_forall₂ hm
  have hidsAll : (resl.map (·.1)).map (·.id) = cur.all.map (·.id) := by
    rw [List.map_map]
    refine forall₂_map_map ?_ hf
    intro a r hr
    rw [reverseAlt_eq] at hr
    exact (foldlM_revStep_spec toRev _ _ hr).1
  have hnd : ((resl.map (·.1)).map (·.id)).Nodup := by rw [hidsAll]; exact ha
  -- split the mirrored list at |considered|
  have hlen : (resl.map (·.1)).length = cur.co.length + cur.nc.length := by
    have := congrArg List.length hidsAll
    simpa [DMP.all] using this
  have e1 : updateAlts cur.co (resl.map (·.1)) = .ok ((resl.map (·.1)).take cur.co.length) := by
    apply updateAlts_eq_of_ids hnd (fun b hb => List.mem_of_mem_take hb)
    have := congrArg (List.take cur.co.length) hidsAll
    simp only [DMP.all, List.map_append, List.take_left'] at this
    rw [List.map_take, this]
    simp
  have e2 : updateAlts cur.nc (resl.map (·.1)) = .ok ((resl.map (·.1)).drop cur.co.length) := by
    apply updateAlts_eq_of_ids hnd (fun b hb => List.mem_of_mem_drop hb)
    have := congrArg (List.drop cur.co.length) hidsAll
    simp only [DMP.all, List.map_append] at this
    rw [List.map_drop, this]
    simp
  rw [e1] at hco; rw [e2] at hnc
  have hco' : res.co = (resl.map (·.1)).take cur.co.length := by injection hco with hco; exact hco.symm
  have hnc' : res.nc = (resl.map (·.1)).drop cur.co.length := by injection hnc with hnc; exact hnc.symm
  unfold DMP.all
  rw [hco', hnc']
  exact List.take_append_drop _ _


/-- what one report entry says about the mirrored alternatives `news` -/
def ReportEntryOk (news : List (Alt α)) (cr : Crit α × (α × α)) (r : Reversed α) : Prop :=
  r.id = cr.1.id ∧ r.type = cr.1.type ∧ r.range = cr.2 ∧
    List.Forall₂ (fun (a' : Alt α) (p : String × α) => p.1 = a'.id ∧ a'.vals.get? cr.1.id = some p.2) news r.vals

theorem reversalReport_values {toRev : List (Crit α × (α × α))} (hnd : (toRev.map (·.1.id)).Nodup)
    {all : List (Alt α)} {resl : List (Alt α × List α)}
    (hf : List.Forall₂ (fun a r => reverseAlt toRev a = .ok r) all resl) :
    List.Forall₂ (ReportEntryOk (resl.map (·.1))) toRev (reversalReport toRev all (resl.map (·.2))) := by
  unfold reversalReport
  rw [List.forall₂_map_right_iff]
  refine (forall₂_zip_range toRev).imp ?_
  intro cr p ⟨hp2, hp1⟩
  obtain ⟨i, cr'⟩ := p
  simp only at hp2 hp1
  subst hp2
  refine ⟨rfl, rfl, rfl, ?_⟩
  simp only
  induction hf with
  | nil => exact .nil
  | @cons a r l rl har _ ih =>
    simp only [List.map_cons, List.zip_cons_cons]
    refine .cons ⟨?_, ?_⟩ ih
    · have := (reverseAlt_mirrored hnd har).1.1
      exact this.symm
    · exact forall₂_getD (reverseAlt_mirrored hnd har).2 hp1 Num.zero


end Rdm.BiasA
