/-
  Lemmas for the end-to-end model, part 6 (progress, continued): small generic facts shared by the
  `DecideProgress*` files, and the "exact values" invariant — every known alternative holds a value for
  declared criteria only, each once (Go maps have unique keys; the association lists of the model need it said).
-/
import Rdm.Lemmas.DecideTotal
namespace Rdm
set_option linter.unusedSimpArgs false
set_option linter.unusedSectionVars false
variable {α : Type} [Num α]

/-! ### generic -/

theorem prog_foldlM_total {ε β γ : Type} {f : γ → β → Except ε γ} (P : γ → Prop) :
    ∀ {l : List β} {init : γ}, P init → (∀ acc, P acc → ∀ x ∈ l, ∃ r, f acc x = .ok r ∧ P r) →
      ∃ r, l.foldlM f init = .ok r ∧ P r := by
  intro l
  induction l with
  | nil => intro init h0 _; exact ⟨init, rfl, h0⟩
  | cons x xs ih =>
    intro init h0 hstep
    obtain ⟨r, hr, hp⟩ := hstep init h0 x (by simp)
    obtain ⟨r', hr', hp'⟩ := ih (init := r) hp (fun acc ha y hy => hstep acc ha y (List.mem_cons_of_mem _ hy))
    exact ⟨r', by rw [List.foldlM_cons, hr]; exact hr', hp'⟩

theorem prog_mapM_length {ε β γ : Type} {f : β → Except ε γ} {l : List β} {r : List γ}
    (h : l.mapM f = .ok r) : r.length = l.length := (mapM_ok h).1

theorem prog_signed_total {a : Alt α} {c : Crit α} (h : a.vals.has c.id = true) : ∃ v, a.signed c = .ok v := by
  obtain ⟨v, hv⟩ := decideRaw_total (a := a) (c := c) h
  exact ⟨v * c.mult, by unfold Alt.signed; rw [hv]; rfl⟩

theorem prog_bind_total {ε β γ : Type} {x : Except ε β} {f : β → Except ε γ} (hx : ∃ b, x = .ok b)
    (hf : ∀ b, x = .ok b → ∃ c, f b = .ok c) : ∃ c, (x >>= f) = .ok c := by
  obtain ⟨b, hb⟩ := hx
  obtain ⟨c, hc⟩ := hf b hb
  exact ⟨c, by rw [hb]; exact hc⟩

/-! ### exact values -/

/-- every known alternative holds values for declared criteria only, and no criterion twice.
    (In Go the values are a map: keys are unique by construction.  A request whose alternatives carry a value
    for an undeclared criterion is accepted by validation; the weighted-sum / Choquet listener rankings and the
    OWA / Choquet evaluations then fail on it — finding class `undeclared-value`.) -/
structure ProgExact (d : DMP α) : Prop where
  keysNodup : ∀ a ∈ d.co ++ d.nc, a.vals.keys.Nodup
  declared : ∀ a ∈ d.co ++ d.nc, ∀ k ∈ a.vals.keys, ∃ c ∈ d.crit, c.id = k

/-- the decidable form -/
def prog_exactValues (d : DMP α) : Bool :=
  (d.co ++ d.nc).all fun a => Spec.C07.nodup a.vals.keys && a.vals.keys.all fun k => d.crit.any (·.id == k)

theorem prog_exactValues_iff (d : DMP α) : prog_exactValues d = true ↔ ProgExact d := by
  unfold prog_exactValues
  simp only [List.all_eq_true, Bool.and_eq_true, decideSpecNodup_iff, List.any_eq_true, beq_iff_eq]
  constructor
  · intro h
    exact ⟨fun a ha => (h a ha).1, fun a ha k hk => (h a ha).2 k hk⟩
  · intro h a ha
    exact ⟨h.keysNodup a ha, fun k hk => h.declared a ha k hk⟩

/-- on a coherent exact state every alternative has exactly as many values as there are criteria -/
theorem prog_exact_length {d : DMP α} (hc : Coherent d) (he : ProgExact d) :
    ∀ a ∈ d.co ++ d.nc, a.vals.length = d.crit.length := by
  intro a ha
  have hp : a.vals.keys.Perm (d.crit.map (·.id)) := by
    rw [List.perm_ext_iff_of_nodup (he.keysNodup a ha) hc.nodup]
    intro k
    constructor
    · intro hk
      obtain ⟨c, hcm, e⟩ := he.declared a ha k hk
      exact e ▸ List.mem_map_of_mem hcm
    · intro hk
      obtain ⟨c, hcm, e⟩ := List.mem_map.mp hk
      have := hc.values a ha c hcm
      rw [KMap.has_iff_mem_keys] at this
      exact e ▸ this
  have := hp.length_eq
  simpa [KMap.keys] using this

end Rdm
