/-
  Lemmas about `evaluateRanking` (`EvaluateRanking` of ranking_evaluator.go): the links of an entry are
  exactly the other entries that are not ahead in either distillation.  Core Lean only.
-/
import Rdm.Model.Electre
import Rdm.Spec.C05
namespace Rdm

theorem zip_range_map {β γ : Type} (l : List β) (g : Nat × β → γ) :
    (List.range (((List.range l.length).zip l).map g).length).zip (((List.range l.length).zip l).map g)
      = ((List.range l.length).zip l).map (fun p => (p.1, g p)) := by
  apply List.ext_getElem
  · simp
  · intro i h1 h2
    simp

theorem linksOk_evaluateRanking (asc desc : List Int) (ids : List String)
    (ha : asc.length = ids.length) (hd : desc.length = ids.length) :
    Spec.C05.linksOk (evaluateRanking asc desc ids) = true := by
  unfold Spec.C05.linksOk evaluateRanking
  have hl : (ids.zip (asc.zip desc)).length = ids.length := by simp [ha, hd]
  rw [← hl]
  simp only []
  rw [zip_range_map]
  simp only [List.all_eq_true, List.mem_map, beq_iff_eq]
  rintro ⟨ia, a⟩ ⟨⟨ib, id, a1, d1⟩, hm, he⟩
  simp only [Prod.mk.injEq] at he
  obtain ⟨rfl, rfl⟩ := he
  simp [List.filter_map, Function.comp_def]

theorem mem_zip_range {β : Type} {l : List β} {j : Nat} {x : β} :
    (j, x) ∈ (List.range l.length).zip l ↔ ∃ h : j < l.length, l[j] = x := by
  constructor
  · intro h
    obtain ⟨k, hk, he⟩ := List.mem_iff_getElem.mp h
    simp only [List.getElem_zip, List.getElem_range, Prod.mk.injEq] at he
    obtain ⟨rfl, rfl⟩ := he
    simp at hk
    exact ⟨hk, rfl⟩
  · rintro ⟨h, rfl⟩
    apply List.mem_iff_getElem.mpr
    refine ⟨j, by simpa using h, ?_⟩
    simp

theorem el_evaluateRanking_length (asc desc : List Int) (ids : List String)
    (ha : asc.length = ids.length) (hd : desc.length = ids.length) :
    (evaluateRanking asc desc ids).length = ids.length := by
  simp [evaluateRanking, ha, hd]

theorem el_evaluateRanking_getElem (asc desc : List Int) (ids : List String)
    (ha : asc.length = ids.length) (hd : desc.length = ids.length) (i : Nat) (hi : i < ids.length) :
    ((evaluateRanking asc desc ids)[i]'(by rw [el_evaluateRanking_length _ _ _ ha hd]; exact hi)).id = ids[i] ∧
    ((evaluateRanking asc desc ids)[i]'(by rw [el_evaluateRanking_length _ _ _ ha hd]; exact hi)).ev = (asc[i], desc[i]) ∧
    ∀ b, b ∈ ((evaluateRanking asc desc ids)[i]'(by rw [el_evaluateRanking_length _ _ _ ha hd]; exact hi)).links ↔
      ∃ (j : Nat) (hj : j < ids.length), j ≠ i ∧ ids[j] = b ∧ asc[i] ≤ asc[j] ∧ desc[i] ≤ desc[j] := by
  have hl : (ids.zip (asc.zip desc)).length = ids.length := by simp [ha, hd]
  simp only [evaluateRanking, List.getElem_map, List.getElem_zip, List.getElem_range, true_and]
  intro b
  simp only [List.mem_map, List.mem_filter, Prod.exists]
  constructor
  · rintro ⟨j, id, a2, d2, ⟨hm, hp⟩, rfl⟩
    rw [← hl] at hm
    obtain ⟨hj, he⟩ := mem_zip_range.mp hm
    simp only [List.getElem_zip, Prod.mk.injEq] at he
    obtain ⟨rfl, rfl, rfl⟩ := he
    simp only [Bool.and_eq_true, bne_iff_ne, ne_eq, decide_eq_true_eq] at hp
    exact ⟨j, by rw [← hl]; exact hj, fun h => hp.1.1 h.symm, rfl, hp.1.2, hp.2⟩
  · rintro ⟨j, hj, hne, rfl, h1, h2⟩
    refine ⟨j, ids[j], asc[j], desc[j], ⟨?_, ?_⟩, rfl⟩
    · rw [← hl]
      apply mem_zip_range.mpr
      exact ⟨by rw [hl]; exact hj, by simp⟩
    · simp only [Bool.and_eq_true, bne_iff_ne, ne_eq, decide_eq_true_eq]
      exact ⟨⟨fun h => hne h.symm, h1⟩, h2⟩

theorem nodup_getElem_inj {β : Type} {l : List β} (hn : l.Nodup) {i j : Nat} (hi : i < l.length) (hj : j < l.length)
    (h : l[i] = l[j]) : i = j := by
  have hp := List.pairwise_iff_getElem.mp (List.nodup_iff_pairwise_ne.mp hn)
  rcases Nat.lt_trichotomy i j with hlt | heq | hgt
  · exact absurd h (hp i j hi hj hlt)
  · exact heq
  · exact absurd h.symm (hp j i hj hi hgt)

theorem evaluateRanking_links_nodup (asc desc : List Int) (ids : List String)
    (ha : asc.length = ids.length) (hd : desc.length = ids.length) (hn : ids.Nodup) :
    ∀ e ∈ evaluateRanking asc desc ids, e.links.Nodup := by
  intro e he
  simp only [evaluateRanking, List.mem_map] at he
  obtain ⟨⟨ia, id, a1, d1⟩, _, rfl⟩ := he
  simp only []
  have hrows : ((List.range ids.length).zip (ids.zip (asc.zip desc))).map (fun x => x.2.1) = ids := by
    have h1 : ((List.range ids.length).zip (ids.zip (asc.zip desc))).map Prod.snd = ids.zip (asc.zip desc) :=
      List.map_snd_zip (by simp [ha, hd])
    have h2 : (ids.zip (asc.zip desc)).map Prod.fst = ids := List.map_fst_zip (by simp [ha, hd])
    calc ((List.range ids.length).zip (ids.zip (asc.zip desc))).map (fun x => x.2.1)
        = (((List.range ids.length).zip (ids.zip (asc.zip desc))).map Prod.snd).map Prod.fst := by
          simp [List.map_map, Function.comp_def]
      _ = ids := by rw [h1, h2]
  have hs := (List.filter_sublist (p := fun x : Nat × String × Int × Int => ia != x.1 && decide (a1 ≤ x.2.2.1) && decide (d1 ≤ x.2.2.2))
    (l := (List.range ids.length).zip (ids.zip (asc.zip desc)))).map (fun x => x.2.1)
  rw [hrows] at hs
  exact hn.sublist hs

theorem evaluateRanking_never_self (asc desc : List Int) (ids : List String)
    (ha : asc.length = ids.length) (hd : desc.length = ids.length) (hn : ids.Nodup) :
    ∀ e ∈ evaluateRanking asc desc ids, e.id ∉ e.links := by
  intro e he hmem
  obtain ⟨i, hi, rfl⟩ := List.mem_iff_getElem.mp he
  have hi' : i < ids.length := by rw [el_evaluateRanking_length _ _ _ ha hd] at hi; exact hi
  obtain ⟨hid, _, hl⟩ := el_evaluateRanking_getElem asc desc ids ha hd i hi'
  obtain ⟨j, hj, hne, hb, _, _⟩ := (hl _).mp hmem
  rw [hid] at hb
  exact hne (nodup_getElem_inj hn hj hi' hb)

end Rdm
