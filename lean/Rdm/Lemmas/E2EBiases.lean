/-
  Lemmas for the END-TO-END theorems about single biases inside whole requests (Props/C15 … C19, C09), part 1:
    * the bias loop cut at an arbitrary position: a successful run over `chosen` is a successful run over
      the first `i` entries, the step of entry `i` (fired: one `apply` on the state the prefix produced; not
      fired: nothing), and a successful run over the remaining entries on the remaining draws
      (`e2eb_loop_split`), with the converse (`e2eb_loop_join`);
    * `E2EBFired`: position `i` of the response of `decideWith` fired — the state `s` the bias received, the
      state `s'` it handed on, its props, its report, all tied to the response by runs of the model's own loop;
    * every entry of `resp.biases` that carries a report is such a position (`e2eb_fired`), `s` is the state
      handed on by the previous fired bias or the request's state (`e2eb_fired_first`, `e2eb_fired_prev`),
      `s'` goes to the next fired bias or to the method (`e2eb_fired_last`, `e2eb_fired_prev`);
    * whatever every bias preserves holds of `s` and `s'` (`e2eb_fired_invariant`).
  All lemma names carry the prefix `e2eb_` (every lemma file shares `namespace Rdm`).
-/
import Rdm.Lemmas.E2EDecide
namespace Rdm
set_option linter.unusedSectionVars false
variable {α : Type} [Num α]

/-! ### the loop, one step -/

section generic
variable {S P Rep : Type}

theorem e2eb_loop_nil {apply : String → P → S → S → R (S × Rep)} {orig cur fin : S} {d : Draws α}
    {outs : List (BiasOut α Rep)} (h : processLoop apply orig [] cur d = .ok (fin, outs)) :
    fin = cur ∧ outs = [] := by
  simp only [processLoop, pure, Except.pure, Except.ok.injEq, Prod.mk.injEq] at h
  exact ⟨h.1.symm, h.2.symm⟩

/-- inversion of one round of `processBiases`' loop -/
theorem e2eb_loop_cons {apply : String → P → S → S → R (S × Rep)} {orig cur fin : S} {b : Chosen α P}
    {rest : List (Chosen α P)} {d : Draws α} {outs : List (BiasOut α Rep)}
    (h : processLoop apply orig (b :: rest) cur d = .ok (fin, outs)) :
    ∃ u d' outs', d = u :: d' ∧
      ((u < b.prob ∧ ∃ next rep, apply b.name b.props orig cur = .ok (next, rep) ∧
          processLoop apply orig rest next d' = .ok (fin, outs') ∧
          outs = ⟨b.name, b.prob, some rep⟩ :: outs') ∨
       (¬ u < b.prob ∧ processLoop apply orig rest cur d' = .ok (fin, outs') ∧
          outs = ⟨b.name, b.prob, none⟩ :: outs')) := by
  unfold processLoop at h
  obtain ⟨⟨u, d'⟩, hd, h⟩ := bind_eq_ok.mp h
  have hd' : d = u :: d' := by
    cases d with
    | nil => simp [draw, throw, throwThe, MonadExceptOf.throw] at hd
    | cons x xs =>
      simp only [draw, pure, Except.pure, Except.ok.injEq, Prod.mk.injEq] at hd
      rw [hd.1, hd.2]
  dsimp only at h
  split at h
  · rename_i hu
    obtain ⟨⟨next, rep⟩, ha, h⟩ := bind_eq_ok.mp h
    dsimp only at h
    obtain ⟨⟨fin', outs'⟩, hl, h⟩ := bind_eq_ok.mp h
    simp only [pure, Except.pure, Except.ok.injEq, Prod.mk.injEq] at h
    obtain ⟨rfl, rfl⟩ := h
    exact ⟨u, d', outs', hd', Or.inl ⟨hu, next, rep, ha, hl, rfl⟩⟩
  · rename_i hu
    obtain ⟨⟨fin', outs'⟩, hl, h⟩ := bind_eq_ok.mp h
    simp only [pure, Except.pure, Except.ok.injEq, Prod.mk.injEq] at h
    obtain ⟨rfl, rfl⟩ := h
    exact ⟨u, d', outs', hd', Or.inr ⟨hu, hl, rfl⟩⟩

theorem e2eb_loop_cons_fired {apply : String → P → S → S → R (S × Rep)} {orig cur next fin : S}
    {b : Chosen α P} {rest : List (Chosen α P)} {u : α} {d' : Draws α} {rep : Rep}
    {outs' : List (BiasOut α Rep)} (hu : u < b.prob) (ha : apply b.name b.props orig cur = .ok (next, rep))
    (hl : processLoop apply orig rest next d' = .ok (fin, outs')) :
    processLoop apply orig (b :: rest) cur (u :: d') = .ok (fin, ⟨b.name, b.prob, some rep⟩ :: outs') := by
  unfold processLoop
  simp only [draw, pure, Except.pure, bind, Except.bind, hu, if_true, ha, hl]

theorem e2eb_loop_cons_skipped {apply : String → P → S → S → R (S × Rep)} {orig cur fin : S}
    {b : Chosen α P} {rest : List (Chosen α P)} {u : α} {d' : Draws α}
    {outs' : List (BiasOut α Rep)} (hu : ¬ u < b.prob)
    (hl : processLoop apply orig rest cur d' = .ok (fin, outs')) :
    processLoop apply orig (b :: rest) cur (u :: d') = .ok (fin, ⟨b.name, b.prob, none⟩ :: outs') := by
  unfold processLoop
  simp only [draw, pure, Except.pure, bind, Except.bind, hu, if_false, hl]

/-- the run produces one entry per chosen bias -/
theorem e2eb_loop_length {apply : String → P → S → S → R (S × Rep)} {orig : S} :
    ∀ (chosen : List (Chosen α P)) (cur fin : S) (d : Draws α) (outs : List (BiasOut α Rep)),
      processLoop apply orig chosen cur d = .ok (fin, outs) → outs.length = chosen.length := by
  intro chosen
  induction chosen with
  | nil => intro cur fin d outs h; rw [(e2eb_loop_nil h).2]; rfl
  | cons b rest ih =>
    intro cur fin d outs h
    obtain ⟨u, d', outs', rfl, h | h⟩ := e2eb_loop_cons h
    · obtain ⟨_, next, rep, _, hl, rfl⟩ := h
      simp [ih next fin d' outs' hl]
    · obtain ⟨_, hl, rfl⟩ := h
      simp [ih cur fin d' outs' hl]

/-- a run in which no entry carries a report hands its start state on unchanged -/
theorem e2eb_loop_no_report {apply : String → P → S → S → R (S × Rep)} {orig : S} :
    ∀ (chosen : List (Chosen α P)) (cur fin : S) (d : Draws α) (outs : List (BiasOut α Rep)),
      processLoop apply orig chosen cur d = .ok (fin, outs) → (∀ o ∈ outs, o.report = none) → fin = cur := by
  intro chosen
  induction chosen with
  | nil => intro cur fin d outs h _; exact (e2eb_loop_nil h).1
  | cons b rest ih =>
    intro cur fin d outs h hn
    obtain ⟨u, d', outs', rfl, h | h⟩ := e2eb_loop_cons h
    · obtain ⟨_, next, rep, _, _, rfl⟩ := h
      have := hn _ List.mem_cons_self
      cases this
    · obtain ⟨_, hl, rfl⟩ := h
      exact ih cur fin d' outs' hl fun o ho => hn o (List.mem_cons_of_mem _ ho)

/-! ### the loop cut at position `i` -/

/-- what entry `o` of the response says about the step of chosen bias `b` from state `s` to state `s'` on the
    activation draw `u`: fired (`u < p`) with exactly the report `apply` returned, or not fired and no change -/
def E2EBStep (apply : String → P → S → S → R (S × Rep)) (orig : S) (b : Chosen α P) (u : α)
    (o : BiasOut α Rep) (s s' : S) : Prop :=
  o.name = b.name ∧ o.prob = b.prob ∧
  match o.report with
  | some rep => u < b.prob ∧ apply b.name b.props orig s = .ok (s', rep)
  | none => ¬ u < b.prob ∧ s' = s

/-- **the loop cut at position `i`**: a run over the first `i` entries (from the same start state, on the same
    draws) that produces the first `i` response entries and some state `s`; the step of entry `i` from `s` to
    some `s'`; a run over the entries after `i` from `s'`, on the draws after the `i`-th, that produces the
    remaining response entries and the final state. -/
theorem e2eb_loop_split {apply : String → P → S → S → R (S × Rep)} {orig : S} :
    ∀ (chosen : List (Chosen α P)) (cur fin : S) (d : Draws α) (outs : List (BiasOut α Rep)),
      processLoop apply orig chosen cur d = .ok (fin, outs) →
      ∀ (i : Nat) (o : BiasOut α Rep), outs[i]? = some o →
        ∃ b u s s', chosen[i]? = some b ∧ d[i]? = some u ∧
          processLoop apply orig (chosen.take i) cur d = .ok (s, outs.take i) ∧
          E2EBStep apply orig b u o s s' ∧
          processLoop apply orig (chosen.drop (i + 1)) s' (d.drop (i + 1)) = .ok (fin, outs.drop (i + 1)) := by
  intro chosen
  induction chosen with
  | nil =>
    intro cur fin d outs h i o ho
    rw [(e2eb_loop_nil h).2] at ho
    simp at ho
  | cons b rest ih =>
    intro cur fin d outs h i o ho
    obtain ⟨u, d', outs', rfl, hc | hc⟩ := e2eb_loop_cons h
    · obtain ⟨hu, next, rep, ha, hl, rfl⟩ := hc
      cases i with
      | zero =>
        simp only [List.getElem?_cons_zero, Option.some.injEq] at ho
        subst ho
        refine ⟨b, u, cur, next, rfl, rfl, ?_, ⟨rfl, rfl, hu, ha⟩, ?_⟩
        · simp [processLoop, pure, Except.pure]
        · simpa using hl
      | succ j =>
        simp only [List.getElem?_cons_succ] at ho
        obtain ⟨b', u', s, s', hb, hd, hpre, hstep, hpost⟩ := ih next fin d' outs' hl j o ho
        refine ⟨b', u', s, s', by simpa using hb, by simpa using hd, ?_, hstep, by simpa using hpost⟩
        simp only [List.take_succ_cons]
        exact e2eb_loop_cons_fired hu ha hpre
    · obtain ⟨hu, hl, rfl⟩ := hc
      cases i with
      | zero =>
        simp only [List.getElem?_cons_zero, Option.some.injEq] at ho
        subst ho
        refine ⟨b, u, cur, cur, rfl, rfl, ?_, ⟨rfl, rfl, hu, rfl⟩, ?_⟩
        · simp [processLoop, pure, Except.pure]
        · simpa using hl
      | succ j =>
        simp only [List.getElem?_cons_succ] at ho
        obtain ⟨b', u', s, s', hb, hd, hpre, hstep, hpost⟩ := ih cur fin d' outs' hl j o ho
        refine ⟨b', u', s, s', by simpa using hb, by simpa using hd, ?_, hstep, by simpa using hpost⟩
        simp only [List.take_succ_cons]
        exact e2eb_loop_cons_skipped hu hpre

/-- a run over a prefix of the chosen biases does not look at the draws beyond its length -/
theorem e2eb_loop_take_draws {apply : String → P → S → S → R (S × Rep)} {orig : S} :
    ∀ (chosen : List (Chosen α P)) (cur fin : S) (d : Draws α) (outs : List (BiasOut α Rep)),
      processLoop apply orig chosen cur d = .ok (fin, outs) →
      ∀ d2, processLoop apply orig chosen cur (d.take chosen.length ++ d2) = .ok (fin, outs) := by
  intro chosen
  induction chosen with
  | nil =>
    intro cur fin d outs h d2
    obtain ⟨rfl, rfl⟩ := e2eb_loop_nil h
    simp [processLoop, pure, Except.pure]
  | cons b rest ih =>
    intro cur fin d outs h d2
    obtain ⟨u, d', outs', rfl, hc | hc⟩ := e2eb_loop_cons h
    · obtain ⟨hu, next, rep, ha, hl, rfl⟩ := hc
      simp only [List.length_cons, List.take_succ_cons, List.cons_append]
      exact e2eb_loop_cons_fired hu ha (ih next fin d' outs' hl d2)
    · obtain ⟨hu, hl, rfl⟩ := hc
      simp only [List.length_cons, List.take_succ_cons, List.cons_append]
      exact e2eb_loop_cons_skipped hu (ih cur fin d' outs' hl d2)

/-- the converse of `e2eb_loop_split`: prefix run, step, suffix run compose to the whole run -/
theorem e2eb_loop_join {apply : String → P → S → S → R (S × Rep)} {orig : S} :
    ∀ (pre : List (Chosen α P)) (cur s : S) (dpre : Draws α) (opre : List (BiasOut α Rep)),
      processLoop apply orig pre cur dpre = .ok (s, opre) → dpre.length = pre.length →
      ∀ (post : List (Chosen α P)) (fin : S) (dpost : Draws α) (opost : List (BiasOut α Rep)),
        processLoop apply orig post s dpost = .ok (fin, opost) →
        processLoop apply orig (pre ++ post) cur (dpre ++ dpost) = .ok (fin, opre ++ opost) := by
  intro pre
  induction pre with
  | nil =>
    intro cur s dpre opre h hlen post fin dpost opost hp
    obtain ⟨rfl, rfl⟩ := e2eb_loop_nil h
    have : dpre = [] := List.eq_nil_of_length_eq_zero hlen
    subst this
    simpa using hp
  | cons b rest ih =>
    intro cur s dpre opre h hlen post fin dpost opost hp
    obtain ⟨u, d', outs', rfl, hc | hc⟩ := e2eb_loop_cons h
    · obtain ⟨hu, next, rep, ha, hl, rfl⟩ := hc
      simp only [List.cons_append]
      exact e2eb_loop_cons_fired hu ha (ih next s d' outs' hl (by simpa using hlen) post fin dpost opost hp)
    · obtain ⟨hu, hl, rfl⟩ := hc
      simp only [List.cons_append]
      exact e2eb_loop_cons_skipped hu (ih cur s d' outs' hl (by simpa using hlen) post fin dpost opost hp)

end generic

/-! ### a fired position of a response -/

/-- the run of the bias loop inside a successful `decideWith` -/
theorem e2eb_decide_run {exp : α → α} {o : List (WCrit α) → List (WCrit α)} {req : Request α}
    {g : Int → Draws α} {resp : Response α} (h : decideWith exp o req g = .ok resp) :
    ∃ params chosen, prepare req = .ok (params, chosen) ∧
      processLoop (applyBias exp g) params chosen params (g req.biasSeed) = .ok (resp.final, resp.biases) ∧
      evaluateWith o g resp.final = .ok resp.result := by
  obtain ⟨hp, he⟩ := e2e_decideWith_ok h
  unfold pipeline at hp
  obtain ⟨⟨params, chosen⟩, hprep, hp⟩ := bind_eq_ok.mp hp
  exact ⟨params, chosen, hprep, hp, he⟩

/-- **Position `i` of the response `resp` to `req` fired.**  `params` / `chosen` are what `prepare` builds from
    the request (the state before any bias; the enabled biases with their probabilities); `b` is the `i`-th
    chosen bias; `rep` the report its entry carries; `s` the state it received, `s'` the state it handed on:
    * `before`: the model's own loop over the first `i` biases, started on the request's state with the
      request's activation stream, produces the first `i` response entries and `s`;
    * `step`:   `Bias.Apply(original = params, current = s)` of bias `b` returns `(s', rep)`;
    * `after`:  the loop over the remaining biases, started on `s'` with the remaining activation draws,
      produces the remaining response entries and the state `resp.final` handed to the method. -/
structure E2EBFired (exp : α → α) (g : Int → Draws α) (req : Request α) (resp : Response α)
    (params : DMP α) (chosen : List (Chosen α (BProps α))) (i : Nat) (b : Chosen α (BProps α))
    (rep : Report α) (s s' : DMP α) : Prop where
  prepared : prepare req = .ok (params, chosen)
  entry : chosen[i]? = some b
  out : resp.biases[i]? = some ⟨b.name, b.prob, some rep⟩
  drawn : ∃ u, (g req.biasSeed)[i]? = some u ∧ u < b.prob
  before : processLoop (applyBias exp g) params (chosen.take i) params (g req.biasSeed)
            = .ok (s, resp.biases.take i)
  step : applyBias exp g b.name b.props params s = .ok (s', rep)
  after : processLoop (applyBias exp g) params (chosen.drop (i + 1)) s' ((g req.biasSeed).drop (i + 1))
            = .ok (resp.final, resp.biases.drop (i + 1))

/-- **M1, indexed form.**  Every entry of the response's `biases` list that carries a report is a fired
    position: there are the state `s` the bias received and the state `s'` it handed on, tied to the response
    as `E2EBFired` says — for every method, every bias list, every position. -/
theorem e2eb_fired {exp : α → α} {o : List (WCrit α) → List (WCrit α)} {req : Request α}
    {g : Int → Draws α} {resp : Response α} (h : decideWith exp o req g = .ok resp)
    {i : Nat} {name : String} {prob : α} {rep : Report α}
    (hi : resp.biases[i]? = some ⟨name, prob, some rep⟩) :
    ∃ params chosen props s s', E2EBFired exp g req resp params chosen i ⟨name, prob, props⟩ rep s s' := by
  obtain ⟨params, chosen, hprep, hrun, _⟩ := e2eb_decide_run h
  obtain ⟨b, u, s, s', hb, hd, hpre, ⟨hn, hp, hstep⟩, hpost⟩ := e2eb_loop_split chosen _ _ _ _ hrun i _ hi
  dsimp only at hn hp hstep
  obtain ⟨hu, ha⟩ := hstep
  obtain ⟨bn, bp, bprops⟩ := b
  dsimp only at hn hp hu ha
  subst hn hp
  exact ⟨params, chosen, bprops, s, s', ⟨hprep, hb, hi, ⟨u, hd, hu⟩, hpre, ha, hpost⟩⟩

/-- the converse: the three runs of `E2EBFired` compose to the response's run (so `E2EBFired` loses nothing) -/
theorem e2eb_fired_run {exp : α → α} {g : Int → Draws α} {req : Request α} {resp : Response α}
    {params : DMP α} {chosen : List (Chosen α (BProps α))} {i : Nat} {b : Chosen α (BProps α)}
    {rep : Report α} {s s' : DMP α} (hf : E2EBFired exp g req resp params chosen i b rep s s') :
    processLoop (applyBias exp g) params chosen params (g req.biasSeed) = .ok (resp.final, resp.biases) := by
  obtain ⟨u, hu, hlt⟩ := hf.drawn
  have hi : i < chosen.length := by
    have := hf.entry
    rw [List.getElem?_eq_some_iff] at this
    exact this.1
  have hid : i < (g req.biasSeed).length := by
    rw [List.getElem?_eq_some_iff] at hu
    exact hu.1
  have hio : i < resp.biases.length := by
    have := hf.out
    rw [List.getElem?_eq_some_iff] at this
    exact this.1
  have h1 := e2eb_loop_take_draws _ _ _ _ _ hf.before []
  rw [List.append_nil, List.length_take, Nat.min_eq_left (Nat.le_of_lt hi)] at h1
  have h2 := e2eb_loop_cons_fired (b := b) (rest := chosen.drop (i + 1)) hlt hf.step hf.after
  have h3 := e2eb_loop_join _ _ _ _ _ h1 (by simp [Nat.le_of_lt hi, Nat.le_of_lt hid]) _ _ _ _ h2
  have e1 : chosen.take i ++ b :: chosen.drop (i + 1) = chosen := by
    have : b = chosen[i] := by
      have := hf.entry
      rw [List.getElem?_eq_getElem hi] at this
      exact (Option.some.inj this).symm
    rw [this, List.getElem_cons_drop, List.take_append_drop]
  have e2 : (g req.biasSeed).take i ++ u :: (g req.biasSeed).drop (i + 1) = g req.biasSeed := by
    have : u = (g req.biasSeed)[i] := by
      rw [List.getElem?_eq_getElem hid] at hu
      exact (Option.some.inj hu).symm
    rw [this, List.getElem_cons_drop, List.take_append_drop]
  have e3 : resp.biases.take i ++ ⟨b.name, b.prob, some rep⟩ :: resp.biases.drop (i + 1) = resp.biases := by
    have : (⟨b.name, b.prob, some rep⟩ : BiasOut α (Report α)) = resp.biases[i] := by
      have := hf.out
      rw [List.getElem?_eq_getElem hio] at this
      exact (Option.some.inj this).symm
    rw [this, List.getElem_cons_drop, List.take_append_drop]
  rw [e1, e2, e3] at h3
  exact h3

/-- the states of a fired position are determined by the request, the streams and the position -/
theorem e2eb_fired_unique {exp : α → α} {g : Int → Draws α} {req : Request α} {resp : Response α}
    {params params2 : DMP α} {chosen chosen2 : List (Chosen α (BProps α))} {i : Nat}
    {b b2 : Chosen α (BProps α)} {rep rep2 : Report α} {s s' s2 s2' : DMP α}
    (h1 : E2EBFired exp g req resp params chosen i b rep s s')
    (h2 : E2EBFired exp g req resp params2 chosen2 i b2 rep2 s2 s2') :
    params2 = params ∧ chosen2 = chosen ∧ b2 = b ∧ rep2 = rep ∧ s2 = s ∧ s2' = s' := by
  have hp := h1.prepared.symm.trans h2.prepared
  simp only [Except.ok.injEq, Prod.mk.injEq] at hp
  obtain ⟨rfl, rfl⟩ := hp
  have hb := h1.entry.symm.trans h2.entry
  simp only [Option.some.injEq] at hb
  subst hb
  have hb := h1.before.symm.trans h2.before
  simp only [Except.ok.injEq, Prod.mk.injEq] at hb
  obtain ⟨rfl, _⟩ := hb
  have hs := h1.step.symm.trans h2.step
  simp only [Except.ok.injEq, Prod.mk.injEq] at hs
  obtain ⟨rfl, rfl⟩ := hs
  exact ⟨rfl, rfl, rfl, rfl, rfl, rfl⟩

/-- the first fired bias receives the state built from the request -/
theorem e2eb_fired_first {exp : α → α} {g : Int → Draws α} {req : Request α} {resp : Response α}
    {params : DMP α} {chosen : List (Chosen α (BProps α))} {i : Nat} {b : Chosen α (BProps α)}
    {rep : Report α} {s s' : DMP α} (hf : E2EBFired exp g req resp params chosen i b rep s s')
    (hnone : ∀ j < i, ∀ o, resp.biases[j]? = some o → o.report = none) : s = params := by
  refine e2eb_loop_no_report _ _ _ _ _ hf.before ?_
  intro o ho
  obtain ⟨j, hj, rfl⟩ := List.mem_iff_getElem.mp ho
  have hji : j < i := by
    simp only [List.length_take] at hj
    omega
  apply hnone j hji
  rw [List.getElem_take]
  exact List.getElem?_eq_getElem _

/-- the last fired bias hands its state to the method -/
theorem e2eb_fired_last {exp : α → α} {g : Int → Draws α} {req : Request α} {resp : Response α}
    {params : DMP α} {chosen : List (Chosen α (BProps α))} {i : Nat} {b : Chosen α (BProps α)}
    {rep : Report α} {s s' : DMP α} (hf : E2EBFired exp g req resp params chosen i b rep s s')
    (hnone : ∀ j, i < j → ∀ o, resp.biases[j]? = some o → o.report = none) : resp.final = s' := by
  refine e2eb_loop_no_report _ _ _ _ _ hf.after ?_
  intro o ho
  obtain ⟨j, hj, rfl⟩ := List.mem_iff_getElem.mp ho
  apply hnone (i + 1 + j) (by omega)
  rw [List.getElem_drop]
  exact List.getElem?_eq_getElem _

/-- a fired bias receives exactly the state the previous fired bias handed on -/
theorem e2eb_fired_prev {exp : α → α} {g : Int → Draws α} {req : Request α} {resp : Response α}
    {params : DMP α} {chosen : List (Chosen α (BProps α))} {i j : Nat} {b bj : Chosen α (BProps α)}
    {rep repj : Report α} {s s' sj sj' : DMP α}
    (hf : E2EBFired exp g req resp params chosen i b rep s s')
    (hj : E2EBFired exp g req resp params chosen j bj repj sj sj') (hji : j < i)
    (hnone : ∀ k, j < k → k < i → ∀ o, resp.biases[k]? = some o → o.report = none) : s = sj' := by
  have hjo : (resp.biases.take i)[j]? = some ⟨bj.name, bj.prob, some repj⟩ := by
    rw [List.getElem?_take_of_lt hji]; exact hj.out
  obtain ⟨b2, u, t, t', hb2, _, hpre, ⟨_, _, hstep⟩, hpost⟩ := e2eb_loop_split _ _ _ _ _ hf.before j _ hjo
  dsimp only at hstep
  rw [List.take_take, Nat.min_eq_left (Nat.le_of_lt hji)] at hpre
  rw [List.take_take, Nat.min_eq_left (Nat.le_of_lt hji)] at hpre
  have e := hpre.symm.trans hj.before
  simp only [Except.ok.injEq, Prod.mk.injEq] at e
  obtain ⟨rfl, _⟩ := e
  have hb2' : b2 = bj := by
    rw [List.getElem?_take_of_lt hji] at hb2
    exact Option.some.inj (hb2.symm.trans hj.entry)
  subst hb2'
  have e := hstep.2.symm.trans hj.step
  simp only [Except.ok.injEq, Prod.mk.injEq] at e
  obtain ⟨rfl, _⟩ := e
  refine e2eb_loop_no_report _ _ _ _ _ hpost ?_
  intro o ho
  obtain ⟨k, hk, rfl⟩ := List.mem_iff_getElem.mp ho
  simp only [List.length_drop, List.length_take] at hk
  apply hnone (j + 1 + k) (by omega) (by omega)
  rw [List.getElem_drop, List.getElem_take]
  exact List.getElem?_eq_getElem _

/-- whatever holds of the request's state and is preserved by every successful `Bias.Apply` (with `original`
    the request's state) holds of the state a fired bias receives and of the state it hands on -/
theorem e2eb_fired_invariant {exp : α → α} {g : Int → Draws α} {req : Request α} {resp : Response α}
    {params : DMP α} {chosen : List (Chosen α (BProps α))} {i : Nat} {b : Chosen α (BProps α)}
    {rep : Report α} {s s' : DMP α} (hf : E2EBFired exp g req resp params chosen i b rep s s')
    (Inv : DMP α → Prop) (h0 : Inv params)
    (hstep : ∀ name p cur res r, Inv cur → applyBias exp g name p params cur = .ok (res, r) → Inv res) :
    Inv s ∧ Inv s' := by
  have hs : Inv s :=
    decideLoop_invariant (Inv := Inv) _ (fun b _ cur next r hc ha => hstep _ _ _ _ _ hc ha) _ _ _ _ h0 hf.before
  exact ⟨hs, hstep _ _ _ _ _ hs hf.step⟩

end Rdm
