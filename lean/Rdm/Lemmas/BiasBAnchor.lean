/-
  Anchoring, any number type: the reference point of `findBest` is, criterion by criterion, the result of
  a left fold of the better-than test over the anchoring alternatives' values (`bestFold`), hence one of
  their values; structure of the inline step.  Core only.
-/
import Rdm.Lemmas.BiasBKMap
import Rdm.Model.Anchoring
namespace Rdm
set_option linter.unusedSectionVars false
variable {α : Type} [Num α]

/-- (value, coefficient) candidates of criterion `c` among anchoring alternatives, in order -/
def candidatesOf (c : Crit α) (l : List (Alt α × α)) : List (α × α) :=
  l.filterMap fun a => (a.1.vals.get? c.id).map fun v => (v, a.2)

/-- the fold `findBestCriteriaValues` performs for one criterion -/
def bestFold (pred : Crit α → α × α → α × α → Bool) (c : Crit α) (init : α × α) (l : List (α × α)) : α × α :=
  l.foldl (fun old new => if pred c old new then new else old) init

omit [Num α] in
theorem bestFold_mem (pred : Crit α → α × α → α × α → Bool) (c : Crit α) :
    ∀ (l : List (α × α)) (init : α × α), bestFold pred c init l ∈ init :: l := by
  intro l
  induction l with
  | nil => intro init; simp [bestFold]
  | cons x xs ih =>
    intro init
    have := ih (if pred c init x then x else init)
    simp only [bestFold, List.foldl_cons] at this ⊢
    rw [List.mem_cons] at this
    rcases this with h | h
    · rw [h]; split <;> simp
    · simp [h]

omit [Num α] in
theorem raw_ok {a : Alt α} {c : Crit α} {v : α} (h : a.raw c = .ok v) : a.vals.get? c.id = some v := by
  unfold Alt.raw at h
  split at h
  · rename_i w hw; simp [pure, Except.pure] at h; subst h; exact hw
  · simp [throw, throwThe, MonadExceptOf.throw] at h

/-- one criterion of the inner loop -/
theorem findBestInner_ok {pred : Crit α → α × α → α × α → Bool} {a : Alt α × α} {best best1 : KMap (α × α)}
    {c : Crit α}
    (h : (do
      let v ← a.1.raw c
      match best.get? c.id with
      | none => throw s!"criterion-not-found:{c.id}"
      | some old => pure (if pred c old (v, a.2) then best.set c.id (v, a.2) else best) : R (KMap (α × α))) = .ok best1) :
    ∃ v old, a.1.vals.get? c.id = some v ∧ best.get? c.id = some old ∧
      best1 = (if pred c old (v, a.2) then best.set c.id (v, a.2) else best) := by
  obtain ⟨v, hv, h⟩ := bind_eq_ok.mp h
  split at h
  · simp [throw, throwThe, MonadExceptOf.throw] at h
  · rename_i old hold
    simp [pure, Except.pure] at h
    exact ⟨v, old, raw_ok hv, hold, h.symm⟩

/-- the inner loop over the criteria: the entry of a criterion outside the list is untouched, the entry of
    a criterion in the list (ids distinct) is replaced by the alternative's value iff the test says so -/
theorem findBestStep_get {pred : Crit α → α × α → α × α → Bool} {a : Alt α × α} :
    ∀ {crits : List (Crit α)} {best best1 : KMap (α × α)},
      findBestStep pred crits best a = .ok best1 → (crits.map (·.id)).Nodup →
      (∀ k, k ∉ crits.map (·.id) → best1.get? k = best.get? k) ∧
      (∀ c ∈ crits, ∀ s, best.get? c.id = some s →
        ∃ v, a.1.vals.get? c.id = some v ∧
          best1.get? c.id = some (if pred c s (v, a.2) then (v, a.2) else s)) := by
  intro crits
  induction crits with
  | nil =>
    intro best best1 h _
    simp [findBestStep, List.foldlM, pure, Except.pure] at h
    subst h
    exact ⟨fun _ _ => rfl, fun c hc => by simp at hc⟩
  | cons c0 cs ih =>
    intro best best1 h hnd
    unfold findBestStep at h
    rw [List.foldlM_cons] at h
    obtain ⟨bmid, hmid, hrest⟩ := bind_eq_ok.mp h
    obtain ⟨v0, old0, hv0, hold0, hdef⟩ := findBestInner_ok hmid
    have hnd' : (cs.map (·.id)).Nodup := by
      simp only [List.map_cons, List.nodup_cons] at hnd; exact hnd.2
    have hc0 : c0.id ∉ cs.map (·.id) := by
      simp only [List.map_cons, List.nodup_cons] at hnd; exact hnd.1
    obtain ⟨ih1, ih2⟩ := ih (best := bmid) (best1 := best1) hrest hnd'
    have hmid_ne : ∀ k, k ≠ c0.id → bmid.get? k = best.get? k := by
      intro k hk
      rw [hdef]; split
      · exact KMap.get?_set_ne hk
      · rfl
    have hmid_eq : bmid.get? c0.id = some (if pred c0 old0 (v0, a.2) then (v0, a.2) else old0) := by
      rw [hdef]; split
      · exact KMap.get?_set_eq
      · exact hold0
    constructor
    · intro k hk
      simp only [List.map_cons, List.mem_cons, not_or] at hk
      rw [ih1 k hk.2, hmid_ne k hk.1]
    · intro c hc s hs
      simp only [List.mem_cons] at hc
      rcases hc with rfl | hc
      · refine ⟨v0, hv0, ?_⟩
        rw [ih1 _ hc0, hmid_eq]
        rw [hs] at hold0
        simp only [Option.some.injEq] at hold0
        rw [hold0]
      · have hne : c.id ≠ c0.id := by
          intro e
          apply hc0
          rw [← e]
          exact List.mem_map.mpr ⟨c, hc, rfl⟩
        have hs' : bmid.get? c.id = some s := by rw [hmid_ne _ hne]; exact hs
        exact ih2 c hc s hs'

/-- the outer loop: every criterion's entry is the fold of the test over the alternatives' candidates -/
theorem findBestLoop_get {pred : Crit α → α × α → α × α → Bool} {crits : List (Crit α)}
    (hnd : (crits.map (·.id)).Nodup) :
    ∀ {rest : List (Alt α × α)} {best best' : KMap (α × α)},
      rest.foldlM (findBestStep pred crits) best = .ok best' →
      (∀ k, k ∉ crits.map (·.id) → best'.get? k = best.get? k) ∧
      ∀ c ∈ crits, ∀ s, best.get? c.id = some s →
        best'.get? c.id = some (bestFold pred c s (candidatesOf c rest)) := by
  intro rest
  induction rest with
  | nil =>
    intro best best' h
    simp [List.foldlM, pure, Except.pure] at h
    subst h
    exact ⟨fun _ _ => rfl, fun c _ s hs => by simpa [candidatesOf, bestFold] using hs⟩
  | cons a as ih =>
    intro best best' h
    rw [List.foldlM_cons] at h
    obtain ⟨b1, h1, h2⟩ := bind_eq_ok.mp h
    obtain ⟨s1, s2⟩ := findBestStep_get h1 hnd
    obtain ⟨i1, i2⟩ := ih h2
    constructor
    · intro k hk; rw [i1 k hk, s1 k hk]
    · intro c hc s hs
      obtain ⟨v, hv, hb1⟩ := s2 c hc s hs
      rw [i2 c hc _ hb1]
      simp [candidatesOf, bestFold, hv]

omit [Num α] in
theorem lookup_map_snd {β γ : Type} (f : β → γ) (k : String) : ∀ (m : KMap β),
    List.lookup k (m.map fun p => (p.1, f p.2)) = (List.lookup k m).map f := by
  intro m
  induction m with
  | nil => rfl
  | cons p ps ih =>
    obtain ⟨a, b⟩ := p
    simp only [List.map_cons, List.lookup]
    split <;> simp_all

/-- `findBest`, criterion by criterion: the reported value is the value component of the fold of the
    better-than test, starting from the first anchoring alternative -/
theorem findBest_get {pred : Crit α → α × α → α × α → Bool} {name : String} {a0 : Alt α} {k0 : α}
    {rest : List (Alt α × α)} {crits : List (Crit α)} {r : Alt α}
    (h : findBest pred name ((a0, k0) :: rest) crits = .ok r) (hnd : (crits.map (·.id)).Nodup)
    {c : Crit α} (hc : c ∈ crits) {v0 : α} (hv0 : a0.vals.get? c.id = some v0) :
    r.id = name ∧
    r.vals.get? c.id = some (bestFold pred c (v0, k0) (candidatesOf c rest)).1 := by
  unfold findBest at h
  simp only at h
  obtain ⟨best, hbest, h⟩ := bind_eq_ok.mp h
  simp [pure, Except.pure] at h
  subst h
  refine ⟨rfl, ?_⟩
  have hinit : KMap.get? (a0.vals.map fun p => (p.1, (p.2, k0))) c.id = some (v0, k0) := by
    unfold KMap.get? at hv0 ⊢
    rw [lookup_map_snd (fun v => (v, k0)) c.id a0.vals, hv0]; rfl
  have := (findBestLoop_get hnd hbest).2 c hc _ hinit
  unfold KMap.get? at this ⊢
  show List.lookup c.id (best.map fun p => (p.1, p.2.1)) = _
  rw [lookup_map_snd (fun p : α × α => p.1) c.id best, this]; rfl

/-- every value of the reference point is the value some anchoring alternative has for that key -/
theorem findBest_values_are_candidates {pred : Crit α → α × α → α × α → Bool} {name : String}
    {alts : List (Alt α × α)} {crits : List (Crit α)} {r : Alt α}
    (h : findBest pred name alts crits = .ok r) :
    ∀ kv ∈ r.vals, ∃ a ∈ alts, kv ∈ a.1.vals := by
  unfold findBest at h
  split at h
  · simp [throw, throwThe, MonadExceptOf.throw] at h
  · rename_i a0 k0 rest
    obtain ⟨best, hbest, h⟩ := bind_eq_ok.mp h
    simp [pure, Except.pure] at h
    subst h
    let P : KMap (α × α) → Prop := fun b => ∀ e ∈ b, ∃ a ∈ (a0, k0) :: rest, (e.1, e.2.1) ∈ a.1.vals
    have hP : P best := by
      refine foldlM_invariant_mem P rest ?_ _ _ ?_ hbest
      · intro b a b' ha hb hstep
        unfold findBestStep at hstep
        refine foldlM_invariant P ?_ crits b b' hb hstep
        intro bb c bb' hbb hin
        obtain ⟨v, old, hv, _, hdef⟩ := findBestInner_ok hin
        rw [hdef]
        split
        · intro e he
          rcases KMap.mem_set he with he | he
          · exact hbb e he
          · subst he
            exact ⟨a, List.mem_cons_of_mem _ ha, KMap.get?_mem hv⟩
        · exact hbb
      · intro e he
        rw [List.mem_map] at he
        obtain ⟨p, hp, rfl⟩ := he
        exact ⟨(a0, k0), by simp, hp⟩
    intro kv hkv
    rw [List.mem_map] at hkv
    obtain ⟨e, he, rfl⟩ := hkv
    exact hP e he

/-! ### mapped difference and inline step -/

theorem mapDiff_pos (ev : AFun α → α → α) (loss gain : AFun α) (d : α) (h : Num.zero < d) :
    mapDiff ev loss gain d = ev gain d := by
  unfold mapDiff; rw [if_pos h]

theorem mapDiff_nonpos (ev : AFun α → α → α) (loss gain : AFun α) (d : α) (h : ¬ Num.zero < d) :
    mapDiff ev loss gain d = -(ev loss (-d)) := by
  unfold mapDiff; rw [if_neg h]

/-- one criterion of the inline applier: the new value is `inlineValue` of the old value and the mean
    difference, and the reported difference is exactly new − old -/
theorem inlineStep_ok {b : Bounding α} {avg old : KMap α} {st st' : KMap α × KMap α} {cs : String × Scale α}
    (h : inlineStep b avg old st cs = .ok st') :
    ∃ difference value, avg.get? cs.1 = some difference ∧ old.get? cs.1 = some value ∧
      st'.1.get? cs.1 = some (inlineValue b cs.2.2 value difference) ∧
      st'.2.get? cs.1 = some (inlineValue b cs.2.2 value difference - value) ∧
      (∀ k, k ≠ cs.1 → st'.1.get? k = st.1.get? k ∧ st'.2.get? k = st.2.get? k) := by
  unfold inlineStep at h
  obtain ⟨difference, hd, h⟩ := bind_eq_ok.mp h
  obtain ⟨value, hv, h⟩ := bind_eq_ok.mp h
  simp [pure, Except.pure] at h
  subst h
  have fetch_get : ∀ {m : KMap α} {k : String} {x : α}, KMap.fetch m k = .ok x → m.get? k = some x := by
    intro m k x hx
    unfold KMap.fetch at hx
    split at hx
    · rename_i w hw; simp [pure, Except.pure] at hx; subst hx; exact hw
    · simp [throw, throwThe, MonadExceptOf.throw] at hx
  refine ⟨difference, value, fetch_get hd, fetch_get hv, KMap.get?_set_eq, KMap.get?_set_eq, ?_⟩
  intro k hk
  exact ⟨KMap.get?_set_ne hk, KMap.get?_set_ne hk⟩

end Rdm

namespace Rdm
set_option linter.unusedSectionVars false
variable {α : Type} [Num α]

/-- the loop of the inline applier over the criteria (distinct keys): untouched keys keep their entries,
    every criterion gets `inlineValue` and the reported difference new − old -/
theorem inlineLoop_ok {b : Bounding α} {avg old : KMap α} :
    ∀ {sc : KMap (Scale α)} {st st' : KMap α × KMap α},
      sc.foldlM (inlineStep b avg old) st = .ok st' → (sc.map (·.1)).Nodup →
      (∀ k, k ∉ sc.map (·.1) → st'.1.get? k = st.1.get? k ∧ st'.2.get? k = st.2.get? k) ∧
      (∀ cs ∈ sc, ∃ mean v, avg.get? cs.1 = some mean ∧ old.get? cs.1 = some v ∧
        st'.1.get? cs.1 = some (inlineValue b cs.2.2 v mean) ∧
        st'.2.get? cs.1 = some (inlineValue b cs.2.2 v mean - v)) := by
  intro sc
  induction sc with
  | nil =>
    intro st st' h _
    simp [List.foldlM, pure, Except.pure] at h
    subst h
    exact ⟨fun _ _ => ⟨rfl, rfl⟩, fun cs hcs => by simp at hcs⟩
  | cons c0 cs ih =>
    intro st st' h hnd
    rw [List.foldlM_cons] at h
    obtain ⟨mid, hmid, hrest⟩ := bind_eq_ok.mp h
    obtain ⟨m0, v0, e1, e2, e3, e4, e5⟩ := inlineStep_ok hmid
    have hnd' : (cs.map (·.1)).Nodup := by
      simp only [List.map_cons, List.nodup_cons] at hnd; exact hnd.2
    have hc0 : c0.1 ∉ cs.map (·.1) := by
      simp only [List.map_cons, List.nodup_cons] at hnd; exact hnd.1
    obtain ⟨i1, i2⟩ := ih hrest hnd'
    constructor
    · intro k hk
      simp only [List.map_cons, List.mem_cons, not_or] at hk
      obtain ⟨a1, a2⟩ := i1 k hk.2
      obtain ⟨b1, b2⟩ := e5 k hk.1
      exact ⟨by rw [a1, b1], by rw [a2, b2]⟩
    · intro x hx
      simp only [List.mem_cons] at hx
      rcases hx with rfl | hx
      · obtain ⟨a1, a2⟩ := i1 _ hc0
        exact ⟨m0, v0, e1, e2, by rw [a1, e3], by rw [a2, e4]⟩
      · exact i2 x hx

/-- the inline applier for one alternative: every criterion of the scaling (distinct ids) is shifted to
    `inlineValue` of its old value and the arithmetic mean of its mapped differences, and the reported
    applied difference is exactly new − old -/
theorem inlineOne_ok {b : Bounding α} {sc : KMap (Scale α)} {p : AltDiffs α} {a' d' : Alt α}
    (h : inlineOne b sc p = .ok (a', d')) (hnd : (sc.map (·.1)).Nodup) :
    a'.id = p.1.id ∧ d'.id = p.1.id ∧
    ∃ avg, arithmeticAverage p.2 = .ok avg ∧
      ∀ cs ∈ sc, ∃ mean v, avg.get? cs.1 = some mean ∧ p.1.vals.get? cs.1 = some v ∧
        a'.vals.get? cs.1 = some (inlineValue b cs.2.2 v mean) ∧
        d'.vals.get? cs.1 = some (inlineValue b cs.2.2 v mean - v) := by
  unfold inlineOne at h
  obtain ⟨avg, havg, h⟩ := bind_eq_ok.mp h
  obtain ⟨⟨nw, dif⟩, hloop, h⟩ := bind_eq_ok.mp h
  simp only [pure, Except.pure, Except.ok.injEq, Prod.mk.injEq] at h
  obtain ⟨rfl, rfl⟩ := h
  exact ⟨rfl, rfl, avg, havg, (inlineLoop_ok hloop hnd).2⟩

end Rdm

namespace Rdm
set_option linter.unusedSectionVars false
variable {α : Type} [Num α]

/-- creating the anchoring criterion of reference point number `ri`: one criterion appended, with the
    reference criterion's type and declared range, the generated name, and an id no criterion had -/
theorem ncNewCriterion_creates {ref : Crit α} {gens : List (Draws α)} {st st' : NCState α} {ri : Nat}
    {rp : String} (h : ncNewCriterion ref gens st ri rp = .ok st') (hlen : st.added.length = ri) :
    ∃ c : Crit α, st'.crits = st.crits ++ [c] ∧ c.type = ref.type ∧ c.range = ref.range ∧
      c.id = notUsedName (st.crits.map (·.id)) (anchoringCriterionPrefix ++ rp) ∧
      (∀ x ∈ st.crits, (x.id == c.id) = false) ∧
      ∃ a : AddedAnch α, st'.added = st.added ++ [a] ∧ a.id = c.id ∧ a.type = c.type := by
  unfold ncNewCriterion at h
  rw [if_pos (by simp [hlen])] at h
  split at h
  · simp [throw, throwThe, MonadExceptOf.throw] at h
  dsimp only at h
  obtain ⟨crits, hcr, h⟩ := bind_eq_ok.mp h
  obtain ⟨add, _, h⟩ := bind_eq_ok.mp h
  obtain ⟨mp, _, h⟩ := bind_eq_ok.mp h
  simp [pure, Except.pure] at h
  subst h
  obtain ⟨e1, e2⟩ := critsAdd_ok hcr
  exact ⟨_, e1, rfl, rfl, rfl, e2, _, rfl, rfl, rfl⟩

/-- an existing anchoring criterion is reused -/
theorem ncNewCriterion_reuses {ref : Crit α} {gens : List (Draws α)} {st st' : NCState α} {ri : Nat}
    {rp : String} (h : ncNewCriterion ref gens st ri rp = .ok st') (hlen : ri < st.added.length) : st' = st := by
  unfold ncNewCriterion at h
  have hne : ¬ (st.added.length == ri) = true := by simp; omega
  rw [if_neg hne, if_pos hlen] at h
  simpa [pure, Except.pure] using h.symm

end Rdm
