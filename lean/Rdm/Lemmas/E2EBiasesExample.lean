/-
  Concrete requests (over `Rat`) used by the `example`s beside the END-TO-END bias theorems of Props/C09 and
  Props/C15 … C19: in each of them TWO biases fire and the bias the theorem is about is NOT the first one
  (positions: 0 fires, 1 does not — probability ¼ against the draw ½ —, 2 fires).  `decide +kernel` evaluates
  the whole model on them.  `List.mergeSort` does not reduce in the kernel beyond singletons, so the requests
  that contain a bias which ranks criteria or sorts alternatives (concealment, mixing, newCriterion anchoring)
  have one criterion and one alternative; the others have two criteria and three known alternatives.
  Also: `e2ebReceived`, the state position `i` receives as a function of the request (for checking hypotheses
  about that state by evaluation).
-/
import Rdm.Lemmas.E2EExamples
import Rdm.Lemmas.E2EBiasesState
import Rdm.Lemmas.E2EBiasesParts
namespace Rdm
set_option linter.unusedSectionVars false

/-! ### the state a position receives, as a function -/

/-- the state the bias at position `i` receives: `prepare`, then the loop over the first `i` chosen biases -/
def e2ebReceived {α : Type} [Num α] (exp : α → α) (g : Int → Draws α) (req : Request α) (i : Nat) : R (DMP α) := do
  let pc ← prepare req
  let r ← processLoop (applyBias exp g) pc.1 (pc.2.take i) pc.1 (g req.biasSeed)
  pure r.1

theorem e2eb_fired_received {α : Type} [Num α] {exp : α → α} {g : Int → Draws α} {req : Request α}
    {resp : Response α} {params : DMP α} {chosen : List (Chosen α (BProps α))} {i : Nat}
    {b : Chosen α (BProps α)} {rep : Report α} {s s' : DMP α}
    (hf : E2EBFired exp g req resp params chosen i b rep s s') : e2ebReceived exp g req i = .ok s := by
  unfold e2ebReceived
  rw [hf.prepared]
  simp only [bind, Except.bind]
  rw [hf.before]
  rfl

/-- the `i`-th chosen bias of a request, as a function -/
def e2ebChosenAt {α : Type} [Num α] (req : Request α) (i : Nat) : Option (Chosen α (BProps α)) :=
  match prepare req with
  | .ok pc => pc.2[i]?
  | .error _ => none

theorem e2eb_fired_chosenAt {α : Type} [Num α] {exp : α → α} {g : Int → Draws α} {req : Request α}
    {resp : Response α} {params : DMP α} {chosen : List (Chosen α (BProps α))} {i : Nat}
    {b : Chosen α (BProps α)} {rep : Report α} {s s' : DMP α}
    (hf : E2EBFired exp g req resp params chosen i b rep s s') : e2ebChosenAt req i = some b := by
  unfold e2ebChosenAt
  rw [hf.prepared]
  exact hf.entry

/-- a decidable property of the state position `i` receives, checked by evaluation -/
def e2ebReceivedSat {α : Type} [Num α] (exp : α → α) (g : Int → Draws α) (req : Request α) (i : Nat)
    (k : DMP α → Bool) : Bool :=
  match e2ebReceived exp g req i with
  | .ok s => k s
  | .error _ => false

theorem e2eb_received_sat {α : Type} [Num α] {exp : α → α} {g : Int → Draws α} {req : Request α}
    {resp : Response α} {params : DMP α} {chosen : List (Chosen α (BProps α))} {i : Nat}
    {b : Chosen α (BProps α)} {rep : Report α} {s s' : DMP α}
    (hf : E2EBFired exp g req resp params chosen i b rep s s') {k : DMP α → Bool}
    (h : e2ebReceivedSat exp g req i k = true) : k s = true := by
  unfold e2ebReceivedSat at h
  rw [e2eb_fired_received hf] at h
  exact h

/-! ### reading a response -/

/-- the response exists, position `j` fired and position `i` fired with a report accepted by `k` -/
def e2ebFiredWith {α : Type} (r : R (Response α)) (j i : Nat) (k : Report α → Bool) : Bool :=
  match r with
  | .ok resp =>
    (match resp.biases[j]? with
     | some o => o.report.isSome
     | none => false) &&
    (match resp.biases[i]? with
     | some o => (match o.report with | some rep => k rep | none => false)
     | none => false)
  | .error _ => false

theorem e2eb_firedWith {α : Type} {r : R (Response α)} {j i : Nat} {k : Report α → Bool}
    (h : e2ebFiredWith r j i k = true) :
    ∃ resp name prob rep, r = .ok resp ∧ resp.biases[i]? = some ⟨name, prob, some rep⟩ ∧ k rep = true ∧
      ∃ n0 p0 r0, resp.biases[j]? = some ⟨n0, p0, some r0⟩ := by
  unfold e2ebFiredWith at h
  cases r with
  | error e => cases h
  | ok resp =>
    simp only [Bool.and_eq_true] at h
    obtain ⟨h1, h2⟩ := h
    cases hi : resp.biases[i]? with
    | none => rw [hi] at h2; cases h2
    | some o =>
      rw [hi] at h2
      obtain ⟨name, prob, rp⟩ := o
      cases rp with
      | none => cases h2
      | some rep =>
        refine ⟨resp, name, prob, rep, rfl, hi, h2, ?_⟩
        cases hj : resp.biases[j]? with
        | none => rw [hj] at h1; cases h1
        | some o0 =>
          rw [hj] at h1
          obtain ⟨n0, p0, r0⟩ := o0
          cases r0 with
          | none => cases h1
          | some r0 => exact ⟨n0, p0, r0, rfl⟩

def e2ebIsOmission {α : Type} : Report α → Bool | .omission _ => true | _ => false
def e2ebIsReversal {α : Type} : Report α → Bool | .reversal _ => true | _ => false
def e2ebIsFatigue {α : Type} : Report α → Bool | .fatigue _ => true | _ => false
def e2ebIsConceal {α : Type} : Report α → Bool | .conceal _ => true | _ => false
def e2ebIsMixing {α : Type} : Report α → Bool | .mixing (some _) => true | _ => false
def e2ebIsAnchoring {α : Type} : Report α → Bool | .anchoring _ => true | _ => false

/-- the Boolean form of `E2EBOnlyOmissions` -/
def e2ebOnlyOmissionsB {α : Type} (outs : List (BiasOut α (Report α))) : Bool :=
  outs.all fun x => match x.report with | some (.omission _) => true | none => true | _ => false

theorem e2eb_onlyOmissions_of_B {α : Type} {outs : List (BiasOut α (Report α))}
    (h : e2ebOnlyOmissionsB outs = true) : E2EBOnlyOmissions outs := by
  intro x hx rep hrep
  have := List.all_eq_true.mp h x hx
  rw [hrep] at this
  cases rep with
  | omission om => exact ⟨om, rfl⟩
  | _ => cases this

/-! ### the requests -/

def e2ebExKnown : List (Alt Rat) :=
  [⟨"a", [("c0", 1), ("c1", 2)]⟩, ⟨"b", [("c0", 3), ("c1", 1)]⟩, ⟨"d", [("c0", 0), ("c1", 4)]⟩]

def e2ebExFatigue : BiasReq Rat (BProps Rat) :=
  ⟨Facts.biasFatigue, false, none, .fatigue (.const (1 / 8)) ⟨-1, false⟩ 3⟩
/-- fatigue with ratio 0 and bounding off -/
def e2ebExFatigue0 : BiasReq Rat (BProps Rat) :=
  ⟨Facts.biasFatigue, false, none, .fatigue (.const 0) ⟨-1, false⟩ 3⟩
def e2ebExReversal : BiasReq Rat (BProps Rat) :=
  ⟨Facts.biasReversal, false, none, .split ⟨1 / 2, 0, maxInt64⟩ Facts.orderingRandom 7⟩
def e2ebExOmission : BiasReq Rat (BProps Rat) :=
  ⟨Facts.biasOmission, false, none, .split ⟨1 / 2, 0, maxInt64⟩ Facts.orderingRandom 7⟩
/-- an enabled entry that does not fire: probability ¼ against the activation draw ½ -/
def e2ebExSkipped : BiasReq Rat (BProps Rat) :=
  ⟨Facts.biasReversal, false, some (1 / 4), .split ⟨1 / 2, 0, maxInt64⟩ Facts.orderingRandom 7⟩
def e2ebExConceal : BiasReq Rat (BProps Rat) := ⟨Facts.biasConcealment, false, none, .flat {}⟩
def e2ebExMixing : BiasReq Rat (BProps Rat) := ⟨Facts.biasMixing, false, none, .flat {}⟩
def e2ebExAnchInline : BiasReq Rat (BProps Rat) :=
  ⟨Facts.biasAnchoring, false, none,
   .anch ⟨[("a", some 1)], false, ⟨"linear", {}⟩, ⟨"linear", {}⟩, Facts.anchoringNadir, ⟨Facts.anchoringInline, {}⟩⟩⟩
def e2ebExAnchNew : BiasReq Rat (BProps Rat) :=
  ⟨Facts.biasAnchoring, false, none,
   .anch ⟨[("a", some 1)], false, ⟨"linear", {}⟩, ⟨"linear", {}⟩, Facts.anchoringIdeal,
     ⟨Facts.anchoringNewCriterion, {}⟩⟩⟩

/-- seed 5: the activation draws; the other seeds: the biases' streams, every number ¼ -/
def e2ebExSeeds : Seeds Rat :=
  [(5, [1 / 4, 1 / 2, 1 / 4, 1 / 4]), (3, List.replicate 12 (1 / 4)), (7, [1 / 4, 1 / 4, 1 / 4]),
   (0, List.replicate 12 (1 / 4)), (1, List.replicate 12 (1 / 4)), (2, List.replicate 12 (1 / 4))]

/-- weighted sum, two criteria, three known alternatives of which two are considered -/
def e2ebExReq (bs : List (BiasReq Rat (BProps Rat))) : Request Rat :=
  { method := Facts.methodWeightedSum, crit := [e2eExC0, e2eExC1], known := e2ebExKnown,
    chosen := ["b", "a"], mp := some (.ws [⟨e2eExC0, 1⟩, ⟨e2eExC1, 2⟩]), biases := bs, biasSeed := 5 }

/-- weighted sum, three criteria, two known alternatives (both considered) -/
def e2ebExReq3 (bs : List (BiasReq Rat (BProps Rat))) : Request Rat :=
  { method := Facts.methodWeightedSum, crit := [e2eExC0, e2eExC1, ⟨"c2", "gain", none⟩],
    known := [⟨"a", [("c0", 1), ("c1", 2), ("c2", 3)]⟩, ⟨"b", [("c0", 3), ("c1", 1), ("c2", 0)]⟩],
    chosen := ["b", "a"], mp := some (.ws [⟨e2eExC0, 1⟩, ⟨e2eExC1, 2⟩, ⟨⟨"c2", "gain", none⟩, 1⟩]),
    biases := bs, biasSeed := 5 }

/-- weighted sum, one criterion, one alternative -/
def e2ebExReq1 (bs : List (BiasReq Rat (BProps Rat))) : Request Rat :=
  { method := Facts.methodWeightedSum, crit := [e2eExC0], known := [⟨"a", [("c0", 1)]⟩],
    chosen := ["a"], mp := some (.ws [⟨e2eExC0, 1⟩]), biases := bs, biasSeed := 5 }

/-- majority heuristic, one criterion, one alternative -/
def e2ebExReq1Maj (bs : List (BiasReq Rat (BProps Rat))) : Request Rat :=
  { e2ebExReq1 bs with method := Facts.methodMajority, mp := some (.majority [("c0", 1)] "" 11 false "") }

theorem e2eb_lookup_mem {κ β : Type} [BEq κ] [LawfulBEq κ] {k : κ} {v : β} :
    ∀ {m : List (κ × β)}, List.lookup k m = some v → (k, v) ∈ m := by
  intro m
  induction m with
  | nil => intro h; simp [List.lookup] at h
  | cons p ps ih =>
    intro h
    obtain ⟨k', v'⟩ := p
    rw [List.lookup_cons] at h
    by_cases hk : (k == k') = true
    · rw [hk] at h
      have := eq_of_beq hk
      subst this
      cases h
      exact List.mem_cons_self
    · have hk' : (k == k') = false := by simpa using hk
      rw [hk'] at h
      exact List.mem_cons_of_mem _ (ih h)

theorem e2eb_exSeeds_unit (k : Int) : ∀ u ∈ genOf e2ebExSeeds k, 0 ≤ u ∧ u < 1 := by
  have key : (e2ebExSeeds.all fun p => p.2.all fun u => decide (0 ≤ u ∧ u < 1)) = true := by decide +kernel
  intro u hu
  unfold genOf at hu
  cases hl : e2ebExSeeds.lookup k with
  | none => rw [hl] at hu; cases hu
  | some d =>
    rw [hl] at hu
    have hmem : (k, d) ∈ e2ebExSeeds := e2eb_lookup_mem hl
    have := List.all_eq_true.mp key _ hmem
    have := List.all_eq_true.mp this u hu
    simpa using this

end Rdm
