/-
  Map-order independence of loops (C02): a loop `for k, v := range m { state = f(state, k, v) }` gives the
  same state (up to an equivalence, here: equal lookups) for every listing of `m` when steps of different
  keys commute; instantiated for `PrepareCumulatedWeightsMap` (`cumulated`).
-/
import Rdm.Lemmas.MapOrderBasic
namespace Rdm
variable {α : Type} {β : Type}

/-! ### generic loop lemmas -/

/-- a `for … in l do s ← f s x` loop of the `do` notation is a `foldlM` -/
theorem forIn_yield_foldlM {σ γ : Type} (f : σ → γ → R σ) (g : γ → σ → R (ForInStep σ))
    (hg : ∀ x s, g x s = (f s x >>= fun s' => pure (ForInStep.yield s'))) :
    ∀ (l : List γ) (init : σ), forIn l init g = l.foldlM f init
  | [], init => rfl
  | x :: xs, init => by
    rw [List.forIn_cons, List.foldlM_cons, hg]
    cases f init x with
    | error e => rfl
    | ok s' => exact forIn_yield_foldlM f g hg xs s'

/-- a loop whose step respects an equivalence of states respects it as a whole -/
theorem foldlM_respects {σ γ : Type} (eqv : σ → σ → Prop) (f : σ → γ → R σ)
    (hresp : ∀ s₁ s₂ x, eqv s₁ s₂ → R.Agree eqv (f s₁ x) (f s₂ x)) :
    ∀ (l : List γ) (s₁ s₂ : σ), eqv s₁ s₂ → R.Agree eqv (l.foldlM f s₁) (l.foldlM f s₂)
  | [], s₁, s₂, h => h
  | x :: xs, s₁, s₂, h => by
    rw [List.foldlM_cons, List.foldlM_cons]
    exact R.Agree.bind (hresp s₁ s₂ x h) (fun a b hab => foldlM_respects eqv f hresp xs a b hab)

/-- **per-key loops**: when the steps of two entries that may occur together (`compat`, e.g. different
    keys) commute up to `eqv`, the loop gives equivalent states (and the same verdict) for every
    permutation of the entries -/
theorem foldlM_perm_agree {σ γ : Type} (eqv : σ → σ → Prop) (f : σ → γ → R σ) (compat : γ → γ → Prop)
    (hsymm : ∀ {x y}, compat x y → compat y x)
    (hrefl : ∀ s, eqv s s) (htrans : ∀ a b c, eqv a b → eqv b c → eqv a c)
    (hresp : ∀ s₁ s₂ x, eqv s₁ s₂ → R.Agree eqv (f s₁ x) (f s₂ x))
    (hcomm : ∀ s x y, compat x y → R.Agree eqv (f s x >>= (f · y)) (f s y >>= (f · x)))
    {l₁ l₂ : List γ} (h : l₁.Perm l₂) :
    l₁.Pairwise compat → ∀ s₁ s₂, eqv s₁ s₂ → R.Agree eqv (l₁.foldlM f s₁) (l₂.foldlM f s₂) := by
  induction h with
  | nil => intro _ s₁ s₂ hs; exact hs
  | cons x _ ih =>
    intro hp s₁ s₂ hs
    rw [List.foldlM_cons, List.foldlM_cons]
    exact R.Agree.bind (hresp s₁ s₂ x hs) (fun a b hab => ih (List.pairwise_cons.mp hp).2 a b hab)
  | swap x y l =>
    intro hp s₁ s₂ hs
    have hyx : compat y x := (List.pairwise_cons.mp hp).1 x (by simp)
    have e : ∀ (s : σ) (a b : γ), (f s a >>= fun i => f i b >>= fun j => l.foldlM f j)
        = ((f s a >>= (f · b)) >>= (l.foldlM f ·)) := fun s a b => (bind_assoc _ _ _).symm
    simp only [List.foldlM_cons]
    rw [e, e]
    refine R.Agree.bind (rel := eqv) ?_ (fun a b hab => foldlM_respects eqv f hresp l a b hab)
    refine R.Agree.trans htrans (hcomm s₁ y x hyx) ?_
    exact R.Agree.bind (hresp s₁ s₂ x hs) (fun a b hab => hresp a b y hab)
  | trans h₁ _ ih₁ ih₂ =>
    intro hp s₁ s₂ hs
    have hp₂ := (h₁.pairwise_iff hsymm).mp hp
    exact R.Agree.trans htrans (ih₁ hp s₁ s₂ hs) (ih₂ hp₂ s₂ s₂ (hrefl s₂))

/-- a loop over a slice whose elements are replaced by related ones -/
theorem foldlM_forall₂_agree {σ γ δ : Type} (eqv : σ → σ → Prop) (rel : γ → δ → Prop)
    (f : σ → γ → R σ) (g : σ → δ → R σ)
    (hstep : ∀ a b, rel a b → ∀ s₁ s₂, eqv s₁ s₂ → R.Agree eqv (f s₁ a) (g s₂ b)) :
    ∀ {l₁ : List γ} {l₂ : List δ}, List.Forall₂ rel l₁ l₂ → ∀ s₁ s₂, eqv s₁ s₂ →
      R.Agree eqv (l₁.foldlM f s₁) (l₂.foldlM g s₂)
  | _, _, .nil, _, _, hs => hs
  | _, _, .cons hab hrest, s₁, s₂, hs => by
    rw [List.foldlM_cons, List.foldlM_cons]
    exact R.Agree.bind (hstep _ _ hab s₁ s₂ hs) (fun a b h' => foldlM_forall₂_agree eqv rel f g hstep hrest a b h')

/-- distinct keys, as a pairwise statement about the entries -/
theorem pairwise_ne_of_distinct_keys {m : List (String × β)} (h : (m.map Prod.fst).Nodup) :
    m.Pairwise (fun x y => x.1 ≠ y.1) := by
  unfold List.Nodup at h
  exact List.pairwise_map.mp h

/-! ### `m[k] = v` -/

theorem lookup_map_set (k k' : String) (v : β) : ∀ m : List (String × β),
    List.lookup k' (m.map fun p => if p.1 == k then (k, v) else p) =
      if k' = k then (if m.any (fun p => p.1 == k) then some v else none) else List.lookup k' m
  | [] => by simp
  | (a, b) :: es => by
    rw [List.map_cons, List.any_cons]
    have ih := lookup_map_set k k' v es
    by_cases hak : a = k
    · subst hak
      simp only [beq_self_eq_true, if_true, Bool.true_or, List.lookup_cons]
      by_cases hk : k' = a
      · subst hk; simp
      · have hb : (k' == a) = false := by simpa using hk
        simp only [hb, hk, if_false]
        rw [ih]; simp [hk]
    · have hb : (a == k) = false := by simpa using hak
      simp only [hb, Bool.false_eq_true, if_false, Bool.false_or, List.lookup_cons]
      by_cases hk : k' = a
      · subst hk
        simp [hak]
      · have hb' : (k' == a) = false := by simpa using hk
        simp only [hb']
        exact ih

theorem lookup_append_singleton (k k' : String) (v : β) : ∀ m : List (String × β),
    List.lookup k' (m ++ [(k, v)]) = match List.lookup k' m with
      | some x => some x
      | none => if k' = k then some v else none
  | [] => by
    by_cases hk : k' = k
    · subst hk; simp
    · have hb : (k' == k) = false := by simpa using hk
      simp [List.lookup_cons, hb, hk]
  | (a, b) :: es => by
    rw [List.cons_append, List.lookup_cons, List.lookup_cons]
    cases hb : (k' == a)
    · exact lookup_append_singleton k k' v es
    · rfl

theorem lookup_none_of_not_any (k : String) : ∀ m : List (String × β),
    m.any (fun p => p.1 == k) = false → List.lookup k m = none
  | [], _ => rfl
  | (a, b) :: es, h => by
    rw [List.any_cons, Bool.or_eq_false_iff] at h
    have hne : (k == a) = false := by
      have := h.1
      simp only [beq_eq_false_iff_ne, ne_eq] at this ⊢
      exact fun e => this e.symm
    rw [List.lookup_cons, hne]
    exact lookup_none_of_not_any k es h.2

/-- Go's `m[k] = v` followed by `m[k']` -/
theorem KMap.get?_set (w : KMap β) (k k' : String) (v : β) :
    (w.set k v).get? k' = if k' = k then some v else w.get? k' := by
  unfold KMap.set KMap.get?
  split
  · rename_i hany
    rw [lookup_map_set, hany]; simp
  · rename_i hany
    have hany' : w.any (fun p => p.1 == k) = false := Bool.eq_false_iff.mpr hany
    rw [lookup_append_singleton]
    by_cases hk : k' = k
    · subst hk
      rw [lookup_none_of_not_any k' w hany']
    · simp only [hk, if_false]
      cases List.lookup k' w <;> rfl

/-! ### `PrepareCumulatedWeightsMap` -/

variable [Num α]

/-- `weights[crit] = mapper(…)` or `weights[crit] = w + mapper(…)` -/
def cumUpd (w : KMap α) (k : String) (m : α) : KMap α :=
  match w.get? k with
  | none => w.set k m
  | some old => w.set k (old + m)

def cumStep (mapper : String → α → R α) (w : KMap α) (x : String × α) : R (KMap α) := do
  let m ← mapper x.1 x.2
  pure (cumUpd w x.1 m)

/-- the inner loop: one alternative's value map -/
def cumAlt (mapper : String → α → R α) (w : KMap α) (a : Alt α) : R (KMap α) :=
  a.vals.foldlM (cumStep mapper) w

theorem cumulated_eq_foldlM (cs : List (Crit α)) (co : List (Alt α)) (mapper : String → α → R α) :
    cumulated cs co mapper = co.foldlM (cumAlt mapper) (cs.map fun c => (c.id, Num.zero)) := by
  unfold cumulated
  dsimp only
  rw [forIn_yield_foldlM (cumAlt mapper)]
  · cases co.foldlM (cumAlt mapper) (cs.map fun c => (c.id, Num.zero)) <;> rfl
  · intro a s
    unfold cumAlt
    rw [forIn_yield_foldlM (cumStep mapper)]
    · intro x w
      unfold cumStep cumUpd
      cases mapper x.1 x.2 with
      | error e => rfl
      | ok m => cases w.get? x.1 <;> rfl

theorem cumUpd_get? (w : KMap α) (k k' : String) (m : α) :
    (cumUpd w k m).get? k' =
      if k' = k then some (match w.get? k with | none => m | some old => old + m) else w.get? k' := by
  unfold cumUpd
  cases h : w.get? k <;> simp only [KMap.get?_set]

theorem cumUpd_respects {w₁ w₂ : KMap α} (h : KMap.LookupEq w₁ w₂) (k : String) (m : α) :
    KMap.LookupEq (cumUpd w₁ k m) (cumUpd w₂ k m) := by
  intro k'
  rw [cumUpd_get?, cumUpd_get?, h k, h k']

theorem cumUpd_comm (w : KMap α) {k₁ k₂ : String} (hne : k₁ ≠ k₂) (m₁ m₂ : α) :
    KMap.LookupEq (cumUpd (cumUpd w k₁ m₁) k₂ m₂) (cumUpd (cumUpd w k₂ m₂) k₁ m₁) := by
  intro k'
  simp only [cumUpd_get?, hne, hne.symm, if_false]
  by_cases h1 : k' = k₁
  · subst h1; simp [hne]
  · by_cases h2 : k' = k₂
    · subst h2; simp [h1]
    · simp [h1, h2]

theorem cumStep_respects (mapper : String → α → R α) (w₁ w₂ : KMap α) (x : String × α)
    (h : KMap.LookupEq w₁ w₂) : R.Agree KMap.LookupEq (cumStep mapper w₁ x) (cumStep mapper w₂ x) := by
  unfold cumStep
  cases mapper x.1 x.2 with
  | error e => trivial
  | ok m => exact cumUpd_respects h x.1 m

theorem cumStep_comm (mapper : String → α → R α) (w : KMap α) (x y : String × α) (hne : x.1 ≠ y.1) :
    R.Agree KMap.LookupEq (cumStep mapper w x >>= (cumStep mapper · y))
      (cumStep mapper w y >>= (cumStep mapper · x)) := by
  unfold cumStep
  cases hx : mapper x.1 x.2 with
  | error e =>
    cases hy : mapper y.1 y.2 with
    | error e' => trivial
    | ok my => simp only [bind, Except.bind, pure, Except.pure]; trivial
  | ok mx =>
    cases hy : mapper y.1 y.2 with
    | error e' => simp only [bind, Except.bind, pure, Except.pure]; trivial
    | ok my =>
      simp only [bind, Except.bind, pure, Except.pure]
      exact cumUpd_comm w hne mx my

/-- the inner loop of `PrepareCumulatedWeightsMap` does not depend on the listing of the alternative's map -/
theorem cumAlt_perm (mapper : String → α → R α) {a a' : Alt α} (h : a.vals.Perm a'.vals)
    (hk : (a.vals.map Prod.fst).Nodup) (w₁ w₂ : KMap α) (hw : KMap.LookupEq w₁ w₂) :
    R.Agree KMap.LookupEq (cumAlt mapper w₁ a) (cumAlt mapper w₂ a') := by
  unfold cumAlt
  exact foldlM_perm_agree KMap.LookupEq (cumStep mapper) (fun x y => x.1 ≠ y.1)
    (fun h => h.symm) KMap.LookupEq.refl (fun _ _ _ => KMap.LookupEq.trans)
    (cumStep_respects mapper) (cumStep_comm mapper) h (pairwise_ne_of_distinct_keys hk) w₁ w₂ hw

/-- `PrepareCumulatedWeightsMap`: per-key accumulation happens in the order of the alternatives (a slice),
    not of their maps -/
theorem cumulated_perm (cs : List (Crit α)) (mapper : String → α → R α) {co co' : List (Alt α)}
    (h : List.Forall₂ (fun a a' : Alt α => a.vals.Perm a'.vals ∧ (a.vals.map Prod.fst).Nodup) co co') :
    R.Agree KMap.LookupEq (cumulated cs co mapper) (cumulated cs co' mapper) := by
  rw [cumulated_eq_foldlM, cumulated_eq_foldlM]
  exact foldlM_forall₂_agree KMap.LookupEq _ (cumAlt mapper) (cumAlt mapper)
    (fun a b hab s₁ s₂ hs => cumAlt_perm mapper hab.1 hab.2 s₁ s₂ hs) h _ _ (KMap.LookupEq.refl _)

end Rdm
