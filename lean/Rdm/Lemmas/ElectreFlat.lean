/-
  Flat-array toolkit for the ELECTRE III matrix model (generic in the number type, core Lean only): a square
  matrix is the row-major table of its entries, `Filter` acts entry-wise, and `MatchesInRow` / `MatchesInColumn`
  (which scan the flat array with `i / Size`, `i % Size`) count the entries of one row / one column.
-/
import Rdm.Lemmas.ElectreClasses
namespace Rdm
set_option linter.unusedSectionVars false

variable {α : Type} [Num α]

/-- the matrix with entries `g r c` on `k` rows and columns -/
def tabulate (k : Nat) (g : Nat → Nat → α) : List α :=
  (List.range k).flatMap fun r => (List.range k).map fun c => g r c

omit [Num α] in
theorem tabulate_length (k : Nat) (g : Nat → Nat → α) : (tabulate k g).length = k * k := by
  unfold tabulate
  have : ∀ l : List Nat, (l.flatMap fun r => (List.range k).map fun c => g r c).length = l.length * k := by
    intro l
    induction l with
    | nil => simp
    | cons r rs ih => rw [List.flatMap_cons, List.length_append, ih]; simp [Nat.succ_mul]; omega
  rw [this]; simp

theorem tabulate_getD (k : Nat) (g : Nat → Nat → α) (r c : Nat) (hr : r < k) (hc : c < k) :
    (tabulate k g).getD (r * k + c) Num.zero = g r c := by
  unfold tabulate
  rw [getD_flatMap_uniform (fun r => (List.range k).map fun c => g r c) k Num.zero (List.range k)
    (fun r _ => by simp) r c (by simpa using hr) hc]
  simp [List.getD_eq_getElem?_getD, hc]

/-- a square matrix is the table of its entries -/
theorem data_eq_tabulate (m : Matrix α) (h : m.data.length = m.size * m.size) :
    m.data = tabulate m.size fun r c => m.at r c := by
  apply List.ext_getElem
  · rw [h, tabulate_length]
  · intro i h1 h2
    have hk : 0 < m.size := by
      rcases Nat.eq_zero_or_pos m.size with h0 | h0
      · rw [h, h0] at h1; simp at h1
      · exact h0
    have hr : i / m.size < m.size := by
      rw [h] at h1
      exact Nat.div_lt_of_lt_mul h1
    have hc : i % m.size < m.size := Nat.mod_lt _ hk
    have hi : i / m.size * m.size + i % m.size = i := by
      rw [Nat.mul_comm]; exact Nat.div_add_mod i m.size
    have := tabulate_getD m.size (fun r c => m.at r c) (i / m.size) (i % m.size) hr hc
    rw [hi, List.getD_eq_getElem?_getD, List.getElem?_eq_getElem h2] at this
    simp only [Option.getD_some] at this
    rw [this]
    unfold Matrix.at
    rw [hi, List.getD_eq_getElem?_getD, List.getElem?_eq_getElem h1]
    rfl

theorem filter_at (m : Matrix α) (h : m.data.length = m.size * m.size) (f : Nat → Nat → α → Bool)
    (r c : Nat) (hr : r < m.size) (hc : c < m.size) :
    (m.filter f).at r c = if f r c (m.at r c) then m.at r c else Num.zero := by
  have hk : 0 < m.size := by omega
  have hidx : r * m.size + c < m.data.length := by
    rw [h]
    calc r * m.size + c < r * m.size + m.size := by omega
      _ = (r + 1) * m.size := by rw [Nat.succ_mul]
      _ ≤ m.size * m.size := Nat.mul_le_mul_right _ hr
  have hdiv : (r * m.size + c) / m.size = r := by
    rw [Nat.mul_comm, Nat.mul_add_div hk, Nat.div_eq_of_lt hc]; simp
  have hmod : (r * m.size + c) % m.size = c := by
    rw [Nat.mul_comm, Nat.mul_add_mod]; exact Nat.mod_eq_of_lt hc
  simp only [Matrix.filter, Matrix.at, List.getD_eq_getElem?_getD]
  rw [List.getElem?_mapIdx, List.getElem?_eq_getElem hidx]
  simp [hdiv, hmod]

omit [Num α] in
theorem filter_length (m : Matrix α) [Num α] (f : Nat → Nat → α → Bool) :
    (m.filter f).data.length = m.data.length := by
  simp [Matrix.filter]

omit [Num α] in
theorem zipIdx_map_range (k off : Nat) (f : Nat → α) :
    ((List.range k).map f).zipIdx off = (List.range k).map fun c => (f c, off + c) := by
  apply List.ext_getElem
  · simp
  · intro i h1 h2
    simp

theorem filter_eq_single (k g : Nat) (P : Nat → Bool) :
    ((List.range k).filter fun c => c == g && P c).length = if g < k ∧ P g = true then 1 else 0 := by
  induction k with
  | zero => simp
  | succ k ih =>
    rw [List.range_succ, List.filter_append, List.length_append, ih]
    by_cases hg : g = k
    · subst hg
      by_cases hp : P g = true <;> simp [hp]
    · have : (k == g) = false := by simpa using fun h => hg h.symm
      by_cases hlt : g < k
      · by_cases hp : P g = true <;> simp [this, hlt, hp, Nat.lt_succ_of_lt hlt]
      · have h1 : ¬ g < k + 1 := by omega
        simp [this, hlt, h1]

/-- one row block of the table, scanned with its flat indices: row group -/
theorem block_row_count (k s g : Nat) (hk : 0 < k) (G : Nat → α) (pred : α → Bool) :
    ((((List.range k).map G).zipIdx (s * k)).filter fun p => p.2 / k == g && pred p.1).length
      = if s = g then ((List.range k).filter fun c => pred (G c)).length else 0 := by
  rw [zipIdx_map_range, List.filter_map, List.length_map]
  have hc : ∀ c ∈ List.range k, ((fun p : α × Nat => p.2 / k == g && pred p.1) ∘ fun c => (G c, s * k + c)) c
      = (s == g && pred (G c)) := by
    intro c hc
    simp only [List.mem_range] at hc
    have : (s * k + c) / k = s := by
      rw [Nat.mul_comm, Nat.mul_add_div hk, Nat.div_eq_of_lt hc]; simp
    simp [this]
  rw [List.filter_congr hc]
  by_cases hsg : s = g <;> simp [hsg]

/-- one row block of the table, scanned with its flat indices: column group -/
theorem block_col_count (k s g : Nat) (G : Nat → α) (pred : α → Bool) :
    ((((List.range k).map G).zipIdx (s * k)).filter fun p => p.2 % k == g && pred p.1).length
      = if g < k ∧ pred (G g) = true then 1 else 0 := by
  rw [zipIdx_map_range, List.filter_map, List.length_map]
  have hc : ∀ c ∈ List.range k, ((fun p : α × Nat => p.2 % k == g && pred p.1) ∘ fun c => (G c, s * k + c)) c
      = (c == g && pred (G c)) := by
    intro c hc
    simp only [List.mem_range] at hc
    have : (s * k + c) % k = c := by
      rw [Nat.mul_comm, Nat.mul_add_mod]; exact Nat.mod_eq_of_lt hc
    simp [this]
  rw [List.filter_congr hc]
  exact filter_eq_single k g fun c => pred (G c)

/-- rows `s, …, s+n-1` of the table scanned with flat indices starting at `s * k`: row group -/
theorem rows_row_count (k g : Nat) (hk : 0 < k) (G : Nat → Nat → α) (pred : α → Bool) (n s : Nat) :
    ((((List.range' s n).flatMap fun r => (List.range k).map (G r)).zipIdx (s * k)).filter
        fun p => p.2 / k == g && pred p.1).length
      = if s ≤ g ∧ g < s + n then ((List.range k).filter fun c => pred (G g c)).length else 0 := by
  induction n generalizing s with
  | zero =>
    have : ¬(s ≤ g ∧ g < s + 0) := by omega
    rw [if_neg this]; simp
  | succ n ih =>
    rw [List.range'_succ, List.flatMap_cons, List.zipIdx_append, List.filter_append, List.length_append,
      block_row_count k s g hk (G s) pred]
    have hoff : s * k + ((List.range k).map (G s)).length = (s + 1) * k := by
      simp [Nat.succ_mul]
    rw [hoff, ih (s + 1)]
    by_cases hsg : s = g
    · subst hsg
      have h1 : ¬(s + 1 ≤ s ∧ s < s + 1 + n) := by omega
      have h2 : s ≤ s ∧ s < s + (n + 1) := by omega
      simp [h1, h2]
    · by_cases h1 : s + 1 ≤ g ∧ g < s + 1 + n
      · have h2 : s ≤ g ∧ g < s + (n + 1) := by omega
        simp [hsg, h1, h2]
      · have h2 : ¬(s ≤ g ∧ g < s + (n + 1)) := by omega
        simp [hsg, h1, h2]

/-- … column group -/
theorem rows_col_count (k g : Nat) (hg : g < k) (G : Nat → Nat → α) (pred : α → Bool) (n s : Nat) :
    ((((List.range' s n).flatMap fun r => (List.range k).map (G r)).zipIdx (s * k)).filter
        fun p => p.2 % k == g && pred p.1).length
      = ((List.range' s n).filter fun r => pred (G r g)).length := by
  induction n generalizing s with
  | zero => simp
  | succ n ih =>
    rw [List.range'_succ, List.flatMap_cons, List.zipIdx_append, List.filter_append, List.length_append,
      block_col_count k s g (G s) pred]
    have hoff : s * k + ((List.range k).map (G s)).length = (s + 1) * k := by
      simp [Nat.succ_mul]
    rw [hoff, ih (s + 1), List.filter_cons]
    by_cases hp : pred (G s g) = true
    · simp [hp, hg]; omega
    · simp [hp]

/-- `MatchesInRow` / `MatchesInColumn` in terms of the entries -/
theorem matchCount_row (m : Matrix α) (h : m.data.length = m.size * m.size) (pred : α → Bool) (g : Nat)
    (hg : g < m.size) :
    m.matchCount true pred g = ((List.range m.size).filter fun c => pred (m.at g c)).length := by
  unfold Matrix.matchCount
  rw [data_eq_tabulate m h]
  unfold tabulate
  have := rows_row_count m.size g (by omega) (fun r c => m.at r c) pred m.size 0
  simp only [Nat.zero_mul, Nat.zero_add, Nat.zero_le, hg, and_self, if_true] at this
  simpa [List.range_eq_range'] using this

theorem matchCount_col (m : Matrix α) (h : m.data.length = m.size * m.size) (pred : α → Bool) (g : Nat)
    (hg : g < m.size) :
    m.matchCount false pred g = ((List.range m.size).filter fun r => pred (m.at r g)).length := by
  unfold Matrix.matchCount
  rw [data_eq_tabulate m h]
  unfold tabulate
  have := rows_col_count m.size g hg (fun r c => m.at r c) pred m.size 0
  simpa [List.range_eq_range'] using this

end Rdm
