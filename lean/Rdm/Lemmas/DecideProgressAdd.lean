/-
  Lemmas for the end-to-end model, part 11 (progress of the criterion-adding biases as FIRST state-changing bias,
  for the five methods whose listener admits an addition):
    * `OnCriterionAdded` + `Merge` are total for a fresh criterion id and a current reference criterion;
    * the reference-criterion providers are total (numbers in [0,1));
    * criteria concealment is total under its props' validity conditions.
-/
import Rdm.Lemmas.DecideProgressLoop
import Rdm.Lemmas.BiasBRef
import Rdm.Lemmas.BiasBNames
import Rdm.Lemmas.BiasBConceal
namespace Rdm
set_option linter.unusedSimpArgs false
set_option linter.unusedSectionVars false

/-! ### generic: a `for … in` loop that never fails -/

theorem prog_forIn_total {σ γ : Type} {f : γ → σ → R (ForInStep σ)} (P : List γ → σ → Prop)
    (hstep : ∀ x xs s, P (x :: xs) s → ∃ s', f x s = .ok (.yield s') ∧ P xs s') :
    ∀ (l : List γ) (s : σ), P l s → ∃ s', forIn l s f = .ok s' ∧ P [] s' := by
  intro l
  induction l with
  | nil => intro s h; exact ⟨s, rfl, h⟩
  | cons x xs ih =>
    intro s h
    obtain ⟨s1, h1, hp1⟩ := hstep x xs s h
    obtain ⟨s', h', hp'⟩ := ih s1 hp1
    exact ⟨s', by rw [List.forIn_cons, h1]; exact h', hp'⟩

section
variable {α : Type} [Num α]

/-! ### `OnCriterionAdded` + `Merge` -/

/-- number of levels of an explicit-thresholds source (0 for a coefficient source) -/
def prog_levelsCount : Levels α → Nat
  | .coef _ _ _ => 0
  | .thresholds ts => ts.length

/-- numbers `OnCriterionAdded` of the listener draws -/
def prog_listenerDraws : MParams α → Nat
  | .aspect _ lv _ _ _ => 1 + prog_levelsCount lv
  | .satisf _ lv _ _ _ => prog_levelsCount lv
  | _ => 1

def prog_levelsFresh (lv : Levels α) (k : String) : Bool :=
  match lv with
  | .coef _ _ _ => true
  | .thresholds ts => ts.all fun t => !t.has k

/-- the parameters do not name `k` yet (`Weights.Merge` panics on a key both sides have) -/
def prog_paramsFresh (mp : MParams α) (k : String) : Bool :=
  match mp with
  | .electre ec _ => !ec.has k
  | .majority w _ _ _ _ => !w.has k
  | .aspect _ lv _ w _ => !w.has k && prog_levelsFresh lv k
  | .satisf _ lv _ _ _ => prog_levelsFresh lv k
  | _ => true

theorem prog_sortNums_length (l : List α) : (sortNums l).length = l.length := by
  unfold sortNums; exact List.length_mergeSort _

theorem prog_levelsOnAdded_total {asc : Bool} {lv : Levels α} {crit ref : Crit α} {d : Draws α}
    (hts : ∀ ts, lv = .thresholds ts → ∀ t ∈ ts, t.has ref.id = true) (hd : prog_levelsCount lv ≤ d.length) :
    ∃ la d', levelsOnAdded asc lv crit ref d = .ok (la, d') ∧
      ∀ ts, lv = .thresholds ts →
        ∃ us, la = .thresholds us ∧ us.length = ts.length ∧ ∀ u ∈ us, ∃ v, u = [(crit.id, v)] := by
  unfold levelsOnAdded
  cases lv with
  | coef a b c => exact ⟨.none, d, rfl, fun ts h => by cases h⟩
  | thresholds ts =>
    dsimp only
    obtain ⟨s', hs', hp'⟩ := prog_forIn_total (σ := Draws α × List α)
      (f := fun (t : KMap α) (__s : Draws α × List α) => (do
            let base ← KMap.fetch t ref.id
            let __x ← draw __s.1
            pure (ForInStep.yield (__x.2, __s.2 ++ [base * __x.1])) : R (ForInStep (Draws α × List α))))
      (fun l s => l.length ≤ s.1.length ∧ (∀ t ∈ l, t.has ref.id = true) ∧ s.2.length + l.length = ts.length)
      (by
        intro t rest s hP
        obtain ⟨base, hb⟩ := decideFetch_total (hP.2.1 t (by simp))
        obtain ⟨u, d1, hu, hl⟩ := decideDraw_total (d := s.1) (by have := hP.1; simp at this; omega)
        refine ⟨(d1, s.2 ++ [base * u]), by simp only [hb, hu, bind, Except.bind, pure, Except.pure], ?_, ?_, ?_⟩
        · have := hP.1; simp at this ⊢; omega
        · exact fun t' ht' => hP.2.1 t' (List.mem_cons_of_mem _ ht')
        · have := hP.2.2; simp at this ⊢; omega)
      ts (d, []) ⟨hd, hts ts rfl, by simp⟩
    refine ⟨_, s'.1, by rw [hs']; rfl, ?_⟩
    intro ts' hts'
    cases hts'
    refine ⟨_, rfl, ?_, ?_⟩
    · have := hp'.2.2
      simp only [List.length_nil, Nat.add_zero] at this
      rw [List.length_map]
      split
      · rw [prog_sortNums_length]; exact this
      · rw [List.length_reverse, prog_sortNums_length]; exact this
    · intro u hu
      obtain ⟨v, _, rfl⟩ := List.mem_map.mp hu
      exact ⟨v, rfl⟩

theorem prog_mergeDisjoint_total {β : Type} {m : KMap β} {k : String} {v : β} (h : m.has k = false) :
    KMap.mergeDisjoint m [(k, v)] = .ok (m ++ [(k, v)]) := by
  unfold KMap.mergeDisjoint
  simp only [List.any_cons, List.any_nil, Bool.or_false, h, Bool.false_eq_true, if_false]
  rfl

theorem prog_levelsMerge_total {lv : Levels α} {la : LvAdd α} {k : String}
    (hla : ∀ ts, lv = .thresholds ts → ∃ us, la = .thresholds us ∧ us.length = ts.length ∧ ∀ u ∈ us, ∃ v, u = [(k, v)])
    (hfresh : prog_levelsFresh lv k = true) : ∃ lv', levelsMerge lv la = .ok lv' := by
  cases lv with
  | coef a b c => exact ⟨_, rfl⟩
  | thresholds ts =>
    obtain ⟨us, rfl, hlen, hus⟩ := hla ts rfl
    unfold prog_levelsFresh at hfresh
    simp only [List.all_eq_true, Bool.not_eq_true'] at hfresh
    unfold levelsMerge
    have hlt : ¬ us.length < ts.length := by omega
    simp only [hlt, if_false]
    obtain ⟨merged, hm⟩ := decideMapM_total (ε := String)
      (f := fun p : KMap α × KMap α => KMap.mergeDisjoint p.1 p.2) (l := ts.zip us) (by
        intro p hp
        obtain ⟨v, hv⟩ := hus p.2 (List.of_mem_zip hp).2
        rw [hv]
        exact ⟨_, prog_mergeDisjoint_total (hfresh p.1 (List.of_mem_zip hp).1)⟩)
    exact ⟨.thresholds merged, by rw [hm]; rfl⟩

/-- for the five admitting methods: a current reference criterion, a criterion id the parameters do not name yet,
    a known levels function and enough numbers — `OnCriterionAdded` returns something `Merge` accepts -/
theorem prog_addition_total {mp : MParams α} {crit : List (Crit α)} {newC ref : Crit α} {gen : Draws α}
    (hcov : Spec.C07.covers crit mp = true) (hadm : admitsAdditions mp = true)
    (hk : listenerKnowsLevels mp = true) (href : ref ∈ crit) (hfresh : prog_paramsFresh mp newC.id = true)
    (hgen : prog_listenerDraws mp ≤ gen.length) :
    ∃ add gen' mp', onAdded mp newC ref gen = .ok (add, gen') ∧ mergeParams mp add = .ok mp' := by
  cases mp with
  | owa wc => simp [admitsAdditions] at hadm
  | choquet w cs => simp [admitsAdditions] at hadm
  | ws wc =>
    simp only [Spec.C07.covers, List.all_eq_true, List.any_eq_true] at hcov
    obtain ⟨r, hr⟩ := decideFindWCrit_total (hcov ref href)
    obtain ⟨u, d1, hu, _⟩ := decideDraw_total (d := gen) (by simp [prog_listenerDraws] at hgen; omega)
    exact ⟨.ws [⟨newC, u * r.w⟩], d1, _, by simp only [onAdded, hr, hu, bind, Except.bind, pure, Except.pure], rfl⟩
  | electre ec dist =>
    obtain ⟨u, d1, hu, _⟩ := decideDraw_total (d := gen) (by simp [prog_listenerDraws] at hgen; omega)
    simp only [prog_paramsFresh, Bool.not_eq_true'] at hfresh
    obtain ⟨e, hadd⟩ : ∃ e, onAdded (.electre ec dist) newC ref gen = .ok (.electre [(newC.id, e)], d1) :=
      ⟨_, by simp only [onAdded, hu, bind, Except.bind, pure, Except.pure]; rfl⟩
    exact ⟨_, d1, .electre (ec ++ [(newC.id, e)]) dist, hadd, by
      simp only [mergeParams, prog_mergeDisjoint_total hfresh, bind, Except.bind, pure, Except.pure]⟩
  | majority w cur seed rnd dr =>
    obtain ⟨u, d1, hu, _⟩ := decideDraw_total (d := gen) (by simp [prog_listenerDraws] at hgen; omega)
    simp only [prog_paramsFresh, Bool.not_eq_true'] at hfresh
    obtain ⟨v, hadd⟩ : ∃ v, onAdded (.majority w cur seed rnd dr) newC ref gen =
        .ok (.weightType [(newC.id, v)], d1) :=
      ⟨_, by simp only [onAdded, hu, bind, Except.bind, pure, Except.pure]; rfl⟩
    exact ⟨_, d1, .majority (w ++ [(newC.id, v)]) cur seed rnd dr, hadd, by
      simp only [mergeParams, prog_mergeDisjoint_total hfresh, bind, Except.bind, pure, Except.pure]⟩
  | aspect fn lv seed w rnd =>
    simp only [prog_listenerDraws] at hgen
    obtain ⟨u, d1, hu, hl1⟩ := decideDraw_total (d := gen) (by omega)
    simp only [prog_paramsFresh, Bool.and_eq_true, Bool.not_eq_true'] at hfresh
    simp only [listenerKnowsLevels] at hk
    simp only [Spec.C07.covers, Bool.and_eq_true, List.all_eq_true] at hcov
    obtain ⟨la, d2, hla, hshape⟩ := prog_levelsOnAdded_total (asc := true) (lv := lv) (crit := newC) (ref := ref)
      (d := d1) (by
        intro ts hts t ht
        rw [hts] at hcov
        have := hcov.2
        simp only [List.all_eq_true] at this
        exact this t ht ref href) (by omega)
    obtain ⟨lv', hlv'⟩ := prog_levelsMerge_total (k := newC.id) hshape hfresh.2
    refine ⟨.aspect [(newC.id, u * (w.get? ref.id).getD Num.zero)] la, d2,
      .aspect fn lv' seed (w ++ [(newC.id, u * (w.get? ref.id).getD Num.zero)]) rnd, ?_, ?_⟩
    · simp only [onAdded, hu, hk, hla, bind, Except.bind, pure, Except.pure, Bool.not_true, Bool.false_eq_true,
        if_false]
    · simp only [mergeParams, hk, hlv', prog_mergeDisjoint_total hfresh.1, bind, Except.bind, pure, Except.pure,
        Bool.not_true, Bool.false_eq_true, if_false]
  | satisf fn lv seed cur rnd =>
    simp only [prog_listenerDraws] at hgen
    simp only [prog_paramsFresh] at hfresh
    simp only [listenerKnowsLevels] at hk
    simp only [Spec.C07.covers] at hcov
    obtain ⟨la, d2, hla, hshape⟩ := prog_levelsOnAdded_total (asc := false) (lv := lv) (crit := newC) (ref := ref)
      (d := gen) (by
        intro ts hts t ht
        rw [hts] at hcov
        simp only [List.all_eq_true] at hcov
        exact hcov t ht ref href) hgen
    obtain ⟨lv', hlv'⟩ := prog_levelsMerge_total (k := newC.id) hshape hfresh
    refine ⟨.satisf la, d2, .satisf fn lv' seed cur rnd, ?_, ?_⟩
    · simp only [onAdded, hk, hla, bind, Except.bind, pure, Except.pure, Bool.not_true, Bool.false_eq_true, if_false]
    · simp only [mergeParams, hk, hlv', bind, Except.bind, pure, Except.pure, Bool.not_true, Bool.false_eq_true,
        if_false]

/-! ### parameters that name current criteria only -/

def prog_levelsDeclared (lv : Levels α) (crit : List (Crit α)) : Bool :=
  match lv with
  | .coef _ _ _ => true
  | .thresholds ts => ts.all fun t => t.all fun p => crit.any (·.id == p.1)

/-- the maps of the parameters are keyed by ids of current criteria only (then no fresh criterion id collides
    with them in `Merge`) -/
def prog_paramsDeclared (mp : MParams α) (crit : List (Crit α)) : Bool :=
  match mp with
  | .electre ec _ => ec.all fun p => crit.any (·.id == p.1)
  | .majority w _ _ _ _ => w.all fun p => crit.any (·.id == p.1)
  | .aspect _ lv _ w _ => (w.all fun p => crit.any (·.id == p.1)) && prog_levelsDeclared lv crit
  | .satisf _ lv _ _ _ => prog_levelsDeclared lv crit
  | _ => true

theorem prog_has_false_of_declared {β : Type} {m : KMap β} {crit : List (Crit α)} {k : String}
    (h : (m.all fun p => crit.any (·.id == p.1)) = true) (hk : k ∉ crit.map (·.id)) : m.has k = false := by
  cases hh : m.has k with
  | false => rfl
  | true =>
    rw [KMap.has_iff_mem_keys] at hh
    obtain ⟨p, hp, rfl⟩ := List.mem_map.mp hh
    simp only [List.all_eq_true, List.any_eq_true, beq_iff_eq] at h
    obtain ⟨c, hc, e⟩ := h p hp
    exact absurd (List.mem_map.mpr ⟨c, hc, e⟩) hk

theorem prog_levelsFresh_of_declared {lv : Levels α} {crit : List (Crit α)} {k : String}
    (h : prog_levelsDeclared lv crit = true) (hk : k ∉ crit.map (·.id)) : prog_levelsFresh lv k = true := by
  cases lv with
  | coef _ _ _ => rfl
  | thresholds ts =>
    simp only [prog_levelsDeclared, List.all_eq_true] at h
    simp only [prog_levelsFresh, List.all_eq_true, Bool.not_eq_true']
    intro t ht
    exact prog_has_false_of_declared (by simp only [List.all_eq_true]; exact h t ht) hk

theorem prog_paramsFresh_of_declared {mp : MParams α} {crit : List (Crit α)} {k : String}
    (h : prog_paramsDeclared mp crit = true) (hk : k ∉ crit.map (·.id)) : prog_paramsFresh mp k = true := by
  cases mp with
  | electre ec dist =>
    simp only [prog_paramsDeclared] at h
    simp only [prog_paramsFresh, Bool.not_eq_true']
    exact prog_has_false_of_declared h hk
  | majority w cur seed rnd dr =>
    simp only [prog_paramsDeclared] at h
    simp only [prog_paramsFresh, Bool.not_eq_true']
    exact prog_has_false_of_declared h hk
  | aspect fn lv seed w rnd =>
    simp only [prog_paramsDeclared, Bool.and_eq_true] at h
    simp only [prog_paramsFresh, Bool.and_eq_true, Bool.not_eq_true']
    exact ⟨prog_has_false_of_declared h.1 hk, prog_levelsFresh_of_declared h.2 hk⟩
  | satisf fn lv seed cur rnd =>
    simp only [prog_paramsDeclared] at h
    simp only [prog_paramsFresh]
    exact prog_levelsFresh_of_declared h hk
  | ws _ => rfl
  | owa _ => rfl
  | choquet _ _ => rfl

/-! ### reference criterion -/

/-- `referenceCriterionType` absent / empty or one of the registered providers -/
def prog_refTypeOk (p : Props α) : Bool :=
  (p.str "referenceCriterionType" "").isEmpty || refFactoryIds.contains (p.str "referenceCriterionType" "")

theorem prog_refFactoryIds_eq :
    refFactoryIds = [Facts.refImportanceRatio, Facts.refRandomUniform, Facts.refRandomWeighted] := by decide

theorem prog_refForParams_total {p : Props α} (h : prog_refTypeOk p = true) : ∃ k, refForParams p = .ok k := by
  unfold prog_refTypeOk at h
  unfold refForParams
  generalize p.str "referenceCriterionType" "" = t at h
  rw [prog_refFactoryIds_eq] at h ⊢
  dsimp only
  cases he : t.isEmpty with
  | true =>
    simp only [if_true]
    exact ⟨.importanceRatio, by decide⟩
  | false =>
    rw [he] at h
    simp only [Bool.false_or, List.contains_eq_mem, List.mem_cons, List.not_mem_nil, or_false,
      decide_eq_true_eq] at h
    simp only [Bool.false_eq_true, if_false]
    rcases h with rfl | rfl | rfl
    · exact ⟨.importanceRatio, by decide⟩
    · exact ⟨.randomUniform, by decide⟩
    · exact ⟨.randomWeighted, by decide⟩

end

theorem prog_refProvide_total {k : RefKind} {p : Props Rat} {ranked : List (WCrit Rat)} {rd : Draws Rat}
    (hne : ranked ≠ []) (hrd : 0 < rd.length) (hu : ∀ u ∈ rd, 0 ≤ u ∧ u < 1) :
    ∃ c, refProvide k p ranked rd = .ok c := by
  obtain ⟨u, d1, hud, _⟩ := decideDraw_total (d := rd) hrd
  have hum : u ∈ rd := by
    cases rd with
    | nil => simp at hrd
    | cons x xs => simp [draw, pure, Except.pure] at hud; simp [hud.1]
  obtain ⟨hu0, hu1⟩ := hu u hum
  cases k with
  | importanceRatio => exact findCriterionInRange_total _ hne
  | randomUniform =>
    unfold refProvide
    simp only [hud, bind, Except.bind]
    have hn : (0 : Rat) < ((ranked.length : Nat) : Rat) := by
      have := List.length_pos_of_ne_nil hne
      exact_mod_cast this
    have hx : (Num.ofNat ranked.length : Rat) = ((ranked.length : Nat) : Rat) := by
      unfold Num.ofNat; simp
    have h0 : 0 ≤ (u * ((ranked.length : Nat) : Rat)).floor :=
      Rat.le_floor_iff.mpr (by simpa using mul_nonneg hu0 hn.le)
    have h1 : (u * ((ranked.length : Nat) : Rat)).floor < ((ranked.length : Nat) : Int) := by
      have hlt : u * ((ranked.length : Nat) : Rat) < ((ranked.length : Nat) : Rat) := by nlinarith
      have hfl := Rat.floor_le (u * ((ranked.length : Nat) : Rat))
      have : (((u * ((ranked.length : Nat) : Rat)).floor : Int) : Rat) < (((ranked.length : Nat) : Int) : Rat) := by
        push_cast; linarith
      exact_mod_cast this
    simp only [Num.floorInt_rat, hx]
    rw [if_neg (not_lt.mpr h0)]
    have hidx : (u * ((ranked.length : Nat) : Rat)).floor.toNat < ranked.length := by omega
    rw [List.getElem?_eq_getElem hidx]
    exact ⟨_, rfl⟩
  | randomWeighted =>
    unfold refProvide
    cases ranked with
    | nil => exact absurd rfl hne
    | cons c0 rest =>
      simp only [hud, bind, Except.bind]
      exact findCriterionInRange_total _ (by simp)

/-! ### criteria concealment -/

section
variable {α : Type} [Num α]

theorem prog_assignConcealed_total {b : Bounding α} {range : α × α} {cid : String} :
    ∀ (l : List (Alt α)) (d : Draws α), l.length ≤ d.length → (∀ a ∈ l, a.vals.has cid = false) →
      ∃ alts vals d', assignConcealed b range cid l d = .ok (alts, vals, d') ∧
        d'.length = d.length - l.length ∧ alts.map (·.id) = l.map (·.id)
  | [], d, _, _ => ⟨[], [], d, rfl, by simp, rfl⟩
  | a :: rest, d, hd, hf => by
    obtain ⟨u, d1, hu, hl⟩ := decideDraw_total (d := d) (by simp at hd; omega)
    obtain ⟨as', vals, d2, hr, hl2, hids⟩ := prog_assignConcealed_total (b := b) (range := range) (cid := cid)
      rest d1 (by simp at hd; omega) (fun a' ha' => hf a' (List.mem_cons_of_mem _ ha'))
    have hw : a.withCrit cid (concealValue b range u) =
        .ok { a with vals := a.vals ++ [(cid, concealValue b range u)] } := by
      unfold Alt.withCrit
      simp only [hf a (by simp), Bool.false_eq_true, if_false]
      rfl
    refine ⟨{ a with vals := a.vals ++ [(cid, concealValue b range u)] } :: as', (a.id, concealValue b range u) :: vals, d2, ?_, by simp; omega, by simp [hids]⟩
    unfold assignConcealed
    simp only [hu, hw, hr, bind, Except.bind, pure, Except.pure]

end

/-- the documented validity of the concealment props: `newCriterionScaling ≠ 0`,
    `allowedValuesRangeScaling ≠ 0`, `referenceCriterionType` registered (or absent) -/
def prog_concealPropsOk (p : Props Rat) : Bool :=
  !(p.num "newCriterionScaling" (Num.ofConst Facts.defaultConcealmentScaling) == Num.zero) &&
  !(p.num "allowedValuesRangeScaling" (Num.ofConst Facts.defaultBoundingScaling) == Num.zero) &&
  prog_refTypeOk p

theorem prog_boundingOfProps_total {α : Type} [Num α] {p : Props α}
    (h : (p.num "allowedValuesRangeScaling" (Num.ofConst Facts.defaultBoundingScaling) == Num.zero) = false) :
    ∃ b, boundingOfProps p = .ok b := by
  unfold boundingOfProps
  simp only [h, Bool.false_eq_true, if_false]
  exact ⟨_, rfl⟩

/-- the reference criterion of a coherent state with at least one criterion: some current criterion -/
theorem prog_refCriterion_total {eps : Rat} {d : DMP Rat} {p : Props Rat} {rd : Draws Rat} (hc : Coherent d)
    (he : prog_needsExact d.mp = true → ProgExact d) (hne : d.crit ≠ []) (hp : prog_refTypeOk p = true)
    (hrd : 0 < rd.length) (hu : ∀ u ∈ rd, 0 ≤ u ∧ u < 1) :
    ∃ ranked kind ref, rankAsc eps d = .ok ranked ∧ refForParams p = .ok kind ∧
      refProvide kind p ranked rd = .ok ref ∧ ref ∈ d.crit ∧ ranked ≠ [] := by
  obtain ⟨ranked, hrk⟩ := prog_rankAsc_total eps hc he
  have hperm := BiasA.rankAsc_perm hrk
  have hrne : ranked ≠ [] := by
    intro e; subst e
    exact hne (by simpa using hperm.symm.eq_nil)
  obtain ⟨kind, hkind⟩ := prog_refForParams_total hp
  obtain ⟨ref, href⟩ := prog_refProvide_total (k := kind) (p := p) hrne hrd hu
  refine ⟨ranked, kind, ref, hrk, hkind, href, ?_, hrne⟩
  have := refProvide_mem href
  exact hperm.mem_iff.mp this

/-- **criteria concealment as the first state-changing bias never fails** (five admitting methods):
    coherent state with a criterion, exact values (the new id must not be a value key yet), parameters keyed by
    current criteria, known levels function, valid props, one number in [0,1) for the reference criterion, one
    per known alternative plus the listener's for the values -/
theorem prog_conceal_total {d : DMP Rat} {p : Props Rat} {rd gen : Draws Rat} (hc : Coherent d)
    (hex : ProgExact d) (hadm : admitsAdditions d.mp = true) (hk : listenerKnowsLevels d.mp = true)
    (hdecl : prog_paramsDeclared d.mp d.crit = true) (hne : d.crit ≠ []) (hp : prog_concealPropsOk p = true)
    (hrd : 0 < rd.length) (hu : ∀ u ∈ rd, 0 ≤ u ∧ u < 1)
    (hgen : d.co.length + d.nc.length + prog_listenerDraws d.mp ≤ gen.length) :
    ∃ res rep, conceal choquetEpsOf d d p rd gen = .ok (res, rep) := by
  unfold prog_concealPropsOk at hp
  simp only [Bool.and_eq_true, Bool.not_eq_true'] at hp
  obtain ⟨⟨hsc, hbs⟩, hrt⟩ := hp
  obtain ⟨b, hb⟩ := prog_boundingOfProps_total hbs
  obtain ⟨ranked, kind, ref, hrk, hkind, href, hrefm, _⟩ :=
    prog_refCriterion_total (eps := (choquetEpsOf : Rat)) hc (fun _ => hex) hne hrt hrd hu
  obtain ⟨r, hr⟩ := decideValuesRange_total (alts := d.all) (c := ref)
    (fun a ha => hc.values a (by simpa [DMP.all] using ha) ref hrefm)
  obtain ⟨newId, hnewId⟩ : ∃ s, s = notUsedName (d.crit.map (·.id)) Facts.concealedBaseName := ⟨_, rfl⟩
  obtain ⟨sc, hscdef⟩ : ∃ x, x = p.num "newCriterionScaling" (Num.ofConst Facts.defaultConcealmentScaling) :=
    ⟨_, rfl⟩
  obtain ⟨newC, hnewC⟩ : ∃ c : Crit Rat, c = ⟨newId, Facts.critGain, some (scaleEqually r sc)⟩ := ⟨_, rfl⟩
  have hfreshId : newId ∉ d.crit.map (·.id) := by rw [hnewId]; exact notUsedName_fresh _ _
  have hcid : newC.id = newId := by rw [hnewC]
  have hbase : concealBase choquetEpsOf d d p sc rd = .ok (ref, newC) := by
    unfold concealBase refCriterion
    simp only [hrk, hkind, href, hr, bind, Except.bind, pure, Except.pure]
    rw [hnewC, hnewId]
  have hperm := sortAltsById_perm d.all
  have hnokey : ∀ a ∈ sortAltsById d.all, a.vals.has newC.id = false := by
    intro a ha
    have ha' : a ∈ d.co ++ d.nc := by simpa [DMP.all] using hperm.mem_iff.mp ha
    cases hh : a.vals.has newC.id with
    | false => rfl
    | true =>
      rw [KMap.has_iff_mem_keys, hcid] at hh
      obtain ⟨c, hcm, e⟩ := hex.declared a ha' newId hh
      exact absurd (List.mem_map.mpr ⟨c, hcm, e⟩) hfreshId
  have hlen : (sortAltsById d.all).length = d.co.length + d.nc.length := by
    rw [hperm.length_eq]; simp [DMP.all]
  obtain ⟨alts, values, gen1, hassign, hl1, hids⟩ := prog_assignConcealed_total (b := b)
    (range := newC.range.getD (Num.zero, Num.zero)) (cid := newC.id) (sortAltsById d.all) gen (by omega) hnokey
  have hfound : ∀ a ∈ d.co ++ d.nc, ∃ x ∈ alts, x.id = a.id := by
    intro a ha
    have : a.id ∈ alts.map (·.id) := by
      rw [hids]
      exact List.mem_map_of_mem (hperm.mem_iff.mpr (by simpa [DMP.all] using ha))
    obtain ⟨x, hx, e⟩ := List.mem_map.mp this
    exact ⟨x, hx, e⟩
  obtain ⟨nc, hnc⟩ := decideUpdateAlts_total (old := d.nc) (new := alts)
    (fun a ha => hfound a (List.mem_append_right _ ha))
  obtain ⟨co, hco⟩ := decideUpdateAlts_total (old := d.co) (new := alts)
    (fun a ha => hfound a (List.mem_append_left _ ha))
  obtain ⟨add, gen2, mp', hadd, hmerge⟩ := prog_addition_total (mp := d.mp) (crit := d.crit) (newC := newC)
    (ref := ref) (gen := gen1) hc.covers hadm hk hrefm
    (prog_paramsFresh_of_declared hdecl (by rw [hcid]; exact hfreshId)) (by omega)
  have hcrits : critsAdd d.crit newC = .ok (d.crit ++ [newC]) := by
    unfold critsAdd
    have : (d.crit.any fun x => x.id == newC.id) = false := by
      rw [List.any_eq_false]
      intro x hx hxe
      exact hfreshId (List.mem_map.mpr ⟨x, hx, by rw [← hcid]; exact eq_of_beq hxe⟩)
    simp only [this, Bool.false_eq_true, if_false]
    rfl
  refine ⟨⟨nc, co, d.crit ++ [newC], mp'⟩,
    ⟨newC.id, newC.type, newC.range.getD (Num.zero, Num.zero), values, add⟩, ?_⟩
  unfold conceal
  rw [hscdef] at hbase
  simp only [hsc, Bool.false_eq_true, if_false, hb, hbase, hassign, hnc, hco, hadd, hmerge, hcrits,
    bind, Except.bind, pure, Except.pure]

end Rdm
