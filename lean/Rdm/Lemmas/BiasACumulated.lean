/-
  `PrepareCumulatedWeightsMap` (C15): the importance maps of weighted sum, OWA and satisfaction are
  per-criterion sums over the considered alternatives.
-/
import Rdm.Lemmas.BiasAReversal
set_option linter.unusedSectionVars false
set_option linter.unusedSimpArgs false
open Rdm
namespace Rdm.BiasA
variable {α : Type} [Num α]

theorem forIn_yield_foldlM {ε β γ : Type} (F : β → γ → Except ε (ForInStep γ)) (f : β → γ → Except ε γ)
    (hF : ∀ a b, F a b = (f a b >>= fun b' => pure (ForInStep.yield b'))) :
    ∀ (l : List β) (init : γ), forIn l init F = l.foldlM (fun b a => f a b) init := by
  intro l
  induction l with
  | nil => intro init; rfl
  | cons a l ih =>
    intro init
    rw [List.forIn_cons, List.foldlM_cons, hF]
    cases h : f a init with
    | error e => rfl
    | ok b' => exact ih b'

/-- one step of the accumulation -/
def cumStep (mapper : String → α → R α) (w : KMap α) (kv : String × α) : R (KMap α) :=
  mapper kv.1 kv.2 >>= fun m =>
    pure (match w.get? kv.1 with
      | none => w.set kv.1 m
      | some old => w.set kv.1 (old + m))

theorem cumulated_eq_foldlM (cs : List (Crit α)) (co : List (Alt α)) (mapper : String → α → R α) :
    cumulated cs co mapper =
      co.foldlM (fun w a => a.vals.foldlM (cumStep mapper) w) (cs.map fun c => (c.id, Num.zero)) := by
  unfold cumulated
  simp only
  have inner : ∀ (a : Alt α) (w : KMap α),
      forIn a.vals w (fun x __s =>
        match x with
        | (k, v) => do
          let m ← mapper k v
          match __s.get? k with
            | none => pure (ForInStep.yield (__s.set k m))
            | some old => pure (ForInStep.yield (__s.set k (old + m)))) =
      a.vals.foldlM (cumStep mapper) w := by
    intro a w
    apply forIn_yield_foldlM
    intro kv w'
    obtain ⟨k, v⟩ := kv
    unfold cumStep
    simp only
    cases mapper k v with
    | error e => rfl
    | ok m => cases h : w'.get? k <;> simp [bind, Except.bind, pure, Except.pure, h]
  have outer := forIn_yield_foldlM (ε := String)
    (F := fun (a : Alt α) (__s : KMap α) => do
        let __s ← forIn a.vals __s (fun x __s =>
          match x with
          | (k, v) => do
            let m ← mapper k v
            match __s.get? k with
              | none => pure (ForInStep.yield (__s.set k m))
              | some old => pure (ForInStep.yield (__s.set k (old + m))))
        pure (ForInStep.yield __s))
    (f := fun a w => a.vals.foldlM (cumStep mapper) w)
    (by intro a w; rw [inner]) co (cs.map fun c => (c.id, (Num.zero : α)))
  rw [← outer]
  generalize (forIn co (cs.map fun c => (c.id, (Num.zero : α))) _ : R (KMap α)) = x
  cases x <;> rfl


def addOpt (old : Option α) (m : α) : α :=
  match old with
  | none => m
  | some o => o + m

/-- the accumulation step when the mapper succeeds with `g k v` -/
def cumStepP (g : String → α → α) (w : KMap α) (kv : String × α) : KMap α :=
  w.set kv.1 (addOpt (w.get? kv.1) (g kv.1 kv.2))

theorem cumStep_eq {mapper : String → α → R α} {g : String → α → α} {w : KMap α} {kv : String × α}
    (h : mapper kv.1 kv.2 = .ok (g kv.1 kv.2)) : cumStep mapper w kv = .ok (cumStepP g w kv) := by
  unfold cumStep cumStepP addOpt
  rw [h, ok_bind]
  cases w.get? kv.1 <;> rfl

theorem foldlM_cumStep {mapper : String → α → R α} {g : String → α → α} :
    ∀ (l : KMap α) (w : KMap α), (∀ kv ∈ l, mapper kv.1 kv.2 = .ok (g kv.1 kv.2)) →
      l.foldlM (cumStep mapper) w = .ok (l.foldl (cumStepP g) w) := by
  intro l
  induction l with
  | nil => intro w _; rfl
  | cons kv l ih =>
    intro w h
    rw [List.foldlM_cons, cumStep_eq (h kv List.mem_cons_self), ok_bind, List.foldl_cons]
    exact ih _ fun x hx => h x (List.mem_cons_of_mem _ hx)

theorem foldl_cumStepP_get? (g : String → α → α) :
    ∀ (l : KMap α), l.keys.Nodup → ∀ (w : KMap α) (k : String),
      (l.foldl (cumStepP g) w).get? k =
        match l.get? k with
        | none => w.get? k
        | some v => some (addOpt (w.get? k) (g k v)) := by
  intro l
  induction l with
  | nil => intro _ w k; rfl
  | cons kv l ih =>
    intro hnd w k
    simp only [KMap.keys, List.map_cons, List.nodup_cons] at hnd
    rw [List.foldl_cons, ih hnd.2]
    simp only [KMap.get?, lookup_cons_ite]
    by_cases hk : k = kv.1
    · subst hk
      have hnone : List.lookup kv.1 l = none := by
        rw [List.lookup_eq_none_iff]
        intro p hp
        have hne : kv.1 ≠ p.1 := by
          intro e; apply hnd.1; rw [e]; exact List.mem_map_of_mem hp
        simpa using hne
      rw [hnone, if_pos rfl]
      simp only
      unfold cumStepP
      exact KMap.get?_set_self _ _ _
    · rw [if_neg hk]
      have : (cumStepP g w kv).get? k = w.get? k := by
        unfold cumStepP; exact KMap.get?_set_ne _ _ _ hk
      simp only [KMap.get?] at this
      rw [this]

/-- `PrepareCumulatedWeightsMap` for a mapper that succeeds with `g k v` on every value of every
    considered alternative: it succeeds, and every declared criterion holds the sum, over the considered
    alternatives in order, of `g` applied to its values (starting from 0) -/
theorem cumulated_sum {cs : List (Crit α)} {co : List (Alt α)} {mapper : String → α → R α}
    {g : String → α → α} (hm : ∀ a ∈ co, ∀ kv ∈ a.vals, mapper kv.1 kv.2 = .ok (g kv.1 kv.2))
    (hnd : ∀ a ∈ co, a.vals.keys.Nodup) :
    ∃ w, cumulated cs co mapper = .ok w ∧ ∀ c ∈ cs, w.get? c.id =
      some (co.foldl (fun t a => match a.vals.get? c.id with
                                  | some v => t + g c.id v
                                  | none => t) Num.zero) := by
  rw [cumulated_eq_foldlM]
  have key : ∀ (co : List (Alt α)) (w0 : KMap α),
      (∀ a ∈ co, ∀ kv ∈ a.vals, mapper kv.1 kv.2 = .ok (g kv.1 kv.2)) → (∀ a ∈ co, a.vals.keys.Nodup) →
      ∃ w, co.foldlM (fun w a => a.vals.foldlM (cumStep mapper) w) w0 = .ok w ∧
        ∀ k z, w0.get? k = some z → w.get? k =
          some (co.foldl (fun t a => match a.vals.get? k with
                                      | some v => t + g k v
                                      | none => t) z) := by
    intro co
    induction co with
    | nil => intro w0 _ _; exact ⟨w0, rfl, fun k z h => h⟩
    | cons a rest ih =>
      intro w0 hm hnd
      rw [List.foldlM_cons, foldlM_cumStep a.vals w0 (hm a List.mem_cons_self), ok_bind]
      obtain ⟨w, hw, hget⟩ := ih (a.vals.foldl (cumStepP g) w0)
        (fun x hx => hm x (List.mem_cons_of_mem _ hx)) (fun x hx => hnd x (List.mem_cons_of_mem _ hx))
      refine ⟨w, hw, ?_⟩
      intro k z hz
      rw [List.foldl_cons]
      apply hget
      rw [foldl_cumStepP_get? g a.vals (hnd a List.mem_cons_self), hz]
      cases a.vals.get? k <;> rfl
  obtain ⟨w, hw, hget⟩ := key co _ hm hnd
  refine ⟨w, hw, ?_⟩
  intro c hc
  apply hget
  simp only [KMap.get?]
  clear hw hget key
  induction cs with
  | nil => cases hc
  | cons x xs ih =>
    simp only [List.map_cons, lookup_cons_ite]
    by_cases hid : c.id = x.id
    · rw [if_pos hid]
    · rw [if_neg hid]
      rcases List.mem_cons.1 hc with rfl | hc'
      · exact absurd rfl hid
      · exact ih hc'

/-- the per-criterion sum over the considered alternatives (in order, starting from 0) -/
def sumOver (co : List (Alt α)) (id : String) (g : α → α) : α :=
  co.foldl (fun t a => match a.vals.get? id with
                        | some v => t + g v
                        | none => t) Num.zero

end Rdm.BiasA
