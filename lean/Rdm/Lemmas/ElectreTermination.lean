/-
  Termination of the distillation model over `Rat`: on a well-formed matrix (square, entries in [0,1], zero
  diagonal) and with a distillation function that is non-negative on [0,1], `distillate` succeeds with the
  fuel `n² + n + 2` that `rank` supplies.  Measure: an inner call strictly decreases the number of distinct
  entries below the current credibility level, an outer call strictly decreases the matrix size.
-/
import Rdm.Lemmas.ElectreClasses
import Rdm.Lemmas.NumRat
import Mathlib.Tactic.Linarith
import Mathlib.Data.Finset.Card
import Mathlib.Data.List.Basic
import Mathlib.Data.Finset.Basic
namespace Rdm

/-- well-formed distillation matrix over `Rat`: square, entries in [0,1], zero diagonal -/
structure WFM (m : Matrix Rat) : Prop where
  len : m.data.length = m.size * m.size
  rng : ∀ x ∈ m.data, 0 ≤ x ∧ x ≤ 1
  diag : ∀ i, i < m.size → m.at i i = 0

theorem at_mem (m : Matrix Rat) (h : m.data.length = m.size * m.size) (r c : Nat) (hr : r < m.size) (hc : c < m.size) :
    m.at r c ∈ m.data := by
  unfold Matrix.at
  have hidx : r * m.size + c < m.data.length := by
    rw [h]
    calc r * m.size + c < r * m.size + m.size := by omega
      _ = (r + 1) * m.size := by rw [Nat.succ_mul]
      _ ≤ m.size * m.size := Nat.mul_le_mul_right _ hr
  rw [List.getD_eq_getElem?_getD, List.getElem?_eq_getElem hidx]
  exact List.getElem_mem hidx

theorem length_flatMap_uniform {β γ : Type} (f : β → List γ) (n : Nat) (l : List β)
    (hf : ∀ r ∈ l, (f r).length = n) : (l.flatMap f).length = l.length * n := by
  induction l with
  | nil => simp
  | cons r rs ih =>
    rw [List.flatMap_cons, List.length_append, hf r (by simp), ih (fun x hx => hf x (by simp [hx]))]
    simp [Nat.succ_mul]; omega

theorem sub_data_mem (m : Matrix Rat) (h : m.data.length = m.size * m.size) (I : List Nat) (hI : ∀ i ∈ I, i < m.size) :
    ∀ x ∈ (m.sub I).data, x ∈ m.data := by
  intro x hx
  simp only [Matrix.sub, List.mem_flatMap, List.mem_map] at hx
  obtain ⟨r, hr, c, hc, rfl⟩ := hx
  exact at_mem m h r c (hI r hr) (hI c hc)

theorem sub_wf (m : Matrix Rat) (w : WFM m) (I : List Nat) (hI : ∀ i ∈ I, i < m.size) : WFM (m.sub I) := by
  refine ⟨?_, ?_, ?_⟩
  · simp only [Matrix.sub]
    exact length_flatMap_uniform _ I.length I (fun r _ => by simp)
  · intro x hx
    exact w.rng x (sub_data_mem m w.len I hI x hx)
  · intro i hi
    have hi' : i < I.length := hi
    rw [sub_at m I i i hi' hi']
    exact w.diag _ (hI _ (List.getElem_mem hi'))

theorem sortIdx_mem (l : List Nat) (i : Nat) : i ∈ Matrix.sortIdx l ↔ i ∈ l := by
  unfold Matrix.sortIdx
  exact (List.mergeSort_perm l _).mem_iff

theorem slice_wf (m : Matrix Rat) (w : WFM m) (I : List Nat) (hI : ∀ i ∈ I, i < m.size) : WFM (m.slice I) := by
  unfold Matrix.slice
  split
  · exact w
  · exact sub_wf m w _ (fun i hi => hI i ((sortIdx_mem I i).mp hi))

theorem slice_data_mem (m : Matrix Rat) (w : WFM m) (I : List Nat) (hI : ∀ i ∈ I, i < m.size) :
    ∀ x ∈ (m.slice I).data, x ∈ m.data := by
  unfold Matrix.slice
  split
  · exact fun x hx => hx
  · exact sub_data_mem m w.len _ (fun i hi => hI i ((sortIdx_mem I i).mp hi))

theorem keep_lt (m : Matrix Rat) (idx : List Nat) : ∀ i ∈ m.keep idx, i < m.size := by
  intro i hi
  simp only [Matrix.keep, List.mem_filter, List.mem_range] at hi
  exact hi.1

theorem without_wf (m : Matrix Rat) (w : WFM m) (idx : List Nat) : WFM (m.without idx) := by
  unfold Matrix.without
  split
  · exact w
  · exact sub_wf m w _ (keep_lt m idx)

theorem without_data_mem (m : Matrix Rat) (w : WFM m) (idx : List Nat) :
    ∀ x ∈ (m.without idx).data, x ∈ m.data := by
  unfold Matrix.without
  split
  · exact fun x hx => hx
  · exact sub_data_mem m w.len _ (keep_lt m idx)

/-- the loop of the cut-level search: the result is the start value or an entry below the threshold -/
theorem cutFold_spec (thr : Rat) (l : List Rat) (d0 : Rat) :
    Matrix.bestFold (fun old new => decide (new < thr) && decide (old < new)) d0 l = d0 ∨
    (Matrix.bestFold (fun old new => decide (new < thr) && decide (old < new)) d0 l ∈ l ∧
     Matrix.bestFold (fun old new => decide (new < thr) && decide (old < new)) d0 l < thr) := by
  unfold Matrix.bestFold
  induction l generalizing d0 with
  | nil => left; rfl
  | cons a l ih =>
    rw [List.foldl_cons]
    by_cases hc : (decide (a < thr) && decide (d0 < a)) = true
    · simp only [hc, if_true]
      rcases ih a with h | ⟨h1, h2⟩
      · right
        rw [h]
        simp only [Bool.and_eq_true, decide_eq_true_eq] at hc
        exact ⟨by simp, hc.1⟩
      · right; exact ⟨List.mem_cons_of_mem _ h1, h2⟩
    · simp only [hc]
      rcases ih d0 with h | ⟨h1, h2⟩
      · left; exact h
      · right; exact ⟨List.mem_cons_of_mem _ h1, h2⟩

theorem wf_data_head (m : Matrix Rat) (w : WFM m) (hsz : m.size ≠ 0) : ∃ rest, m.data = 0 :: rest := by
  have hd := w.diag 0 (Nat.pos_of_ne_zero hsz)
  unfold Matrix.at at hd
  cases hdat : m.data with
  | nil =>
    have := w.len
    rw [hdat] at this
    simp only [List.length_nil] at this
    have : m.size * m.size ≠ 0 := Nat.mul_ne_zero hsz hsz
    omega
  | cons d0 rest =>
    rw [hdat] at hd
    simp at hd
    exact ⟨rest, by rw [hd]⟩

/-- `getDistillateMatrix` on a well-formed matrix: succeeds, and the new cut level is 0 or an entry below
    `maxCred − s(maxCred)` -/
theorem getDistillateMatrix_total (s : LinFun Rat) (mc : Rat) (m : Matrix Rat) (w : WFM m) (hsz : m.size ≠ 0) :
    ∃ r, getDistillateMatrix s mc m = .ok r ∧
      (r.1 = 0 ∨ (r.1 ∈ m.data ∧ r.1 < mc - distVal s mc)) := by
  obtain ⟨rest, hdat⟩ := wf_data_head m w hsz
  unfold getDistillateMatrix Matrix.findBest
  have : (m.size == 0) = false := by simpa using hsz
  simp only [this, Bool.false_eq_true, if_false, hdat, bind, Except.bind, pure, Except.pure]
  refine ⟨_, rfl, ?_⟩
  simp only
  rw [← hdat]
  exact cutFold_spec _ m.data 0

theorem max_total (m : Matrix Rat) (w : WFM m) (hsz : m.size ≠ 0) :
    ∃ x, m.max = .ok x ∧ 0 ≤ x ∧ x ≤ 1 ∧ (x = 0 ∨ x ∈ m.data) := by
  obtain ⟨rest, hdat⟩ := wf_data_head m w hsz
  unfold Matrix.max Matrix.findBest
  have : (m.size == 0) = false := by simpa using hsz
  simp only [this, Bool.false_eq_true, if_false, hdat, pure, Except.pure]
  refine ⟨_, rfl, ?_⟩
  rw [← hdat]
  have hmem : Matrix.bestFold (fun old new => decide (old < new)) 0 m.data = 0 ∨
      Matrix.bestFold (fun old new => decide (old < new)) 0 m.data ∈ m.data := by
    unfold Matrix.bestFold
    generalize (0 : Rat) = d0
    induction m.data generalizing d0 with
    | nil => left; rfl
    | cons a l ih =>
      rw [List.foldl_cons]
      by_cases hc : d0 < a
      · simp only [hc, decide_true, if_true]
        rcases ih a with h | h
        · right; rw [h]; simp
        · right; exact List.mem_cons_of_mem _ h
      · simp only [hc, decide_false, Bool.false_eq_true, if_false]
        rcases ih d0 with h | h
        · left; exact h
        · right; exact List.mem_cons_of_mem _ h
  rcases hmem with h | h
  · rw [h]; exact ⟨le_refl _, by norm_num, Or.inl rfl⟩
  · exact ⟨(w.rng _ h).1, (w.rng _ h).2, Or.inr h⟩

theorem findBestMatch_total (values : List Int) (cmp : Int → Int → Bool) (h : values ≠ []) :
    ∃ r, findBestMatch values cmp = .ok r := by
  unfold findBestMatch
  cases values with
  | nil => exact absurd rfl h
  | cons v rest => exact ⟨_, rfl⟩

theorem writePositionsSequentially_total (w ps : List Int) (h : ps.countP (· == 0) ≤ w.length) :
    ∃ out, writePositionsSequentially w ps = .ok out := by
  induction ps generalizing w with
  | nil => exact ⟨[], rfl⟩
  | cons p rest ih =>
    unfold writePositionsSequentially
    by_cases hp : p = 0
    · subst hp
      simp only [beq_self_eq_true, if_true]
      cases w with
      | nil => simp at h
      | cons x ws =>
        rw [List.countP_cons_of_pos (by simp)] at h
        obtain ⟨out, ho⟩ := ih ws (by simpa using h)
        exact ⟨x :: out, by simp [ho, bind, Except.bind, pure, Except.pure]⟩
    · have hb : (p == 0) = false := by simpa using hp
      simp only [hb, Bool.false_eq_true, if_false]
      rw [List.countP_cons_of_neg (by simpa using hp)] at h
      obtain ⟨out, ho⟩ := ih w h
      exact ⟨p :: out, by simp [ho, bind, Except.bind, pure, Except.pure]⟩

/-- number of distinct entries below `lam` (measure of the inner recursion) -/
def below (m : Matrix Rat) (lam : Rat) : Nat := ((m.data.toFinset).filter (· < lam)).card
/-- number of distinct entries -/
def distinctEntries (m : Matrix Rat) : Nat := m.data.toFinset.card

theorem below_le_distinct (m : Matrix Rat) (lam : Rat) : below m lam ≤ distinctEntries m :=
  Finset.card_filter_le _ _

theorem distinct_mono (m m' : Matrix Rat) (hsub : ∀ y ∈ m'.data, y ∈ m.data) :
    distinctEntries m' ≤ distinctEntries m := by
  apply Finset.card_le_card
  intro y hy
  rw [List.mem_toFinset] at hy ⊢
  exact hsub y hy

theorem distinct_le (m : Matrix Rat) : distinctEntries m ≤ m.data.length := List.toFinset_card_le _

theorem below_lt (m m' : Matrix Rat) (x lam : Rat) (hx : x ∈ m.data) (hlt : x < lam)
    (hsub : ∀ y ∈ m'.data, y ∈ m.data) : below m' x < below m lam := by
  apply Finset.card_lt_card
  rw [Finset.ssubset_iff_of_subset]
  · refine ⟨x, ?_, ?_⟩
    · simp only [Finset.mem_filter, List.mem_toFinset]; exact ⟨hx, hlt⟩
    · simp only [Finset.mem_filter, List.mem_toFinset, not_and, not_lt]; intro _; exact le_refl _
  · intro y hy
    simp only [Finset.mem_filter, List.mem_toFinset] at hy ⊢
    exact ⟨hsub y hy.1, lt_trans hy.2 hlt⟩

/-- size of the matrix of the not yet classed alternatives = number of free slots -/
theorem without_left_size (m : Matrix Rat) (best : List Nat) (positions : List Int)
    (hlen : positions.length = m.size) (hb : best.Pairwise (· < ·)) (hr : ∀ i ∈ best, i < m.size)
    (hz : ∀ i, i ∉ best → positions.getD i 0 = 0)
    (hnall : ¬((updatedPositions best positions).length == m.size) = true) :
    (m.without (updatedPositions best positions)).size = positions.countP (· == 0) := by
  have hleft := updatedPositions_eq best positions hb (by rw [hlen]; exact hr) hz
  rw [← zeros_count, ← keep_eq_zeros m positions hlen, ← hleft]
  unfold Matrix.without
  rw [if_neg hnall]
  simp [Matrix.sub]

/-- fuel needed by a call of `distillate` -/
def fuelNeeded (m : Matrix Rat) (mc : Rat) (inner : Bool) : Nat :=
  if inner then below m mc + 1 else m.size + distinctEntries m + 1

/-- **termination**: on a well-formed matrix (entries in [0,1], zero diagonal) and with a distillation function
    that is non-negative on [0,1], every call of `distillate` with enough fuel succeeds -/
theorem distillate_total (cmp : Int → Int → Bool) (s : LinFun Rat)
    (hs : ∀ x, 0 ≤ x → x ≤ 1 → 0 ≤ distVal s x) (fuel : Nat) :
    ∀ (mc : Rat) (pos : Int) (m : Matrix Rat) (inner : Bool), WFM m → m.size ≠ 0 → 0 ≤ mc → mc ≤ 1 → 1 ≤ pos →
      fuelNeeded m mc inner ≤ fuel → ∃ ps, distillate cmp s fuel mc pos m inner = .ok ps := by
  induction fuel with
  | zero =>
    intro mc pos m inner _ _ _ _ _ hf
    unfold fuelNeeded at hf
    split at hf <;> omega
  | succ fuel ih =>
    intro mc pos m inner w hsz hmc0 hmc1 hpos hf
    unfold distillate
    by_cases hz : (mc == Num.zero) = true
    · simp only [hz, if_true]; exact ⟨_, rfl⟩
    · simp only [hz, Bool.false_eq_true, if_false]
      obtain ⟨dm, hdm, hcut⟩ := getDistillateMatrix_total s mc m w hsz
      have hq : computeQuality dm.2 ≠ [] := by
        intro he
        have := computeQuality_length dm.2
        rw [he, getDistillateMatrix_size s mc m dm hdm] at this
        exact hsz this.symm
      obtain ⟨bm, hbm⟩ := findBestMatch_total (computeQuality dm.2) cmp hq
      obtain ⟨bne, basc, brange⟩ := findBestMatch_facts _ _ _ hbm
      rw [computeQuality_length, getDistillateMatrix_size s mc m dm hdm] at brange
      have hblen : 0 < bm.2.length := List.length_pos_iff.mpr bne
      -- the inner call (if any) has enough fuel
      have hinner : (decide (bm.2.length > 1) && decide (Num.zero < dm.1)) = true →
          ∃ sub, distillate cmp s fuel dm.1 pos (m.slice bm.2) true = .ok sub := by
        intro hc
        simp only [Bool.and_eq_true, decide_eq_true_eq, Num.zero_rat] at hc
        rcases hcut with h0 | ⟨hmem, hlt⟩
        · rw [h0] at hc; exact absurd hc.2 (lt_irrefl _)
        · have hs0 := hs mc hmc0 hmc1
          have hlt' : dm.1 < mc := by linarith
          apply ih dm.1 pos (m.slice bm.2) true (slice_wf m w _ brange) (by rw [slice_size]; omega)
            (w.rng _ hmem).1 (w.rng _ hmem).2 hpos
          have hb := below_lt m (m.slice bm.2) dm.1 mc hmem hlt' (slice_data_mem m w _ brange)
          unfold fuelNeeded at hf ⊢
          simp only [if_true]
          split at hf
          · omega
          · have := below_le_distinct m mc
            have := Nat.pos_of_ne_zero hsz
            omega
      -- levelPositions succeeds
      have hlevel : ∃ positions, levelPositions (distillate cmp s fuel) m bm.2 dm.1 pos = .ok positions := by
        unfold levelPositions
        simp only
        by_cases hc : (decide (bm.2.length > 1) && decide (Num.zero < dm.1)) = true
        · obtain ⟨sub, hsub⟩ := hinner hc
          simp only [hc, if_true, hsub, bind, Except.bind, pure, Except.pure]
          exact ⟨_, rfl⟩
        · simp only [hc, Bool.false_eq_true, if_false, hblen, if_true]
          exact ⟨_, rfl⟩
      obtain ⟨positions, hp⟩ := hlevel
      simp only [hdm, hbm, hp, bind, Except.bind]
      have hrecI : ∀ mc pos m ps, 1 ≤ pos → m.size ≠ 0 → distillate cmp s fuel mc pos m true = .ok ps →
          InnerOk pos ps ∧ ps.length = m.size :=
        fun mc pos m ps h1 h2 h3 => ⟨(distillate_classes cmp s fuel mc pos m true ps h1 h2 h3).1 rfl,
          distillate_length _ _ _ _ _ _ _ _ h3⟩
      obtain ⟨plen, pin, pz⟩ := levelPositions_classes _ hrecI m bm.2 dm.1 pos hpos bne basc brange positions hp
      unfold finishLevel
      simp only
      by_cases hall : ((updatedPositions bm.2 positions).length == m.size || inner) = true
      · simp only [hall, if_true]; exact ⟨_, rfl⟩
      · simp only [hall, Bool.false_eq_true, if_false]
        simp only [Bool.or_eq_true, not_or, Bool.not_eq_true] at hall
        obtain ⟨hnall, hinn⟩ := hall
        subst hinn
        have hnall' : ¬((updatedPositions bm.2 positions).length == m.size) = true := by simp [hnall]
        have hsize := without_left_size m bm.2 positions plen basc brange pz hnall'
        have hleft := updatedPositions_eq bm.2 positions basc (by rw [plen]; exact brange) pz
        -- there is a free slot, and a used one
        have hzero : 0 < positions.countP (· == 0) := by
          rw [List.countP_eq_length_filter]
          apply List.length_pos_iff.mpr
          intro hnil
          apply hnall'
          rw [hleft, beq_iff_eq, ← plen]
          have hfl : ((List.range positions.length).filter fun i => positions.getD i 0 != 0).length
              = (List.range positions.length).length := by
            apply List.length_filter_eq_length_iff.mpr
            intro a ha
            simp only [List.mem_range] at ha
            have hne : positions[a] ≠ 0 := by
              intro h0
              have : positions[a] ∈ positions.filter (· == 0) := List.mem_filter.mpr ⟨List.getElem_mem ha, by simp [h0]⟩
              rw [hnil] at this; cases this
            simp [List.getD_eq_getElem?_getD, ha, hne]
          rw [List.length_range] at hfl
          exact hfl
        have hlt : positions.countP (· == 0) < positions.length := by
          rw [List.countP_eq_length_filter]
          apply List.length_filter_lt_length_iff_exists.mpr
          exact ⟨pos, pin.2, by simp; omega⟩
        have wnext := without_wf m w (updatedPositions bm.2 positions)
        have hnsz : (m.without (updatedPositions bm.2 positions)).size ≠ 0 := by rw [hsize]; omega
        obtain ⟨mc', hmax, hm0, hm1, _⟩ := max_total _ wnext hnsz
        have hfuel : fuelNeeded (m.without (updatedPositions bm.2 positions)) mc' false ≤ fuel := by
          unfold fuelNeeded at hf ⊢
          simp only [Bool.false_eq_true, if_false] at hf ⊢
          have := distinct_mono m _ (without_data_mem m w (updatedPositions bm.2 positions))
          rw [hsize]
          omega
        obtain ⟨further, hfur⟩ := ih mc' (pos + 1) _ false wnext hnsz hm0 hm1 (by omega) hfuel
        have hfl := distillate_length _ _ _ _ _ _ _ _ hfur
        obtain ⟨out, hout⟩ := writePositionsSequentially_total further positions (by rw [hfl, hsize])
        simp only [hmax, bind, Except.bind, hfur, hout]
        exact ⟨_, rfl⟩

theorem removeDiagonal_wf (m : Matrix Rat) (hlen : m.data.length = m.size * m.size)
    (hrng : ∀ x ∈ m.data, 0 ≤ x ∧ x ≤ 1) : WFM (removeDiagonal m) := by
  refine ⟨?_, ?_, ?_⟩
  · simp [removeDiagonal, Matrix.filter, hlen]
  · intro x hx
    simp only [removeDiagonal, Matrix.filter, List.mem_mapIdx] at hx
    obtain ⟨i, hi, rfl⟩ := hx
    split
    · exact hrng _ (List.getElem_mem hi)
    · simp
  · intro i hi
    have hi' : i < m.size := hi
    have hpos : 0 < m.size := by omega
    have hidx : i * m.size + i < m.data.length := by
      rw [hlen]
      calc i * m.size + i < i * m.size + m.size := by omega
        _ = (i + 1) * m.size := by rw [Nat.succ_mul]
        _ ≤ m.size * m.size := Nat.mul_le_mul_right _ hi'
    have hdiv : (i * m.size + i) / m.size = i := by
      rw [Nat.mul_comm, Nat.mul_add_div hpos, Nat.div_eq_of_lt hi']; simp
    have hmod : (i * m.size + i) % m.size = i := by
      rw [Nat.mul_comm, Nat.mul_add_mod]; exact Nat.mod_eq_of_lt hi'
    simp only [removeDiagonal, Matrix.filter, Matrix.at, List.getD_eq_getElem?_getD]
    rw [List.getElem?_mapIdx, List.getElem?_eq_getElem hidx]
    simp [hdiv, hmod]

theorem distInDomain_nonneg (s : LinFun Rat) (h : Spec.C05.distInDomain s = true) :
    ∀ x, 0 ≤ x → x ≤ 1 → 0 ≤ distVal s x := by
  intro x hx0 hx1
  unfold Spec.C05.distInDomain at h
  simp only [Bool.and_eq_true, decide_eq_true_eq] at h
  obtain ⟨⟨hb, hab⟩, ha⟩ := h
  unfold distVal LinFun.eval
  split
  · simp
  · simp only
    nlinarith

/-- `rank` terminates successfully on every non-empty square matrix with entries in [0,1] when the
    distillation function is non-negative on [0,1]: the fuel `n² + n + 2` of the model suffices -/
theorem rank_total (m : Matrix Rat) (s : LinFun Rat) (cmp : Int → Int → Bool)
    (hs : ∀ x, 0 ≤ x → x ≤ 1 → 0 ≤ distVal s x) (hsz : m.size ≠ 0)
    (hlen : m.data.length = m.size * m.size) (hrng : ∀ x ∈ m.data, 0 ≤ x ∧ x ≤ 1) :
    ∃ ps, rank m s cmp = .ok ps := by
  have w := removeDiagonal_wf m hlen hrng
  have hsz' : (removeDiagonal m).size ≠ 0 := hsz
  obtain ⟨mc, hmax, h0, h1, _⟩ := max_total _ w hsz'
  unfold rank
  simp only [hmax, bind, Except.bind]
  apply distillate_total cmp s hs _ mc 1 _ false w hsz' h0 h1 (le_refl _)
  unfold fuelNeeded rankFuel
  simp only [Bool.false_eq_true, if_false]
  have hd := distinct_le (removeDiagonal m)
  rw [w.len] at hd
  have he : (removeDiagonal m).size = m.size := rfl
  rw [he] at hd ⊢
  omega

end Rdm
