/-
  The method parameters after `Merge(params, OnCriterionAdded(..))` extend the old ones by exactly the
  new criterion (clause `paramsExtended` of Spec.C18) — weighted sum and majority heuristic.
-/
import Rdm.Lemmas.BiasBWeight
import Rdm.Lemmas.BiasBKMap
namespace Rdm

theorem eqCritQ_refl (c : Crit Rat) : Spec.C18.eqCrit c c = true := by
  unfold Spec.C18.eqCrit Spec.C18.eqRange
  cases c.range <;> simp

theorem eqWCrits_refl : ∀ (l : List (WCrit Rat)), Spec.C18.eqWCrits l l = true := by
  intro l
  induction l with
  | nil => rfl
  | cons x xs ih => simp [Spec.C18.eqWCrits, eqCritQ_refl, ih]

/-- weighted sum: merging the listener's addition appends exactly the new weighted criterion -/
theorem ws_parameters_extended {wc wc0 : List (WCrit Rat)} {crit ref : Crit Rat} {d d' : Draws Rat}
    {add : Addition Rat} {mp' : MParams Rat}
    (h1 : onAdded (.ws wc0) crit ref d = .ok (add, d')) (h2 : mergeParams (.ws wc) add = .ok mp') :
    Spec.C18.paramsExtended (.ws wc) mp' [crit.id] = true := by
  unfold onAdded at h1
  simp only at h1
  obtain ⟨r, _, h1⟩ := bind_eq_ok.mp h1
  obtain ⟨⟨u, dd⟩, _, h1⟩ := bind_eq_ok.mp h1
  simp [pure, Except.pure] at h1
  obtain ⟨rfl, _⟩ := h1
  simp [mergeParams, pure, Except.pure] at h2
  subst h2
  simp [Spec.C18.paramsExtended, eqWCrits_refl]

theorem mergeDisjoint_ok {β : Type} {m other res : KMap β} (h : KMap.mergeDisjoint m other = .ok res) :
    res = m ++ other ∧ ∀ p ∈ other, m.has p.1 = false := by
  unfold KMap.mergeDisjoint at h
  split at h
  · simp [throw, throwThe, MonadExceptOf.throw] at h
  · rename_i hn
    simp [pure, Except.pure] at h
    refine ⟨h.symm, ?_⟩
    intro p hp
    simp only [List.any_eq_true, not_exists, not_and, Bool.not_eq_true] at hn
    exact hn p hp

theorem lookup_of_mem_nodup {β : Type} {k : String} {v : β} : ∀ {w : KMap β},
    (w.map (·.1)).Nodup → (k, v) ∈ w → List.lookup k w = some v := by
  intro w
  induction w with
  | nil => intro _ h; simp at h
  | cons p ps ih =>
    intro hnd hmem
    obtain ⟨a, b⟩ := p
    simp only [List.map_cons, List.nodup_cons] at hnd
    simp only [List.mem_cons, Prod.mk.injEq] at hmem
    simp only [List.lookup]
    rcases hmem with ⟨rfl, rfl⟩ | hmem
    · simp
    · have hne : k ≠ a := by
        intro e; subst e
        exact hnd.1 (List.mem_map.mpr ⟨(k, v), hmem, rfl⟩)
      have : (k == a) = false := by simpa using hne
      rw [this]
      exact ih hnd.2 hmem

theorem lookup_append_of_some {β : Type} {k : String} {v : β} : ∀ {w : KMap β} (l : KMap β),
    List.lookup k w = some v → List.lookup k (w ++ l) = some v := by
  intro w
  induction w with
  | nil => intro l h; simp [List.lookup] at h
  | cons p ps ih =>
    intro l h
    obtain ⟨a, b⟩ := p
    simp only [List.cons_append, List.lookup] at h ⊢
    split
    · rename_i heq; rw [heq] at h; exact h
    · rename_i hne; rw [hne] at h; exact ih l h

/-- a Go map with one fresh key added: every old entry untouched, exactly that key new -/
theorem mapExtended_append (w : KMap Rat) (k : String) (x : Rat) (hnew : w.has k = false)
    (hnd : (w.map (·.1)).Nodup) : Spec.C18.mapExtended w (w ++ [(k, x)]) [k] = true := by
  unfold Spec.C18.mapExtended
  simp only [List.length_append, List.length_cons, List.length_nil, beq_self_eq_true, Bool.true_and,
    List.all_cons, List.all_nil, Bool.and_true, Bool.and_eq_true, List.all_eq_true]
  refine ⟨?_, ?_, ?_⟩
  · intro p hp
    obtain ⟨k', v⟩ := p
    have := lookup_append_of_some [(k, x)] (lookup_of_mem_nodup hnd hp)
    simp only [KMap.get?, this]; simp
  · simpa using hnew
  · unfold KMap.has
    have hk : (w.any fun p => p.1 == k) = false := by
      unfold KMap.has at hnew
      cases hl : List.lookup k w with
      | none =>
        rw [Bool.eq_false_iff]
        intro hany
        rw [List.any_eq_true] at hany
        obtain ⟨p, hp, hpk⟩ := hany
        have e : p.1 = k := by simpa using hpk
        have := lookup_of_mem_nodup hnd (show (k, p.2) ∈ w by rw [← e]; exact hp)
        rw [hl] at this; simp at this
      | some v => rw [hl] at hnew; simp at hnew
    rw [lookup_append_new w hk]; rfl

/-- majority heuristic: merging the listener's addition adds exactly the new weight -/
theorem majority_parameters_extended {w w0 : KMap Rat} {cur cur0 : String} {seed seed0 : Int}
    {rnd rnd0 : Bool} {dr dr0 : String} {crit ref : Crit Rat} {d d' : Draws Rat}
    {add : Addition Rat} {mp' : MParams Rat} (hnd : (w.map (·.1)).Nodup)
    (h1 : onAdded (.majority w0 cur0 seed0 rnd0 dr0) crit ref d = .ok (add, d'))
    (h2 : mergeParams (.majority w cur seed rnd dr) add = .ok mp') :
    Spec.C18.paramsExtended (.majority w cur seed rnd dr) mp' [crit.id] = true := by
  unfold onAdded at h1
  simp only at h1
  obtain ⟨⟨u, dd⟩, _, h3⟩ := bind_eq_ok.mp h1
  clear h1
  simp [pure, Except.pure] at h3
  obtain ⟨rfl, _⟩ := h3
  unfold mergeParams at h2
  simp only at h2
  obtain ⟨w', hw', h4⟩ := bind_eq_ok.mp h2
  clear h2
  simp [pure, Except.pure] at h4
  subst h4
  obtain ⟨rfl, hfresh⟩ := mergeDisjoint_ok hw'
  have hnew : w.has crit.id = false := hfresh (crit.id, _) (List.mem_singleton.mpr rfl)
  have := mapExtended_append w crit.id (u * (w0.get? ref.id).getD 0) hnew hnd
  simp only [Spec.C18.paramsExtended]
  simp [this]

end Rdm
