/-
  The method parameters after `Merge(params, OnCriterionAdded(..))` extend the old ones by exactly the
  new criterion (clause `paramsExtended` of Spec.C18) — weighted sum and majority heuristic.
-/
import Rdm.Lemmas.BiasBWeight
import Rdm.Lemmas.BiasBKMap
namespace Rdm

theorem eqCritQ_refl (c : Crit Rat) : Spec.C18.eqCrit c c = true := by
  unfold Spec.C18.eqCrit Spec.C18.eqRange
  cases c.range <;> simp

theorem eqWCrits_refl : ∀ (l : List (WCrit Rat)), Spec.C18.eqWCrits l l = true := by
  intro l
  induction l with
  | nil => rfl
  | cons x xs ih => simp [Spec.C18.eqWCrits, eqCritQ_refl, ih]

/-- weighted sum: merging the listener's addition appends exactly the new weighted criterion -/
theorem ws_parameters_extended {wc wc0 : List (WCrit Rat)} {crit ref : Crit Rat} {d d' : Draws Rat}
    {add : Addition Rat} {mp' : MParams Rat}
    (h1 : onAdded (.ws wc0) crit ref d = .ok (add, d')) (h2 : mergeParams (.ws wc) add = .ok mp') :
    Spec.C18.paramsExtended (.ws wc) mp' [crit.id] = true := by
  unfold onAdded at h1
  simp only at h1
  obtain ⟨r, _, h1⟩ := bind_eq_ok.mp h1
  obtain ⟨⟨u, dd⟩, _, h1⟩ := bind_eq_ok.mp h1
  simp [pure, Except.pure] at h1
  obtain ⟨rfl, _⟩ := h1
  simp [mergeParams, pure, Except.pure] at h2
  subst h2
  simp [Spec.C18.paramsExtended, eqWCrits_refl]

theorem mergeDisjoint_ok {β : Type} {m other res : KMap β} (h : KMap.mergeDisjoint m other = .ok res) :
    res = m ++ other ∧ ∀ p ∈ other, m.has p.1 = false := by
  unfold KMap.mergeDisjoint at h
  split at h
  · simp [throw, throwThe, MonadExceptOf.throw] at h
  · rename_i hn
    simp [pure, Except.pure] at h
    refine ⟨h.symm, ?_⟩
    intro p hp
    simp only [List.any_eq_true, not_exists, not_and, Bool.not_eq_true] at hn
    exact hn p hp

theorem lookup_of_mem_nodup {β : Type} {k : String} {v : β} : ∀ {w : KMap β},
    (w.map (·.1)).Nodup → (k, v) ∈ w → List.lookup k w = some v := by
  intro w
  induction w with
  | nil => intro _ h; simp at h
  | cons p ps ih =>
    intro hnd hmem
    obtain ⟨a, b⟩ := p
    simp only [List.map_cons, List.nodup_cons] at hnd
    simp only [List.mem_cons, Prod.mk.injEq] at hmem
    simp only [List.lookup]
    rcases hmem with ⟨rfl, rfl⟩ | hmem
    · simp
    · have hne : k ≠ a := by
        intro e; subst e
        exact hnd.1 (List.mem_map.mpr ⟨(k, v), hmem, rfl⟩)
      have : (k == a) = false := by simpa using hne
      rw [this]
      exact ih hnd.2 hmem

theorem lookup_append_of_some {β : Type} {k : String} {v : β} : ∀ {w : KMap β} (l : KMap β),
    List.lookup k w = some v → List.lookup k (w ++ l) = some v := by
  intro w
  induction w with
  | nil => intro l h; simp [List.lookup] at h
  | cons p ps ih =>
    intro l h
    obtain ⟨a, b⟩ := p
    simp only [List.cons_append, List.lookup] at h ⊢
    split
    · rename_i heq; rw [heq] at h; exact h
    · rename_i hne; rw [hne] at h; exact ih l h

/-- a Go map with one fresh key added: every old entry untouched, exactly that key new -/
theorem mapExtended_append (w : KMap Rat) (k : String) (x : Rat) (hnew : w.has k = false)
    (hnd : (w.map (·.1)).Nodup) : Spec.C18.mapExtended w (w ++ [(k, x)]) [k] = true := by
  unfold Spec.C18.mapExtended
  simp only [List.length_append, List.length_cons, List.length_nil, beq_self_eq_true, Bool.true_and,
    List.all_cons, List.all_nil, Bool.and_true, Bool.and_eq_true, List.all_eq_true]
  refine ⟨?_, ?_, ?_⟩
  · intro p hp
    obtain ⟨k', v⟩ := p
    have := lookup_append_of_some [(k, x)] (lookup_of_mem_nodup hnd hp)
    simp only [KMap.get?, this]; simp
  · simpa using hnew
  · unfold KMap.has
    have hk : (w.any fun p => p.1 == k) = false := by
      unfold KMap.has at hnew
      cases hl : List.lookup k w with
      | none =>
        rw [Bool.eq_false_iff]
        intro hany
        rw [List.any_eq_true] at hany
        obtain ⟨p, hp, hpk⟩ := hany
        have e : p.1 = k := by simpa using hpk
        have := lookup_of_mem_nodup hnd (show (k, p.2) ∈ w by rw [← e]; exact hp)
        rw [hl] at this; simp at this
      | some v => rw [hl] at hnew; simp at hnew
    rw [lookup_append_new w hk]; rfl

/-- majority heuristic: merging the listener's addition adds exactly the new weight -/
theorem majority_parameters_extended {w w0 : KMap Rat} {cur cur0 : String} {seed seed0 : Int}
    {rnd rnd0 : Bool} {dr dr0 : String} {crit ref : Crit Rat} {d d' : Draws Rat}
    {add : Addition Rat} {mp' : MParams Rat} (hnd : (w.map (·.1)).Nodup)
    (h1 : onAdded (.majority w0 cur0 seed0 rnd0 dr0) crit ref d = .ok (add, d'))
    (h2 : mergeParams (.majority w cur seed rnd dr) add = .ok mp') :
    Spec.C18.paramsExtended (.majority w cur seed rnd dr) mp' [crit.id] = true := by
  unfold onAdded at h1
  simp only at h1
  obtain ⟨⟨u, dd⟩, _, h3⟩ := bind_eq_ok.mp h1
  clear h1
  simp [pure, Except.pure] at h3
  obtain ⟨rfl, _⟩ := h3
  unfold mergeParams at h2
  simp only at h2
  obtain ⟨w', hw', h4⟩ := bind_eq_ok.mp h2
  clear h2
  simp [pure, Except.pure] at h4
  subst h4
  obtain ⟨rfl, hfresh⟩ := mergeDisjoint_ok hw'
  have hnew : w.has crit.id = false := hfresh (crit.id, _) (List.mem_singleton.mpr rfl)
  have := mapExtended_append w crit.id (u * (w0.get? ref.id).getD 0) hnew hnd
  simp only [Spec.C18.paramsExtended]
  simp [this]

/-! ### ELECTRE III, aspect elimination, satisfaction -/

theorem any_false_of_has_false {β : Type} {w : KMap β} {k : String} (hnew : w.has k = false) :
    (w.any fun p => p.1 == k) = false := by
  rw [Bool.eq_false_iff]
  intro hany
  rw [List.any_eq_true] at hany
  obtain ⟨p, hp, hpk⟩ := hany
  have e : p.1 = k := by simpa using hpk
  unfold KMap.has at hnew
  have hex : ∃ v, List.lookup k w = some v := by
    clear hnew
    induction w with
    | nil => simp at hp
    | cons q qs ih =>
      simp only [List.lookup]
      by_cases hq : (k == q.1) = true
      · rw [hq]; exact ⟨_, rfl⟩
      · have hq' : (k == q.1) = false := by simpa using hq
        rw [hq']
        simp only [List.mem_cons] at hp
        rcases hp with rfl | hp
        · rw [e] at hq'; simp at hq'
        · exact ih hp
  obtain ⟨v, hv⟩ := hex
  rw [hv] at hnew; simp at hnew

theorem eqLin_refl (a : LinFun Rat) : Spec.C18.eqLin a a = true := by simp [Spec.C18.eqLin]
theorem eqECrit_refl (a : ECrit Rat) : Spec.C18.eqECrit a a = true := by simp [Spec.C18.eqECrit, eqLin_refl]

/-- ELECTRE III: merging the listener's addition adds exactly the entry of the new criterion -/
theorem electre_parameters_extended {ec ec0 : KMap (ECrit Rat)} {dist dist0 : LinFun Rat} {crit ref : Crit Rat}
    {d d' : Draws Rat} {add : Addition Rat} {mp' : MParams Rat} (hnd : (ec.map (·.1)).Nodup)
    (h1 : onAdded (.electre ec0 dist0) crit ref d = .ok (add, d'))
    (h2 : mergeParams (.electre ec dist) add = .ok mp') :
    Spec.C18.paramsExtended (.electre ec dist) mp' [crit.id] = true := by
  unfold onAdded at h1
  simp only at h1
  obtain ⟨⟨u, dd⟩, _, h3⟩ := bind_eq_ok.mp h1
  clear h1
  simp [pure, Except.pure] at h3
  obtain ⟨rfl, _⟩ := h3
  unfold mergeParams at h2
  simp only at h2
  obtain ⟨e', he', h4⟩ := bind_eq_ok.mp h2
  clear h2
  simp [pure, Except.pure] at h4
  subst h4
  obtain ⟨rfl, hfresh⟩ := mergeDisjoint_ok he'
  have hnew : ec.has crit.id = false := hfresh (crit.id, _) (List.mem_singleton.mpr rfl)
  simp only [Spec.C18.paramsExtended, List.length_append, List.length_cons, List.length_nil, beq_self_eq_true,
    Bool.true_and, List.all_cons, List.all_nil, Bool.and_true, Bool.and_eq_true, List.all_eq_true, eqLin_refl]
  refine ⟨?_, ?_, ?_⟩
  · intro p hp
    obtain ⟨k', v⟩ := p
    have := fun l => lookup_append_of_some (β := ECrit Rat) l (lookup_of_mem_nodup hnd hp)
    simp only [KMap.get?, this, eqECrit_refl]
  · simpa using hnew
  · unfold KMap.has
    rw [lookup_append_new ec (any_false_of_has_false hnew)]; rfl

/-- what `levelsOnAdded` can return: nothing (coefficient sources) or one singleton map per level -/
theorem levelsOnAdded_shape {lv : Levels Rat} {crit ref : Crit Rat} {d d' : Draws Rat} {la : LvAdd Rat} {asc : Bool}
    (h : levelsOnAdded asc lv crit ref d = .ok (la, d')) :
    la = .none ∨ ∃ vs : List Rat, la = .thresholds (vs.map fun v => [(crit.id, v)]) := by
  unfold levelsOnAdded at h
  cases lv with
  | coef a b c => simp [pure, Except.pure] at h; exact Or.inl h.1.symm
  | thresholds ts =>
    simp only at h
    obtain ⟨s, _, h⟩ := bind_eq_ok.mp h
    simp only [pure, Except.pure, Except.ok.injEq, Prod.mk.injEq] at h
    exact Or.inr ⟨_, h.1.symm⟩

/-- merging such an update extends every level by exactly the new criterion -/
theorem levelsMerge_extended {lv lv' : Levels Rat} {la : LvAdd Rat} {k : String}
    (hla : la = .none ∨ ∃ vs : List Rat, la = .thresholds (vs.map fun v => [(k, v)]))
    (hnd : ∀ ts, lv = .thresholds ts → ∀ t ∈ ts, (t.map (·.1)).Nodup)
    (h : levelsMerge lv la = .ok lv') : Spec.C18.levelsExtended lv lv' [k] = true := by
  cases lv with
  | coef a b c =>
    simp [levelsMerge, pure, Except.pure] at h
    subst h
    simp [Spec.C18.levelsExtended]
  | thresholds ts =>
    rcases hla with rfl | ⟨vs, rfl⟩
    · simp [levelsMerge, throw, throwThe, MonadExceptOf.throw] at h
    · unfold levelsMerge at h
      simp only at h
      split at h
      · simp [throw, throwThe, MonadExceptOf.throw] at h
      · rename_i hlen
        obtain ⟨merged, hm, h⟩ := bind_eq_ok.mp h
        simp only [pure, Except.pure, Except.ok.injEq] at h
        subst h
        obtain ⟨hl, hp⟩ := mapM_ok hm
        have hlen' : ts.length ≤ (vs.map fun v => [(k, v)]).length := by omega
        have hml : merged.length = ts.length := by
          rw [hl, List.length_zip]; omega
        simp only [Spec.C18.levelsExtended, Bool.and_eq_true, beq_iff_eq, List.all_eq_true]
        refine ⟨hml.symm, ?_⟩
        intro xy hxy
        obtain ⟨i, hi, rfl⟩ := List.mem_iff_getElem.mp hxy
        simp only [List.length_zip] at hi
        have hi1 : i < ts.length := by omega
        have hi2 : i < merged.length := by omega
        have hi3 : i < (vs.map fun v => [(k, v)]).length := by omega
        have hz : ((ts.zip (vs.map fun v => [(k, v)]))[i]'(by rw [List.length_zip]; omega), merged[i]) ∈
            (ts.zip (vs.map fun v => [(k, v)])).zip merged := by
          rw [List.mem_iff_getElem]
          exact ⟨i, by simp only [List.length_zip]; omega, by simp⟩
        have hmi := hp _ hz
        simp only [List.getElem_zip, List.getElem_map] at hmi
        obtain ⟨e, hfresh⟩ := mergeDisjoint_ok hmi
        have hnew : ts[i].has k = false := hfresh (k, _) (List.mem_singleton.mpr rfl)
        have := mapExtended_append ts[i] k (vs[i]'(by simpa using hi3)) hnew (hnd ts rfl ts[i] (List.getElem_mem hi1))
        simp only [List.getElem_zip]
        rw [e]; exact this

/-- aspect elimination: the weights and every level get exactly the entry of the new criterion -/
theorem aspect_parameters_extended {fn fn0 : String} {lv lv0 : Levels Rat} {seed seed0 : Int} {w w0 : KMap Rat}
    {rnd rnd0 : Bool} {crit ref : Crit Rat} {d d' : Draws Rat} {add : Addition Rat} {mp' : MParams Rat}
    (hnd : (w.map (·.1)).Nodup) (hndl : ∀ ts, lv = .thresholds ts → ∀ t ∈ ts, (t.map (·.1)).Nodup)
    (h1 : onAdded (.aspect fn0 lv0 seed0 w0 rnd0) crit ref d = .ok (add, d'))
    (h2 : mergeParams (.aspect fn lv seed w rnd) add = .ok mp') :
    Spec.C18.paramsExtended (.aspect fn lv seed w rnd) mp' [crit.id] = true := by
  unfold onAdded at h1
  simp only at h1
  obtain ⟨⟨u, dd⟩, _, h3⟩ := bind_eq_ok.mp h1
  clear h1
  dsimp only at h3
  split at h3
  · exact (throw_bind_ne_ok.mp h3).elim
  · obtain ⟨⟨la, d2⟩, hla, h3⟩ := bind_eq_ok.mp h3
    simp only [pure, Except.pure, Except.ok.injEq, Prod.mk.injEq] at h3
    obtain ⟨rfl, _⟩ := h3
    unfold mergeParams at h2
    simp only at h2
    split at h2
    · exact (throw_bind_ne_ok.mp h2).elim
    · obtain ⟨lv', hlv, h2⟩ := bind_eq_ok.mp h2
      obtain ⟨w', hw', h2⟩ := bind_eq_ok.mp h2
      simp only [pure, Except.pure, Except.ok.injEq] at h2
      subst h2
      obtain ⟨rfl, hfresh⟩ := mergeDisjoint_ok hw'
      have hnew : w.has crit.id = false := hfresh (crit.id, _) (List.mem_singleton.mpr rfl)
      have hm := mapExtended_append w crit.id (u * (w0.get? ref.id).getD Num.zero) hnew hnd
      have hl := levelsMerge_extended (levelsOnAdded_shape hla) hndl hlv
      simp only [Spec.C18.paramsExtended, hm, hl, beq_self_eq_true, Bool.and_self]

/-- satisfaction heuristic: every level gets exactly the threshold of the new criterion -/
theorem satisf_parameters_extended {fn fn0 : String} {lv lv0 : Levels Rat} {seed seed0 : Int} {cur cur0 : String}
    {rnd rnd0 : Bool} {crit ref : Crit Rat} {d d' : Draws Rat} {add : Addition Rat} {mp' : MParams Rat}
    (hndl : ∀ ts, lv = .thresholds ts → ∀ t ∈ ts, (t.map (·.1)).Nodup)
    (h1 : onAdded (.satisf fn0 lv0 seed0 cur0 rnd0) crit ref d = .ok (add, d'))
    (h2 : mergeParams (.satisf fn lv seed cur rnd) add = .ok mp') :
    Spec.C18.paramsExtended (.satisf fn lv seed cur rnd) mp' [crit.id] = true := by
  unfold onAdded at h1
  simp only at h1
  split at h1
  · exact (throw_bind_ne_ok.mp h1).elim
  · obtain ⟨⟨la, d2⟩, hla, h1⟩ := bind_eq_ok.mp h1
    simp only [pure, Except.pure, Except.ok.injEq, Prod.mk.injEq] at h1
    obtain ⟨rfl, _⟩ := h1
    unfold mergeParams at h2
    simp only at h2
    split at h2
    · exact (throw_bind_ne_ok.mp h2).elim
    · obtain ⟨lv', hlv, h2⟩ := bind_eq_ok.mp h2
      simp only [pure, Except.pure, Except.ok.injEq] at h2
      subst h2
      have hl := levelsMerge_extended (levelsOnAdded_shape hla) hndl hlv
      simp only [Spec.C18.paramsExtended, hl, beq_self_eq_true, Bool.and_self]

end Rdm
