/-
  Lemmas for the end-to-end model, part 9 (progress of the ranking-based biases):
    * `RankCriteriaAscending` of all seven listeners is total on coherent states whose alternatives hold exactly
      the declared criteria (weighted sum, OWA, satisfaction: `PrepareCumulatedWeightsMap`; Choquet:
      `decomposeWeights`);
    * all five ordering resolvers are total (the random ones given enough numbers in [0,1]);
    * `OnCriteriaRemoved` of the Choquet listener is total (every capacity it fetches is one `covers` demands).
-/
import Rdm.Lemmas.DecideProgressEval
import Rdm.Lemmas.BiasAChoquetImportance
import Rdm.Lemmas.BiasAReducedParse
import Mathlib.Tactic.Linarith
namespace Rdm
set_option linter.unusedSimpArgs false
set_option linter.unusedSectionVars false

section
variable {α : Type} [Num α]

/-! ### the importance maps -/

theorem prog_cumulated_total {cs : List (Crit α)} {co : List (Alt α)} {mapper : String → α → R α}
    (hm : ∀ a ∈ co, ∀ kv ∈ a.vals, ∃ m, mapper kv.1 kv.2 = .ok m) :
    ∃ w, cumulated cs co mapper = .ok w ∧ ∀ c ∈ cs, w.has c.id = true := by
  rw [BiasA.cumulated_eq_foldlM]
  apply prog_foldlM_total (fun w : KMap α => ∀ c ∈ cs, w.has c.id = true)
  · intro c hc
    rw [KMap.has_iff_mem_keys]
    unfold KMap.keys
    rw [List.map_map]
    exact List.mem_map.mpr ⟨c, hc, rfl⟩
  · intro acc hacc a ha
    apply prog_foldlM_total (fun w : KMap α => ∀ c ∈ cs, w.has c.id = true) hacc
    intro acc' hacc' kv hkv
    obtain ⟨m, hmm⟩ := hm a ha kv hkv
    unfold BiasA.cumStep
    rw [hmm]
    refine ⟨_, rfl, ?_⟩
    intro c hc
    split <;> exact (KMap.has_set _ _ _ _).mpr (Or.inl (hacc' c hc))

/-- which methods need the alternatives to hold exactly the declared criteria: the listener ranking of the
    weighted sum looks up a weight for every value key, OWA counts the values, the Choquet integral looks up
    the capacity of the sets of value keys -/
def prog_needsExact : MParams α → Bool
  | .ws _ => true
  | .owa _ => true
  | .choquet _ _ => true
  | _ => false

theorem prog_importanceMap_total (eps : α) {d : DMP α} (hc : Coherent d)
    (he : prog_needsExact d.mp = true → ProgExact d) :
    ∃ w, BiasA.importanceMap eps d = .ok w ∧ ∀ c ∈ d.crit, w.has c.id = true := by
  have hcov := hc.covers
  unfold BiasA.importanceMap
  cases hmp : d.mp with
  | ws wc =>
    rw [hmp] at hcov he
    have hex := he rfl
    simp only [Spec.C07.covers, List.all_eq_true, List.any_eq_true] at hcov
    apply prog_cumulated_total
    intro a ha kv hkv
    obtain ⟨c, hcm, e⟩ := hex.declared a (List.mem_append_left _ ha) kv.1 (List.mem_map_of_mem hkv)
    obtain ⟨x, hx⟩ := decideFindWCrit_total (wc := wc) (id := kv.1) (by rw [← e]; exact hcov c hcm)
    exact ⟨x.w * kv.2, by simp only [hx, bind, Except.bind, pure, Except.pure]⟩
  | owa wc => exact prog_cumulated_total (fun _ _ kv _ => ⟨kv.2, rfl⟩)
  | satisf fn lv seed cur rnd => exact prog_cumulated_total (fun _ _ kv _ => ⟨kv.2, rfl⟩)
  | choquet w cs =>
    rw [hmp] at hcov he
    have hex := he rfl
    obtain ⟨acc, hacc⟩ := BiasA.chq_decompose_succeeds (eps := eps) (cs := d.crit) (co := d.co) (w := w)
      (fun a ha => hex.declared a (List.mem_append_left _ ha))
      (fun a ha => prog_choquetValue_total hcov hc.nodup (hex.keysNodup a (List.mem_append_left _ ha))
        (hex.declared a (List.mem_append_left _ ha)))
    refine ⟨acc, hacc, ?_⟩
    obtain ⟨_, _, hget⟩ := BiasA.chq_decompose_formulaN hacc
    intro c hcm
    unfold KMap.has
    rw [show List.lookup c.id acc = acc.get? c.id from rfl, hget c hcm]
    rfl
  | electre ec dist =>
    rw [hmp] at hcov
    simp only [Spec.C07.covers, List.all_eq_true] at hcov
    refine ⟨_, rfl, ?_⟩
    intro c hcm
    have := hcov c hcm
    rw [KMap.has_iff_mem_keys] at this ⊢
    simpa [KMap.keys, List.map_map, Function.comp_def] using this
  | majority w cur seed rnd dr =>
    rw [hmp] at hcov
    simp only [Spec.C07.covers, List.all_eq_true] at hcov
    exact ⟨w, rfl, hcov⟩
  | aspect fn lv seed w rnd =>
    rw [hmp] at hcov
    simp only [Spec.C07.covers, Bool.and_eq_true, List.all_eq_true] at hcov
    exact ⟨w, rfl, hcov.1⟩

theorem prog_rankAsc_total (eps : α) {d : DMP α} (hc : Coherent d)
    (he : prog_needsExact d.mp = true → ProgExact d) : ∃ r, rankAsc eps d = .ok r := by
  obtain ⟨w, hw, hhas⟩ := prog_importanceMap_total eps hc he
  obtain ⟨r, hr⟩ := decideSortByWeights_total (cs := d.crit) (w := w) hhas
  exact ⟨r, by rw [BiasA.rankAsc_eq_sort, hw]; exact hr⟩

/-! ### the roulette orderings -/

theorem prog_rouletteLoop_total : ∀ (k : Nat) (sorted : List (WCrit α)) (total : α) (d : Draws α),
    sorted.length = k → k ≤ d.length → ∃ r, rouletteLoop k sorted total d = .ok r
  | 0, _, _, d, _, _ => ⟨([], d), rfl⟩
  | k + 1, sorted, total, d, hl, hd => by
    obtain ⟨u, d1, hu, hl1⟩ := decideDraw_total (d := d) (by omega)
    have hne : sorted.isEmpty = false := by
      cases sorted with
      | nil => simp at hl
      | cons _ _ => rfl
    unfold rouletteLoop
    simp only [hne, Bool.and_false, Bool.false_eq_true, if_false, hu, bind, Except.bind]
    cases hs : rouletteScan sorted Num.zero (u * total) with
    | some p =>
      obtain ⟨c, rest⟩ := p
      have hlen : rest.length = k := by have := BiasA.rouletteScan_length hs; omega
      obtain ⟨r, hr⟩ := prog_rouletteLoop_total k rest (total - c.w) d1 hlen (by omega)
      exact ⟨(c.crit :: r.1, r.2), by simp only [hr, pure, Except.pure]⟩
    | none =>
      have hk : k < sorted.length := by omega
      simp only [List.getElem?_eq_getElem hk]
      obtain ⟨r, hr⟩ := prog_rouletteLoop_total k sorted.dropLast (total - sorted[k].w) d1 (by simp [hl]) (by omega)
      exact ⟨(sorted[k].crit :: r.1, r.2), by simp only [hr, pure, Except.pure]⟩

theorem prog_weakestByProbability_total (ranked : List (WCrit α)) (d : Draws α) (hd : ranked.length ≤ d.length) :
    ∃ r, weakestByProbability ranked d = .ok r := by
  unfold weakestByProbability
  exact prog_rouletteLoop_total _ _ _ _ (BiasA.rouletteWeights_crit ranked).2 hd

end

/-! ### the uniform shuffle (numbers in [0,1]) -/

theorem prog_ordShuffleLoop_total {β : Type} : ∀ (i : Nat) (l : List β) (d : Draws Rat), i < l.length ∨ i = 0 →
    i ≤ d.length → (∀ u ∈ d, 0 ≤ u ∧ u ≤ 1) → ∃ r, ordShuffleLoop l i d = .ok r
  | 0, l, d, _, _, _ => ⟨(l, d), rfl⟩
  | i + 1, l, d, hi, hd, hu => by
    have hi' : i + 1 < l.length := by omega
    cases d with
    | nil => simp at hd
    | cons u d1 =>
      obtain ⟨hu0, hu1⟩ := hu u (by simp)
      have hx0 : (0 : Rat) ≤ u * ((Int.ofNat (i + 1) : Int) : Rat) := by
        apply mul_nonneg hu0
        have : (0 : Int) ≤ Int.ofNat (i + 1) := Int.natCast_nonneg (i + 1)
        exact_mod_cast this
      have hx1 : u * ((Int.ofNat (i + 1) : Int) : Rat) ≤ ((i + 1 : Nat) : Rat) := by
        have : ((Int.ofNat (i + 1) : Int) : Rat) = ((i + 1 : Nat) : Rat) := by simp
        rw [this]
        have hpos : (0 : Rat) ≤ ((i + 1 : Nat) : Rat) := by positivity
        nlinarith
      have htr : ordTruncInt (u * (Num.ofNat (i + 1) : Rat)) = (u * ((Int.ofNat (i + 1) : Int) : Rat)).floor := by
        unfold ordTruncInt Num.ofNat
        simp only [Num.ofInt_rat, Num.zero_rat, Num.floorInt_rat]
        rw [if_neg (not_lt.mpr hx0)]
      have hj0 : 0 ≤ (u * ((Int.ofNat (i + 1) : Int) : Rat)).floor := Rat.le_floor_iff.mpr (by simpa using hx0)
      have hj1 : (u * ((Int.ofNat (i + 1) : Int) : Rat)).floor ≤ ((i + 1 : Nat) : Int) := by
        have h1 := Rat.floor_le (u * ((Int.ofNat (i + 1) : Int) : Rat))
        have h2 : (((u * ((Int.ofNat (i + 1) : Int) : Rat)).floor : Int) : Rat) ≤ (((i + 1 : Nat) : Int) : Rat) := by
          push_cast at hx1 ⊢
          linarith
        exact_mod_cast h2
      have hjn : (u * ((Int.ofNat (i + 1) : Int) : Rat)).floor.toNat < l.length := by omega
      have hsw : ordSwapAt l (i + 1) (u * ((Int.ofNat (i + 1) : Int) : Rat)).floor.toNat =
          .ok ((l.set (i + 1) l[(u * ((Int.ofNat (i + 1) : Int) : Rat)).floor.toNat]).set
            (u * ((Int.ofNat (i + 1) : Int) : Rat)).floor.toNat l[i + 1]) := by
        unfold ordSwapAt
        rw [dif_pos ⟨hi', hjn⟩]; rfl
      obtain ⟨r, hr⟩ := prog_ordShuffleLoop_total i
        ((l.set (i + 1) l[(u * ((Int.ofNat (i + 1) : Int) : Rat)).floor.toNat]).set
            (u * ((Int.ofNat (i + 1) : Int) : Rat)).floor.toNat l[i + 1]) d1
        (Or.inl (by simp only [List.length_set]; omega)) (by simp at hd; omega)
        (fun v hv => hu v (List.mem_cons_of_mem _ hv))
      refine ⟨r, ?_⟩
      unfold ordShuffleLoop
      simp only [draw, bind, Except.bind, pure, Except.pure, htr]
      rw [if_neg (not_lt.mpr hj0)]
      simp only [hsw]
      exact hr

theorem prog_shuffle_total {β : Type} (l : List β) (d : Draws Rat) (hd : l.length - 1 ≤ d.length)
    (hu : ∀ u ∈ d, 0 ≤ u ∧ u ≤ 1) : ∃ r, shuffle l d = .ok r := by
  unfold shuffle
  apply prog_ordShuffleLoop_total _ _ _ _ hd hu
  omega

/-! ### every registered ordering -/

/-- the five registered ordering resolvers (empty = the first) -/
def prog_knownOrdering (o : String) : Prop :=
  o = "" ∨ o = Facts.orderingWeakest ∨ o = Facts.orderingStrongest ∨ o = Facts.orderingRandom ∨
    o = Facts.orderingWeakestByProbability ∨ o = Facts.orderingStrongestByProbability

theorem prog_orderCriteria_total {eps : Rat} {o : String} {d : DMP Rat} {dr : Draws Rat} (hc : Coherent d)
    (he : prog_needsExact d.mp = true → ProgExact d) (ho : prog_knownOrdering o)
    (hlen : d.crit.length ≤ dr.length) (hu : ∀ u ∈ dr, 0 ≤ u ∧ u ≤ 1) :
    ∃ ordered, orderCriteria eps o d dr = .ok ordered := by
  obtain ⟨r, hrk⟩ := prog_rankAsc_total eps hc he
  have hrl : r.length = d.crit.length := by
    have := (BiasA.rankAsc_perm hrk).length_eq
    simpa using this
  rcases ho with rfl | rfl | rfl | rfl | rfl | rfl
  · rw [BiasA.orderCriteria_default, BiasA.orderCriteria_weakest, hrk]; exact ⟨_, rfl⟩
  · rw [BiasA.orderCriteria_weakest, hrk]; exact ⟨_, rfl⟩
  · rw [BiasA.orderCriteria_strongest, hrk]; exact ⟨_, rfl⟩
  · rw [BiasA.orderCriteria_random]
    obtain ⟨p, hp⟩ := prog_shuffle_total d.crit dr (by omega) hu
    exact ⟨p.1, by rw [hp]; rfl⟩
  · rw [BiasA.orderCriteria_wbp, hrk]
    obtain ⟨p, hp⟩ := prog_weakestByProbability_total r dr (by omega)
    exact ⟨p.1, by simp only [BiasA.ok_bind, hp]; rfl⟩
  · rw [BiasA.orderCriteria_sbp, hrk]
    obtain ⟨p, hp⟩ := prog_weakestByProbability_total r dr (by omega)
    exact ⟨p.1.reverse, by simp only [BiasA.ok_bind, hp]; rfl⟩

/-! ### `OnCriteriaRemoved` of the Choquet listener -/

section
variable {α : Type} [Num α]

/-- nothing breaks: the capacities `OnCriteriaRemoved` fetches — one per non-empty subset of the kept criteria —
    are among those `Spec.C07.covers` demands for the current criteria (the key is order-insensitive) -/
theorem prog_onRemoved_choquet_total {crit left : List (Crit α)} {w : KMap α} {cs : List (Crit α)}
    (hcov : Spec.C07.covers crit (.choquet w cs) = true) (hn : (crit.map (·.id)).Nodup)
    (hln : (left.map (·.id)).Nodup) (hsub : ∀ c ∈ left, c ∈ crit) :
    ∃ mp', onRemoved (.choquet w cs) left = .ok mp' := by
  simp only [Spec.C07.covers, List.all_eq_true] at hcov
  obtain ⟨fw, hfw⟩ := decideMapM_total (ε := String)
    (f := fun s : List String => (do pure (criterionKey s, ← KMap.fetch w (criterionKey s)) : R (String × α)))
    (l := powerSet (left.map (·.id))) (by
      intro s hs
      obtain ⟨hsl, hne⟩ := BiasA.powerSet_sublist _ _ hs
      obtain ⟨s', hs', hp⟩ := exists_powerSet_perm (crit.map (·.id)) s hn (hsl.nodup hln) hne (by
        intro x hx
        obtain ⟨c, hc, rfl⟩ := List.mem_map.mp (hsl.subset hx)
        exact List.mem_map_of_mem (hsub c hc))
      obtain ⟨v, hv⟩ := decideFetch_total (m := w) (k := criterionKey s) (by
        rw [← criterionKey_perm_eq hp]; exact hcov s' hs')
      exact ⟨(criterionKey s, v), by simp only [hv, bind, Except.bind, pure, Except.pure]⟩)
  exact ⟨.choquet fw left, by unfold onRemoved; dsimp only; rw [hfw]; rfl⟩

/-- `OnCriteriaRemoved` for every method -/
theorem prog_onRemoved_total {mp : MParams α} {crit left : List (Crit α)}
    (hcov : Spec.C07.covers crit mp = true) (hn : (crit.map (·.id)).Nodup) (hln : (left.map (·.id)).Nodup)
    (hsub : ∀ c ∈ left, c ∈ crit) (hk : listenerKnowsLevels mp = true) : ∃ mp', onRemoved mp left = .ok mp' := by
  cases hmp : mp with
  | choquet w cs => rw [hmp] at hcov; exact prog_onRemoved_choquet_total hcov hn hln hsub
  | ws wc => exact decideOnRemoved_total (hmp ▸ hcov) hsub (hmp ▸ hk) rfl
  | owa wc => exact decideOnRemoved_total (hmp ▸ hcov) hsub (hmp ▸ hk) rfl
  | electre ec dist => exact decideOnRemoved_total (hmp ▸ hcov) hsub (hmp ▸ hk) rfl
  | majority w cur seed rnd dr => exact decideOnRemoved_total (hmp ▸ hcov) hsub (hmp ▸ hk) rfl
  | aspect fn lv seed w rnd => exact decideOnRemoved_total (hmp ▸ hcov) hsub (hmp ▸ hk) rfl
  | satisf fn lv seed cur rnd => exact decideOnRemoved_total (hmp ▸ hcov) hsub (hmp ▸ hk) rfl

/-- criteria omission after the split, every method (the sibling of `decideOmit_total` without `notChoquet`) -/
theorem prog_omit_total {c : SplitCond α} {ordered om kept : List (Crit α)} {cur : DMP α} (hc : Coherent cur)
    (hk : listenerKnowsLevels cur.mp = true) (hs : c.split ordered = .ok (om, kept))
    (hkn : (kept.map (·.id)).Nodup) (hsub : ∀ x ∈ kept, x ∈ cur.crit) :
    ∃ res, omitCriteria c ordered cur = .ok (res, om) := by
  obtain ⟨mp, hmp⟩ := prog_onRemoved_total (left := kept) hc.covers hc.nodup hkn hsub hk
  obtain ⟨co, hco⟩ := decidePreserveCriteria_total (alts := cur.co) (kept := kept)
    (fun a ha c hcm => hc.values a (List.mem_append_left _ ha) c (hsub c hcm))
  obtain ⟨nc, hnc'⟩ := decidePreserveCriteria_total (alts := cur.nc) (kept := kept)
    (fun a ha c hcm => hc.values a (List.mem_append_right _ ha) c (hsub c hcm))
  exact ⟨{ nc := nc, co := co, crit := kept, mp := mp }, by
    simp only [omitCriteria, hs, hmp, hco, hnc', bind, Except.bind, pure, Except.pure]⟩

end

end Rdm
