/-
  Lemmas about criteria splitting and the five ordering resolvers (C15, C16): the split is
  take/drop at the pivot; every resolver returns a permutation of the criteria (the roulette of
  `weakestByProbability` including its fallback branch); `sortByWeights` is sorted ascending.
-/
import Rdm.Lemmas.BiasABasic
import Rdm.Lemmas.NumRat
import Mathlib.Tactic.Linarith
set_option linter.unusedSectionVars false
set_option linter.unusedSimpArgs false
open Rdm
namespace Rdm.BiasA
variable {α : Type} [Num α]

/-! ### split -/

theorem clampInt_mem {p lo hi : Int} (h : lo ≤ hi) : lo ≤ clampInt p lo hi ∧ clampInt p lo hi ≤ hi := by
  unfold clampInt; split_ifs <;> omega

theorem clampInt_of_mem {p lo hi : Int} (h1 : lo ≤ p) (h2 : p ≤ hi) : clampInt p lo hi = p := by
  unfold clampInt; split_ifs <;> omega

theorem clampInt_eq_max_min {p lo hi : Int} (h : lo ≤ hi) : clampInt p lo hi = max lo (min hi p) := by
  unfold clampInt; split_ifs <;> omega

/-- the split is `take`/`drop` at the pivot, which lies in `[0, n]` -/
theorem split_ok {β : Type} {c : SplitCond α} {l a b : List β} (h : c.split l = .ok (a, b)) :
    0 ≤ c.pivot l.length ∧ c.pivot l.length ≤ l.length ∧
      a = l.take (c.pivot l.length).toNat ∧ b = l.drop (c.pivot l.length).toNat := by
  unfold SplitCond.split at h
  simp only at h
  split at h
  · cases h
  · rename_i hb
    rw [pure_ok] at h
    cases h
    simp only [Bool.or_eq_true, decide_eq_true_eq, not_or, not_lt] at hb
    exact ⟨hb.1, hb.2, rfl, rfl⟩

theorem split_append {β : Type} {c : SplitCond α} {l a b : List β} (h : c.split l = .ok (a, b)) :
    a ++ b = l := by
  obtain ⟨_, _, rfl, rfl⟩ := split_ok h
  exact List.take_append_drop _ _

theorem split_length {β : Type} {c : SplitCond α} {l a b : List β} (h : c.split l = .ok (a, b)) :
    (a.length : Int) = c.pivot l.length := by
  obtain ⟨h0, hn, rfl, rfl⟩ := split_ok h
  rw [List.length_take]
  omega

theorem split_map {β γ : Type} (g : β → γ) {c : SplitCond α} {l a b : List β}
    (h : c.split l = .ok (a, b)) : c.split (l.map g) = .ok (a.map g, b.map g) := by
  obtain ⟨h0, hn, rfl, rfl⟩ := split_ok h
  unfold SplitCond.split
  simp only [List.length_map, List.map_take, List.map_drop]
  have : ¬ ((decide (c.pivot l.length < 0) || decide ((l.length : Int) < c.pivot l.length)) = true) := by
    simp only [Bool.or_eq_true, decide_eq_true_eq, not_or, not_lt]; exact ⟨h0, hn⟩
  rw [if_neg this]; rfl

/-- conversely, a split of a mapped list comes from a split of the list -/
theorem split_of_map {β γ : Type} (g : β → γ) {c : SplitCond α} {l : List β} {a' b' : List γ}
    (h : c.split (l.map g) = .ok (a', b')) : ∃ a b, c.split l = .ok (a, b) ∧ a' = a.map g ∧ b' = b.map g := by
  obtain ⟨h0, hn, rfl, rfl⟩ := split_ok h
  simp only [List.length_map] at h0 hn ⊢
  refine ⟨l.take (c.pivot l.length).toNat, l.drop (c.pivot l.length).toNat, ?_, by simp [List.map_take], by simp [List.map_drop]⟩
  unfold SplitCond.split
  have : ¬ ((decide (c.pivot l.length < 0) || decide ((l.length : Int) < c.pivot l.length)) = true) := by
    simp only [Bool.or_eq_true, decide_eq_true_eq, not_or, not_lt]; exact ⟨h0, hn⟩
  simp only [if_neg this]; rfl

/-! ### sortedness (over the rationals) -/

theorem sortWCrits_sorted (l : List (WCrit Rat)) : (sortWCrits l).Pairwise (fun a b => a.w ≤ b.w) := by
  have h := List.pairwise_mergeSort (le := fun (a b : WCrit Rat) => !decide (b.w < a.w))
    (by intro a b c hab hbc
        simp only [Bool.not_eq_true', decide_eq_false_iff_not, not_lt] at *
        exact le_trans hab hbc)
    (by intro a b
        simp only [Bool.or_eq_true, Bool.not_eq_true', decide_eq_false_iff_not, not_lt]
        exact le_total _ _) l
  unfold sortWCrits
  refine h.imp ?_
  intro a b hab
  simpa only [Bool.not_eq_true', decide_eq_false_iff_not, not_lt] using hab

theorem pairwise_split {β : Type} {R : β → β → Prop} {c : SplitCond α} {l a b : List β}
    (hs : l.Pairwise R) (h : c.split l = .ok (a, b)) : ∀ x ∈ a, ∀ y ∈ b, R x y := by
  have := split_append h
  subst this
  exact (List.pairwise_append.1 hs).2.2

theorem zipWithWeights_crit {cs : List (Crit α)} {w : KMap α} {r : List (WCrit α)}
    (h : zipWithWeights cs w = .ok r) : r.map (·.crit) = cs := by
  unfold zipWithWeights at h
  refine forall₂_map_eq (R := fun x y => _ = Except.ok y) ?_ (mapM_ok_forall₂ h)
  intro c y hy
  rw [bind_ok] at hy
  obtain ⟨v, _, hy⟩ := hy
  rw [pure_ok] at hy
  subst hy; rfl

theorem sortWCrits_perm (l : List (WCrit α)) : (sortWCrits l).Perm l := List.mergeSort_perm _ _

theorem sortByWeights_eq {cs : List (Crit α)} {w : KMap α} {r : List (WCrit α)}
    (h : sortByWeights cs w = .ok r) : ∃ z, zipWithWeights cs w = .ok z ∧ r = sortWCrits z := by
  unfold sortByWeights at h
  rw [bind_ok] at h
  obtain ⟨z, hz, h⟩ := h
  rw [pure_ok] at h
  exact ⟨z, hz, h.symm⟩

theorem sortByWeights_perm {cs : List (Crit α)} {w : KMap α} {r : List (WCrit α)}
    (h : sortByWeights cs w = .ok r) : (r.map (·.crit)).Perm cs := by
  obtain ⟨z, hz, rfl⟩ := sortByWeights_eq h
  rw [← zipWithWeights_crit hz]
  exact (sortWCrits_perm z).map _

/-- every listener ranks exactly the declared criteria -/
theorem rankAsc_perm {eps : α} {d : DMP α} {r : List (WCrit α)} (h : rankAsc eps d = .ok r) :
    (r.map (·.crit)).Perm d.crit := by
  unfold rankAsc at h
  split at h
  all_goals first
    | exact sortByWeights_perm h
    | (rw [bind_ok] at h; obtain ⟨w, _, h⟩ := h; exact sortByWeights_perm h)

/-! ### random -/

theorem swapAt_perm {β : Type} {l r : List β} {i j : Nat} (h : ordSwapAt l i j = .ok r) : r.Perm l := by
  unfold ordSwapAt at h
  split at h
  · rename_i hij
    rw [pure_ok] at h
    subst h
    exact List.set_set_perm hij.1 hij.2
  · cases h

theorem shuffleLoop_perm {β : Type} : ∀ (i : Nat) {l r : List β} {d d' : Draws α},
    ordShuffleLoop l i d = .ok (r, d') → r.Perm l := by
  intro i
  induction i with
  | zero => intro l r d d' h; unfold ordShuffleLoop at h; rw [pure_ok] at h; cases h; exact .refl _
  | succ i ih =>
    intro l r d d' h
    unfold ordShuffleLoop at h
    rw [bind_ok] at h
    obtain ⟨⟨u, d1⟩, _, h⟩ := h
    simp only at h
    split at h
    · cases h
    · rw [bind_ok] at h
      obtain ⟨l', hl', h⟩ := h
      exact (ih h).trans (swapAt_perm hl')


theorem shuffle_perm {β : Type} {l r : List β} {d d' : Draws α} (h : shuffle l d = .ok (r, d')) :
    r.Perm l := shuffleLoop_perm _ h

/-! ### roulette -/

theorem rouletteScan_perm : ∀ {l : List (WCrit α)} {cur rw : α} {c : WCrit α} {rest : List (WCrit α)},
    rouletteScan l cur rw = some (c, rest) → l.Perm (c :: rest) := by
  intro l
  induction l with
  | nil => intro cur rw c rest h; simp [rouletteScan] at h
  | cons x xs ih =>
    intro cur rw c rest h
    unfold rouletteScan at h
    simp only at h
    split at h
    · cases h; exact .refl _
    · cases hs : rouletteScan xs (cur + x.w) rw with
      | none => simp [hs] at h
      | some p =>
        obtain ⟨c', r'⟩ := p
        simp [hs] at h
        obtain ⟨rfl, rfl⟩ := h
        exact ((ih hs).cons x).trans (List.Perm.swap _ _ _)

theorem rouletteScan_length {l : List (WCrit α)} {cur rw : α} {c : WCrit α} {rest : List (WCrit α)}
    (h : rouletteScan l cur rw = some (c, rest)) : l.length = rest.length + 1 := by
  simpa using (rouletteScan_perm h).length_eq

/-- the roulette returns a permutation of the criteria it was given — including the fallback branch
    (no entry reached the random weight), where the code takes the last entry -/
theorem rouletteLoop_perm : ∀ (k : Nat) {sorted : List (WCrit α)} {total : α} {d d' : Draws α}
    {r : List (Crit α)}, sorted.length = k → rouletteLoop k sorted total d = .ok (r, d') →
    r.Perm (sorted.map (·.crit)) := by
  intro k
  induction k with
  | zero =>
    intro sorted total d d' r hl h
    unfold rouletteLoop at h
    rw [pure_ok] at h
    cases h
    have : sorted = [] := List.eq_nil_of_length_eq_zero hl
    subst this; exact .refl _
  | succ k ih =>
    intro sorted total d d' r hl h
    unfold rouletteLoop at h
    split at h
    · cases h
    · rw [bind_ok] at h
      obtain ⟨⟨u, d1⟩, _, h⟩ := h
      simp only at h
      split at h
      · rename_i c rest hs
        rw [bind_ok] at h
        obtain ⟨⟨tl, d2⟩, htl, h⟩ := h
        rw [pure_ok] at h
        cases h
        have hlen : rest.length = k := by have := rouletteScan_length hs; omega
        have hp := (rouletteScan_perm hs).map (·.crit)
        exact ((ih hlen htl).cons _).trans hp.symm
      · split at h
        · cases h
        · rename_i last hlast
          rw [bind_ok] at h
          obtain ⟨⟨tl, d2⟩, htl, h⟩ := h
          rw [pure_ok] at h
          cases h
          have hne : sorted ≠ [] := by intro e; subst e; simp at hl
          have hlen : sorted.dropLast.length = k := by simp [hl]
          have hlast' : sorted.getLast hne = last := by
            rw [List.getLast_eq_getElem]
            have : sorted.length - 1 = k := by omega
            simp only [this]
            rw [List.getElem?_eq_some_iff] at hlast
            exact hlast.2
          have hsplit : sorted = sorted.dropLast ++ [last] := by
            rw [← hlast']; exact (List.dropLast_append_getLast hne).symm
          have hp : (sorted.map (·.crit)).Perm (last.crit :: sorted.dropLast.map (·.crit)) := by
            conv => lhs; rw [hsplit]
            simp only [List.map_append, List.map_cons, List.map_nil]
            exact List.perm_append_comm
          exact ((ih hlen htl).cons _).trans hp.symm

theorem rouletteWeights_crit (l : List (WCrit α)) :
    (rouletteWeights l).1.map (·.crit) = l.map (·.crit) ∧ (rouletteWeights l).1.length = l.length := by
  unfold rouletteWeights
  cases l with
  | nil => simp
  | cons s0 rest => simp [Function.comp_def]



theorem weakestByProbability_perm {ranked : List (WCrit α)} {d d' : Draws α} {r : List (Crit α)}
    (h : weakestByProbability ranked d = .ok (r, d')) : r.Perm (ranked.map (·.crit)) := by
  unfold weakestByProbability at h
  have hw := rouletteWeights_crit ranked
  have := rouletteLoop_perm ranked.length hw.2 h
  rwa [hw.1] at this

/-- every ordering resolver returns a permutation of the current criteria -/
theorem orderCriteria_perm {eps : α} {name : String} {d : DMP α} {dr : Draws α} {r : List (Crit α)}
    (h : orderCriteria eps name d dr = .ok r) : r.Perm d.crit := by
  unfold orderCriteria at h
  rw [bind_ok] at h
  obtain ⟨o, _, h⟩ := h
  split at h
  · rw [bind_ok] at h; obtain ⟨x, hx, h⟩ := h; rw [pure_ok] at h; subst h
    exact rankAsc_perm hx
  split at h
  · rw [bind_ok] at h; obtain ⟨x, hx, h⟩ := h; rw [pure_ok] at h; subst h
    exact (List.reverse_perm _).trans (rankAsc_perm hx)
  split at h
  · rw [bind_ok] at h; obtain ⟨⟨x, d1⟩, hx, h⟩ := h; rw [pure_ok] at h; subst h
    exact shuffle_perm hx
  split at h
  · rw [bind_ok] at h; obtain ⟨x, hx, h⟩ := h
    rw [bind_ok] at h; obtain ⟨⟨y, d1⟩, hy, h⟩ := h; rw [pure_ok] at h; subst h
    exact (weakestByProbability_perm hy).trans (rankAsc_perm hx)
  split at h
  · rw [bind_ok] at h; obtain ⟨x, hx, h⟩ := h
    rw [bind_ok] at h; obtain ⟨⟨y, d1⟩, hy, h⟩ := h; rw [pure_ok] at h; subst h
    exact (List.reverse_perm _).trans ((weakestByProbability_perm hy).trans (rankAsc_perm hx))
  · cases h

end Rdm.BiasA
