/-
  Concrete requests (over `Rat`) used by the `example`s beside the END-TO-END theorems of Props/C01, C03, C04:
  four known alternatives, three of them in `choseToMake` (two with equal values), two criteria, and a bias
  list with a fatigue that fires, a preference reversal that does not (probability 1/2 against the draw 3/4)
  and a disabled entry.  `decide +kernel` evaluates the whole model on them (no sort of the model is forced
  before the answer exists: `List.mergeSort` is by well-founded recursion and does not reduce in the kernel,
  which is why no example uses a bias that ranks the criteria).
-/
import Rdm.Model.Decide
namespace Rdm

theorem e2e_ok_of_isOk {ε β : Type} {x : Except ε β} (h : x.isOk = true) : ∃ r, x = .ok r := by
  cases x with
  | error e => cases h
  | ok r => exact ⟨r, rfl⟩

def e2eExC0 : Crit Rat := ⟨"c0", "gain", none⟩
def e2eExC1 : Crit Rat := ⟨"c1", "cost", none⟩
def e2eExG1 : Crit Rat := ⟨"c1", "gain", none⟩

def e2eExKnown : List (Alt Rat) :=
  [⟨"a", [("c0", 1), ("c1", 2)]⟩, ⟨"b", [("c0", 3), ("c1", 1)]⟩, ⟨"c", [("c0", 3), ("c1", 1)]⟩,
   ⟨"d", [("c0", 0), ("c1", 0)]⟩]

def e2eExBiases : List (BiasReq Rat (BProps Rat)) :=
  [⟨Facts.biasFatigue, false, none, .fatigue (.const (1 / 8)) ⟨-1, false⟩ 3⟩,
   ⟨Facts.biasReversal, false, some (1 / 2), .split ⟨1 / 2, 0, maxInt64⟩ "" 7⟩,
   ⟨Facts.biasOmission, true, none, .bad⟩]

/-- seed 5: activation draws; seed 3: the fatigue's stream (one number per known alternative and criterion) -/
def e2eExSeeds : Seeds Rat :=
  [(5, [1 / 4, 3 / 4]), (3, [1 / 2, 1 / 4, 3 / 4, 1 / 8, 1 / 2, 1 / 4, 3 / 4, 1 / 8]), (7, [])]

def e2eExWs : Request Rat :=
  { method := Facts.methodWeightedSum, crit := [e2eExC0, e2eExC1], known := e2eExKnown,
    chosen := ["c", "a", "b"], mp := some (.ws [⟨e2eExC0, 1⟩, ⟨e2eExC1, 2⟩]),
    biases := e2eExBiases, biasSeed := 5 }

def e2eExOwa : Request Rat :=
  { e2eExWs with method := Facts.methodOwa, mp := some (.owa [⟨e2eExC0, 1 / 4⟩, ⟨e2eExC1, 3 / 4⟩]) }

/-- the weighted-sum request without an enabled bias, and the same with `knownAlternatives` reversed and
    `choseToMake` reordered -/
def e2eExWsPlain : Request Rat := { e2eExWs with biases := [⟨Facts.biasOmission, true, none, .bad⟩] }
def e2eExWsPlain' : Request Rat :=
  { e2eExWsPlain with known := e2eExKnown.reverse, chosen := ["a", "b", "c"], biases := [] }

/-- current choice `"d"`: known, not in `choseToMake` -/
def e2eExMaj : Request Rat :=
  { e2eExWs with method := Facts.methodMajority,
                 mp := some (.majority [("c0", 1), ("c1", 2)] "d" 11 false "") }

/-- Choquet needs gain criteria and a capacity per non-empty subset.  The Choquet integral sorts the values
    of every alternative (`List.mergeSort`, not reducible in the kernel) and recurses by well-founded recursion,
    so this instance is not evaluated by `decide +kernel` but constructed in Props/C03: no bias is enabled (one
    disabled entry) and every alternative lists its values in ascending order. -/
def e2eExCap : KMap Rat := [("c0", 1 / 4), ("c1", 1 / 2), ("c0,c1", 1)]
def e2eExKnownAsc : List (Alt Rat) :=
  [⟨"a", [("c0", 1), ("c1", 2)]⟩, ⟨"b", [("c0", 3), ("c1", 4)]⟩, ⟨"c", [("c0", 3), ("c1", 3)]⟩,
   ⟨"d", [("c0", 0), ("c1", 0)]⟩]
def e2eExChoquet : Request Rat :=
  { method := Facts.methodChoquet, crit := [e2eExC0, e2eExG1], known := e2eExKnownAsc,
    chosen := ["c", "a", "b"], mp := some (.choquet e2eExCap [e2eExC0, e2eExG1]),
    biases := [⟨Facts.biasOmission, true, none, .bad⟩], biasSeed := 5 }
/-- the state `prepareParams` builds from `e2eExChoquet` -/
def e2eExChoquetFin : DMP Rat :=
  ⟨[⟨"d", [("c0", 0), ("c1", 0)]⟩],
   [⟨"c", [("c0", 3), ("c1", 3)]⟩, ⟨"a", [("c0", 1), ("c1", 2)]⟩, ⟨"b", [("c0", 3), ("c1", 4)]⟩],
   [e2eExC0, e2eExG1], .choquet e2eExCap [e2eExC0, e2eExG1]⟩

theorem e2e_mapM_isOk {β γ : Type} {f : β → R γ} :
    ∀ {l : List β}, (∀ x ∈ l, (f x).isOk = true) → (l.mapM f).isOk = true := by
  intro l
  induction l with
  | nil => intro _; rfl
  | cons a l ih =>
    intro h
    rw [List.mapM_cons]
    obtain ⟨b, hb⟩ := e2e_ok_of_isOk (h a List.mem_cons_self)
    obtain ⟨bs, hbs⟩ := e2e_ok_of_isOk (ih fun x hx => h x (List.mem_cons_of_mem _ hx))
    rw [hb, hbs]; rfl

end Rdm
