/-
  Lemmas for the end-to-end model (Model/Decide.lean), part 1: the model reads the random streams only at the
  seeds the request names.
    * congruence of `applyBias`, `processLoop`, `pipeline`, `evaluateWith` in the stream function `g`;
    * the method's own `randomSeed` is never changed by a bias (`decideApplyBias_seed`), so the seed the
      final `Evaluate` uses is the one of the request's parsed method parameters.
  Core only (no Mathlib).
-/
import Rdm.Model.Decide
import Rdm.Lemmas.BiasBAnchorFrame
namespace Rdm
set_option linter.unusedSectionVars false
variable {α : Type} [Num α]

/-! ### a generic invariant rule for `processLoop` -/

/-- whatever every successful `apply` preserves is preserved by the whole loop -/
theorem decideLoop_invariant {S P Rep : Type} {apply : String → P → S → S → R (S × Rep)} {orig : S}
    (Inv : S → Prop) :
    ∀ (chosen : List (Chosen α P)),
      (∀ b ∈ chosen, ∀ cur next rep, Inv cur → apply b.name b.props orig cur = .ok (next, rep) → Inv next) →
      ∀ (cur fin : S) (d : Draws α) (outs : List (BiasOut α Rep)),
        Inv cur → processLoop apply orig chosen cur d = .ok (fin, outs) → Inv fin := by
  intro chosen
  induction chosen with
  | nil =>
    intro _ cur fin d outs hc h
    simp only [processLoop, pure, Except.pure, Except.ok.injEq, Prod.mk.injEq] at h
    obtain ⟨rfl, _⟩ := h
    exact hc
  | cons b rest ih =>
    intro hstep cur fin d outs hc h
    unfold processLoop at h
    obtain ⟨⟨u, d'⟩, _, h⟩ := bind_eq_ok.mp h
    dsimp only at h
    have ih' := ih (fun b' hb' => hstep b' (List.mem_cons_of_mem _ hb'))
    split at h
    · obtain ⟨⟨next, rep⟩, ha, h⟩ := bind_eq_ok.mp h
      dsimp only at h
      obtain ⟨⟨fin', outs'⟩, hl, h⟩ := bind_eq_ok.mp h
      simp only [pure, Except.pure, Except.ok.injEq, Prod.mk.injEq] at h
      obtain ⟨rfl, _⟩ := h
      exact ih' next fin' d' outs' (hstep b (by simp) cur next rep hc ha) hl
    · obtain ⟨⟨fin', outs'⟩, hl, h⟩ := bind_eq_ok.mp h
      simp only [pure, Except.pure, Except.ok.injEq, Prod.mk.injEq] at h
      obtain ⟨rfl, _⟩ := h
      exact ih' cur fin' d' outs' hc hl

/-- the loop emits one entry per chosen bias, names echoed -/
theorem decideLoop_names {S P Rep : Type} {apply : String → P → S → S → R (S × Rep)} :
    ∀ (chosen : List (Chosen α P)) (orig cur fin : S) (d : Draws α) (outs : List (BiasOut α Rep)),
      processLoop apply orig chosen cur d = .ok (fin, outs) → outs.map (·.name) = chosen.map (·.name) := by
  intro chosen
  induction chosen with
  | nil =>
    intro orig cur fin d outs h
    simp only [processLoop, pure, Except.pure, Except.ok.injEq, Prod.mk.injEq] at h
    obtain ⟨_, rfl⟩ := h
    rfl
  | cons b rest ih =>
    intro orig cur fin d outs h
    unfold processLoop at h
    obtain ⟨⟨u, d'⟩, _, h⟩ := bind_eq_ok.mp h
    dsimp only at h
    split at h
    · obtain ⟨⟨next, rep⟩, _, h⟩ := bind_eq_ok.mp h
      dsimp only at h
      obtain ⟨⟨fin', outs'⟩, hl, h⟩ := bind_eq_ok.mp h
      simp only [pure, Except.pure, Except.ok.injEq, Prod.mk.injEq] at h
      obtain ⟨_, rfl⟩ := h
      simp [ih orig next fin' d' outs' hl]
    · obtain ⟨⟨fin', outs'⟩, hl, h⟩ := bind_eq_ok.mp h
      simp only [pure, Except.pure, Except.ok.injEq, Prod.mk.injEq] at h
      obtain ⟨_, rfl⟩ := h
      simp [ih orig cur fin' d' outs' hl]

theorem decideMapM_map {ε β γ δ : Type} {f : β → Except ε γ} (gk : γ → δ) (k : β → δ)
    (hf : ∀ a b, f a = .ok b → gk b = k a) :
    ∀ {l : List β} {r : List γ}, l.mapM f = .ok r → r.map gk = l.map k := by
  intro l
  induction l with
  | nil => intro r h; simp [pure, Except.pure] at h; subst h; rfl
  | cons a as ih =>
    intro r h
    rw [List.mapM_cons] at h
    obtain ⟨b, hb, h⟩ := bind_eq_ok.mp h
    obtain ⟨bs, hbs, h⟩ := bind_eq_ok.mp h
    simp only [pure, Except.pure, Except.ok.injEq] at h
    subst h
    simp [hf a b hb, ih hbs]

/-- `ChooseBiases` keeps the enabled entries, in order -/
theorem decideChoose_names {P : Type} {avail : List String} {reqs : List (BiasReq α P)} {ch : List (Chosen α P)}
    (h : chooseBiases avail reqs = .ok ch) :
    ch.map (·.name) = (reqs.filter (!·.disabled)).map (·.name) := by
  unfold chooseBiases at h
  refine decideMapM_map (·.name) (·.name) ?_ h
  intro a b hf
  split at hf
  · simp only [pure, Except.pure, Except.ok.injEq] at hf
    subst hf
    rfl
  · simp [throw, throwThe, MonadExceptOf.throw] at hf

/-! ### congruence in the stream function -/

theorem decideApplyBias_congr (exp : α → α) {g1 g2 : Int → Draws α} (name : String) (p : BProps α)
    (orig cur : DMP α) (h : ∀ k ∈ p.seeds, g1 k = g2 k) :
    applyBias exp g1 name p orig cur = applyBias exp g2 name p orig cur := by
  cases p with
  | split c o s =>
    have e := h s (by simp [BProps.seeds])
    simp only [applyBias, e]
  | fatigue fn b s =>
    have e := h s (by simp [BProps.seeds])
    simp only [applyBias, e]
  | flat p =>
    have e1 := h (p.seed "newCriterionRandomSeed") (by simp [BProps.seeds])
    have e2 := h (p.seed "randomSeed") (by simp [BProps.seeds])
    simp only [applyBias, e1, e2]
  | anch p =>
    have e1 := h (p.applier.params.seed "newCriterionRandomSeed") (by simp [BProps.seeds])
    have e2 : (anchGenSeeds p).map g1 = (anchGenSeeds p).map g2 :=
      List.map_congr_left fun k hk => h k (by simp [BProps.seeds, hk])
    simp only [applyBias, e1, e2]
  | bad => simp only [applyBias]

theorem decideProcessLoop_congr {S P Rep : Type} {apply1 apply2 : String → P → S → S → R (S × Rep)} (orig : S) :
    ∀ (chosen : List (Chosen α P)) (cur : S) (d : Draws α),
      (∀ b ∈ chosen, ∀ o c, apply1 b.name b.props o c = apply2 b.name b.props o c) →
      processLoop apply1 orig chosen cur d = processLoop apply2 orig chosen cur d := by
  intro chosen
  induction chosen with
  | nil => intro cur d _; simp only [processLoop]
  | cons b rest ih =>
    intro cur d h
    have ih' : ∀ cur d, processLoop apply1 orig rest cur d = processLoop apply2 orig rest cur d :=
      fun cur d => ih cur d (fun b' hb' => h b' (List.mem_cons_of_mem _ hb'))
    have hb : ∀ o c, apply1 b.name b.props o c = apply2 b.name b.props o c := h b (by simp)
    simp only [processLoop, ih', hb]

/-- `ChooseBiases` only copies names and props of request entries -/
theorem decideChoose_mem {P : Type} {avail : List String} {reqs : List (BiasReq α P)} {ch : List (Chosen α P)}
    (h : chooseBiases avail reqs = .ok ch) : ∀ c ∈ ch, ∃ b ∈ reqs, c.name = b.name ∧ c.props = b.props := by
  intro c hc
  unfold chooseBiases at h
  obtain ⟨b, hb, hf⟩ := mapM_ok_mem h c hc
  refine ⟨b, (List.mem_filter.mp hb).1, ?_⟩
  split at hf
  · simp only [pure, Except.pure, Except.ok.injEq] at hf
    subst hf
    exact ⟨rfl, rfl⟩
  · simp [throw, throwThe, MonadExceptOf.throw] at hf

theorem decideBiasSeeds_mem (req : Request α) {b : BiasReq α (BProps α)} (hb : b ∈ req.biases) :
    ∀ k ∈ b.props.seeds, k ∈ req.seeds := by
  intro k hk
  unfold Request.seeds
  simp only [List.mem_cons, List.mem_append, List.mem_flatMap]
  exact Or.inl (Or.inr ⟨b, hb, hk⟩)

theorem decideBind_congr {ε β γ : Type} {x : Except ε β} {f1 f2 : β → Except ε γ}
    (h : ∀ b, x = .ok b → f1 b = f2 b) : (x >>= f1) = (x >>= f2) := by
  cases x with
  | error e => rfl
  | ok b => exact h b rfl

/-- what a successful `prepare` did -/
theorem decidePrepare_ok {req : Request α} {params : DMP α} {chosen : List (Chosen α (BProps α))}
    (h : prepare req = .ok (params, chosen)) :
    validateRequest req.method req.crit req.known req.chosen = .ok () ∧
    ∃ mp, req.mp = some mp ∧ prepareParams req mp = .ok params ∧
      chooseBiases availableBiases req.biases = .ok chosen := by
  unfold prepare at h
  obtain ⟨u, hv, h⟩ := bind_eq_ok.mp h
  split at h
  · simp [throw, throwThe, MonadExceptOf.throw] at h
  · split at h
    · simp [throw, throwThe, MonadExceptOf.throw] at h
    · rename_i mp hmp
      obtain ⟨p, hp, h⟩ := bind_eq_ok.mp h
      obtain ⟨c, hc, h⟩ := bind_eq_ok.mp h
      simp only [pure, Except.pure, Except.ok.injEq, Prod.mk.injEq] at h
      obtain ⟨rfl, rfl⟩ := h
      exact ⟨hv, mp, hmp, hp, hc⟩

/-- everything before `Evaluate` reads the streams only at `biasApplyRandomSeed` and the biases' seeds -/
theorem decidePipeline_congr (exp : α → α) (req : Request α) {g1 g2 : Int → Draws α}
    (h : ∀ k ∈ req.seeds, g1 k = g2 k) : pipeline exp req g1 = pipeline exp req g2 := by
  unfold pipeline
  have hs : g1 req.biasSeed = g2 req.biasSeed := h _ (by simp [Request.seeds])
  apply decideBind_congr
  intro pc hpc
  obtain ⟨params, chosen⟩ := pc
  obtain ⟨_, mp, _, _, hch⟩ := decidePrepare_ok hpc
  dsimp only
  unfold processBiases
  rw [hs]
  apply decideProcessLoop_congr
  intro c hc o cur
  obtain ⟨b, hb, _, hp⟩ := decideChoose_mem hch c hc
  apply decideApplyBias_congr
  intro k hk
  exact h k (decideBiasSeeds_mem req hb k (hp ▸ hk))

/-- `Evaluate` reads the streams only at the seed of the method parameters it is handed -/
theorem decideEvaluate_congr (o : List (WCrit α) → List (WCrit α)) {g1 g2 : Int → Draws α} (d : DMP α)
    (h : ∀ k ∈ d.mp.seed.toList, g1 k = g2 k) : evaluateWith o g1 d = evaluateWith o g2 d := by
  unfold evaluateWith
  cases hmp : d.mp with
  | ws wc => rfl
  | owa wc => rfl
  | choquet w cs => rfl
  | electre ec dist => rfl
  | majority w cur seed rnd dr =>
    have := h seed (by simp [hmp, MParams.seed])
    simp only [this]
  | aspect fn lv seed w rnd =>
    have := h seed (by simp [hmp, MParams.seed])
    simp only [this]
  | satisf fn lv seed cur rnd =>
    have := h seed (by simp [hmp, MParams.seed])
    simp only [this]

/-! ### no bias changes the method's `randomSeed` -/

theorem decideOnRemoved_seed {mp mp' : MParams α} {left : List (Crit α)} (h : onRemoved mp left = .ok mp') :
    mp'.seed = mp.seed := by
  cases mp with
  | ws wc =>
    simp only [onRemoved] at h
    obtain ⟨x, _, h⟩ := bind_eq_ok.mp h
    simp only [pure, Except.pure, Except.ok.injEq] at h; subst h; rfl
  | owa wc =>
    simp only [onRemoved] at h
    obtain ⟨x, _, h⟩ := bind_eq_ok.mp h
    simp only [pure, Except.pure, Except.ok.injEq] at h; subst h; rfl
  | choquet w cs =>
    simp only [onRemoved] at h
    obtain ⟨x, _, h⟩ := bind_eq_ok.mp h
    simp only [pure, Except.pure, Except.ok.injEq] at h; subst h; rfl
  | electre ec dist =>
    simp only [onRemoved] at h
    obtain ⟨x, _, h⟩ := bind_eq_ok.mp h
    simp only [pure, Except.pure, Except.ok.injEq] at h; subst h; rfl
  | majority w cur seed rnd dr =>
    simp only [onRemoved] at h
    obtain ⟨x, _, h⟩ := bind_eq_ok.mp h
    simp only [pure, Except.pure, Except.ok.injEq] at h; subst h; rfl
  | aspect fn lv seed w rnd =>
    simp only [onRemoved] at h
    split at h
    · simp [throw, throwThe, MonadExceptOf.throw, bind, Except.bind] at h
    · simp only [pure, Except.pure, bind, Except.bind] at h
      split at h
      · cases h
      · split at h
        · cases h
        · simp only [Except.ok.injEq] at h; subst h; rfl
  | satisf fn lv seed cur rnd =>
    simp only [onRemoved] at h
    split at h
    · simp [throw, throwThe, MonadExceptOf.throw, bind, Except.bind] at h
    · simp only [pure, Except.pure, bind, Except.bind] at h
      split at h
      · cases h
      · simp only [Except.ok.injEq] at h; subst h; rfl

theorem decideMerge_seed {mp mp' : MParams α} {add : Addition α} (h : mergeParams mp add = .ok mp') :
    mp'.seed = mp.seed := by
  cases mp <;> cases add <;> simp only [mergeParams] at h <;>
    first
    | (simp [throw, throwThe, MonadExceptOf.throw] at h; done)
    | (simp only [pure, Except.pure, Except.ok.injEq] at h; subst h; rfl)
    | (obtain ⟨x, _, h⟩ := bind_eq_ok.mp h
       simp only [pure, Except.pure, Except.ok.injEq] at h; subst h; rfl)
    | (split at h
       · simp [throw, throwThe, MonadExceptOf.throw, bind, Except.bind] at h
       · simp only [pure, Except.pure, bind, Except.bind] at h
         split at h
         · cases h
         · first
           | (simp only [Except.ok.injEq] at h; subst h; rfl)
           | (split at h
              · cases h
              · simp only [Except.ok.injEq] at h; subst h; rfl))

end Rdm
