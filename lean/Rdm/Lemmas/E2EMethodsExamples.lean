/-
  Concrete requests (over `Rat`) used by the `example`s beside the END-TO-END theorems of Props/C05, C06,
  C11–C14: the four known alternatives / two criteria / bias list of E2EExamples (a fatigue that fires and
  rewrites every value, a preference reversal that does not fire, a disabled entry) with ELECTRE III, majority,
  aspect-elimination and satisfaction parameters.  `decide +kernel` evaluates the whole model on them.
-/
import Rdm.Lemmas.E2EExamples
namespace Rdm

/-- ELECTRE criteria in the domain of C05: `c0` with q = 1/2 < p = 1 < v = 3, weight 2; `c1` with p = 1 only -/
def e2emExEc : KMap (ECrit Rat) :=
  [("c0", ⟨2, ⟨0, 1 / 2⟩, ⟨0, 1⟩, ⟨0, 3⟩⟩), ("c1", ⟨1, ⟨0, 0⟩, ⟨0, 1⟩, ⟨0, 0⟩⟩)]

/-- ELECTRE III with the default distillation function, biases of `e2eExBiases` -/
def e2emExElectre : Request Rat :=
  { e2eExWs with method := Facts.methodElectre, mp := some (.electre e2emExEc defaultDistillation) }

/-- the same without an enabled bias, and with the known alternatives reversed and `choseToMake` reordered -/
def e2emExElectrePlain : Request Rat := { e2emExElectre with biases := [⟨Facts.biasOmission, true, none, .bad⟩] }
def e2emExElectrePlain' : Request Rat :=
  { e2emExElectrePlain with known := e2eExKnown.reverse, chosen := ["a", "b", "c"], biases := [] }

/-- majority, current choice `"d"` (known, not in `choseToMake`), draw policy `current`, fixed order -/
def e2emExMajority : Request Rat :=
  { e2eExWs with method := Facts.methodMajority,
                 mp := some (.majority [("c0", 1), ("c1", 2)] "d" 11 false "current") }

/-- aspect elimination with the additive series (coefficient 1/4 from 0 to 1), weights c1 > c0 -/
def e2emExAspect : Request Rat :=
  { e2eExWs with method := Facts.methodAspect,
                 mp := some (.aspect "idealAdditiveCoefficient" (.coef (1 / 4) 1 0) 11 [("c0", 1), ("c1", 2)] false) }

/-- satisfaction with the subtractive series (1, 3/4, 1/2, 1/4: coefficient 1/4 from 1 down to above 1/8),
    current choice `"d"` (known, not in `choseToMake`) -/
def e2emExSatisf : Request Rat :=
  { e2eExWs with method := Facts.methodSatisfaction,
                 mp := some (.satisf "idealSubtractiveCoefficient" (.coef (1 / 4) 1 (1 / 8)) 11 "d" false) }

/-- the value of a computation that succeeded (`d` otherwise) — lets an `example` name the response of a
    concrete request as a closed term that `decide +kernel` can evaluate -/
def e2emGetD {β : Type} (d : β) : R β → β
  | .ok r => r
  | .error _ => d

theorem e2em_eq_ok_getD {β : Type} (d : β) {x : R β} (h : x.isOk = true) : x = .ok (e2emGetD d x) := by
  cases x with
  | error e => cases h
  | ok r => rfl

/-- the per-criterion weights of heuristic parameters (majority, aspect elimination) -/
def e2emWeightsOf {α : Type} : MParams α → KMap α
  | .majority w _ _ _ _ => w
  | .aspect _ _ _ w _ => w
  | _ => []

/-- a response to fall back on (never used: every example first shows that the model answers) -/
def e2emNoResponse : Response Rat := ⟨[], [], ⟨[], [], [], .ws []⟩⟩

end Rdm
