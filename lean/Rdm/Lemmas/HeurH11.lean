/-
  Bridge between the majority model (Model/Heuristics.lean, `majorityFold` …) and the executable
  checker `Spec.C11.check` (Spec/C11.lean): the checker's declarative replay of the tournament
  simulates the model's fold step by step, the exact link lists of `majorityRanking` are the ones the
  checker expects.  Over `Rat`.

  The model compares with the tolerance of the code — the double nearest to 1e-6 — whereas the checker
  uses the exact 1e-6 of the property text.  The two agree unless a difference of criterion values or
  of scores falls into the gap between the two numbers (width < 1e-22): `heurH11_wellConditioned`
  excludes exactly that (the harness filters such inputs with the coarser `c11WellConditioned`).
-/
import Rdm.Model.Heuristics
import Rdm.Spec.C11
import Rdm.Lemmas.NumRat
import Rdm.Lemmas.HeurList
import Rdm.Lemmas.HeurMajority
import Rdm.Lemmas.LinksConstructors
import Mathlib.Tactic.Linarith
import Mathlib.Tactic.NormNum
import Mathlib.Tactic.Ring
import Mathlib.Data.List.Nodup
set_option linter.unusedSectionVars false
set_option linter.unusedSimpArgs false
set_option linter.unusedVariables false
namespace Rdm

/-! ### the two tolerances -/

/-- the tolerance of the code (the double nearest to 1e-6) as a rational -/
def heurH11_epsD : Rat := Num.ofConst Facts.majorityEps

theorem heurH11_epsD_lt : heurH11_epsD < Spec.C11.eps := by
  simp only [heurH11_epsD, Num.ofConst_rat, Facts.majorityEps, Spec.C11.eps]
  norm_num

theorem heurH11_epsD_nonneg : 0 ≤ heurH11_epsD := by
  simp only [heurH11_epsD, Num.ofConst_rat, Facts.majorityEps]
  norm_num

theorem heurH11_absR_neg (x : Rat) : Spec.C11.absR (-x) = Spec.C11.absR x := by
  unfold Spec.C11.absR
  split <;> split <;> linarith

theorem heurH11_absR_sub (x y : Rat) : Spec.C11.absR (x - y) = Spec.C11.absR (y - x) := by
  rw [← heurH11_absR_neg]; congr 1; ring

theorem heurH11_absR_nonneg (x : Rat) : 0 ≤ Spec.C11.absR x := by
  unfold Spec.C11.absR
  split <;> linarith

/-- `x` does not fall (in absolute value) into the gap `(epsD, 1e-6]` between the code's and the
    property's tolerance -/
def heurH11_offGap (x : Rat) : Bool :=
  !(decide (heurH11_epsD < Spec.C11.absR x) && decide (Spec.C11.absR x ≤ Spec.C11.eps))

theorem heurH11_offGap_neg (x : Rat) : heurH11_offGap (-x) = heurH11_offGap x := by
  unfold heurH11_offGap; rw [heurH11_absR_neg]

theorem heurH11_offGap_iff {x : Rat} (h : heurH11_offGap x = true) :
    Spec.C11.absR x ≤ heurH11_epsD ↔ Spec.C11.absR x ≤ Spec.C11.eps := by
  unfold heurH11_offGap at h
  have := heurH11_epsD_lt
  constructor
  · intro h1; linarith
  · intro h1
    by_contra h2
    simp [h1, not_le.mp h2] at h

theorem heurH11_floatsAreEqual' (a b e : Rat) :
    floatsAreEqual a b e = decide (Spec.C11.absR (a - b) ≤ e) := rfl

theorem heurH11_floatsAreEqual (a b : Rat) :
    floatsAreEqual a b (majorityEpsOf : Rat) = decide (Spec.C11.absR (a - b) ≤ heurH11_epsD) := rfl

/-! ### well-conditioned inputs -/

/-- no criterion difference between `a` and `b` falls into the gap -/
def heurH11_critGapFree (wc : List (WCrit Rat)) (a b : Alt Rat) : Bool :=
  wc.all fun c =>
    match Spec.C11.signedVal a c.crit, Spec.C11.signedVal b c.crit with
    | some va, some vb => heurH11_offGap (va - vb)
    | _, _ => true

/-- the difference of the two (exact) scores of the pair does not fall into the gap -/
def heurH11_scoreGapFree (wc : List (WCrit Rat)) (a b : Alt Rat) : Bool :=
  match Spec.C11.score wc a b, Spec.C11.score wc b a with
  | some s1, some s2 => heurH11_offGap (s1 - s2)
  | _, _ => true

/-- the domain restriction under which the exact-1e-6 checker and the double-1e-6 code must agree:
    for every pair of alternatives of the search order, no criterion difference and no score
    difference lies in `(double(1e-6), 1e-6]` -/
def heurH11_wellConditioned (wc : List (WCrit Rat)) (order : List (Alt Rat)) : Bool :=
  order.all fun a => order.all fun b => heurH11_critGapFree wc a b && heurH11_scoreGapFree wc a b

theorem heurH11_wellConditioned_pair {wc : List (WCrit Rat)} {order : List (Alt Rat)}
    (h : heurH11_wellConditioned wc order = true) {a b : Alt Rat} (ha : a ∈ order) (hb : b ∈ order) :
    heurH11_critGapFree wc a b = true ∧ heurH11_scoreGapFree wc a b = true := by
  unfold heurH11_wellConditioned at h
  rw [List.all_eq_true] at h
  have := h a ha
  rw [List.all_eq_true] at this
  simpa using this b hb

/-! ### scores: `compare` = the checker's `score` -/

theorem heurH11_signed {a : Alt Rat} {c : Crit Rat} {v : Rat} (h : a.signed c = Except.ok v) :
    Spec.C11.signedVal a c = some v := by
  unfold Alt.signed at h
  obtain ⟨x, hx, h⟩ := R.bind_eq_ok h
  unfold Alt.raw at hx
  split at hx
  · rename_i y hy
    simp at hx; subst hx
    simp at h; subst h
    unfold Spec.C11.signedVal
    rw [hy]
    by_cases hc : c.type = "cost" <;> simp [Crit.mult, hc]
  · simp at hx

/-- one step of the checker's `score` fold -/
def heurH11_scoreStep (a b : Alt Rat) (acc : Rat) (c : WCrit Rat) : Option Rat := do
  let va ← Spec.C11.signedVal a c.crit
  let vb ← Spec.C11.signedVal b c.crit
  pure (if Spec.C11.eps < va - vb then acc + c.w else acc)

theorem heurH11_score_eq (wc : List (WCrit Rat)) (a b : Alt Rat) :
    Spec.C11.score wc a b = wc.foldlM (heurH11_scoreStep a b) 0 := rfl

theorem heurH11_compareLoop_score (a1 a2 : Alt Rat) :
    ∀ (wc : List (WCrit Rat)) (s1 s2 r1 r2 : Rat), heurH11_critGapFree wc a1 a2 = true →
      compareLoop heurH11_epsD a1 a2 wc s1 s2 = Except.ok (r1, r2) →
      wc.foldlM (heurH11_scoreStep a1 a2) s1 = some r1 ∧ wc.foldlM (heurH11_scoreStep a2 a1) s2 = some r2 := by
  intro wc
  induction wc with
  | nil =>
    intro s1 s2 r1 r2 _ h
    simp [compareLoop] at h
    simp [h.1, h.2]
  | cons c cs ih =>
    intro s1 s2 r1 r2 hg h
    unfold compareLoop at h
    obtain ⟨v1, hv1, h⟩ := R.bind_eq_ok h
    obtain ⟨v2, hv2, h⟩ := R.bind_eq_ok h
    have e1 := heurH11_signed hv1
    have e2 := heurH11_signed hv2
    have hg' : heurH11_offGap (v1 - v2) = true ∧ heurH11_critGapFree cs a1 a2 = true := by
      unfold heurH11_critGapFree at hg ⊢
      simp only [List.all_cons, Bool.and_eq_true, e1, e2] at hg
      exact hg
    obtain ⟨hoff, hgs⟩ := hg'
    have hiff := heurH11_offGap_iff hoff
    have hlt := heurH11_epsD_lt
    rw [heurH11_floatsAreEqual'] at h
    simp only [List.foldlM_cons, heurH11_scoreStep, e1, e2, Option.bind_eq_bind, Option.bind_some,
      Option.pure_def]
    by_cases heq : Spec.C11.absR (v1 - v2) ≤ heurH11_epsD
    · simp only [heq, decide_true, if_true] at h
      have h6 := hiff.mp heq
      have n1 : ¬ Spec.C11.eps < v1 - v2 := by
        unfold Spec.C11.absR at h6; split at h6 <;> linarith
      have n2 : ¬ Spec.C11.eps < v2 - v1 := by
        unfold Spec.C11.absR at h6; split at h6 <;> linarith
      simp only [n1, n2, if_false]
      exact ih _ _ _ _ hgs h
    · simp only [heq, decide_false, Bool.false_eq_true, if_false] at h
      have h6 : ¬ Spec.C11.absR (v1 - v2) ≤ Spec.C11.eps := fun hh => heq (hiff.mpr hh)
      by_cases hgt : v2 < v1
      · simp only [Num.gt_rat, hgt, decide_true, if_true] at h
        have n1 : Spec.C11.eps < v1 - v2 := by
          unfold Spec.C11.absR at h6; split at h6 <;> linarith
        have n2 : ¬ Spec.C11.eps < v2 - v1 := by
          have : (0 : Rat) < Spec.C11.eps := by unfold Spec.C11.eps; norm_num
          linarith
        simp only [n1, n2, if_true, if_false]
        exact ih _ _ _ _ hgs h
      · simp only [Num.gt_rat, hgt, decide_false, Bool.false_eq_true, if_false] at h
        have n1 : ¬ Spec.C11.eps < v1 - v2 := by
          have : (0 : Rat) < Spec.C11.eps := by unfold Spec.C11.eps; norm_num
          linarith
        have n2 : Spec.C11.eps < v2 - v1 := by
          unfold Spec.C11.absR at h6; split at h6 <;> linarith
        simp only [n1, n2, if_true, if_false]
        exact ih _ _ _ _ hgs h

/-- the two numbers `compare` returns are the checker's exact scores (on gap-free criterion values) -/
theorem heurH11_compareAlts_score {wc : List (WCrit Rat)} {a1 a2 : Alt Rat} {s1 s2 : Rat}
    (hg : heurH11_critGapFree wc a1 a2 = true) (h : compareAlts wc a1 a2 = Except.ok (s1, s2)) :
    Spec.C11.score wc a1 a2 = some s1 ∧ Spec.C11.score wc a2 a1 = some s2 := by
  rw [heurH11_score_eq, heurH11_score_eq]
  exact heurH11_compareLoop_score a1 a2 wc 0 0 s1 s2 hg h

/-! ### entries written by the fold: they persist, new ones name later alternatives only -/

theorem heurH11_mem_entries_allow (s1 s2 : Rat) (st : MajState Rat) (a : Alt Rat) (p : MajRes Rat) :
    p ∈ (resolveAllow s1 s2 st a).entries ↔ p ∈ st.entries ∨ p = (a.id, ⟨s2, st.cur.id, s1⟩) := by
  simp only [MajState.entries, resolveAllow, List.mem_append, List.mem_singleton]
  tauto

theorem heurH11_mem_entries_current (s1 s2 : Rat) (st : MajState Rat) (a : Alt Rat) (p : MajRes Rat) :
    p ∈ (resolveCurrent s1 s2 st a).entries ↔ p ∈ st.entries ∨ p = (a.id, ⟨s2, st.cur.id, s1⟩) := by
  simp only [MajState.entries, resolveCurrent, List.flatten_append, List.flatten_cons, List.flatten_nil,
    List.append_nil, List.mem_append, List.mem_singleton]
  tauto

theorem heurH11_mem_entries_newer (s1 s2 : Rat) (st : MajState Rat) (a : Alt Rat) (p : MajRes Rat) :
    p ∈ (resolveNewer s1 s2 st a).entries ↔ p ∈ st.entries ∨ p = (st.cur.id, ⟨s1, a.id, s2⟩) := by
  simp only [MajState.entries, resolveNewer, List.flatten_append, List.flatten_cons, List.flatten_nil,
    List.append_nil, List.mem_append, List.mem_singleton, List.not_mem_nil, or_false]
  tauto

/-- one match: old entries persist; the one new entry names the running winner or the challenger -/
theorem heurH11_takeBetter_entries {pol : DrawPolicy} {s1 s2 : Rat} {st st' : MajState Rat} {a : Alt Rat}
    {d d' : Draws Rat} {ev : Rat} (h : takeBetter pol s1 s2 st a d = Except.ok ((st', ev), d')) :
    (∀ p ∈ st.entries, p ∈ st'.entries) ∧
    (∀ p ∈ st'.entries, p ∈ st.entries ∨ (p.2.cmp = st.cur.id ∨ p.2.cmp = a.id)) ∧
    (st'.cur = st.cur ∨ st'.cur = a) := by
  rcases takeBetter_cases h with ⟨rfl, _⟩ | ⟨rfl, _⟩ | ⟨rfl, _⟩
  · refine ⟨fun p hp => (heurH11_mem_entries_allow ..).mpr (Or.inl hp), ?_, Or.inl rfl⟩
    intro p hp
    rcases (heurH11_mem_entries_allow ..).mp hp with hp | rfl
    · exact Or.inl hp
    · exact Or.inr (Or.inl rfl)
  · refine ⟨fun p hp => (heurH11_mem_entries_current ..).mpr (Or.inl hp), ?_, Or.inl rfl⟩
    intro p hp
    rcases (heurH11_mem_entries_current ..).mp hp with hp | rfl
    · exact Or.inl hp
    · exact Or.inr (Or.inl rfl)
  · refine ⟨fun p hp => (heurH11_mem_entries_newer ..).mpr (Or.inl hp), ?_, Or.inr rfl⟩
    intro p hp
    rcases (heurH11_mem_entries_newer ..).mp hp with hp | rfl
    · exact Or.inl hp
    · exact Or.inr (Or.inr rfl)

theorem heurH11_fold_entries {pol : DrawPolicy} {wc : List (WCrit Rat)} :
    ∀ {rest : List (Alt Rat)} {st stF : MajState Rat} {ev evF : Rat} {d dF : Draws Rat},
      majorityFold pol wc rest st ev d = Except.ok ((stF, evF), dF) →
      (∀ p ∈ st.entries, p ∈ stF.entries) ∧
      (∀ p ∈ stF.entries, p ∈ st.entries ∨ p.2.cmp ∈ (st.cur :: rest).map (·.id)) := by
  intro rest
  induction rest with
  | nil =>
    intro st stF ev evF d dF h
    simp [majorityFold] at h
    obtain ⟨⟨rfl, _⟩, _⟩ := h
    exact ⟨fun p hp => hp, fun p hp => Or.inl hp⟩
  | cons a rest ih =>
    intro st stF ev evF d dF h
    obtain ⟨s1, s2, st', ev', d', _, h2, h3⟩ := majorityFold_cons_ok h
    obtain ⟨t1, t2, t3⟩ := heurH11_takeBetter_entries h2
    obtain ⟨i1, i2⟩ := ih h3
    refine ⟨fun p hp => i1 p (t1 p hp), ?_⟩
    intro p hp
    rcases i2 p hp with hp' | hp'
    · rcases t2 p hp' with hq | hq | hq
      · exact Or.inl hq
      · right; simp [hq]
      · right; simp [hq]
    · right
      simp only [List.map_cons, List.mem_cons] at hp' ⊢
      rcases hp' with hq | hq
      · rcases t3 with e | e
        · left; rw [hq, e]
        · right; left; rw [hq, e]
      · right; right; exact hq

/-! ### looking entries up in the output -/

theorem heurH11_find_of_mem {β : Type} : ∀ {out : List (Linked β)}, (out.map (·.id)).Nodup →
    ∀ {e : Linked β}, e ∈ out → out.find? (·.id == e.id) = some e
  | [], _, e, he => by simp at he
  | x :: xs, hnd, e, he => by
    simp only [List.map_cons, List.nodup_cons] at hnd
    rcases List.mem_cons.mp he with rfl | he
    · simp
    · have hne : x.id ≠ e.id := fun h => hnd.1 (h ▸ List.mem_map.mpr ⟨e, he, rfl⟩)
      have : (x.id == e.id) = false := by simpa using hne
      rw [List.find?_cons, this]
      exact heurH11_find_of_mem hnd.2 he

/-- in an output whose (id, evaluation) pairs are `l` (ids distinct), the entry found under the id
    of a pair of `l` carries that pair's evaluation -/
theorem heurH11_findEntry {out : List Spec.C11.Entry} {l : List (MajRes Rat)}
    (hp : out.map (fun e => (e.id, e.ev)) = l) (hnd : (out.map (·.id)).Nodup) {p : MajRes Rat} (hm : p ∈ l) :
    ∃ e, Spec.C11.findEntry out p.1 = some e ∧ e.ev = p.2 := by
  rw [← hp] at hm
  obtain ⟨e, he, rfl⟩ := List.mem_map.mp hm
  exact ⟨e, heurH11_find_of_mem hnd he, rfl⟩

/-! ### the checker's replay simulates the fold -/

/-- replay state of the checker corresponding to the accumulators of the model -/
def heurH11_toSpec (st : MajState Rat) : Spec.C11.St :=
  ⟨st.cur, st.same.map (·.1), st.worse.map (·.map (·.1))⟩

/-- the policy string the checker receives: the resolver's identifier, or "" for the default -/
def heurH11_policyOk (pol : DrawPolicy) (policy : String) : Prop :=
  policy = pol.name ∨ (policy = "" ∧ pol = .allow)

theorem heurH11_close_self (x : Rat) : Spec.C11.close x x = true := by
  unfold Spec.C11.close
  have h0 : Spec.C11.absR (x - x) = 0 := by simp [Spec.C11.absR]
  rw [h0]
  have : (0 : Rat) ≤ Spec.C11.tol * (if Spec.C11.absR x < 1 then 1 else Spec.C11.absR x) := by
    have ht : (0 : Rat) ≤ Spec.C11.tol := by unfold Spec.C11.tol; norm_num
    have := heurH11_absR_nonneg x
    split
    · linarith
    · exact mul_nonneg ht this
  simpa using this

/-- a faithfully written loser entry passes `loserOk` -/
theorem heurH11_loserOk {out : List Spec.C11.Entry} {l w : Alt Rat} {own opp : Rat} {e : Spec.C11.Entry}
    (hf : Spec.C11.findEntry out l.id = some e) (hev : e.ev = ⟨own, w.id, opp⟩)
    (hle : own ≤ opp ∨ Spec.C11.absR (own - opp) ≤ Spec.C11.eps) :
    Spec.C11.loserOk out l w own opp = Except.ok () := by
  unfold Spec.C11.loserOk
  rw [hf]
  simp only [hev, bne_self_eq_false, Bool.false_eq_true, if_false, heurH11_close_self, Bool.not_true]
  have : (decide (own ≤ opp) || decide (Spec.C11.absR (own - opp) ≤ Spec.C11.eps)) = true := by
    rcases hle with h | h <;> simp [h]
  simp [this]

/-! #### one match -/

theorem heurH11_step_park {policy : String} {wc : List (WCrit Rat)} {out : List Spec.C11.Entry}
    {st : MajState Rat} {a : Alt Rat} {s1 s2 : Rat}
    (h1 : Spec.C11.score wc st.cur a = some s1) (h2 : Spec.C11.score wc a st.cur = some s2)
    (ho : Spec.C11.outcome policy out st.cur a s1 s2 = Except.ok .park)
    (hL : ∃ e, Spec.C11.findEntry out a.id = some e ∧ e.ev = ⟨s2, st.cur.id, s1⟩)
    (hle : s2 ≤ s1 ∨ Spec.C11.absR (s2 - s1) ≤ Spec.C11.eps) :
    Spec.C11.step policy wc out (heurH11_toSpec st) a = Except.ok (heurH11_toSpec (resolveAllow s1 s2 st a)) := by
  obtain ⟨e, hf, hev⟩ := hL
  have hl := heurH11_loserOk (l := a) (w := st.cur) hf hev hle
  unfold Spec.C11.step
  simp only [heurH11_toSpec, h1, h2, R.pure_eq, R.bind_ok, ho, hl, resolveAllow, List.map_append,
    List.map_cons, List.map_nil]

theorem heurH11_step_drop {policy : String} {wc : List (WCrit Rat)} {out : List Spec.C11.Entry}
    {st : MajState Rat} {a : Alt Rat} {s1 s2 : Rat}
    (h1 : Spec.C11.score wc st.cur a = some s1) (h2 : Spec.C11.score wc a st.cur = some s2)
    (ho : Spec.C11.outcome policy out st.cur a s1 s2 = Except.ok .drop)
    (hL : ∃ e, Spec.C11.findEntry out a.id = some e ∧ e.ev = ⟨s2, st.cur.id, s1⟩)
    (hle : s2 ≤ s1 ∨ Spec.C11.absR (s2 - s1) ≤ Spec.C11.eps) :
    Spec.C11.step policy wc out (heurH11_toSpec st) a = Except.ok (heurH11_toSpec (resolveCurrent s1 s2 st a)) := by
  obtain ⟨e, hf, hev⟩ := hL
  have hl := heurH11_loserOk (l := a) (w := st.cur) hf hev hle
  unfold Spec.C11.step
  simp only [heurH11_toSpec, h1, h2, R.pure_eq, R.bind_ok, ho, hl, resolveCurrent, List.map_append,
    List.map_cons, List.map_nil]

theorem heurH11_step_dethrone {policy : String} {wc : List (WCrit Rat)} {out : List Spec.C11.Entry}
    {st : MajState Rat} {a : Alt Rat} {s1 s2 : Rat}
    (h1 : Spec.C11.score wc st.cur a = some s1) (h2 : Spec.C11.score wc a st.cur = some s2)
    (ho : Spec.C11.outcome policy out st.cur a s1 s2 = Except.ok .dethrone)
    (hL : ∃ e, Spec.C11.findEntry out st.cur.id = some e ∧ e.ev = ⟨s1, a.id, s2⟩)
    (hle : s1 ≤ s2 ∨ Spec.C11.absR (s1 - s2) ≤ Spec.C11.eps) :
    Spec.C11.step policy wc out (heurH11_toSpec st) a = Except.ok (heurH11_toSpec (resolveNewer s1 s2 st a)) := by
  obtain ⟨e, hf, hev⟩ := hL
  have hl := heurH11_loserOk (l := st.cur) (w := a) hf hev hle
  unfold Spec.C11.step
  simp only [heurH11_toSpec, h1, h2, R.pure_eq, R.bind_ok, ho, hl, resolveNewer, List.map_append,
    List.map_cons, List.map_nil]

theorem heurH11_step {pol : DrawPolicy} {policy : String} (hpol : heurH11_policyOk pol policy)
    {wc : List (WCrit Rat)} {out : List Spec.C11.Entry} {st st' : MajState Rat} {a : Alt Rat}
    {s1 s2 ev : Rat} {d d' : Draws Rat}
    (hg : heurH11_critGapFree wc st.cur a = true) (hsg : heurH11_scoreGapFree wc st.cur a = true)
    (hc : compareAlts wc st.cur a = Except.ok (s1, s2))
    (ht : takeBetter pol s1 s2 st a d = Except.ok ((st', ev), d'))
    (hL : ∀ p ∈ st'.entries, ∃ e, Spec.C11.findEntry out p.1 = some e ∧ e.ev = p.2)
    (hR : pol = .random → st'.cur = a → ∃ e, Spec.C11.findEntry out a.id = some e ∧ e.ev.cmp ≠ st.cur.id) :
    Spec.C11.step policy wc out (heurH11_toSpec st) a = Except.ok (heurH11_toSpec st') := by
  obtain ⟨h1, h2⟩ := heurH11_compareAlts_score hg hc
  have hoff : heurH11_offGap (s1 - s2) = true := by
    unfold heurH11_scoreGapFree at hsg
    rw [h1, h2] at hsg
    exact hsg
  have hiff := heurH11_offGap_iff hoff
  have hLa : ∀ {st0 : MajState Rat}, st' = st0 → (a.id, (⟨s2, st.cur.id, s1⟩ : MajEval Rat)) ∈ st0.entries →
      ∃ e, Spec.C11.findEntry out a.id = some e ∧ e.ev = ⟨s2, st.cur.id, s1⟩ := by
    intro st0 e0 hm; subst e0; exact hL _ hm
  have hLc : ∀ {st0 : MajState Rat}, st' = st0 → (st.cur.id, (⟨s1, a.id, s2⟩ : MajEval Rat)) ∈ st0.entries →
      ∃ e, Spec.C11.findEntry out st.cur.id = some e ∧ e.ev = ⟨s1, a.id, s2⟩ := by
    intro st0 e0 hm; subst e0; exact hL _ hm
  unfold takeBetter at ht
  rw [heurH11_floatsAreEqual] at ht
  by_cases heq : Spec.C11.absR (s1 - s2) ≤ heurH11_epsD
  · -- a draw: the policy decides
    have h6 : Spec.C11.absR (s1 - s2) ≤ Spec.C11.eps := hiff.mp heq
    have h6' : Spec.C11.absR (s2 - s1) ≤ Spec.C11.eps := by rw [heurH11_absR_sub]; exact h6
    simp only [heq, decide_true, if_true] at ht
    obtain ⟨⟨st1, d1⟩, hr, ht⟩ := R.bind_eq_ok ht
    simp at ht
    obtain ⟨⟨rfl, rfl⟩, rfl⟩ := ht
    cases pol with
    | allow =>
      simp [resolveDraw] at hr
      obtain ⟨rfl, rfl⟩ := hr
      have ho : Spec.C11.outcome policy out st.cur a s1 s2 = Except.ok .park := by
        unfold Spec.C11.outcome
        rcases hpol with rfl | ⟨rfl, _⟩ <;> simp [h6, DrawPolicy.name, Facts.drawAllow]
      exact heurH11_step_park h1 h2 ho
        (hLa rfl ((heurH11_mem_entries_allow ..).mpr (Or.inr rfl))) (Or.inr h6')
    | current =>
      simp [resolveDraw] at hr
      obtain ⟨rfl, rfl⟩ := hr
      have ho : Spec.C11.outcome policy out st.cur a s1 s2 = Except.ok .drop := by
        unfold Spec.C11.outcome
        rcases hpol with rfl | ⟨_, hh⟩
        · simp [h6, DrawPolicy.name, Facts.drawCurrent]
        · cases hh
      exact heurH11_step_drop h1 h2 ho
        (hLa rfl ((heurH11_mem_entries_current ..).mpr (Or.inr rfl))) (Or.inr h6')
    | newer =>
      simp [resolveDraw] at hr
      obtain ⟨rfl, rfl⟩ := hr
      have ho : Spec.C11.outcome policy out st.cur a s1 s2 = Except.ok .dethrone := by
        unfold Spec.C11.outcome
        rcases hpol with rfl | ⟨_, hh⟩
        · simp [h6, DrawPolicy.name, Facts.drawNewer]
        · cases hh
      exact heurH11_step_dethrone h1 h2 ho
        (hLc rfl ((heurH11_mem_entries_newer ..).mpr (Or.inr rfl))) (Or.inr h6)
    | random =>
      have hpn : policy = "random" := by
        rcases hpol with rfl | ⟨_, hh⟩
        · rfl
        · cases hh
      subst hpn
      unfold resolveDraw at hr
      simp only at hr
      obtain ⟨⟨u, d2⟩, _, hr⟩ := R.bind_eq_ok hr
      by_cases hu : u < Num.ofConst Facts.randomWinnerHalf
      · dsimp only at hr
        rw [if_pos hu] at hr
        simp only [R.pure_eq, Except.ok.injEq, Prod.mk.injEq] at hr
        obtain ⟨rfl, rfl⟩ := hr
        have hl := hLa rfl ((heurH11_mem_entries_current ..).mpr (Or.inr rfl))
        have ho : Spec.C11.outcome "random" out st.cur a s1 s2 = Except.ok .drop := by
          obtain ⟨e, hf, hev⟩ := hl
          unfold Spec.C11.outcome
          have hs : ("random" == "" || "random" == "allow") = false := by decide
          have hs2 : ("random" == "current") = false := by decide
          have hs3 : ("random" == "newer") = false := by decide
          simp only [h6, decide_true, if_true, hs, hs2, hs3, Bool.false_eq_true, if_false, hf, hev,
            beq_self_eq_true]
          rfl
        exact heurH11_step_drop h1 h2 ho hl (Or.inr h6')
      · dsimp only at hr
        rw [if_neg hu] at hr
        simp only [R.pure_eq, Except.ok.injEq, Prod.mk.injEq] at hr
        obtain ⟨rfl, rfl⟩ := hr
        have ho : Spec.C11.outcome "random" out st.cur a s1 s2 = Except.ok .dethrone := by
          obtain ⟨e, hf, hne⟩ := hR rfl rfl
          unfold Spec.C11.outcome
          have hs : ("random" == "" || "random" == "allow") = false := by decide
          have hs2 : ("random" == "current") = false := by decide
          have hs3 : ("random" == "newer") = false := by decide
          have hb : (e.ev.cmp == st.cur.id) = false := by simpa using hne
          simp only [h6, decide_true, if_true, hs, hs2, hs3, Bool.false_eq_true, if_false, hf, hb,
            beq_self_eq_true]
          rfl
        exact heurH11_step_dethrone h1 h2 ho
          (hLc rfl ((heurH11_mem_entries_newer ..).mpr (Or.inr rfl))) (Or.inr h6)
  · -- unequal scores decide
    have h6 : ¬ Spec.C11.absR (s1 - s2) ≤ Spec.C11.eps := fun hh => heq (hiff.mpr hh)
    simp only [heq, decide_false, Bool.false_eq_true, if_false] at ht
    by_cases hlt : s2 < s1
    · simp [hlt] at ht
      obtain ⟨⟨rfl, rfl⟩, rfl⟩ := ht
      have ho : Spec.C11.outcome policy out st.cur a s1 s2 = Except.ok .drop := by
        unfold Spec.C11.outcome; simp [h6, hlt]
      exact heurH11_step_drop h1 h2 ho
        (hLa rfl ((heurH11_mem_entries_current ..).mpr (Or.inr rfl))) (Or.inl (le_of_lt hlt))
    · simp [hlt] at ht
      obtain ⟨⟨rfl, rfl⟩, rfl⟩ := ht
      have ho : Spec.C11.outcome policy out st.cur a s1 s2 = Except.ok .dethrone := by
        unfold Spec.C11.outcome; simp [h6, hlt]
      exact heurH11_step_dethrone h1 h2 ho
        (hLc rfl ((heurH11_mem_entries_newer ..).mpr (Or.inr rfl))) (Or.inl (not_lt.mp hlt))

/-! #### the whole fold -/

theorem heurH11_ids_eq (st : MajState Rat) : st.ids = st.entries.map (·.1) ++ [st.cur.id] := by
  simp [MajState.ids, MajState.entries]

theorem heurH11_replay {pol : DrawPolicy} {policy : String} (hpol : heurH11_policyOk pol policy)
    {wc : List (WCrit Rat)} {out : List Spec.C11.Entry} {order : List (Alt Rat)}
    (hwc : heurH11_wellConditioned wc order = true)
    (hrandom : pol = .random → ∀ a ∈ order, a.id ≠ "") :
    ∀ {rest : List (Alt Rat)} {st stF : MajState Rat} {ev evF : Rat} {d dF : Draws Rat},
      majorityFold pol wc rest st ev d = Except.ok ((stF, evF), dF) →
      (st.ids ++ rest.map (·.id)).Nodup → st.cur ∈ order → (∀ a ∈ rest, a ∈ order) →
      (∀ p ∈ stF.entries, ∃ e, Spec.C11.findEntry out p.1 = some e ∧ e.ev = p.2) →
      (∃ e, Spec.C11.findEntry out stF.cur.id = some e ∧ e.ev.cmp = "") →
      Spec.C11.replay policy wc out rest (heurH11_toSpec st) = Except.ok (heurH11_toSpec stF) := by
  intro rest
  induction rest with
  | nil =>
    intro st stF ev evF d dF h _ _ _ _ _
    simp [majorityFold] at h
    obtain ⟨⟨rfl, _⟩, _⟩ := h
    rfl
  | cons a rest ih =>
    intro st stF ev evF d dF h hnd hcur hrest hF1 hF2
    obtain ⟨s1, s2, st', ev', d', h1, h2, h3⟩ := majorityFold_cons_ok h
    have hperm := takeBetter_ids h2
    have hnd' : (st'.ids ++ rest.map (·.id)).Nodup :=
      (hperm.append_right _).nodup_iff.mpr (by simpa using hnd)
    obtain ⟨t1, t2, t3⟩ := heurH11_takeBetter_entries h2
    obtain ⟨f1, f2⟩ := heurH11_fold_entries h3
    have hain : a ∈ order := hrest a (by simp)
    have hcur' : st'.cur ∈ order := by
      rcases t3 with e | e <;> rw [e] <;> assumption
    obtain ⟨g1, g2⟩ := heurH11_wellConditioned_pair hwc hcur hain
    have hR : pol = .random → st'.cur = a →
        ∃ e, Spec.C11.findEntry out a.id = some e ∧ e.ev.cmp ≠ st.cur.id := by
      intro hrand hca
      have hne0 : st.cur.id ≠ "" := hrandom hrand _ hcur
      -- the old winner's id is not among the ids still to come, nor the challenger's
      have hdisj : st.cur.id ∉ (a :: rest).map (·.id) := by
        intro hm
        have hin : st.cur.id ∈ st.ids := by simp [MajState.ids]
        exact (List.nodup_append.mp hnd).2.2 _ hin _ hm rfl
      have hmem : a.id ∈ stF.ids := by
        apply (majorityFold_ids h3).symm.subset
        rw [List.mem_append]; left
        rw [heurH11_ids_eq, hca]; simp
      rw [heurH11_ids_eq, List.mem_append] at hmem
      rcases hmem with hmem | hmem
      · obtain ⟨p, hp, hpid⟩ := List.mem_map.mp hmem
        obtain ⟨e, hf, hev⟩ := hF1 p hp
        refine ⟨e, by rw [← hpid]; exact hf, ?_⟩
        rw [hev]
        rcases f2 p hp with hq | hq
        · -- the challenger (now running winner) has no entry yet
          exfalso
          have hn := (List.nodup_append.mp hnd').1
          rw [heurH11_ids_eq] at hn
          have : p.1 ∈ st'.entries.map (·.1) := List.mem_map.mpr ⟨p, hq, rfl⟩
          exact (List.nodup_append.mp hn).2.2 p.1 this st'.cur.id (by simp) (by rw [hpid, hca])
        · intro he
          rw [he, hca] at hq
          exact hdisj hq
      · simp only [List.mem_singleton] at hmem
        obtain ⟨e, hf, hc⟩ := hF2
        refine ⟨e, by rw [hmem]; exact hf, ?_⟩
        rw [hc]; exact fun h => hne0 h.symm
    have hstep := heurH11_step (out := out) hpol g1 g2 h1 h2 (fun p hp => hF1 p (f1 p hp)) hR
    have := ih h3 hnd' hcur' (fun x hx => hrest x (by simp [hx])) hF1 hF2
    unfold Spec.C11.replay
    rw [hstep]
    exact this

/-! ### the exact link lists -/

theorem heurH11_lookup_map (f : String → List String) (k : String) :
    ∀ (g : List String), k ∈ g → (g.map (fun id => (id, f id))).lookup k = some (f k)
  | [], h => by simp at h
  | x :: xs, h => by
    simp only [List.map_cons, List.lookup_cons]
    by_cases hk : k = x
    · subst hk; simp
    · have : (k == x) = false := by simpa using hk
      rw [this]
      exact heurH11_lookup_map f k xs (by simpa [hk] using h)

theorem heurH11_lookup_map_none (f : String → List String) (k : String) :
    ∀ (g : List String), k ∉ g → (g.map (fun id => (id, f id))).lookup k = none
  | [], _ => rfl
  | x :: xs, h => by
    simp only [List.mem_cons, not_or] at h
    have : (k == x) = false := by simpa using h.1
    simp only [List.map_cons, List.lookup_cons, this]
    exact heurH11_lookup_map_none f k xs h.2

/-- `prepareRanking` links every entry to exactly what the checker expects: the group dropped just
    before, followed by the peers of the own group -/
theorem heurH11_expectedLinks {β : Type} : ∀ (worse : List String) (gs : List (List (String × β))),
    (gs.flatten.map (·.1)).Nodup → ∀ e ∈ majorityEntries worse gs,
      (Spec.C11.expectedLinks worse (gs.map (·.map (·.1)))).lookup e.id = some e.links
  | _, [], _, e, he => by simp [majorityEntries] at he
  | worse, g :: gs, hnd, e, he => by
    simp only [List.flatten_cons, List.map_append] at hnd
    obtain ⟨hg, hgs, hdis⟩ := List.nodup_append.mp hnd
    simp only [majorityEntries, List.mem_append] at he
    simp only [List.map_cons, Spec.C11.expectedLinks, List.lookup_append]
    rcases he with he | he
    · obtain ⟨i, hi, rfl⟩ := List.mem_iff_getElem.mp he
      have hi' : i < g.length := by simpa [groupEntries] using hi
      rw [groupEntries_getElem]
      have hmem : g[i].1 ∈ g.map (·.1) := List.mem_map.mpr ⟨g[i], List.getElem_mem _, rfl⟩
      have hgi : g[i].1 = (g.map (·.1))[i]'(by simpa using hi') := by simp
      have hEq : (g.map (·.1)).filter (· != g[i].1) = (g.map (·.1)).eraseIdx i := by
        rw [← List.Nodup.erase_eq_filter hg, hgi, List.Nodup.erase_getElem hg]
      rw [heurH11_lookup_map (fun id => worse ++ (g.map (·.1)).filter (· != id)) _ _ hmem]
      simp only [hEq]
      rfl
    · have hin : e.id ∈ gs.flatten.map (·.1) := by
        rw [← majorityEntries_ids (g.map (·.1)) gs]; exact List.mem_map.mpr ⟨e, he, rfl⟩
      have hnot : e.id ∉ g.map (·.1) := fun hm => hdis _ hm _ hin rfl
      rw [heurH11_lookup_map_none _ _ _ hnot]
      simp only [Option.none_or]
      exact heurH11_expectedLinks (g.map (·.1)) gs hgs e he

theorem heurH11_sameSet_self (l : List String) : Spec.C11.sameSet l l = true := by
  simp [Spec.C11.sameSet]

theorem heurH11_linksOk {gs : List (List (MajRes Rat))} (hnd : (gs.flatten.map (·.1)).Nodup) :
    Spec.C11.linksOk (majorityRanking gs) (gs.map (·.map (·.1))) = true := by
  unfold Spec.C11.linksOk
  simp only [List.all_eq_true]
  intro e he
  have he' : e ∈ majorityEntries [] gs := by
    unfold majorityRanking at he; exact List.mem_reverse.mp he
  rw [heurH11_expectedLinks [] gs hnd e he']
  exact heurH11_sameSet_self _

/-! ### assembling the checker's verdict -/

theorem heurH11_explain_ok {wc : List (WCrit Rat)} {first : Alt Rat} {rest : List (Alt Rat)}
    {policy : String} {out : List Spec.C11.Entry} {stS : Spec.C11.St}
    (hnd : ((first :: rest).map (·.id)).Nodup)
    (hr : Spec.C11.replay policy wc out rest ⟨first, [], []⟩ = Except.ok stS)
    (hids : out.map (·.id) = ((stS.groups ++ [stS.buffer ++ [stS.cur.id]]).flatten).reverse)
    {w : Spec.C11.Entry} {tail : List Spec.C11.Entry} (ho : out = w :: tail)
    (hw : w.id = stS.cur.id) (hc : w.ev.cmp = "")
    (hl : Spec.C11.linksOk out (stS.groups ++ [stS.buffer ++ [stS.cur.id]]) = true) :
    Spec.C11.explain wc (first :: rest) policy out = "ok" := by
  unfold Spec.C11.explain
  have hdec : (!decide ((first :: rest).map (·.id)).Nodup) = false := by
    rw [decide_eq_true hnd]; rfl
  simp only [hdec, Bool.false_eq_true, if_false, hr]
  have hne : (out.map (·.id) != ((stS.groups ++ [stS.buffer ++ [stS.cur.id]]).flatten).reverse) = false := by
    rw [hids]; simp
  simp only [hne, Bool.false_eq_true, if_false]
  subst ho
  simp only [hw, hc, bne_self_eq_false, Bool.false_eq_true, if_false, hl, Bool.not_true]

/-- **the checker accepts the model's tournament** -/
theorem heurH11_tournament_check {pol : DrawPolicy} {policy : String} (hpol : heurH11_policyOk pol policy)
    {wc : List (WCrit Rat)} {first : Alt Rat} {rest : List (Alt Rat)} {d : Draws Rat}
    {out : List (Linked (MajEval Rat))}
    (h : majorityTournament pol wc first rest d = Except.ok out)
    (hnd : ((first :: rest).map (·.id)).Nodup)
    (hwc : heurH11_wellConditioned wc (first :: rest) = true)
    (hrandom : pol = .random → ∀ a ∈ first :: rest, a.id ≠ "") :
    Spec.C11.check wc (first :: rest) policy out = true := by
  unfold majorityTournament at h
  obtain ⟨⟨⟨st, ev⟩, d'⟩, hf, h⟩ := R.bind_eq_ok h
  simp at h
  subst h
  have hflat : (majorityGroups st ev).flatten = st.entries ++ [(st.cur.id, ⟨ev, "", Num.zero⟩)] := by
    simp [majorityGroups, MajState.entries]
  have hperm : st.ids.Perm ((first :: rest).map (·.id)) := by
    have := majorityFold_ids hf
    simpa [MajState.ids] using this
  have hflatids : (majorityGroups st ev).flatten.map (·.1) = st.ids := by
    rw [hflat, heurH11_ids_eq]; simp
  have hndG : ((majorityGroups st ev).flatten.map (·.1)).Nodup := by
    rw [hflatids]; exact hperm.nodup_iff.mpr hnd
  have hidsOut : (majorityRanking (majorityGroups st ev)).map (·.id) = st.ids.reverse := by
    rw [majorityRanking_ids, hflatids]
  have hndOut : ((majorityRanking (majorityGroups st ev)).map (·.id)).Nodup := by
    rw [hidsOut]; exact List.nodup_reverse.mpr (hperm.nodup_iff.mpr hnd)
  have hpay := majorityRanking_payload (majorityGroups st ev)
  rw [hflat] at hpay
  have hF1 : ∀ p ∈ st.entries, ∃ e, Spec.C11.findEntry (majorityRanking (majorityGroups st ev)) p.1 = some e ∧ e.ev = p.2 :=
    fun p hp => heurH11_findEntry hpay hndOut (by simp [hp])
  have hF2 : ∃ e, Spec.C11.findEntry (majorityRanking (majorityGroups st ev)) st.cur.id = some e ∧ e.ev.cmp = "" := by
    obtain ⟨e, h1, h2⟩ := heurH11_findEntry (p := (st.cur.id, (⟨ev, "", Num.zero⟩ : MajEval Rat))) hpay hndOut (by simp)
    exact ⟨e, h1, by rw [h2]⟩
  have hrep := heurH11_replay (out := majorityRanking (majorityGroups st ev)) hpol hwc hrandom hf
    (by simpa [MajState.ids] using hnd) (by simp) (fun a ha => by simp [ha]) hF1 hF2
  have hG : (heurH11_toSpec st).groups ++ [(heurH11_toSpec st).buffer ++ [(heurH11_toSpec st).cur.id]]
      = (majorityGroups st ev).map (·.map (·.1)) := by
    simp [heurH11_toSpec, majorityGroups]
  -- the head of the ranking is the winner's entry
  rw [List.reverse_append] at hpay
  simp only [List.reverse_cons, List.reverse_nil, List.nil_append, List.singleton_append] at hpay
  cases hout : majorityRanking (majorityGroups st ev) with
  | nil => rw [hout] at hpay; simp at hpay
  | cons w tail =>
    rw [hout] at hpay
    simp only [List.map_cons, List.cons.injEq, Prod.mk.injEq] at hpay
    unfold Spec.C11.check
    rw [← hout]
    have hex := heurH11_explain_ok (wc := wc) (policy := policy) hnd hrep
      (by rw [hG, majorityRanking_ids, List.map_flatten]) hout (by rw [hpay.1.1]; rfl)
      (by rw [hpay.1.2]) (by rw [hG]; exact heurH11_linksOk hndG)
    simp [hex]

/-! ### concrete instances (used by the `example`s of Props/C11.lean) -/

def heurH11_exWc : List (WCrit Rat) := [⟨⟨"g", "gain", none⟩, 2⟩, ⟨⟨"k", "cost", none⟩, 1⟩]
def heurH11_exA : Alt Rat := ⟨"a", [("g", 1), ("k", 5)]⟩
def heurH11_exB : Alt Rat := ⟨"b", [("g", 3), ("k", 5)]⟩
def heurH11_exC : Alt Rat := ⟨"c", [("g", 3), ("k", 4)]⟩
/-- a pair whose criterion difference is exactly 1e-6: a strict win for the code (1e-6 > float64(1e-6)),
    a tie for the checker -/
def heurH11_gapWc : List (WCrit Rat) := [⟨⟨"g", "gain", none⟩, 1⟩]
def heurH11_gapA : Alt Rat := ⟨"a", [("g", 1 / 1000000)]⟩
def heurH11_gapB : Alt Rat := ⟨"b", [("g", 0)]⟩

end Rdm
