/-
  Reduced-problem equivalence (C15), from the parameters to the decision: `evaluate` (the seven
  `Evaluate`s dispatched on the method parameters) gives the same result on the state criteria omission
  hands on and on the state built from the request with the omitted criteria deleted.
-/
import Rdm.Lemmas.BiasAReducedParse
import Rdm.Model.Heuristics
set_option linter.unusedSectionVars false
set_option linter.unusedSimpArgs false
set_option linter.unnecessarySeqFocus false
open Rdm
namespace Rdm.BiasA
variable {α : Type} [Num α]

/-! ### `Evaluate`, dispatched on the method -/

/-- the `AlternativesRanking` a method returns, with the method's own evaluation payload -/
inductive Outcome (α : Type) where
  | utility (r : List (RankEntry α))
  | electre (r : List (Linked (Int × Int)))
  | majority (r : List (Linked (MajEval α)))
  | aspect (r : List (Linked (AspEval α)))
  | satisf (r : List (Linked (SatEval α)))

/-- the value a utility method gives an alternative under parsed parameters (as `Ops.utilityValue`) -/
def utilityValue (eps : α) (mp : MParams α) (a : Alt α) : R α :=
  match mp with
  | .ws wc => weightedSum a wc
  | .owa wc => owa a wc
  | .choquet w _ => choquetValue eps a w
  | _ => throw "not-a-utility-method"

/-- `Evaluate` of the three utility methods: `Rank` of the considered alternatives' values
    (as the driver op `utility-evaluate`) -/
def utilityRanking (eps : α) (d : DMP α) : R (List (RankEntry α)) := do
  let scored ← d.co.mapM fun a => do pure (⟨a.id, ← utilityValue eps d.mp a⟩ : Scored α)
  pure (ranking scored)

/-- `PreferenceFunction.Evaluate(dmp)` of the method the parameters belong to.  `eps` is the Choquet tie
    tolerance, `ds` the stream of the heuristic's seeded generator.  For aspect elimination this is the
    model for pairwise distinct weights (`aspectEvaluate`: ties between weights are broken by the
    generator in the code — the caveat of the property). -/
def evaluate (eps : α) (d : DMP α) (ds : Draws α) : R (Outcome α) :=
  match d.mp with
  | .ws _ => (utilityRanking eps d).map .utility
  | .owa _ => (utilityRanking eps d).map .utility
  | .choquet _ _ => (utilityRanking eps d).map .utility
  | .electre ec dist => (electreIII d.co d.crit ec dist).map .electre
  | .majority _ _ _ _ _ => (majorityEvaluate d ds).map .majority
  | .aspect _ _ _ _ _ => (aspectEvaluate d ds).map .aspect
  | .satisf _ _ _ _ _ => (satisfactionEvaluate d ds).map .satisf

/-! ### OWA: sorting the weights first changes nothing -/

theorem owa_sort_invariant (a : Alt Rat) (z : List (WCrit Rat)) : owa a z = owa a (sortWCrits z) := by
  unfold owa
  have h := sortWCrits_idem z
  unfold sortWCrits at h ⊢
  simp only [List.length_mergeSort]
  rw [h]

/-! ### Choquet: the integral only reads capacities of sets of the alternative's criteria -/

theorem dropGroup_suffix (eps cur : α) : ∀ l : List (String × α), dropGroup eps cur l <:+ l
  | [] => by unfold dropGroup; exact List.suffix_refl _
  | x :: xs => by
    unfold dropGroup
    split
    · exact (dropGroup_suffix eps cur xs).trans (List.suffix_cons x xs)
    · exact List.suffix_refl _

theorem choquetComponents_congr (eps : α) {w w' : KMap α} :
    ∀ (fuel : Nat) (l : List (String × α)) (prev : α), l.length < fuel →
      (∀ s, s <:+ l → s ≠ [] →
        w.get? (criterionKey (s.map (·.1))) = w'.get? (criterionKey (s.map (·.1)))) →
      choquetComponents eps w l prev = choquetComponents eps w' l prev
  | 0, _, _, h, _ => by omega
  | fuel + 1, [], prev, _, _ => by rw [choquetComponents, choquetComponents]
  | fuel + 1, x :: xs, prev, h, hw => by
    rw [choquetComponents, choquetComponents]
    have hu : unionWeight w ((x :: xs).map (·.1)) = unionWeight w' ((x :: xs).map (·.1)) := by
      unfold unionWeight
      rw [hw (x :: xs) (List.suffix_refl _) (by simp)]
    have hlen : (dropGroup eps x.2 xs).length < fuel := by
      have := dropGroup_length_le eps x.2 xs
      simp only [List.length_cons] at h; omega
    rw [hu, choquetComponents_congr eps fuel (dropGroup eps x.2 xs) x.2 hlen
      (fun s hs hne => hw s (hs.trans ((dropGroup_suffix eps x.2 xs).trans (List.suffix_cons x xs))) hne)]

/-- two capacity tables that agree on every non-empty subset of the kept criteria give every alternative
    that holds exactly the kept criteria the same Choquet value -/
theorem choquetValue_congr_kept (eps : α) {kept : List (Crit α)} {w w' : KMap α}
    (hkn : (kept.map (·.id)).Nodup)
    (hw : ∀ s ∈ powerSet (kept.map (·.id)), w.get? (criterionKey s) = w'.get? (criterionKey s))
    {a : Alt α} (ha : a.vals.keys = kept.map (·.id)) :
    choquetValue eps a w = choquetValue eps a w' := by
  unfold choquetValue
  rw [choquetComponents_congr eps ((ascendingVals a).length + 1) (ascendingVals a) Num.zero (Nat.lt_succ_self _)]
  intro s hs hne
  have hperm : ((ascendingVals a).map (·.1)).Perm (kept.map (·.id)) := by
    rw [← ha]
    exact (List.mergeSort_perm _ _).map _
  have hsl : (s.map (·.1)).Sublist ((ascendingVals a).map (·.1)) := hs.sublist.map _
  have htn : (s.map (·.1)).Nodup := hsl.nodup (hperm.nodup_iff.mpr hkn)
  have hts : ∀ x ∈ s.map (·.1), x ∈ kept.map (·.id) := fun x hx => hperm.mem_iff.mp (hsl.subset hx)
  obtain ⟨s', hs', hp⟩ := exists_powerSet_perm _ _ hkn htn (by simpa using hne) hts
  rw [← criterionKey_perm_eq hp]
  exact hw s' hs'

/-! ### the lift -/

theorem utilityRanking_congr (eps : α) {nc nc' co : List (Alt α)} {crit crit' : List (Crit α)}
    {mp mp' : MParams α} (h : ∀ a ∈ co, utilityValue eps mp a = utilityValue eps mp' a) :
    utilityRanking eps ⟨nc, co, crit, mp⟩ = utilityRanking eps ⟨nc', co, crit', mp'⟩ := by
  unfold utilityRanking
  simp only
  rw [mapM_congr_mem (l := co) (g := fun a => do pure (⟨a.id, ← utilityValue eps mp' a⟩ : Scored α))]
  intro a ha
  rw [h a ha]

/-- **parameters that match give the same decision**: on a state whose criteria are the kept ones and
    whose considered alternatives hold exactly the kept criteria, `Evaluate` returns the same ranking
    under the parameters `OnCriteriaRemoved` produced and under the parameters the reduced request parses
    to -/
theorem evaluate_paramsMatch {eps : Rat} {kept : List (Crit Rat)} {nc co : List (Alt Rat)}
    {mp' mp'' : MParams Rat} (hm : ParamsMatch kept mp' mp'') (hkn : (kept.map (·.id)).Nodup)
    (hco : ∀ a ∈ co, a.vals.keys = kept.map (·.id)) (ds : Draws Rat) :
    evaluate eps ⟨nc, co, kept, mp'⟩ ds = evaluate eps ⟨nc, co, kept, mp''⟩ ds := by
  cases mp' with
  | owa z =>
    cases mp'' <;> simp only [ParamsMatch] at hm
    subst hm
    unfold evaluate
    simp only
    rw [utilityRanking_congr eps (mp := .owa z) (mp' := .owa (sortWCrits z))
      (fun a _ => owa_sort_invariant a z)]
  | choquet fw cs =>
    cases mp'' <;> simp only [ParamsMatch] at hm
    rename_i r' cs'
    obtain ⟨rfl, hw⟩ := hm
    unfold evaluate
    simp only
    rw [utilityRanking_congr eps (mp := .choquet fw cs) (mp' := .choquet r' cs)
      (fun a ha => choquetValue_congr_kept eps hkn hw (hco a ha))]
  | ws wc => cases mp'' <;> simp only [ParamsMatch] at hm <;> cases hm <;> rfl
  | electre ec dist => cases mp'' <;> simp only [ParamsMatch] at hm <;> cases hm <;> rfl
  | majority w cur seed rnd dr =>
    cases mp'' <;> simp only [ParamsMatch] at hm <;> cases hm <;> rfl
  | aspect fn lv seed w rnd =>
    cases mp'' <;> simp only [ParamsMatch] at hm <;> cases hm <;> rfl
  | satisf fn lv seed cur rnd =>
    cases mp'' <;> simp only [ParamsMatch] at hm <;> cases hm <;> rfl

/-! ### entries of undeclared criteria are never read

The reduced request may as well keep the omitted criteria's entries in its tables (the quantifier of the
property: "method parameters may contain entries for criteria that are not declared"): weighted sum, OWA and
the heuristics zip the *declared* criteria with the table, the ELECTRE credibility matrix looks up the
declared criteria only. -/

theorem zipWithWeights_congr {cs : List (Crit α)} {w w' : KMap α}
    (h : ∀ c ∈ cs, w.get? c.id = w'.get? c.id) : zipWithWeights cs w = zipWithWeights cs w' := by
  unfold zipWithWeights
  apply mapM_congr_mem
  intro c hc
  unfold KMap.fetch
  rw [h c hc]

/-- ELECTRE III: the ranking only depends on the entries of the declared criteria -/
theorem electreIII_congr {alts : List (Alt α)} {crits : List (Crit α)} {ec ec' : KMap (ECrit α)}
    (dist : LinFun α) (h : ∀ c ∈ crits, ec.get? c.id = ec'.get? c.id) :
    electreIII alts crits ec dist = electreIII alts crits ec' dist := by
  have hcred : ∀ a1 a2 : Alt α, electreCredibility a1 a2 crits ec = electreCredibility a1 a2 crits ec' := by
    intro a1 a2
    unfold electreCredibility
    rw [mapM_congr_mem (l := crits) (g := fun c => evaluatePair a1 a2 c ec')]
    intro c hc
    unfold evaluatePair
    rw [h c hc]
  have hpair : ∀ (i j : Nat) (a1 a2 : Alt α),
      evaluateAlternativesPair i j a1 a2 crits ec = evaluateAlternativesPair i j a1 a2 crits ec' := by
    intro i j a1 a2
    unfold evaluateAlternativesPair
    rw [hcred]
  unfold electreIII credibilityMatrix
  simp only [hpair]

/-- majority heuristic: the tournament only depends on the weights of the declared criteria -/
theorem majorityEvaluate_congr {nc co : List (Alt α)} {crit : List (Crit α)} {w w' : KMap α} {cur : String}
    {seed : Int} {rnd : Bool} {dr : String} (h : ∀ c ∈ crit, w.get? c.id = w'.get? c.id) (ds : Draws α) :
    majorityEvaluate ⟨nc, co, crit, .majority w cur seed rnd dr⟩ ds =
      majorityEvaluate ⟨nc, co, crit, .majority w' cur seed rnd dr⟩ ds := by
  unfold majorityEvaluate
  simp only
  rw [zipWithWeights_congr h]
  rfl

/-- weighted sum: `ParseParams` only reads the weights of the declared criteria -/
theorem parseParams_ws_congr {crits : List (Crit α)} {w w' : KMap α}
    (h : ∀ c ∈ crits, w.get? c.id = w'.get? c.id) :
    parseParams crits (.ws w) = parseParams crits (.ws w') := by
  rw [parseParams_ws, parseParams_ws, zipWithWeights_congr h]

/-! ### the state after omission and the state of the reduced request -/

/-- the state `MakeDecision` builds from a request: the known alternatives split into considered and not
    considered, the declared criteria, the parsed method parameters -/
def requestState (nc co : List (Alt α)) (crits : List (Crit α)) (raw : RawParams α) : R (DMP α) := do
  pure { nc := nc, co := co, crit := crits, mp := ← parseParams crits raw }

/-- every alternative criteria omission hands on holds exactly the kept criteria, in their order -/
theorem omission_alt_keys {eps : α} {c : SplitCond α} {name : String} {cur res : DMP α} {d : Draws α}
    {omitted : List (Crit α)} (h : omissionApply eps c name cur d = .ok (res, omitted)) :
    (∀ a ∈ res.co, a.vals.keys = res.crit.map (·.id)) ∧ (∀ a ∈ res.nc, a.vals.keys = res.crit.map (·.id)) := by
  obtain ⟨_, ordered, _, hc⟩ := omissionApply_ok h
  obtain ⟨_, _, hco, hnc⟩ := omitCriteria_ok hc
  constructor
  · intro a ha
    obtain ⟨a0, _, _, hk, _⟩ := forall₂_mem_right (preserveCriteria_ok hco) a ha
    exact hk
  · intro a ha
    obtain ⟨a0, _, _, hk, _⟩ := forall₂_mem_right (preserveCriteria_ok hnc) a ha
    exact hk

/-- **the decision after criteria omission equals the decision for the request with the omitted criteria
    deleted**, for every method (the quantification over `raw` is the quantification over the method).

    Full request: criteria `all`, alternatives `nc`/`co`, raw method parameters `raw`, parsed to `mp`.
    The bias runs on that state, keeps `res.crit` and omits `omitted`.  Reduced request: the kept criteria
    in the order the bias leaves them, every alternative with the kept values only (`restrictAlt`), the raw
    parameters with every per-criterion table restricted (`restrictRaw`).  Then the reduced request is
    accepted by `ParseParams`, the state built from it has the same criteria and alternatives as the state
    the bias hands on, and `Evaluate` returns the same ranking on both, for every stream of the
    heuristic's generator.

    Hypotheses: criteria ids distinct (`Criteria.Validate`); for Choquet the string fact `KeysSplit`
    (canonical keys split into the criteria they were built from: ids without commas).
    For aspect elimination `evaluate` is the model for pairwise distinct weights. -/
theorem omission_decision_eq_reduced {eps : Rat} {c : SplitCond Rat} {name : String}
    {all : List (Crit Rat)} {nc co : List (Alt Rat)} {raw : RawParams Rat} {cur res : DMP Rat}
    {d : Draws Rat} {omitted : List (Crit Rat)}
    (hreq : requestState nc co all raw = .ok cur)
    (h : omissionApply eps c name cur d = .ok (res, omitted))
    (hnd : (all.map (·.id)).Nodup) (hkey : ∀ w, raw = .choquet w → KeysSplit res.crit) :
    ∃ reduced, requestState (nc.map (restrictAlt res.crit)) (co.map (restrictAlt res.crit)) res.crit
        (restrictRaw res.crit raw) = .ok reduced ∧
      reduced.crit = res.crit ∧ reduced.co = res.co ∧ reduced.nc = res.nc ∧
      ParamsMatch res.crit res.mp reduced.mp ∧
      ∀ ds, evaluate eps res ds = evaluate eps reduced ds := by
  unfold requestState at hreq
  rw [bind_ok] at hreq
  obtain ⟨mp, hp, hreq⟩ := hreq
  rw [pure_ok] at hreq
  subst hreq
  -- what the bias did
  obtain ⟨_, ordered, ho, hc⟩ := omissionApply_ok h
  obtain ⟨hs, hmp, hco, hnc⟩ := omitCriteria_ok hc
  have hperm : (omitted ++ res.crit).Perm all := by
    have := orderCriteria_perm ho
    rw [← split_append hs] at this
    exact this
  have hsub : ∀ k ∈ res.crit, k ∈ all := fun k hk => hperm.mem_iff.1 (List.mem_append_right _ hk)
  have hkn : (res.crit.map (·.id)).Nodup := by
    have : ((omitted ++ res.crit).map (·.id)).Nodup := (hperm.map _).nodup_iff.2 hnd
    rw [List.map_append] at this
    exact (List.nodup_append.1 this).2.1
  obtain ⟨mp'', hp'', hm⟩ := reduced_params_commute hp hnd hsub hkn hkey hmp
  have e2 := preserveCriteria_eq_restrict hco
  have e3 := preserveCriteria_eq_restrict hnc
  simp only at e2 e3
  refine ⟨⟨res.nc, res.co, res.crit, mp''⟩, ?_, rfl, rfl, rfl, hm, ?_⟩
  · unfold requestState
    rw [hp'', ok_bind, ← e2, ← e3]
    rfl
  · intro ds
    have := evaluate_paramsMatch (eps := eps) (nc := res.nc) hm hkn (omission_alt_keys h).1 ds
    cases res
    exact this

end Rdm.BiasA
