/-
  Lemmas for the end-to-end model, part 13 (progress over whole sequences, continued): anchoring with the inline
  applier joins omission / reversal / fatigue — four of the six biases, every method, every ordering, through
  `Evaluate`.
-/
import Rdm.Lemmas.DecideProgressAnchor
namespace Rdm
set_option linter.unusedSimpArgs false
set_option linter.unusedSectionVars false

/-- the validity of anchoring props depends on the state only through the ids of the known alternatives -/
theorem prog_anchPropsOk_congr {d d' : DMP Rat} (h : d'.all.map (·.id) = d.all.map (·.id)) (p : AnchProps Rat) :
    prog_anchPropsOk d' p = prog_anchPropsOk d p := by
  unfold prog_anchPropsOk
  have : ∀ a : String × Option Rat, (d'.all.any fun x => x.id == a.1) = (d.all.any fun x => x.id == a.1) := by
    intro a
    have e : ∀ l : List (Alt Rat), (l.any fun x => x.id == a.1) = ((l.map (·.id)).any fun s => s == a.1) := by
      intro l; rw [List.any_map]; rfl
    rw [e, e, h]
  simp only [this]

/-- an entry of a sequence that cannot fail: one of the three of `ProgEntry`, or anchoring with the inline applier
    and props valid against the known alternatives of the request -/
def ProgEntryA (orig : DMP Rat) (keepOne : Bool) (N : Nat) (b : Chosen Rat (BProps Rat)) : Prop :=
  ProgEntry keepOne N b ∨
  (b.name = Facts.biasAnchoring ∧ ∃ p, b.props = .anch p ∧ p.applier.fn = Facts.anchoringInline ∧
    prog_anchPropsOk orig p = true)

theorem prog_stepA {exp : Rat → Rat} {g : Int → Draws Rat} {N nco nnc : Nat} {keepOne : Bool}
    {b : Chosen Rat (BProps Rat)} {orig0 orig cur : DMP Rat}
    (hb : ProgEntryA orig0 keepOne N b) (hinv : ProgBase N nco nnc cur)
    (hids : cur.all.map (·.id) = orig0.all.map (·.id))
    (hu : ∀ k, ∀ u ∈ g k, 0 ≤ u ∧ u ≤ 1)
    (hg : ∀ k, (nco + nnc) * N ≤ (g k).length ∧ N ≤ (g k).length) :
    ∃ res rep, applyBias exp g b.name b.props orig cur = .ok (res, rep) ∧ ProgBase N nco nnc res ∧
      res.all.map (·.id) = orig0.all.map (·.id) ∧ res.mp.kind = cur.mp.kind ∧
      (keepOne = prog_needsCriterion cur.mp → prog_ready cur = true → prog_ready res = true) := by
  rcases hb with hb | ⟨hname, p, hprops, hfn, hp⟩
  · obtain ⟨res, rep, h⟩ := prog_step_total (exp := exp) (g := g) (orig := orig) hb.weaken hinv hu hg
    obtain ⟨hkind, _, e1, e2⟩ := prog_step_sizes hb.name h
    refine ⟨res, rep, h, prog_step_base hb.name h hinv, ?_, hkind, ?_⟩
    · rw [← hids]; unfold DMP.all; rw [List.map_append, List.map_append, e1, e2]
    · intro hk hr
      subst hk
      exact prog_step_ready hb h hinv.ncrit hr
  · obtain ⟨bn, bprob, bprops⟩ := b
    dsimp only at hname hprops ⊢
    subst hname hprops
    obtain ⟨res, rep, h, hcr, hmp, hex⟩ := prog_inlineAnchoring_total (exp := exp)
      (rd := g (p.applier.params.seed "newCriterionRandomSeed")) (gens := (anchGenSeeds p).map g) hinv.coh
      (by rw [prog_anchPropsOk_congr hids]; exact hp) hfn
    have happly : applyBias exp g Facts.biasAnchoring (.anch p) orig cur = .ok (res, .anchoring rep) := by
      rw [prog_applyBias_anchoring_eq, h]; rfl
    obtain ⟨e1, e2⟩ := decideApplyBias_ids happly
    have hcoh : Coherent res := decideApplyBias_coherent happly hinv.coh
      (Or.inr (Or.inr (Or.inr (Or.inl ⟨rfl, Or.inl ⟨p, rfl, hfn⟩⟩))))
    refine ⟨res, .anchoring rep, happly, ⟨hcoh, ?_, by rw [hmp]; exact hinv.knows, by rw [hcr]; exact hinv.ncrit,
      ?_, ?_⟩, ?_, by rw [hmp], ?_⟩
    · intro hne
      rw [hmp] at hne
      exact hex (hinv.exact hne)
    · rw [← hinv.nco]; simpa using congrArg List.length e1
    · rw [← hinv.nnc]; simpa using congrArg List.length e2
    · rw [← hids]; unfold DMP.all; rw [List.map_append, List.map_append, e1, e2]
    · intro _ hr
      rw [prog_ready_congr hmp hcr e1 e2]; exact hr

/-- **progress over a sequence** of omission / reversal / fatigue / inline-anchoring entries -/
theorem prog_loopA_total {exp : Rat → Rat} {g : Int → Draws Rat} {orig0 orig : DMP Rat} {N nco nnc : Nat}
    {full : Bool} (hu : ∀ k, ∀ u ∈ g k, 0 ≤ u ∧ u ≤ 1)
    (hg : ∀ k, (nco + nnc) * N ≤ (g k).length ∧ N ≤ (g k).length) :
    ∀ (chosen : List (Chosen Rat (BProps Rat))) (cur : DMP Rat) (d : Draws Rat),
      (∀ b ∈ chosen, ProgEntryA orig0 (full && prog_needsCriterion cur.mp) N b) → ProgBase N nco nnc cur →
      cur.all.map (·.id) = orig0.all.map (·.id) →
      (full = true → prog_ready cur = true) → chosen.length ≤ d.length →
      ∃ fin outs, processLoop (applyBias exp g) orig chosen cur d = .ok (fin, outs) ∧ ProgBase N nco nnc fin ∧
        (full = true → prog_ready fin = true) := by
  intro chosen
  induction chosen with
  | nil => intro cur d _ hb _ hr _; exact ⟨cur, [], rfl, hb, hr⟩
  | cons b rest ih =>
    intro cur d hall hbase hids hr hd
    obtain ⟨u, d', hud, hl⟩ := decideDraw_total (d := d) (by simp at hd; omega)
    have hrest : ∀ b' ∈ rest, ProgEntryA orig0 (full && prog_needsCriterion cur.mp) N b' :=
      fun b' hb' => hall b' (List.mem_cons_of_mem _ hb')
    have hd' : rest.length ≤ d'.length := by simp at hd; omega
    unfold processLoop
    simp only [hud, bind, Except.bind]
    by_cases hfire : u < b.prob
    · simp only [hfire, if_true]
      obtain ⟨next, rep, hstep, hbase', hids', hkind, hready⟩ := prog_stepA (exp := exp) (g := g) (orig := orig)
        (hall b (by simp)) hbase hids hu hg
      have hnc := (prog_kind_needsExact hkind).2
      have hr' : full = true → prog_ready next = true := by
        intro hf
        subst hf
        exact hready (by simp) (hr rfl)
      obtain ⟨fin, outs, hloop, hfin⟩ := ih next d' (by rw [hnc]; exact hrest) hbase' hids' hr' hd'
      exact ⟨fin, ⟨b.name, b.prob, some rep⟩ :: outs, by simp only [hstep, hloop, pure, Except.pure], hfin⟩
    · simp only [hfire, if_false]
      obtain ⟨fin, outs, hloop, hfin⟩ := ih cur d' hrest hbase hids hr hd'
      exact ⟨fin, ⟨b.name, b.prob, none⟩ :: outs, by simp only [hloop, pure, Except.pure], hfin⟩

/-- **through `Evaluate`**, four of the six biases -/
theorem prog_decideWithA_total {exp : Rat → Rat} {o : List (WCrit Rat) → List (WCrit Rat)} {req : Request Rat}
    {g : Int → Draws Rat} {params : DMP Rat} {chosen : List (Chosen Rat (BProps Rat))}
    (hprep : prepare req = .ok (params, chosen)) (hcov : Spec.C07.covers params.crit params.mp = true)
    (hex : prog_needsExact params.mp = true → prog_exactValues params = true)
    (hr : prog_ready params = true)
    (hall : ∀ b ∈ chosen, ProgEntryA params (prog_needsCriterion params.mp) params.crit.length b)
    (hord : ∀ l, ∀ x ∈ o l, x ∈ l)
    (hu : ∀ k, ∀ u ∈ g k, 0 ≤ u ∧ u ≤ 1) (hd : chosen.length ≤ (g req.biasSeed).length)
    (hg : ∀ k, prog_demand params ≤ (g k).length) :
    ∃ resp, decideWith exp o req g = .ok resp ∧ Coherent resp.final := by
  obtain ⟨fin, outs, h, hb, hrf⟩ := prog_loopA_total (exp := exp) (g := g) (orig0 := params) (orig := params)
    (full := true) hu (fun k => by have := hg k; unfold prog_demand at this; omega) chosen params (g req.biasSeed)
    (by simpa using hall) (prog_prepare_base hprep hcov hex (prog_ready_knows hr)) rfl (fun _ => hr) hd
  obtain ⟨r, hev⟩ := prog_evaluate_total (o := o) (g := g) hb.coh hb.exact (hrf rfl) hord (fun k => by
    have := hg k; unfold prog_demand at this; rw [hb.nco]; omega)
  refine ⟨⟨r, outs, fin⟩, ?_, hb.coh⟩
  have hp : pipeline exp req g = .ok (fin, outs) := by unfold pipeline; rw [hprep]; exact h
  unfold decideWith
  simp only [hp, hev, bind, Except.bind, pure, Except.pure]

end Rdm
