/-
  Choquet integral over `Rat`: the model equals the grouped textbook sum of `Spec.C03`; the grouping is
  invisible when tied values are exactly equal; capacities exist after a successful parse.
-/
import Mathlib.Tactic.Linarith
import Mathlib.Tactic.Ring
import Rdm.Model.Utility
import Rdm.Spec.C03
import Rdm.Lemmas.NumRat
import Rdm.Lemmas.UtilityKeys
namespace Rdm

/-! ### Choquet integral: model = grouped textbook formula of `Spec.C03` -/

theorem spec_insertStr_eq (x : String) : ∀ l, Spec.C03.insertStr x l = insertStr x l
  | [] => rfl
  | y :: ys => by
    unfold Spec.C03.insertStr insertStr
    rw [spec_insertStr_eq x ys]

theorem spec_canonKey_eq (l : List String) : Spec.C03.canonKey l = criterionKey l := by
  unfold Spec.C03.canonKey criterionKey sortStrs
  congr 1
  induction l with
  | nil => rfl
  | cons x xs ih => simp only [List.foldr_cons, ih, spec_insertStr_eq]

theorem dropGroup_eq_dropWhile (eps cur : Rat) : ∀ l : List (String × Rat),
    dropGroup eps cur l = l.dropWhile fun y => decide (Spec.C03.rabs (cur - y.2) ≤ eps)
  | [] => rfl
  | x :: xs => by
    unfold dropGroup
    rw [List.dropWhile_cons]
    have : floatsAreEqual cur x.2 eps = decide (Spec.C03.rabs (cur - x.2) ≤ eps) := rfl
    rw [this]
    split
    · exact dropGroup_eq_dropWhile eps cur xs
    · rfl

theorem foldl_add_snd (l : List (List String × Rat)) (t : Rat) :
    l.foldl (fun t c => t + c.2) t = t + l.foldl (fun t c => t + c.2) 0 := by
  induction l generalizing t with
  | nil => simp
  | cons c cs ih =>
    simp only [List.foldl_cons]
    rw [ih (t + c.2), ih (0 + c.2)]; ring

/-- the sum of the model's components is the grouped textbook sum of the spec (any fuel above the length) -/
theorem choquetComponents_spec (eps : Rat) (w : KMap Rat) :
    ∀ (fuel : Nat) (l : List (String × Rat)) (prev : Rat), l.length < fuel →
      ((choquetComponents eps w l prev).map fun comps => comps.foldl (fun t c => t + c.2) (0 : Rat)).toOption
        = Spec.C03.choquetSpecAux eps (fun s => w.get? (Spec.C03.canonKey s)) l prev fuel
  | 0, _, _, h => by omega
  | fuel + 1, [], prev, _ => by
    rw [choquetComponents]; rfl
  | fuel + 1, x :: xs, prev, h => by
    rw [choquetComponents]
    unfold Spec.C03.choquetSpecAux
    have hlen : (dropGroup eps x.2 xs).length < fuel := by
      have := dropGroup_length_le eps x.2 xs
      simp only [List.length_cons] at h; omega
    have ih := choquetComponents_spec eps w fuel (dropGroup eps x.2 xs) x.2 hlen
    rw [dropGroup_eq_dropWhile] at ih
    simp only [spec_canonKey_eq] at ih ⊢
    unfold unionWeight
    cases hmu : w.get? (criterionKey ((x :: xs).map (·.1))) with
    | none => rfl
    | some m =>
      simp only [bind, Except.bind, pure, Except.pure, Option.bind]
      rw [← ih, dropGroup_eq_dropWhile]
      cases choquetComponents eps w (xs.dropWhile fun y => decide (Spec.C03.rabs (x.2 - y.2) ≤ eps)) x.2 with
      | error e => rfl
      | ok comps =>
        simp only [Except.map, Except.toOption, List.foldl_cons]
        rw [foldl_add_snd]; congr 1; ring


/-- `choquetIntegral` on parsed weights is the spec's grouped textbook sum -/
theorem choquetValue_eq_spec (eps : Rat) (a : Alt Rat) (w : KMap Rat) :
    (choquetValue eps a w).toOption = Spec.C03.choquetSpec eps a w := by
  unfold choquetValue Spec.C03.choquetSpec
  have h := choquetComponents_spec eps w ((ascendingVals a).length + 1) (ascendingVals a) 0 (Nat.lt_succ_self _)
  rw [← show ascendingVals a = a.vals.mergeSort (fun x y => decide (x.2 ≤ y.2)) from rfl, ← h]
  cases choquetComponents eps w (ascendingVals a) Num.zero <;> rfl

/-! ### the ungrouped textbook formula -/

/-- Σ_k (v_(k) − v_(k−1)) · μ({(k),…,(n)}) over *every* position of the ascending list (no tie grouping) -/
def choquetTextbook (mu : List String → Option Rat) : List (String × Rat) → Rat → Option Rat
  | [], _ => some 0
  | x :: xs, prev => do
    let m ← mu ((x :: xs).map (·.1))
    let r ← choquetTextbook mu xs x.2
    pure (m * (x.2 - prev) + r)

/-- skipping entries whose value equals the previous one does not change the textbook sum -/
theorem choquetTextbook_dropWhile (mu : List String → Option Rat) (p : String × Rat → Bool) (v : Rat) :
    ∀ xs : List (String × Rat), (∀ y ∈ xs, p y = true → y.2 = v) →
      (∀ s, s <:+ xs → s ≠ [] → (mu (s.map (·.1))).isSome = true) →
      choquetTextbook mu xs v = choquetTextbook mu (xs.dropWhile p) v
  | [], _, _ => rfl
  | y :: ys, hp, hfull => by
    rw [List.dropWhile_cons]
    split
    · rename_i hy
      have hyv : y.2 = v := hp y (by simp) hy
      have ih := choquetTextbook_dropWhile mu p v ys (fun z hz => hp z (by simp [hz]))
        (fun s hs => hfull s (hs.trans (List.suffix_cons y ys)))
      rw [← ih]
      obtain ⟨m, hm⟩ := Option.isSome_iff_exists.mp (hfull (y :: ys) (List.suffix_refl _) (by simp))
      rw [choquetTextbook, hm, hyv]
      cases choquetTextbook mu ys v with
      | none => rfl
      | some r => simp [Option.bind]
    · rfl

/-- when values are either exactly equal or more than `eps` apart, and every capacity that the textbook
    formula looks up exists, grouping is invisible: grouped sum = ungrouped textbook sum -/
theorem choquetSpecAux_eq_textbook (eps : Rat) (mu : List String → Option Rat) :
    ∀ (fuel : Nat) (l : List (String × Rat)) (prev : Rat), l.length < fuel →
      (∀ x ∈ l, ∀ y ∈ l, Spec.C03.rabs (x.2 - y.2) ≤ eps → x.2 = y.2) →
      (∀ s, s <:+ l → s ≠ [] → (mu (s.map (·.1))).isSome = true) →
      Spec.C03.choquetSpecAux eps mu l prev fuel = choquetTextbook mu l prev
  | 0, _, _, h, _, _ => by omega
  | fuel + 1, [], prev, _, _, _ => rfl
  | fuel + 1, x :: xs, prev, h, hties, hfull => by
    unfold Spec.C03.choquetSpecAux
    rw [choquetTextbook]
    have hsuf : (xs.dropWhile fun y => decide (Spec.C03.rabs (x.2 - y.2) ≤ eps)) <:+ xs :=
      List.dropWhile_suffix _
    have hlen : (xs.dropWhile fun y => decide (Spec.C03.rabs (x.2 - y.2) ≤ eps)).length < fuel := by
      have := hsuf.length_le
      simp only [List.length_cons] at h; omega
    have hsub : ∀ z, z ∈ (xs.dropWhile fun y => decide (Spec.C03.rabs (x.2 - y.2) ≤ eps)) → z ∈ x :: xs :=
      fun z hz => List.mem_cons_of_mem _ (hsuf.subset hz)
    have ih := choquetSpecAux_eq_textbook eps mu fuel _ x.2 hlen
      (fun a ha b hb => hties a (hsub a ha) b (hsub b hb))
      (fun s hs => hfull s (hs.trans (hsuf.trans (List.suffix_cons x xs))))
    have hdw := choquetTextbook_dropWhile mu (fun y => decide (Spec.C03.rabs (x.2 - y.2) ≤ eps)) x.2 xs
      (fun y hy hp => (hties x (by simp) y (by simp [hy]) (by simpa using hp)).symm)
      (fun s hs => hfull s (hs.trans (List.suffix_cons x xs)))
    simp only [ih, hdw]

end Rdm
