/-
  Lemmas about the request-level validation model (`Rdm/Model/Validate.lean`), used by Props/C20:
  `Except` plumbing, `forM` in `Except`, `fetchAlt`, and exact characterisations of
  `validateCriteria`, `validateAlternatives`, `validateRequest`.
  Everything is generic in the number type; core Lean only.
-/
import Rdm.Model.Validate
set_option linter.unusedSectionVars false
set_option linter.unusedSimpArgs false
namespace Rdm
variable {α : Type} [Num α]

/-! ### `Except` plumbing -/

theorem valH_bind_ok {β γ : Type} (x : β) (f : β → R γ) : (Except.ok x >>= f) = f x := rfl
theorem valH_bind_error {β γ : Type} (e : String) (f : β → R γ) :
    ((Except.error e : R β) >>= f) = Except.error e := rfl
theorem valH_pure_eq {β : Type} (x : β) : (pure x : R β) = Except.ok x := rfl
theorem valH_throw_eq {β : Type} (e : String) : (throw e : R β) = Except.error e := rfl

/-- a bind in `Except` succeeds iff both parts succeed -/
theorem valH_bind_eq_ok_iff {β γ : Type} (m : R β) (f : β → R γ) (y : γ) :
    (m >>= f) = Except.ok y ↔ ∃ x, m = Except.ok x ∧ f x = Except.ok y := by
  cases m with
  | error e =>
    rw [valH_bind_error]
    constructor
    · intro h; cases h
    · rintro ⟨x, h, _⟩; cases h
  | ok x =>
    rw [valH_bind_ok]
    constructor
    · intro h; exact ⟨x, rfl, h⟩
    · rintro ⟨x', h, h'⟩; cases h; exact h'

/-- a `Unit`-valued bind succeeds iff both parts succeed -/
theorem valH_bind_unit_ok_iff {γ : Type} (m : R Unit) (f : Unit → R γ) (y : γ) :
    (m >>= f) = Except.ok y ↔ m = Except.ok () ∧ f () = Except.ok y := by
  rw [valH_bind_eq_ok_iff]
  constructor
  · rintro ⟨⟨⟩, h1, h2⟩; exact ⟨h1, h2⟩
  · rintro ⟨h1, h2⟩; exact ⟨(), h1, h2⟩

/-- a result that is not `ok ()` is an error -/
theorem valH_error_of_ne_ok (m : R Unit) (h : m ≠ Except.ok ()) : ∃ e, m = Except.error e := by
  cases m with
  | error e => exact ⟨e, rfl⟩
  | ok u => cases u; exact absurd rfl h

theorem valH_ok_or_error (m : R Unit) : m = Except.ok () ∨ ∃ e, m = Except.error e := by
  cases m with
  | error e => exact Or.inr ⟨e, rfl⟩
  | ok u => cases u; exact Or.inl rfl

/-! ### `forM` in `Except` -/

theorem valH_forM_nil {β : Type} (f : β → R Unit) : ([] : List β).forM f = Except.ok () := rfl
theorem valH_forM_cons {β : Type} (f : β → R Unit) (a : β) (l : List β) :
    (a :: l).forM f = (f a >>= fun _ => l.forM f) := rfl

/-- `forM` over a list succeeds iff the body succeeds on every element -/
theorem valH_forM_ok_iff {β : Type} (f : β → R Unit) :
    ∀ l : List β, l.forM f = Except.ok () ↔ ∀ x ∈ l, f x = Except.ok ()
  | [] => by
    rw [valH_forM_nil]
    constructor
    · intro _ x hx; cases hx
    · intro _; rfl
  | a :: l => by
    rw [valH_forM_cons, valH_bind_unit_ok_iff, valH_forM_ok_iff f l]
    constructor
    · rintro ⟨h1, h2⟩ x hx
      rcases List.mem_cons.mp hx with rfl | hx
      · exact h1
      · exact h2 x hx
    · intro h
      exact ⟨h a List.mem_cons_self, fun x hx => h x (List.mem_cons_of_mem a hx)⟩

/-- `forM` fails as soon as the body fails on some element -/
theorem valH_forM_error {β : Type} (f : β → R Unit) (l : List β) (x : β) (hx : x ∈ l)
    (e : String) (h : f x = Except.error e) : ∃ e', l.forM f = Except.error e' := by
  apply valH_error_of_ne_ok
  intro hok
  have := (valH_forM_ok_iff f l).mp hok x hx
  rw [h] at this
  cases this

/-! ### `fetchAlt` -/

theorem valH_fetchAlt_ok_iff (known : List (Alt α)) (id : String) (a : Alt α) :
    fetchAlt known id = Except.ok a ↔ known.find? (fun a => a.id == id) = some a := by
  unfold fetchAlt
  split
  · next b hb =>
    rw [hb]
    constructor
    · intro h; cases h; rfl
    · intro h; cases h; rfl
  · next hb =>
    rw [hb]
    constructor
    · intro h; cases h
    · intro h; cases h

/-- `fetchAlt` succeeds iff some known alternative carries the id -/
theorem valH_fetchAlt_isOk_iff (known : List (Alt α)) (id : String) :
    (∃ a, fetchAlt known id = Except.ok a) ↔ ∃ a ∈ known, a.id = id := by
  constructor
  · rintro ⟨a, h⟩
    rw [valH_fetchAlt_ok_iff] at h
    exact ⟨a, List.mem_of_find?_eq_some h, by simpa using List.find?_some h⟩
  · rintro ⟨a, ha, hid⟩
    cases hf : known.find? (fun a => a.id == id) with
    | none =>
      rw [List.find?_eq_none] at hf
      exact absurd (by simpa using hid) (hf a ha)
    | some b => exact ⟨b, (valH_fetchAlt_ok_iff known id b).mpr hf⟩

/-- the body of the last loop of `validateRequest` -/
theorem valH_fetch_unit_ok_iff (known : List (Alt α)) (id : String) :
    (do let _ ← fetchAlt known id; pure () : R Unit) = Except.ok () ↔ ∃ a ∈ known, a.id = id := by
  rw [← valH_fetchAlt_isOk_iff]
  show (fetchAlt known id >>= fun _ => pure ()) = Except.ok () ↔ _
  rw [valH_bind_eq_ok_iff]
  constructor
  · rintro ⟨a, h, _⟩; exact ⟨a, h⟩
  · rintro ⟨a, h⟩; exact ⟨a, h, rfl⟩

/-! ### `validateCriteria` -/

/-- exact characterisation of `Criteria.Validate`: ids pairwise different and not seen before,
    every declared range has `¬ max ≤ min` -/
theorem valH_validateCriteria_ok_iff : ∀ (crit : List (Crit α)) (seen : List String),
    validateCriteria crit seen = Except.ok () ↔
      (crit.map (·.id)).Nodup ∧ (∀ c ∈ crit, c.id ∉ seen) ∧
      (∀ c ∈ crit, ∀ lo hi, c.range = some (lo, hi) → ¬ hi ≤ lo)
  | [], seen => by
    unfold validateCriteria
    constructor
    · intro _
      exact ⟨List.nodup_nil, fun c hc => (by cases hc), fun c hc => (by cases hc)⟩
    · intro _; rfl
  | c :: rest, seen => by
    have ih := valH_validateCriteria_ok_iff rest (c.id :: seen)
    have tail_iff :
        ((rest.map (·.id)).Nodup ∧ (∀ d ∈ rest, d.id ∉ c.id :: seen) ∧
          (∀ d ∈ rest, ∀ lo hi, d.range = some (lo, hi) → ¬ hi ≤ lo)) →
        c.id ∉ seen → (∀ lo hi, c.range = some (lo, hi) → ¬ hi ≤ lo) →
        (((c :: rest).map (·.id)).Nodup ∧ (∀ d ∈ c :: rest, d.id ∉ seen) ∧
          (∀ d ∈ c :: rest, ∀ lo hi, d.range = some (lo, hi) → ¬ hi ≤ lo)) := by
      rintro ⟨hn, hs, hr⟩ hcs hcr
      refine ⟨?_, ?_, ?_⟩
      · rw [List.map_cons, List.nodup_cons]
        refine ⟨?_, hn⟩
        intro hmem
        obtain ⟨d, hd, hdid⟩ := List.mem_map.mp hmem
        exact hs d hd (by rw [hdid]; exact List.mem_cons_self)
      · intro d hd
        rcases List.mem_cons.mp hd with rfl | hd
        · exact hcs
        · exact fun h => hs d hd (List.mem_cons_of_mem _ h)
      · intro d hd
        rcases List.mem_cons.mp hd with rfl | hd
        · exact hcr
        · exact hr d hd
    have head_of :
        (((c :: rest).map (·.id)).Nodup ∧ (∀ d ∈ c :: rest, d.id ∉ seen) ∧
          (∀ d ∈ c :: rest, ∀ lo hi, d.range = some (lo, hi) → ¬ hi ≤ lo)) →
        ((rest.map (·.id)).Nodup ∧ (∀ d ∈ rest, d.id ∉ c.id :: seen) ∧
          (∀ d ∈ rest, ∀ lo hi, d.range = some (lo, hi) → ¬ hi ≤ lo)) ∧
        c.id ∉ seen ∧ (∀ lo hi, c.range = some (lo, hi) → ¬ hi ≤ lo) := by
      rintro ⟨hn, hs, hr⟩
      rw [List.map_cons, List.nodup_cons] at hn
      refine ⟨⟨hn.2, ?_, fun d hd => hr d (List.mem_cons_of_mem _ hd)⟩,
        hs c List.mem_cons_self, hr c List.mem_cons_self⟩
      intro d hd hmem
      rcases List.mem_cons.mp hmem with h | h
      · exact hn.1 (List.mem_map.mpr ⟨d, hd, h⟩)
      · exact hs d (List.mem_cons_of_mem _ hd) h
    unfold validateCriteria
    split
    · next hcont =>
      constructor
      · intro h; cases h
      · intro h
        exact absurd (List.contains_iff_mem.mp hcont) (head_of h).2.1
    · next hcont =>
      have hcs : c.id ∉ seen := fun h => hcont (List.contains_iff_mem.mpr h)
      split
      · next lo hi hrange =>
        split
        · next hle =>
          constructor
          · intro h; cases h
          · intro h
            exact absurd hle ((head_of h).2.2 lo hi hrange)
        · next hle =>
          rw [ih]
          constructor
          · intro h
            refine tail_iff h hcs ?_
            intro lo' hi' h'
            rw [hrange] at h'
            cases h'
            exact hle
          · intro h; exact (head_of h).1
      · next hrange =>
        rw [ih]
        constructor
        · intro h
          refine tail_iff h hcs ?_
          intro lo' hi' h'
          rw [hrange] at h'
          cases h'
        · intro h; exact (head_of h).1

/-- with the empty accumulator the "not seen" clause disappears -/
theorem valH_validateCriteria_nil_ok_iff (crit : List (Crit α)) :
    validateCriteria crit [] = Except.ok () ↔
      (crit.map (·.id)).Nodup ∧ (∀ c ∈ crit, ∀ lo hi, c.range = some (lo, hi) → ¬ hi ≤ lo) := by
  rw [valH_validateCriteria_ok_iff]
  constructor
  · rintro ⟨h1, _, h3⟩; exact ⟨h1, h3⟩
  · rintro ⟨h1, h3⟩; exact ⟨h1, fun c _ h => (by cases h), h3⟩

/-- two entries with the same id at different positions: rejected, whatever was seen before -/
theorem valH_duplicate_rejected (crit : List (Crit α)) (seen : List String) (i j : Nat) (a b : Crit α)
    (hij : i < j) (hi : crit[i]? = some a) (hj : crit[j]? = some b) (hid : a.id = b.id) :
    ∃ e, validateCriteria crit seen = Except.error e := by
  apply valH_error_of_ne_ok
  intro hok
  have hn := ((valH_validateCriteria_ok_iff crit seen).mp hok).1
  have hi' : (crit.map (·.id))[i]? = some a.id := by rw [List.getElem?_map, hi]; rfl
  have hj' : (crit.map (·.id))[j]? = some a.id := by rw [List.getElem?_map, hj, hid]; rfl
  have := (List.getElem?_inj (List.getElem?_eq_some_iff.mp hi').1 hn).mp (hi'.trans hj'.symm)
  omega

/-! ### `validateAlternatives` -/

theorem valH_validateAlternatives_ok_iff (known : List (Alt α)) (crit : List (Crit α)) :
    validateAlternatives known crit = Except.ok () ↔ ∀ a ∈ known, ∀ c ∈ crit, a.vals.has c.id = true := by
  unfold validateAlternatives
  rw [valH_forM_ok_iff]
  apply forall_congr'
  intro a
  apply imp_congr_right
  intro _
  rw [valH_forM_ok_iff]
  apply forall_congr'
  intro c
  apply imp_congr_right
  intro _
  cases h : a.vals.has c.id
  · constructor
    · intro h'; cases h'
    · intro h'; cases h'
  · constructor
    · intro _; rfl
    · intro _; rfl

/-! ### `validateRequest` -/

/-- the do-block of `validateRequest` as an if-then-else over binds -/
theorem valH_validateRequest_eq (method : String) (crit : List (Crit α)) (known : List (Alt α))
    (chosen : List String) :
    validateRequest method crit known chosen =
      if isBlank method then Except.error "empty-method"
      else (validateCriteria crit [] >>= fun _ => validateAlternatives known crit >>= fun _ =>
        chosen.forM fun id => do let _ ← fetchAlt known id; pure ()) := by
  unfold validateRequest; split <;> rfl

/-- `validateRequest` succeeds iff each of its four stages does -/
theorem valH_validateRequest_ok_iff_stages (method : String) (crit : List (Crit α)) (known : List (Alt α))
    (chosen : List String) :
    validateRequest method crit known chosen = Except.ok () ↔
      isBlank method = false ∧ validateCriteria crit [] = Except.ok () ∧
      validateAlternatives known crit = Except.ok () ∧
      (chosen.forM fun id => (do let _ ← fetchAlt known id; pure () : R Unit)) = Except.ok () := by
  rw [valH_validateRequest_eq]
  cases hb : isBlank method
  · rw [if_neg (by simp), valH_bind_unit_ok_iff, valH_bind_unit_ok_iff]
    constructor
    · intro h; exact ⟨rfl, h⟩
    · intro h; exact h.2
  · rw [if_pos rfl]
    constructor
    · intro h; cases h
    · intro h; cases h.1

end Rdm
