/-
  Lemmas for property C13: the bridge between the `Prop`-level clauses proved of the model of the
  satisfaction heuristic (Rdm/Lemmas/HeurSatisf.lean, Props/C13.lean) and the Boolean checker
  `Spec.C13.check` that the driver evaluates on the implementation's output (exact rationals).
    * list plumbing: `isPermIds`, `sequentialLinks`, `keysIncreasing`, `find?`, `sameMap`;
    * arithmetic: the model's `isGoodEnough` (signed value below signed threshold fails) against the
      spec's `meets` (gain `t ≤ v`, cost `v ≤ t`);
    * the model's `worstEnds` / `valuesRange` (one fold over (min, max) pairs) against the spec's
      `worstEnd` (separate folds);
    * the search order of `searchOrder` has pairwise different ids when the known alternatives have.
-/
import Rdm.Model.Heuristics
import Rdm.Spec.C13
import Rdm.Lemmas.HeurList
import Rdm.Lemmas.HeurLinks
import Rdm.Lemmas.HeurSatisf
import Rdm.Lemmas.NumRat
import Mathlib.Data.List.Perm.Basic
import Mathlib.Tactic.Linarith
set_option linter.unusedSectionVars false
set_option linter.unusedSimpArgs false
namespace Rdm

/-! ### list plumbing of the checker -/

theorem heurH13_isPermIds_of_perm {a b : List String} (h : a.Perm b) :
    Spec.C13.isPermIds a b = true := by
  unfold Spec.C13.isPermIds
  simp only [Bool.and_eq_true, beq_iff_eq, List.all_eq_true, List.contains_iff_mem]
  exact ⟨⟨h.length_eq, fun x hx => h.subset hx⟩, fun x hx => h.symm.subset hx⟩

theorem heurH13_sequentialLinks : ∀ (out : List Spec.C13.Entry),
    (∀ i e, out[i]? = some e → e.links = ((out.map (·.id))[i + 1]?).toList) →
    Spec.C13.sequentialLinks out = true
  | [], _ => rfl
  | [e], h => by
    have := h 0 e rfl
    simp [Spec.C13.sequentialLinks, this]
  | e :: f :: rest, h => by
    have h0 := h 0 e rfl
    have ih := heurH13_sequentialLinks (f :: rest) (fun i x hx => by
      have := h (i + 1) x (by simpa using hx)
      simpa using this)
    simp [Spec.C13.sequentialLinks, h0, ih]

theorem heurH13_idx_lt : ∀ {l : List String} {x y : String}, l.Nodup → [x, y].Sublist l →
    Spec.C13.idxOfStr l x < Spec.C13.idxOfStr l y
  | [], _, _, _, h => by simp at h
  | z :: zs, x, y, hnd, h => by
    have hz : z ∉ zs := (List.nodup_cons.mp hnd).1
    have hnd' : zs.Nodup := (List.nodup_cons.mp hnd).2
    unfold Spec.C13.idxOfStr
    cases h with
    | cons _ h' =>
      have ih := heurH13_idx_lt hnd' h'
      unfold Spec.C13.idxOfStr at ih
      have hx : x ∈ zs := h'.subset (by simp)
      have hy : y ∈ zs := h'.subset (by simp)
      have hzx : (z == x) = false := by
        simpa using fun e : z = x => hz (e ▸ hx)
      have hzy : (z == y) = false := by
        simpa using fun e : z = y => hz (e ▸ hy)
      simp only [List.findIdx_cons, hzx, hzy, cond_false]
      omega
    | cons_cons _ h' =>
      have hy : y ∈ zs := h'.subset (by simp)
      have hzy : (z == y) = false := by
        simpa using fun e : z = y => hz (e ▸ hy)
      simp [List.findIdx_cons, hzy]

theorem heurH13_keysIncreasing_of_pairwise : ∀ (k : List (Nat × Nat)),
    k.Pairwise (fun a b => a.1 < b.1 ∨ (a.1 = b.1 ∧ a.2 < b.2)) → Spec.C13.keysIncreasing k = true
  | [], _ => rfl
  | [_], _ => rfl
  | a :: b :: rest, h => by
    have hab := (List.pairwise_cons.mp h).1 b (by simp)
    have ih := heurH13_keysIncreasing_of_pairwise (b :: rest) (List.pairwise_cons.mp h).2
    simp only [Spec.C13.keysIncreasing, ih, Bool.and_true]
    rcases hab with h1 | ⟨h1, h2⟩
    · simp [h1]
    · simp [h1, h2]

/-- Prop-level acceptance order ⇒ the checker's strictly increasing (level, search position) keys -/
theorem heurH13_keys {ids : List String} (hnd : ids.Nodup) (out : List Spec.C13.Entry)
    (hpw : (out.map (·.ev.idx)).Pairwise (· ≤ ·))
    (hsub : ∀ ℓ, ((out.filter (fun e => e.ev.idx == ℓ)).map (·.id)).Sublist ids) :
    Spec.C13.keysIncreasing (out.map fun e => (e.ev.idx, Spec.C13.idxOfStr ids e.id)) = true := by
  apply heurH13_keysIncreasing_of_pairwise
  rw [List.pairwise_map]
  rw [List.pairwise_map] at hpw
  rw [List.pairwise_iff_forall_sublist]
  intro a b hab
  have hle : a.ev.idx ≤ b.ev.idx := (List.pairwise_iff_forall_sublist.mp hpw) hab
  rcases Nat.lt_or_ge a.ev.idx b.ev.idx with hlt | hge
  · exact Or.inl hlt
  · right
    have heq : a.ev.idx = b.ev.idx := Nat.le_antisymm hle hge
    refine ⟨heq, ?_⟩
    have h1 := (hab.filter (fun e => e.ev.idx == b.ev.idx)).map (·.id)
    have h2 : ([a, b].filter (fun e => e.ev.idx == b.ev.idx)).map (·.id) = [a.id, b.id] := by
      simp [heq]
    rw [h2] at h1
    exact heurH13_idx_lt hnd (h1.trans (hsub b.ev.idx))

/-- with pairwise different ids, looking an alternative up by its id finds that alternative -/
theorem heurH13_find_of_mem {α : Type} : ∀ {order : List (Alt α)} {a : Alt α},
    (order.map (·.id)).Nodup → a ∈ order → order.find? (·.id == a.id) = some a
  | [], _, _, h => by simp at h
  | x :: xs, a, hnd, h => by
    have hx : x.id ∉ xs.map (·.id) := (List.nodup_cons.mp (by simpa using hnd)).1
    have hnd' : (xs.map (·.id)).Nodup := (List.nodup_cons.mp (by simpa using hnd)).2
    rcases List.mem_cons.mp h with rfl | h
    · simp
    · have hne : (x.id == a.id) = false := by
        simpa using fun e : x.id = a.id => hx (e ▸ List.mem_map.mpr ⟨a, h, rfl⟩)
      rw [List.find?_cons_of_neg (by simpa using hne)]
      exact heurH13_find_of_mem hnd' h

/-- a map without duplicate keys equals itself as a finite function -/
theorem heurH13_sameMap_refl : ∀ (t : KMap Rat), (t.map (·.1)).Nodup → Spec.C13.sameMap t t = true := by
  intro t hnd
  have key : ∀ (t : KMap Rat), (t.map (·.1)).Nodup → ∀ p ∈ t, t.get? p.1 = some p.2 := by
    intro t
    induction t with
    | nil => intro _ p hp; simp at hp
    | cons kv ts ih =>
      intro hnd p hp
      obtain ⟨k, v⟩ := kv
      have hk : k ∉ ts.map (·.1) := (List.nodup_cons.mp (by simpa using hnd)).1
      have hnd' : (ts.map (·.1)).Nodup := (List.nodup_cons.mp (by simpa using hnd)).2
      rcases List.mem_cons.mp hp with rfl | hp
      · simp [KMap.get?, List.lookup_cons]
      · have hne : (p.1 == k) = false := by
          simpa using fun e : p.1 = k => hk (e ▸ List.mem_map.mpr ⟨p, hp, rfl⟩)
        have := ih hnd' p hp
        simpa [KMap.get?, List.lookup_cons, hne] using this
  unfold Spec.C13.sameMap
  simp only [Bool.and_eq_true, beq_iff_eq, List.all_eq_true]
  exact ⟨⟨trivial, fun p hp => key t hnd p hp⟩, fun p hp => key t hnd p hp⟩

/-- members of a prefix are members at a position inside the prefix -/
theorem heurH13_mem_take {β : Type} {l : List β} {n : Nat} {t : β} (h : t ∈ l.take n) :
    ∃ j, j < n ∧ l[j]? = some t := by
  obtain ⟨i, hi, rfl⟩ := List.mem_take_iff_getElem.mp h
  exact ⟨i, by omega, by simp⟩

/-! ### `isGoodEnough` (model) against `meets` / `satisfies` (spec) -/

/-- a present value makes `CriterionValue` succeed with value × multiplier -/
theorem heurH13_signed_of_get {a : Alt Rat} {c : Crit Rat} {v : Rat} (h : a.vals.get? c.id = some v) :
    a.signed c = Except.ok (v * c.mult) := by
  unfold Alt.signed Alt.raw
  rw [h]; rfl

/-- inversion of `zipWithWeights` on a non-empty criteria list: the threshold of the first criterion
    is present in the level -/
theorem heurH13_zip_cons {c : Crit Rat} {cs : List (Crit Rat)} {t : KMap Rat} {th : List (WCrit Rat)}
    (h : zipWithWeights (c :: cs) t = Except.ok th) :
    ∃ w th', t.get? c.id = some w ∧ zipWithWeights cs t = Except.ok th' ∧ th = ⟨c, w⟩ :: th' := by
  unfold zipWithWeights at h
  rw [List.mapM_cons] at h
  obtain ⟨x, hx, h⟩ := R.bind_eq_ok h
  obtain ⟨xs, hxs, h⟩ := R.bind_eq_ok h
  obtain ⟨w, hw, hx⟩ := R.bind_eq_ok hx
  simp at h hx
  subst h; subst hx
  refine ⟨w, xs, ?_, hxs, rfl⟩
  unfold KMap.fetch at hw
  split at hw
  · rename_i v hv
    simp at hw; rw [hv, hw]
  · simp at hw

theorem heurH13_zip_nil {t : KMap Rat} {th : List (WCrit Rat)}
    (h : zipWithWeights ([] : List (Crit Rat)) t = Except.ok th) : th = [] := by
  unfold zipWithWeights at h
  simp at h
  exact h

/-- `zipWithWeights` succeeds only when every criterion has a threshold in the level -/
theorem heurH13_zip_present : ∀ {cs : List (Crit Rat)} {t : KMap Rat} {th : List (WCrit Rat)},
    zipWithWeights cs t = Except.ok th → ∀ c ∈ cs, (t.get? c.id).isSome
  | [], _, _, _, c, hc => by simp at hc
  | x :: xs, t, th, h, c, hc => by
    obtain ⟨w, th', hw, hz, _⟩ := heurH13_zip_cons h
    rcases List.mem_cons.mp hc with rfl | hc
    · simp [hw]
    · exact heurH13_zip_present hz c hc

/-- the step of the spec's fold -/
def heurH13_step (a : Alt Rat) (t : KMap Rat) : Bool → Crit Rat → Option Bool :=
  fun acc c => do pure (acc && (← Spec.C13.meets a t c))

theorem heurH13_satisfies_eq (a : Alt Rat) (crits : List (Crit Rat)) (t : KMap Rat) :
    Spec.C13.satisfies a crits t = crits.foldlM (heurH13_step a t) true := rfl

/-- value and threshold present: `meets` is the comparison -/
theorem heurH13_meets_of_get {a : Alt Rat} {t : KMap Rat} {c : Crit Rat} {v w : Rat}
    (hv : a.vals.get? c.id = some v) (hw : t.get? c.id = some w) :
    Spec.C13.meets a t c = some (if c.type == "cost" then decide (v ≤ w) else decide (w ≤ v)) := by
  unfold Spec.C13.meets
  rw [hv, hw]; rfl

/-- **the arithmetic bridge**: "signed value below signed threshold" (model) is the negation of
    "gain: threshold ≤ value, cost: value ≤ threshold" (spec) -/
theorem heurH13_below_iff (c : Crit Rat) (v w : Rat) :
    (v * c.mult < c.mult * w) ↔ (if c.type == "cost" then decide (v ≤ w) else decide (w ≤ v)) = false := by
  unfold Crit.mult
  by_cases hc : (c.type == "cost") = true
  · simp only [hc, if_true, Num.one_rat, decide_eq_false_iff_not, not_le]
    constructor <;> intro h <;> linarith
  · simp only [hc, if_false, Num.one_rat, decide_eq_false_iff_not, not_le, Bool.false_eq_true]
    constructor <;> intro h <;> linarith

/-- once the accumulator is `false` the spec's fold stays `false` (if nothing is missing) -/
theorem heurH13_fold_false (a : Alt Rat) (t : KMap Rat) : ∀ (cs : List (Crit Rat)),
    (∀ c ∈ cs, (a.vals.get? c.id).isSome) → (∀ c ∈ cs, (t.get? c.id).isSome) →
    cs.foldlM (heurH13_step a t) false = some false
  | [], _, _ => rfl
  | c :: cs, hv, hw => by
    obtain ⟨v, hv1⟩ := Option.isSome_iff_exists.mp (hv c (by simp))
    obtain ⟨w, hw1⟩ := Option.isSome_iff_exists.mp (hw c (by simp))
    rw [List.foldlM_cons]
    have : heurH13_step a t false c = some false := by
      unfold heurH13_step
      rw [heurH13_meets_of_get hv1 hw1]; rfl
    rw [this]
    exact heurH13_fold_false a t cs (fun x hx => hv x (by simp [hx])) (fun x hx => hw x (by simp [hx]))

/-- the model's verdict on a level is the spec's verdict, when the alternative has a value for every
    criterion (the model stops at the first failing criterion, the spec looks at all of them) -/
theorem heurH13_fold_of_isGoodEnough (a : Alt Rat) (t : KMap Rat) :
    ∀ (cs : List (Crit Rat)) (th : List (WCrit Rat)) (b : Bool),
      zipWithWeights cs t = Except.ok th → (∀ c ∈ cs, (a.vals.get? c.id).isSome) →
      isGoodEnough a th = Except.ok b →
      ∀ acc, cs.foldlM (heurH13_step a t) acc = some (acc && b)
  | [], th, b, hz, _, hg, acc => by
    rw [heurH13_zip_nil hz] at hg
    simp [isGoodEnough] at hg
    subst hg; simp
  | c :: cs, th, b, hz, hv, hg, acc => by
    obtain ⟨w, th', hw, hz', rfl⟩ := heurH13_zip_cons hz
    obtain ⟨v, hv1⟩ := Option.isSome_iff_exists.mp (hv c (by simp))
    have hv' : ∀ x ∈ cs, (a.vals.get? x.id).isSome := fun x hx => hv x (by simp [hx])
    unfold isGoodEnough at hg
    rw [heurH13_signed_of_get hv1] at hg
    simp only [R.bind_ok] at hg
    rw [List.foldlM_cons]
    by_cases hlt : v * c.mult < c.mult * w
    · simp only [hlt, if_true, R.pure_eq] at hg
      have hb : b = false := by injection hg with hg; exact hg.symm
      have : heurH13_step a t acc c = some false := by
        unfold heurH13_step
        rw [heurH13_meets_of_get hv1 hw, (heurH13_below_iff c v w).mp hlt]; simp
      rw [this, hb]
      simp only [Bool.and_false]
      exact heurH13_fold_false a t cs hv' (heurH13_zip_present hz')
    · simp only [hlt, if_false] at hg
      have hm : (if c.type == "cost" then decide (v ≤ w) else decide (w ≤ v)) = true := by
        cases h : (if c.type == "cost" then decide (v ≤ w) else decide (w ≤ v))
        · exact absurd ((heurH13_below_iff c v w).mpr h) hlt
        · rfl
      have : heurH13_step a t acc c = some acc := by
        unfold heurH13_step
        rw [heurH13_meets_of_get hv1 hw, hm]; simp
      rw [this]
      exact heurH13_fold_of_isGoodEnough a t cs th' b hz' hv' hg acc

/-- fails the level in the model ⇒ fails it in the spec -/
theorem heurH13_satisfies_of_bad {crits : List (Crit Rat)} {a : Alt Rat} {t : KMap Rat}
    (hv : ∀ c ∈ crits, (a.vals.get? c.id).isSome) (h : LevelBad crits a t) :
    Spec.C13.satisfies a crits t = some false := by
  obtain ⟨th, hz, hb⟩ := h
  rw [heurH13_satisfies_eq, heurH13_fold_of_isGoodEnough a t crits th false hz hv hb true]; rfl

/-- meets the level in the model ⇒ satisfies it in the spec -/
theorem heurH13_satisfies_of_good {crits : List (Crit Rat)} {a : Alt Rat} {t : KMap Rat}
    (hv : ∀ c ∈ crits, (a.vals.get? c.id).isSome) (h : LevelGood crits a t) :
    Spec.C13.satisfies a crits t = some true := by
  obtain ⟨th, hz, hb⟩ := h
  rw [heurH13_satisfies_eq, heurH13_fold_of_isGoodEnough a t crits th true hz hv hb true]; rfl

/-! ### `worstEnds` / `valuesRange` (model) against `worstEnd` (spec) -/

/-- the model folds (min, max) pairs, the spec folds min and max separately: same result -/
theorem heurH13_fold_pair : ∀ (rest : List Rat) (lo hi : Rat),
    rest.foldl (fun (acc : Rat × Rat) x =>
        (if x < acc.1 then x else acc.1, if acc.2 < x then x else acc.2)) (lo, hi)
      = (rest.foldl (fun m x => if x < m then x else m) lo,
         rest.foldl (fun m x => if m < x then x else m) hi)
  | [], _, _ => rfl
  | x :: xs, lo, hi => by
    simp only [List.foldl_cons]
    exact heurH13_fold_pair xs _ _

/-- reading all raw values succeeds in the model ⇒ the spec reads the same values -/
theorem heurH13_mapM_raw (c : Crit Rat) : ∀ (all : List (Alt Rat)) (vs : List Rat),
    all.mapM (·.raw c) = Except.ok vs → all.mapM (·.vals.get? c.id) = some vs
  | [], vs, h => by
    simp at h; subst h; rfl
  | a :: as, vs, h => by
    rw [List.mapM_cons] at h
    obtain ⟨v, hv, h⟩ := R.bind_eq_ok h
    obtain ⟨vs', hvs, h⟩ := R.bind_eq_ok h
    simp at h; subst h
    have ih := heurH13_mapM_raw c as vs' hvs
    have hg : a.vals.get? c.id = some v := by
      unfold Alt.raw at hv
      split at hv
      · rename_i v' hv'
        simp at hv; rw [hv', hv]
      · simp at hv
    rw [List.mapM_cons, hg, ih]; rfl

/-- the model's range of a criterion, read at its worst end, is the spec's `worstEnd` -/
theorem heurH13_worstEnd {all : List (Alt Rat)} {c : Crit Rat} {r : Rat × Rat}
    (h : valuesRange all c = Except.ok r) :
    Spec.C13.worstEnd all c = some (if c.isGain then r.1 else r.2) := by
  unfold valuesRange at h
  unfold Spec.C13.worstEnd Crit.isGain
  cases hr : c.range with
  | some lohi =>
    obtain ⟨lo, hi⟩ := lohi
    rw [hr] at h
    simp at h; subst h
    cases hc : (c.type == "cost") <;> simp
  | none =>
    rw [hr] at h
    simp only at h
    obtain ⟨vs, hvs, h⟩ := R.bind_eq_ok h
    have hs := heurH13_mapM_raw c all vs hvs
    simp only [hs, Option.bind_eq_bind, Option.bind_some]
    cases vs with
    | nil =>
      simp at h; subst h
      cases hc : (c.type == "cost") <;> simp
    | cons v rest =>
      simp only [R.pure_eq] at h
      injection h with h
      rw [heurH13_fold_pair] at h
      subst h
      cases hc : (c.type == "cost") <;> simp

/-- the model's fallback thresholds are the spec's, list for list -/
theorem heurH13_worstEnds_list (all : List (Alt Rat)) : ∀ (cs : List (Crit Rat)) (w : KMap Rat),
    cs.mapM (fun c => do
        let r ← valuesRange all c
        pure (c.id, if c.isGain then r.1 else r.2)) = Except.ok w →
    Spec.C13.worstEnds all cs = some w ∧ w.map (·.1) = cs.map (·.id)
  | [], w, h => by
    simp at h; subst h; exact ⟨rfl, rfl⟩
  | c :: cs, w, h => by
    rw [List.mapM_cons] at h
    obtain ⟨p, hp, h⟩ := R.bind_eq_ok h
    obtain ⟨ps, hps, h⟩ := R.bind_eq_ok h
    obtain ⟨r, hr, hp⟩ := R.bind_eq_ok hp
    simp at h hp
    subst h; subst hp
    obtain ⟨ih1, ih2⟩ := heurH13_worstEnds_list all cs ps hps
    unfold Spec.C13.worstEnds at ih1 ⊢
    refine ⟨?_, by simp [ih2]⟩
    rw [List.mapM_cons, heurH13_worstEnd hr, ih1]; rfl

theorem heurH13_worstEnds {d : DMP Rat} {w : KMap Rat} (h : worstEnds d = Except.ok w) :
    Spec.C13.worstEnds d.all d.crit = some w ∧ w.map (·.1) = d.crit.map (·.id) :=
  heurH13_worstEnds_list d.all d.crit w h

/-! ### the checker, clause by clause -/

/-- `explain` says "ok" when each of its clauses holds -/
theorem heurH13_explain_ok (order : List (Alt Rat)) (crits : List (Crit Rat)) (levels : List (KMap Rat))
    (all : List (Alt Rat)) (out : List Spec.C13.Entry)
    (h1 : (order.map (·.id)).Nodup)
    (h2 : Spec.C13.isPermIds (out.map (·.id)) (order.map (·.id)) = true)
    (h3 : Spec.C13.sequentialLinks out = true)
    (h4 : Spec.C13.keysIncreasing
      (out.map fun e => (e.ev.idx, Spec.C13.idxOfStr (order.map (·.id)) e.id)) = true)
    (h5 : ∀ e ∈ out, Spec.C13.entryOk order crits levels all e = "ok") :
    Spec.C13.explain order crits levels all out = "ok" := by
  unfold Spec.C13.explain
  simp only [h1, h2, h3, h4, decide_true, Bool.not_true, Bool.false_eq_true, if_false]
  have : (out.map (Spec.C13.entryOk order crits levels all)).find? (· != "ok") = none := by
    rw [List.find?_eq_none]
    intro s hs
    obtain ⟨e, he, rfl⟩ := List.mem_map.mp hs
    simp [h5 e he]
  rw [this]; rfl

/-- an accepted entry passes `entryOk` -/
theorem heurH13_entryOk_accepted {order : List (Alt Rat)} {crits : List (Crit Rat)}
    {levels : List (KMap Rat)} {all : List (Alt Rat)} {e : Spec.C13.Entry} {a : Alt Rat} {t : KMap Rat}
    (hf : order.find? (·.id == e.id) = some a) (hi : e.ev.idx ≤ levels.length)
    (hb : ∀ t' ∈ levels.take e.ev.idx, Spec.C13.satisfies a crits t' = some false)
    (hl : levels[e.ev.idx]? = some t) (hs : Spec.C13.sameMap e.ev.thr t = true)
    (hg : Spec.C13.satisfies a crits t = some true) :
    Spec.C13.entryOk order crits levels all e = "ok" := by
  unfold Spec.C13.entryOk
  have hany : (levels.take e.ev.idx).any (fun t => Spec.C13.satisfies a crits t != some false) = false := by
    rw [List.any_eq_false]
    intro t' ht'
    simp [hb t' ht']
  simp only [hf, hany, hl, hs, hg, Nat.not_lt.mpr hi, if_false, Bool.false_eq_true, Bool.not_true,
    bne_self_eq_false]

/-- a leftover entry passes `entryOk` -/
theorem heurH13_entryOk_leftover {order : List (Alt Rat)} {crits : List (Crit Rat)}
    {levels : List (KMap Rat)} {all : List (Alt Rat)} {e : Spec.C13.Entry} {a : Alt Rat} {w : KMap Rat}
    (hf : order.find? (·.id == e.id) = some a) (hi : e.ev.idx = levels.length)
    (hb : ∀ t' ∈ levels, Spec.C13.satisfies a crits t' = some false)
    (hw : Spec.C13.worstEnds all crits = some w) (hs : Spec.C13.sameMap e.ev.thr w = true) :
    Spec.C13.entryOk order crits levels all e = "ok" := by
  unfold Spec.C13.entryOk
  have hany : (levels.take e.ev.idx).any (fun t => Spec.C13.satisfies a crits t != some false) = false := by
    rw [List.any_eq_false]
    intro t' ht'
    simp [hb t' (List.mem_of_mem_take ht')]
  have hl : levels[e.ev.idx]? = none := by rw [hi]; simp
  rw [hi] at hany hl
  simp only [hf, hany, hl, hs, hw, hi, Nat.lt_irrefl, gt_iff_lt, if_false, if_true, Bool.false_eq_true]

/-- **from the `Prop`-level clauses to the checker**: permutation, sequential links, acceptance order
    and entry semantics (as proved of the model, generic in the number type) imply `Spec.C13.check`
    over `Rat`, for criteria with distinct ids, levels without duplicate keys and alternatives that
    have a value for every criterion -/
theorem heurH13_check_of_clauses (d : DMP Rat) (levels : List (KMap Rat)) (order : List (Alt Rat))
    (out : List (Linked (SatEval Rat)))
    (hnd : (order.map (·.id)).Nodup)
    (hcrit : (d.crit.map (·.id)).Nodup)
    (hlev : ∀ t ∈ levels, (t.map (·.1)).Nodup)
    (hval : ∀ a ∈ order, ∀ c ∈ d.crit, (a.vals.get? c.id).isSome)
    (hperm : (out.map (·.id)).Perm (order.map (·.id)))
    (hlinks : ∀ i e, out[i]? = some e → e.links = ((out.map (·.id))[i + 1]?).toList)
    (hpw : (out.map (·.ev.idx)).Pairwise (· ≤ ·))
    (hsub : ∀ ℓ, ((out.filter (fun e => e.ev.idx == ℓ)).map (·.id)).Sublist (order.map (·.id)))
    (hent : ∀ e ∈ out,
      (e.ev.idx < levels.length ∧ levels[e.ev.idx]? = some e.ev.thr ∧
         ∃ a ∈ order, a.id = e.id ∧ LevelGood d.crit a e.ev.thr ∧
           ∀ j < e.ev.idx, ∃ t, levels[j]? = some t ∧ LevelBad d.crit a t) ∨
      (e.ev.idx = levels.length ∧ worstEnds d = Except.ok e.ev.thr ∧
         ∃ a ∈ order, a.id = e.id ∧ ∀ t ∈ levels, LevelBad d.crit a t)) :
    Spec.C13.check order d.crit levels d.all out = true := by
  unfold Spec.C13.check
  rw [heurH13_explain_ok order d.crit levels d.all out hnd (heurH13_isPermIds_of_perm hperm)
    (heurH13_sequentialLinks out hlinks) (heurH13_keys hnd out hpw hsub)]
  · rfl
  intro e he
  rcases hent e he with ⟨hi, hl, a, ha, hid, hg, hb⟩ | ⟨hi, hw, a, ha, hid, hb⟩
  · have hf : order.find? (·.id == e.id) = some a := hid ▸ heurH13_find_of_mem hnd ha
    have hthr : e.ev.thr ∈ levels := List.mem_of_getElem? hl
    refine heurH13_entryOk_accepted hf (Nat.le_of_lt hi) ?_ hl
      (heurH13_sameMap_refl _ (hlev _ hthr)) (heurH13_satisfies_of_good (hval a ha) hg)
    intro t' ht'
    obtain ⟨j, hj, hjt⟩ := heurH13_mem_take ht'
    obtain ⟨t'', ht'', hbad⟩ := hb j hj
    rw [hjt] at ht''
    injection ht'' with ht''
    subst ht''
    exact heurH13_satisfies_of_bad (hval a ha) hbad
  · have hf : order.find? (·.id == e.id) = some a := hid ▸ heurH13_find_of_mem hnd ha
    obtain ⟨hw1, hw2⟩ := heurH13_worstEnds hw
    exact heurH13_entryOk_leftover hf hi
      (fun t' ht' => heurH13_satisfies_of_bad (hval a ha) (hb t' ht')) hw1
      (heurH13_sameMap_refl _ (hw2 ▸ hcrit))

/-! ### the search order has pairwise different ids -/

theorem heurH13_searchOrder_nodup {α : Type} [Num α] (d : DMP α) (cur : String) (rnd : Bool)
    (ds ds' : Draws α) (first : Alt α) (rest : List (Alt α))
    (hall : (d.all.map (·.id)).Nodup)
    (h : searchOrder d cur rnd ds = Except.ok ((first, rest), ds')) :
    ((first :: rest).map (·.id)).Nodup ∧ ∀ a ∈ first :: rest, a ∈ d.all := by
  have hco : (d.co.map (·.id)).Nodup := by
    unfold DMP.all at hall
    rw [List.map_append] at hall
    exact (List.nodup_append.mp hall).1
  by_cases hc : cur = ""
  · subst hc
    have hp := searchOrder_without_current d rnd ds ds' first rest h
    refine ⟨(hp.map (·.id)).nodup_iff.mpr hco, fun a ha => ?_⟩
    unfold DMP.all
    exact List.mem_append_left _ (hp.subset ha)
  · obtain ⟨hid, hmem, hp⟩ := searchOrder_with_current d cur rnd ds ds' first rest hc h
    have hp' : (rest.map (·.id)).Perm ((d.co.map (·.id)).erase cur) := by
      rw [← removeAlt_ids]; exact hp.map (·.id)
    constructor
    · rw [List.map_cons, List.nodup_cons]
      refine ⟨?_, hp'.nodup_iff.mpr (hco.erase cur)⟩
      intro hm
      rw [hid] at hm
      exact (hco.mem_erase_iff.mp (hp'.subset hm)).1 rfl
    · intro a ha
      rcases List.mem_cons.mp ha with rfl | ha
      · exact hmem
      · unfold DMP.all
        exact List.mem_append_left _ ((removeAlt_sublist _ _).subset (hp.subset ha))

/-! ### decidable equality of rankings (only used to close concrete `example`s by `decide +kernel`) -/

instance heurH13_decEqSatEval {α : Type} [DecidableEq α] : DecidableEq (SatEval α)
  | ⟨i, t⟩, ⟨j, u⟩ =>
    if h : i = j ∧ t = u then isTrue (by rw [h.1, h.2])
    else isFalse (fun e => h (by cases e; exact ⟨rfl, rfl⟩))

instance heurH13_decEqLinked {β : Type} [DecidableEq β] : DecidableEq (Linked β)
  | ⟨i, e, l⟩, ⟨j, f, m⟩ =>
    if h : i = j ∧ e = f ∧ l = m then isTrue (by rw [h.1, h.2.1, h.2.2])
    else isFalse (fun x => h (by cases x; exact ⟨rfl, rfl, rfl⟩))

end Rdm
