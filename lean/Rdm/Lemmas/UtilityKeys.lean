/-
  Canonical capacity keys: `sortStrs` / `criterionKey` only depend on the multiset of ids.
-/
import Rdm.Model.Utility
namespace Rdm

/-! ### canonical capacity keys -/

theorem insertStr_perm (x : String) : ∀ l : List String, (insertStr x l).Perm (x :: l)
  | [] => List.Perm.refl _
  | y :: ys => by
    unfold insertStr
    split
    · exact List.Perm.refl _
    · exact ((insertStr_perm x ys).cons y).trans (List.Perm.swap x y ys)

theorem insertStr_sorted (x : String) : ∀ l : List String, l.Pairwise (· ≤ ·) → (insertStr x l).Pairwise (· ≤ ·)
  | [], _ => by simp [insertStr]
  | y :: ys, h => by
    unfold insertStr
    split
    · rename_i hxy
      rw [List.pairwise_cons]
      refine ⟨?_, h⟩
      intro z hz
      rcases List.mem_cons.mp hz with rfl | hz
      · exact hxy
      · exact String.le_trans hxy ((List.pairwise_cons.mp h).1 z hz)
    · rename_i hxy
      have hyx : y ≤ x := (String.le_total x y).resolve_left hxy
      rw [List.pairwise_cons] at h ⊢
      refine ⟨?_, insertStr_sorted x ys h.2⟩
      intro z hz
      rcases List.mem_cons.mp ((insertStr_perm x ys).mem_iff.mp hz) with rfl | hz
      · exact hyx
      · exact h.1 z hz

theorem sortStrs_perm : ∀ l : List String, (sortStrs l).Perm l
  | [] => List.Perm.refl _
  | x :: xs => by
    show (insertStr x (sortStrs xs)).Perm (x :: xs)
    exact (insertStr_perm x _).trans ((sortStrs_perm xs).cons x)

theorem sortStrs_sorted : ∀ l : List String, (sortStrs l).Pairwise (· ≤ ·)
  | [] => List.Pairwise.nil
  | x :: xs => by
    show (insertStr x (sortStrs xs)).Pairwise (· ≤ ·)
    exact insertStr_sorted x _ (sortStrs_sorted xs)

/-- `sort.Strings` only depends on the multiset of ids -/
theorem sortStrs_perm_eq {l₁ l₂ : List String} (h : l₁.Perm l₂) : sortStrs l₁ = sortStrs l₂ :=
  List.Perm.eq_of_pairwise (le := (· ≤ ·)) (fun _ _ _ _ h1 h2 => String.le_antisymm h1 h2)
    (sortStrs_sorted l₁) (sortStrs_sorted l₂)
    ((sortStrs_perm l₁).trans (h.trans (sortStrs_perm l₂).symm))

theorem criterionKey_perm_eq {l₁ l₂ : List String} (h : l₁.Perm l₂) : criterionKey l₁ = criterionKey l₂ := by
  unfold criterionKey; rw [sortStrs_perm_eq h]

/-- the model's key and the spec's key are the same function -/
theorem sortStrs_idem (l : List String) : sortStrs (sortStrs l) = sortStrs l := by
  have h := sortStrs_perm_eq (sortStrs_perm l)
  exact h

end Rdm
