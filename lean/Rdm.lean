import Rdm.Basic
