//go:build verif && (c11 || allprops)

package majority

import "github.com/Azbesciak/RealDecisionMaker/lib/model"

// VerifCompare exposes the unexported per-pair scoring function `compare` to the verification
// harness (stage `majority-compare` of property C11).  Overlaid at build time; not part of /repo.
func VerifCompare(criteriaWithWeights *model.WeightedCriteria, a1, a2 *model.AlternativeWithCriteria) (model.Weight, model.Weight) {
	return compare(criteriaWithWeights, a1, a2)
}
