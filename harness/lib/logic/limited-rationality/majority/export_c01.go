//go:build verif

package majority

import "github.com/Azbesciak/RealDecisionMaker/lib/model"

// C01PrepareRanking exposes prepareRanking (drop-out groups, worst first → ranking) to the harness.
func C01PrepareRanking(groups [][]model.AlternativeResult) *model.AlternativesRanking {
	return prepareRanking(groups)
}
