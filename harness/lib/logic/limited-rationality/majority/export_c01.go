//go:build verif && (c01 || c11 || allprops)

package majority

import "github.com/Azbesciak/RealDecisionMaker/lib/model"

// C01PrepareRanking exposes prepareRanking (drop-out groups, worst first → ranking) to the harness.
func C01PrepareRanking(groups [][]model.AlternativeResult) *model.AlternativesRanking {
	return prepareRanking(groups)
}
