//go:build verif && (c19 || allprops)

package anchoring

import (
	"github.com/Azbesciak/RealDecisionMaker/lib/model"
	criteria_bounding "github.com/Azbesciak/RealDecisionMaker/lib/model/criteria-bounding"
)

// Exported wrappers (verification build only) around the unexported stages of Anchoring.Apply, so that
// the stages can be driven with more than one reference point (the shipped reference-point evaluators
// always return exactly one, which leaves the multi-point paths of both appliers unreachable from Apply).

func VerifScaling(criteria *model.Criteria, all []model.AlternativeWithCriteria) CriteriaScaling {
	return evaluatePerCriterionNormalizationScaleRatio(criteria, all)
}

func VerifDiffs(
	a *Anchoring,
	alternatives, referencePoints []model.AlternativeWithCriteria,
	criteria *model.Criteria,
	scaling CriteriaScaling,
	loss, gain *FunctionDefinition,
) []ReferencePointsDifference {
	l := a.getAnchoringEvaluatorFunction(loss, "loss")
	g := a.getAnchoringEvaluatorFunction(gain, "gain")
	return calculateDiffsPerReferencePoint(alternatives, referencePoints, criteria, scaling, l, g)
}

func VerifApplier(
	a *Anchoring,
	def *FunctionDefinition,
	dmp *model.DecisionMakingParams,
	diffs *[]ReferencePointsDifference,
	scaling CriteriaScaling,
	listener *model.BiasListener,
) (*model.DecisionMakingParams, AnchoringApplierResult) {
	applier := a.getAnchoringApplier(def)
	bounding := criteria_bounding.FromParams(&def.Params)
	return applier.fun.ApplyAnchoring(dmp, diffs, matchScalingWithBounding(bounding, scaling), applier.params, listener)
}
