//go:build verif && (c05 || c06 || allprops)

// Verification-only exports of unexported functions of package electreIII.  This file is overlaid
// into the package at build time by bin/check (go build -overlay); it is never written into the repo.
package electreIII

import (
	"github.com/Azbesciak/RealDecisionMaker/lib/model"
	"github.com/Azbesciak/RealDecisionMaker/lib/utils"
)

// VerifCalculateElectreResult exposes calculateElectreResult (signed criterion values).
func VerifCalculateElectreResult(c1Val, c2Val model.Weight, c *model.Criterion, ths *ElectreCriterion) ElectreResult {
	return *calculateElectreResult(c1Val, c2Val, c, ths)
}

// VerifCredibilityMatrix exposes evaluateCredibilityMatrix.
func VerifCredibilityMatrix(alternatives *[]model.AlternativeWithCriteria, criteria *model.Criteria, electreCriteria *ElectreCriteria) *AlternativesMatrix {
	return evaluateCredibilityMatrix(alternatives, criteria, electreCriteria)
}

// VerifValidateParameters exposes validateParameters (panics on rejection).
func VerifValidateParameters(c *model.Criterion, ec *ElectreCriterion) { validateParameters(c, ec) }

// VerifGetDistillationFunc exposes getDistillationFunc (panics on rejection).
func VerifGetDistillationFunc(dm *model.DecisionMaker) *utils.LinearFunctionParameters {
	return getDistillationFunc(dm)
}
