//go:build verif && (c09 || allprops)

package main

import (
	"bytes"
	"encoding/json"
	"reflect"
	"strings"

	"github.com/Azbesciak/RealDecisionMaker/lib/model"
)

// C09: decisions are stateless — inputs untouched, reports faithful, no history.
// Everything here is decided on the real code (aliasing cannot be exhibited by a pure model):
//   input-untouched      : *DecisionMaker deep-equal before/after MakeDecision (JSON-decoded slices
//                          get spare capacity on purpose)
//   earlier-returns      : every DecisionMakerChoice returned earlier still serialises to the same bytes
//   history-independence : response bytes of a request are the same before and after a random history
//   state-not-mutated    : every state handed from one stage to the next is unchanged at the end
//   report-stable        : a bias report serialises at the end exactly as when its Apply returned
//   report-faithful      : what the report says about produced data equals the state handed on
//   result-is-last-state : result[i].alternative.criteria are the values of the state that reached Evaluate

func withSpareCapacity(dm *model.DecisionMaker) {
	ka := make([]model.AlternativeWithCriteria, len(dm.KnownAlternatives), len(dm.KnownAlternatives)+4)
	copy(ka, dm.KnownAlternatives)
	dm.KnownAlternatives = ka
	ch := make([]model.Alternative, len(dm.ChoseToMake), len(dm.ChoseToMake)+4)
	copy(ch, dm.ChoseToMake)
	dm.ChoseToMake = ch
	cr := make(model.Criteria, len(dm.Criteria), len(dm.Criteria)+4)
	copy(cr, dm.Criteria)
	dm.Criteria = cr
}

// reportFaithful compares what a fired bias reports with the state it handed on.
func reportFaithful(st *traceStep) (bool, string) {
	if st.Out == nil || st.Props == nil {
		return true, ""
	}
	all := altByID(append(append([]model.AlternativeWithCriteria{}, st.Out.Co...), st.Out.Nc...))
	var rep map[string]interface{}
	json.Unmarshal([]byte(st.PropsJSON), &rep)
	num := func(v interface{}) float64 { f, _ := v.(float64); return f }
	switch st.Name {
	case "fatigue":
		for key, list := range map[string][]model.AlternativeWithCriteria{"consideredAlternatives": st.Out.Co, "notConsideredAlternatives": st.Out.Nc} {
			l, _ := rep[key].([]interface{})
			if len(l) != len(list) {
				return false, "fatigue report " + key + " has another length than the state handed on"
			}
			for i, e := range l {
				em := e.(map[string]interface{})
				cm, _ := em["criteria"].(map[string]interface{})
				if em["id"] != list[i].Id || len(cm) != len(list[i].Criteria) {
					return false, "fatigue report " + key + " differs from the state handed on"
				}
				for k, v := range cm {
					if num(v) != list[i].Criteria[k] {
						return false, "fatigue report value differs from the state handed on"
					}
				}
			}
		}
	case "criteriaConcealment":
		for _, ac := range rep["addedCriteria"].([]interface{}) {
			am := ac.(map[string]interface{})
			id := am["id"].(string)
			vals, _ := am["alternativesValues"].(map[string]interface{})
			if len(vals) != len(all) {
				return false, "concealment report lists another set of alternatives than the state"
			}
			for a, v := range vals {
				if w, ok := all[a][id]; !ok || w != num(v) {
					return false, "concealment report value differs from the state handed on"
				}
			}
		}
	case "criteriaMixing":
		nc, _ := rep["newCriterion"].(map[string]interface{})
		id, _ := nc["id"].(string)
		vals, _ := nc["scaledValues"].(map[string]interface{})
		for a, cs := range all {
			if v, ok := vals[a]; !ok || num(v) != cs[id] {
				return false, "mixing report value differs from the state handed on"
			}
		}
	case "preferenceReversal":
		for _, rc := range rep["reversedPreferenceCriteria"].([]interface{}) {
			rm := rc.(map[string]interface{})
			id := rm["id"].(string)
			vals, _ := rm["alternativesValues"].(map[string]interface{})
			if len(vals) != len(all) {
				return false, "reversal report lists another set of alternatives than the state"
			}
			for a, v := range vals {
				if all[a][id] != num(v) {
					return false, "reversal report value differs from the state handed on"
				}
			}
		}
	case "criteriaOmission":
		for _, oc := range rep["omittedCriteria"].([]interface{}) {
			id := oc.(map[string]interface{})["id"].(string)
			for _, c := range st.Out.Criteria {
				if c == id {
					return false, "omitted criterion still present in the state handed on"
				}
			}
			for a, vals := range all {
				if _, has := vals[id]; has {
					return false, "alternative " + a + " handed on still carries a value of the criterion reported as omitted (" + id + ")"
				}
			}
		}
	case "anchoring":
		ar, _ := rep["applierResult"].(map[string]interface{})
		if diffs, ok := ar["appliedDifferences"].([]interface{}); ok {
			in := altByID(append(append([]model.AlternativeWithCriteria{}, st.In.Co...), st.In.Nc...))
			for _, d := range diffs {
				dm := d.(map[string]interface{})
				id := dm["id"].(string)
				for k, v := range dm["criteria"].(map[string]interface{}) {
					if all[id][k]-in[id][k] != num(v) {
						return false, "anchoring appliedDifferences is not new - old of the states"
					}
				}
			}
		}
		if added, ok := ar["addedCriteria"].([]interface{}); ok {
			for _, ac := range added {
				am := ac.(map[string]interface{})
				id := am["id"].(string)
				vals, _ := am["alternativesValues"].(map[string]interface{})
				for a, v := range vals {
					if all[a][id] != num(v) {
						return false, "anchoring added criterion value differs from the state handed on"
					}
				}
			}
		}
	}
	return true, ""
}

func init() {
	props["C09"] = func(o *Out, r *Rng, n int, thorough bool) {
		type past struct {
			choice *model.DecisionMakerChoice
			bytes  []byte
			req    J
		}
		var history []past
		for c := 0; c < n; c++ {
			o.Cases++
			opts := ReqOpts{MaxBiases: 4}
			switch r.Intn(3) {
			case 0:
				opts.Prob.AllConsidered = true // shared rather than copied internal slices
			}
			q := genRequest(r, opts)
			c02Invalidate(r, q)
			mp := q.Body["methodParameters"].(J)
			if (q.Method == "majorityHeuristic" || q.Method == "satisfactionHeuristic") && r.chance(0.6) {
				mp["currentChoice"] = q.Problem.Chosen[r.Intn(len(q.Problem.Chosen))] // current choice taken from choseToMake
				o.count("current-in-chosen")
			}
			body := q.JSON()
			m := Meta{Case: c, Input: J{"request": q.Body}, Key: string(body), Trivial: len(q.Biases) == 0}
			o.count("method:" + q.Method)
			// fresh response first (before the history grows)
			st0, resp0 := decideJSON(body)
			// traced run with deep before/after comparison of the request value
			dm := q.bind()
			withSpareCapacity(dm)
			before := q.bind()
			tr := tracedDecide(dm)
			m.Stage = "input-untouched"
			o.Oracle(m, reflect.DeepEqual(dm.KnownAlternatives, before.KnownAlternatives) && reflect.DeepEqual(dm.ChoseToMake, before.ChoseToMake) &&
				reflect.DeepEqual(dm.Criteria, before.Criteria) && reflect.DeepEqual(dm.MethodParameters, before.MethodParameters) &&
				reflect.DeepEqual(dm.Biases, before.Biases) && dm.PreferenceFunction == before.PreferenceFunction && dm.BiasApplyRandomSeed == before.BiasApplyRandomSeed,
				"MakeDecision modified the request value handed to it")
			if st0 == 500 {
				// the decision succeeded but contains a non-finite number, which encoding/json cannot represent.
				// Legitimate only as overflow of an exponential gain/loss function on a tiny range; anywhere else
				// a NaN/Inf from finite inputs is reported
				if strings.Contains(string(body), "expFromZero") {
					o.count("non-finite-output-from-exp")
				} else {
					m.Stage = "finite-output"
					o.Oracle(m, false, "the decision contains a non-finite number although the request has only finite numbers and no exponential function")
				}
				continue
			}
			if (tr.Err == "") != (st0 == 200) {
				m.Stage = "traced-equals-plain"
				o.Oracle(m, false, "traced run and plain run disagree on accept/reject")
				continue
			}
			if tr.Err != "" {
				o.count("rejected")
				continue
			}
			o.count("biases-fired=" + itoa(len(tr.Steps)))
			traced, _ := json.Marshal(tr.Choice)
			m.Stage = "traced-equals-plain"
			o.Oracle(m, bytes.Equal(traced, resp0), "wrapping the biases changed the response (harness fault or hidden identity dependence)")
			// states handed on are never mutated afterwards
			for i, stp := range tr.Steps {
				ms := m
				ms.Class = stp.Name
				ms.Stage = "state-not-mutated"
				ok := stp.In.liveUnchanged() && stp.Out.liveUnchanged() && stp.Original.liveUnchanged()
				o.Oracle(ms, ok, "state handed to/from bias #"+itoa(i)+" ("+stp.Name+") was modified by a later stage")
				ms.Stage = "report-stable"
				now, _ := json.Marshal(stp.Props)
				o.Oracle(ms, string(now) == stp.PropsJSON, "report of bias #"+itoa(i)+" ("+stp.Name+") changed after it was returned")
				ms.Stage = "report-faithful"
				okf, why := reportFaithful(stp)
				o.Oracle(ms, okf, why)
				if i+1 < len(tr.Steps) {
					ms.Stage = "next-stage-receives-output"
					o.Oracle(ms, tr.Steps[i+1].In.SX == stp.Out.SX, "bias #"+itoa(i+1)+" did not receive the state bias #"+itoa(i)+" returned")
				}
			}
			if len(tr.Steps) > 0 && tr.Eval != nil {
				m.Stage = "method-receives-last-state"
				o.Oracle(m, tr.Eval.SX == tr.Steps[len(tr.Steps)-1].Out.SX, "the method did not receive the state returned by the last fired bias")
			}
			if tr.Eval != nil {
				m.Stage = "state-not-mutated"
				mm := m
				mm.Class = "evaluate"
				o.Oracle(mm, tr.Eval.liveUnchanged(), "the method modified the state it evaluated")
				now, _ := json.Marshal(tr.Choice.Result)
				m.Stage = "result-is-last-state"
				evalAlts := altByID(tr.Eval.Co)
				for k, v := range altByID(tr.Eval.Nc) {
					evalAlts[k] = v
				}
				ok := string(now) == tr.Result
				for _, e := range tr.Choice.Result {
					if w, found := evalAlts[e.Alternative.Id]; !found || !weightsEq(w, e.Alternative.Criteria) {
						ok = false
					}
				}
				o.Oracle(m, ok, "result entries do not carry the criteria values of the state that was evaluated")
			}
			// earlier returns untouched, history independence
			history = append(history, past{tr.Choice, traced, q.Body})
			if len(history) > 20 {
				history = history[1:]
			}
			if c%5 == 4 {
				for _, h := range history {
					now, _ := json.Marshal(h.choice)
					mh := Meta{Case: c, Stage: "earlier-returns-untouched", Input: J{"request": h.req, "later_request": q.Body}}
					o.Oracle(mh, bytes.Equal(now, h.bytes), "a value returned by an earlier call changed during later calls")
					js, _ := json.Marshal(h.req)
					st, again := decideJSON(js)
					mh.Stage = "history-independence"
					o.Oracle(mh, st == 200 && bytes.Equal(again, h.bytes), "the response to a request changed after other requests were processed")
				}
			}
		}
	}
}
