//go:build verif && (c14 || allprops)

package main

import (
	"encoding/json"
	"math"

	aspect_elimination "github.com/Azbesciak/RealDecisionMaker/lib/logic/limited-rationality/aspect-elimination"
	"github.com/Azbesciak/RealDecisionMaker/lib/logic/limited-rationality/satisfaction"
	satisfaction_levels "github.com/Azbesciak/RealDecisionMaker/lib/logic/limited-rationality/satisfaction-levels"
	"github.com/Azbesciak/RealDecisionMaker/lib/model"
	"github.com/Azbesciak/RealDecisionMaker/lib/utils"
)

// C14: generated aspiration levels.
//   corr  levels-series              : the real sources, in the order main.go wires them
//                                      (increasingSatisfactionLevels / decreasingSatisfactionLevels):
//                                      Find(name, params, sources) + Initialize(dmp) + HasNext/Next loop
//                                      vs Model.levelsOf — bit-exact, including rejected parameters
//   spec  check-c14                  : exact-rational checker of the documented series on Go's levels
//                                      (coefficient in [0.001, 0.999] or parameters that must be rejected)
//   oracle series-terminates         : the HasNext/Next loop ends within the cap for documented parameters
//   corr  aspect-evaluate-full /
//         satisfaction-evaluate-full : Evaluate through the registry with the model generating the levels
//                                      itself: ties thresholdsIndex / thresholds in the answer to the series
//                                      and to the wiring (increasing → aspect, decreasing → satisfaction)

type heurSeries struct {
	dir  string // inc | dec
	fn   string
	kind string // incMul | incAdd | decMul | decSub | "" (thresholds / unknown)
}

var heurSeriesKinds = []heurSeries{
	{"inc", "idealMultipliedCoefficient", "incMul"},
	{"inc", "idealAdditiveCoefficient", "incAdd"},
	{"dec", "idealMultipliedCoefficient", "decMul"},
	{"dec", "idealSubtractiveCoefficient", "decSub"},
}

// documented recurrences in float64 — used ONLY to pick boundary-landing parameters and to classify a
// case as ill-conditioned (never to judge the implementation)
func heurDocNext(kind string, c, r float64) (next float64, preClamp float64) {
	switch kind {
	case "incMul":
		x := (1+r)*(1+c) - 1
		return math.Min(x, 1), x
	case "incAdd":
		x := r + c
		return math.Min(x, 1), x
	case "decMul":
		return r * c, r * c
	default:
		x := r - c
		return math.Max(x, 0), x
	}
}

// fractional bits of a dyadic float (64 = not a short dyadic)
func heurFracBits(x float64) int {
	for k := 0; k <= 52; k++ {
		if y := x * math.Pow(2, float64(k)); y == math.Floor(y) {
			return k
		}
	}
	return 64
}

// heurConditioning walks the documented series in floats: returns its length and whether some ratio that
// may carry rounding error comes within 1e-9 of a decision boundary (the stop bound or the clamp).
func heurConditioning(kind string, c, mx, mn float64) (length int, ill bool) {
	inc := kind == "incMul" || kind == "incAdd"
	r := mx
	if inc {
		r = mn
	}
	exact := true // r is known to equal the exact rational value
	for length < levelsCap {
		bound := mn
		if inc {
			bound = mx
		}
		if !exact && math.Abs(r-bound) < 1e-9 {
			ill = true
		}
		if inc && !(r < mx) || !inc && !(r > mn) {
			return
		}
		length++
		next, pre := heurDocNext(kind, c, r)
		clampAt := 0.0
		if inc {
			clampAt = 1
		}
		opExact := false
		switch kind {
		case "incAdd", "decSub":
			opExact = exact && heurFracBits(r) <= 40 && heurFracBits(c) <= 40
		default:
			opExact = exact && heurFracBits(r)+heurFracBits(c) <= 50
		}
		if kind != "decMul" && !opExact && math.Abs(pre-clampAt) < 1e-9 {
			ill = true
		}
		if kind != "decMul" && next == clampAt && math.Abs(pre-clampAt) >= 1e-9 {
			opExact = true // clamped: literally 0 or 1
		}
		exact = opExact
		r = next
	}
	return
}

func heurPickCoef(r *Rng) float64 {
	switch k := r.Intn(100); {
	case k < 45:
		return []float64{0.5, 0.25, 0.125, 0.0625, 0.75, 0.375, 0.03125, 0.875}[r.Intn(8)]
	case k < 80:
		return []float64{0.3, 0.1, 0.9, 0.7, 0.2, 0.001, 0.999, 0.05, 0.6}[r.Intn(9)]
	case k < 86:
		return []float64{0.0005, 0.9995, 1e-5}[r.Intn(3)] // valid for the code, outside the property's domain
	case k < 93:
		return float64(r.rangeInt(1, 15)) / 16
	default:
		return []float64{0, 1, -0.25, 1.5, -1}[r.Intn(5)]
	}
}

func heurPickBound(r *Rng) float64 {
	switch k := r.Intn(100); {
	case k < 70:
		return float64(r.Intn(17)) / 16
	case k < 94:
		return []float64{0.1, 0.3, 0.9, 0.7, 0.05, 0.95}[r.Intn(6)]
	default:
		return []float64{-0.125, 1.125, 0, 1, -1, 2}[r.Intn(6)]
	}
}

// heurPickParams: coefficient, maxValue, minValue; often with the far bound placed exactly k steps away
func heurPickParams(r *Rng, kind string) (c, mx, mn float64) {
	c, mx, mn = heurPickCoef(r), heurPickBound(r), heurPickBound(r)
	if !r.chance(0.45) || c <= 0 || c >= 1 {
		return
	}
	inc := kind == "incMul" || kind == "incAdd"
	cur := mx
	if inc {
		cur = mn
	}
	steps := r.rangeInt(0, 6)
	for i := 0; i < steps; i++ {
		cur, _ = heurDocNext(kind, c, cur)
	}
	if inc {
		mx = cur
	} else {
		mn = cur
	}
	return
}

func heurLevelsParams(c, mx, mn float64) map[string]interface{} {
	return map[string]interface{}{"coefficient": c, "maxValue": mx, "minValue": mn}
}

// heurDegenerate: make some criteria constant over all alternatives (range 0), some declared ranges
// degenerate, keep negative values
func heurShapeRanges(r *Rng, p *Problem) {
	for i := range p.Criteria {
		c := &p.Criteria[i]
		switch k := r.Intn(100); {
		case k < 12: // observed range degenerate
			v := p.Known[0].Criteria[c.Id]
			for _, a := range p.Known {
				a.Criteria[c.Id] = v
			}
			c.ValuesRange = nil
		case k < 18: // declared degenerate range
			v := float64(r.Intn(9) - 4)
			c.ValuesRange = &utils.ValueRange{Min: v, Max: v}
		case k < 26: // dyadic declared range, possibly negative
			lo := float64(r.Intn(17)-8) / 2
			c.ValuesRange = &utils.ValueRange{Min: lo, Max: lo + float64(r.rangeInt(1, 16))/4}
		}
	}
}

func heurSeriesDMP(p *Problem, dir, fn string, params interface{}) *model.DecisionMakingParams {
	d := &model.DecisionMakingParams{
		NotConsideredAlternatives: p.notConsidered(),
		ConsideredAlternatives:    p.considered(),
		Criteria:                  p.Criteria,
	}
	if dir == "inc" {
		w := model.Weights{}
		for i, c := range p.Criteria {
			w[c.Id] = float64(i + 1)
		}
		d.MethodParameters = aspect_elimination.AspectEliminationHeuristicParams{Function: fn, Params: params, Weights: w}
	} else {
		d.MethodParameters = satisfaction.SatisfactionParameters{Function: fn, Params: params}
	}
	return d
}

func heurSources(dir string) []satisfaction_levels.SatisfactionLevelsSource {
	if dir == "inc" {
		return increasingSatisfactionLevels
	}
	return decreasingSatisfactionLevels
}

func heurProblemJSON(p *Problem) interface{} {
	crit, known := problemJSON(p)
	return J{"criteria": crit, "knownAlternatives": known, "choseToMake": p.Chosen}
}

func init() {
	props["C14"] = func(o *Out, r *Rng, n int, thorough bool) {
		for c := 0; c < n; c++ {
			o.Cases++
			switch k := r.Intn(100); {
			case k < 70:
				heurSeriesCase(o, r, c)
			case k < 80:
				heurThresholdsCase(o, r, c)
			case k < 90:
				heurAfterBiasCase(o, r, c)
			default:
				heurEvaluateFullCase(o, r, c)
			}
		}
	}
}

// one coefficient series on a generated problem
func heurSeriesCase(o *Out, r *Rng, c int) {
	sk := heurSeriesKinds[r.Intn(len(heurSeriesKinds))]
	p := genProblem(r, ProbOpts{MaxAlt: 6, MaxCrit: 4})
	heurShapeRanges(r, p)
	coef, mx, mn := heurPickParams(r, sk.kind)
	fn := sk.fn
	unknownFn := false
	if r.chance(0.03) {
		fn, unknownFn = []string{"", "bogus", "idealSubtractiveCoefficient", "idealAdditiveCoefficient"}[r.Intn(4)], true
	}
	params := heurLevelsParams(coef, mx, mn)
	d := heurSeriesDMP(p, sk.dir, fn, params)
	in := map[string]interface{}{"direction": sk.dir, "function": fn, "params": params, "problem": heurProblemJSON(p)}
	m := Meta{Case: c, Input: in, Key: sxString(L(A(sk.dir), Str(fn), levelsSX(fn, params), dmpSX(d)))}
	levels, msg, capped := heurGoLevels(heurSources(sk.dir), fn, params, d)
	inDomainCoef := coef >= 0.001 && coef <= 0.999
	if capped {
		o.count("levels-cap")
		m.Stage = "series-terminates"
		if inDomainCoef {
			o.Oracle(m, false, "HasNext/Next loop did not end within "+itoa(levelsCap)+" levels")
		}
		return
	}
	m.Trivial = msg != "" || len(levels) == 0
	m.Stage = "levels-series"
	if msg == "" {
		m.GoOut = levels
	}
	o.Corr(m, L(A("levels-series"), A(sk.dir), Str(fn), levelsSX(fn, params), dmpSX(d)), okSX(heurLevelsResSX(levels, msg)))
	o.count("series=" + sk.kind)
	if msg != "" {
		o.count("rejected")
	} else {
		o.count("length=" + itoa(heurMinInt(len(levels), 16)))
	}
	if unknownFn {
		o.count("function-mismatch")
		return
	}
	// ---- spec
	inc := sk.dir == "inc"
	valid := coef > 0 && coef < 1 && mn <= 1 && mx <= 1 && (inc && mn >= 0 && mx >= 0 || !inc && mn > 0 && mx > 0)
	if valid && !inDomainCoef {
		o.count("spec-skipped:coefficient-outside-[0.001,0.999]")
		return
	}
	if valid {
		length, ill := heurConditioning(sk.kind, coef, mx, mn)
		if ill {
			o.count("ill-conditioned")
			return
		}
		if length > 80 || len(levels) > 80 {
			o.count("spec-skipped:long-series")
			return
		}
		if length > 0 {
			// did some ratio land exactly on its bound?
			cur := mx
			if inc {
				cur = mn
			}
			for i := 0; i < length; i++ {
				cur, _ = heurDocNext(sk.kind, coef, cur)
			}
			if inc && cur == mx || !inc && cur == mn {
				o.count("lands-on-bound")
			}
		}
	} else {
		o.count("invalid-parameters")
	}
	m.Stage = "check-c14"
	o.Spec(m, L(A("check-c14"), A(sk.kind), Num(coef), Num(mx), Num(mn), critsSX(d.Criteria), altsSX(d.AllAlternatives()), heurLevelsResSX(levels, msg)))
}

// explicit thresholds source (validation that every level has every criterion)
func heurThresholdsCase(o *Out, r *Rng, c int) {
	dir := []string{"inc", "dec"}[r.Intn(2)]
	p := genProblem(r, ProbOpts{MaxAlt: 4, MaxCrit: 4})
	nl := r.rangeInt(0, 4)
	ts := make([]interface{}, nl)
	for i := range ts {
		t := map[string]interface{}{}
		for _, cr := range p.Criteria {
			if !r.chance(0.04) {
				t[cr.Id] = r.value()
			}
		}
		if r.chance(0.2) {
			t["zz_extra"] = 1.5
		}
		ts[i] = t
	}
	params := map[string]interface{}{"thresholds": ts}
	d := heurSeriesDMP(p, dir, "thresholds", params)
	in := map[string]interface{}{"direction": dir, "function": "thresholds", "params": params, "problem": heurProblemJSON(p)}
	m := Meta{Case: c, Input: in, Stage: "levels-series", Trivial: nl == 0,
		Key: sxString(L(A(dir), levelsSX("thresholds", params), dmpSX(d)))}
	levels, msg, _ := heurGoLevels(heurSources(dir), "thresholds", params, d)
	o.count("series=thresholds")
	if msg != "" {
		o.count("rejected")
	}
	o.Corr(m, L(A("levels-series"), A(dir), Str("thresholds"), levelsSX("thresholds", params), dmpSX(d)), okSX(heurLevelsResSX(levels, msg)))
}

// Evaluate through the registry, model generating the levels itself
func heurEvaluateFullCase(o *Out, r *Rng, c int) {
	method := []string{"aspectEliminationHeuristic", "satisfactionHeuristic"}[r.Intn(2)]
	q := genRequest(r, ReqOpts{Methods: []string{method}, Prob: ProbOpts{MaxAlt: 6, MaxCrit: 4}})
	mp := q.Body["methodParameters"].(J)
	heurShapeProblem(r, q)
	heurShapeLevels(r, mp, method == "aspectEliminationHeuristic")
	if w, ok := mp["weights"].(J); ok { // distinct weights: the criteria order is determined
		i := 0
		for _, cr := range q.Problem.Criteria {
			w[cr.Id] = float64(len(q.Problem.Criteria)-i) + float64(r.Intn(3))/4
			i++
		}
	}
	if r.chance(0.12) && mp["function"] != "thresholds" {
		// out-of-range parameters are rejected whatever the size of the considered set (0, 1, 2 … alternatives)
		par, _ := mp["params"].(J)
		if par == nil {
			par = J{}
		}
		switch r.Intn(4) {
		case 0:
			par["coefficient"] = []float64{0, 1.5, -0.25, 1}[r.Intn(4)]
		case 1:
			par["minValue"] = []float64{-0.3, 1.25}[r.Intn(2)]
		case 2:
			par["maxValue"] = []float64{2, -0.5}[r.Intn(2)]
		default:
			par["minValue"], par["maxValue"] = 0.75, 0.25
		}
		mp["params"] = par
		k := r.Intn(3)
		if k < len(q.Problem.Chosen) {
			q.Problem.Chosen = q.Problem.Chosen[:k]
			q.Body["choseToMake"] = append([]string{}, q.Problem.Chosen...)
		}
		delete(mp, "currentChoice")
	}
	if r.chance(0.05) { // ask each heuristic for the other family's series: must be unknown to it
		if method == "aspectEliminationHeuristic" {
			mp["function"] = "idealSubtractiveCoefficient"
		} else {
			mp["function"] = "idealAdditiveCoefficient"
		}
	}
	dm := q.bind()
	d, msg := prepareDMP(dm)
	if msg != "" {
		o.count("prepare-failed")
		return
	}
	in := map[string]interface{}{"request": q.Body}
	m := Meta{Case: c, Input: in, Key: string(q.JSON()), Trivial: len(d.ConsideredAlternatives) < 2}
	dmpLine := dmpSX(d)
	evaluator := *funcs.Fetch(method)
	var rk *model.AlternativesRanking
	if method == "aspectEliminationHeuristic" {
		params := d.MethodParameters.(aspect_elimination.AspectEliminationHeuristicParams)
		if _, _, capped := heurGoLevels(increasingSatisfactionLevels, params.Function, params.Params, d); capped {
			return
		}
		msgEv := recoverErr(func() { rk = evaluator.Evaluate(d) })
		m.Stage = "aspect-evaluate-full"
		if msgEv == "" {
			m.GoOut = heurRankingJSON(rk)
		}
		o.count("evaluate-full=aspect")
		o.Corr(m, L(A("aspect-evaluate-full"), dmpLine, Nums(draws(params.RandomSeed, heurDraws))),
			okSX(resSX(msgEv, func() SX { return aspEntriesSX(rk) })))
	} else {
		params := d.MethodParameters.(satisfaction.SatisfactionParameters)
		if _, _, capped := heurGoLevels(decreasingSatisfactionLevels, params.Function, params.Params, d); capped {
			return
		}
		msgEv := recoverErr(func() { rk = evaluator.Evaluate(d) })
		m.Stage = "satisfaction-evaluate-full"
		if msgEv == "" {
			m.GoOut = heurRankingJSON(rk)
		}
		o.count("evaluate-full=satisfaction")
		o.Corr(m, L(A("satisfaction-evaluate-full"), dmpLine, Nums(draws(params.RandomSeed, heurDraws))),
			okSX(resSX(msgEv, func() SX { return satEntriesSX(rk) })))
	}
}

// the thresholds the heuristic generates AFTER biases ran must still be placed on the request's declared
// ranges (or the range of the current alternatives): whole request through the real pipeline, levels
// generated by the real source on the state that reached Evaluate, spec with the REQUEST's declared ranges
func heurAfterBiasCase(o *Out, r *Rng, c int) {
	sk := heurSeriesKinds[r.Intn(len(heurSeriesKinds))]
	method := "aspectEliminationHeuristic"
	if sk.dir == "dec" {
		method = "satisfactionHeuristic"
	}
	q := genRequest(r, ReqOpts{Methods: []string{method}, Prob: ProbOpts{MaxAlt: 5, MaxCrit: 4, MinCrit: 2}})
	for i, cj := range q.Body["criteria"].([]interface{}) { // declared ranges that are not of the form [0, M]
		if r.chance(0.6) {
			lo, hi := math.Inf(1), math.Inf(-1)
			for _, a := range q.Problem.Known {
				v := a.Criteria[q.Problem.Criteria[i].Id]
				lo, hi = math.Min(lo, v), math.Max(hi, v)
			}
			cj.(J)["valuesRange"] = J{"min": lo - float64(r.rangeInt(1, 3)), "max": hi + float64(r.rangeInt(1, 3))}
		}
	}
	coef, mx, mn := heurPickParams(r, sk.kind)
	if !(coef >= 0.001 && coef <= 0.999) {
		return
	}
	if _, ill := heurConditioning(sk.kind, coef, mx, mn); ill {
		return
	}
	mp := q.Body["methodParameters"].(J)
	mp["function"], mp["params"] = sk.fn, heurLevelsParams(coef, mx, mn)
	var bl []interface{}
	onlyOmission := true
	omissionsOnly := r.chance(0.3)
	for i, nb := 0, r.rangeInt(1, 2); i < nb; i++ {
		name := []string{"criteriaMixing", "criteriaConcealment", "fatigue", "preferenceReversal", "anchoring", "criteriaOmission", "criteriaOmission"}[r.Intn(7)]
		if name == "criteriaMixing" && i > 0 {
			name = "fatigue" // mixing after a state change is a registered C07 finding
		}
		if omissionsOnly {
			name = "criteriaOmission"
		}
		if name != "criteriaOmission" {
			onlyOmission = false
		}
		pr := biasPropsJSON(r, name, q.Problem)
		if name == "criteriaOmission" {
			pr["max"] = len(q.Problem.Criteria) - 1 - i
			delete(pr, "min")
			pr["ratio"] = 0.5
		}
		if name == "criteriaMixing" || name == "criteriaConcealment" {
			pr["referenceCriterionType"] = "importanceRatio"
			pr["newCriterionImportance"] = float64(r.Intn(5)) / 4
		}
		bl = append(bl, J{"name": name, "props": pr})
	}
	q.Body["biases"] = bl
	js, _ := json.Marshal(q.Body)
	var dm, fresh model.DecisionMaker
	if json.Unmarshal(js, &dm) != nil || json.Unmarshal(js, &fresh) != nil {
		return
	}
	tr := tracedDecide(&dm)
	if tr.Err != "" || tr.Eval == nil {
		o.count("after-bias-rejected")
		return
	}
	dF := tr.Eval.Live
	var fn string
	var par interface{}
	var sources []satisfaction_levels.SatisfactionLevelsSource
	switch p := dF.MethodParameters.(type) {
	case aspect_elimination.AspectEliminationHeuristicParams:
		fn, par, sources = p.Function, p.Params, increasingSatisfactionLevels
	case satisfaction.SatisfactionParameters:
		fn, par, sources = p.Function, p.Params, decreasingSatisfactionLevels
	default:
		return
	}
	for _, cr := range dF.Criteria {
		if cr.ValuesRange != nil && cr.ValuesRange.Max < cr.ValuesRange.Min {
			// a concealed criterion created with a negative newCriterionScaling carries an inverted declared
			// range (which request validation would reject): outside C14's "any criterion ranges"
			o.count("out-of-domain:inverted-range-from-negative-scaling")
			return
		}
	}
	levels, msg, capped := heurGoLevels(sources, fn, par, dF)
	if capped || len(levels) > 80 {
		return
	}
	// criteria of the evaluated state, with the declared ranges as the REQUEST states them
	declared := map[string]*utils.ValueRange{}
	for _, cr := range fresh.Criteria {
		declared[cr.Id] = cr.ValuesRange
	}
	crits := make(model.Criteria, len(dF.Criteria))
	for i, cr := range dF.Criteria {
		crits[i] = cr
		if vr, ok := declared[cr.Id]; ok {
			crits[i].ValuesRange = vr
		}
	}
	m := Meta{Case: c, Stage: "check-c14-after-biases", Input: J{"request": q.Body}, Key: string(js), GoOut: levels}
	alts := dF.AllAlternatives()
	if onlyOmission && len(dF.Criteria) >= 1 {
		// omissions change no value: "the range over all known alternatives" is the range over the REQUEST's
		// known alternatives, whatever the bias handed on
		alts = fresh.KnownAlternatives
		o.count("after-biases:ranges-from-request")
	}
	o.Spec(m, L(A("check-c14"), A(sk.kind), Num(coef), Num(mx), Num(mn), critsSX(crits), altsSX(alts), heurLevelsResSX(levels, msg)))
	o.count("after-biases")
}
