//go:build verif && (c13 || allprops)

package main

import (
	"encoding/json"

	limited_rationality "github.com/Azbesciak/RealDecisionMaker/lib/logic/limited-rationality"
	"github.com/Azbesciak/RealDecisionMaker/lib/logic/limited-rationality/satisfaction"
	"github.com/Azbesciak/RealDecisionMaker/lib/model"
	"github.com/Azbesciak/RealDecisionMaker/lib/utils"
)

// C13: satisfaction heuristic.
//   corr  search-order          : GetAlternativesSearchOrder vs Model.searchOrder
//   corr  satisfaction-evaluate : Evaluate(dmp) vs Model.satisfactionEvaluateWith, fed with the levels the
//                                 real (decreasing) source handed out
//   spec  check-c13             : exact-rational checker on Go's output (search order as Go reports it)

func init() {
	props["C13"] = func(o *Out, r *Rng, n int, thorough bool) {
		maxAlt := 8
		if thorough {
			maxAlt = 10
		}
		evaluator := *funcs.Fetch("satisfactionHeuristic")
		for c := 0; c < n; c++ {
			q := genRequest(r, ReqOpts{Methods: []string{"satisfactionHeuristic"}, Prob: ProbOpts{MaxAlt: maxAlt, MaxCrit: 5}})
			mp := q.Body["methodParameters"].(J)
			heurShapeProblem(r, q)
			heurShapeCurrent(r, q, mp)
			heurShapeLevels(r, mp, false)
			if r.chance(0.35) {
				grid := r.rangeInt(2, 5)
				heurCoarsen(r, q, grid+1)
				if r.chance(0.6) {
					mp["function"], mp["params"] = "thresholds", heurExplicitThresholds(r, q, grid, false)
				}
			}
			switch k := r.Intn(100); {
			case k < 2:
				mp["function"] = "bogus"
			case k < 3:
				mp["function"] = ""
			case k < 5:
				mp["currentChoice"] = "zz_unknown"
			case k < 8:
				if p, ok := mp["params"].(J); ok && mp["function"] != "thresholds" {
					p["coefficient"] = []float64{0, 1, -0.5, 1.5}[r.Intn(4)]
				}
			case k < 10:
				if p, ok := mp["params"].(J); ok {
					if ts, ok := p["thresholds"].([]interface{}); ok && len(ts) > 0 {
						delete(ts[r.Intn(len(ts))].(J), q.Problem.Criteria[0].Id)
					}
				}
			case k < 12:
				q.Body["choseToMake"] = []string{}
			case k < 20:
				// a level may carry a value for something that is not a criterion of the problem (a note, a stale
				// criterion): only the problem's criteria are looked up
				if p, ok := mp["params"].(J); ok {
					if ts, ok := p["thresholds"].([]interface{}); ok && len(ts) > 0 {
						for _, t := range ts {
							t.(J)["zz_note"] = float64(r.Intn(3))
						}
					}
				}
			}
			dm := q.bind()
			d, msg := prepareDMP(dm)
			o.Cases++
			if msg != "" {
				o.count("prepare-failed")
				continue
			}
			params := d.MethodParameters.(satisfaction.SatisfactionParameters)
			in := map[string]interface{}{"request": q.Body}
			m := Meta{Case: c, Input: in, Key: string(q.JSON()), Trivial: len(d.ConsideredAlternatives) < 2}
			dmpLine := dmpSX(d)
			ds := Nums(draws(params.RandomSeed, heurDraws))
			levels, msgL, capped := heurGoLevels(decreasingSatisfactionLevels, params.Function, params.Params, d)
			if capped {
				o.count("levels-cap")
				continue
			}
			lvLine := heurLevelsResSX(levels, msgL)
			o.count("alts=" + itoa(len(d.ConsideredAlternatives)))
			o.count("function=" + params.Function)
			o.count("levels=" + itoa(heurMinInt(len(levels), 12)))
			o.count("current=" + heurCurrentKind(q.Problem, params.CurrentChoice))

			var order []model.AlternativeWithCriteria
			msgSO := recoverErr(func() {
				cur, rest := limited_rationality.GetAlternativesSearchOrder(d, &params, utils.RandomBasedSeedValueGenerator(params.RandomSeed))
				order = append([]model.AlternativeWithCriteria{cur}, rest...)
			})
			m.Stage = "search-order"
			o.Corr(m, L(A("search-order"), dmpLine, Str(params.CurrentChoice), Bool(params.RandomAlternativesOrdering), ds),
				okSX(resSX(msgSO, func() SX { return altsSX(order) })))

			var rk *model.AlternativesRanking
			msgEv := recoverErr(func() { rk = evaluator.Evaluate(d) })
			if msgEv == "" {
				m.GoOut = heurRankingJSON(rk)
			} else {
				o.count("evaluate-panicked")
			}
			m.Stage = "satisfaction-evaluate"
			o.Corr(m, L(A("satisfaction-evaluate"), dmpLine, ds, lvLine), okSX(resSX(msgEv, func() SX { return satEntriesSX(rk) })))
			// the same with the model generating the "successively lower aspiration levels" itself
			m.Stage = "satisfaction-evaluate-full"
			o.Corr(m, L(A("satisfaction-evaluate-full"), dmpLine, ds), okSX(resSX(msgEv, func() SX { return satEntriesSX(rk) })))
			heurConsideredOrder(o, m, dm, d)
			if msgEv != "" || msgL != "" || msgSO != "" {
				continue
			}
			leftovers, atLevel := 0, map[int]bool{}
			for _, e := range *rk {
				ev := e.Evaluation.(satisfaction.SatisfactionEvaluation)
				if ev.ThresholdsIndex == len(levels) {
					leftovers++
				} else {
					atLevel[ev.ThresholdsIndex] = true
				}
			}
			o.count("leftovers=" + itoa(heurMinInt(leftovers, 4)))
			o.count("distinct-acceptance-levels=" + itoa(heurMinInt(len(atLevel), 4)))
			m.Stage = "check-c13"
			o.Spec(m, L(A("check-c13"), altsSX(order), critsSX(d.Criteria), heurLevelsSX(levels), altsSX(d.AllAlternatives()), satEntriesSX(rk)))
			// the request's configuration (current choice, ordering, seed) must still decide after biases
			if r.chance(0.3) && len(d.Criteria) >= 2 {
				q2 := cloneJ(q.Body)
				var bl []interface{}
				for i, nb := 0, r.rangeInt(1, 2); i < nb; i++ {
					name := []string{"criteriaOmission", "criteriaOmission", "preferenceReversal", "fatigue", "criteriaConcealment"}[r.Intn(5)]
					pr := biasPropsJSON(r, name, q.Problem)
					if name == "criteriaOmission" {
						pr["max"], pr["ratio"] = len(d.Criteria)-1-i, 0.5
						delete(pr, "min")
					}
					if name == "criteriaConcealment" {
						pr["newCriterionScaling"] = 1
					}
					bl = append(bl, J{"name": name, "props": pr})
				}
				q2["biases"] = bl
				js2, _ := json.Marshal(q2)
				var dm2 model.DecisionMaker
				if json.Unmarshal(js2, &dm2) == nil {
					tr := tracedDecide(&dm2)
					if tr.Err == "" && tr.Eval != nil && len(tr.Eval.Live.Criteria) >= 1 {
						dF := tr.Eval.Live
						if pF, ok := dF.MethodParameters.(satisfaction.SatisfactionParameters); ok {
							lvF, msgLF, capF := heurGoLevels(decreasingSatisfactionLevels, pF.Function, pF.Params, dF)
							var orderF []model.AlternativeWithCriteria
							reqParams := params
							msgF := recoverErr(func() {
								cur, rest := limited_rationality.GetAlternativesSearchOrder(dF, &reqParams, utils.RandomBasedSeedValueGenerator(reqParams.RandomSeed))
								orderF = append([]model.AlternativeWithCriteria{cur}, rest...)
							})
							if msgLF == "" && !capF && msgF == "" {
								m2 := Meta{Case: c, Stage: "check-c13-after-biases", Input: J{"request": q2}, Key: string(js2), GoOut: heurRankingJSON(&tr.Choice.Result)}
								if pF.Function != "thresholds" {
									// "successively lower aspiration levels": a generated series never becomes more demanding
									mo := m2
									mo.Stage, mo.GoOut = "levels-successively-lower-after-biases", lvF
									o.Oracle(mo, c13SuccessivelyLower(dF.Criteria, lvF), "a generated aspiration level is more demanding than the level before it")
								}
								o.Spec(m2, L(A("check-c13"), altsSX(orderF), critsSX(dF.Criteria), heurLevelsSX(lvF), altsSX(dF.AllAlternatives()), satEntriesSX(&tr.Choice.Result)))
								o.count("after-biases")
							}
						}
					}
				}
			}
		}
	}
}

// c13SuccessivelyLower: per criterion, the thresholds of consecutive levels never become more demanding
// (gain: never higher; cost: never lower)
func c13SuccessivelyLower(cs model.Criteria, levels []model.Weights) bool {
	for i := 1; i < len(levels); i++ {
		for _, c := range cs {
			a, okA := levels[i-1][c.Id]
			b, okB := levels[i][c.Id]
			if !okA || !okB {
				continue
			}
			if float64(c.Multiplier())*(b-a) > 0 {
				return false
			}
		}
	}
	return true
}
