//go:build verif && (c04 || allprops)

package main

import (
	"encoding/json"
	"sort"
	"strings"

	"github.com/Azbesciak/RealDecisionMaker/lib/model"
)

// C04: stage = model.AlternativeResults.Ranking() on generated value lists.
//   corr  : Lean `ranking` on the same (id, value) list must print what Go returned
//   spec  : Lean `check-c04` (exact rationals) on Go's output
//   oracle: permutation metamorphic on the real code (value, links as set, position class)
//   oracle: listing-order invariance of whole requests (the three utility methods; no bias, or a criteria
//           concealment, which assigns its random values by alternative id): knownAlternatives and choseToMake
//           are re-listed in another order, value / links / position of every alternative must stay

func init() {
	props["C04"] = func(o *Out, r *Rng, n int, thorough bool) {
		maxN := 8
		if thorough {
			maxN = 12
		}
		for c := 0; c < n; c++ {
			if c%5 == 4 {
				c04ListingOrder(o, r, c)
				continue
			}
			sizeN := maxN
			if r.chance(0.1) { // sort.Slice / sort.Sort switch algorithm above 12 elements
				sizeN = 40
			}
			names, vals := genValueList(r, sizeN)
			in := rankingInput(names, vals)
			var rk *model.AlternativesRanking
			msg := recoverErr(func() { rk = in.Ranking() })
			inSX := make(sxList, len(names))
			inJ := map[string]float64{}
			for i := range names {
				inSX[i] = L(Str(names[i]), Num(vals[i]))
				inJ[names[i]] = vals[i]
			}
			distinct := map[float64]bool{}
			for _, v := range vals {
				distinct[v] = true
			}
			o.Cases++
			o.count("n=" + itoa(len(names)))
			o.count("levels=" + itoa(len(distinct)))
			m := Meta{Stage: "ranking", Case: c, Input: map[string]interface{}{"order": names, "values": inJ},
				Trivial: len(names) < 2, Key: sxString(inSX)}
			if msg != "" {
				o.Oracle(m, false, "ranking panicked: "+msg)
				continue
			}
			m.GoOut = rankingJSON(rk)
			o.Corr(m, L(A("ranking"), inSX), okSX(rankingSX(rk)))
			o.Spec(m, L(A("check-c04"), rankingSX(rk)))
			// metamorphic: permute the input, compare per-alternative value and link *sets*
			perm := r.Perm(len(names))
			n2, v2 := make([]string, len(names)), make([]float64, len(names))
			for i, p := range perm {
				n2[i], v2[i] = names[p], vals[p]
			}
			in2 := rankingInput(n2, v2)
			rk2 := in2.Ranking()
			ok, clause := sameRanking(rk, rk2)
			m.Stage = "ranking-permutation"
			o.Oracle(m, ok, clause)
		}
	}
}

type c04Entry struct {
	Id    string
	Value float64
	Links []string
}

func c04Entries(resp []byte) ([]c04Entry, bool) {
	var r struct {
		Result []struct {
			Alternative struct {
				Id string `json:"id"`
			} `json:"alternative"`
			Evaluation struct {
				Value float64 `json:"value"`
			} `json:"evaluation"`
			BetterThanOrSameAs []string `json:"betterThanOrSameAs"`
		} `json:"result"`
	}
	if json.Unmarshal(resp, &r) != nil {
		return nil, false
	}
	out := make([]c04Entry, len(r.Result))
	for i, e := range r.Result {
		l := append([]string{}, e.BetterThanOrSameAs...)
		sort.Strings(l)
		out[i] = c04Entry{e.Alternative.Id, e.Evaluation.Value, l}
	}
	return out, true
}

func c04ListingOrder(o *Out, r *Rng, c int) {
	q := genRequest(r, ReqOpts{Methods: []string{"weightedSum", "owa", "choquetIntegral"}, MaxBiases: -1, Prob: ProbOpts{MaxAlt: 9, MaxCrit: 4, NoRanges: true}})
	// exact grid: every sum the code forms is exact, so no listing order can change a float result
	for _, a := range q.Body["knownAlternatives"].([]interface{}) {
		vals := a.(J)["criteria"].(J)
		for _, k := range sortedJKeys(vals) {
			vals[k] = float64(r.Intn(17)) / 2
		}
	}
	q.Body["biases"] = []interface{}{}
	if r.chance(0.06) {
		// criterion ids are free text: an id that reads like two other ids written one after the other ("top speed"
		// next to "top" and "speed") is a third criterion, whatever order the alternatives are listed in
		ids := []string{"top", "speed", "top speed"}
		crit := []interface{}{}
		for _, id := range ids {
			crit = append(crit, J{"id": id, "type": "gain"})
		}
		w := J{}
		for mask := 1; mask < 8; mask++ {
			var sub []string
			for j, id := range ids {
				if mask&(1<<uint(j)) != 0 {
					sub = append(sub, id)
				}
			}
			w[strings.Join(sub, ",")] = float64(r.Intn(9)) / 8
		}
		var known []interface{}
		var chosen []string
		for i, na := 0, r.rangeInt(2, 5); i < na; i++ {
			vals := J{}
			for _, id := range ids {
				vals[id] = float64(r.Intn(17)) / 2
			}
			known = append(known, J{"id": "a" + itoa(i), "criteria": vals})
			chosen = append(chosen, "a"+itoa(i))
		}
		q.Method = "choquetIntegral"
		q.Body = J{"preferenceFunction": "choquetIntegral", "criteria": crit, "knownAlternatives": known, "choseToMake": chosen,
			"methodParameters": J{"weights": w}, "biases": []interface{}{}}
		o.count("listing-order:ids-with-blanks")
	} else if r.chance(0.35) {
		// inline anchoring reads the anchoring alternatives in the order the PROPS list them, the reference point
		// per criterion and the value ranges are order-free, every alternative is shifted on its own
		var aa []interface{}
		for i, na := 0, r.rangeInt(1, 3); i < na; i++ {
			a := J{"alternative": q.Problem.Known[r.Intn(len(q.Problem.Known))].Id}
			if r.chance(0.6) {
				a["coefficient"] = float64(r.Intn(4)) / 2 // 0 is legal (and what an omitted coefficient decodes to)
			}
			aa = append(aa, a)
		}
		lin := func() J {
			return J{"function": "linear", "params": J{"a": float64(r.Intn(5)) / 4, "b": float64(r.Intn(3)) / 8}}
		}
		q.Body["biases"] = []interface{}{J{"name": "anchoring", "props": J{"anchoringAlternatives": aa, "loss": lin(), "gain": lin(),
			"referencePoints": J{"function": []string{"ideal", "nadir"}[r.Intn(2)]},
			"applier":         J{"function": "inline", "params": J{"applyOnNotConsidered": r.chance(0.5)}}}}}
		o.count("listing-order:with-inline-anchoring")
	} else if r.chance(0.6) && q.Method == "weightedSum" {
		pr := J{"randomSeed": r.Intn(1000), "newCriterionImportance": float64(r.Intn(5)) / 4}
		r.boundingInto(pr)
		q.Body["biases"] = []interface{}{J{"name": "criteriaConcealment", "props": pr}}
		o.count("listing-order:with-concealment")
	}
	if r.chance(0.06) {
		// "any number of considered alternatives" includes none: an empty ranking, not an error
		q0 := cloneJ(q.Body)
		q0["choseToMake"] = []interface{}{}
		delete(q0, "biases")
		st0, resp0 := decideBody(q0)
		e0, ok0 := c04Entries(resp0)
		m0 := Meta{Stage: "zero-alternatives", Case: c, Input: J{"request": q0}, Key: "zero" + string(q.JSON()), GoOut: truncate(string(resp0), 300)}
		o.Oracle(m0, st0 == 200 && ok0 && len(e0) == 0, "a request with an empty choseToMake is not answered with an empty ranking")
		o.count("zero-alternatives")
	}
	st1, resp1 := decideBody(q.Body)
	q2 := cloneJ(q.Body)
	known := q2["knownAlternatives"].([]interface{})
	r.Shuffle(len(known), func(i, j int) { known[i], known[j] = known[j], known[i] })
	ch := q2["choseToMake"].([]interface{})
	r.Shuffle(len(ch), func(i, j int) { ch[i], ch[j] = ch[j], ch[i] })
	st2, resp2 := decideBody(q2)
	o.Cases++
	m := Meta{Stage: "listing-order", Case: c, Input: J{"request": q.Body, "relisted": q2}, Key: string(q.JSON()), Trivial: len(known) < 3}
	if st1 != 200 || st2 != 200 {
		o.count("listing-order:rejected")
		o.Oracle(m, (st1 == 200) == (st2 == 200), "re-listing the alternatives changed the accept/reject verdict")
		return
	}
	e1, ok1 := c04Entries(resp1)
	e2, ok2 := c04Entries(resp2)
	m.GoOut = J{"first": e1, "relisted": e2}
	ok := ok1 && ok2 && len(e1) == len(e2)
	clause := "value, position or links of an alternative depend on the listing order of knownAlternatives / choseToMake"
	for i := 0; ok && i < len(e1); i++ {
		ok = e1[i].Id == e2[i].Id && e1[i].Value == e2[i].Value && sameSet(e1[i].Links, e2[i].Links)
	}
	o.Oracle(m, ok, clause)
	o.count("listing-order:compared")
}
