//go:build verif && (c04 || allprops)

package main

import (
	"github.com/Azbesciak/RealDecisionMaker/lib/model"
)

// C04: stage = model.AlternativeResults.Ranking() on generated value lists.
//   corr  : Lean `ranking` on the same (id, value) list must print what Go returned
//   spec  : Lean `check-c04` (exact rationals) on Go's output
//   oracle: permutation metamorphic on the real code (value, links as set, position class)

func init() {
	props["C04"] = func(o *Out, r *Rng, n int, thorough bool) {
		maxN := 8
		if thorough {
			maxN = 12
		}
		for c := 0; c < n; c++ {
			names, vals := genValueList(r, maxN)
			in := rankingInput(names, vals)
			var rk *model.AlternativesRanking
			msg := recoverErr(func() { rk = in.Ranking() })
			inSX := make(sxList, len(names))
			inJ := map[string]float64{}
			for i := range names {
				inSX[i] = L(Str(names[i]), Num(vals[i]))
				inJ[names[i]] = vals[i]
			}
			distinct := map[float64]bool{}
			for _, v := range vals {
				distinct[v] = true
			}
			o.Cases++
			o.count("n=" + itoa(len(names)))
			o.count("levels=" + itoa(len(distinct)))
			m := Meta{Stage: "ranking", Case: c, Input: map[string]interface{}{"order": names, "values": inJ},
				Trivial: len(names) < 2, Key: sxString(inSX)}
			if msg != "" {
				o.Oracle(m, false, "ranking panicked: "+msg)
				continue
			}
			m.GoOut = rankingJSON(rk)
			o.Corr(m, L(A("ranking"), inSX), okSX(rankingSX(rk)))
			o.Spec(m, L(A("check-c04"), rankingSX(rk)))
			// metamorphic: permute the input, compare per-alternative value and link *sets*
			perm := r.Perm(len(names))
			n2, v2 := make([]string, len(names)), make([]float64, len(names))
			for i, p := range perm {
				n2[i], v2[i] = names[p], vals[p]
			}
			in2 := rankingInput(n2, v2)
			rk2 := in2.Ranking()
			ok, clause := sameRanking(rk, rk2)
			m.Stage = "ranking-permutation"
			o.Oracle(m, ok, clause)
		}
	}
}
