//go:build verif && (c08 || allprops)

package main

import (
	"bytes"
	"encoding/json"
	"fmt"
	"math"
	"math/rand"
	"strings"

	"github.com/Azbesciak/RealDecisionMaker/lib/model"
)

// C08: bias switches and apply-probabilities.
//  stage process-biases (corr): real MakeDecision → ChooseBiases/processBiases with STUB biases
//        (never fail, log their application), so the stage is sensitive to bias.go / processBiases only
//  spec check-c08 on real responses (real biases): one entry per enabled bias, in order, name and
//        probability echoed, fired iff probability > i-th draw of biasApplyRandomSeed
//  oracles on the real code: disabled ≡ left out (byte-identical response); firing at a position is
//        independent of the other entries; monotone in the probability; p=0 entry changes nothing

type stubBias struct {
	name string
	log  *[]string
}

func (s *stubBias) Identifier() string { return s.name }
func (s *stubBias) Apply(_, current *model.DecisionMakingParams, _ *model.BiasProps, _ *model.BiasListener) *model.BiasedResult {
	*s.log = append(*s.log, s.name)
	// leave a visible mark in the state handed on: one more not-considered alternative named after the bias
	nc := append(append([]model.AlternativeWithCriteria{}, current.NotConsideredAlternatives...),
		model.AlternativeWithCriteria{Id: "mark-" + s.name, Criteria: model.Weights{"c": 0}})
	return &model.BiasedResult{DMP: &model.DecisionMakingParams{NotConsideredAlternatives: nc, ConsideredAlternatives: current.ConsideredAlternatives,
		Criteria: current.Criteria, MethodParameters: current.MethodParameters}, Props: s.name}
}

var probGrid = []float64{0, 0.001, 0.25, 0.5, 0.75, 0.999, 1}

func trivialBody() J {
	return J{"preferenceFunction": "weightedSum", "criteria": []interface{}{J{"id": "c", "type": "gain"}},
		"knownAlternatives": []interface{}{J{"id": "a", "criteria": J{"c": 1}}, J{"id": "b", "criteria": J{"c": 2}}},
		"choseToMake":       []string{"a", "b"}, "methodParameters": J{"weights": J{"c": 1}}}
}

func biasOutSX(bs model.BiasesParams) (SX, []interface{}) {
	out := make(sxList, len(bs))
	var js []interface{}
	for i, b := range bs {
		bp := b.(model.BiasParams)
		out[i] = L(Str(bp.Name), Num(bp.ApplyProbability), Bool(bp.Props != nil))
		js = append(js, J{"name": bp.Name, "applyProbability": bp.ApplyProbability, "fired": bp.Props != nil})
	}
	return out, js
}

func reqBiasSX(bl []interface{}) SX {
	out := make(sxList, len(bl))
	for i, b := range bl {
		bj := b.(J)
		dis, _ := bj["disabled"].(bool)
		var p SX = A("none")
		if v, ok := bj["applyProbability"].(float64); ok {
			p = Num(v)
		}
		out[i] = L(Str(bj["name"].(string)), Bool(dis), p)
	}
	return out
}

func init() {
	props["C08"] = func(o *Out, r *Rng, n int, thorough bool) {
		names := []string{"s0", "s1", "s2", "s3"}
		// frequency sanity (supporting evidence, 6-sigma band): over many seeds an entry with probability p
		// at position k fires about p of the time
		trials := 4000
		if thorough {
			trials = 20000
		}
		for _, p := range []float64{0.25, 0.5, 0.75} {
			for _, pos := range []int{0, 2} {
				fires := 0
				for t := 0; t < trials; t++ {
					body := trivialBody()
					body["biasApplyRandomSeed"] = r.Int63n(1 << 40)
					var bl []interface{}
					for i := 0; i <= pos; i++ {
						bl = append(bl, J{"name": "s0", "applyProbability": p, "props": J{}})
					}
					body["biases"] = bl
					var log []string
					stubs := model.BiasMap{"s0": &stubBias{"s0", &log}}
					js, _ := json.Marshal(body)
					var dm model.DecisionMaker
					json.Unmarshal(js, &dm)
					choice := dm.MakeDecision(funcs, biasListeners, &stubs, seededGen)
					if choice.Biases[pos].(model.BiasParams).Props != nil {
						fires++
					}
				}
				sigma := math.Sqrt(p * (1 - p) * float64(trials))
				ok := math.Abs(float64(fires)-p*float64(trials)) <= 6*sigma
				o.Oracle(Meta{Stage: "frequency", Input: J{"probability": p, "position": pos, "seeds": trials, "fired": fires}, Key: "freq" + itoa(pos) + fmt.Sprint(p)}, ok,
					fmt.Sprintf("probability %v at position %d fired %d times in %d seeds (outside the 6-sigma band)", p, pos, fires, trials))
				o.count("frequency-runs")
			}
		}
		// the activation stream is math/rand seeded with biasApplyRandomSeed (values in [0,1), untouched)
		for _, seed := range []int64{0, 1, 7, 42, 99991, 3726072, -5} {
			g, ref := seededGen(seed), rand.New(rand.NewSource(seed))
			same := true
			for i := 0; i < 5000 && same; i++ {
				same = g() == ref.Float64()
			}
			o.Oracle(Meta{Stage: "activation-stream", Input: J{"seed": seed}, Key: "stream" + fmt.Sprint(seed)}, same,
				"the seeded generator handed to MakeDecision does not produce the math/rand stream of its seed")
		}
		for c := 0; c < n; c++ {
			o.Cases++
			switch c % 3 {
			case 0: // stub stage
				body := trivialBody()
				seed := int64(r.Intn(100000))
				switch k := r.Intn(100); {
				case k < 10: // 0 is a seed like any other (and what an omitted seed decodes to)
					seed = 0
				case k < 14:
					seed = -int64(r.Intn(1000)) - 1
				}
				body["biasApplyRandomSeed"] = seed
				if seed == 0 && r.chance(0.4) {
					delete(body, "biasApplyRandomSeed")
					o.count("seed-omitted")
				}
				avail := names
				if r.chance(0.15) {
					avail = names[:r.rangeInt(1, 3)]
				}
				k := r.rangeInt(0, 6)
				var bl []interface{}
				for i := 0; i < k; i++ {
					b := J{"name": names[r.Intn(4)], "props": J{}}
					if r.chance(0.05) {
						b["name"] = "unknownBias"
					}
					if r.chance(0.3) {
						b["disabled"] = true
					}
					if r.chance(0.7) {
						b["applyProbability"] = probGrid[r.Intn(len(probGrid))]
					} else if r.chance(0.15) {
						b["applyProbability"] = nil
					}
					bl = append(bl, b)
				}
				if bl != nil {
					body["biases"] = bl
				}
				var log []string
				stubs := model.BiasMap{}
				for _, nm := range avail {
					stubs[nm] = &stubBias{nm, &log}
				}
				js, _ := json.Marshal(body)
				var dm model.DecisionMaker
				json.Unmarshal(js, &dm)
				var choice *model.DecisionMakerChoice
				capt, cfs := capturing("weightedSum")
				msg := recoverErr(func() { choice = dm.MakeDecision(cfs, biasListeners, &stubs, seededGen) })
				m := Meta{Case: c, Stage: "process-biases", Input: J{"request": body, "available": avail}, Key: string(js) + sxString(Strs(avail)), Trivial: k == 0}
				o.count("stub-biases=" + itoa(k))
				// the marks that reached the method = the effects that are still in force
				var marks []string
				if msg == "" && capt.got != nil {
					for _, a := range capt.got.NotConsideredAlternatives {
						if strings.HasPrefix(a.Id, "mark-") {
							marks = append(marks, strings.TrimPrefix(a.Id, "mark-"))
						}
					}
				}
				exp := resSX(msg, func() SX {
					outs, js := biasOutSX(choice.Biases)
					m.GoOut = J{"biases": js, "state_marks_at_evaluate": marks}
					return L(outs, Strs(marks))
				})
				o.Corr(m, L(A("process-biases"), Strs(avail), reqBiasSX(bl), Nums(draws(seed, 8))), okSX(exp))
				if msg == "" {
					outs, _ := biasOutSX(choice.Biases)
					o.Spec(m, L(A("check-c08"), reqBiasSX(bl), outs, Nums(draws(seed, 8))))
					// the state the method receives carries exactly the marks of the biases that fired, in order
					var fired []string
					for _, b := range choice.Biases {
						if bp := b.(model.BiasParams); bp.Props != nil {
							fired = append(fired, bp.Name)
						}
					}
					ms := m
					ms.Stage = "effects-of-fired-biases-in-force"
					o.Oracle(ms, strings.Join(fired, ",") == strings.Join(marks, ",") && strings.Join(log, ",") == strings.Join(fired, ","),
						"the state handed to the method does not carry exactly the effects of the biases that fired (fired: "+strings.Join(fired, ",")+"; in force: "+strings.Join(marks, ",")+")")
				} else {
					o.count("stub-rejected")
				}
			default: // real biases
				q := genRequest(r, ReqOpts{MaxBiases: 4, Methods: []string{"weightedSum", "majorityHeuristic", "electreIII", "satisfactionHeuristic", "aspectEliminationHeuristic"},
					Biases: []string{"criteriaOmission", "preferenceReversal", "fatigue", "anchoring"}})
				bl, _ := q.Body["biases"].([]interface{})
				for _, b := range bl { // sprinkle disabled entries and probabilities
					if r.chance(0.2) {
						b.(J)["disabled"] = true
					}
					if r.chance(0.5) {
						b.(J)["applyProbability"] = probGrid[r.Intn(len(probGrid))]
					} else if r.chance(0.08) {
						b.(J)["applyProbability"] = nil // present but null: the default (1) applies
					}
				}
				if r.chance(0.06) { // long lists: more entries than there are biases (repeats and disabled entries are legal)
					for len(bl) < 7+r.Intn(6) {
						if r.chance(0.5) {
							bl = append(bl, J{"name": "fatigue", "applyProbability": probGrid[r.Intn(len(probGrid))], "props": J{"function": "const", "params": J{"value": 0.125}, "randomSeed": r.Intn(100)}})
						} else {
							bl = append(bl, J{"name": []string{"criteriaMixing", "noSuchBias", "fatigue"}[r.Intn(3)], "disabled": true, "props": J{}})
						}
					}
					q.Body["biases"] = bl
					o.count("real:long-bias-list")
				}
				if r.chance(0.3) {
					bl = append(bl, J{"name": "noSuchBias", "disabled": true, "props": J{}})
					r.Shuffle(len(bl), func(i, j int) { bl[i], bl[j] = bl[j], bl[i] })
					q.Body["biases"] = bl
				}
				if r.chance(0.12) && len(q.Problem.Criteria) >= 2 {
					// criteria mixing as the FIRST bias, inserted after every shuffle of the list (it needs two current criteria to
					// have anything to report: behind an omission it may legitimately report nothing)
					mix := J{"name": "criteriaMixing", "props": biasPropsJSON(r, "criteriaMixing", q.Problem)}
					var rest []interface{}
					for _, b := range bl { // no omission in such a list: wherever the oracles below move the mixing, two criteria remain
						if b.(J)["name"] != "criteriaOmission" {
							rest = append(rest, b)
						}
					}
					bl = append([]interface{}{mix}, rest...)
					q.Body["biases"] = bl
					o.count("real:mixing-first")
				}
				seed := int64(q.Body["biasApplyRandomSeed"].(int))
				if r.chance(0.15) { // an omitted seed is seed 0
					delete(q.Body, "biasApplyRandomSeed")
					seed = 0
					o.count("real:seed-omitted")
				}
				st, resp := decideBody(q.Body)
				o.count("real:" + q.Method)
				m := Meta{Case: c, Stage: "response-biases", Input: J{"request": q.Body}, Key: string(q.JSON()), Trivial: len(bl) == 0}
				if st != 200 {
					o.count("real-rejected")
					continue
				}
				outs := make(sxList, 0)
				var fired []bool
				for _, b := range biasesOf(resp) {
					f := b["props"] != nil
					fired = append(fired, f)
					outs = append(outs, L(Str(b["name"].(string)), Num(b["applyProbability"].(float64)), Bool(f)))
				}
				m.GoOut = biasesOf(resp)
				o.Spec(m, L(A("check-c08"), reqBiasSX(bl), outs, Nums(draws(seed, 12))))
				// oracle 1: disabled ≡ left out
				var enabled []interface{}
				for _, b := range bl {
					if d, _ := b.(J)["disabled"].(bool); !d {
						enabled = append(enabled, b)
					}
				}
				v := cloneJ(q.Body)
				if enabled == nil {
					delete(v, "biases")
				} else {
					v["biases"] = enabled
				}
				st2, resp2 := decideBody(v)
				m.Stage = "disabled-equals-absent"
				o.Oracle(m, st2 == 200 && bytes.Equal(resp, resp2), "response changes when disabled entries are removed")
				if len(enabled) == 0 {
					continue
				}
				// oracle 2: independence + monotonicity at a random enabled position
				i := r.Intn(len(enabled))
				v = cloneJ(J{"b": enabled})
				en2 := v["b"].([]interface{})
				for j := range en2 {
					if j != i { // rewrite the other entries: harmless fatigue with other probability
						en2[j] = J{"name": "fatigue", "applyProbability": probGrid[r.Intn(len(probGrid))],
							"props": J{"function": "const", "params": J{"value": 0.125}, "randomSeed": r.Intn(50)}}
					}
				}
				v2 := cloneJ(q.Body)
				v2["biases"] = en2
				st3, resp3 := decideBody(v2)
				m.Stage = "position-independence"
				if st3 == 200 {
					b3 := biasesOf(resp3)
					o.Oracle(m, len(b3) == len(enabled) && (b3[i]["props"] != nil) == fired[i], "firing at a position depends on other entries")
				}
				// monotone: raise the probability to 1 → fires; lower to 0 → does not
				for _, p := range []float64{0, 1} {
					v3 := cloneJ(q.Body)
					en3 := cloneJ(J{"b": enabled})["b"].([]interface{})
					en3[i].(map[string]interface{})["applyProbability"] = p
					v3["biases"] = en3
					st4, resp4 := decideBody(v3)
					m.Stage = "probability-extremes"
					if st4 == 200 {
						b4 := biasesOf(resp4)
						o.Oracle(m, (b4[i]["props"] != nil) == (p == 1), "probability 1 must always fire and 0 never")
					} else if p == 0 {
						// a request that was accepted stays accepted when one bias is switched off... not claimed; skip
						o.count("extreme-rejected")
					}
				}
				// oracle 2b: a trailing entry that cannot fire changes nothing: same result as without it
				vt := cloneJ(q.Body)
				ent := cloneJ(J{"b": enabled})["b"].([]interface{})
				ent = append(ent, J{"name": "preferenceReversal", "applyProbability": 0, "props": J{"ratio": 1}})
				vt["biases"] = ent
				vb := cloneJ(q.Body)
				vb["biases"] = cloneJ(J{"b": enabled})["b"]
				stA, respA := decideBody(vt)
				stB, respB := decideBody(vb)
				m.Stage = "trailing-non-firing-changes-nothing"
				if stA == 200 && stB == 200 {
					o.Oracle(m, bytes.Equal(resultOf(respA), resultOf(respB)), "appending a bias with probability 0 changed the result")
				}
				// oracle 3: an entry with probability 0 changes nothing: swapping it for another p=0 bias keeps the result
				v4 := cloneJ(q.Body)
				en4 := cloneJ(J{"b": enabled})["b"].([]interface{})
				en4[i].(map[string]interface{})["applyProbability"] = 0.0
				v4["biases"] = en4
				st5, resp5 := decideBody(v4)
				v5 := cloneJ(v4)
				en5 := v5["biases"].([]interface{})
				en5[i] = J{"name": "preferenceReversal", "applyProbability": 0, "props": J{"ratio": 1}}
				st6, resp6 := decideBody(v5)
				m.Stage = "not-fired-changes-nothing"
				if st5 == 200 && st6 == 200 {
					o.Oracle(m, bytes.Equal(resultOf(resp5), resultOf(resp6)), "result depends on a bias that did not fire")
				}
			}
		}
	}
}
