//go:build verif

package main

import (
	"math"
	"sort"
	"strings"

	"github.com/Azbesciak/RealDecisionMaker/lib/logic/preference-func/electreIII"
	"github.com/Azbesciak/RealDecisionMaker/lib/model"
	"github.com/Azbesciak/RealDecisionMaker/lib/utils"
)

func linSX(f utils.LinearFunctionParameters) SX { return L(Num(f.A), Num(f.B)) }

func ecritSX(e electreIII.ElectreCriterion) SX {
	return L(Num(e.K), linSX(e.Q), linSX(e.P), linSX(e.V))
}

func ecSX(ec electreIII.ElectreCriteria) SX {
	keys := make([]string, 0, len(ec))
	for k := range ec {
		keys = append(keys, k)
	}
	sort.Strings(keys)
	out := make(sxList, len(keys))
	for i, k := range keys {
		out[i] = L(Str(k), ecritSX(ec[k]))
	}
	return out
}

func matrixSX(size int, data []float64) SX { return L(Int(int64(size)), Nums(data)) }

func electreRankingSX(rk *model.AlternativesRanking) SX {
	out := make(sxList, len(*rk))
	for i, e := range *rk {
		ev := e.Evaluation.(electreIII.ElectreIIIEvaluation)
		out[i] = L(Str(e.Alternative.Id), Int(int64(ev.AscendingIndex)), Int(int64(ev.DescendingIndex)), Strs(e.BetterThanOrSameAs))
	}
	return out
}

type eDist struct {
	f         *utils.LinearFunctionParameters
	isDefault bool
}

func (d eDist) sx() SX {
	if d.isDefault {
		return A("default")
	}
	return linSX(*d.f)
}

func (d eDist) json() interface{} {
	if d.isDefault {
		return "default"
	}
	return J{"a": d.f.A, "b": d.f.B}
}

// in-domain distillation functions: b >= 0, a <= 0, a+b >= 0 (so s >= 0 on [0,1], non-positive slope)
func genDist(r *Rng) eDist {
	if r.chance(0.45) {
		return eDist{&electreIII.DefaultDistillationFunc, true}
	}
	bs := []float64{0, 0.05, 0.1, 0.125, 0.25, 0.3, 0.5, 1}
	b := bs[r.Intn(len(bs))]
	as := []float64{0, -b, -b / 2, -0.15, -0.125, -0.25, -0.05, -b / 4}
	a := as[r.Intn(len(as))]
	if a+b < 0 {
		a = -b
	}
	if a == 0 { // no -0.0
		a = 0
	}
	return eDist{&utils.LinearFunctionParameters{A: a, B: b}, false}
}

type eProblem struct {
	crits    model.Criteria
	alts     []model.AlternativeWithCriteria
	ec       electreIII.ElectreCriteria
	inDomain bool
}

func (p *eProblem) json() J {
	cr, known := problemJSON(&Problem{Criteria: p.crits, Known: p.alts})
	return J{"criteria": cr, "alternatives": known, "electreCriteria": ecJSON(p.ec)}
}

func ecJSON(ec electreIII.ElectreCriteria) J {
	out := J{}
	for k, e := range ec {
		out[k] = J{"k": e.K, "q": J{"a": e.Q.A, "b": e.Q.B}, "p": J{"a": e.P.A, "b": e.P.B}, "v": J{"a": e.V.A, "b": e.V.B}}
	}
	return out
}

// constant thresholds 0 <= q < p < v, any absent, veto only with p; k > 0
func genECritInDomain(r *Rng) electreIII.ElectreCriterion {
	e := electreIII.ElectreCriterion{K: r.weight()}
	q := float64(r.Intn(4)) / 2 // 0 (= absent), 0.5, 1, 1.5
	p := q + float64(r.rangeInt(1, 4))/2
	v := p + float64(r.rangeInt(1, 6))/2
	if r.chance(0.1) { // fine-grained thresholds
		q, p, v = 0.25, 0.75+float64(r.Intn(3))/4, 1.5+float64(r.Intn(8))/4
	}
	if r.chance(0.65) {
		e.Q.B = q
	}
	switch r.Intn(6) {
	case 0, 1: // no p, no v
	case 2, 3:
		e.P.B = p
	default:
		e.P.B, e.V.B = p, v
	}
	if e.P.B == 0 && e.Q.B != 0 && r.chance(0.5) {
		e.Q.B = 0
	}
	return e
}

// anything the stage functions accept (validation happens only in ParseParams): linear thresholds,
// veto without preference threshold, equal or decreasing thresholds
func genECritAny(r *Rng) electreIII.ElectreCriterion {
	e := genECritInDomain(r)
	switch r.Intn(5) {
	case 0:
		e.Q.A = float64(r.Intn(3)) / 8
		e.P.A = float64(r.Intn(4)) / 8
		e.V.A = float64(r.Intn(5)) / 8
	case 1:
		e.P = utils.LinearFunctionParameters{}
		e.V.B = float64(r.rangeInt(1, 6)) / 2
	case 2:
		e.P.B = e.Q.B
	case 3:
		e.V.B = e.P.B / 2
	default:
		e.K = float64(r.Intn(3) - 1)
	}
	return e
}

func genValues(r *Rng, vmode int) float64 {
	switch vmode {
	case 0:
		return float64(r.Intn(4))
	case 1:
		return float64(r.Intn(11)) / 2
	case 2:
		return float64(r.Intn(2))
	case 3:
		return float64(r.Intn(17)) / 4
	default:
		return r.value()
	}
}

func genEProblem(r *Rng, maxAlt, maxCrit int, inDomain bool) *eProblem {
	nc := r.rangeInt(1, maxCrit)
	na := r.rangeInt(1, maxAlt)
	p := &eProblem{ec: electreIII.ElectreCriteria{}, inDomain: inDomain}
	vmode := r.Intn(6)
	for _, id := range r.shuffled(ids("c", nc)) {
		c := model.Criterion{Id: id, Type: model.Gain}
		if r.chance(0.4) {
			c.Type = model.Cost
		}
		p.crits = append(p.crits, c)
		if inDomain {
			p.ec[id] = genECritInDomain(r)
		} else {
			p.ec[id] = genECritAny(r)
		}
	}
	for _, id := range r.shuffled(ids("a", na)) {
		w := model.Weights{}
		for _, c := range p.crits {
			w[c.Id] = genValues(r, vmode)
		}
		p.alts = append(p.alts, model.AlternativeWithCriteria{Id: id, Criteria: w})
	}
	if na >= 2 && r.chance(0.06) { // ids that differ only in letter case are different alternatives
		p.alts[na-1].Id = strings.ToUpper(p.alts[0].Id)
	}
	// identical alternatives, and alternatives differing on one criterion only
	for k := r.Intn(3); k > 0 && na >= 2; k-- {
		i, j := r.Intn(na), r.Intn(na)
		if i != j && r.chance(0.6) {
			p.alts[j].Criteria = copyW(p.alts[i].Criteria)
			if r.chance(0.4) {
				c := p.crits[r.Intn(nc)].Id
				p.alts[j].Criteria[c] += float64(r.Intn(5)-2) / 2
			}
		}
	}
	return p
}

func hasIdentical(alts []model.AlternativeWithCriteria) bool {
	for i := range alts {
		for j := i + 1; j < len(alts); j++ {
			same := true
			for k, v := range alts[i].Criteria {
				if alts[j].Criteria[k] != v {
					same = false
				}
			}
			if same {
				return true
			}
		}
	}
	return false
}

func finite(xs ...float64) bool {
	for _, x := range xs {
		if math.IsNaN(x) || math.IsInf(x, 0) {
			return false
		}
	}
	return true
}

// credibility-like matrices over coarse grids: many ties, zeros, identical rows
func genMatrix(r *Rng, n int) []float64 {
	d := make([]float64, n*n)
	mode := r.Intn(10)
	cell := func() float64 {
		switch mode {
		case 0:
			return float64(r.Intn(5)) / 4
		case 1:
			return float64(r.Intn(2))
		case 2:
			return float64(r.Intn(21)) / 20
		case 3:
			return float64(r.Intn(11)) / 10
		case 4:
			return r.Float64()
		case 6:
			if r.chance(0.6) {
				return 0
			}
			return float64(r.Intn(9)) / 8
		default:
			return float64(r.Intn(9)) / 8
		}
	}
	switch mode {
	case 5: // all equal
		c := []float64{0, 0.5, 1, 0.3, 0.85}[r.Intn(5)]
		for i := range d {
			d[i] = c
		}
	case 7: // symmetric: nobody outranks anybody
		for i := 0; i < n; i++ {
			for j := i; j < n; j++ {
				v := cell()
				d[i*n+j], d[j*n+i] = v, v
			}
		}
	case 8, 9: // groups of identical alternatives
		k := r.rangeInt(1, n)
		f := make([]int, n)
		for i := range f {
			f[i] = r.Intn(k)
		}
		s := make([]float64, k*k)
		for i := range s {
			s[i] = cell()
		}
		for i := 0; i < n; i++ {
			for j := 0; j < n; j++ {
				if f[i] == f[j] {
					d[i*n+j] = 1
				} else {
					d[i*n+j] = s[f[i]*k+f[j]]
				}
			}
		}
	default:
		for i := range d {
			d[i] = cell()
		}
	}
	for i := 0; i < n; i++ {
		if r.chance(0.85) {
			d[i*n+i] = 1
		}
	}
	return d
}

func distinctInts(l []int) int {
	m := map[int]bool{}
	for _, v := range l {
		m[v] = true
	}
	return len(m)
}
