//go:build verif && (c07 || allprops)

package main

import (
	"encoding/json"
	"sort"
	"strings"

	"github.com/Azbesciak/RealDecisionMaker/lib/model"
)

// C07: biases compose with every method and keep the working data coherent.
//   stages listener-* (corr): the seven real listeners vs Model/Listener.lean (see listener.go)
//   spec check-c07 (Lean, on the real code's states): after every fired bias the state handed on is
//        coherent (criteria ids distinct, every known alternative has every current criterion,
//        parameters cover the criteria)
//   oracle answered   : an in-domain request is answered with a ranking (failures are classified;
//        known classes are registered findings)
//   stage decide (corr): the whole MakeDecision through the real registries vs Model/Decide.lean (c07e2e.go)
//   oracle frame      : alternatives and their split never change; criteria change only as reported;
//        earlier value changes stay in force after biases that do not rewrite those values

func critSet(l []string) map[string]bool {
	m := map[string]bool{}
	for _, x := range l {
		m[x] = true
	}
	return m
}

func idsOf(as []model.AlternativeWithCriteria) string {
	l := make([]string, len(as))
	for i, a := range as {
		l[i] = a.Id
	}
	return strings.Join(l, ",")
}

func reportedCriteria(st *traceStep) (added, omitted []string) {
	var rep map[string]interface{}
	json.Unmarshal([]byte(st.PropsJSON), &rep)
	ids := func(v interface{}) []string {
		var out []string
		l, _ := v.([]interface{})
		for _, e := range l {
			if m, ok := e.(map[string]interface{}); ok {
				if id, ok := m["id"].(string); ok {
					out = append(out, id)
				}
			}
		}
		return out
	}
	switch st.Name {
	case "criteriaOmission":
		omitted = ids(rep["omittedCriteria"])
	case "criteriaConcealment":
		added = ids(rep["addedCriteria"])
	case "criteriaMixing":
		if nc, ok := rep["newCriterion"].(map[string]interface{}); ok {
			if id, ok := nc["id"].(string); ok && id != "" {
				added = []string{id}
			}
		}
	case "anchoring":
		if ar, ok := rep["applierResult"].(map[string]interface{}); ok {
			added = ids(ar["addedCriteria"])
		}
	}
	return
}

// valuesPersist: every value of `in` for criteria in `keep` is still there in `out`
func valuesPersist(in, out *stateSnap, keep map[string]bool) bool {
	o := altByID(append(append([]model.AlternativeWithCriteria{}, out.Co...), out.Nc...))
	for _, a := range append(append([]model.AlternativeWithCriteria{}, in.Co...), in.Nc...) {
		for k, v := range a.Criteria {
			if keep[k] {
				if w, ok := o[a.Id][k]; !ok || w != v {
					return false
				}
			}
		}
	}
	return true
}

// taintClass: the registered C07 defect classes.  Once one of them has occurred in a trace, the states
// after it are incoherent and everything later in that request is a consequence of it.
//
//	owa-adding-bias            OWA OnCriterionAdded returns model.WeightType, OWA Merge asserts owaParams
//	choquet-adding-bias        Choquet OnCriterionAdded re-emits the existing capacities, Merge collides
//	mixing-after-state-change  criteria mixing selects, ranks and REBUILDS the alternatives from the
//	                           `original` state: changes of earlier biases are lost, added criteria lose
//	                           their values, repeated mixing collides on the id
func taintClass(q *Req, tr *trace, upto int) string {
	for i, st := range tr.Steps {
		if i > upto {
			break
		}
		adder := st.Name == "criteriaConcealment" || (st.Name == "criteriaMixing" && len(st.In.Criteria) >= 2) ||
			(st.Name == "anchoring" && (st.Out == nil || strings.Contains(st.PropsJSON, "addedCriteria")))
		if adder && st.Out == nil && q.Method == "owa" {
			return "owa-adding-bias"
		}
		if adder && st.Out == nil && q.Method == "choquetIntegral" {
			return "choquet-adding-bias"
		}
		if st.Name == "criteriaMixing" && len(st.In.Criteria) >= 2 && st.In.SX != st.Original.SX {
			return "mixing-after-state-change"
		}
	}
	return ""
}

func init() {
	props["C07"] = func(o *Out, r *Rng, n int, thorough bool) {
		for c := 0; c < n; c++ {
			o.Cases++
			if c%4 == 0 {
				listenerStages(o, r, c)
				continue
			}
			maxB := 4
			q := genRequest(r, ReqOpts{MaxBiases: maxB, NoProb: true})
			if st, _ := decideBody(stripBiases(q.Body)); st != 200 {
				continue // the request must be valid without biases
			}
			dm := q.bind()
			tr := tracedDecide(dm)
			bs := append([]string{}, q.Biases...)
			key := string(q.JSON())
			m := Meta{Case: c, Input: J{"request": q.Body}, Key: key, Trivial: len(q.Biases) == 0}
			o.count("method:" + q.Method)
			o.count("sequence-length=" + itoa(len(q.Biases)))
			// out of domain: a bias removed every criterion
			emptied := false
			for _, st := range tr.Steps {
				if st.Out != nil && len(st.Out.Criteria) == 0 {
					emptied = true
				}
			}
			if emptied {
				o.count("out-of-domain:all-criteria-removed")
				continue
			}
			m.Stage = "answered"
			m.Class = taintClass(q, tr, len(tr.Steps))
			sort.Strings(bs)
			if tr.Err != "" {
				o.count("failed:" + q.Method + ":" + m.Class)
				m.GoOut = tr.Err
			}
			o.Oracle(m, tr.Err == "", "combination of "+q.Method+" with biases ["+strings.Join(q.Biases, ",")+"] answered with an error: "+truncate(tr.Err, 160))
			m.GoOut = nil
			// non-finite numbers (overflow of an exponential gain on a tiny range, …) cannot be serialised: such a
			// request is outside every theorem and oracle
			nonFinite := false
			for _, st := range tr.Steps {
				if st.Props != nil && st.PropsJSON == "" {
					nonFinite = true
				}
			}
			if nonFinite {
				if strings.Contains(key, "expFromZero") {
					o.count("non-finite-output-from-exp")
				} else {
					mf := m
					mf.Stage, mf.Class = "finite-state", ""
					o.Oracle(mf, false, "a bias produced a non-finite number although the request has only finite numbers and no exponential function")
				}
				continue
			}
			// states handed on
			for i, st := range tr.Steps {
				if st.Out == nil {
					continue
				}
				ms := m
				ms.Class = taintClass(q, tr, i)
				ms.Tags = []string{st.Name}
				ms.Stage = "coherent-after-bias"
				ms.Key = key + "#" + itoa(i)
				ms.GoOut = st.Out.SX
				o.Spec(ms, L(A("check-c07"), A(st.Out.SX)))
				ms.GoOut = nil
				ms.Stage = "frame"
				ok, why := true, ""
				if idsOf(st.In.Co) != idsOf(st.Out.Co) || idsOf(st.In.Nc) != idsOf(st.Out.Nc) {
					ok, why = false, "alternatives or their considered/not-considered split changed"
				}
				added, omitted := reportedCriteria(st)
				want := critSet(st.In.Criteria)
				for _, x := range omitted {
					delete(want, x)
				}
				for _, x := range added {
					want[x] = true
				}
				got := critSet(st.Out.Criteria)
				if ok && (len(got) != len(want) || len(st.Out.Criteria) != len(got)) {
					ok, why = false, "criteria changed otherwise than the bias reports"
				}
				for x := range want {
					if ok && !got[x] {
						ok, why = false, "criteria changed otherwise than the bias reports"
					}
				}
				// value persistence for biases that do not deliberately rewrite existing values
				switch st.Name {
				case "criteriaOmission", "criteriaConcealment", "criteriaMixing":
					if ok && !valuesPersist(st.In, st.Out, got) {
						ok, why = false, "existing values changed although "+st.Name+" does not rewrite them (an earlier bias's changes were lost)"
					}
				case "anchoring":
					if ok && len(added) > 0 && !valuesPersist(st.In, st.Out, critSet(st.In.Criteria)) {
						ok, why = false, "existing values changed by the newCriterion anchoring applier"
					}
				}
				o.Oracle(ms, ok, why)
			}
			if tr.Err == "" && tr.Eval != nil {
				ms := m
				ms.Stage = "coherent-at-evaluate"
				ms.Key = key + "#eval"
				o.Spec(ms, L(A("check-c07"), A(tr.Eval.SX)))
			}
		}
		e2eDecideAll(o, r, n) // whole MakeDecision vs Model/Decide.lean (c07e2e.go); after the loop: the cases above keep their stream
	}
}
