//go:build verif

package main

import (
	"encoding/json"
	"sort"
	"strings"

	"github.com/Azbesciak/RealDecisionMaker/lib/model"
)

// jsonProps turns generated props into what the service hands to a bias: the JSON-decoded tree.
func jsonProps(j interface{}) interface{} {
	b, err := json.Marshal(j)
	if err != nil {
		panic(err)
	}
	var out interface{}
	if err := json.Unmarshal(b, &out); err != nil {
		panic(err)
	}
	return out
}

func asMap(p interface{}) map[string]interface{} {
	if m, ok := p.(map[string]interface{}); ok {
		return m
	}
	return map[string]interface{}{}
}

// propsSX: the flat part of a JSON object: ((nums) (strs) (bools))
func propsSX(p interface{}) SX {
	m := asMap(p)
	keys := make([]string, 0, len(m))
	for k := range m {
		keys = append(keys, k)
	}
	sort.Strings(keys)
	nums, strs, bools := sxList{}, sxList{}, sxList{}
	for _, k := range keys {
		switch v := m[k].(type) {
		case float64:
			nums = append(nums, L(Str(k), Num(v)))
		case int:
			nums = append(nums, L(Str(k), Num(float64(v))))
		case string:
			strs = append(strs, L(Str(k), Str(v)))
		case bool:
			bools = append(bools, L(Str(k), Bool(v)))
		}
	}
	return L(nums, strs, bools)
}

func seedOf(p interface{}, key string) int64 {
	return int64(numField(asMap(p), key))
}

type appliedBias struct {
	Name  string      `json:"name"`
	Props interface{} `json:"props"`
	Err   string      `json:"error,omitempty"`
}

// applyReal runs one bias through the real registry.
func applyReal(name string, orig, cur *model.DecisionMakingParams, props interface{}, l *model.BiasListener) (res *model.BiasedResult, msg string) {
	msg = recoverErr(func() {
		p := props
		res = biases[name].Apply(orig, cur, &p, l)
	})
	return
}

// runPrefix applies up to k random other biases (real code) and returns the state reached.
func runPrefix(r *Rng, q *Req, orig *model.DecisionMakingParams, l *model.BiasListener, pool []string, k int) (*model.DecisionMakingParams, []appliedBias) {
	cur := orig
	var done []appliedBias
	for i := 0; i < k; i++ {
		name := pool[r.Intn(len(pool))]
		props := jsonProps(biasPropsJSON(r, name, q.Problem))
		res, msg := applyReal(name, orig, cur, props, l)
		if msg != "" || res == nil || res.DMP == nil {
			continue
		}
		cur = res.DMP
		done = append(done, appliedBias{Name: name, Props: props})
	}
	return cur, done
}

func sameDMP(a, b *model.DecisionMakingParams) bool {
	return a == b || sxString(dmpSX(a)) == sxString(dmpSX(b))
}

func c18Props(r *Rng, name string, p *Problem) (J, string) {
	pr := biasPropsJSON(r, name, p)
	reject := ""
	switch {
	case r.chance(0.03):
		pr["referenceCriterionType"] = "nope"
		reject = "unknown-reference-type"
	case name == "criteriaConcealment" && r.chance(0.03):
		pr["newCriterionScaling"] = 0.0
		reject = "scaling-zero"
	case name == "criteriaConcealment" && r.chance(0.03):
		pr["allowedValuesRangeScaling"] = 0.0
		reject = "bounding-zero"
	case name == "criteriaMixing" && r.chance(0.05):
		pr["mixingRatio"] = []float64{-0.25, 1.5, 1.0000001}[r.Intn(3)]
		reject = "mixing-ratio-out-of-range"
	case r.chance(0.04):
		pr["referenceCriterionType"] = ""
	}
	if name == "criteriaMixing" && reject == "" && r.chance(0.3) {
		pr["mixingRatio"] = []float64{0, 1, 0.5, 0.1, 0.3, 0.7, r.Float64()}[r.Intn(7)]
	}
	if reject == "" && r.chance(0.3) {
		pr["newCriterionImportance"] = []float64{0, 1, 0.5, 0.33, 1.5, r.Float64()}[r.Intn(6)]
	}
	return pr, reject
}

// coherent: every known alternative has a value for exactly the current criteria (what C07 calls a
// coherent state; an earlier criteria mixing rebuilds the alternatives from the original state and breaks
// it: values of added criteria are lost, values of omitted criteria come back)
func coherent(d *model.DecisionMakingParams) bool {
	for _, a := range d.AllAlternatives() {
		if len(a.Criteria) != len(d.Criteria) {
			return false
		}
		for _, c := range d.Criteria {
			if _, ok := a.Criteria[c.Id]; !ok {
				return false
			}
		}
	}
	return true
}

// panicClass names the structural class of a panic on valid props ("" = unexpected).
func panicClass(method, msg string, unchanged bool, bias string, cur *model.DecisionMakingParams) string {
	switch {
	case !coherent(cur):
		return "incoherent-input-state"
	case method == "owa" && strings.Contains(msg, "interface conversion"):
		return "owa-merge"
	case method == "choquetIntegral" && strings.Contains(msg, "already exist"):
		return "choquet-merge"
	case !unchanged:
		// includes the id collision of a repeated mixing of the same pair ("__c1+c2__ ... already exists"):
		// the second mixing still selects on `original` although `current` already holds that criterion.
		// Criteria.NotUsedName (concealment, anchoring) counts on until the id is unused, so a generated
		// name cannot collide; an "already exists" panic on an unchanged state stays unexpected ("").
		return bias + "-after-state-change"
	}
	return ""
}

var c18Pool = []string{"criteriaOmission", "fatigue", "preferenceReversal", "criteriaConcealment", "criteriaMixing", "anchoring"}
