//go:build verif

package main

import (
	"github.com/Azbesciak/RealDecisionMaker/lib/model"
)

type capturingPF struct {
	inner model.PreferenceFunction
	got   *model.DecisionMakingParams
}

func (c *capturingPF) Identifier() string { return c.inner.Identifier() }

func (c *capturingPF) MethodParameters() interface{} { return c.inner.MethodParameters() }

func (c *capturingPF) ParseParams(dm *model.DecisionMaker) interface{} {
	return c.inner.ParseParams(dm)
}

func (c *capturingPF) Evaluate(d *model.DecisionMakingParams) *model.AlternativesRanking {
	cp := *d
	cp.ConsideredAlternatives = copyAlts(d.ConsideredAlternatives)
	cp.NotConsideredAlternatives = copyAlts(d.NotConsideredAlternatives)
	c.got = &cp
	return c.inner.Evaluate(d)
}

func capturing(method string) (*capturingPF, model.PreferenceFunctions) {
	c := &capturingPF{inner: *funcs.Fetch(method)}
	return c, model.PreferenceFunctions{Functions: []model.PreferenceFunction{c}}
}
