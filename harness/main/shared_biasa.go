//go:build verif

package main

import (
	"crypto/sha1"
	"encoding/hex"
	"encoding/json"
	"math"

	"github.com/Azbesciak/RealDecisionMaker/lib/model"
	criteria_ordering "github.com/Azbesciak/RealDecisionMaker/lib/model/criteria-ordering"
	criteria_splitting "github.com/Azbesciak/RealDecisionMaker/lib/model/criteria-splitting"
	"github.com/Azbesciak/RealDecisionMaker/lib/utils"
)

type d1BiasCase struct {
	q        *Req
	dm       *model.DecisionMaker
	orig     *model.DecisionMakingParams // state after prepareParams
	cur      *model.DecisionMakingParams // = orig, or orig after one other bias
	pre      J                           // description of the bias applied before (nil if none)
	listener *model.BiasListener
}

// d1JsonValue is what encoding/json hands to a bias as props: map[string]interface{} with float64 numbers.
func d1JsonValue(j J) interface{} {
	b, err := json.Marshal(j)
	if err != nil {
		panic(err)
	}
	var v interface{}
	if err := json.Unmarshal(b, &v); err != nil {
		panic(err)
	}
	return v
}

func d1DeepCopyJSON(v interface{}) interface{} {
	b, err := json.Marshal(v)
	if err != nil {
		panic(err)
	}
	var out interface{}
	if err := json.Unmarshal(b, &out); err != nil {
		panic(err)
	}
	return out
}

func d1ApplyBias(name string, orig, cur *model.DecisionMakingParams, props interface{}, l *model.BiasListener) (*model.BiasedResult, string) {
	var res *model.BiasedResult
	p := model.BiasProps(props)
	msg := recoverErr(func() { res = biases[name].Apply(orig, cur, &p, l) })
	return res, msg
}

// d1GenBiasCase: a valid request for a random method; with probability preP the current state is the
// result of one other (real) bias of this work package applied first.
func d1GenBiasCase(r *Rng, o ReqOpts, preP float64) *d1BiasCase {
	for {
		q := genRequest(r, o)
		dm := q.bind()
		d, msg := prepareDMP(dm)
		if msg != "" {
			continue
		}
		c := &d1BiasCase{q: q, dm: dm, orig: d, cur: d, listener: biasListeners.Fetch(dm.PreferenceFunction)}
		if r.chance(preP) {
			name := []string{"preferenceReversal", "fatigue", "criteriaOmission"}[r.Intn(3)]
			pr := biasPropsJSON(r, name, q.Problem)
			if res, msg := d1ApplyBias(name, d, d, d1JsonValue(pr), c.listener); msg == "" && len(res.DMP.Criteria) > 0 {
				c.cur = res.DMP
				c.pre = J{"name": name, "props": pr}
			}
		}
		return c
	}
}

func (c *d1BiasCase) input(bias string, props J) J {
	in := J{"request": c.q.Body, "bias": bias, "props": props}
	if c.pre != nil {
		in["appliedBefore"] = c.pre
	}
	return in
}

func d1GenRatio(r *Rng, n int) float64 {
	switch k := r.Intn(100); {
	case k < 40: // lands exactly on k/n
		if n >= 2 && r.chance(0.7) {
			return float64(r.rangeInt(1, n)) / float64(n)
		}
		return float64(r.Intn(n+1)) / float64(n)
	case k < 70:
		return []float64{0, 0.25, 0.5, 0.5, 0.75, 0.75, 1}[r.Intn(7)]
	case k < 90:
		return []float64{1.0 / 3, 0.6, 0.34, 0.1, 0.9, 2.0 / 3}[r.Intn(6)]
	case k < 95:
		return r.Float64()
	default: // out of range
		return []float64{-0.25, 1.5, -1e-9, 1.0000001}[r.Intn(4)]
	}
}

var d1OrderingNames = []string{"", "weakest", "strongest", "random", "weakestByProbability", "strongestByProbability"}

// d1GenSplitProps: ratio / min / max / ordering / randomSeed as a client would send them.
// keepOne: bias the clamps so that usually at least one criterion is kept (C15's domain).
func d1GenSplitProps(r *Rng, n int, keepOne bool) J {
	pr := J{"ratio": d1GenRatio(r, n), "randomSeed": r.Intn(1000)}
	switch k := r.Intn(100); {
	case k < 35: // no clamps
	case k < 60:
		pr["max"] = r.rangeInt(0, n)
	case k < 75:
		pr["min"] = r.rangeInt(0, n)
	case k < 88:
		lo := r.rangeInt(0, n)
		pr["min"], pr["max"] = lo, r.rangeInt(lo, n)
	case k < 91: // max < min: rejected by validate
		hi := r.rangeInt(0, n)
		pr["min"], pr["max"] = hi+1+r.Intn(2), hi
	case k < 94: // pivot beyond the number of criteria: slice bounds
		pr["min"] = n + 1 + r.Intn(2)
	case k < 96: // negative pivot
		pr["min"], pr["max"] = -2, -1
	case k < 98: // fractional numbers are truncated by mapstructure
		pr["min"], pr["max"] = 0.5, float64(n)-0.5
	default:
		pr["min"] = -1
	}
	if keepOne && r.chance(0.7) {
		if mx, ok := pr["max"].(int); !ok || mx >= n {
			if _, hasMin := pr["min"]; !hasMin && n >= 2 {
				pr["max"] = r.rangeInt(1, n-1)
			}
		}
	}
	if k := r.Intn(100); k < 96 {
		if o := d1OrderingNames[r.Intn(len(d1OrderingNames))]; o != "" {
			pr["ordering"] = o
		}
	} else {
		pr["ordering"] = "bogus"
	}
	// an optional key given as JSON null means the same as leaving it out
	if _, has := pr["max"]; !has && r.chance(0.06) {
		pr["max"] = nil
	}
	if _, has := pr["min"]; !has && r.chance(0.04) {
		pr["min"] = nil
	}
	return pr
}

// d1CondFromJSON reads the split condition straight from the JSON props (documented defaults: ratio 0, min 0,
// no max; a number given for min/max is truncated towards zero) — independent of the decoding helper
func d1CondFromJSON(pr J) (ratio float64, min, max int, ok bool) {
	max = math.MaxInt64
	num := func(k string) (float64, bool, bool) {
		v, has := pr[k]
		if !has || v == nil {
			return 0, false, true
		}
		switch x := v.(type) {
		case float64:
			return x, true, true
		case int:
			return float64(x), true, true
		}
		return 0, false, false
	}
	r0, hasR, okR := num("ratio")
	mn, hasMin, okMin := num("min")
	mx, hasMax, okMax := num("max")
	if !okR || !okMin || !okMax {
		return 0, 0, 0, false
	}
	if hasR {
		ratio = r0
	}
	if hasMin {
		min = int(mn)
	}
	if hasMax {
		max = int(mx)
	}
	return ratio, min, max, true
}

type d1RandomSeedProps struct {
	RandomSeed int64
}

// d1DecodeSplit decodes the split condition exactly as criteria_splitting.Parse does, without validating.
func d1DecodeSplit(props interface{}) (criteria_splitting.CriteriaSplitCondition, string, int64, string) {
	cond := criteria_splitting.CriteriaSplitCondition{Max: math.MaxInt64}
	var ord *criteria_ordering.CriteriaOrdering
	rs := d1RandomSeedProps{}
	msg := recoverErr(func() {
		utils.DecodeToStruct(props, &cond)
		ord = criteria_ordering.Parse(&props)
		utils.DecodeToStruct(props, &rs)
	})
	if msg != "" {
		return cond, "", 0, msg
	}
	return cond, ord.Ordering, rs.RandomSeed, ""
}

func d1CondSX(c criteria_splitting.CriteriaSplitCondition) SX {
	return L(Num(c.Ratio), Int(int64(c.Min)), Int(int64(c.Max)))
}

// d1OrderWith calls the real resolver of the registry.
func d1OrderWith(name string, d *model.DecisionMakingParams, props interface{}, l *model.BiasListener) (*model.Criteria, string) {
	var out *model.Criteria
	p := model.BiasProps(props)
	msg := recoverErr(func() {
		res := criteria_ordering.FetchOrderingResolver(&criteriaOrdering, &criteria_ordering.CriteriaOrdering{Ordering: name})
		out = res.OrderCriteria(d, &p, l)
	})
	return out, msg
}

func d1RankWith(d *model.DecisionMakingParams, l *model.BiasListener) (model.WeightedCriteria, string) {
	var out *model.WeightedCriteria
	msg := recoverErr(func() { out = (*l).RankCriteriaAscending(d) })
	if msg != "" {
		return nil, msg
	}
	return *out, ""
}

func d1CritIds(cs model.Criteria) []string {
	l := make([]string, len(cs))
	for i, c := range cs {
		l[i] = c.Id
	}
	return l
}

func d1PropsKey(p J) string { b, _ := json.Marshal(p); return string(b) }

// d1ShortKey: distinctness keys are only ever hashed; keep meta.jsonl small
func d1ShortKey(s string) string { h := sha1.Sum([]byte(s)); return hex.EncodeToString(h[:]) }
