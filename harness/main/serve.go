//go:build verif

package main

import (
	"bufio"
	"encoding/json"
	"fmt"
	"os"

	"github.com/Azbesciak/RealDecisionMaker/lib/model"
	"github.com/Azbesciak/RealDecisionMaker/lib/utils"
)

// decideJSON does exactly what decideHandler does after binding, in-process.
func decideJSON(body []byte) (status int, out []byte) {
	var dm model.DecisionMaker
	if err := json.Unmarshal(body, &dm); err != nil {
		b, _ := json.Marshal(map[string]interface{}{"error": err.Error()})
		return 400, b
	}
	var decision *model.DecisionMakerChoice
	msg := recoverErr(func() {
		decision = dm.MakeDecision(funcs, biasListeners, &biases, utils.RandomBasedSeedValueGenerator)
	})
	if msg != "" {
		b, _ := json.Marshal(map[string]interface{}{"error": msg})
		return 400, b
	}
	b, err := json.Marshal(decision)
	if err != nil {
		b, _ = json.Marshal(map[string]interface{}{"error": "marshal: " + err.Error()})
		return 500, b
	}
	return 200, b
}

// serveStdio: one JSON request per line on stdin, "<status> <body>" per line on stdout.
func serveStdio() int {
	in := bufio.NewReaderSize(os.Stdin, 1<<24)
	w := bufio.NewWriter(os.Stdout)
	defer w.Flush()
	for {
		line, err := in.ReadBytes('\n')
		if len(line) > 1 {
			st, out := decideJSON(line)
			fmt.Fprintf(w, "%d %s\n", st, out)
			w.Flush()
		}
		if err != nil {
			return 0
		}
	}
}
