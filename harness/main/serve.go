//go:build verif

package main

import (
	"bufio"
	"encoding/json"
	"fmt"
	"os"
	"time"

	"github.com/Azbesciak/RealDecisionMaker/lib/model"
	"github.com/Azbesciak/RealDecisionMaker/lib/utils"
)

// decideJSON does exactly what decideHandler does after binding, in-process.
func decideJSON(body []byte) (status int, out []byte) {
	var dm model.DecisionMaker
	if err := json.Unmarshal(body, &dm); err != nil {
		b, _ := json.Marshal(map[string]interface{}{"error": err.Error()})
		return 400, b
	}
	var decision *model.DecisionMakerChoice
	msg := recoverErr(func() {
		decision = dm.MakeDecision(funcs, biasListeners, &biases, utils.RandomBasedSeedValueGenerator)
	})
	if msg != "" {
		b, _ := json.Marshal(map[string]interface{}{"error": msg})
		return 400, b
	}
	b, err := json.Marshal(decision)
	if err != nil {
		b, _ = json.Marshal(map[string]interface{}{"error": "marshal: " + err.Error()})
		return 500, b
	}
	return 200, b
}

// decideJSONTimeout: decideJSON with a watchdog (a handler that never returns keeps spinning in a leaked
// goroutine until the harness exits; the caller must treat timedOut as "no answer").
func decideJSONTimeout(body []byte, d time.Duration) (status int, out []byte, timedOut bool) {
	type res struct {
		st  int
		out []byte
	}
	ch := make(chan res, 1)
	go func() {
		st, out := decideJSON(body)
		ch <- res{st, out}
	}()
	select {
	case r := <-ch:
		return r.st, r.out, false
	case <-time.After(d):
		return -2, nil, true
	}
}

// serveStdio: one JSON request per line on stdin, "<status> <body>" per line on stdout.
func serveStdio() int {
	in := bufio.NewReaderSize(os.Stdin, 1<<24)
	w := bufio.NewWriter(os.Stdout)
	defer w.Flush()
	for {
		line, err := in.ReadBytes('\n')
		if len(line) > 1 {
			st, out := decideJSON(line)
			fmt.Fprintf(w, "%d %s\n", st, out)
			w.Flush()
		}
		if err != nil {
			return 0
		}
	}
}
