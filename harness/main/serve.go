//go:build verif

package main

import (
	"bufio"
	"bytes"
	"encoding/json"
	"fmt"
	"io"
	"log"
	"net/http"
	"net/http/httptest"
	"os"
	"reflect"
	"regexp"
	"strings"
	"sync"
	"time"

	"github.com/gin-gonic/gin"

	"github.com/Azbesciak/RealDecisionMaker/lib/model"
	"github.com/Azbesciak/RealDecisionMaker/lib/utils"
)

// ---------- handler glue ----------
// Every whole request an in-process check decides is ALSO given to the real `decideHandler` of main.go (gin test
// context, no network), and the handler's answer must be the library's answer for the same body: this ties the
// glue around MakeDecision (binding, recover, error mapping, any per-request bookkeeping the handler does) to
// every property that speaks about responses.  The first disagreement is reported once per run as oracle
// "handler-glue", with the bodies handled before it (the handler may keep something between requests).

type glueMismatch struct {
	Body      string   `json:"request_body"`
	Preceding []string `json:"preceding_request_bodies_oldest_first"`
	Handler   string   `json:"handler_answer"`
	Library   string   `json:"library_answer"`
}

var glue struct {
	sync.Mutex
	once     sync.Once
	compared int
	encoded  int
	respelt  int
	history  []string
	first    *glueMismatch
	off      bool
}

// handlerJSON: POST /api/decide through the real handler function, under a time limit (a handler that never
// returns must not block the harness: status -2)
func handlerJSON(body []byte) (status int, out []byte) {
	type res struct {
		st  int
		out []byte
	}
	ch := make(chan res, 1)
	go func() {
		st, out := handlerJSONDirect(body)
		ch <- res{st, out}
	}()
	select {
	case r := <-ch:
		return r.st, r.out
	case <-time.After(15 * time.Second):
		glue.off = true // the leaked goroutine may hold library locks: no further comparisons in this run
		return -2, []byte("the handler did not answer within 15 s")
	}
}

func handlerJSONDirect(body []byte) (status int, out []byte) {
	glue.once.Do(func() {
		gin.SetMode(gin.ReleaseMode)
		gin.DefaultWriter, gin.DefaultErrorWriter = io.Discard, io.Discard
		log.SetOutput(io.Discard)
	})
	w := httptest.NewRecorder()
	c, _ := gin.CreateTestContext(w)
	c.Request = httptest.NewRequest(http.MethodPost, "/api/decide", bytes.NewReader(body))
	c.Request.Header.Set("Content-Type", "application/json")
	if msg := recoverErr(func() { decideHandler(c) }); msg != "" {
		return -1, []byte("handler panicked: " + msg)
	}
	return w.Code, w.Body.Bytes()
}

func glueSame(hst int, hout []byte, lst int, lout []byte) bool {
	switch {
	case hst == 200 && lst == 200:
		var a, b bytes.Buffer
		if json.Compact(&a, hout) != nil || json.Compact(&b, lout) != nil {
			return false
		}
		return bytes.Equal(a.Bytes(), b.Bytes())
	case hst == 400 && lst == 400:
		return true
	case lst == 500: // the decision cannot be serialised (non-finite number): the handler's recover answers 400
		return hst == 400 && strings.Contains(string(hout), "unsupported value")
	}
	return false
}

func glueCheck(body []byte, lst int, lout []byte, choice *model.DecisionMakerChoice) {
	glue.Lock()
	defer glue.Unlock()
	if glue.off || glue.first != nil {
		return
	}
	hst, hout := handlerJSON(body)
	glue.compared++
	if !glueSame(hst, hout, lst, lout) {
		glue.first = &glueMismatch{Body: string(body), Preceding: append([]string{}, glue.history...),
			Handler: fmt.Sprintf("%d %s", hst, truncate(string(hout), 1500)), Library: fmt.Sprintf("%d %s", lst, truncate(string(lout), 1500))}
	} else if hst == 200 && choice != nil {
		// what the client sees: the raw JSON against the pinned encoding of the decision
		var got interface{}
		if err := json.Unmarshal(hout, &got); err != nil {
			glue.first = &glueMismatch{Body: string(body), Handler: "200 (not JSON: " + err.Error() + ")", Library: truncate(string(lout), 500)}
		} else if d := pinDiff(pinEncode(reflect.ValueOf(choice), nil), got, "response"); d != "" {
			glue.first = &glueMismatch{Body: string(body), Preceding: append([]string{}, glue.history...),
				Handler: "200 " + truncate(string(hout), 1500), Library: "client-visible JSON differs from the decision: " + d}
		}
		glue.encoded++
	}
	// the request the library works on is the request the client wrote (decoding may not drop or alter members)
	if glue.first == nil {
		if d := decodedFaithfully(body); d != "" {
			glue.first = &glueMismatch{Body: string(body), Handler: "(request decoding)", Library: "the decoded request differs from the JSON text: " + d}
		}
	}
	// the same number spelt differently (3 / 3.0 / 3e0) is the same request
	if glue.first == nil && glue.compared%7 == 0 {
		if alt := respellNumbers(body); alt != nil {
			ast, aout := handlerJSON(alt)
			if !glueSame(ast, aout, lst, lout) {
				glue.first = &glueMismatch{Body: string(alt), Preceding: []string{"(the same request with integers written as 3 instead of 3.0 is answered: " + fmt.Sprintf("%d %s", lst, truncate(string(lout), 300)) + ")"},
					Handler: fmt.Sprintf("%d %s", ast, truncate(string(aout), 1500)), Library: fmt.Sprintf("%d %s", lst, truncate(string(lout), 1500))}
			}
			glue.respelt++
		}
	}
	// a neighbour of the request: one alternative less to choose from (a handler that remembers answers must
	// not confuse the two)
	if glue.first == nil && glue.compared%9 == 0 {
		if nb := fewerChosen(body); nb != nil {
			nst, nout, _ := libraryDecide(nb)
			hst2, hout2 := handlerJSON(nb)
			if !glueSame(hst2, hout2, nst, nout) {
				glue.first = &glueMismatch{Body: string(nb), Preceding: []string{string(body)},
					Handler: fmt.Sprintf("%d %s", hst2, truncate(string(hout2), 1500)), Library: fmt.Sprintf("%d %s", nst, truncate(string(nout), 1500))}
			}
		}
	}
	glue.history = append(glue.history, string(body))
	if len(glue.history) > 3 {
		glue.history = glue.history[1:]
	}
}

// glueSweeps: checks whose stages call the library directly get a sweep of whole requests of their own methods /
// biases through the handler at the end of the run (the PRNG is used after every other case, so the cases of
// the property itself are unchanged)
var glueSweeps = map[string]struct{ methods, biases []string }{
	"C03": {[]string{"weightedSum", "owa", "choquetIntegral"}, []string{"criteriaOmission", "preferenceReversal", "fatigue"}},
	"C05": {[]string{"electreIII"}, nil},
	"C06": {[]string{"electreIII"}, nil},
	"C11": {[]string{"majorityHeuristic"}, nil},
	"C12": {[]string{"aspectEliminationHeuristic"}, nil},
	"C13": {[]string{"satisfactionHeuristic"}, nil},
	"C14": {[]string{"aspectEliminationHeuristic", "satisfactionHeuristic"}, nil},
	"C16": {nil, []string{"preferenceReversal", "fatigue"}},
	"C17": {nil, []string{"fatigue", "preferenceReversal"}},
	"C18": {[]string{"weightedSum", "electreIII", "majorityHeuristic", "aspectEliminationHeuristic", "satisfactionHeuristic"}, []string{"criteriaConcealment", "criteriaMixing", "criteriaOmission"}},
	"C19": {nil, []string{"anchoring", "fatigue"}},
}

func glueSweep(o *Out, r *Rng, methods, biases []string, n int) {
	for i := 0; i < n; i++ {
		q := genRequest(r, ReqOpts{Methods: methods, Biases: biases, MaxBiases: 2})
		decideJSON(q.JSON())
	}
	o.count("handler-glue:sweep=" + itoa(n))
	if len(biases) > 0 {
		ownBiasAfterDisabledEntry(o, r, methods, biases[0], n/4)
	}
}

// ownBiasAfterDisabledEntry: the property's own bias, alone in the list and with applyProbability omitted (it fires
// whatever the activation stream gives), must be applied and reported the same way when a DISABLED entry that omits
// nothing but is switched off stands before or after it: the two responses are compared byte for byte.  (A disabled
// entry is not looked at beyond its flag — Props.C08.disabled_entries_are_invisible; the entries of the property's
// own bias here omit the `disabled` key, which is how clients write enabled entries.)
func ownBiasAfterDisabledEntry(o *Out, r *Rng, methods []string, own string, n int) {
	done := 0
	for i := 0; i < n; i++ {
		q := genRequest(r, ReqOpts{Methods: methods, Biases: []string{own}, MaxBiases: 2, NoProb: true})
		bl, _ := q.Body["biases"].([]interface{})
		if len(bl) == 0 {
			continue
		}
		plain := q.JSON()
		pos := r.Intn(len(bl) + 1)
		if r.chance(0.6) {
			pos = 0
		}
		dis := J{"name": []string{"criteriaOmission", "fatigue", "preferenceReversal", "anchoring"}[r.Intn(4)], "disabled": true, "props": J{}}
		if r.chance(0.6) { // switched off AND with a probability of its own: neither may rub off on the next entry
			dis["applyProbability"] = []float64{0, 0.25}[r.Intn(2)]
		}
		with := append(append(append([]interface{}{}, bl[:pos]...), dis), bl[pos:]...)
		q.Body["biases"] = with
		varied := q.JSON()
		q.Body["biases"] = bl
		st1, out1 := libraryJSON(plain)
		st2, out2 := libraryJSON(varied)
		done++
		m := Meta{Case: i, Stage: "own-bias-after-disabled-entry", Key: string(plain), Input: J{"request": json.RawMessage(plain), "withDisabledEntry": json.RawMessage(varied)}}
		o.Oracle(m, st1 == st2 && (st1 != 200 || string(out1) == string(out2)),
			own+" is applied or reported differently when a disabled entry stands in the bias list (position "+itoa(pos)+"): "+truncate(string(out1), 120)+" vs "+truncate(string(out2), 120))
	}
	o.count("own-bias-after-disabled-entry=" + itoa(done))
}

// glueReport: emitted once at the end of a property run
func glueReport(o *Out) {
	glue.Lock()
	defer glue.Unlock()
	if glue.compared == 0 {
		return
	}
	o.count("handler-glue:compared=" + itoa(glue.compared))
	o.count("handler-glue:encoding-compared=" + itoa(glue.encoded))
	o.count("handler-glue:respelt=" + itoa(glue.respelt))
	m := Meta{Stage: "handler-glue", Key: "handler-glue", Input: J{"compared": glue.compared}}
	if glue.first != nil {
		m.Input = glue.first
	}
	o.Oracle(m, glue.first == nil, "the HTTP handler's answer differs from the library's answer for the same request body")
}

// decideJSON does exactly what decideHandler does after binding, in-process (and compares with the real handler).
func decideJSON(body []byte) (status int, out []byte) {
	var choice *model.DecisionMakerChoice
	status, out, choice = libraryDecide(body)
	glueCheck(body, status, out, choice)
	return
}

var respellRe = regexp.MustCompile(`"(randomSeed|newCriterionRandomSeed|queryNumber|min|max)":(-?[0-9]+)([,}])`)

// respellNumbers writes the integer-valued members 7 as 7.0 / 7e0 (nil when the body has none)
func respellNumbers(body []byte) []byte {
	if !respellRe.Match(body) {
		return nil
	}
	i := 0
	return respellRe.ReplaceAllFunc(body, func(m []byte) []byte {
		sub := respellRe.FindSubmatch(m)
		i++
		suffix := ".0"
		if i%2 == 0 {
			suffix = "e0"
		}
		return []byte(`"` + string(sub[1]) + `":` + string(sub[2]) + suffix + string(sub[3]))
	})
}

// fewerChosen drops the last entry of choseToMake (nil when fewer than two)
func fewerChosen(body []byte) []byte {
	var b map[string]interface{}
	if json.Unmarshal(body, &b) != nil {
		return nil
	}
	ch, ok := b["choseToMake"].([]interface{})
	if !ok || len(ch) < 2 {
		return nil
	}
	b["choseToMake"] = ch[:len(ch)-1]
	out, _ := json.Marshal(b)
	return out
}

func libraryJSON(body []byte) (status int, out []byte) {
	status, out, _ = libraryDecide(body)
	return
}

func libraryDecide(body []byte) (status int, out []byte, choice *model.DecisionMakerChoice) {
	var dm model.DecisionMaker
	if err := json.Unmarshal(body, &dm); err != nil {
		b, _ := json.Marshal(map[string]interface{}{"error": err.Error()})
		return 400, b, nil
	}
	var decision *model.DecisionMakerChoice
	msg := recoverErr(func() {
		decision = dm.MakeDecision(funcs, biasListeners, &biases, utils.RandomBasedSeedValueGenerator)
	})
	if msg != "" {
		b, _ := json.Marshal(map[string]interface{}{"error": msg})
		return 400, b, nil
	}
	b, err := json.Marshal(decision)
	if err != nil {
		b, _ = json.Marshal(map[string]interface{}{"error": "marshal: " + err.Error()})
		return 500, b, nil
	}
	return 200, b, decision
}

// decideJSONTimeout: decideJSON with a watchdog (a handler that never returns keeps spinning in a leaked
// goroutine until the harness exits; the caller must treat timedOut as "no answer").
func decideJSONTimeout(body []byte, d time.Duration) (status int, out []byte, timedOut bool) {
	type res struct {
		st  int
		out []byte
	}
	ch := make(chan res, 1)
	go func() {
		st, out := decideJSON(body)
		ch <- res{st, out}
	}()
	select {
	case r := <-ch:
		return r.st, r.out, false
	case <-time.After(d):
		return -2, nil, true
	}
}

// serveStdio: one JSON request per line on stdin, "<status> <body>" per line on stdout.
func serveStdio() int {
	glue.off = true
	in := bufio.NewReaderSize(os.Stdin, 1<<24)
	w := bufio.NewWriter(os.Stdout)
	defer w.Flush()
	for {
		line, err := in.ReadBytes('\n')
		if len(line) > 1 {
			st, out := decideJSON(line)
			fmt.Fprintf(w, "%d %s\n", st, out)
			w.Flush()
		}
		if err != nil {
			return 0
		}
	}
}

// ---------- concurrency sweep (race build) ----------
// `harness racesweep <prop> <seed> <n> <dir>`: whole requests of the property's own methods / biases, answered by the
// real handler one at a time and then by 8 goroutines at once (three rounds, each goroutine walking the list from
// another offset).  Every concurrent answer must be the sequential one; the binary is built with -race, so a data
// race on state shared between requests is reported by the runtime (bin/check turns the report into a violation).
func raceSweep(prop string, seed int64, n int, dir string) int {
	glue.off = true
	o := newOut(dir)
	o.dir = dir
	o.watchdog(300, seed)
	r := newRng(seed*7919 + 13)
	sw := glueSweeps[prop]
	var bodies [][]byte
	var reqs []J
	for i := 0; i < n; i++ {
		q := genRequest(r, ReqOpts{Methods: sw.methods, Biases: sw.biases, MaxBiases: 3, Prob: ProbOpts{MaxAlt: 10, MaxCrit: 6}})
		bodies = append(bodies, q.JSON())
		reqs = append(reqs, q.Body)
	}
	type ans struct {
		st  int
		out string
	}
	canon := func(st int, out []byte) ans {
		if st == 200 {
			return ans{st, string(out)}
		}
		return ans{st, ""} // rejected: the wording may list map keys in any order
	}
	seq := make([]ans, n)
	for i, b := range bodies {
		st, out := handlerJSONDirect(b)
		seq[i] = canon(st, out)
	}
	o.count("racesweep:requests=" + itoa(n))
	const k = 8
	firstBad := -1
	var bad ans
	var mu sync.Mutex
	for round := 0; round < 3 && firstBad < 0; round++ {
		var wg sync.WaitGroup
		for w := 0; w < k; w++ {
			wg.Add(1)
			go func(w int) {
				defer wg.Done()
				for j := 0; j < n; j++ {
					i := (j + w*n/k + round) % n
					st, out := handlerJSONDirect(bodies[i])
					if a := canon(st, out); a != seq[i] {
						mu.Lock()
						if firstBad < 0 {
							firstBad, bad = i, a
						}
						mu.Unlock()
						return
					}
				}
			}(w)
		}
		wg.Wait()
	}
	m := Meta{Stage: "concurrent-equals-sequential", Key: "racesweep", Input: J{"requests": n, "goroutines": k}}
	if firstBad >= 0 {
		m.Input = J{"request": reqs[firstBad], "goroutines": k}
		m.GoOut = J{"alone": truncate(fmt.Sprintf("%d %s", seq[firstBad].st, seq[firstBad].out), 1500), "next_to_other_requests": truncate(fmt.Sprintf("%d %s", bad.st, bad.out), 1500)}
	}
	o.Oracle(m, firstBad < 0, "a request answered next to other requests gets a different answer than alone")
	o.close(dir)
	return 0
}

// decodedFaithfully compares the DecisionMaker that encoding/json builds from a body with the body itself:
// criteria (id, type, declared valuesRange), known alternatives (id, values), choseToMake.  "" = same.
func decodedFaithfully(body []byte) string {
	var raw struct {
		Criteria []struct {
			Id          *string `json:"id"`
			Type        *string `json:"type"`
			ValuesRange *struct {
				Min *float64 `json:"min"`
				Max *float64 `json:"max"`
			} `json:"valuesRange"`
		} `json:"criteria"`
		KnownAlternatives []struct {
			Id       string             `json:"id"`
			Criteria map[string]float64 `json:"criteria"`
		} `json:"knownAlternatives"`
		ChoseToMake []string `json:"choseToMake"`
	}
	var dm model.DecisionMaker
	if json.Unmarshal(body, &raw) != nil || json.Unmarshal(body, &dm) != nil {
		return "" // not a well-typed request: nothing to compare
	}
	if len(raw.Criteria) != len(dm.Criteria) || len(raw.KnownAlternatives) != len(dm.KnownAlternatives) || len(raw.ChoseToMake) != len(dm.ChoseToMake) {
		return "number of criteria / alternatives / chosen ids"
	}
	for i, c := range raw.Criteria {
		d := dm.Criteria[i]
		if c.Id != nil && *c.Id != d.Id {
			return fmt.Sprintf("criteria[%d].id %q decoded as %q", i, *c.Id, d.Id)
		}
		if c.Type != nil && *c.Type != string(d.Type) {
			return fmt.Sprintf("criteria[%d].type %q decoded as %q", i, *c.Type, d.Type)
		}
		if c.ValuesRange != nil && c.ValuesRange.Min != nil && c.ValuesRange.Max != nil {
			if d.ValuesRange == nil || d.ValuesRange.Min != *c.ValuesRange.Min || d.ValuesRange.Max != *c.ValuesRange.Max {
				return fmt.Sprintf("criteria[%d] (%s): the declared valuesRange is lost or altered", i, d.Id)
			}
		}
	}
	for i, a := range raw.KnownAlternatives {
		d := dm.KnownAlternatives[i]
		if a.Id != d.Id || len(a.Criteria) != len(d.Criteria) {
			return fmt.Sprintf("knownAlternatives[%d]", i)
		}
		for k, v := range a.Criteria {
			if w, ok := d.Criteria[k]; !ok || w != v {
				return fmt.Sprintf("knownAlternatives[%d].criteria[%q]", i, k)
			}
		}
	}
	for i, id := range raw.ChoseToMake {
		if dm.ChoseToMake[i] != id {
			return fmt.Sprintf("choseToMake[%d]", i)
		}
	}
	return ""
}
