//go:build verif

package main

import (
	"bufio"
	"bytes"
	"encoding/json"
	"fmt"
	"io"
	"log"
	"net/http"
	"net/http/httptest"
	"os"
	"strings"
	"sync"
	"time"

	"github.com/gin-gonic/gin"

	"github.com/Azbesciak/RealDecisionMaker/lib/model"
	"github.com/Azbesciak/RealDecisionMaker/lib/utils"
)

// ---------- handler glue ----------
// Every whole request an in-process check decides is ALSO given to the real `decideHandler` of main.go (gin test
// context, no network), and the handler's answer must be the library's answer for the same body: this ties the
// glue around MakeDecision (binding, recover, error mapping, any per-request bookkeeping the handler does) to
// every property that speaks about responses.  The first disagreement is reported once per run as oracle
// "handler-glue", with the bodies handled before it (the handler may keep something between requests).

type glueMismatch struct {
	Body      string   `json:"request_body"`
	Preceding []string `json:"preceding_request_bodies_oldest_first"`
	Handler   string   `json:"handler_answer"`
	Library   string   `json:"library_answer"`
}

var glue struct {
	sync.Mutex
	once     sync.Once
	compared int
	history  []string
	first    *glueMismatch
	off      bool
}

// handlerJSON: POST /api/decide through the real handler function
func handlerJSON(body []byte) (status int, out []byte) {
	glue.once.Do(func() {
		gin.SetMode(gin.ReleaseMode)
		gin.DefaultWriter, gin.DefaultErrorWriter = io.Discard, io.Discard
		log.SetOutput(io.Discard)
	})
	w := httptest.NewRecorder()
	c, _ := gin.CreateTestContext(w)
	c.Request = httptest.NewRequest(http.MethodPost, "/api/decide", bytes.NewReader(body))
	c.Request.Header.Set("Content-Type", "application/json")
	if msg := recoverErr(func() { decideHandler(c) }); msg != "" {
		return -1, []byte("handler panicked: " + msg)
	}
	return w.Code, w.Body.Bytes()
}

func glueSame(hst int, hout []byte, lst int, lout []byte) bool {
	switch {
	case hst == 200 && lst == 200:
		var a, b bytes.Buffer
		if json.Compact(&a, hout) != nil || json.Compact(&b, lout) != nil {
			return false
		}
		return bytes.Equal(a.Bytes(), b.Bytes())
	case hst == 400 && lst == 400:
		return true
	case lst == 500: // the decision cannot be serialised (non-finite number): the handler's recover answers 400
		return hst == 400 && strings.Contains(string(hout), "unsupported value")
	}
	return false
}

func glueCheck(body []byte, lst int, lout []byte) {
	glue.Lock()
	defer glue.Unlock()
	if glue.off || glue.first != nil {
		return
	}
	hst, hout := handlerJSON(body)
	glue.compared++
	if !glueSame(hst, hout, lst, lout) {
		glue.first = &glueMismatch{Body: string(body), Preceding: append([]string{}, glue.history...),
			Handler: fmt.Sprintf("%d %s", hst, truncate(string(hout), 1500)), Library: fmt.Sprintf("%d %s", lst, truncate(string(lout), 1500))}
	}
	glue.history = append(glue.history, string(body))
	if len(glue.history) > 3 {
		glue.history = glue.history[1:]
	}
}

// glueSweeps: checks whose stages call the library directly get a sweep of whole requests of their own methods /
// biases through the handler at the end of the run (the PRNG is used after every other case, so the cases of
// the property itself are unchanged)
var glueSweeps = map[string]struct{ methods, biases []string }{
	"C03": {[]string{"weightedSum", "owa", "choquetIntegral"}, []string{"criteriaOmission", "preferenceReversal", "fatigue"}},
	"C05": {[]string{"electreIII"}, nil},
	"C06": {[]string{"electreIII"}, nil},
	"C11": {[]string{"majorityHeuristic"}, nil},
	"C12": {[]string{"aspectEliminationHeuristic"}, nil},
	"C13": {[]string{"satisfactionHeuristic"}, nil},
	"C14": {[]string{"aspectEliminationHeuristic", "satisfactionHeuristic"}, nil},
	"C16": {nil, []string{"preferenceReversal", "fatigue"}},
	"C17": {nil, []string{"fatigue", "preferenceReversal"}},
	"C18": {[]string{"weightedSum", "electreIII", "majorityHeuristic", "aspectEliminationHeuristic", "satisfactionHeuristic"}, []string{"criteriaConcealment", "criteriaMixing", "criteriaOmission"}},
	"C19": {nil, []string{"anchoring", "fatigue"}},
}

func glueSweep(o *Out, r *Rng, methods, biases []string, n int) {
	for i := 0; i < n; i++ {
		q := genRequest(r, ReqOpts{Methods: methods, Biases: biases, MaxBiases: 2})
		decideJSON(q.JSON())
	}
	o.count("handler-glue:sweep=" + itoa(n))
}

// glueReport: emitted once at the end of a property run
func glueReport(o *Out) {
	glue.Lock()
	defer glue.Unlock()
	if glue.compared == 0 {
		return
	}
	o.count("handler-glue:compared=" + itoa(glue.compared))
	m := Meta{Stage: "handler-glue", Key: "handler-glue", Input: J{"compared": glue.compared}}
	if glue.first != nil {
		m.Input = glue.first
	}
	o.Oracle(m, glue.first == nil, "the HTTP handler's answer differs from the library's answer for the same request body")
}

// decideJSON does exactly what decideHandler does after binding, in-process (and compares with the real handler).
func decideJSON(body []byte) (status int, out []byte) {
	status, out = libraryJSON(body)
	glueCheck(body, status, out)
	return
}

func libraryJSON(body []byte) (status int, out []byte) {
	var dm model.DecisionMaker
	if err := json.Unmarshal(body, &dm); err != nil {
		b, _ := json.Marshal(map[string]interface{}{"error": err.Error()})
		return 400, b
	}
	var decision *model.DecisionMakerChoice
	msg := recoverErr(func() {
		decision = dm.MakeDecision(funcs, biasListeners, &biases, utils.RandomBasedSeedValueGenerator)
	})
	if msg != "" {
		b, _ := json.Marshal(map[string]interface{}{"error": msg})
		return 400, b
	}
	b, err := json.Marshal(decision)
	if err != nil {
		b, _ = json.Marshal(map[string]interface{}{"error": "marshal: " + err.Error()})
		return 500, b
	}
	return 200, b
}

// decideJSONTimeout: decideJSON with a watchdog (a handler that never returns keeps spinning in a leaked
// goroutine until the harness exits; the caller must treat timedOut as "no answer").
func decideJSONTimeout(body []byte, d time.Duration) (status int, out []byte, timedOut bool) {
	type res struct {
		st  int
		out []byte
	}
	ch := make(chan res, 1)
	go func() {
		st, out := decideJSON(body)
		ch <- res{st, out}
	}()
	select {
	case r := <-ch:
		return r.st, r.out, false
	case <-time.After(d):
		return -2, nil, true
	}
}

// serveStdio: one JSON request per line on stdin, "<status> <body>" per line on stdout.
func serveStdio() int {
	glue.off = true
	in := bufio.NewReaderSize(os.Stdin, 1<<24)
	w := bufio.NewWriter(os.Stdout)
	defer w.Flush()
	for {
		line, err := in.ReadBytes('\n')
		if len(line) > 1 {
			st, out := decideJSON(line)
			fmt.Fprintf(w, "%d %s\n", st, out)
			w.Flush()
		}
		if err != nil {
			return 0
		}
	}
}
