//go:build verif

package main

// Encoders of the bias reports and of the decoded anchoring props in the line-protocol syntax of the
// Lean ops (moved here unchanged from c16.go … c19.go so that every property harness can use them).

import (
	"fmt"
	"sort"

	"github.com/Azbesciak/RealDecisionMaker/lib/logic/biases/anchoring"
	criteria_concealment "github.com/Azbesciak/RealDecisionMaker/lib/logic/biases/criteria-concealment"
	criteria_mixing "github.com/Azbesciak/RealDecisionMaker/lib/logic/biases/criteria-mixing"
	"github.com/Azbesciak/RealDecisionMaker/lib/logic/biases/fatigue"
	preference_reversal "github.com/Azbesciak/RealDecisionMaker/lib/logic/biases/preference-reversal"
	"github.com/Azbesciak/RealDecisionMaker/lib/model"
	criteria_bounding "github.com/Azbesciak/RealDecisionMaker/lib/model/criteria-bounding"
)

func d1ReversedSX(rep []preference_reversal.ReversedPreferenceCriterion) SX {
	out := make(sxList, len(rep))
	for i, e := range rep {
		out[i] = L(Str(e.Id), Str(string(e.Type)), L(Num(e.ValuesRange.Min), Num(e.ValuesRange.Max)), KMapF(e.AlternativesValues))
	}
	return out
}

func d1BoundingSX(b *criteria_bounding.CriteriaBounding) SX {
	return L(Num(b.AllowedValuesRangeScaling), Bool(b.DisallowNegativeValues))
}

func d1FatigueReportSX(f fatigue.FatigueResult) SX {
	return L(Num(f.EffectiveFatigueRatio), altsSX(f.ConsideredAlternatives), altsSX(f.NotConsideredAlternatives))
}

func concealReportSX(res *model.BiasedResult) SX {
	rep := res.Props.(criteria_concealment.CriteriaConcealmentResult)
	if len(rep.AddedCriteria) != 1 {
		panic(fmt.Sprintf("concealment reported %d added criteria", len(rep.AddedCriteria)))
	}
	a := rep.AddedCriteria[0]
	return L(Str(a.Id), Str(string(a.Type)), Num(a.ValuesRange.Min), Num(a.ValuesRange.Max), KMapF(a.AlternativesValues), additionSX(a.MethodParameters))
}

func compSX(c criteria_mixing.CriterionComponent) SX {
	return L(Str(c.Id), Str(string(c.Type)), KMapF(c.ScaledValues))
}

func mixReportSX(res *model.BiasedResult) SX {
	if res.Props == nil {
		return L(A("nil"))
	}
	m := res.Props.(criteria_mixing.MixedCriterion)
	return L(A("mixed"), compSX(m.Component1), compSX(m.Component2), compSX(m.NewCriterion), additionSX(m.Params))
}

func funDefSX(d interface{}) SX {
	m := asMap(d)
	fn, _ := m["function"].(string)
	return L(Str(fn), propsSX(m["params"]))
}

// ((id (none)|(some k))...) for []interface{} (JSON) and []map[string]interface{} (typed) forms
func anchoringAltsSX(v interface{}) (SX, bool, bool) {
	out := sxList{}
	positive := true
	one := func(m map[string]interface{}, missingIsOne bool) {
		id, _ := m["alternative"].(string)
		if _, ok := m["coefficient"]; ok {
			k := numField(m, "coefficient")
			positive = positive && k > 0
			out = append(out, L(Str(id), L(A("some"), Num(k))))
		} else {
			positive = positive && missingIsOne // a missing coefficient becomes 1 only in the typed form
			out = append(out, L(Str(id), L(A("none"))))
		}
	}
	switch l := v.(type) {
	case []interface{}:
		for _, e := range l {
			one(asMap(e), false)
		}
		return out, false, positive
	case []map[string]interface{}:
		for _, e := range l {
			one(e, true)
		}
		return out, true, positive
	}
	return out, false, positive
}

func anchoringPropsSX(p interface{}) (SX, bool) {
	m := asMap(p)
	alts, typed, positive := anchoringAltsSX(m["anchoringAlternatives"])
	rf, _ := asMap(m["referencePoints"])["function"].(string)
	return L(alts, Bool(typed), funDefSX(m["loss"]), funDefSX(m["gain"]), Str(rf), funDefSX(m["applier"])), positive
}

func scalingSX(s anchoring.CriteriaScaling) SX {
	keys := make([]string, 0, len(s))
	for k := range s {
		keys = append(keys, k)
	}
	sort.Strings(keys)
	out := make(sxList, len(keys))
	for i, k := range keys {
		out[i] = L(Str(k), L(Num(s[k].Scale), Num(s[k].ValuesRange.Min), Num(s[k].ValuesRange.Max)))
	}
	return out
}

func diffsSX(ds []anchoring.ReferencePointsDifference) SX {
	out := make(sxList, len(ds))
	for i, d := range ds {
		rs := make(sxList, len(d.ReferencePointsDifference))
		for j, rp := range d.ReferencePointsDifference {
			rs[j] = L(Str(rp.ReferencePoint), KMapF(rp.Coefficients))
		}
		out[i] = L(altSX(d.Alternative), rs)
	}
	return out
}

func applierResultSX(v interface{}) SX {
	switch a := v.(type) {
	case anchoring.InlineAnchoringApplierResult:
		return L(A("inline"), altsSX(a.AppliedDifferences))
	case anchoring.NewCriterionAnchoringApplierResult:
		added := make(sxList, len(a.AddedCriteria))
		for i, c := range a.AddedCriteria {
			added[i] = L(Str(c.Id), Str(string(c.Type)), Num(c.ValuesRange.Min), Num(c.ValuesRange.Max),
				additionSX(c.MethodParameters), KMapF(c.AlternativesValues))
		}
		return L(A("newCriterion"), critSX(a.ReferenceCriterion), added)
	}
	panic(fmt.Sprintf("unexpected applier result %T", v))
}

func anchReportSX(rep anchoring.AnchoringResult) SX {
	return L(altsSX(rep.ReferencePoints), scalingSX(rep.CriteriaScaling), diffsSX(rep.PerReferencePointsDifferences), applierResultSX(rep.ApplierResult))
}

func isExp(d interface{}) bool {
	fn, _ := asMap(d)["function"].(string)
	return fn == "expFromZero"
}
