//go:build verif && (c03 || allprops)

package main

import (
	"math"

	"github.com/Azbesciak/RealDecisionMaker/lib/logic/preference-func/choquet"
	"github.com/Azbesciak/RealDecisionMaker/lib/logic/preference-func/owa"
	weighted_sum "github.com/Azbesciak/RealDecisionMaker/lib/logic/preference-func/weighted-sum"
	"github.com/Azbesciak/RealDecisionMaker/lib/model"
	"github.com/Azbesciak/RealDecisionMaker/lib/utils"
)

// C03: utility methods report the value of their defining formula.
//  stage ws-value / owa-value / choquet-value : exported WeightedSum / OWA / ChoquetIntegral on
//        generated alternatives (corr bit-exact + Lean spec in exact rationals on Go's value)
//  stage utility-evaluate : whole requests WITH biases through the real registries; the DMP that
//        reaches Evaluate is captured by a wrapping PreferenceFunction; corr: model ranking of that
//        DMP == Go's result; spec: every reported value == formula on the captured (post-bias) state

func wsClass(wc model.WeightedCriteria, a model.AlternativeWithCriteria) string {
	for _, c := range wc {
		if c.Weight != 1 && a.Criteria[c.Id] != 0 {
			return "ws-weight-not-one"
		}
	}
	return ""
}

var c03Sibling *Req

func utilityParamsForSpec(method string, d *model.DecisionMakingParams) SX {
	p := paramsSX(d.MethodParameters).(sxList)
	return p[1] // (ws wc) / (owa wc) / (choquet weights crits) → second element
}

func init() {
	props["C03"] = func(o *Out, r *Rng, n int, thorough bool) {
		for c := 0; c < n; c++ {
			o.Cases++
			switch c % 4 {
			case 0, 1, 2:
				method := []string{"weightedSum", "owa", "choquetIntegral"}[c%4]
				po := ProbOpts{MaxAlt: 1, MaxCrit: 6}
				if method == "choquetIntegral" {
					po = ProbOpts{MaxAlt: 1, MaxCrit: 5, AllGain: true}
				}
				p := genProblem(r, po)
				a := p.Known[0]
				if method == "choquetIntegral" && r.chance(0.12) {
					// large magnitudes: differences well above the absolute tie tolerance 1e-5 but small relative to the values
					base := []float64{2000, 24000, 1e6}[r.Intn(3)]
					for _, id := range p.critIds() {
						if r.chance(0.7) {
							a.Criteria[id] = base + float64(r.Intn(5))*0.005
						} else {
							a.Criteria[id] = base/2 + float64(r.Intn(3))
						}
					}
					o.count("large-magnitude-near-ties")
				} else if method == "choquetIntegral" && r.chance(0.5) { // clusters of near-ties around 1e-5
					base := float64(r.Intn(4))
					for _, id := range p.critIds() {
						switch r.Intn(4) {
						case 0:
							a.Criteria[id] = base
						case 1:
							a.Criteria[id] = base + float64(r.Intn(3))*4e-6
						case 2:
							a.Criteria[id] = base + 1 + float64(r.Intn(3))*0.9e-5
						default:
							a.Criteria[id] = r.posValue()
						}
					}
				}
				in := map[string]interface{}{"method": method, "alternative": a, "criteria": p.Criteria}
				m := Meta{Case: c, Stage: method + "-value", Input: in, Trivial: len(p.Criteria) < 2}
				o.count("stage:" + method)
				o.count("ncrit=" + itoa(len(p.Criteria)))
				switch method {
				case "weightedSum", "owa":
					wj := weightsJSON(r, p.critIds(), false)
					wc := make(model.WeightedCriteria, len(p.Criteria))
					for i, cr := range p.Criteria {
						wc[i] = model.WeightedCriterion{Criterion: cr, Weight: wj[cr.Id].(float64)}
					}
					if r.chance(0.3) { // unit weights: the clean domain of the known weightedSum finding
						for i := range wc {
							wc[i].Weight = 1
						}
					}
					in["weights"] = wc
					var res *model.AlternativeResult
					var msg string
					if method == "weightedSum" {
						msg = recoverErr(func() { res = weighted_sum.WeightedSum(a, wc) })
						m.Class = wsClass(wc, a)
					} else {
						msg = recoverErr(func() { res = owa.OWA(a, wc) })
					}
					m.Key = method + sxString(altSX(a)) + sxString(wcritsSX(wc))
					op := map[string]string{"weightedSum": "ws-value", "owa": "owa-value"}[method]
					o.Corr(m, L(A(op), altSX(a), wcritsSX(wc)), okSX(resSX(msg, func() SX { return Num(res.Value()) })))
					if msg == "" {
						m.GoOut = res.Value()
						o.Spec(m, L(A("check-c03"), Str(method), altSX(a), wcritsSX(wc), Num(res.Value())))
					}
				case "choquetIntegral":
					raw := model.Weights{}
					for k, v := range choquetWeightsJSON(r, p.critIds()) {
						raw[k] = v.(float64)
					}
					bad := r.Intn(12)
					switch bad { // malformed capacity tables must be rejected by both sides
					case 0:
						for k := range raw {
							delete(raw, k)
							break
						}
					case 1:
						raw[p.critIds()[0]] = 1.25
					case 2:
						raw["nope"] = 0.5
					case 3:
						p.Criteria[0].Type = model.Cost
					}
					in["weights"] = raw
					var res *model.AlternativeResult
					msg := recoverErr(func() { res = choquet.ChoquetIntegral(a, p.Criteria, raw) })
					m.Key = method + sxString(altSX(a)) + sxString(KMapF(raw))
					o.Corr(m, L(A("choquet-value"), altSX(a), critsSX(p.Criteria), KMapF(raw)), okSX(resSX(msg, func() SX { return Num(res.Value()) })))
					if msg == "" {
						m.GoOut = res.Value()
						canon := model.Weights{}
						for k, v := range raw {
							canon[canonKeyGo(k)] = v
						}
						o.Spec(m, L(A("check-c03"), Str(method), altSX(a), KMapF(canon), Num(res.Value())))
					} else {
						o.count("choquet-rejected")
					}
				}
			default:
				// whole request with biases through the real pipeline, DMP captured at Evaluate
				q := genRequest(r, ReqOpts{Methods: []string{"weightedSum", "owa", "choquetIntegral"}, MaxBiases: 3,
					Biases: []string{"criteriaOmission", "preferenceReversal", "fatigue", "criteriaConcealment", "criteriaMixing", "anchoring"}})
				if c03Sibling != nil {
					q, c03Sibling = c03Sibling, nil // the twin of the previous Choquet request (same numbers, other coalitions)
				} else if q.Method == "choquetIntegral" && r.chance(0.4) {
					delete(q.Body, "biases")
					q.Biases = nil
					c03Sibling = choquetSibling(q)
				}
				dm := q.bind()
				cap, fs := capturing(q.Method)
				var choice *model.DecisionMakerChoice
				msg := recoverErr(func() { choice = dm.MakeDecision(fs, biasListeners, &biases, utils.RandomBasedSeedValueGenerator) })
				o.count("e2e:" + q.Method)
				if msg != "" || cap.got == nil {
					o.count("e2e-rejected")
					continue
				}
				m := Meta{Case: c, Stage: "utility-evaluate", Input: map[string]interface{}{"request": q.Body}, Key: string(q.JSON()),
					Trivial: len(q.Biases) == 0}
				m.GoOut = choice.Result
				// values only, keyed by id: order and links of the ranking belong to C04
				vals := map[string]float64{}
				for _, e := range choice.Result {
					vals[e.Alternative.Id] = e.Value()
				}
				o.Corr(m, L(A("utility-values"), dmpSX(cap.got)), okSX(L(A("ok"), KMapF(vals))))
				// every reported value = formula on the state that reached Evaluate (unrounded value recomputed by Go's exported function is not available; use the reported rounded one)
				for _, e := range choice.Result {
					var a *model.AlternativeWithCriteria
					for i := range cap.got.ConsideredAlternatives {
						if cap.got.ConsideredAlternatives[i].Id == e.Alternative.Id {
							a = &cap.got.ConsideredAlternatives[i]
						}
					}
					if a == nil || math.IsNaN(e.Value()) || math.IsInf(e.Value(), 0) {
						o.Oracle(m, false, "result entry "+e.Alternative.Id+" is not a considered alternative of the evaluated state or has a non-finite value")
						continue
					}
					ms := m
					ms.Stage = "utility-evaluate-value"
					if q.Method == "weightedSum" {
						wcs := rv(cap.got.MethodParameters).FieldByName("weightedCriteria")
						_ = wcs
						ms.Class = wsClassSX(cap.got, *a)
					}
					o.Spec(ms, L(A("check-c03"), Str(q.Method), altSX(*a), utilityParamsForSpec(q.Method, cap.got), Num(e.Value())))
					if _, hasBiases := q.Body["biases"]; q.Method == "choquetIntegral" && !hasBiases {
						// without biases the capacities in force are the REQUEST's: the formula with the numbers the client sent
						reqW := map[string]float64{}
						for k, v := range q.Body["methodParameters"].(J)["weights"].(J) {
							if f, ok := v.(float64); ok {
								reqW[canonKeyGo(k)] = f
							}
						}
						ms.Stage = "utility-evaluate-value-request-capacities"
						o.Spec(ms, L(A("check-c03"), Str(q.Method), altSX(*a), KMapF(reqW), Num(e.Value())))
					}
				}
			}
		}
	}
}

func wsClassSX(d *model.DecisionMakingParams, a model.AlternativeWithCriteria) string {
	x := deref(rv(d.MethodParameters).FieldByName("weightedCriteria"))
	for i := 0; i < x.Len(); i++ {
		e := x.Index(i)
		id := e.FieldByName("Criterion").FieldByName("Id").String()
		if e.FieldByName("Weight").Float() != 1 && a.Criteria[id] != 0 {
			return "ws-weight-not-one"
		}
	}
	return ""
}

func canonKeyGo(k string) string {
	parts := splitComma(k)
	for i := 1; i < len(parts); i++ {
		for j := i; j > 0 && parts[j] < parts[j-1]; j-- {
			parts[j], parts[j-1] = parts[j-1], parts[j]
		}
	}
	out := ""
	for i, p := range parts {
		if i > 0 {
			out += ","
		}
		out += p
	}
	return out
}

func splitComma(k string) []string {
	var parts []string
	cur := ""
	for _, c := range k {
		if c == ',' {
			parts = append(parts, cur)
			cur = ""
		} else {
			cur += string(c)
		}
	}
	return append(parts, cur)
}
