//go:build verif

// Harness core.  These files are compiled INTO package main of /repo/httpClient through
// `go build -overlay`, so they see the real registries (funcs, biasListeners, biases) of main.go
// without any change to /repo.  Entry: init() below takes over when RDM_VERIF is set.
package main

import (
	"bufio"
	"encoding/json"
	"fmt"
	"math"
	"math/rand"
	"os"
	"sort"
	"strconv"
	"strings"
	"sync/atomic"
	"time"
)

// ---------- S-expressions (line protocol shared with the Lean driver) ----------

type SX interface{ sx(b *strings.Builder) }
type sxAtom string
type sxList []SX

func (a sxAtom) sx(b *strings.Builder) { b.WriteString(string(a)) }
func (l sxList) sx(b *strings.Builder) {
	b.WriteByte('(')
	for i, e := range l {
		if i > 0 {
			b.WriteByte(' ')
		}
		e.sx(b)
	}
	b.WriteByte(')')
}
func sxString(e SX) string { var b strings.Builder; e.sx(&b); return b.String() }

func A(s string) SX   { return sxAtom(s) }
func L(e ...SX) SX    { return sxList(e) }
func Str(s string) SX { checkId(s); return sxAtom("s:" + s) }
func Int(i int64) SX  { return sxAtom(strconv.FormatInt(i, 10)) }
func Bool(b bool) SX {
	if b {
		return sxAtom("true")
	}
	return sxAtom("false")
}
func Num(f float64) SX { return sxAtom(fmt.Sprintf("x%016x", math.Float64bits(f))) }
func Strs(l []string) SX {
	r := make(sxList, len(l))
	for i, s := range l {
		r[i] = Str(s)
	}
	return r
}
func Nums(l []float64) SX {
	r := make(sxList, len(l))
	for i, s := range l {
		r[i] = Num(s)
	}
	return r
}
func Ints(l []int) SX {
	r := make(sxList, len(l))
	for i, s := range l {
		r[i] = Int(int64(s))
	}
	return r
}

// KMapF prints a Go map sorted by key: ((s:k x..) ...)
func KMapF(m map[string]float64) SX {
	keys := make([]string, 0, len(m))
	for k := range m {
		keys = append(keys, k)
	}
	sort.Strings(keys)
	r := make(sxList, len(keys))
	for i, k := range keys {
		r[i] = L(Str(k), Num(m[k]))
	}
	return r
}

func checkId(s string) {
	for _, c := range s {
		if c == ' ' || c == '(' || c == ')' || c == '\n' || c == '\t' || c == '\r' {
			panic("harness: id not representable in line protocol: " + strconv.Quote(s))
		}
	}
}

// ---------- case output ----------

// Every emitted line of cases.sx has one expected answer line in expect.txt and one JSON record in
// meta.jsonl.  kind: "corr" (model op on the inputs the code got; expected = what the code returned),
// "spec" (Lean checker on the code's output; expected "ok ok"), "oracle" (decided on the Go side;
// no driver line, ok=false means the property failed on the real code).
type Meta struct {
	Line    int         `json:"line"` // 1-based line in cases.sx, 0 for oracle records
	Kind    string      `json:"kind"`
	Stage   string      `json:"stage"`
	Case    int         `json:"case"`
	Ok      bool        `json:"ok"`
	Clause  string      `json:"clause,omitempty"`
	Class   string      `json:"class,omitempty"` // structural signature used by known-findings matchers
	Tags    []string    `json:"tags,omitempty"`
	Input   interface{} `json:"input,omitempty"`
	GoOut   interface{} `json:"go_output,omitempty"`
	Trivial bool        `json:"trivial,omitempty"`
	Key     string      `json:"key,omitempty"` // distinctness key
}

type Out struct {
	cases, expect, meta *bufio.Writer
	files               []*os.File
	line                int
	Cases               int
	Hist                map[string]int
	beat                int64 // unix seconds of the last record / count (watchdog)
	lastStage, lastKey  string
	lastCase            int
	dir                 string
}

func newOut(dir string) *Out {
	o := &Out{Hist: map[string]int{}}
	for _, n := range []string{"cases.sx", "expect.txt", "meta.jsonl"} {
		f, err := os.Create(dir + "/" + n)
		if err != nil {
			panic(err)
		}
		o.files = append(o.files, f)
	}
	o.cases = bufio.NewWriterSize(o.files[0], 1<<20)
	o.expect = bufio.NewWriterSize(o.files[1], 1<<20)
	o.meta = bufio.NewWriterSize(o.files[2], 1<<20)
	return o
}

func (o *Out) close(dir string) {
	o.cases.Flush()
	o.expect.Flush()
	o.meta.Flush()
	for _, f := range o.files {
		f.Close()
	}
	h, _ := json.MarshalIndent(map[string]interface{}{"cases": o.Cases, "hist": o.Hist}, "", " ")
	os.WriteFile(dir+"/summary.json", h, 0644)
}

func (o *Out) count(key string) {
	o.Hist[key]++
	atomic.StoreInt64(&o.beat, time.Now().Unix())
}

// watchdog: the code under test is called in-process; when it stops returning (an endless loop in a level
// series, a name search, a distillation) nothing else would ever be recorded.  After `limit` seconds without
// a record the run is closed with a failed oracle naming the last completed record (the stuck case is the next
// one the same seed generates) and the process exits.
func (o *Out) watchdog(limit int64, seed int64) {
	atomic.StoreInt64(&o.beat, time.Now().Unix())
	start := time.Now().Unix()
	go func() {
		for {
			time.Sleep(5 * time.Second)
			idle := time.Now().Unix() - atomic.LoadInt64(&o.beat)
			// the whole run has a budget too (a normal quick run takes seconds, a thorough one minutes): requests that
			// each run into a client time-out keep producing records and would otherwise go on for hours
			if total := time.Now().Unix() - start; total > 8*limit {
				idle = total
			}
			if idle > limit {
				m := Meta{Stage: "watchdog", Kind: "oracle", Ok: false, Case: o.lastCase, Key: "watchdog",
					Clause: fmt.Sprintf("no record for %d s: the code under test did not return from the case after the last completed record", idle),
					Input:  map[string]interface{}{"seed": seed, "last_completed_stage": o.lastStage, "last_completed_case": o.lastCase, "last_completed_key": truncate(o.lastKey, 4000)}}
				b, _ := json.Marshal(m)
				o.meta.Write(b)
				o.meta.WriteByte('\n')
				o.close(o.dir)
				os.Exit(0)
			}
		}
	}()
}

func (o *Out) writeMeta(m Meta) {
	atomic.StoreInt64(&o.beat, time.Now().Unix())
	o.lastStage, o.lastKey, o.lastCase = m.Stage, m.Key, m.Case
	b, err := json.Marshal(m)
	if err != nil {
		m.Input, m.GoOut = fmt.Sprint(m.Input), fmt.Sprint(m.GoOut)
		b, _ = json.Marshal(m)
	}
	o.meta.Write(b)
	o.meta.WriteByte('\n')
}

// Corr emits a correspondence line: the model must answer `expected` on `op`.
func (o *Out) Corr(m Meta, op SX, expected string) {
	// ±Inf / NaN (overflow) are outside every theorem and make tolerance-based stage comparisons meaningless
	opLine := sxString(op)
	if (hasNonFinite(opLine) || hasNonFinite(expected)) && strings.Contains(opLine, "expFromZero") {
		o.count("corr-skipped:non-finite-number-from-exp")
		return
	}
	o.line++
	m.Line, m.Kind, m.Ok = o.line, "corr", true
	o.cases.WriteString(opLine)
	o.cases.WriteByte('\n')
	o.expect.WriteString(expected)
	o.expect.WriteByte('\n')
	o.writeMeta(m)
}

// Spec emits a checker line evaluated by the Lean driver on the code's output; expected "ok ok".
func (o *Out) Spec(m Meta, op SX) {
	// exact-rational checkers are meaningless on ±Inf / NaN (overflow of an exponential on a tiny range, …):
	// such cases are outside every theorem; they stay in the bit-exact correspondence lines
	if l := sxString(op); hasNonFinite(l) && strings.Contains(l, "expFromZero") {
		// the only legitimate source of ±Inf/NaN is the overflow of an exponential gain/loss function; a
		// non-finite number anywhere else is left in and fails the checker
		o.count("spec-skipped:non-finite-number-from-exp")
		return
	}
	o.line++
	m.Line, m.Kind, m.Ok = o.line, "spec", true
	o.cases.WriteString(sxString(op))
	o.cases.WriteByte('\n')
	o.expect.WriteString("ok ok\n")
	o.writeMeta(m)
}

// Oracle records a Go-side verdict on the real code.
func (o *Out) Oracle(m Meta, ok bool, clause string) {
	m.Kind, m.Ok, m.Clause = "oracle", ok, clause
	if ok {
		m.Input, m.GoOut = nil, nil // keep the file small; failures carry the full case
	}
	o.writeMeta(m)
}

func okSX(e SX) string { return "ok " + sxString(e) }

// ---------- PRNG and value pools ----------

type Rng struct{ *rand.Rand }

func newRng(seed int64) *Rng           { return &Rng{rand.New(rand.NewSource(seed))} }
func (r *Rng) pick(n int) int          { return r.Intn(n) }
func (r *Rng) chance(p float64) bool   { return r.Float64() < p }
func (r *Rng) rangeInt(lo, hi int) int { return lo + r.Intn(hi-lo+1) }

// tie-heavy values: small integers, quarters, near-ties around the 1e-8 rounding and the 1e-6 /
// 1e-5 tolerances, plus some full-range doubles.
func (r *Rng) value() float64 {
	switch k := r.Intn(100); {
	case k < 35:
		return float64(r.Intn(11))
	case k < 55:
		return float64(r.Intn(41)) / 4
	case k < 65:
		return float64(r.Intn(5)) + float64(r.Intn(7)-3)*[]float64{3e-9, 2e-10}[r.Intn(2)]
	case k < 72:
		return float64(r.Intn(5)) + float64(r.Intn(5)-2)*0.9e-6
	case k < 79:
		return float64(r.Intn(5)) + float64(r.Intn(5)-2)*0.9e-5
	case k < 86:
		return -float64(r.Intn(41)) / 4
	default:
		return (r.Float64()*2 - 1) * math.Pow(10, float64(r.Intn(7)-2))
	}
}

func (r *Rng) posValue() float64 {
	v := math.Abs(r.value())
	if v == 0 {
		return 1
	}
	return v
}

func ids(prefix string, n int) []string {
	l := make([]string, n)
	for i := range l {
		l[i] = prefix + strconv.Itoa(i)
	}
	return l
}

func (r *Rng) shuffled(l []string) []string {
	c := append([]string{}, l...)
	r.Shuffle(len(c), func(i, j int) { c[i], c[j] = c[j], c[i] })
	return c
}

// recoverErr runs f and maps a panic to an error string ("" = no panic).
func recoverErr(f func()) (msg string) {
	defer func() {
		if e := recover(); e != nil {
			msg = fmt.Sprint(e)
			if msg == "" {
				msg = "panic"
			}
		}
	}()
	f()
	return ""
}

// ---------- entry ----------

type propFn func(o *Out, r *Rng, n int, thorough bool)

var props = map[string]propFn{}

// usage: <binary> gen <prop> <tier> <seed> <n> <workdir>   |   <binary> serve (stdio request loop)
func verifMain(args []string) int {
	if len(args) >= 1 && args[0] == "serve" {
		return serveStdio()
	}
	if len(args) == 5 && args[0] == "racesweep" {
		seed, _ := strconv.ParseInt(args[2], 10, 64)
		n, _ := strconv.Atoi(args[3])
		return raceSweep(args[1], seed, n, args[4])
	}
	if len(args) == 2 && args[0] == "dumptags" {
		n, _ := strconv.Atoi(args[1])
		return dumpTags(n)
	}
	if len(args) != 6 || args[0] != "gen" {
		fmt.Fprintln(os.Stderr, "usage: gen <prop> <quick|thorough> <seed> <n> <workdir>")
		return 2
	}
	f, ok := props[args[1]]
	if !ok {
		fmt.Fprintln(os.Stderr, "unknown property", args[1])
		return 2
	}
	seed, _ := strconv.ParseInt(args[3], 10, 64)
	n, _ := strconv.Atoi(args[4])
	dir := args[5]
	o := newOut(dir)
	o.dir = dir
	limit := int64(180)
	if args[2] == "thorough" {
		limit = 600
	}
	o.watchdog(limit, seed)
	rng := newRng(seed)
	f(o, rng, n, args[2] == "thorough")
	if sw, ok := glueSweeps[args[1]]; ok {
		glueSweep(o, rng, sw.methods, sw.biases, 200)
	}
	glueReport(o)
	o.close(dir)
	return 0
}

func (l sxList) String() string { return sxString(l) }

// hasNonFinite: some float atom x<16 hex> has an all-ones exponent (±Inf or NaN)
func hasNonFinite(line string) bool {
	for i := 0; i+17 <= len(line); i++ {
		if line[i] == 'x' && (i == 0 || line[i-1] == ' ' || line[i-1] == '(') {
			h := line[i+1 : i+4]
			if (h == "7ff" || h == "fff") && isHex16(line[i+1:i+17]) {
				return true
			}
		}
	}
	return false
}

func isHex16(s string) bool {
	for _, c := range s {
		if !(c >= '0' && c <= '9' || c >= 'a' && c <= 'f') {
			return false
		}
	}
	return true
}
