//go:build verif

package main

import (
	"bufio"
	"bytes"
	"fmt"
	"os"
	"os/exec"
)

// a fresh process of this binary answering one JSON request per line (`serve` mode)

type stdioServer struct {
	cmd *exec.Cmd
	in  *bufio.Writer
	out *bufio.Reader
}

func startStdio() (*stdioServer, error) {
	bin := os.Getenv("RDM_HARNESS_BIN")
	if bin == "" {
		bin = os.Args[0]
	}
	cmd := exec.Command(bin, "serve")
	cmd.Env = append(os.Environ(), "RDM_VERIF=1")
	stdin, err := cmd.StdinPipe()
	if err != nil {
		return nil, err
	}
	stdout, err := cmd.StdoutPipe()
	if err != nil {
		return nil, err
	}
	if err := cmd.Start(); err != nil {
		return nil, err
	}
	return &stdioServer{cmd, bufio.NewWriter(stdin), bufio.NewReaderSize(stdout, 1<<24)}, nil
}

func (s *stdioServer) ask(body []byte) (int, []byte, error) {
	s.in.Write(bytes.ReplaceAll(body, []byte("\n"), []byte(" ")))
	s.in.WriteByte('\n')
	if err := s.in.Flush(); err != nil {
		return 0, nil, err
	}
	line, err := s.out.ReadBytes('\n')
	if err != nil {
		return 0, nil, err
	}
	sp := bytes.IndexByte(line, ' ')
	var st int
	fmt.Sscanf(string(line[:sp]), "%d", &st)
	return st, bytes.TrimRight(line[sp+1:], "\n"), nil
}

func (s *stdioServer) stop() {
	s.cmd.Process.Kill()
	s.cmd.Wait()
}
