//go:build verif

package main

import (
	"fmt"
	"reflect"
	"sort"
)

// paramsSX renders a method's parsed MethodParameters (unexported struct types of the seven
// method packages) or an OnCriterionAdded result, by reflection, in the model's MParams /
// Addition syntax (see lean/Rdm/Ops/Codec.lean: decMParams / decAddition).

func rv(v interface{}) reflect.Value {
	x := reflect.ValueOf(v)
	for x.IsValid() && (x.Kind() == reflect.Ptr || x.Kind() == reflect.Interface) {
		if x.IsNil() {
			return reflect.Value{}
		}
		x = x.Elem()
	}
	return x
}

func deref(x reflect.Value) reflect.Value {
	for x.IsValid() && (x.Kind() == reflect.Ptr || x.Kind() == reflect.Interface) {
		if x.IsNil() {
			return reflect.Value{}
		}
		x = x.Elem()
	}
	return x
}

func rvRange(x reflect.Value) SX { // *utils.ValueRange
	x = deref(x)
	return L(Num(x.FieldByName("Min").Float()), Num(x.FieldByName("Max").Float()))
}

func rvCrit(x reflect.Value) SX { // model.Criterion
	x = deref(x)
	id, typ := x.FieldByName("Id").String(), x.FieldByName("Type").String()
	r := x.FieldByName("ValuesRange")
	if r.IsNil() {
		return L(Str(id), Str(typ))
	}
	r = deref(r)
	return L(Str(id), Str(typ), Num(r.FieldByName("Min").Float()), Num(r.FieldByName("Max").Float()))
}

func rvCrits(x reflect.Value) SX { // model.Criteria or *model.Criteria
	x = deref(x)
	if !x.IsValid() {
		return L()
	}
	out := make(sxList, x.Len())
	for i := 0; i < x.Len(); i++ {
		out[i] = rvCrit(x.Index(i))
	}
	return out
}

func rvWCrits(x reflect.Value) SX { // model.WeightedCriteria or pointer
	x = deref(x)
	if !x.IsValid() {
		return L()
	}
	out := make(sxList, x.Len())
	for i := 0; i < x.Len(); i++ {
		e := x.Index(i)
		out[i] = L(rvCrit(e.FieldByName("Criterion")), Num(e.FieldByName("Weight").Float()))
	}
	return out
}

func rvWeights(x reflect.Value) SX { // model.Weights (map[string]float64) or pointer
	x = deref(x)
	if !x.IsValid() {
		return L()
	}
	keys := x.MapKeys()
	sort.Slice(keys, func(i, j int) bool { return keys[i].String() < keys[j].String() })
	out := make(sxList, len(keys))
	for i, k := range keys {
		out[i] = L(Str(k.String()), Num(x.MapIndex(k).Float()))
	}
	return out
}

func rvLin(x reflect.Value) SX { // utils.LinearFunctionParameters or pointer
	x = deref(x)
	if !x.IsValid() {
		return L(Num(0), Num(0))
	}
	return L(Num(x.FieldByName("A").Float()), Num(x.FieldByName("B").Float()))
}

func rvElectreCriteria(x reflect.Value) SX {
	x = deref(x)
	if !x.IsValid() {
		return L()
	}
	keys := x.MapKeys()
	sort.Slice(keys, func(i, j int) bool { return keys[i].String() < keys[j].String() })
	out := make(sxList, len(keys))
	for i, k := range keys {
		e := x.MapIndex(k)
		out[i] = L(Str(k.String()), L(Num(e.FieldByName("K").Float()), rvLin(e.FieldByName("Q")), rvLin(e.FieldByName("P")), rvLin(e.FieldByName("V"))))
	}
	return out
}

func numField(m map[string]interface{}, k string) float64 {
	switch v := m[k].(type) {
	case float64:
		return v
	case int:
		return float64(v)
	case int64:
		return float64(v)
	}
	return 0
}

// levelsSX renders the `params` of the two threshold heuristics: raw JSON map before any bias,
// *ThresholdSatisfactionLevels / *IdealCoefficientSatisfactionLevels afterwards.
func levelsSX(fn string, p interface{}) SX {
	if m, ok := p.(map[string]interface{}); ok {
		if fn == "thresholds" {
			out := sxList{}
			if l, ok := m["thresholds"].([]interface{}); ok {
				for _, e := range l {
					w := map[string]float64{}
					if em, ok := e.(map[string]interface{}); ok {
						for k := range em {
							w[k] = numField(em, k)
						}
					}
					out = append(out, KMapF(w))
				}
			}
			return L(A("thresholds"), out)
		}
		return L(A("coef"), Num(numField(m, "coefficient")), Num(numField(m, "maxValue")), Num(numField(m, "minValue")))
	}
	x := rv(p)
	if !x.IsValid() {
		if fn == "thresholds" {
			return L(A("thresholds"), L())
		}
		return L(A("coef"), Num(0), Num(0), Num(0))
	}
	switch x.Type().Name() {
	case "ThresholdSatisfactionLevels":
		ts := x.FieldByName("Thresholds")
		out := make(sxList, ts.Len())
		for i := 0; i < ts.Len(); i++ {
			out[i] = rvWeights(ts.Index(i))
		}
		return L(A("thresholds"), out)
	case "IdealCoefficientSatisfactionLevels":
		return L(A("coef"), Num(x.FieldByName("Coefficient").Float()), Num(x.FieldByName("MaxValue").Float()), Num(x.FieldByName("MinValue").Float()))
	}
	panic("levelsSX: unexpected params type " + x.Type().String())
}

func lvAddSX(p interface{}) SX {
	x := rv(p)
	if !x.IsValid() {
		return L(A("none"))
	}
	if x.Type().Name() == "ThresholdsUpdate" {
		ts := x.FieldByName("Thresholds")
		out := make(sxList, ts.Len())
		for i := 0; i < ts.Len(); i++ {
			out[i] = rvWeights(ts.Index(i))
		}
		return L(A("thresholds"), out)
	}
	panic("lvAddSX: unexpected type " + x.Type().String())
}

func ifaceOf(x reflect.Value) interface{} {
	if !x.IsValid() || (x.Kind() == reflect.Interface && x.IsNil()) {
		return nil
	}
	return x.Interface()
}

// paramsSX: MethodParameters of a DecisionMakingParams
func paramsSX(p interface{}) SX {
	x := rv(p)
	if !x.IsValid() {
		return L(A("nil"))
	}
	switch x.Type().String() {
	case "weighted_sum.weightedSumParams":
		return L(A("ws"), rvWCrits(x.FieldByName("weightedCriteria")))
	case "owa.owaParams":
		return L(A("owa"), rvWCrits(x.FieldByName("Weights")))
	case "choquet.choquetParams":
		return L(A("choquet"), rvWeights(x.FieldByName("weights")), rvCrits(x.FieldByName("criteria")))
	case "electreIII.electreIIIParams":
		return L(A("electre"), rvElectreCriteria(x.FieldByName("Criteria")), rvLin(x.FieldByName("DistillationFun")))
	case "majority.MajorityHeuristicParams":
		return L(A("majority"), rvWeights(x.FieldByName("Weights")), Str(x.FieldByName("CurrentChoice").String()),
			Int(x.FieldByName("RandomSeed").Int()), Bool(x.FieldByName("RandomAlternativesOrdering").Bool()), Str(x.FieldByName("DrawResolution").String()))
	case "aspect_elimination.AspectEliminationHeuristicParams":
		fn := x.FieldByName("Function").String()
		return L(A("aspect"), Str(fn), levelsSX(fn, ifaceOf(x.FieldByName("Params"))), Int(x.FieldByName("RandomSeed").Int()),
			rvWeights(x.FieldByName("Weights")), Bool(x.FieldByName("RandomAlternativesOrdering").Bool()))
	case "satisfaction.SatisfactionParameters":
		fn := x.FieldByName("Function").String()
		return L(A("satisf"), Str(fn), levelsSX(fn, ifaceOf(x.FieldByName("Params"))), Int(x.FieldByName("RandomSeed").Int()),
			Str(x.FieldByName("CurrentChoice").String()), Bool(x.FieldByName("RandomAlternativesOrdering").Bool()))
	}
	panic(fmt.Sprintf("paramsSX: unexpected method parameters type %s", x.Type()))
}

// additionSX: result of BiasListener.OnCriterionAdded
func additionSX(p interface{}) SX {
	x := rv(p)
	if !x.IsValid() {
		return L(A("nil"))
	}
	switch x.Type().String() {
	case "weighted_sum.WeightedSumAddedCriterion":
		return L(A("ws"), rvWCrits(x.FieldByName("weights")))
	case "model.WeightType":
		return L(A("weightType"), rvWeights(x.FieldByName("Weights")))
	case "choquet.choquetParams":
		return L(A("choquet"), rvWeights(x.FieldByName("weights")), rvCrits(x.FieldByName("criteria")))
	case "electreIII.electreIIIParams":
		return L(A("electre"), rvElectreCriteria(x.FieldByName("Criteria")))
	case "aspect_elimination.aspectEliminationAddedCriterion":
		return L(A("aspect"), rvWeights(x.FieldByName("Weights")), lvAddSX(ifaceOf(x.FieldByName("Params"))))
	case "satisfaction.satisfactionAddedCriterion":
		return L(A("satisf"), lvAddSX(ifaceOf(x.FieldByName("Params"))))
	}
	panic(fmt.Sprintf("additionSX: unexpected addition type %s", x.Type()))
}
