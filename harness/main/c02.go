//go:build verif && (c02 || allprops)

package main

import (
	"strings"
)

// C02: the request (with its seeds) determines the response.  On the real code:
//   same-process   : the same request 5 times → byte-identical (accepted) / rejected again
//   fresh-process  : 3 fresh processes (Go re-randomises map iteration per process and per range
//                    statement) answer every request with the same bytes
//   after-history  : the same bytes after a random history of other requests
// The Lean side (Props/C02.lean) carries map-order independence of the model functions that range
// over Go maps, the site list regenerated from the source, and "no clock / global rand / goroutines".

func init() {
	props["C02"] = func(o *Out, r *Rng, n int, thorough bool) {
		var reqs []*Req
		for i := 0; i < n; i++ {
			q := genRequest(r, ReqOpts{MaxBiases: 4, Prob: ProbOpts{MaxCrit: 6}})
			if r.chance(0.05) {
				q.Body["preferenceFunction"] = "noSuchMethod"
			}
			if r.chance(0.05) {
				q.Body["biases"] = []interface{}{J{"name": "noSuchBias", "props": J{}}}
			}
			c02Invalidate(r, q)
			if r.chance(0.06) {
				// the Choquet integral collects an alternative's values by ranging over a map and sorts them: values
				// that are unequal but closer than the tie tolerance (1e-5) must still come out in one order
				q = genRequest(r, ReqOpts{Methods: []string{"choquetIntegral"}, Prob: ProbOpts{MinCrit: 3, MaxCrit: 4}})
				for _, a := range q.Body["knownAlternatives"].([]interface{}) {
					vals := a.(J)["criteria"].(J)
					base := float64(r.Intn(5))
					for i, k := range r.shuffled(sortedJKeys(vals)) {
						vals[k] = base + float64(i)*3e-6
					}
				}
				for _, cj := range q.Body["criteria"].([]interface{}) {
					delete(cj.(J), "valuesRange")
				}
				o.count("choquet-near-ties")
			}
			reqs = append(reqs, q)
			if sib := choquetSibling(q); sib != nil && r.chance(0.5) && len(reqs) < n {
				reqs = append(reqs, sib)
				i++
				o.count("choquet-sibling")
			}
		}
		verdict := func(st int, b []byte) string {
			if st == 200 {
				return string(b)
			}
			return "rejected"
		}
		first := make([]string, n)
		for i, q := range reqs {
			o.Cases++
			body := q.JSON()
			st, out := decideJSON(body)
			first[i] = verdict(st, out)
			o.count("method:" + q.Method)
			if st != 200 {
				o.count("rejected")
			}
			m := Meta{Case: i, Stage: "same-process", Input: J{"request": q.Body}, Key: string(body), Trivial: len(q.Biases) == 0 && !strings.Contains(q.Method, "Heuristic")}
			ok := true
			for k := 0; k < 4; k++ {
				st2, out2 := decideJSON(body)
				if verdict(st2, out2) != first[i] {
					ok = false
				}
			}
			o.Oracle(m, ok, "repeating the request in the same process changed the response")
		}
		// after a history: replay everything in another order, then each request again
		for _, i := range r.Perm(n) {
			st, out := decideJSON(reqs[i].JSON())
			m := Meta{Case: i, Stage: "after-history", Input: J{"request": reqs[i].Body}, Key: "h" + string(reqs[i].JSON())}
			o.Oracle(m, verdict(st, out) == first[i], "the response changed after other requests had been processed")
		}
		// fresh processes
		procs := 3
		for p := 0; p < procs; p++ {
			s, err := startStdio()
			if err != nil {
				o.Oracle(Meta{Stage: "fresh-process-start"}, false, "cannot start a fresh process: "+err.Error())
				return
			}
			order := r.Perm(n)
			for _, i := range order {
				st, out, err := s.ask(reqs[i].JSON())
				m := Meta{Case: i, Stage: "fresh-process", Input: J{"request": reqs[i].Body, "process": p}, Key: "p" + itoa(p) + string(reqs[i].JSON())}
				if err != nil {
					o.Oracle(m, false, "fresh process died: "+err.Error())
					break
				}
				o.Oracle(m, verdict(st, out) == first[i], "a fresh process answered the same request differently")
			}
			s.stop()
		}
		// alone: a process that has handled nothing else (every other comparison above is against an answer given
		// after some history; a response that depends on earlier requests from the very first repetition on shows here)
		solo := 80
		if thorough {
			solo = 400
		}
		for _, i := range r.Perm(n) {
			if solo == 0 {
				break
			}
			solo--
			s, err := startStdio()
			if err != nil {
				break
			}
			st, out, err := s.ask(reqs[i].JSON())
			s.stop()
			if err != nil {
				continue
			}
			m := Meta{Case: i, Stage: "solo-process", Input: J{"request": reqs[i].Body}, Key: "solo" + string(reqs[i].JSON())}
			same := verdict(st, out) == first[i]
			if !same {
				var prev []string
				for j := i - 1; j >= 0 && len(prev) < 8; j-- {
					prev = append([]string{string(reqs[j].JSON())}, prev...)
				}
				m.Input = J{"request": reqs[i].Body, "preceding_request_bodies_oldest_first": prev}
				m.GoOut = J{"alone": truncate(string(out), 1500), "after_the_others": truncate(first[i], 1500)}
			}
			o.Oracle(m, same, "a process that handled only this request answers differently from the process that handled other requests before it")
			o.count("solo-process")
		}
	}
}
