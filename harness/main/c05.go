//go:build verif && (c05 || allprops)

package main

import (
	"github.com/Azbesciak/RealDecisionMaker/lib/logic/preference-func/electreIII"
	"github.com/Azbesciak/RealDecisionMaker/lib/model"
	"github.com/Azbesciak/RealDecisionMaker/lib/utils"
)

// C05 — ELECTRE III indices follow the method's definition.  Stages (all bit-exact against the Lean model):
//   crit      calculateElectreResult (overlay export)               corr + spec (range, not-worse ⇒ (1,0))
//   matrix    evaluateCredibilityMatrix (overlay export)            corr + spec (σ∈[0,1], diagonal, exact textbook value)
//   rank      RankAscending / RankDescending on real and generated matrices   corr + spec (declarative distillation)
//   slice     Matrix.Slice / Matrix.Without, exhaustive ≤ 5 + random        corr (index-map and literal model)
//   links     EvaluateRanking on generated index vectors            corr + spec (links characterisation)
//   e2e       ElectreIII(alternatives, criteria, electreCriteria, distillationFun)   corr + spec
//   validate  validateParameters / getDistillationFunc accept-reject      corr
//   registry  ParseParams + Evaluate through the real registry agrees with ElectreIII  (oracle)

// ---------- S-expression encoders ----------

// ---------- generators ----------

// ---------- stages ----------

func c05CritStage(o *Out, r *Rng, c int) {
	inDomain := r.chance(0.75)
	var e electreIII.ElectreCriterion
	if inDomain {
		e = genECritInDomain(r)
	} else {
		e = genECritAny(r)
	}
	crit := model.Criterion{Id: "c0", Type: model.Gain}
	if r.chance(0.4) {
		crit.Type = model.Cost
	}
	vmode := r.Intn(6)
	a1 := model.AlternativeWithCriteria{Id: "a", Criteria: model.Weights{"c0": genValues(r, vmode)}}
	a2 := model.AlternativeWithCriteria{Id: "b", Criteria: model.Weights{"c0": genValues(r, vmode)}}
	if r.chance(0.15) {
		a2.Criteria["c0"] = a1.Criteria["c0"]
	}
	if a1.CriterionValue(&crit) >= a2.CriterionValue(&crit) && r.chance(0.6) { // mostly exercise the "a worse than b" branches
		a1, a2 = a2, a1
	}
	c1, c2 := a1.CriterionValue(&crit), a2.CriterionValue(&crit)
	var res electreIII.ElectreResult
	msg := recoverErr(func() { res = electreIII.VerifCalculateElectreResult(c1, c2, &crit, &e) })
	op := L(A("electre-crit"), Num(c1), Num(c2), critSX(crit), ecritSX(e))
	m := Meta{Stage: "crit", Case: c, Key: sxString(op), Input: J{"c1": c1, "c2": c2, "type": string(crit.Type), "thresholds": ecJSON(electreIII.ElectreCriteria{"c0": e})["c0"]}}
	if msg != "" {
		o.Oracle(m, false, "calculateElectreResult panicked: "+msg)
		return
	}
	if !finite(res.C, res.D) {
		o.count("crit:non-finite(out-of-domain)")
		return
	}
	m.GoOut = J{"c": res.C, "d": res.D}
	switch {
	case c1 >= c2:
		o.count("crit:not-worse")
	case res.C == 1:
		o.count("crit:indifferent")
	case res.C > 0:
		o.count("crit:partial-C")
	case res.D == 1:
		o.count("crit:veto")
	case res.D > 0:
		o.count("crit:partial-D")
	default:
		o.count("crit:C=0,D=0")
	}
	o.Corr(m, op, okSX(L(Num(res.C), Num(res.D))))
	if inDomain {
		o.Spec(m, L(A("check-c05-crit"), Num(c1), Num(c2), ecritSX(e), L(Num(res.C), Num(res.D))))
	}
}

// runs RankAscending/RankDescending on a matrix, emits corr + spec, returns the indices
func c05RankStage(o *Out, m Meta, ids []string, size int, data []float64, d eDist, spec bool) (asc, desc []int, ok bool) {
	mk := func() *electreIII.AlternativesMatrix {
		alts := model.Alternatives(append([]string{}, ids...))
		return &electreIII.AlternativesMatrix{Alternatives: &alts, Values: &electreIII.Matrix{Size: size, Data: append([]float64{}, data...)}}
	}
	ma, md := mk(), mk()
	var pa, pd *[]int
	msgA := recoverErr(func() { pa = electreIII.RankAscending(ma, d.f) })
	msgD := recoverErr(func() { pd = electreIII.RankDescending(md, d.f) })
	mSX := matrixSX(size, data)
	m.Stage = "rank-asc"
	o.Corr(m, L(A("electre-rank-asc"), mSX, d.sx()), okSX(resSX(msgA, func() SX { return Ints(*pa) })))
	m.Stage = "rank-desc"
	o.Corr(m, L(A("electre-rank-desc"), mSX, d.sx()), okSX(resSX(msgD, func() SX { return Ints(*pd) })))
	for i := range data {
		if ma.Values.Data[i] != data[i] || md.Values.Data[i] != data[i] {
			m.Stage = "rank-purity"
			o.Oracle(m, false, "RankAscending/RankDescending changed the matrix it was given")
			break
		}
	}
	if msgA != "" || msgD != "" {
		if size > 0 {
			m.Stage = "rank"
			o.Oracle(m, false, "distillation panicked on a non-empty in-domain matrix: "+msgA+msgD)
		}
		return nil, nil, false
	}
	if spec {
		m.Stage = "rank-spec"
		m.GoOut = J{"ascending": *pa, "descending": *pd}
		o.Spec(m, L(A("check-c05-rank"), mSX, d.sx(), Ints(*pa), Ints(*pd)))
	}
	o.count("rank:n=" + itoa(size))
	if distinctInts(*pa) < size || distinctInts(*pd) < size {
		o.count("rank:ex-aequo")
	} else {
		o.count("rank:strict-order")
	}
	if distinctInts(*pa) == 1 && size > 1 {
		o.count("rank:single-class")
	}
	return *pa, *pd, true
}

func c05ProblemStages(o *Out, r *Rng, c int, maxAlt, maxCrit int) {
	inDomain := r.chance(0.85)
	p := genEProblem(r, maxAlt, maxCrit, inDomain)
	d := genDist(r)
	in := p.json()
	in["distillation"] = d.json()
	altS, critS, ecS := altsSX(p.alts), critsSX(p.crits), ecSX(p.ec)
	m := Meta{Case: c, Input: in, Trivial: len(p.alts) < 2}
	o.count("problem:alts=" + itoa(len(p.alts)))
	o.count("problem:crits=" + itoa(len(p.crits)))
	if hasIdentical(p.alts) {
		o.count("problem:identical-alternatives")
	}
	if !inDomain {
		o.count("problem:out-of-domain(corr only)")
	}
	// matrix
	var mat *electreIII.AlternativesMatrix
	msg := recoverErr(func() { mat = electreIII.VerifCredibilityMatrix(&p.alts, &p.crits, &p.ec) })
	m.Stage = "matrix"
	opM := L(A("electre-matrix"), altS, critS, ecS)
	m.Key = sxString(opM)
	if msg == "" && !finite(mat.Values.Data...) {
		o.count("matrix:non-finite(out-of-domain)")
		return
	}
	o.Corr(m, opM, okSX(resSX(msg, func() SX { return matrixSX(mat.Values.Size, mat.Values.Data) })))
	if msg != "" {
		o.Oracle(m, false, "evaluateCredibilityMatrix panicked on a complete problem: "+msg)
		return
	}
	if !inDomain {
		return // σ may leave [0,1]: distillation is not guaranteed to terminate there
	}
	o.Spec(m, L(A("check-c05-matrix"), altS, critS, ecS, matrixSX(mat.Values.Size, mat.Values.Data)))
	// distillations on the real matrix
	names := make([]string, len(p.alts))
	for i, a := range p.alts {
		names[i] = a.Id
	}
	m.Key = sxString(L(matrixSX(mat.Values.Size, mat.Values.Data), d.sx()))
	asc, desc, ok := c05RankStage(o, m, names, mat.Values.Size, mat.Values.Data, d, true)
	if !ok {
		return
	}
	// end to end
	var rk *model.AlternativesRanking
	alts2 := copyAlts(p.alts)
	msg = recoverErr(func() { rk = electreIII.ElectreIII(alts2, p.crits, &p.ec, d.f) })
	m.Stage = "e2e"
	opE := L(A("electre-e2e"), altS, critS, ecS, d.sx())
	m.Key = sxString(opE)
	if msg != "" {
		o.Oracle(m, false, "ElectreIII panicked on an in-domain problem: "+msg)
		return
	}
	m.GoOut = rankingJSON(rk)
	o.Corr(m, opE, okSX(L(A("ok"), electreRankingSX(rk))))
	o.Spec(m, L(A("check-c05-e2e"), Strs(names), matrixSX(mat.Values.Size, mat.Values.Data), d.sx(), electreRankingSX(rk)))
	for i, e := range *rk {
		ev := e.Evaluation.(electreIII.ElectreIIIEvaluation)
		if ev.AscendingIndex != asc[i] || ev.DescendingIndex != desc[i] {
			o.Oracle(m, false, "ElectreIII indices differ from RankAscending/RankDescending of its own credibility matrix")
			break
		}
	}
	incomparable := false
	for i := range asc {
		for j := range asc {
			if (asc[i] < asc[j] && desc[i] > desc[j]) || (asc[i] > asc[j] && desc[i] < desc[j]) {
				incomparable = true
			}
		}
	}
	if incomparable {
		o.count("e2e:incomparable-pair")
	}
	// the registry path (ParseParams + Evaluate) must give the same answer
	if r.chance(0.25) {
		c05RegistryOracle(o, m, p, d, rk)
	}
}

func c05RegistryOracle(o *Out, m Meta, p *eProblem, d eDist, want *model.AlternativesRanking) {
	mp := model.RawMethodParameters{"electreCriteria": ecJSON(p.ec)}
	if !d.isDefault {
		mp["electreDistillation"] = map[string]interface{}{"a": d.f.A, "b": d.f.B}
	}
	names := make([]string, len(p.alts))
	for i, a := range p.alts {
		names[i] = a.Id
	}
	dm := &model.DecisionMaker{PreferenceFunction: "electreIII", KnownAlternatives: copyAlts(p.alts), ChoseToMake: names,
		Criteria: p.crits, MethodParameters: mp}
	dmp, msg := prepareDMP(dm)
	m.Stage = "registry"
	if msg != "" {
		o.Oracle(m, false, "ParseParams rejected an in-domain problem: "+msg)
		return
	}
	var got *model.AlternativesRanking
	msg = recoverErr(func() { got = (*funcs.Fetch("electreIII")).Evaluate(dmp) })
	if msg != "" {
		o.Oracle(m, false, "Evaluate panicked: "+msg)
		return
	}
	ok := sxString(electreRankingSX(got)) == sxString(electreRankingSX(want))
	o.Oracle(m, ok, "registry path (ParseParams+Evaluate) differs from ElectreIII on the same problem")
	o.count("registry:checked")
}

func c05MatrixRankStage(o *Out, r *Rng, c int, maxN int) {
	n := r.rangeInt(1, maxN)
	data := genMatrix(r, n)
	d := genDist(r)
	m := Meta{Case: c, Input: J{"size": n, "matrix": data, "distillation": d.json()}, Trivial: n < 2,
		Key: sxString(L(matrixSX(n, data), d.sx()))}
	c05RankStage(o, m, ids("a", n), n, data, d, true)
}

func markedMatrix(n int) []float64 {
	d := make([]float64, n*n)
	for i := range d {
		d[i] = float64(i + 1)
	}
	return d
}

func c05SliceCase(o *Out, r *Rng, c int, n int, data []float64, idx []int) {
	mSX := matrixSX(n, data)
	m := Meta{Case: c, Input: J{"size": n, "matrix": data, "indices": idx}, Key: sxString(L(mSX, Ints(idx)))}
	emit := func(stage string, ops []string, f func(mm *electreIII.Matrix, ix *[]int) *electreIII.Matrix) {
		mm := &electreIII.Matrix{Size: n, Data: append([]float64{}, data...)}
		ix := append([]int{}, idx...)
		var res *electreIII.Matrix
		msg := recoverErr(func() { res = f(mm, &ix) })
		m.Stage = stage
		if msg != "" {
			o.Oracle(m, false, stage+" panicked on distinct in-range indices: "+msg)
			return
		}
		for _, op := range ops {
			o.Corr(m, L(A(op), mSX, Ints(idx)), okSX(matrixSX(res.Size, res.Data)))
		}
		for i := range data {
			if mm.Data[i] != data[i] {
				o.Oracle(m, false, stage+" changed its receiver")
				break
			}
		}
	}
	emit("slice", []string{"electre-slice", "electre-slice-flat"}, func(mm *electreIII.Matrix, ix *[]int) *electreIII.Matrix { return mm.Slice(ix) })
	emit("without", []string{"electre-without", "electre-without-flat"}, func(mm *electreIII.Matrix, ix *[]int) *electreIII.Matrix { return mm.Without(ix) })
	o.count("slice:n=" + itoa(n))
}

// exhaustive over all index subsets of sizes <= 5 (ascending and one random order each)
func c05SliceExhaustive(o *Out, r *Rng) {
	for n := 1; n <= 5; n++ {
		for mask := 0; mask < 1<<uint(n); mask++ {
			var idx []int
			for i := 0; i < n; i++ {
				if mask&(1<<uint(i)) != 0 {
					idx = append(idx, i)
				}
			}
			if idx == nil {
				idx = []int{}
			}
			c05SliceCase(o, r, -1, n, markedMatrix(n), idx)
			sh := append([]int{}, idx...)
			r.Shuffle(len(sh), func(i, j int) { sh[i], sh[j] = sh[j], sh[i] })
			c05SliceCase(o, r, -1, n, genMatrix(r, n), sh)
		}
	}
}

func c05SliceRandom(o *Out, r *Rng, c int, maxN int) {
	n := r.rangeInt(6, maxN)
	perm := r.Perm(n)
	idx := perm[:r.Intn(n+1)]
	data := markedMatrix(n)
	if r.chance(0.5) {
		data = genMatrix(r, n)
	}
	c05SliceCase(o, r, c, n, data, idx)
}

func c05LinksStage(o *Out, r *Rng, c int, maxN int) {
	n := r.rangeInt(1, maxN)
	k := r.rangeInt(1, n)
	asc, desc := make([]int, n), make([]int, n)
	for i := range asc {
		asc[i], desc[i] = r.rangeInt(1, k), r.rangeInt(1, k)
		if r.chance(0.3) {
			desc[i] = asc[i]
		}
	}
	names := r.shuffled(ids("a", n))
	alts := make([]model.AlternativeWithCriteria, n)
	for i := range alts {
		alts[i] = model.AlternativeWithCriteria{Id: names[i], Criteria: model.Weights{}}
	}
	var rk *model.AlternativesRanking
	msg := recoverErr(func() { rk = electreIII.EvaluateRanking(&asc, &desc, &alts) })
	op := L(A("electre-links"), Ints(asc), Ints(desc), Strs(names))
	m := Meta{Stage: "links", Case: c, Input: J{"ascending": asc, "descending": desc, "ids": names}, Key: sxString(op), Trivial: n < 2}
	if msg != "" {
		o.Oracle(m, false, "EvaluateRanking panicked: "+msg)
		return
	}
	m.GoOut = rankingJSON(rk)
	o.Corr(m, op, okSX(electreRankingSX(rk)))
	o.Spec(m, L(A("check-c05-links"), electreRankingSX(rk)))
	o.count("links:n=" + itoa(n))
}

func c05ValidateStage(o *Out, r *Rng, c int) {
	var e electreIII.ElectreCriterion
	if r.chance(0.5) {
		e = genECritInDomain(r)
	} else {
		e = genECritAny(r)
	}
	crit := model.Criterion{Id: "c0", Type: model.Gain}
	msg := recoverErr(func() { electreIII.VerifValidateParameters(&crit, &e) })
	op := L(A("electre-validate"), ecritSX(e))
	m := Meta{Stage: "validate", Case: c, Input: ecJSON(electreIII.ElectreCriteria{"c0": e}), Key: sxString(op)}
	o.Corr(m, op, okSX(Bool(msg == "")))
	if msg == "" {
		o.count("validate:accepted")
	} else {
		o.count("validate:rejected")
	}
	// distillation function guard
	a := float64(r.Intn(9)-6) / 8
	b := float64(r.Intn(9)-2) / 8
	if r.chance(0.3) {
		b = -a
	}
	dm := &model.DecisionMaker{MethodParameters: model.RawMethodParameters{"electreDistillation": map[string]interface{}{"a": a, "b": b}}}
	var f *utils.LinearFunctionParameters
	msg = recoverErr(func() { f = electreIII.VerifGetDistillationFunc(dm) })
	op = L(A("electre-dist-valid"), L(Num(a), Num(b)))
	m = Meta{Stage: "validate-distillation", Case: c, Input: J{"a": a, "b": b}, Key: sxString(op)}
	o.Corr(m, op, okSX(Bool(msg == "")))
	if msg == "" && (f.A != a || f.B != b) {
		o.Oracle(m, false, "getDistillationFunc changed the parameters")
	}
}

// no alternatives at all: the code panics ("matrix is empty"); the model must reject as well
func c05EmptyCase(o *Out) {
	crits := model.Criteria{{Id: "c0", Type: model.Gain}}
	ec := electreIII.ElectreCriteria{"c0": {K: 1}}
	var rk *model.AlternativesRanking
	msg := recoverErr(func() {
		rk = electreIII.ElectreIII([]model.AlternativeWithCriteria{}, crits, &ec, &electreIII.DefaultDistillationFunc)
	})
	op := L(A("electre-e2e"), L(), critsSX(crits), ecSX(ec), A("default"))
	m := Meta{Stage: "e2e", Case: -1, Input: J{"alternatives": []interface{}{}}, Key: sxString(op), Trivial: true}
	o.Corr(m, op, okSX(resSX(msg, func() SX { return electreRankingSX(rk) })))
	o.count("e2e:no-alternatives")
}

func init() {
	props["C05"] = func(o *Out, r *Rng, n int, thorough bool) {
		maxAlt, maxCrit, maxN := 8, 5, 8
		if thorough {
			maxAlt, maxCrit, maxN = 10, 7, 10
		}
		c05SliceExhaustive(o, r)
		c05EmptyCase(o)
		for c := 0; c < n; c++ {
			o.Cases++
			c05ProblemStages(o, r, c, maxAlt, maxCrit)
			c05MatrixRankStage(o, r, c, maxN)
			c05CritStage(o, r, c)
			c05CritStage(o, r, c)
			c05LinksStage(o, r, c, maxN)
			if c%4 == 0 {
				c05SliceRandom(o, r, c, maxN+2)
				c05ValidateStage(o, r, c)
			}
		}
	}
}
