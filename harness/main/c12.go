//go:build verif && (c12 || allprops)

package main

import (
	"encoding/json"

	limited_rationality "github.com/Azbesciak/RealDecisionMaker/lib/logic/limited-rationality"
	aspect_elimination "github.com/Azbesciak/RealDecisionMaker/lib/logic/limited-rationality/aspect-elimination"
	"github.com/Azbesciak/RealDecisionMaker/lib/model"
	"github.com/Azbesciak/RealDecisionMaker/lib/utils"
)

// C12: aspect elimination.
//   corr  aspect-evaluate      : Evaluate(dmp) vs Model.aspectEvaluateWith, fed with the levels the real
//                                source handed out (stage-wise: the series itself belongs to C14);
//                                pairwise distinct weights
//   corr  aspect-evaluate-some : tied weights — the order sort.Slice produced is not observable, the
//                                driver answers whether SOME weight-compatible criteria order (with the
//                                known shuffle) reproduces Go's result exactly
//   spec  check-c12            : exact-rational checker on Go's output

func init() {
	props["C12"] = func(o *Out, r *Rng, n int, thorough bool) {
		maxAlt := 8
		if thorough {
			maxAlt = 10
		}
		evaluator := *funcs.Fetch("aspectEliminationHeuristic")
		for c := 0; c < n; c++ {
			q := genRequest(r, ReqOpts{Methods: []string{"aspectEliminationHeuristic"}, ExtraWeightKey: 0.12, Prob: ProbOpts{MaxAlt: maxAlt, MaxCrit: 5}})
			mp := q.Body["methodParameters"].(J)
			heurShapeProblem(r, q)
			heurShapeLevels(r, mp, true)
			if r.chance(0.06) { // a weight of exactly 0 is a weight like any other (distinct from the rest: the lightest criterion)
				w := mp["weights"].(J)
				ks := sortedJKeys(w)
				w[ks[r.Intn(len(ks))]] = 0.0
			}
			if r.chance(0.15) { // tied weights
				w := mp["weights"].(J)
				for _, k := range sortedJKeys(w) {
					w[k] = float64(1 + r.Intn(2))
				}
			}
			if r.chance(0.35) {
				grid := r.rangeInt(2, 5)
				heurCoarsen(r, q, grid+1)
				if r.chance(0.6) {
					mp["function"], mp["params"] = "thresholds", heurExplicitThresholds(r, q, grid, true)
				}
			}
			switch k := r.Intn(100); {
			case k < 2:
				mp["function"] = "bogus"
			case k < 3:
				mp["function"] = ""
			case k < 5:
				delete(mp["weights"].(J), q.Problem.Criteria[0].Id)
			case k < 8:
				if p, ok := mp["params"].(J); ok && mp["function"] != "thresholds" {
					p["coefficient"] = []float64{0, 1, -0.5, 1.5}[r.Intn(4)]
				}
			case k < 10:
				if p, ok := mp["params"].(J); ok {
					if ts, ok := p["thresholds"].([]interface{}); ok && len(ts) > 0 {
						delete(ts[r.Intn(len(ts))].(J), q.Problem.Criteria[0].Id)
					}
				}
			case k < 12:
				q.Body["choseToMake"] = []string{}
			}
			dm := q.bind()
			d, msg := prepareDMP(dm)
			o.Cases++
			if msg != "" {
				o.count("prepare-failed")
				continue
			}
			params := d.MethodParameters.(aspect_elimination.AspectEliminationHeuristicParams)
			in := map[string]interface{}{"request": q.Body}
			m := Meta{Case: c, Input: in, Key: string(q.JSON()), Trivial: len(d.ConsideredAlternatives) < 2}
			dmpLine := dmpSX(d)
			ds := Nums(draws(params.RandomSeed, heurDraws))
			heurConsideredOrder(o, m, dm, d)
			levels, msgL, capped := heurGoLevels(increasingSatisfactionLevels, params.Function, params.Params, d)
			if capped {
				o.count("levels-cap")
				continue
			}
			lvLine := heurLevelsResSX(levels, msgL)
			distinct := heurWeightsDistinct(d.Criteria, params.Weights)
			o.count("alts=" + itoa(len(d.ConsideredAlternatives)))
			o.count("function=" + params.Function)
			o.count("levels=" + itoa(heurMinInt(len(levels), 12)))
			if distinct {
				o.count("weights=distinct")
			} else {
				o.count("weights=tied")
			}

			var rk *model.AlternativesRanking
			msgEv := recoverErr(func() { rk = evaluator.Evaluate(d) })
			if msgEv == "" {
				m.GoOut = heurRankingJSON(rk)
			} else {
				o.count("evaluate-panicked")
			}
			goRes := resSX(msgEv, func() SX { return aspEntriesSX(rk) })
			if distinct {
				m.Stage = "aspect-evaluate"
				o.Corr(m, L(A("aspect-evaluate"), dmpLine, ds, lvLine), okSX(goRes))
				// the same with the model generating the aspiration levels itself ("walks through the aspiration levels")
				m.Stage = "aspect-evaluate-full"
				o.Corr(m, L(A("aspect-evaluate-full"), dmpLine, ds), okSX(goRes))
			} else {
				m.Stage = "aspect-evaluate-some"
				o.Corr(m, L(A("aspect-evaluate-some"), dmpLine, ds, lvLine, goRes), "ok ok")
			}
			if msgEv != "" || msgL != "" {
				continue
			}
			// shape of the run
			elim, surv := 0, 0
			sameCheck := false
			prevKey := ""
			for _, e := range *rk {
				ev := e.Evaluation.(aspect_elimination.AspectEliminationEvaluation)
				if len(ev.NotSatisfiedThreshold) == 0 {
					surv++
					continue
				}
				elim++
				key := itoa(ev.ThresholdsIndex)
				for k := range ev.NotSatisfiedThreshold {
					key += ":" + k
				}
				if key == prevKey {
					sameCheck = true
				}
				prevKey = key
			}
			o.count("eliminated=" + itoa(heurMinInt(elim, 6)))
			o.count("survivors=" + itoa(heurMinInt(surv, 4)))
			if sameCheck {
				o.count("two-failed-the-same-check")
			}
			if surv == 1 && elim > 0 {
				o.count("stopped-at-one-left")
			}
			// spec on Go's output
			ordered := *limited_rationality.OrderAlternatives(params.RandomAlternativesOrdering, &d.ConsideredAlternatives,
				utils.RandomBasedSeedValueGenerator(params.RandomSeed))
			wc := d.Criteria.ZipWithWeights(&params.Weights)
			m.Stage = "check-c12"
			o.Spec(m, L(A("check-c12"), altsSX(ordered), wcritsSX(*wc), heurLevelsSX(levels), aspEntriesSX(rk)))
			// the request's ordering configuration must still decide after biases changed criteria / parameters
			if r.chance(0.3) && len(d.Criteria) >= 2 {
				q2 := cloneJ(q.Body)
				var bl []interface{}
				for i, nb := 0, r.rangeInt(1, 2); i < nb; i++ {
					name := []string{"criteriaOmission", "criteriaOmission", "preferenceReversal", "fatigue", "criteriaConcealment"}[r.Intn(5)]
					pr := biasPropsJSON(r, name, q.Problem)
					if name == "criteriaOmission" {
						pr["max"], pr["ratio"] = len(d.Criteria)-1-i, 0.5
						delete(pr, "min")
					}
					if name == "criteriaConcealment" {
						pr["newCriterionScaling"] = 1
					}
					bl = append(bl, J{"name": name, "props": pr})
				}
				q2["biases"] = bl
				js2, _ := json.Marshal(q2)
				var dm2 model.DecisionMaker
				if json.Unmarshal(js2, &dm2) == nil {
					tr := tracedDecide(&dm2)
					if tr.Err == "" && tr.Eval != nil && len(tr.Eval.Live.Criteria) >= 1 {
						dF := tr.Eval.Live
						if pF, ok := dF.MethodParameters.(aspect_elimination.AspectEliminationHeuristicParams); ok {
							wcF := dF.Criteria.ZipWithWeights(&pF.Weights)
							lvF, msgLF, capF := heurGoLevels(increasingSatisfactionLevels, pF.Function, pF.Params, dF)
							if msgLF == "" && !capF && heurWeightsDistinct(dF.Criteria, pF.Weights) {
								orderedF := *limited_rationality.OrderAlternatives(params.RandomAlternativesOrdering, &dF.ConsideredAlternatives,
									utils.RandomBasedSeedValueGenerator(params.RandomSeed))
								m2 := Meta{Case: c, Stage: "check-c12-after-biases", Input: J{"request": q2}, Key: string(js2), GoOut: heurRankingJSON(&tr.Choice.Result)}
								o.Spec(m2, L(A("check-c12"), altsSX(orderedF), wcritsSX(*wcF), heurLevelsSX(lvF), aspEntriesSX(&tr.Choice.Result)))
								o.count("after-biases")
							}
						}
					}
				}
			}
		}
	}
}
