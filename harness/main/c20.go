//go:build verif && (c20 || allprops)

package main

import (
	"bytes"
	"encoding/json"
	"os"
	"strings"
	"time"

	"github.com/Azbesciak/RealDecisionMaker/lib/model"
	"github.com/Azbesciak/RealDecisionMaker/lib/utils"
)

// C20: the HTTP service answers every request and survives it.
// A real server process (main() of httpClient unmodified) receives sequences of: malformed JSON,
// mistyped fields, every documented constraint violated one at a time on an otherwise valid request,
// extreme numbers, and valid requests.  After EVERY request a liveness probe must be answered.
//   oracle status        : documented violation → 400 with `error` and echoed `request`; valid → 200 with
//                          `result` and `biases`; never a ranking for a violation
//   oracle same-as-inproc: HTTP verdict == verdict of the same body handled in-process
//   oracle alive         : the probe is answered after the request
//   oracle functions     : GET /api/preferenceFunctions has a schema for each of the seven methods

type violation struct {
	name  string
	apply func(r *Rng, b J, q *Req) bool // false = not applicable to this request
}

func mpOf(b J) J { return b["methodParameters"].(J) }

func firstBias(b J, name string) J {
	bl, _ := b["biases"].([]interface{})
	for _, x := range bl {
		if x.(J)["name"] == name {
			return x.(J)["props"].(J)
		}
	}
	return nil
}

func withBias(r *Rng, b J, q *Req, name string) J {
	bl0, _ := b["biases"].([]interface{})
	for _, x := range bl0 {
		if x.(J)["name"] == name {
			// the violated bias must fire, otherwise its props are never decoded (see lazy-bias-props)
			x.(J)["applyProbability"] = 1
			return x.(J)["props"].(J)
		}
	}
	p := biasPropsJSON(r, name, q.Problem)
	bl, _ := b["biases"].([]interface{})
	b["biases"] = append(bl, J{"name": name, "props": p})
	return p
}

var violations = []violation{
	{"empty-method", func(r *Rng, b J, q *Req) bool { b["preferenceFunction"] = "  "; return true }},
	{"unknown-method", func(r *Rng, b J, q *Req) bool { b["preferenceFunction"] = "noSuchMethod"; return true }},
	{"unknown-bias", func(r *Rng, b J, q *Req) bool {
		bl, _ := b["biases"].([]interface{})
		b["biases"] = append(bl, J{"name": "noSuchBias", "props": J{}})
		return true
	}},
	{"unknown-ordering", func(r *Rng, b J, q *Req) bool {
		withBias(r, b, q, []string{"criteriaOmission", "preferenceReversal"}[r.Intn(2)])["ordering"] = []string{"noSuchOrdering", " ", "\t", "Weakest", "weakest "}[r.Intn(5)]
		return true
	}},
	{"unknown-fatigue-function", func(r *Rng, b J, q *Req) bool {
		withBias(r, b, q, "fatigue")["function"] = "noSuchFunction"
		return true
	}},
	{"unknown-levels-function", func(r *Rng, b J, q *Req) bool {
		if q.Method != "aspectEliminationHeuristic" && q.Method != "satisfactionHeuristic" {
			return false
		}
		mpOf(b)["function"] = "noSuchFunction"
		return true
	}},
	{"unknown-draw-resolution", func(r *Rng, b J, q *Req) bool {
		if q.Method != "majorityHeuristic" {
			return false
		}
		mpOf(b)["drawResolution"] = "noSuchResolution"
		return true
	}},
	{"unknown-reference-criterion-type", func(r *Rng, b J, q *Req) bool {
		if q.Method == "owa" || q.Method == "choquetIntegral" {
			return false
		}
		withBias(r, b, q, "criteriaConcealment")["referenceCriterionType"] = "noSuchType"
		return true
	}},
	{"unknown-anchoring-function", func(r *Rng, b J, q *Req) bool {
		p := withBias(r, b, q, "anchoring")
		p[[]string{"loss", "gain", "referencePoints", "applier"}[r.Intn(4)]].(J)["function"] = "noSuchFunction"
		return true
	}},
	{"duplicate-criterion", func(r *Rng, b J, q *Req) bool {
		c := b["criteria"].([]interface{})
		b["criteria"] = append(c, c[r.Intn(len(c))])
		return true
	}},
	{"empty-range", func(r *Rng, b J, q *Req) bool {
		b["criteria"].([]interface{})[0].(J)["valuesRange"] = J{"min": 3, "max": 3}
		return true
	}},
	{"inverted-range", func(r *Rng, b J, q *Req) bool {
		b["criteria"].([]interface{})[0].(J)["valuesRange"] = J{"min": 5, "max": -5}
		return true
	}},
	{"missing-criterion-value", func(r *Rng, b J, q *Req) bool {
		ka := b["knownAlternatives"].([]interface{})
		vals := ka[r.Intn(len(ka))].(J)["criteria"].(J)
		delete(vals, q.Problem.Criteria[0].Id)
		return true
	}},
	{"missing-weight", func(r *Rng, b J, q *Req) bool {
		w, ok := mpOf(b)["weights"].(J)
		if !ok || q.Method == "choquetIntegral" {
			return false
		}
		delete(w, q.Problem.Criteria[0].Id)
		// weights of the heuristics are looked up lazily (at evaluation / ranking time): a bias that omits the
		// criterion first hides the violation (registered finding lazy-missing-weight) — keep the injection clean
		delete(b, "biases")
		return true
	}},
	{"missing-weights", func(r *Rng, b J, q *Req) bool {
		if _, ok := mpOf(b)["weights"]; !ok || q.Method == "aspectEliminationHeuristic" || q.Method == "majorityHeuristic" {
			return false
		}
		delete(mpOf(b), "weights")
		return true
	}},
	{"choquet-weight-out-of-range", func(r *Rng, b J, q *Req) bool {
		if q.Method != "choquetIntegral" {
			return false
		}
		mpOf(b)["weights"].(J)[q.Problem.Criteria[0].Id] = []float64{-0.25, 1.5}[r.Intn(2)]
		return true
	}},
	{"choquet-cost-criterion", func(r *Rng, b J, q *Req) bool {
		if q.Method != "choquetIntegral" {
			return false
		}
		// "non-gain": the exact string "cost", or any other spelling / a missing type (the parser demands the exact "gain")
		cj := b["criteria"].([]interface{})[r.Intn(len(b["criteria"].([]interface{})))].(J)
		switch r.Intn(4) {
		case 0:
			cj["type"] = "cost"
		case 1:
			delete(cj, "type")
		case 2:
			cj["type"] = "Cost"
		default:
			cj["type"] = "loss"
		}
		return true
	}},
	{"choquet-missing-capacity", func(r *Rng, b J, q *Req) bool {
		if q.Method != "choquetIntegral" {
			return false
		}
		delete(mpOf(b)["weights"].(J), q.Problem.Criteria[0].Id)
		return true
	}},
	{"electre-nonpositive-weight", func(r *Rng, b J, q *Req) bool {
		if q.Method != "electreIII" {
			return false
		}
		mpOf(b)["electreCriteria"].(J)[q.Problem.Criteria[0].Id].(J)["k"] = []float64{0, -1}[r.Intn(2)]
		return true
	}},
	{"electre-nonincreasing-thresholds", func(r *Rng, b J, q *Req) bool {
		if q.Method != "electreIII" {
			return false
		}
		e := mpOf(b)["electreCriteria"].(J)[q.Problem.Criteria[0].Id].(J)
		e["q"], e["p"] = J{"a": 0, "b": 2}, J{"a": 0, "b": []float64{2, 1}[r.Intn(2)]}
		return true
	}},
	{"electre-missing-criterion", func(r *Rng, b J, q *Req) bool {
		if q.Method != "electreIII" {
			return false
		}
		delete(mpOf(b)["electreCriteria"].(J), q.Problem.Criteria[0].Id)
		return true
	}},
	{"electre-negative-distillation", func(r *Rng, b J, q *Req) bool {
		if q.Method != "electreIII" {
			return false
		}
		mpOf(b)["electreDistillation"] = []J{{"a": -0.2, "b": 0.1}, {"a": 0.5, "b": -0.25}, {"a": -3, "b": 1}}[r.Intn(3)]
		return true
	}},
	{"ratio-out-of-range", func(r *Rng, b J, q *Req) bool {
		withBias(r, b, q, []string{"criteriaOmission", "preferenceReversal"}[r.Intn(2)])["ratio"] = []float64{-0.1, 1.5}[r.Intn(2)]
		return true
	}},
	{"split-max-below-min", func(r *Rng, b J, q *Req) bool {
		p := withBias(r, b, q, "preferenceReversal")
		p["min"], p["max"] = 2, 1
		return true
	}},
	{"levels-threshold-value-missing", func(r *Rng, b J, q *Req) bool {
		// explicit aspiration levels must name every criterion: a level that lacks one (left out, or given under a
		// misspelt key so that the number of entries still matches) is a missing value
		if q.Method != "aspectEliminationHeuristic" && q.Method != "satisfactionHeuristic" {
			return false
		}
		delete(b, "biases")
		var ts []interface{}
		for i := 0; i < 2; i++ {
			t := J{}
			for _, c := range q.Problem.Criteria {
				t[c.Id] = float64(r.Intn(9))
			}
			ts = append(ts, t)
		}
		victim := q.Problem.Criteria[r.Intn(len(q.Problem.Criteria))].Id
		t := ts[r.Intn(2)].(J)
		v := t[victim]
		delete(t, victim)
		if r.chance(0.6) {
			t[victim+"x"] = v
		}
		mpOf(b)["function"], mpOf(b)["params"] = "thresholds", J{"thresholds": ts}
		return true
	}},
	{"levels-coefficient-out-of-range", func(r *Rng, b J, q *Req) bool {
		if q.Method != "aspectEliminationHeuristic" && q.Method != "satisfactionHeuristic" {
			return false
		}
		fn := "idealMultipliedCoefficient"
		mpOf(b)["function"] = fn
		par := J{"coefficient": 0.5, "minValue": 0.25, "maxValue": 0.75}
		switch r.Intn(4) {
		case 0:
			par["coefficient"] = []float64{0, 1, 1.5, -0.5}[r.Intn(4)]
		case 1:
			par["minValue"] = []float64{-0.5, 1.5}[r.Intn(2)]
		case 2:
			par["maxValue"] = []float64{-0.5, 1.5}[r.Intn(2)]
		default:
			if q.Method == "satisfactionHeuristic" {
				par["minValue"] = 0.0 // decreasing series need min in (0,1]
			} else {
				par["coefficient"] = 2.0
			}
		}
		mpOf(b)["params"] = par
		return true
	}},
	{"mixing-ratio-out-of-range", func(r *Rng, b J, q *Req) bool {
		if len(q.Problem.Criteria) < 2 {
			return false
		}
		bl, _ := b["biases"].([]interface{})
		b["biases"] = append([]interface{}{J{"name": "criteriaMixing", "props": J{"mixingRatio": []float64{-0.5, 2}[r.Intn(2)]}}}, bl...)
		return true
	}},
	{"concealment-scaling-zero", func(r *Rng, b J, q *Req) bool {
		withBias(r, b, q, "criteriaConcealment")["newCriterionScaling"] = 0
		return true
	}},
	{"bounding-scaling-zero", func(r *Rng, b J, q *Req) bool {
		withBias(r, b, q, "fatigue")["allowedValuesRangeScaling"] = 0
		return true
	}},
	{"unknown-alternative-chosen", func(r *Rng, b J, q *Req) bool {
		b["choseToMake"] = append(b["choseToMake"].([]string), "noSuchAlternative")
		return true
	}},
	{"unknown-current-choice", func(r *Rng, b J, q *Req) bool {
		if q.Method != "majorityHeuristic" && q.Method != "satisfactionHeuristic" {
			return false
		}
		mpOf(b)["currentChoice"] = "noSuchAlternative"
		return true
	}},
	{"unknown-anchoring-alternative", func(r *Rng, b J, q *Req) bool {
		p := withBias(r, b, q, "anchoring")
		p["anchoringAlternatives"] = []interface{}{J{"alternative": "noSuchAlternative", "coefficient": 1}}
		return true
	}},
	{"no-anchoring-alternatives", func(r *Rng, b J, q *Req) bool {
		withBias(r, b, q, "anchoring")["anchoringAlternatives"] = []interface{}{}
		return true
	}},
}

var malformed = []string{
	``, `{`, `}`, `[]`, `null`, `42`, `"text"`, `{"preferenceFunction":`, `{"preferenceFunction":"weightedSum",}`,
	`{"preferenceFunction":5}`, `{"preferenceFunction":"weightedSum","criteria":"oops"}`,
	`{"preferenceFunction":"weightedSum","criteria":[{"id":7}]}`,
	`{"preferenceFunction":"weightedSum","knownAlternatives":{"a":1}}`,
	`{"preferenceFunction":"weightedSum","knownAlternatives":[{"id":"a","criteria":{"c":"high"}}]}`,
	`{"preferenceFunction":"weightedSum","choseToMake":"a"}`,
	`{"preferenceFunction":"weightedSum","biasApplyRandomSeed":"x"}`,
	`{"preferenceFunction":"weightedSum","biasApplyRandomSeed":1.5}`,
	`{"preferenceFunction":"weightedSum","criteria":[{"id":"c","type":"gain","valuesRange":[1,2]}]}`,
	`{"preferenceFunction":"weightedSum","methodParameters":[]}`,
	"\x00\x01\x02", `{"preferenceFunction":"weightedSum"}garbage`,
}

// well-formed JSON with missing / null / mistyped / extreme fields
func weirdBodies(r *Rng, q *Req) []J {
	var out []J
	mk := func(f func(b J)) { b := cloneJ(q.Body); f(b); out = append(out, b) }
	mk(func(b J) { delete(b, "criteria") })
	mk(func(b J) { delete(b, "knownAlternatives") })
	mk(func(b J) { delete(b, "choseToMake") })
	mk(func(b J) { delete(b, "methodParameters") })
	mk(func(b J) { b["methodParameters"] = nil })
	mk(func(b J) { b["biases"] = nil })
	mk(func(b J) { b["choseToMake"] = []interface{}{} })
	mk(func(b J) { b["knownAlternatives"] = []interface{}{} })
	mk(func(b J) { b["criteria"] = []interface{}{} })
	mk(func(b J) { b["biases"] = []interface{}{"notAnObject"} })
	mk(func(b J) { b["biases"] = []interface{}{J{"name": 5}} })
	mk(func(b J) { b["biases"] = []interface{}{J{"name": "fatigue", "props": "notAnObject"}} })
	mk(func(b J) {
		b["biases"] = []interface{}{J{"name": "fatigue", "props": J{"function": "const", "params": J{"value": "much"}}}}
	})
	mk(func(b J) {
		b["biases"] = []interface{}{J{"name": "fatigue", "applyProbability": "often", "props": J{}}}
	})
	mk(func(b J) {
		b["biases"] = []interface{}{J{"name": "criteriaOmission", "props": J{"ratio": 0.5, "min": "one"}}}
	})
	mk(func(b J) { b["biasApplyRandomSeed"] = 9.3e18 })
	mk(func(b J) { // ELECTRE thresholds for a criterion nobody declared (ignored by the method, whatever they say)
		if ec, ok := b["methodParameters"].(map[string]interface{})["electreCriteria"].(map[string]interface{}); ok {
			ec["zz_undeclared"] = map[string]interface{}{"k": []float64{-4, 0, 2.5}[r.Intn(3)]}
			delete(b, "biases")
		}
	})
	mk(func(b J) { // an alternative with a value for a criterion nobody declared (owa / Choquet fail while scoring it)
		if ka, ok := b["knownAlternatives"].([]interface{}); ok {
			for _, a := range ka {
				if cr, ok := a.(map[string]interface{})["criteria"].(map[string]interface{}); ok {
					cr["zz_colour"] = 1
				}
			}
		}
		delete(b, "biases")
	})
	mk(func(b J) { // extreme values
		for _, a := range b["knownAlternatives"].([]interface{}) {
			for k := range a.(map[string]interface{})["criteria"].(map[string]interface{}) {
				a.(map[string]interface{})["criteria"].(map[string]interface{})[k] = []float64{1e308, -1e308, 1e-308, 5e-324}[r.Intn(4)]
			}
		}
	})
	mk(func(b J) { // weights of the wrong JSON type
		if w, ok := b["methodParameters"].(map[string]interface{})["weights"]; ok {
			_ = w
			b["methodParameters"].(map[string]interface{})["weights"] = "heavy"
		}
	})
	mk(func(b J) {
		mp := b["methodParameters"].(map[string]interface{})
		for k := range mp {
			mp[k] = nil
		}
	})
	return out
}

// a method that accepts anything: isolates the request-level validation of MakeDecision
type stubMethod struct{}

func (s *stubMethod) Identifier() string                              { return "stubMethod" }
func (s *stubMethod) MethodParameters() interface{}                   { return nil }
func (s *stubMethod) ParseParams(dm *model.DecisionMaker) interface{} { return nil }
func (s *stubMethod) Evaluate(d *model.DecisionMakingParams) *model.AlternativesRanking {
	return &model.AlternativesRanking{}
}

// stage validate-request (corr): MakeDecision with the stub method vs Model/Validate.lean
func validateStage(o *Out, r *Rng, c int) {
	p := genProblem(r, ProbOpts{MaxCrit: 4, MaxAlt: 4})
	method := "stubMethod"
	what := "valid"
	switch r.Intn(9) {
	case 0:
		p.Criteria = append(p.Criteria, p.Criteria[r.Intn(len(p.Criteria))])
		what = "duplicate-criterion"
	case 1:
		p.Criteria[0].ValuesRange = &utils.ValueRange{Min: 2, Max: 2}
		what = "empty-range"
	case 2:
		p.Criteria[0].ValuesRange = &utils.ValueRange{Min: 2, Max: -2}
		what = "inverted-range"
	case 3:
		delete(p.Known[r.Intn(len(p.Known))].Criteria, p.Criteria[r.Intn(len(p.Criteria))].Id)
		what = "missing-value"
	case 4:
		p.Chosen = append(p.Chosen, "noSuchAlternative")
		what = "unknown-alternative"
	case 5:
		method = []string{"", " ", "\t ", "  \n"}[r.Intn(4)]
		what = "blank-method"
	}
	dm := &model.DecisionMaker{PreferenceFunction: method, KnownAlternatives: p.Known, ChoseToMake: p.Chosen, Criteria: p.Criteria}
	fs := model.PreferenceFunctions{Functions: []model.PreferenceFunction{&stubMethod{}}}
	msg := recoverErr(func() { dm.MakeDecision(fs, biasListeners, &biases, seededGen) })
	o.count("validate:" + what)
	m := Meta{Case: c, Stage: "validate-request", Class: what, Input: J{"method": method, "criteria": p.Criteria, "knownAlternatives": p.Known, "choseToMake": p.Chosen},
		Key: "v" + sxString(critsSX(p.Criteria)) + sxString(altsSX(p.Known)) + sxString(Strs(p.Chosen)) + method}
	msx := strings.NewReplacer(" ", "_", "\t", "_", "\n", "_").Replace(method) // white space is not representable in an atom
	if what == "blank-method" {
		msx = ""
	}
	o.Corr(m, L(A("validate-request"), Str(msx), critsSX(p.Criteria), altsSX(p.Known), Strs(p.Chosen)), okSX(resSX(msg, func() SX { return L() })))
	ms := m
	ms.Stage = "validate-request:verdict"
	o.Oracle(ms, (msg == "") == (what == "valid"), "request-level validation verdict is wrong for a request with: "+what)
}

func init() {
	props["C20"] = func(o *Out, r *Rng, n int, thorough bool) {
		for c := 0; c < n/2; c++ {
			validateStage(o, r, c)
		}
		dir, _ := os.Getwd()
		s, err := startServer(dir)
		if err != nil {
			o.Oracle(Meta{Stage: "http-start"}, false, "server did not start: "+err.Error())
			return
		}
		defer func() { s.stop() }()
		// GET /api/preferenceFunctions
		st, fb, _ := s.get("/api/preferenceFunctions")
		var fmap map[string]interface{}
		json.Unmarshal(fb, &fmap)
		okf := st == 200 && len(fmap) == 7
		for _, mn := range methodNames {
			if _, ok := fmap[mn]; !ok {
				okf = false
			}
		}
		o.Oracle(Meta{Stage: "functions", Input: J{"GET": "/api/preferenceFunctions"}, GoOut: string(fb)}, okf, "GET /api/preferenceFunctions does not list a schema for each of the seven methods")

		var history []string
		unanswered := 0
		send := func(m Meta, body []byte, expect int, what string) {
			if unanswered >= 3 {
				return // three requests without an answer have been reported: stop asking
			}
			o.Cases++
			history = append(history, truncate(string(body), 4000))
			if len(history) > 6 {
				history = history[1:]
			}
			st, resp, err := s.post(body)
			if err != nil {
				st = -1
				unanswered++
			}
			var parsed map[string]interface{}
			json.Unmarshal(resp, &parsed)
			m.GoOut = J{"status": st, "body_prefix": truncate(string(resp), 300)}
			shapeOK := true
			switch st {
			case 200:
				_, a := parsed["result"]
				_, b := parsed["biases"]
				shapeOK = a && b
			case 400:
				_, a := parsed["error"]
				_, b := parsed["request"]
				shapeOK = a && b
			default:
				shapeOK = false
			}
			ms := m
			ms.Stage = m.Stage + ":answered"
			o.Oracle(ms, shapeOK, "response is neither 200 {result,biases} nor 400 {error,request}")
			if expect != 0 {
				ms.Stage = m.Stage + ":status"
				o.Oracle(ms, st == expect, what)
			}
			ms.Stage = m.Stage + ":alive"
			alive := s.alive()
			if !alive {
				ms.Input = J{"request": m.Input, "preceding_request_bodies_oldest_first": append([]string{}, history...), "server_stderr_tail": s.stderrTail(3000)}
			}
			o.Oracle(ms, alive, "the server stopped answering after this request")
			if !alive {
				o.meta.Flush()
				s.stop()
				if s2, err := startServer(dir); err == nil {
					s = s2
				}
				return // never replay a server-killing body inside the harness process
			}
			if err != nil {
				return // unanswered over HTTP (already reported): never replay it inside the harness process
			}
			ist, _, timedOut := decideJSONTimeout(body, 5*time.Second)
			ms.Stage = m.Stage + ":same-as-inprocess"
			o.Oracle(ms, !timedOut && (ist == st || ist == 500), "HTTP status differs from the in-process verdict for the same body")
		}

		// resource probes on a dedicated, disposable server (a stalled handler spins forever)
		if ps, err := startServer(dir); err == nil {
			stall := []byte(`{"preferenceFunction":"aspectEliminationHeuristic","criteria":[{"id":"c","type":"gain"}],"knownAlternatives":[{"id":"a","criteria":{"c":1}},{"id":"b","criteria":{"c":2}},{"id":"d","criteria":{"c":2}}],"choseToMake":["a","b","d"],"methodParameters":{"function":"idealAdditiveCoefficient","params":{"coefficient":1e-18,"minValue":0.5,"maxValue":1},"weights":{"c":1}}}`)
			ps.client.Timeout = 3 * time.Second
			_, _, perr := ps.post(stall)
			ps.client.Timeout = 8 * time.Second
			var sj J
			json.Unmarshal(stall, &sj)
			o.Oracle(Meta{Stage: "resource:levels-series", Class: "levels-stall", Input: J{"request": sj}}, perr == nil, "no response within 3 s: aspiration series with coefficient 1e-18 does not make progress")
			o.Oracle(Meta{Stage: "resource:levels-series:alive", Input: J{"request": sj}}, ps.alive(), "server stopped answering other requests while one handler is stalled")
			// a choquet request naming many criteria without weights must be rejected at once
			var crit, vals = []interface{}{}, J{}
			for i := 0; i < 40; i++ {
				crit = append(crit, J{"id": "c" + itoa(i), "type": "gain"})
				vals["c"+itoa(i)] = 1
			}
			big := J{"preferenceFunction": "choquetIntegral", "criteria": crit, "knownAlternatives": []interface{}{J{"id": "a", "criteria": vals}}, "choseToMake": []string{"a"}, "methodParameters": J{"weights": J{"c0": 0.5}}}
			bj, _ := json.Marshal(big)
			ps.client.Timeout = 5 * time.Second
			bst, _, berr := ps.post(bj)
			o.Oracle(Meta{Stage: "resource:choquet-powerset", Input: J{"request": big}}, berr == nil && bst == 400, "choquet request with 40 criteria and missing weights was not rejected within 5 s")
			o.Oracle(Meta{Stage: "resource:choquet-powerset:alive", Input: J{"request": big}}, ps.alive(), "server died on a choquet request with 40 criteria")
			// parameters of one request must not survive into the next: an ELECTRE request that relies on the default
			// distillation function, asked before and after requests that state their own (one accepted, one rejected)
			el := func(dist interface{}) []byte {
				mp := J{"electreCriteria": J{"c0": J{"k": 3, "q": J{"b": 1}, "p": J{"b": 3}, "v": J{"b": 6}}, "c1": J{"k": 2, "q": J{"b": 1}, "p": J{"b": 3}}}}
				if dist != nil {
					mp["electreDistillation"] = dist
				}
				b, _ := json.Marshal(J{"preferenceFunction": "electreIII", "criteria": []interface{}{J{"id": "c0", "type": "gain"}, J{"id": "c1", "type": "gain"}},
					"knownAlternatives": []interface{}{J{"id": "a0", "criteria": J{"c0": 2, "c1": 4}}, J{"id": "a1", "criteria": J{"c0": 4, "c1": 1}}, J{"id": "a2", "criteria": J{"c0": -1, "c1": 2}}, J{"id": "a3", "criteria": J{"c0": 3, "c1": 3}}},
					"choseToMake":       []string{"a0", "a1", "a2", "a3"}, "methodParameters": mp})
				return b
			}
			plain := el(nil)
			st0, out0, err0 := ps.post(plain)
			seqOK := err0 == nil && st0 == 200
			var hist []string
			for _, d := range []interface{}{J{"a": 0, "b": 0}, J{"a": -0.2, "b": 0.1}, J{"a": 0.5, "b": -0.25}} {
				b := el(d)
				hist = append(hist, string(b))
				ps.post(b)
				st1, out1, err1 := ps.post(plain)
				seqOK = seqOK && err1 == nil && st1 == 200 && bytes.Equal(bytes.TrimSpace(out1), bytes.TrimSpace(out0))
			}
			{ // an ELECTRE parameter entry for a criterion that is not declared does not take part in the decision
				var ub J
				json.Unmarshal(plain, &ub)
				ub["methodParameters"].(J)["electreCriteria"].(J)["zz_undeclared"] = J{"k": -4}
				uj, _ := json.Marshal(ub)
				ps.client.Timeout = 8 * time.Second
				stU, outU, errU := ps.post(uj)
				okU := errU == nil && stU == 200 && bytes.Equal(bytes.TrimSpace(outU), bytes.TrimSpace(out0))
				o.Oracle(Meta{Stage: "resource:electre-undeclared-entry", Input: J{"request": ub}, Key: "electre-undeclared"}, okU && ps.alive(),
					"an ELECTRE request with a parameter entry for an undeclared criterion is not answered like the request without it (or the server stopped answering)")
				if !ps.alive() {
					ps.stop()
					if s2, err := startServer(dir); err == nil {
						ps = s2
					}
				}
			}
			{ // nothing to choose from: answered (the clean service says 400 "matrix is empty"), and the server lives on
				var eb J
				json.Unmarshal(plain, &eb)
				eb["choseToMake"] = []string{}
				ej, _ := json.Marshal(eb)
				stE, _, errE := ps.post(ej)
				o.Oracle(Meta{Stage: "resource:electre-empty-choice", Input: J{"request": eb}, Key: "electre-empty"}, errE == nil && (stE == 200 || stE == 400) && ps.alive(),
					"an ELECTRE request with an empty choseToMake got no answer or the server stopped answering")
				if !ps.alive() {
					ps.stop()
					if s2, err := startServer(dir); err == nil {
						ps = s2
					}
				}
			}
			o.Oracle(Meta{Stage: "sequence:electre-default-distillation", Input: J{"request": json.RawMessage(plain), "requests_in_between": hist}, Key: "seq-electre"},
				seqOK && ps.alive(), "an ELECTRE request relying on the default distillation function is answered differently (or not at all) after requests that stated their own function")
			ps.stop()
		}
		for c := 0; o.Cases < n && unanswered < 3; c++ {
			q := genRequest(r, ReqOpts{MaxBiases: 2, Biases: []string{"criteriaOmission", "preferenceReversal", "fatigue", "anchoring"},
				Methods: []string{"weightedSum", "owa", "choquetIntegral", "electreIII", "majorityHeuristic", "aspectEliminationHeuristic", "satisfactionHeuristic"}})
			if r.chance(0.06) {
				// degenerate range: every known alternative has the same value on a criterion without a declared range,
				// and a bias that rescales by value ranges fires
				cid := q.Problem.Criteria[r.Intn(len(q.Problem.Criteria))].Id
				v := float64(r.Intn(7))
				for _, a := range q.Body["knownAlternatives"].([]interface{}) {
					a.(J)["criteria"].(J)[cid] = v
				}
				for _, cj := range q.Body["criteria"].([]interface{}) {
					if cj.(J)["id"] == cid {
						delete(cj.(J), "valuesRange")
					}
				}
				lin := J{"function": "linear", "params": J{"a": 1, "b": 0.25}}
				q.Body["biases"] = []interface{}{J{"name": "anchoring", "props": J{
					"anchoringAlternatives": []interface{}{J{"alternative": q.Problem.Known[0].Id, "coefficient": 1}},
					"loss":                  lin, "gain": lin, "referencePoints": J{"function": []string{"ideal", "nadir"}[r.Intn(2)]},
					"applier": J{"function": "inline", "params": J{}}}}}
				o.count("degenerate-range+anchoring")
			}
			if q.Method == "choquetIntegral" || q.Method == "owa" {
				// criterion-adding biases always fail for these two methods (registered C07 findings): keep the base valid
				var kept []interface{}
				if bl, ok := q.Body["biases"].([]interface{}); ok {
					for _, b := range bl {
						if b.(J)["name"] != "anchoring" {
							kept = append(kept, b)
						}
					}
					q.Body["biases"] = kept
					if kept == nil {
						delete(q.Body, "biases")
					}
				}
			}
			// boundary-heavy variants: series that run up to the documented bounds, ties at the best value
			if q.Method == "aspectEliminationHeuristic" || q.Method == "satisfactionHeuristic" {
				mp := q.Body["methodParameters"].(J)
				if fn, _ := mp["function"].(string); fn != "thresholds" && r.chance(0.5) {
					par := mp["params"].(J)
					if q.Method == "aspectEliminationHeuristic" {
						par["maxValue"] = 1
						par["minValue"] = []float64{0, 0.5}[r.Intn(2)]
					} else {
						par["maxValue"] = 1
						par["minValue"] = []float64{0.0625, 0.5}[r.Intn(2)]
					}
					ka := q.Body["knownAlternatives"].([]interface{})
					if len(ka) >= 2 && r.chance(0.7) { // two alternatives tied at the ideal point
						best := J{}
						for _, cj := range q.Body["criteria"].([]interface{}) {
							id := cj.(J)["id"].(string)
							v := ka[0].(J)["criteria"].(J)[id].(float64)
							for _, a := range ka {
								w := a.(J)["criteria"].(J)[id].(float64)
								if (cj.(J)["type"] == "cost") == (w < v) {
									v = w
								}
							}
							best[id] = v
						}
						ka[0].(J)["criteria"], ka[1].(J)["criteria"] = best, cloneJ(best)
						q.Body["choseToMake"] = uniq(append(q.Problem.Chosen, ka[0].(J)["id"].(string), ka[1].(J)["id"].(string)))
					}
					o.count("boundary-series")
				}
			}
			// the base request must be valid: asked through the server (never replayed in-process first)
			bst, bbody, berr := s.post(q.JSON())
			if berr != nil || !s.alive() {
				m := Meta{Case: c, Stage: "valid:answered", Input: J{"request": q.Body, "preceding_request_bodies_oldest_first": append([]string{}, history...), "server_stderr_tail": s.stderrTail(3000)}, Key: string(q.JSON())}
				o.Oracle(m, false, "a generated request got no answer or the server stopped answering after it")
				o.meta.Flush()
				s.stop()
				if s2, err := startServer(dir); err == nil {
					s = s2
				}
				continue
			}
			if bst != 200 {
				// a generated request may be rejected for a reason the generator does not foresee, but never because the
				// decision it produced contains NaN/Inf (unless an exponential gain/loss function is configured)
				if strings.Contains(string(bbody), "unsupported value") && !strings.Contains(string(q.JSON()), "expFromZero") {
					m := Meta{Case: c, Stage: "valid:finite", Input: J{"request": q.Body}, Key: "nf" + string(q.JSON()), GoOut: truncate(string(bbody), 300)}
					o.Oracle(m, false, "a valid request was answered 400 because the decision contains a non-finite number")
				}
				continue
			}
			// valid request
			m := Meta{Case: c, Stage: "valid", Input: J{"request": q.Body}, Key: string(q.JSON())}
			send(m, q.JSON(), 200, "a valid request was not answered with 200")
			o.count("valid:" + q.Method)
			if q.Method == "electreIII" {
				// thresholds / weights given for a criterion nobody declared are not part of the problem
				vb := cloneJ(q.Body)
				vb["methodParameters"].(J)["electreCriteria"].(J)["zz_undeclared"] = J{"k": []float64{-4, -1, 2.5}[r.Intn(3)]}
				js, _ := json.Marshal(vb)
				send(Meta{Case: c, Stage: "weird", Input: J{"request": vb}, Key: "wu" + string(js)}, js, 0, "")
				o.count("weird:electre-undeclared-entry")
			}
			// every applicable documented violation, one at a time
			for _, v := range violations {
				// violations that fit one method only are always tried (their base requests are rare)
				methodSpecific := strings.HasPrefix(v.name, "choquet-") || strings.HasPrefix(v.name, "electre-") || strings.HasPrefix(v.name, "levels-") ||
					v.name == "unknown-levels-function" || v.name == "unknown-draw-resolution" || v.name == "unknown-current-choice"
				if !thorough && !methodSpecific && !r.chance(0.35) {
					continue
				}
				b := cloneJ(q.Body)
				// cloneJ turns []string into []interface{}; normalise what the injectors index
				ch := []string{}
				for _, x := range b["choseToMake"].([]interface{}) {
					ch = append(ch, x.(string))
				}
				b["choseToMake"] = ch
				b = normaliseJ(b)
				if !v.apply(r, b, q) {
					continue
				}
				js, _ := json.Marshal(b)
				m := Meta{Case: c, Stage: "violation", Class: v.name, Input: J{"violation": v.name, "request": b}, Key: v.name + string(js)}
				send(m, js, 400, "documented constraint '"+v.name+"' violated but the request was not rejected with 400")
				o.count("violation:" + v.name)
			}
			if c%3 == 0 { // known finding: constraints inside the props of a bias that does not fire are never checked
				b := normaliseJ(cloneJ(q.Body))
				bl, _ := b["biases"].([]interface{})
				b["biases"] = append(bl, J{"name": "criteriaOmission", "applyProbability": 0, "props": J{"ratio": 1.5, "ordering": "noSuchOrdering"}})
				js, _ := json.Marshal(b)
				send(Meta{Case: c, Stage: "violation", Class: "lazy-bias-props", Input: J{"violation": "ratio and ordering invalid on a bias with applyProbability 0", "request": b}, Key: "lazy" + string(js)},
					js, 400, "constraint violated inside the props of a bias that does not fire, request answered with a ranking")
				o.count("violation:lazy-bias-props")
			}
			if c%7 == 0 { // known finding: a missing weight goes unnoticed when a bias omits that criterion first
				for seed := 0; seed < 12; seed++ {
					lb := J{"preferenceFunction": "majorityHeuristic", "criteria": []interface{}{J{"id": "c1", "type": "gain"}, J{"id": "c0", "type": "gain"}},
						"knownAlternatives": []interface{}{J{"id": "a", "criteria": J{"c0": 1, "c1": 2}}, J{"id": "b", "criteria": J{"c0": 2, "c1": 1}}},
						"choseToMake":       []string{"a", "b"}, "methodParameters": J{"weights": J{"c1": 1}},
						"biases": []interface{}{J{"name": "criteriaOmission", "props": J{"ratio": 0.5, "ordering": "random", "randomSeed": seed}}}}
					js, _ := json.Marshal(lb)
					if st, _, err := s.post(js); err == nil && st == 200 {
						send(Meta{Case: c, Stage: "violation", Class: "lazy-missing-weight", Input: J{"violation": "weight of c0 missing; criteriaOmission (random ordering) omits c0 before any weight is looked up", "request": lb}, Key: "lazyw" + string(js)},
							js, 400, "a missing weight was not rejected because a bias omitted the criterion before the weight was looked up")
						o.count("violation:lazy-missing-weight")
						break
					}
				}
			}
			if c%4 == 0 {
				for _, wb := range weirdBodies(r, q) {
					js, _ := json.Marshal(wb)
					send(Meta{Case: c, Stage: "weird", Input: J{"request": wb}, Key: "w" + string(js)}, js, 0, "")
					o.count("weird")
				}
				{ // criteria that already carry the names the biases generate for added criteria
					base := []string{"__concealedCriterion__", "__c0+c1__"}[r.Intn(2)]
					pool := []string{base, base + "1", base + "2", base + "3", base + "4", "c0", "c1"}
					var cids []string
					for _, id := range pool {
						if r.chance(0.55) || id == "c0" {
							cids = append(cids, id)
						}
					}
					var crit []interface{}
					w, va, vb := J{}, J{}, J{}
					for i, id := range cids {
						crit = append(crit, J{"id": id, "type": "gain"})
						w[id], va[id], vb[id] = float64(1+i%3), float64(r.Intn(9)), float64(r.Intn(9))
					}
					var bl []interface{}
					for i, nb := 0, r.rangeInt(1, 3); i < nb; i++ {
						bl = append(bl, J{"name": "criteriaConcealment", "props": J{"randomSeed": r.Intn(100)}})
					}
					if base == "__c0+c1__" && len(cids) >= 2 {
						bl = []interface{}{J{"name": "criteriaMixing", "props": J{"randomSeed": r.Intn(100)}}}
					}
					rb := J{"preferenceFunction": []string{"weightedSum", "majorityHeuristic"}[r.Intn(2)], "criteria": crit,
						"knownAlternatives": []interface{}{J{"id": "a", "criteria": va}, J{"id": "b", "criteria": vb}},
						"choseToMake":       []string{"a", "b"}, "methodParameters": J{"weights": w}, "biases": bl}
					js, _ := json.Marshal(rb)
					send(Meta{Case: c, Stage: "reserved-names", Input: J{"request": rb}, Key: "rn" + string(js)}, js, 0, "")
					o.count("reserved-names")
				}
				for _, mb := range malformed {
					send(Meta{Case: c, Stage: "malformed", Input: J{"raw_body": mb}, Key: "m" + mb}, []byte(mb), 400, "malformed JSON was not rejected with 400")
					o.count("malformed")
				}
				// truncated valid body
				js := q.JSON()
				cut := js[:r.rangeInt(1, len(js)-1)]
				send(Meta{Case: c, Stage: "malformed", Input: J{"raw_body": string(cut)}, Key: "t" + string(cut)}, cut, 400, "truncated JSON was not rejected with 400")
			}
		}
	}
}

var _ = strings.Contains
