//go:build verif

package main

import (
	"math"

	aspect_elimination "github.com/Azbesciak/RealDecisionMaker/lib/logic/limited-rationality/aspect-elimination"
	"github.com/Azbesciak/RealDecisionMaker/lib/logic/limited-rationality/satisfaction"
	satisfaction_levels "github.com/Azbesciak/RealDecisionMaker/lib/logic/limited-rationality/satisfaction-levels"
	"github.com/Azbesciak/RealDecisionMaker/lib/model"
)

func heurRankingJSON(rk *model.AlternativesRanking) interface{} {
	out := []interface{}{}
	for _, e := range *rk {
		out = append(out, map[string]interface{}{"id": e.Alternative.Id, "evaluation": e.Evaluation, "betterThanOrSameAs": e.BetterThanOrSameAs})
	}
	return out
}

func heurMaxAbs(v ...float64) float64 {
	m := 1.0
	for _, x := range v {
		if math.Abs(x) > m {
			m = math.Abs(x)
		}
	}
	return m
}

// heurNearEps: |x| so close to the 1e-6 tolerance that float and exact arithmetic may decide differently
func heurNearEps(x, scale float64) bool {
	return math.Abs(math.Abs(x)-1e-6) < 1e-9*scale
}

// heuristic-specific shaping of the generated request (weights that make score draws likely,
// a few malformed configurations that both sides must reject)
func heurShapeWeights(r *Rng, w J) {
	switch k := r.Intn(100); {
	case k < 20: // all equal: every comparison with as many wins on both sides is a draw
		for _, c := range sortedJKeys(w) {
			w[c] = 1.0
		}
	case k < 40: // two levels
		for _, c := range sortedJKeys(w) {
			w[c] = float64(1 + r.Intn(2))
		}
	case k < 60: // equal up to less than eps: score draws with unequal sums (|s1-s2| < 1e-6, != 0)
		for _, c := range sortedJKeys(w) {
			w[c] = 1 + float64(r.Intn(5)-2)*2e-7
		}
	case k < 65: // a zero / negative weight
		for _, c := range sortedJKeys(w) {
			if r.chance(0.4) {
				w[c] = float64(r.Intn(3) - 1)
			}
		}
	}
}

// heurShapeProblem: the shared generator leaves one considered alternative in >20% of the cases; widen
// most of those to all known alternatives (shuffled), keeping Problem.Chosen in step with the body.
func heurShapeProblem(r *Rng, q *Req) {
	if len(q.Problem.Chosen) < 2 && len(q.Problem.Known) >= 2 && r.chance(0.8) {
		names := make([]string, len(q.Problem.Known))
		for i, a := range q.Problem.Known {
			names[i] = a.Id
		}
		q.Problem.Chosen = r.shuffled(names)
		if r.chance(0.5) && len(names) > 2 {
			q.Problem.Chosen = q.Problem.Chosen[:len(names)-1]
		}
		q.Body["choseToMake"] = append([]string{}, q.Problem.Chosen...)
	}
}

// heurShapeCurrent re-draws currentChoice: absent / considered / known-but-not-considered, evenly.
func heurShapeCurrent(r *Rng, q *Req, mp J) {
	delete(mp, "currentChoice")
	switch r.Intn(3) {
	case 1:
		mp["currentChoice"] = q.Problem.Chosen[r.Intn(len(q.Problem.Chosen))]
	case 2:
		var nc []string
		for _, a := range q.Problem.Known {
			if !heurContains(q.Problem.Chosen, a.Id) {
				nc = append(nc, a.Id)
			}
		}
		if len(nc) > 0 {
			mp["currentChoice"] = nc[r.Intn(len(nc))]
		} else {
			mp["currentChoice"] = q.Problem.Chosen[r.Intn(len(q.Problem.Chosen))]
		}
	}
}

// heurShapeLevels re-draws the parameters of a coefficient series so that most series are non-empty
// and several levels long (the shared generator yields min >= max half of the time).
func heurShapeLevels(r *Rng, mp J, increasing bool) {
	if mp["function"] == "thresholds" || !r.chance(0.75) {
		return
	}
	par := J{"coefficient": []float64{0.5, 0.25, 0.125, 0.75, 0.3, 0.1, 0.9, 0.0625}[r.Intn(8)]}
	lows := []float64{0, 0.0625, 0.125, 0.25, 0.3}
	highs := []float64{1, 0.875, 0.75, 0.5, 0.9}
	lo, hi := lows[r.Intn(len(lows))], highs[r.Intn(len(highs))]
	if !increasing && lo == 0 {
		lo = 0.03125
	}
	par["minValue"], par["maxValue"] = lo, hi
	mp["params"] = par
}

func heurCurrentKind(p *Problem, cur string) string {
	if cur == "" {
		return "absent"
	}
	for _, c := range p.Chosen {
		if c == cur {
			return "considered"
		}
	}
	for _, a := range p.Known {
		if a.Id == cur {
			return "known-not-considered"
		}
	}
	return "unknown"
}

func heurMinInt(a, b int) int {
	if a < b {
		return a
	}
	return b
}

func heurContains(l []string, s string) bool {
	for _, x := range l {
		if x == s {
			return true
		}
	}
	return false
}

// heurGoLevels drives a real levels source: Find + Initialize + HasNext/Next (hard cap).
// capped=true: the series did not end within the cap.
func heurGoLevels(sources []satisfaction_levels.SatisfactionLevelsSource, fn string, params interface{},
	d *model.DecisionMakingParams) (levels []model.Weights, msg string, capped bool) {
	msg = recoverErr(func() {
		s := satisfaction_levels.Find(fn, params, sources)
		s.Initialize(d)
		for s.HasNext() {
			if len(levels) >= levelsCap {
				capped = true
				return
			}
			levels = append(levels, s.Next())
		}
	})
	return
}

func heurLevelsSX(levels []model.Weights) SX {
	out := make(sxList, len(levels))
	for i, l := range levels {
		out[i] = KMapF(l)
	}
	return out
}

func heurLevelsResSX(levels []model.Weights, msg string) SX {
	return resSX(msg, func() SX { return heurLevelsSX(levels) })
}

func heurWeightsDistinct(cs model.Criteria, w model.Weights) bool {
	seen := map[float64]bool{}
	for _, c := range cs {
		v, ok := w[c.Id]
		if !ok {
			continue
		}
		if seen[v] {
			return false
		}
		seen[v] = true
	}
	return true
}

// heurCoarsen rewrites the alternatives' values to a few small integers (many ties / same-check
// eliminations); keeps declared ranges consistent by dropping them.
func heurCoarsen(r *Rng, q *Req, levels int) {
	known := q.Body["knownAlternatives"].([]interface{})
	for _, a := range known {
		vals := a.(J)["criteria"].(J)
		for _, k := range sortedJKeys(vals) {
			vals[k] = float64(r.Intn(levels))
		}
	}
	for _, c := range q.Body["criteria"].([]interface{}) {
		delete(c.(J), "valuesRange")
	}
}

// heurExplicitThresholds: n levels, per criterion a value from the same coarse grid as the alternatives,
// monotone in the direction the heuristic expects (not required by the code)
func heurExplicitThresholds(r *Rng, q *Req, grid int, increasing bool) J {
	n := r.rangeInt(0, 4)
	ts := make([]interface{}, n)
	for i := 0; i < n; i++ {
		t := J{}
		for _, c := range q.Problem.Criteria {
			step := float64(i+1) * float64(grid) / float64(n+1)
			if !increasing {
				step = float64(grid) - step
			}
			v := step
			if r.chance(0.5) {
				v = float64(int(step))
			}
			if c.Type == model.Cost {
				v = float64(grid) - v
			}
			t[c.Id] = v
		}
		ts[i] = t
	}
	return J{"thresholds": ts}
}

const levelsCap = 200000

const heurDraws = 64

func aspEntriesSX(rk *model.AlternativesRanking) SX {
	out := make(sxList, len(*rk))
	for i, e := range *rk {
		ev := e.Evaluation.(aspect_elimination.AspectEliminationEvaluation)
		out[i] = L(Str(e.Alternative.Id), Int(int64(ev.ThresholdsIndex)), KMapF(ev.NotSatisfiedThreshold), Strs(e.BetterThanOrSameAs))
	}
	return out
}

func satEntriesSX(rk *model.AlternativesRanking) SX {
	out := make(sxList, len(*rk))
	for i, e := range *rk {
		ev := e.Evaluation.(satisfaction.SatisfactionEvaluation)
		out[i] = L(Str(e.Alternative.Id), Int(int64(ev.ThresholdsIndex)), KMapF(ev.SatisfiedThresholds), Strs(e.BetterThanOrSameAs))
	}
	return out
}

// heurConsideredOrder: the considered alternatives handed to a heuristic are the request's `choseToMake`, in
// the request's order (the fixed search order is defined by it)
func heurConsideredOrder(o *Out, m Meta, dm *model.DecisionMaker, d *model.DecisionMakingParams) {
	ok := len(d.ConsideredAlternatives) == len(dm.ChoseToMake)
	for i := 0; ok && i < len(dm.ChoseToMake); i++ {
		ok = d.ConsideredAlternatives[i].Id == dm.ChoseToMake[i]
	}
	m.Stage = "considered-in-request-order"
	o.Oracle(m, ok, "the considered alternatives are not the request's choseToMake in the request's order")
}
