//go:build verif && (c10 || allprops)

package main

import (
	"bytes"
	"encoding/json"
	"os"
	"sync"
)

// C10: concurrent requests do not influence each other.  Supporting runs on the real code (the proof
// part is Props/C10.lean + regenerated facts): the binary is built with -race;
//   in-process : k goroutines call what decideHandler calls, on mixed valid / invalid / identical requests
//   http       : a real server process (gin) is hit by k concurrent clients
// every response must equal the one the same request gets sequentially; race reports must be empty.

func init() {
	props["C10"] = func(o *Out, r *Rng, n int, thorough bool) {
		dir, _ := os.Getwd()
		ks := []int{2, 8}
		if thorough {
			ks = []int{2, 8, 32}
		}
		// request pool: valid requests of every method/bias, rejected ones, duplicates
		var pool [][]byte
		var bodies []J
		for len(pool) < n {
			q := genRequest(r, ReqOpts{MaxBiases: 3})
			c02Invalidate(r, q)
			if r.chance(0.1) {
				q.Body["preferenceFunction"] = "noSuchMethod"
			}
			if r.chance(0.05) {
				q.Body["criteria"] = append(q.Body["criteria"].([]interface{}), q.Body["criteria"].([]interface{})[0])
			}
			b := q.JSON()
			reps := 1
			if r.chance(0.2) {
				reps = 3 // identical requests running simultaneously
			}
			for i := 0; i < reps; i++ {
				pool = append(pool, b)
				bodies = append(bodies, q.Body)
			}
		}
		type ans struct {
			st   int
			body []byte
		}
		seq := make([]ans, len(pool))
		for i, b := range pool {
			st, out := decideJSON(b)
			seq[i] = ans{st, out}
			if st == 200 {
				o.count("valid")
			} else {
				o.count("rejected")
			}
		}
		// "one at a time": the reference is also taken from a process that has handled nothing else — a request
		// whose sequential answer already depends on its neighbours (a default overwritten by another request's
		// parameters, a registry re-ordered by a rejected request) would otherwise be compared with itself
		solo := 60
		if thorough {
			solo = 300
		}
		for i := 0; i < len(pool) && i < solo; i++ {
			s1, err := startStdio()
			if err != nil {
				break
			}
			st, out, err := s1.ask(pool[i])
			s1.stop()
			if err != nil {
				continue
			}
			same := st == seq[i].st && (st != 200 || bytes.Equal(bytes.TrimSpace(out), bytes.TrimSpace(seq[i].body)))
			m := Meta{Case: i, Stage: "solo-process", Input: J{"request": bodies[i], "preceding_requests": len(pool[:i])}, Key: "solo" + string(pool[i])}
			if !same {
				prev := []string{}
				for j := i - 1; j >= 0 && len(prev) < 6; j-- {
					prev = append([]string{string(pool[j])}, prev...)
				}
				m.Input = J{"request": bodies[i], "preceding_request_bodies_oldest_first": prev}
				m.GoOut = J{"alone": truncate(string(out), 1500), "after_the_others": truncate(string(seq[i].body), 1500)}
			}
			o.Oracle(m, same, "the response of a request handled alone in a fresh process differs from its response after other requests")
			o.count("solo-process")
		}
		canonErr := func(a ans) string { // rejected requests: compare the verdict only (message may list map keys in any order)
			if a.st == 200 {
				return string(a.body)
			}
			return "rejected"
		}
		for _, k := range ks {
			// ---- in-process
			got := make([]ans, len(pool))
			var wg sync.WaitGroup
			for w := 0; w < k; w++ {
				wg.Add(1)
				go func(w int) {
					defer wg.Done()
					for i := w; i < len(pool); i += k {
						st, out := decideJSON(pool[i])
						got[i] = ans{st, out}
					}
				}(w)
			}
			wg.Wait()
			for i := range pool {
				o.Cases++
				m := Meta{Case: i, Stage: "inprocess-k" + itoa(k), Input: J{"request": bodies[i], "clients": k}, Key: string(pool[i]) + itoa(k)}
				o.Oracle(m, got[i].st == seq[i].st && canonErr(got[i]) == canonErr(seq[i]), "response under concurrency differs from the sequential response")
			}
			// ---- through a real server
			s, err := startServer(dir)
			if err != nil {
				o.Oracle(Meta{Stage: "http-start"}, false, "server did not start: "+err.Error())
				continue
			}
			hgot := make([]ans, len(pool))
			for w := 0; w < k; w++ {
				wg.Add(1)
				go func(w int) {
					defer wg.Done()
					for i := w; i < len(pool); i += k {
						st, out, err := s.post(pool[i])
						if err != nil {
							st = -1
						}
						hgot[i] = ans{st, out}
					}
				}(w)
			}
			wg.Wait()
			for i := range pool {
				m := Meta{Case: i, Stage: "http-k" + itoa(k), Input: J{"request": bodies[i], "clients": k}, Key: "h" + string(pool[i]) + itoa(k)}
				ok := false
				if seq[i].st == 200 {
					// gin writes the same JSON encoding as json.Marshal (+ nothing else)
					var a, b interface{}
					ok = hgot[i].st == 200 && json.Unmarshal(hgot[i].body, &a) == nil && json.Unmarshal(seq[i].body, &b) == nil && bytes.Equal(bytes.TrimSpace(hgot[i].body), bytes.TrimSpace(seq[i].body))
				} else {
					ok = hgot[i].st == 400
				}
				o.Oracle(m, ok, "HTTP response under concurrency differs from the sequential response")
			}
			races := s.raceReports()
			alive := s.alive()
			tail := ""
			if races > 0 || !alive {
				tail = s.stderrTail(6000)
			}
			s.stop()
			o.Oracle(Meta{Stage: "http-race-k" + itoa(k), Input: J{"clients": k, "server_stderr_tail": tail}}, races == 0, "race detector reported data races in the server process")
			o.Oracle(Meta{Stage: "http-alive-k" + itoa(k), Input: J{"clients": k, "server_stderr_tail": tail}}, alive, "server stopped answering after the concurrent load")
		}
	}
}
