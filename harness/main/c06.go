//go:build verif && (c06 || allprops)

package main

import (
	"math"

	"github.com/Azbesciak/RealDecisionMaker/lib/logic/preference-func/electreIII"
	"github.com/Azbesciak/RealDecisionMaker/lib/model"
)

// C06 — ELECTRE III respects dominance, equality and listing order.  Metamorphic oracles on the real
// code (in-domain problems only: constant thresholds 0 <= q < p < v, k > 0, s >= 0 on [0,1], slope <= 0):
//   dominance    a weakly dominates b on every criterion (signed values) ⇒ asc(a) <= asc(b),
//                desc(a) <= desc(b), b ∈ betterThanOrSameAs(a)         — every such pair of the problem
//   identical    identical alternatives get identical indices and list each other
//   permutation  listing the alternatives in another order permutes the indices accordingly
//                (direct call, and knownAlternatives / choseToMake through ParseParams + Evaluate)
//   scaling      multiplying every weight k by 2^j, j ∈ -3..3, leaves all indices and links unchanged
// plus the matrix and end-to-end correspondence of C05 on the same problems (ties the C06 theorems,
// which are about the model, to the code).

type eOut struct {
	asc, desc int
	links     []string
}

func electreByID(rk *model.AlternativesRanking) map[string]eOut {
	out := map[string]eOut{}
	for _, e := range *rk {
		ev := e.Evaluation.(electreIII.ElectreIIIEvaluation)
		out[e.Alternative.Id] = eOut{ev.AscendingIndex, ev.DescendingIndex, e.BetterThanOrSameAs}
	}
	return out
}

func sameOutcome(a, b map[string]eOut) (bool, string) {
	if len(a) != len(b) {
		return false, "number of entries differs"
	}
	for id, x := range a {
		y, ok := b[id]
		if !ok {
			return false, "alternative " + id + " missing"
		}
		if x.asc != y.asc {
			return false, "ascendingIndex of " + id + " differs: " + itoa(x.asc) + " vs " + itoa(y.asc)
		}
		if x.desc != y.desc {
			return false, "descendingIndex of " + id + " differs: " + itoa(x.desc) + " vs " + itoa(y.desc)
		}
		if !sameSet(x.links, y.links) {
			return false, "betterThanOrSameAs of " + id + " differs"
		}
	}
	return true, ""
}

// signed comparison of two alternatives: a at least as good as b on every criterion
func weaklyDominates(a, b *model.AlternativeWithCriteria, crits model.Criteria) bool {
	for i := range crits {
		if a.CriterionValue(&crits[i]) < b.CriterionValue(&crits[i]) {
			return false
		}
	}
	return true
}

func identicalAlts(a, b *model.AlternativeWithCriteria, crits model.Criteria) bool {
	for _, c := range crits {
		if a.Criteria[c.Id] != b.Criteria[c.Id] {
			return false
		}
	}
	return true
}

func contains(l []string, s string) bool {
	for _, x := range l {
		if x == s {
			return true
		}
	}
	return false
}

// worsened (dir=-1) or improved (dir=+1) copy of w on a random subset of the criteria
func shiftedCopy(r *Rng, w model.Weights, crits model.Criteria, dir float64) model.Weights {
	c := copyW(w)
	mode := r.Intn(4)
	for _, cr := range crits {
		var d float64
		switch {
		case mode == 0: // identical
			d = 0
		case r.chance(0.5):
			d = 0
		case mode == 1:
			d = float64(r.rangeInt(1, 6)) / 2
		case mode == 2:
			d = float64(r.rangeInt(1, 12)) / 4
		default:
			d = math.Abs(r.value())
		}
		c[cr.Id] += dir * d * float64(cr.Multiplier())
	}
	return c
}

func injectPairs(r *Rng, p *eProblem) {
	na := len(p.alts)
	for k := r.rangeInt(1, 3); k > 0; k-- {
		i, j := r.Intn(na), r.Intn(na)
		if i == j {
			continue
		}
		dir := -1.0
		if r.chance(0.4) {
			dir = 1
		}
		p.alts[j].Criteria = shiftedCopy(r, p.alts[i].Criteria, p.crits, dir)
	}
}

func runElectre(p *eProblem, alts []model.AlternativeWithCriteria, ec electreIII.ElectreCriteria, d eDist) (map[string]eOut, *model.AlternativesRanking, string) {
	var rk *model.AlternativesRanking
	in := copyAlts(alts)
	msg := recoverErr(func() { rk = electreIII.ElectreIII(in, p.crits, &ec, d.f) })
	if msg != "" {
		return nil, nil, msg
	}
	return electreByID(rk), rk, ""
}

func c06Case(o *Out, r *Rng, c int, maxAlt, maxCrit int, thorough bool) {
	p := genEProblem(r, maxAlt, maxCrit, true)
	for len(p.alts) < 2 {
		p = genEProblem(r, maxAlt, maxCrit, true)
	}
	if r.chance(0.85) {
		injectPairs(r, p)
	}
	d := genDist(r)
	in := p.json()
	in["distillation"] = d.json()
	altS, critS, ecS := altsSX(p.alts), critsSX(p.crits), ecSX(p.ec)
	opE := L(A("electre-e2e"), altS, critS, ecS, d.sx())
	m := Meta{Case: c, Input: in, Key: sxString(opE)}
	o.count("alts=" + itoa(len(p.alts)))
	o.count("crits=" + itoa(len(p.crits)))
	base, rk, msg := runElectre(p, p.alts, p.ec, d)
	m.Stage = "e2e"
	if msg != "" {
		o.Oracle(m, false, "ElectreIII panicked on an in-domain problem: "+msg)
		return
	}
	m.GoOut = rankingJSON(rk)
	o.Corr(m, opE, okSX(L(A("ok"), electreRankingSX(rk))))
	var mat *electreIII.AlternativesMatrix
	if recoverErr(func() { mat = electreIII.VerifCredibilityMatrix(&p.alts, &p.crits, &p.ec) }) == "" {
		m.Stage = "matrix"
		o.Corr(m, L(A("electre-matrix"), altS, critS, ecS), okSX(L(A("ok"), matrixSX(mat.Values.Size, mat.Values.Data))))
	}

	// (a) dominance and (b) identity over every ordered pair
	domOk, domClause, idOk, idClause := true, "", true, ""
	nDom, nStrict, nId := 0, 0, 0
	for i := range p.alts {
		for j := range p.alts {
			if i == j {
				continue
			}
			a, b := &p.alts[i], &p.alts[j]
			ra, rb := base[a.Id], base[b.Id]
			if weaklyDominates(a, b, p.crits) {
				nDom++
				if !weaklyDominates(b, a, p.crits) {
					nStrict++
				}
				switch {
				case ra.asc > rb.asc:
					domOk, domClause = false, a.Id+" dominates "+b.Id+" but ascendingIndex "+itoa(ra.asc)+" > "+itoa(rb.asc)
				case ra.desc > rb.desc:
					domOk, domClause = false, a.Id+" dominates "+b.Id+" but descendingIndex "+itoa(ra.desc)+" > "+itoa(rb.desc)
				case !contains(ra.links, b.Id):
					domOk, domClause = false, a.Id+" dominates "+b.Id+" but does not list it in betterThanOrSameAs"
				}
			}
			if identicalAlts(a, b, p.crits) {
				nId++
				if ra.asc != rb.asc || ra.desc != rb.desc {
					idOk, idClause = false, "identical alternatives "+a.Id+", "+b.Id+" got different indices"
				} else if !contains(ra.links, b.Id) {
					idOk, idClause = false, "identical alternatives "+a.Id+", "+b.Id+": "+a.Id+" does not list "+b.Id
				}
			}
		}
	}
	if nDom > 0 {
		m.Stage = "dominance"
		o.Oracle(m, domOk, domClause)
		o.count("dominance:problems-with-dominated-pair")
		if nStrict > 0 {
			o.count("dominance:problems-with-strictly-dominated-pair")
		}
	}
	if nId > 0 {
		m.Stage = "identical"
		o.Oracle(m, idOk, idClause)
		o.count("identical:problems-with-identical-pair")
	}
	classes := map[int]bool{}
	for _, e := range base {
		classes[e.asc] = true
	}
	if len(classes) < len(p.alts) {
		o.count("ex-aequo-in-ascending")
	}

	// (c) permutation of the listing order
	perm := r.Perm(len(p.alts))
	alts2 := make([]model.AlternativeWithCriteria, len(p.alts))
	for i, k := range perm {
		alts2[i] = p.alts[k]
	}
	m.Stage = "permutation"
	got, _, msg := runElectre(p, alts2, p.ec, d)
	if msg != "" {
		o.Oracle(m, false, "ElectreIII panicked after permuting the alternatives: "+msg)
	} else {
		ok, clause := sameOutcome(base, got)
		o.Oracle(m, ok, "after permuting the alternatives: "+clause)
	}
	if r.chance(0.3) { // knownAlternatives and choseToMake permuted independently, through the registry
		known := make([]model.AlternativeWithCriteria, len(p.alts))
		for i, k := range r.Perm(len(p.alts)) {
			known[i] = p.alts[k]
		}
		chosen := make([]string, len(p.alts))
		for i, k := range r.Perm(len(p.alts)) {
			chosen[i] = p.alts[k].Id
		}
		mp := model.RawMethodParameters{"electreCriteria": ecJSON(p.ec)}
		if !d.isDefault {
			mp["electreDistillation"] = map[string]interface{}{"a": d.f.A, "b": d.f.B}
		}
		dm := &model.DecisionMaker{PreferenceFunction: "electreIII", KnownAlternatives: copyAlts(known), ChoseToMake: chosen,
			Criteria: p.crits, MethodParameters: mp}
		m.Stage = "permutation-registry"
		dmp, msg := prepareDMP(dm)
		if msg != "" {
			o.Oracle(m, false, "ParseParams rejected an in-domain problem: "+msg)
		} else {
			var rk2 *model.AlternativesRanking
			msg = recoverErr(func() { rk2 = (*funcs.Fetch("electreIII")).Evaluate(dmp) })
			if msg != "" {
				o.Oracle(m, false, "Evaluate panicked: "+msg)
			} else {
				ok, clause := sameOutcome(base, electreByID(rk2))
				o.Oracle(m, ok, "knownAlternatives/choseToMake permuted: "+clause)
			}
		}
	}

	// (d) weights times a power of two
	js := []int{-3, -2, -1, 1, 2, 3}
	if !thorough {
		js = []int{js[r.Intn(6)], js[r.Intn(6)]}
	}
	m.Stage = "scaling"
	for _, j := range js {
		ec2 := electreIII.ElectreCriteria{}
		for k, e := range p.ec {
			e.K = e.K * math.Pow(2, float64(j))
			ec2[k] = e
		}
		got, _, msg := runElectre(p, p.alts, ec2, d)
		if msg != "" {
			o.Oracle(m, false, "ElectreIII panicked after scaling the weights: "+msg)
			continue
		}
		ok, clause := sameOutcome(base, got)
		o.Oracle(m, ok, "weights times 2^"+itoa(j)+": "+clause)
	}
}

func init() {
	props["C06"] = func(o *Out, r *Rng, n int, thorough bool) {
		maxAlt, maxCrit := 8, 5
		if thorough {
			maxAlt, maxCrit = 10, 7
		}
		for c := 0; c < n; c++ {
			o.Cases++
			c06Case(o, r, c, maxAlt, maxCrit, thorough)
		}
	}
}
