//go:build verif

package main

import "os"

// This file must sort last among the package's files: Go runs init() functions in file-name order and
// the take-over below must run after every property file has registered itself.
func init() {
	if os.Getenv("RDM_VERIF") == "" {
		return
	}
	os.Exit(verifMain(os.Args[1:]))
}
