//go:build verif

package main

import (
	"math/rand"
	"sort"

	"github.com/Azbesciak/RealDecisionMaker/lib/model"
)

// (id type) | (id type min max)
func critSX(c model.Criterion) SX {
	if c.ValuesRange == nil {
		return L(Str(c.Id), Str(string(c.Type)))
	}
	return L(Str(c.Id), Str(string(c.Type)), Num(c.ValuesRange.Min), Num(c.ValuesRange.Max))
}

func critsSX(cs model.Criteria) SX {
	r := make(sxList, len(cs))
	for i, c := range cs {
		r[i] = critSX(c)
	}
	return r
}

// (id ((crit value) ...))
func altSX(a model.AlternativeWithCriteria) SX {
	return L(Str(a.Id), KMapF(a.Criteria))
}

func altsSX(as []model.AlternativeWithCriteria) SX {
	r := make(sxList, len(as))
	for i, a := range as {
		r[i] = altSX(a)
	}
	return r
}

func wcritSX(c model.WeightedCriterion) SX { return L(critSX(c.Criterion), Num(c.Weight)) }
func wcritsSX(cs model.WeightedCriteria) SX {
	r := make(sxList, len(cs))
	for i, c := range cs {
		r[i] = wcritSX(c)
	}
	return r
}

// stage result that may panic: (ok v) | (err)
func resSX(msg string, v func() SX) SX {
	if msg != "" {
		return L(A("err"))
	}
	return L(A("ok"), v())
}

// sortedJKeys: keys of a JSON object in sorted order (generators must never draw in map-iteration order)
func sortedJKeys(m J) []string {
	ks := make([]string, 0, len(m))
	for k := range m {
		ks = append(ks, k)
	}
	sort.Strings(ks)
	return ks
}

func sortedKeys(m map[string]float64) []string {
	keys := make([]string, 0, len(m))
	for k := range m {
		keys = append(keys, k)
	}
	sort.Strings(keys)
	return keys
}

func copyW(m model.Weights) model.Weights {
	r := make(model.Weights, len(m))
	for k, v := range m {
		r[k] = v
	}
	return r
}

func copyAlts(as []model.AlternativeWithCriteria) []model.AlternativeWithCriteria {
	r := make([]model.AlternativeWithCriteria, len(as))
	for i, a := range as {
		r[i] = model.AlternativeWithCriteria{Id: a.Id, Criteria: copyW(a.Criteria)}
	}
	return r
}

// (nc co crit mp) — a DecisionMakingParams
func dmpSX(d *model.DecisionMakingParams) SX {
	return L(altsSX(d.NotConsideredAlternatives), altsSX(d.ConsideredAlternatives), critsSX(d.Criteria), paramsSX(d.MethodParameters))
}

// prepareDMP does what DecisionMaker.prepareParams does (validation included), for stage tests that
// need a real DecisionMakingParams with the method's own parsed parameters.
func prepareDMP(dm *model.DecisionMaker) (*model.DecisionMakingParams, string) {
	var d *model.DecisionMakingParams
	msg := recoverErr(func() {
		dm.Criteria.Validate()
		pf := funcs.Fetch(dm.PreferenceFunction)
		d = &model.DecisionMakingParams{
			NotConsideredAlternatives: *dm.NotConsideredAlternatives(),
			ConsideredAlternatives:    *dm.AlternativesToConsider(),
			Criteria:                  dm.Criteria,
			MethodParameters:          (*pf).ParseParams(dm),
		}
	})
	return d, msg
}

// draws returns the first k numbers of the generator every seeded component of the service uses.
// The streams handed to the model come straight from math/rand (what the documentation promises: a seeded
// generator per request seed), NOT from the repo's generator helper — so that helper is itself under test.
func draws(seed int64, k int) []float64 {
	g := rand.New(rand.NewSource(seed)).Float64
	out := make([]float64, k)
	for i := range out {
		out[i] = g()
	}
	return out
}

func drawsGen(seed int64) func() float64 { return rand.New(rand.NewSource(seed)).Float64 }
