//go:build verif

package main

import (
	"sort"

	"github.com/Azbesciak/RealDecisionMaker/lib/model"
)

// (id type) | (id type min max)
func critSX(c model.Criterion) SX {
	if c.ValuesRange == nil {
		return L(Str(c.Id), Str(string(c.Type)))
	}
	return L(Str(c.Id), Str(string(c.Type)), Num(c.ValuesRange.Min), Num(c.ValuesRange.Max))
}

func critsSX(cs model.Criteria) SX {
	r := make(sxList, len(cs))
	for i, c := range cs {
		r[i] = critSX(c)
	}
	return r
}

// (id ((crit value) ...))
func altSX(a model.AlternativeWithCriteria) SX {
	return L(Str(a.Id), KMapF(a.Criteria))
}

func altsSX(as []model.AlternativeWithCriteria) SX {
	r := make(sxList, len(as))
	for i, a := range as {
		r[i] = altSX(a)
	}
	return r
}

func wcritSX(c model.WeightedCriterion) SX { return L(critSX(c.Criterion), Num(c.Weight)) }
func wcritsSX(cs model.WeightedCriteria) SX {
	r := make(sxList, len(cs))
	for i, c := range cs {
		r[i] = wcritSX(c)
	}
	return r
}

// stage result that may panic: (ok v) | (err)
func resSX(msg string, v func() SX) SX {
	if msg != "" {
		return L(A("err"))
	}
	return L(A("ok"), v())
}

func sortedKeys(m map[string]float64) []string {
	keys := make([]string, 0, len(m))
	for k := range m {
		keys = append(keys, k)
	}
	sort.Strings(keys)
	return keys
}

func copyW(m model.Weights) model.Weights {
	r := make(model.Weights, len(m))
	for k, v := range m {
		r[k] = v
	}
	return r
}

func copyAlts(as []model.AlternativeWithCriteria) []model.AlternativeWithCriteria {
	r := make([]model.AlternativeWithCriteria, len(as))
	for i, a := range as {
		r[i] = model.AlternativeWithCriteria{Id: a.Id, Criteria: copyW(a.Criteria)}
	}
	return r
}
