//go:build verif

package main

import (
	"encoding/json"
	"fmt"
	"reflect"
	"sort"
	"strings"
)

// ---------- what the client sees ----------
// The decision is a Go value; the client receives its JSON encoding.  A field that silently disappears
// (`omitempty` on a value that may be zero or empty), is renamed, or is re-formatted by a custom marshaller
// changes the response although every Go-level value is right.  pinEncode re-encodes the library's decision
// WITHOUT encoding/json: member names and omit rules come from the table pinned in pinned_tags.go (generated
// once from the pinned tree by `harness dumptags`), values are taken by reflection.  The handler's raw JSON
// must parse to exactly this tree.

type pinStats struct {
	unpinned map[string]bool
}

func pinKey(t reflect.Type, f reflect.StructField) string {
	p := t.PkgPath()
	if i := strings.LastIndex(p, "/"); i >= 0 {
		p = p[i+1:]
	}
	return p + "." + t.Name() + "." + f.Name
}

func pinTag(t reflect.Type, f reflect.StructField, st *pinStats) (name string, omitempty, skip bool) {
	tag, ok := pinnedTags[pinKey(t, f)]
	if !ok {
		tag = f.Tag.Get("json")
		if st != nil {
			st.unpinned[pinKey(t, f)] = true
		}
	}
	parts := strings.Split(tag, ",")
	name = parts[0]
	if name == "-" && len(parts) == 1 {
		return "", false, true
	}
	if name == "" {
		name = f.Name
	}
	for _, o := range parts[1:] {
		if o == "omitempty" {
			omitempty = true
		}
	}
	return name, omitempty, false
}

func pinEmpty(v reflect.Value) bool {
	switch v.Kind() {
	case reflect.Array, reflect.Map, reflect.Slice, reflect.String:
		return v.Len() == 0
	case reflect.Bool:
		return !v.Bool()
	case reflect.Int, reflect.Int8, reflect.Int16, reflect.Int32, reflect.Int64:
		return v.Int() == 0
	case reflect.Uint, reflect.Uint8, reflect.Uint16, reflect.Uint32, reflect.Uint64:
		return v.Uint() == 0
	case reflect.Float32, reflect.Float64:
		return v.Float() == 0
	case reflect.Interface, reflect.Ptr:
		return v.IsNil()
	}
	return false
}

func pinEncode(v reflect.Value, st *pinStats) interface{} {
	switch v.Kind() {
	case reflect.Invalid:
		return nil
	case reflect.Interface, reflect.Ptr:
		if v.IsNil() {
			return nil
		}
		return pinEncode(v.Elem(), st)
	case reflect.Struct:
		out := map[string]interface{}{}
		t := v.Type()
		for i := 0; i < t.NumField(); i++ {
			f := t.Field(i)
			if f.PkgPath != "" && !f.Anonymous {
				continue
			}
			if f.Anonymous && f.Tag.Get("json") == "" {
				fv := v.Field(i)
				for fv.Kind() == reflect.Ptr && !fv.IsNil() {
					fv = fv.Elem()
				}
				if fv.Kind() == reflect.Struct {
					if m, ok := pinEncode(fv, st).(map[string]interface{}); ok {
						for k, x := range m {
							out[k] = x
						}
					}
					continue
				}
			}
			if f.PkgPath != "" {
				continue
			}
			name, omit, skip := pinTag(t, f, st)
			if skip || (omit && pinEmpty(v.Field(i))) {
				continue
			}
			out[name] = pinEncode(v.Field(i), st)
		}
		return out
	case reflect.Map:
		if v.IsNil() {
			return nil
		}
		out := map[string]interface{}{}
		for _, k := range v.MapKeys() {
			out[fmt.Sprint(k.Interface())] = pinEncode(v.MapIndex(k), st)
		}
		return out
	case reflect.Slice:
		if v.IsNil() {
			return nil
		}
		fallthrough
	case reflect.Array:
		out := make([]interface{}, v.Len())
		for i := range out {
			out[i] = pinEncode(v.Index(i), st)
		}
		return out
	case reflect.Float32, reflect.Float64:
		return v.Float()
	case reflect.Int, reflect.Int8, reflect.Int16, reflect.Int32, reflect.Int64:
		return float64(v.Int())
	case reflect.Uint, reflect.Uint8, reflect.Uint16, reflect.Uint32, reflect.Uint64:
		return float64(v.Uint())
	case reflect.String:
		return v.String()
	case reflect.Bool:
		return v.Bool()
	}
	return fmt.Sprint(v.Interface())
}

// pinDiff: first path at which two JSON trees differ ("" = equal)
func pinDiff(want, got interface{}, path string) string {
	switch w := want.(type) {
	case map[string]interface{}:
		g, ok := got.(map[string]interface{})
		if !ok {
			return fmt.Sprintf("%s: expected an object, the response has %s", path, pinShort(got))
		}
		for _, k := range sortedJKeys(w) {
			gv, has := g[k]
			if !has {
				return fmt.Sprintf("%s: member %q is missing from the response", path, k)
			}
			if d := pinDiff(w[k], gv, path+"."+k); d != "" {
				return d
			}
		}
		for _, k := range sortedJKeys(g) {
			if _, has := w[k]; !has {
				return fmt.Sprintf("%s: unexpected member %q in the response", path, k)
			}
		}
		return ""
	case []interface{}:
		g, ok := got.([]interface{})
		if !ok {
			return fmt.Sprintf("%s: expected an array, the response has %s", path, pinShort(got))
		}
		if len(g) != len(w) {
			return fmt.Sprintf("%s: %d elements expected, %d in the response", path, len(w), len(g))
		}
		for i := range w {
			if d := pinDiff(w[i], g[i], fmt.Sprintf("%s[%d]", path, i)); d != "" {
				return d
			}
		}
		return ""
	}
	if !reflect.DeepEqual(want, got) {
		return fmt.Sprintf("%s: the decision holds %s, the response says %s", path, pinShort(want), pinShort(got))
	}
	return ""
}

func pinShort(v interface{}) string {
	b, _ := json.Marshal(v)
	return truncate(string(b), 80)
}

// pinCollect walks a decision and records the json tag of every struct field it meets (dumptags mode)
func pinCollect(v reflect.Value, into map[string]string) {
	switch v.Kind() {
	case reflect.Interface, reflect.Ptr:
		if !v.IsNil() {
			pinCollect(v.Elem(), into)
		}
	case reflect.Struct:
		t := v.Type()
		for i := 0; i < t.NumField(); i++ {
			f := t.Field(i)
			if f.PkgPath != "" && !f.Anonymous {
				continue
			}
			if f.PkgPath == "" {
				into[pinKey(t, f)] = f.Tag.Get("json")
			}
			pinCollect(v.Field(i), into)
		}
	case reflect.Map:
		for _, k := range v.MapKeys() {
			pinCollect(v.MapIndex(k), into)
		}
	case reflect.Slice, reflect.Array:
		for i := 0; i < v.Len(); i++ {
			pinCollect(v.Index(i), into)
		}
	}
}

func dumpTags(n int) int {
	into := map[string]string{}
	r := newRng(1)
	for i := 0; i < n; i++ {
		q := genRequest(r, ReqOpts{MaxBiases: 3})
		if _, _, ch := libraryDecide(q.JSON()); ch != nil {
			pinCollect(reflect.ValueOf(ch), into)
		}
	}
	keys := make([]string, 0, len(into))
	for k := range into {
		keys = append(keys, k)
	}
	sort.Strings(keys)
	fmt.Println("//go:build verif\n\npackage main\n\n// json tags of every struct field that can appear in a decision, as of the pinned tree (generated by\n// `harness dumptags`; the client-visible encoding is checked against THIS table, not against the tags of the\n// tree under test)\nvar pinnedTags = map[string]string{")
	for _, k := range keys {
		fmt.Printf("\t%q: %q,\n", k, into[k])
	}
	fmt.Println("}")
	return 0
}
