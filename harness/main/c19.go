//go:build verif && (c19 || allprops)

package main

import (
	"fmt"
	"strings"

	"github.com/Azbesciak/RealDecisionMaker/lib/logic/biases/anchoring"
	"github.com/Azbesciak/RealDecisionMaker/lib/model"
)

// C19: anchoring.
//   corr  : anchoring-apply (whole Apply), and stage-wise on what Go reported: anchoring-refpoints,
//           anchoring-scaling, anchoring-diffs (exact for linear gain/loss, 1e-12 relative where
//           math.Exp is involved), anchoring-applier (inline / newCriterion fed with Go's differences)
//   spec  : check-c19 (exact rationals) on Go's output, only for positive coefficients
//   oracle: a panic on valid props (tagged by class)

func drawListsSX(seed int64, lists, k int) SX {
	out := make(sxList, lists)
	for i := range out {
		out[i] = Nums(draws(seed+int64(i), k))
	}
	return out
}

// ---------- props generator ----------

func c19FuncDef(r *Rng) J {
	switch k := r.Intn(20); {
	case k < 2:
		return J{"function": "linear", "params": J{"a": 0.0, "b": 0.0}} // identically zero
	case k < 3:
		return J{"function": "linear"} // params omitted: zero
	case k < 13:
		return J{"function": "linear", "params": J{"a": float64(r.Intn(9)) / 4, "b": float64(r.Intn(5)-1) / 8}}
	case k < 14:
		return J{"function": "linear", "params": J{"a": -float64(r.Intn(5)) / 4, "b": float64(r.Intn(3)) / 8}}
	default:
		return J{"function": "expFromZero", "params": J{"alpha": float64(r.rangeInt(-4, 6)) / 2, "multiplier": float64(r.rangeInt(-2, 4)) / 4}}
	}
}

func c19Props(r *Rng, p *Problem) (J, string) {
	n := r.rangeInt(1, 4)
	var aa []interface{}
	for i := 0; i < n; i++ {
		a := J{"alternative": p.Known[r.Intn(len(p.Known))].Id}
		switch k := r.Intn(20); {
		case k < 14:
			a["coefficient"] = float64(r.rangeInt(1, 8)) / 2
		case k < 16:
			a["coefficient"] = 1.0
		case k < 17:
			a["coefficient"] = 0.0
		case k < 18:
			a["coefficient"] = -float64(r.rangeInt(1, 4)) / 2
		}
		aa = append(aa, a)
	}
	if r.chance(0.55) { // the property's domain: every coefficient positive
		for _, a := range aa {
			if k, ok := a.(J)["coefficient"].(float64); !ok || k <= 0 {
				a.(J)["coefficient"] = float64(r.rangeInt(1, 8)) / 2
			}
		}
	}
	applier := J{"function": "inline", "params": J{"applyOnNotConsidered": r.chance(0.5)}}
	if r.chance(0.1) {
		applier = J{"function": "inline", "params": J{}}
	}
	if r.chance(0.45) {
		ap := J{}
		if r.chance(0.8) {
			ap["randomSeed"] = r.Intn(1000)
		}
		r.refCritInto(ap)
		if r.chance(0.3) {
			ap["newCriterionImportance"] = []float64{0, 1, 0.5, 0.33, 1.5, r.Float64()}[r.Intn(6)]
		}
		applier = J{"function": "newCriterion", "params": ap}
	}
	r.boundingInto(applier["params"].(J))
	loss, gain := c19FuncDef(r), c19FuncDef(r)
	if r.chance(0.06) {
		loss = J{"function": "linear", "params": J{"a": 0.0, "b": 0.0}}
		gain = J{"function": "linear", "params": J{"a": 0.0, "b": 0.0}}
	}
	pr := J{"anchoringAlternatives": aa, "loss": loss, "gain": gain,
		"referencePoints": J{"function": []string{"ideal", "nadir"}[r.Intn(2)]}, "applier": applier}
	reject := ""
	switch k := r.Intn(100); {
	case k < 2:
		pr["anchoringAlternatives"] = []interface{}{}
		reject = "no-anchoring-alternatives"
	case k < 3:
		delete(pr, "anchoringAlternatives")
		reject = "no-anchoring-alternatives"
	case k < 5:
		aa[0].(J)["alternative"] = "nope"
		reject = "unknown-alternative"
	case k < 7:
		loss["function"] = "nope"
		reject = "unknown-function"
	case k < 8:
		gain["function"] = ""
		reject = "unknown-function"
	case k < 10:
		pr["referencePoints"] = J{"function": "nope"}
		reject = "unknown-reference-points"
	case k < 12:
		applier["function"] = "nope"
		reject = "unknown-applier"
	case k < 14:
		applier["params"].(J)["allowedValuesRangeScaling"] = 0.0
		reject = "bounding-zero"
	case k < 16 && applier["function"] == "newCriterion":
		applier["params"].(J)["referenceCriterionType"] = "nope"
		reject = "unknown-reference-type"
	}
	return pr, reject
}

// typedAlts rebuilds the props with `anchoringAlternatives` as a Go []map[string]interface{}
func typedAlts(props interface{}) interface{} {
	m := asMap(props)
	out := map[string]interface{}{}
	for k, v := range m {
		out[k] = v
	}
	l, _ := m["anchoringAlternatives"].([]interface{})
	t := make([]map[string]interface{}, len(l))
	for i, e := range l {
		t[i] = asMap(e)
	}
	out["anchoringAlternatives"] = t
	return out
}

func init() {
	props["C19"] = func(o *Out, r *Rng, n int, thorough bool) {
		for c := 0; c < n; c++ {
			o.Cases++
			if r.chance(0.2) {
				c19Multi(o, r, c)
			} else {
				c19Apply(o, r, c, thorough)
			}
		}
	}
}

func c19Apply(o *Out, r *Rng, c int, thorough bool) {
	opts := ReqOpts{ExtraWeightKey: 0.15}
	if thorough {
		opts.Prob.MaxCrit, opts.Prob.MaxAlt = 6, 9
	}
	if r.chance(0.4) {
		opts.Methods = []string{"weightedSum", "electreIII", "majorityHeuristic", "aspectEliminationHeuristic", "satisfactionHeuristic"}
	}
	q := genRequest(r, opts)
	dm := q.bind()
	orig, msg := prepareDMP(dm)
	if msg != "" {
		o.count("prepare-failed")
		return
	}
	l := biasListeners.Fetch(dm.PreferenceFunction)
	cur, prefix := orig, []appliedBias(nil)
	if r.chance(0.35) {
		cur, prefix = runPrefix(r, q, orig, l, c18Pool, r.rangeInt(1, 3))
	}
	pj, reject := c19Props(r, q.Problem)
	props := jsonProps(pj)
	if _, has := asMap(props)["anchoringAlternatives"]; has && r.chance(0.08) {
		props = typedAlts(props)
		o.count("typed-alternatives")
	}
	psx, positive := anchoringPropsSX(props)
	pm := asMap(props)
	ap := asMap(pm["applier"])
	applierFn, _ := ap["function"].(string)
	withExp := isExp(pm["loss"]) || isExp(pm["gain"])
	res, msg := applyReal("anchoring", orig, cur, props, l)

	o.count("method=" + q.Method)
	o.count("applier=" + applierFn)
	o.count(fmt.Sprintf("prefixlen=%d", len(prefix)))
	o.count(fmt.Sprintf("exp=%v", withExp))
	o.count(fmt.Sprintf("positive-coefficients=%v", positive))
	in := map[string]interface{}{"request": q.Body, "prefix": prefix, "bias": "anchoring", "props": props}
	m := Meta{Stage: "anchoring-apply", Case: c, Input: in, Key: sxString(L(dmpSX(cur), psx)),
		Trivial: len(cur.Criteria) < 2 && len(orig.ConsideredAlternatives) < 2}
	refDraws := Nums(draws(seedOf(ap["params"], "newCriterionRandomSeed"), 2))
	gens := drawListsSX(seedOf(ap["params"], "randomSeed"), 3, 24)
	if msg != "" {
		o.count("err")
		o.Corr(m, L(A("anchoring-apply"), dmpSX(cur), psx, refDraws, gens, L(A("none"))), okSX(L(A("err"))))
		if reject != "" {
			o.count("reject:" + reject)
			return
		}
		mo := m
		mo.Class = panicClass(q.Method, msg, len(prefix) == 0 || sameDMP(orig, cur), "anchoring", cur)
		if len(cur.Criteria) == 0 {
			mo.Class = "no-criteria"
		}
		mo.GoOut = msg
		o.count("panic:" + mo.Class)
		if mo.Class == "incoherent-input-state" || mo.Class == "no-criteria" { // outside the property's domain
			return
		}
		o.Oracle(mo, false, "panic:"+mo.Class)
		return
	}
	rep := res.Props.(anchoring.AnchoringResult)
	repSX := anchReportSX(rep)
	goDiffs := SX(L(A("none")))
	if withExp {
		goDiffs = L(A("some"), diffsSX(rep.PerReferencePointsDifferences))
	}
	m.GoOut = map[string]interface{}{"criteria": res.DMP.Criteria, "considered": res.DMP.ConsideredAlternatives,
		"notConsidered": res.DMP.NotConsideredAlternatives, "report": res.Props}
	o.Corr(m, L(A("anchoring-apply"), dmpSX(cur), psx, refDraws, gens, goDiffs), okSX(L(A("ok"), L(dmpSX(res.DMP), repSX))))

	// ---- stage-wise, every stage fed with what Go reported for the previous one
	all := cur.AllAlternatives()
	if rf, _ := asMap(pm["referencePoints"])["function"].(string); true {
		// the anchoring alternatives with the coefficients the code used
		altsSXl, typed, _ := anchoringAltsSX(pm["anchoringAlternatives"])
		wc := sxList{}
		for _, e := range altsSXl.(sxList) {
			pair := e.(sxList)
			id := strings.TrimPrefix(string(pair[0].(sxAtom)), "s:")
			a := model.FetchAlternative(&all, id)
			k := SX(Num(0))
			if opt := pair[1].(sxList); len(opt) == 2 {
				k = opt[1]
			} else if typed {
				k = Num(1)
			}
			wc = append(wc, L(altSX(a), k))
		}
		m.Stage = "anchoring-refpoints"
		o.Corr(m, L(A("anchoring-refpoints"), Str(rf), wc, critsSX(cur.Criteria)), okSX(L(A("ok"), altsSX(rep.ReferencePoints))))
	}
	m.Stage = "anchoring-scaling"
	o.Corr(m, L(A("anchoring-scaling"), critsSX(cur.Criteria), altsSX(all)), okSX(L(A("ok"), scalingSX(rep.CriteriaScaling))))
	m.Stage = "anchoring-diffs"
	dOp := L(A("anchoring-diffs"), altsSX(all), altsSX(rep.ReferencePoints), critsSX(cur.Criteria), scalingSX(rep.CriteriaScaling),
		funDefSX(pm["loss"]), funDefSX(pm["gain"]), goDiffs)
	if withExp {
		o.Corr(m, dOp, okSX(L(A("ok"), A("close"))))
	} else {
		o.Corr(m, dOp, okSX(L(A("ok"), diffsSX(rep.PerReferencePointsDifferences))))
	}
	m.Stage = "anchoring-" + strings.ToLower(applierFn)
	o.Corr(m, L(A("anchoring-applier"), dmpSX(cur), diffsSX(rep.PerReferencePointsDifferences), scalingSX(rep.CriteriaScaling),
		funDefSX(pm["applier"]), refDraws, gens), okSX(L(A("ok"), L(dmpSX(res.DMP), applierResultSX(rep.ApplierResult)))))

	if reject != "" {
		o.count("accepted-out-of-domain:" + reject)
		return
	}
	if !positive {
		o.count("spec-skipped:non-positive-coefficient")
		return
	}
	if !coherent(cur) {
		o.count("spec-skipped:incoherent-input-state")
		return
	}
	m.Stage = "anchoring-spec"
	o.Spec(m, L(A("check-c19"), dmpSX(cur), psx, dmpSX(res.DMP), repSX))
}

// c19Multi drives the stages after the reference-point evaluator with 2-3 reference points (through the
// verif-only exports of the anchoring package): the arithmetic mean of the inline applier and the
// per-reference-point criteria of the newCriterion applier are unreachable from Apply otherwise.
func c19Multi(o *Out, r *Rng, c int) {
	opts := ReqOpts{}
	if r.chance(0.6) {
		opts.Methods = []string{"weightedSum", "electreIII", "majorityHeuristic", "aspectEliminationHeuristic", "satisfactionHeuristic"}
	}
	q := genRequest(r, opts)
	dm := q.bind()
	cur, msg := prepareDMP(dm)
	if msg != "" {
		o.count("prepare-failed")
		return
	}
	l := biasListeners.Fetch(dm.PreferenceFunction)
	an := biases["anchoring"].(*anchoring.Anchoring)
	pj, _ := c19Props(r, q.Problem)
	props := jsonProps(pj)
	pm := asMap(props)
	all := cur.AllAlternatives()
	// reference points: ideal and nadir of random anchoring sets, and sometimes a known alternative itself
	var refs []model.AlternativeWithCriteria
	names := []string{"ideal", "nadir", "ideal"}
	for i := 0; i < r.rangeInt(2, 3); i++ {
		var aa []anchoring.AnchoringAlternativeWithCriteria
		for j := 0; j < r.rangeInt(1, 3); j++ {
			aa = append(aa, anchoring.AnchoringAlternativeWithCriteria{Alternative: all[r.Intn(len(all))], Coefficient: float64(r.rangeInt(1, 6)) / 2})
		}
		var rp []model.AlternativeWithCriteria
		if names[i] == "ideal" {
			rp = (&anchoring.IdealReferenceAlternativeEvaluator{}).Evaluate(nil, &aa, &cur.Criteria)
		} else {
			rp = (&anchoring.NadirReferenceAlternativeEvaluator{}).Evaluate(nil, &aa, &cur.Criteria)
		}
		rp[0].Id = fmt.Sprintf("%s%d", names[i], i)
		if r.chance(0.15) {
			rp[0].Id = names[i] // equal names: NotUsedName must number them
		}
		refs = append(refs, rp[0])
	}
	if len(refs) == 3 && r.chance(0.25) {
		// "ideal1" then "ideal": the second gets prefix count 1, candidate ...ideal1 is in use, NotUsedName
		// must count on to ...ideal2
		refs[0].Id, refs[2].Id = "ideal1", "ideal"
		o.count("multi:name-candidate-in-use")
	}
	lossDef := anchoring.FunctionDefinition{Function: asMap(pm["loss"])["function"].(string), Params: asMap(pm["loss"])["params"]}
	gainDef := anchoring.FunctionDefinition{Function: asMap(pm["gain"])["function"].(string), Params: asMap(pm["gain"])["params"]}
	ap := asMap(pm["applier"])
	apFn, _ := ap["function"].(string)
	apDef := anchoring.FunctionDefinition{Function: apFn, Params: ap["params"]}
	withExp := isExp(pm["loss"]) || isExp(pm["gain"])
	in := map[string]interface{}{"request": q.Body, "referencePoints": refs, "loss": pm["loss"], "gain": pm["gain"], "applier": ap}
	m := Meta{Stage: "anchoring-diffs-multi", Case: c, Input: in, Key: sxString(L(dmpSX(cur), altsSX(refs), propsSX(ap["params"])))}
	o.count(fmt.Sprintf("multi:refpoints=%d", len(refs)))
	o.count("multi:applier=" + apFn)
	scaling := anchoring.VerifScaling(&cur.Criteria, all)
	var diffs []anchoring.ReferencePointsDifference
	msg = recoverErr(func() { diffs = anchoring.VerifDiffs(an, all, refs, &cur.Criteria, scaling, &lossDef, &gainDef) })
	goDiffs := SX(L(A("none")))
	dOp := func() SX {
		return L(A("anchoring-diffs"), altsSX(all), altsSX(refs), critsSX(cur.Criteria), scalingSX(scaling), funDefSX(pm["loss"]), funDefSX(pm["gain"]), goDiffs)
	}
	if msg != "" {
		o.count("multi:diffs-err")
		o.Corr(m, dOp(), okSX(L(A("err"))))
		return
	}
	if withExp {
		goDiffs = L(A("some"), diffsSX(diffs))
		o.Corr(m, dOp(), okSX(L(A("ok"), A("close"))))
	} else {
		o.Corr(m, dOp(), okSX(L(A("ok"), diffsSX(diffs))))
	}
	var resD *model.DecisionMakingParams
	var resA anchoring.AnchoringApplierResult
	msg = recoverErr(func() { resD, resA = anchoring.VerifApplier(an, &apDef, cur, &diffs, scaling, l) })
	m.Stage = "anchoring-applier-multi"
	aOp := L(A("anchoring-applier"), dmpSX(cur), diffsSX(diffs), scalingSX(scaling), funDefSX(pm["applier"]),
		Nums(draws(seedOf(ap["params"], "newCriterionRandomSeed"), 2)), drawListsSX(seedOf(ap["params"], "randomSeed"), 3, 24))
	if msg != "" {
		o.count("multi:applier-err")
		o.Corr(m, aOp, okSX(L(A("err"))))
		return
	}
	o.Corr(m, aOp, okSX(L(A("ok"), L(dmpSX(resD), applierResultSX(resA)))))
	// the clauses after the reference point, on Go's output for the given reference points
	m.Stage = "anchoring-spec-multi"
	m.GoOut = map[string]interface{}{"criteria": resD.Criteria, "considered": resD.ConsideredAlternatives,
		"notConsidered": resD.NotConsideredAlternatives, "differences": diffs, "applierResult": resA}
	psx, _ := anchoringPropsSX(props)
	o.Spec(m, L(A("check-c19-stages"), dmpSX(cur), psx, dmpSX(resD),
		L(altsSX(refs), scalingSX(scaling), diffsSX(diffs), applierResultSX(resA))))
}
