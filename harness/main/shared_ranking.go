//go:build verif

package main

import (
	"github.com/Azbesciak/RealDecisionMaker/lib/model"
)

func rankingInput(ids []string, vals []float64) model.AlternativeResults {
	res := make(model.AlternativeResults, len(ids))
	for i := range ids {
		a := model.AlternativeWithCriteria{Id: ids[i], Criteria: model.Weights{}}
		res[i] = *model.ValueAlternativeResult(&a, vals[i])
	}
	return res
}

func rankingSX(rk *model.AlternativesRanking) SX {
	out := make(sxList, len(*rk))
	for i, e := range *rk {
		out[i] = L(Str(e.Alternative.Id), Num(e.Value()), Strs(e.BetterThanOrSameAs))
	}
	return out
}

func genValueList(r *Rng, maxN int) ([]string, []float64) {
	n := r.rangeInt(1, maxN)
	names := r.shuffled(ids("a", n))
	vals := make([]float64, n)
	mode := r.Intn(10)
	base := r.value()
	for i := range vals {
		switch {
		case mode == 0: // all equal
			vals[i] = base
		case mode <= 3: // few distinct levels
			vals[i] = float64(r.Intn(3))
		case mode == 5 && n <= 12: // very large magnitudes (finite, far from overflow): the order is still the order of the values
			vals[i] = float64(r.Intn(7)-3) * []float64{1e11, 2.5e12, 1e15}[r.Intn(3)]
		case mode == 4: // coincide only after 1e-8 rounding
			vals[i] = base + float64(r.Intn(3)-1)*2e-9
		default:
			vals[i] = r.value()
		}
	}
	return names, vals
}

func rankingJSON(rk *model.AlternativesRanking) interface{} {
	out := []interface{}{}
	for _, e := range *rk {
		out = append(out, map[string]interface{}{"id": e.Alternative.Id, "evaluation": e.Evaluation, "betterThanOrSameAs": e.BetterThanOrSameAs})
	}
	return out
}

func sameRanking(a, b *model.AlternativesRanking) (bool, string) {
	if len(*a) != len(*b) {
		return false, "length differs under permutation"
	}
	for i := range *a {
		x, y := (*a)[i], (*b)[i]
		if x.Alternative.Id != y.Alternative.Id {
			return false, "order differs under permutation at " + itoa(i)
		}
		if x.Value() != y.Value() {
			return false, "value differs under permutation for " + x.Alternative.Id
		}
		if !sameSet(x.BetterThanOrSameAs, y.BetterThanOrSameAs) {
			return false, "links differ under permutation for " + x.Alternative.Id
		}
	}
	return true, ""
}

func sameSet(a, b []string) bool {
	if len(a) != len(b) {
		return false
	}
	m := map[string]int{}
	for _, x := range a {
		m[x]++
	}
	for _, x := range b {
		m[x]--
	}
	for _, v := range m {
		if v != 0 {
			return false
		}
	}
	return true
}
